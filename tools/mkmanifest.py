#!/usr/bin/env python3
"""Assemble /verif/MANIFEST.json from manifest.d/Cnn.json fragments (one per claimed property)
and manifest.d/not_applicable.json (reasons for properties not claimed).  Validates against the schema."""
import glob
import json
import os
import sys

HERE = os.path.dirname(os.path.dirname(os.path.abspath(__file__)))
props = [json.loads(l)["id"] for l in open(os.path.join(HERE, "properties.jsonl"))]
checks = []
for p in sorted(glob.glob(os.path.join(HERE, "manifest.d", "C[0-9][0-9].json"))):
    frag = json.load(open(p))
    pid = frag["property_id"]
    frag.setdefault("quick_cmd", "./check %s --tier quick" % pid)
    frag.setdefault("thorough_cmd", "./check %s --tier thorough" % pid)
    frag.setdefault("evidence_file", "/verif/evidence/%s.json" % pid)
    frag.setdefault("replay_cmd_template", "./check %s --replay {path}" % pid)
    frag.setdefault("engine", "coq-proof+correspondence")
    checks.append(frag)
claimed = {c["property_id"] for c in checks}
na_reasons = {}
nap = os.path.join(HERE, "manifest.d", "not_applicable.json")
if os.path.exists(nap):
    na_reasons = json.load(open(nap))
na = []
for pid in props:
    if pid not in claimed:
        na.append({"property_id": pid,
                   "reason": na_reasons.get(pid, "not claimed yet: model/proof/correspondence for this property are not "
                                                 "built in the committed tree (planned, DESIGN.md section 8); no check is "
                                                 "registered rather than registering one that cannot decide it")})
hooks_commits = []
hp = os.path.join(HERE, "manifest.d", "hooks.json")
hooks = {"guard": "QB_VERIF",
         "enable": "no source hooks: the harnesses compile lib/*.c of the working tree directly (ASan/UBSan, tsan-stub "
                   "instrumentation, -Wl,--wrap); nothing in /repo is guarded by the define",
         "baseline_off_cmd": "cd /repo && make check",
         "source_commits": hooks_commits, "add_only": True}
if os.path.exists(hp):
    hooks.update(json.load(open(hp)))
man = {
    "version": 1,
    "setup_cmd": "./check --setup",
    "hooks": hooks,
    "engines": [{"name": "coq-proof+correspondence", "path": "/verif/check",
                 "serves_properties": sorted(claimed),
                 "kind_free_text": "Rocq/Coq 8.16 theorems about hand-written executable Gallina models (coq/), tied to /repo "
                                   "on every run by constants regenerated from the sources (harness/consts) and by a "
                                   "correspondence check: extracted OCaml model vs. the real lib/*.c under ASan/UBSan on "
                                   "generated operation scripts, plus an independent implementation-side property monitor"}],
    "checks": checks,
    "not_applicable": na,
    "notes": "See DESIGN.md. known_findings.json lists recorded findings and fixed: entries. Exit 2 from a check means the "
             "check could not run (e.g. /repo does not compile); it is not a verdict.",
}
out = os.path.join(HERE, "MANIFEST.json")
json.dump(man, open(out, "w"), indent=1)
try:
    import jsonschema
    jsonschema.validate(man, json.load(open("/root/.vp/MANIFEST.schema.json")))
    print("MANIFEST.json written and valid: %d checks, %d not claimed" % (len(checks), len(na)))
except ImportError:
    print("MANIFEST.json written (jsonschema not available to validate)")
