#!/usr/bin/env python3
"""c2coq - a small translator from a subset of C (as parsed by clang) to Gallina.

Second half of the tie between the Coq models and /repo (DESIGN.md section 4.6): for the leaf functions named
in harness/c2coq/<topic>.json the Gallina text is REGENERATED from the current source on every run
(coq/gen/Src_<topic>.v), and coq/<Topic>SrcEq.v proves, for all inputs, that the hand-written model function
equals the translated one.  A change to such a C function therefore changes the generated definition and the
equivalence proof is re-checked against what the code says now.

What is translated (anything else raises Unsupported and the function is reported, never silently skipped):
  * integer locals and parameters (any width/signedness; every operation is wrapped to the C type clang gives
    the expression: unsigned -> mod 2^N, signed -> two's complement wrap, i.e. signed overflow is modelled as
    wrap-around), integer casts, + - * / % << >> & | ^ ~ ! comparisons && || ?: sizeof of scalar types,
    enum constants, integer/character literals;
  * memory is seen through ACCESS PATHS rooted at pointer parameters or globals: `rb->shared_hdr->write_pt'
    becomes the Z-valued input `rb_shared_hdr_write_pt'; `rb->shared_data[i]' becomes the function-valued input
    `rb_shared_data : Z -> Z' applied to i.  A store to a path updates the corresponding variable, and the final
    value of every stored path is returned next to the C return value.  Distinct paths are assumed not to alias
    (stated in the trusted base);
  * statements: declarations, assignments (= op=), ++/--, if/else, return, blocks, `do { } while (0)',
    while/for/do loops without `return' inside (break/continue allowed): a loop becomes a local fixpoint on
    fuel; a function containing a loop takes `fuel : nat' and returns `option', None = out of fuel;
  * calls: to another function of the same spec (its paths are re-rooted at the argument), to an `intrinsic'
    (load/store through a pointer, listed in the spec), or to a function listed under `oracle_calls' (assumed
    free of effects on the modelled paths; its result becomes an extra input `callN_<name>').

  * ELEMENT REFERENCES: a local of type `struct T *' that is bound by a call listed under `ref_intrinsics'
    (e.g. `qb_array_index(arr, idx, (void **)&entry)': {"array": 0, "index": 1, "out": 2}) denotes element
    `idx' of the array-like path of `arr'; the index is an ordinary Z-valued local (`entry_i'), the base path is
    fixed per local.  `entry->f' is then the function-valued path `<arr>_f' applied to `entry_i'.  The result of
    the binding call itself is an oracle stream like any other external call.  A member access through any other
    non-parameter local pointer is rejected (Unsupported).
  * ALIASES: a local pointer that is assigned exactly once in the whole function, outside any loop, and whose
    address is never taken, stands for what it was assigned: when that is an access path (`hdr = (struct h *)
    c->receive_buf', `p = &c->request') `hdr->size' is the path `c_receive_buf_size'; when it is a call result the
    local names one object and `c->f' is the path `c_f'.  A store to a pointer that other paths go through
    (`c->receive_buf = x' while `c_receive_buf_size' is in use) is rejected.
  * spec key "object_locals": ["hdr", ...]: the spec author ASSERTS that this local pointer denotes one object for
    the whole call, however it is obtained (out-parameter of an external call in one branch, assignment in
    another); `hdr->size' is then the path `hdr_size'.  This is an assumption of the tie, repeated in the
    generated file's comments.
  * spec key "logged_calls": [labels]: for these oracle calls the arguments are recorded: argument i of the k-th
    call is stored at `arg<i>_<label> k' (function-valued paths returned like any other stored path), so a theorem
    can say what a callback was told.
  * further intrinsic kinds: "add" (`f(&lv, v)': lv += v), "xadd" (`f(&lv, v)': lv += v, value = old lv),
    "zero_struct" (`memset(ref, 0, sizeof(struct T))': every scalar field of the element := 0);
  * the comma operator whose left operand has no call and no assignment (the `(void) sizeof(...)' type checks of
    qbatomic.h) is its right operand.  A call with effects on the state (oracle counter, stores, binding) in the
    right operand of && / || or in a branch of ?: is rejected (it would be hoisted out of its guard).

  * `do { } while (c)' with a real condition (body first, then the test), `switch' over a call-free expression
    whose case groups each end in break/return (no fall-through between non-empty groups; it becomes an if-chain),
    forward `goto L' to a label of an enclosing statement list from outside any loop (the code from the label on
    is the continuation at the jump site - the `goto cleanup' idiom); a backward goto is rejected;
    glibc's assert() in both forms (statement expression / `(void)0').

  * (session 4) an `if' without escape whose branch runs a loop (or calls a translated function with one) joins through the
    option (`match (if c then .. Some t else .. Some t) with None => None | Some t => ..'); `&path' of a struct member handed
    to a translated callee is the opaque input `<path>_ptr' while the callee's accesses are re-rooted at <path>; a local
    `enum { K = 4 };' only defines constants; CURSORS: a byte-pointer local initialised from a pointer PARAMETER p
    (`uint8_t *cd = (uint8_t *)p;' / `(uint8_t *)p + n') is represented by its byte offset, `*cd' is `p_bytes cd',
    `cd++' and comparisons of two cursors over the same parameter are integer operations on the offsets (cursors over
    different parameters must not be compared - not checked); an argument of a logged call that is outside the subset
    keeps its path unchanged.

Output conventions: all values are Z.  `u32 x' = x mod 2^32 etc. come from coq/C2CoqPrelude.v.
"""
import json
import os
import re
import subprocess
import sys


class Unsupported(Exception):
    pass


INT_TYPES = {
    "_Bool": (8, False), "char": (8, True), "signed char": (8, True), "unsigned char": (8, False),
    "short": (16, True), "unsigned short": (16, False), "int": (32, True), "unsigned int": (32, False),
    "long": (64, True), "unsigned long": (64, False), "long long": (64, True), "unsigned long long": (64, False),
}


def desugar(t):
    q = t.get("desugaredQualType", t.get("qualType", ""))
    q = re.sub(r"\b(const|volatile|restrict)\b", "", q).strip()
    q = re.sub(r"\s+", " ", q)
    return q


def int_type(t):
    """(bits, signed) of an integer (or enum / pointer) clang type dict, or None."""
    q = desugar(t)
    if q in INT_TYPES:
        return INT_TYPES[q]
    if q.startswith("enum "):
        return (32, False)
    if q.endswith("*") or "(*)" in q:
        return (64, False)
    return None


def src_offset(n):
    """byte offset of the start of a statement in the translation unit's main file (None when clang gives none)"""
    b = n.get("range", {}).get("begin", {})
    for d in (b, b.get("expansionLoc", {}), b.get("spellingLoc", {})):
        if "offset" in d:
            return d["offset"]
    return None


def record_pointee(t):
    """name of the struct a `struct T *' type points to, else None"""
    q = desugar(t)
    m = re.match(r"^struct ([A-Za-z_][A-Za-z0-9_]*) \*$", q)
    return m.group(1) if m else None


def wrap(t, s):
    it = int_type(t)
    if it is None:
        raise Unsupported("non-integer type %r" % desugar(t))
    return "(%s%d %s)" % ("s" if it[1] else "u", it[0], s)


def cname(s):
    s = re.sub(r"[^A-Za-z0-9_]", "_", s)
    if s in ("fix", "match", "end", "in", "let", "fun", "if", "then", "else", "at", "as", "return", "with", "Set",
             "Type", "Prop", "forall", "exists", "struct", "where", "for", "using", "mod"):
        s += "_"
    return s


class Var:
    def __init__(self, name, kind):
        self.name = name      # Gallina identifier
        self.kind = kind      # "Z" or "arr"


class Fn:
    """Translation of one FunctionDecl."""

    def __init__(self, tu, decl, spec, done):
        self.tu, self.decl, self.spec, self.done = tu, decl, spec, done
        self.name = decl["name"]
        self.params = [p for p in decl.get("inner", []) if p["kind"] == "ParmVarDecl"]
        self.body = next(c for c in decl.get("inner", []) if c["kind"] == "CompoundStmt")
        self.inputs = []          # ordered Var list: scalar params, then paths in order of first read
        self.input_names = {}
        self.written = []         # names of paths stored to (in order of first store)
        self.locals = {}          # decl id -> Var
        self.has_loop = False
        self.cursor = {}          # local id -> byte-array path of the pointer parameter it walks over
        self.pre = []
        self.loopn = 0
        self.loop_depth = 0
        self.loop_rets = []
        self.on_break = self.on_continue = None
        self.ncalls = 0
        self.notes = []
        self.labels = {}          # label decl id -> thunk translating the code from the label on (forward gotos)
        self.aux = []             # top-level Fixpoints of the loops, emitted in front of the function
        self.refbase = {}         # decl id of a `struct T *' local bound by a ref intrinsic -> base path name
        self.reftype = {}         # decl id -> record name
        self.rettype = decl["type"]["qualType"].split("(")[0].strip()
        self.ret_void = self.rettype == "void"
        for p in self.params:
            it = int_type(p["type"])
            if it is None:
                raise Unsupported("parameter %s of type %s" % (p.get("name"), desugar(p["type"])))
            v = Var(cname(p["name"]), "Z")
            self.locals[p["id"]] = v
            self.add_input(v)
        self.param_ids = {p["id"] for p in self.params}
        # pointer locals: number of assignments (initialiser included) and whether the address is taken
        self.ptr_assigns, self.addr_taken = {}, set()
        self.alias, self.single = {}, set()
        for n in walk(self.body):
            kd = n.get("kind")
            if kd == "VarDecl" and any("kind" in c for c in n.get("inner", [])):
                self.ptr_assigns[n["id"]] = self.ptr_assigns.get(n["id"], 0) + 1
            elif kd == "BinaryOperator" and n.get("opcode") == "=" or kd == "CompoundAssignOperator" or \
                    (kd == "UnaryOperator" and n.get("opcode") in ("++", "--")):
                t = n["inner"][0]
                while t.get("kind") in ("ParenExpr",):
                    t = t["inner"][0]
                if t.get("kind") == "DeclRefExpr":
                    i_ = t["referencedDecl"]["id"]
                    self.ptr_assigns[i_] = self.ptr_assigns.get(i_, 0) + (1 if kd == "BinaryOperator" else 2)
            elif kd == "UnaryOperator" and n.get("opcode") == "&":
                t = n["inner"][0]
                while t.get("kind") in ("ParenExpr",):
                    t = t["inner"][0]
                if t.get("kind") == "DeclRefExpr":
                    self.addr_taken.add(t["referencedDecl"]["id"])
        # element references: the base path of every local bound by a ref intrinsic is fixed before translation
        for n in walk(self.body):
            if n.get("kind") != "CallExpr":
                continue
            nm, _ = self.callee_name(n)
            ri = self.spec.get("ref_intrinsics", {}).get(nm)
            if not ri:
                continue
            args = n["inner"][1:]
            out = args[ri["out"]]
            while out["kind"] in ("ImplicitCastExpr", "CStyleCastExpr", "ParenExpr") or \
                    (out["kind"] == "UnaryOperator" and out["opcode"] == "&"):
                out = out["inner"][0]
            rid = out.get("referencedDecl", {}).get("id") if out["kind"] == "DeclRefExpr" else None
            try:
                arr = self.path_of(args[ri["array"]])
            except Unsupported:
                continue
            if rid is None or arr[1] is not None:
                continue
            if self.refbase.get(rid) not in (None, arr[0]):
                raise Unsupported("a local is bound to elements of two different arrays")
            self.refbase[rid] = arr[0]

    # ------------------------------------------------------------------ inputs / paths
    def add_input(self, v):
        if v.name not in self.input_names:
            self.input_names[v.name] = v
            self.inputs.append(v)
        return self.input_names[v.name]

    def path_of(self, e):
        """Access path of an lvalue expression -> (name, index_expr_or_None, elem_type)."""
        k = e["kind"]
        if k in ("ParenExpr",):
            return self.path_of(e["inner"][0])
        if k == "ImplicitCastExpr" or k == "CStyleCastExpr":
            return self.path_of(e["inner"][0])
        if k == "DeclRefExpr":
            rd = e["referencedDecl"]
            if rd["id"] in self.alias:
                return self.path_of(self.alias[rd["id"]])
            if rd["id"] in self.locals:
                if self.locals[rd["id"]].kind == "bad":
                    raise Unsupported("use of non-integer local %s" % rd.get("name"))
                if self.locals[rd["id"]].kind == "ref":
                    if self.refbase.get(rd["id"]) is None:
                        raise Unsupported("element reference %s used before a binding call" % rd.get("name"))
                    return (self.refbase[rd["id"]], {"kind": "__raw", "text": self.locals[rd["id"]].name,
                                                     "type": {"qualType": "long"}}, e["type"], None)
                return (self.locals[rd["id"]].name, None, e["type"], rd["id"])
            if rd["kind"] == "VarDecl":          # global
                return ("g_" + cname(rd["name"]), None, e["type"], None)
            raise Unsupported("reference to %s %s" % (rd["kind"], rd.get("name")))
        if k == "MemberExpr":
            base = self.path_of(e["inner"][0])
            if base[3] is not None and base[3] not in self.param_ids and base[3] not in self.single and \
                    base[0] in self.spec.get("object_locals", []):
                note = "the local pointer %s is taken to denote one object for the whole call (object_locals in the spec)" % base[0]
                if note not in self.notes:
                    self.notes.append(note)
            elif base[3] is not None and base[3] not in self.param_ids and base[3] not in self.single:
                raise Unsupported("member access through the local pointer %s (assigned more than once, in a loop, or its "
                                  "address is taken; not an element reference)" % base[0])
            if base[1] is not None:
                # field of an array element: the function-valued path <array>_<field> at the element's index
                return (base[0] + "_" + cname(e["name"]), base[1], e["type"], None)
            return (base[0] + "_" + cname(e["name"]), None, e["type"], None)
        if k == "ArraySubscriptExpr":
            base = self.path_of(e["inner"][0])
            if base[1] is not None:
                raise Unsupported("nested subscripts")
            return (base[0], e["inner"][1], e["type"], None)
        if k == "UnaryOperator" and e["opcode"] == "*" and self.is_errno(e["inner"][0]):
            return ("errno", None, e["type"], None)
        if k == "UnaryOperator" and e["opcode"] == "*":
            t0 = e["inner"][0]
            while t0.get("kind") in ("ImplicitCastExpr", "ParenExpr"):
                t0 = t0["inner"][0]
            if t0.get("kind") == "DeclRefExpr" and t0["referencedDecl"]["id"] in self.cursor:
                cid = t0["referencedDecl"]["id"]
                return (self.cursor[cid], {"kind": "__raw", "text": self.locals[cid].name, "type": {"qualType": "unsigned long"}},
                        e["type"], None)
            base = self.path_of(e["inner"][0])
            if base[1] is not None:
                raise Unsupported("deref of an array element")
            nm = base[0]
            if base[3] is not None and base[3] in self.param_ids:
                nm += "_pointee"     # `*p' for a parameter p: the object, as distinct from the pointer value p
            return (nm, {"kind": "IntegerLiteral", "value": "0", "type": {"qualType": "int"}}, e["type"], None)
        if k == "UnaryOperator" and e["opcode"] == "&":
            return self.path_of(e["inner"][0])
        raise Unsupported("lvalue of kind %s" % k)

    def is_errno(self, e):
        while e["kind"] in ("ParenExpr", "ImplicitCastExpr"):
            e = e["inner"][0]
        if e["kind"] == "CallExpr":
            n, _ = self.callee_name(e)
            return n == "__errno_location"
        return False

    def is_local(self, p):
        return p[3] is not None and p[3] not in self.param_ids or (p[3] is not None and p[1] is None)

    # ------------------------------------------------------------------ expressions
    def cond(self, e):
        """expression in boolean context -> Gallina bool"""
        k = e["kind"]
        if k == "ParenExpr":
            return self.cond(e["inner"][0])
        if k == "ImplicitCastExpr" and e.get("castKind") in ("IntegralCast", "IntegralToBoolean", "NoOp"):
            inner = e["inner"][0]
            if inner["kind"] in ("BinaryOperator", "UnaryOperator", "ParenExpr") and self.is_boolish(inner):
                return self.cond(inner)
        if k == "BinaryOperator":
            op = e["opcode"]
            cmpo = {"<": "<?", "<=": "<=?", ">": ">?", ">=": ">=?", "==": "=?"}
            if op in cmpo:
                return "(%s %s %s)" % (self.expr(e["inner"][0]), cmpo[op], self.expr(e["inner"][1]))
            if op == "!=":
                return "(negb (%s =? %s))" % (self.expr(e["inner"][0]), self.expr(e["inner"][1]))
            if op == "&&":
                return "(%s && %s)" % (self.cond(e["inner"][0]), self.guarded(lambda: self.cond(e["inner"][1])))
            if op == "||":
                return "(%s || %s)" % (self.cond(e["inner"][0]), self.guarded(lambda: self.cond(e["inner"][1])))
        if k == "UnaryOperator" and e["opcode"] == "!":
            return "(negb %s)" % self.cond(e["inner"][0])
        return "(negb (%s =? 0))" % self.expr(e)

    def guarded(self, thunk):
        """translate an operand that C evaluates conditionally: it must not bind anything in front of the statement"""
        txt, pre = self.ev(thunk)
        if pre:
            raise Unsupported("call with effects inside the right operand of && / || or a branch of ?:")
        return txt

    def is_boolish(self, e):
        if e["kind"] == "ParenExpr":
            return self.is_boolish(e["inner"][0])
        if e["kind"] == "BinaryOperator":
            return e["opcode"] in ("<", "<=", ">", ">=", "==", "!=", "&&", "||")
        if e["kind"] == "UnaryOperator":
            return e["opcode"] == "!"
        return False

    def read_path(self, e):
        name, idx, ty, lid = self.path_of(e)
        if lid is not None and idx is None:
            return name
        if idx is None:
            v = self.add_input(Var(name, "Z"))
            return v.name
        v = self.add_input(Var(name, "arr"))
        if self.input_names[name].kind != "arr":
            raise Unsupported("path %s used both as scalar and as array" % name)
        return "(%s %s)" % (v.name, self.expr(idx))

    def expr(self, e):
        k = e["kind"]
        if k == "__raw":
            return e["text"]
        if k == "ParenExpr":
            return self.expr(e["inner"][0])
        if k == "ConstantExpr":
            return self.expr(e["inner"][0])
        if k == "IntegerLiteral":
            return self.lit(int(e["value"]))
        if k == "CharacterLiteral":
            return self.lit(int(e["value"]))
        if k in ("ImplicitCastExpr", "CStyleCastExpr"):
            ck = e.get("castKind")
            inner = e["inner"][0]
            if ck == "LValueToRValue":
                return self.read_path(inner)
            if ck in ("IntegralCast", "IntegralToBoolean"):
                if ck == "IntegralToBoolean":
                    return "(if %s then 1 else 0)" % self.cond(inner)
                return wrap(e["type"], self.expr(inner))
            if ck in ("NoOp", "BitCast", "NullToPointer", "PointerToIntegral", "IntegralToPointer",
                      "ArrayToPointerDecay", "FunctionToPointerDecay", "ToVoid"):
                return self.expr(inner)
            if ck == "PointerToBoolean":
                return "(if %s then 1 else 0)" % self.cond(inner)
            raise Unsupported("cast kind %s" % ck)
        if k == "DeclRefExpr":
            rd = e["referencedDecl"]
            if rd["kind"] == "EnumConstantDecl":
                return self.lit(self.tu.enum_value(rd["name"]))
            if rd["id"] in self.alias:
                return self.expr(self.alias[rd["id"]])
            if rd["id"] in self.locals:
                if self.locals[rd["id"]].kind == "bad":
                    raise Unsupported("use of non-integer local %s" % rd.get("name"))
                return self.locals[rd["id"]].name
            if rd["kind"] == "FunctionDecl":
                return self.add_input(Var("fnptr_" + cname(rd["name"]), "Z")).name
            return self.read_path(e)
        if k in ("MemberExpr", "ArraySubscriptExpr"):
            return self.read_path(e)
        if k == "UnaryExprOrTypeTraitExpr":
            if e.get("name") != "sizeof":
                raise Unsupported(e.get("name"))
            t = e.get("argType") or e["inner"][0]["type"]
            it = INT_TYPES.get(desugar(t))
            if it is None:
                if desugar(t).endswith("*"):
                    return "8"
                return self.lit(self.tu.sizeof(t.get("qualType")))
            return str(it[0] // 8)
        if k == "UnaryOperator":
            op = e["opcode"]
            a = e["inner"][0]
            if op == "-":
                return wrap(e["type"], "(- %s)" % self.expr(a))
            if op == "+":
                return self.expr(a)
            if op == "~":
                return wrap(e["type"], "(Z.lnot %s)" % self.expr(a))
            if op == "!":
                return "(if %s then 0 else 1)" % self.cond(a)
            if op == "*":
                return self.read_path(e)
            if op == "&":
                # address of an element of an array-like path: pointer value of the path + index * element size
                name, idx, ty, lid = self.path_of(a)
                if lid is not None:
                    raise Unsupported("address of a local")
                it = int_type(ty)
                if it is None:
                    raise Unsupported("address of a non-integer object")
                base = self.add_input(Var(name + "_ptr", "Z")).name
                if idx is None:
                    return base
                return "(%s + %d * %s)" % (base, it[0] // 8, self.expr(idx))
            raise Unsupported("unary %s inside an expression" % op)
        if k == "BinaryOperator":
            op = e["opcode"]
            a, b = e["inner"]
            if op in ("<", "<=", ">", ">=", "==", "!=", "&&", "||"):
                return "(if %s then 1 else 0)" % self.cond(e)
            if op == ",":
                if any(n.get("kind") in ("CallExpr", "CompoundAssignOperator") or
                       (n.get("kind") == "BinaryOperator" and n.get("opcode") == "=") or
                       (n.get("kind") == "UnaryOperator" and n.get("opcode") in ("++", "--")) for n in walk(a)):
                    raise Unsupported("comma operator with effects in its left operand")
                return self.expr(b)
            if op == "=" or op.endswith("=") and op not in ("==", "!=", "<=", ">="):
                raise Unsupported("assignment inside an expression")
            x, y = self.expr(a), self.expr(b)
            it = int_type(e["type"])
            if it is None:
                raise Unsupported("arithmetic on %s" % desugar(e["type"]))
            if desugar(e["type"]).endswith("*"):
                raise Unsupported("pointer arithmetic")
            m = {"+": "(%s + %s)", "-": "(%s - %s)", "*": "(%s * %s)", "/": "(Z.quot %s %s)", "%": "(Z.rem %s %s)",
                 "<<": "(Z.shiftl %s %s)", ">>": "(Z.shiftr %s %s)", "&": "(Z.land %s %s)", "|": "(Z.lor %s %s)",
                 "^": "(Z.lxor %s %s)"}
            if op not in m:
                raise Unsupported("binary %s" % op)
            s = m[op] % (x, y)
            if op in ("&", "|", "^", ">>") or (op in ("/", "%") and not it[1]):
                # results of these stay inside the type's range when the operands are
                return s
            return wrap(e["type"], s)
        if k == "ConditionalOperator":
            c, a, b = e["inner"]
            return "(if %s then %s else %s)" % (self.cond(c), self.guarded(lambda: self.expr(a)),
                                                self.guarded(lambda: self.expr(b)))
        if k == "CallExpr":
            return self.call(e, want_value=True)[0]
        raise Unsupported("expression kind %s" % k)

    @staticmethod
    def lit(n):
        return str(n) if n >= 0 else "(%d)" % n

    # ------------------------------------------------------------------ calls
    def callee_name(self, e):
        f = e["inner"][0]
        while f["kind"] in ("ImplicitCastExpr", "ParenExpr"):
            f = f["inner"][0]
        if f["kind"] == "DeclRefExpr" and f["referencedDecl"]["kind"] == "FunctionDecl":
            return f["referencedDecl"]["name"], None
        return None, f

    def call(self, e, want_value):
        """-> (value expression, list of (path name, kind, new value expr) stores)"""
        name, fexpr = self.callee_name(e)
        args = e["inner"][1:]
        intr = self.spec.get("intrinsics", {})
        if name in self.spec.get("ignored_calls", []):
            note = "call(s) to %s dropped (listed under ignored_calls: no effect on the modelled paths)" % name
            if note not in self.notes:
                self.notes.append(note)
            return "0", []
        if name in intr:
            what = intr[name]
            if what == "load":          # f(&lvalue) -> value
                val = self.read_path(args[0])
                return wrap(e["type"], val), []
            if what == "store":         # f(&lvalue, v)
                p = self.path_of(args[0])
                return "0", [(p, self.expr(args[1]))]
            if what in ("add", "xadd"):  # f(&lvalue, v): lvalue += v; xadd returns the old value
                p = self.path_of(args[0])
                cur = self.read_path(args[0])
                self.ncalls += 1
                old = "x%d_old" % self.ncalls
                newv = "(%s + %s)" % (old, self.expr(args[1]))
                self.pre.append(("let %s := %s in\n" % (old, cur) + self.store(p, newv, lambda: ""), ""))
                return old, []
            if what == "zero_struct":   # memset(ref, 0, sizeof(struct T))
                a0 = args[0]
                while a0["kind"] in ("ImplicitCastExpr", "CStyleCastExpr", "ParenExpr"):
                    a0 = a0["inner"][0]
                rid = a0.get("referencedDecl", {}).get("id") if a0["kind"] == "DeclRefExpr" else None
                if rid in self.locals and rid not in self.param_ids and self.locals[rid].kind == "Z":
                    note = "memset of the object a local pointer (%s) refers to dropped: the object is not among the " \
                           "modelled paths" % self.locals[rid].name
                    if note not in self.notes:
                        self.notes.append(note)
                    return "0", []
                if rid not in self.refbase or self.refbase.get(rid) is None:
                    raise Unsupported("memset of something that is not a bound element reference")
                if self.tu.const_value(args[1]) != 0:
                    raise Unsupported("memset with a non-zero fill")
                txt = ""
                for fname, fty in self.tu.record_fields(self.reftype[rid]):
                    if int_type(fty) is None:
                        raise Unsupported("memset over the non-scalar field %s" % fname)
                    pth = (self.refbase[rid] + "_" + cname(fname),
                           {"kind": "__raw", "text": self.locals[rid].name, "type": {"qualType": "long"}}, fty, None)
                    txt += self.store(pth, "0", lambda: "")
                self.pre.append((txt, ""))
                return "0", []
            raise Unsupported("intrinsic kind %s" % what)
        if name in self.spec.get("ref_intrinsics", {}):
            # f(..array.., ..index.., ..(void **)&local..): binds the local to element `index' of the array path;
            # the C result is an oracle stream
            ri = self.spec["ref_intrinsics"][name]
            arr = self.path_of(args[ri["array"]])
            if arr[1] is not None:
                raise Unsupported("%s on an element of an array" % name)
            out = args[ri["out"]]
            while out["kind"] in ("ImplicitCastExpr", "CStyleCastExpr", "ParenExpr") or \
                    (out["kind"] == "UnaryOperator" and out["opcode"] == "&"):
                out = out["inner"][0]
            rid = out.get("referencedDecl", {}).get("id") if out["kind"] == "DeclRefExpr" else None
            if rid not in self.locals or self.locals[rid].kind != "ref":
                raise Unsupported("%s: the out argument is not a local struct pointer" % name)
            if self.refbase.get(rid) not in (None, arr[0]):
                raise Unsupported("local %s is bound to elements of two different arrays" % self.locals[rid].name)
            self.refbase[rid] = arr[0]
            idx = self.expr(args[ri["index"]])
            label = cname(name)
            orc = self.add_input(Var("orc_" + label, "arr")).name
            cnt = "cnt_" + label
            self.add_input(Var(cnt, "Z"))
            if cnt not in self.written:
                self.written.append(cnt)
            self.ncalls += 1
            rv = "c%d_%s" % (self.ncalls, label)
            note = "calls to %s: the k-th result is (%s k) for an arbitrary stream; %s counts them; the call binds its " \
                   "out argument to the element with the given index" % (name, orc, cnt)
            if note not in self.notes:
                self.notes.append(note)
            self.pre.append(("let %s := %s %s in\nlet %s := %s + 1 in\nlet %s := %s in\n"
                             % (rv, orc, cnt, cnt, cnt, self.locals[rid].name, idx), ""))
            return wrap(e["type"], rv), []
        if name in self.done:
            cal = self.done[name]
            # bind callee inputs
            bind = {}
            for p, a in zip(cal.params, args):
                bind[cname(p["name"])] = a
            actuals = []
            for v in cal.inputs:
                root = next((r for r in sorted(bind, key=len, reverse=True)
                             if v.name == r or v.name.startswith(r + "_")), None)
                if root is None:
                    # global or oracle input of the callee: becomes an input of the caller as well
                    actuals.append(self.add_input(Var(v.name, v.kind)).name)
                    continue
                a = bind[root]
                if v.name == root:
                    try:
                        actuals.append(self.expr(a))
                    except Unsupported:
                        # `&path' of a struct-typed object (`&my_src->timerlist') handed to a translated callee: the
                        # pointer value itself is an opaque input <path>_ptr; what the callee reads and writes through
                        # it is re-rooted at <path> below, like for any other pointer argument
                        b = self.path_of(a)
                        if b[1] is not None or b[3] is not None:
                            raise
                        actuals.append(self.add_input(Var(b[0] + "_ptr", "Z")).name)
                    continue
                base = self.path_of(a)
                if base[1] is not None:
                    raise Unsupported("array element passed to %s" % name)
                nm = base[0] + v.name[len(root):]
                actuals.append(self.add_input(Var(nm, v.kind)).name if nm not in self.local_path_names() else nm)
            if cal.has_loop_anywhere:
                actuals = ["fuel"] + actuals
            callexp = "(%s %s)" % (cal.name, " ".join(actuals)) if actuals else cal.name
            if not cal.written and not cal.has_loop_anywhere:
                return callexp, []
            # the callee returns (C result, final values of the paths it stores to): bind them here
            outs = []
            for nm, kindw in self.callee_outs(cal, args):
                self.add_input(Var(nm, kindw))
                if nm not in self.written:
                    self.written.append(nm)
                outs.append(nm)
            self.ncalls += 1
            rv = "r%d_%s" % (self.ncalls, cname(name))
            pat = ([rv] if not cal.ret_void else []) + outs
            pats = pat[0] if len(pat) == 1 else "'(" + ", ".join(pat) + ")" if pat else "_"
            if cal.has_loop_anywhere:
                self.pre.append(("match %s with None => None | Some %s =>\n" % (callexp, pats.lstrip("'")), "\nend"))
            else:
                self.pre.append(("let %s := %s in\n" % (pats, callexp), ""))
            return rv, []
        if name in self.spec.get("oracle_calls", []) or (name is None and self.spec.get("oracle_indirect_calls")):
            # result of the k-th call = orc_X k, for an arbitrary stream orc_X; the call counter is threaded like a
            # stored path, so two calls (also in different loop iterations) may return different values
            label = cname(name) if name else self.path_of(fexpr)[0]
            orc = self.add_input(Var("orc_" + label, "arr")).name
            cnt = "cnt_" + label
            self.add_input(Var(cnt, "Z"))
            if cnt not in self.written:
                self.written.append(cnt)
            logtxt = ""
            havoc = ""
            for ai, a_ in enumerate(args):   # arguments are evaluated (they may read paths); recorded when asked for
                ol = self.out_local(a_)
                if ol is not None:
                    # the callee may store anything into a local whose address it is given
                    oo = self.add_input(Var("orc_%s_out%d" % (label, ai), "arr")).name
                    havoc += "let %s := %s %s in\n" % (self.locals[ol].name, oo, cnt)
                    continue
                try:
                    av = self.expr(a_)
                except Unsupported:
                    if label in self.spec.get("logged_calls", []):
                        # an argument outside the subset (e.g. `&c->request') is not recorded; the path still exists
                        # (and is returned unchanged) because the statement pre-pass counts it among the stored ones
                        an = "arg%d_%s" % (ai, label)
                        self.add_input(Var(an, "arr"))
                        if an not in self.written:
                            self.written.append(an)
                    continue
                if label in self.spec.get("logged_calls", []):
                    an = "arg%d_%s" % (ai, label)
                    self.add_input(Var(an, "arr"))
                    if an not in self.written:
                        self.written.append(an)
                    logtxt += "let %s := upd %s %s %s in\n" % (an, an, cnt, av)
            self.ncalls += 1
            rv = "c%d_%s" % (self.ncalls, label)
            note = "calls to %s: the k-th result is (%s k) for an arbitrary stream; %s counts them " \
                   "(assumed without effect on the modelled paths)" % (name or "the function pointer " + label, orc, cnt)
            if note not in self.notes:
                self.notes.append(note)
            self.pre.append((logtxt + havoc + "let %s := %s %s in\nlet %s := %s + 1 in\n" % (rv, orc, cnt, cnt, cnt), ""))
            return (wrap(e["type"], rv) if int_type(e["type"]) and not self.ret_is_void_call(e) else rv), []
        raise Unsupported("call to %s (not in this spec, not an intrinsic, not listed as oracle)" % (name or "a function pointer"))

    @staticmethod
    def ret_is_void_call(e):
        return e["type"].get("qualType") == "void"

    def callee_outs(self, cal, args):
        """caller-side names and kinds of the paths a translated callee stores to"""
        bind = {}
        for p, a in zip(cal.params, args):
            bind[cname(p["name"])] = a
        res = []
        for w in cal.written:
            root = next((r for r in sorted(bind, key=len, reverse=True) if w == r or w.startswith(r + "_")), None)
            if root is None:
                nm = w
            else:
                base = self.path_of(bind[root])
                nm = base[0] + w[len(root):]
            res.append((nm, cal.input_names[w].kind if w in cal.input_names else "Z"))
        return res

    def local_path_names(self):
        return set(self.written)

    # ------------------------------------------------------------------ statements
    def assigned_vars(self, s, acc):
        """(name, kind) of every variable / path a statement may assign, for if-joins and loop states"""
        for n in walk(s):
            k = n.get("kind")
            if (k == "BinaryOperator" and n.get("opcode") == "=") or k == "CompoundAssignOperator" or \
                    (k == "UnaryOperator" and n.get("opcode") in ("++", "--")):
                p = self.path_of(n["inner"][0])
                acc.append((p[0], "arr" if p[1] is not None else "Z"))
            elif k == "CallExpr":
                name, _ = self.callee_name(n)
                if name in self.spec.get("ignored_calls", []):
                    continue
                if self.spec.get("intrinsics", {}).get(name) in ("store", "add", "xadd"):
                    p = self.path_of(n["inner"][1])
                    acc.append((p[0], "arr" if p[1] is not None else "Z"))
                if self.spec.get("intrinsics", {}).get(name) == "zero_struct":
                    a0 = n["inner"][1]
                    while a0["kind"] in ("ImplicitCastExpr", "CStyleCastExpr", "ParenExpr"):
                        a0 = a0["inner"][0]
                    rid = a0.get("referencedDecl", {}).get("id")
                    if rid in self.reftype and self.refbase.get(rid):
                        for fname, fty in self.tu.record_fields(self.reftype[rid]):
                            acc.append((self.refbase[rid] + "_" + cname(fname), "arr"))
                if name in self.spec.get("ref_intrinsics", {}):
                    ri = self.spec["ref_intrinsics"][name]
                    out = n["inner"][1 + ri["out"]]
                    while out["kind"] in ("ImplicitCastExpr", "CStyleCastExpr", "ParenExpr") or \
                            (out["kind"] == "UnaryOperator" and out["opcode"] == "&"):
                        out = out["inner"][0]
                    rid = out.get("referencedDecl", {}).get("id")
                    if rid in self.locals:
                        acc.append((self.locals[rid].name, "Z"))
                    acc.append(("cnt_" + cname(name), "Z"))
                if name in self.done:
                    acc.extend(self.callee_outs(self.done[name], n["inner"][1:]))
                if (name in self.spec.get("oracle_calls", []) or (name is None and self.spec.get("oracle_indirect_calls"))):
                    for a_ in n["inner"][1:]:
                        ol = self.out_local(a_)
                        if ol is not None:
                            acc.append((self.locals[ol].name, "Z"))
                if name in self.done:
                    pass
                elif name in self.spec.get("oracle_calls", []):
                    acc.append(("cnt_" + cname(name), "Z"))
                    if cname(name) in self.spec.get("logged_calls", []):
                        for ai in range(len(n["inner"]) - 1):
                            acc.append(("arg%d_%s" % (ai, cname(name)), "arr"))
                elif name is None and self.spec.get("oracle_indirect_calls"):
                    try:
                        lb = self.path_of(_)[0]
                        acc.append(("cnt_" + lb, "Z"))
                        if lb in self.spec.get("logged_calls", []):
                            for ai in range(len(n["inner"]) - 1):
                                acc.append(("arg%d_%s" % (ai, lb), "arr"))
                    except Unsupported:
                        pass

    def contains(self, s, kinds, stop_at_loops=False):
        if s.get("kind") in kinds:
            return True
        if stop_at_loops and s.get("kind") in ("WhileStmt", "ForStmt", "DoStmt"):
            return False
        return any(self.contains(c, kinds, stop_at_loops) for c in s.get("inner", []) if isinstance(c, dict) and c)

    # pre-bindings: calls that return stored paths are bound by a `let'/`match' emitted in front of the
    # statement that contains them; ev() collects them while an expression is translated
    def ev(self, thunk):
        saved = self.pre
        self.pre = []
        try:
            txt = thunk()
            pre = self.pre
        finally:
            self.pre = saved
        return txt, pre

    @staticmethod
    def wrap_pre(pre, txt):
        for o, c in reversed(pre):
            txt = o + txt + c
        return txt

    def store(self, p, val, k):
        name, idx, ty, lid = p
        if lid is not None and idx is None:
            return "let %s := %s in\n%s" % (name, wrap(ty, val), k())
        if name not in self.written:
            self.written.append(name)
        if idx is None:
            self.add_input(Var(name, "Z"))
            return "let %s := %s in\n%s" % (name, wrap(ty, val), k())
        self.add_input(Var(name, "arr"))
        i = self.expr(idx)
        return "let %s := upd %s %s %s in\n%s" % (name, name, i, wrap(ty, val), k())

    BYTE_PTR = ("char *", "unsigned char *", "signed char *", "uint8_t *", "int8_t *")

    def cursor_init(self, ty, e):
        """`uint8_t *cd = (uint8_t *)p' / `(uint8_t *)p + n' for a pointer PARAMETER p -> (p_bytes, offset text), else None"""
        if desugar(ty) not in self.BYTE_PTR and not desugar(ty).replace("const ", "") in self.BYTE_PTR:
            return None
        x = e
        while x.get("kind") in ("ImplicitCastExpr", "CStyleCastExpr", "ParenExpr"):
            x = x["inner"][0]
        off = None
        if x.get("kind") == "BinaryOperator" and x.get("opcode") == "+":
            if desugar(x["type"]) not in self.BYTE_PTR:
                return None          # the addition must already be in bytes
            lhs, rhs = x["inner"]
            if int_type(rhs["type"]) is None or desugar(rhs["type"]).endswith("*"):
                return None
            off = rhs
            x = lhs
            while x.get("kind") in ("ImplicitCastExpr", "CStyleCastExpr", "ParenExpr"):
                x = x["inner"][0]
        if x.get("kind") != "DeclRefExpr" or x["referencedDecl"]["id"] not in self.param_ids:
            return None
        if not desugar(x["type"]).endswith("*"):
            return None
        name = self.locals[x["referencedDecl"]["id"]].name + "_bytes"
        self.add_input(Var(name, "arr"))
        return (name, "0" if off is None else self.expr(off))

    def pointer_local_bind(self, did, rhs):
        """a pointer local assigned once: -> 'alias' (rhs is an access path), 'single' (some other value) or None"""
        if self.ptr_assigns.get(did, 0) != 1 or did in self.addr_taken or self.loop_depth:
            return None
        t = rhs
        while t.get("kind") in ("ParenExpr", "CStyleCastExpr") or \
                (t.get("kind") == "ImplicitCastExpr" and t.get("castKind") in ("BitCast", "NoOp", "LValueToRValue")):
            t = t["inner"][0]
        if t.get("kind") in ("MemberExpr", "DeclRefExpr") or (t.get("kind") == "UnaryOperator" and t.get("opcode") == "&"):
            try:
                pth = self.path_of(t)
                if pth[3] is None or pth[3] in self.param_ids:
                    self.alias[did] = rhs
                    return "alias"
            except Unsupported:
                pass
        self.single.add(did)
        return "single"

    def stmts(self, lst, k):
        if not lst:
            return k()
        for j, s_ in enumerate(lst):
            if s_.get("kind") == "LabelStmt" and j > 0:
                self.labels[s_["declId"]] = (src_offset(s_), lambda j=j: self.stmts(lst[j:], k))
        return self.stmt(lst[0], lambda: self.stmts(lst[1:], k))

    def stmt(self, s, k):
        """translate statement s followed by continuation k() (a thunk producing Gallina text)"""
        kind = s["kind"]
        if kind == "CompoundStmt":
            return self.stmts(s.get("inner", []), k)
        if kind == "NullStmt":
            return k()
        if kind == "DeclStmt":
            decls = s["inner"]

            def go(i):
                if i == len(decls):
                    return k()
                d = decls[i]
                if d["kind"] == "EnumDecl":      # `enum { P_INVERSE = 4 };' inside a function: constants only
                    self.tu.collect_enums(d)
                    return go(i + 1)
                if d["kind"] != "VarDecl":
                    raise Unsupported("declaration of %s" % d["kind"])
                if int_type(d["type"]) is None:
                    # e.g. a scratch char buffer of a logging macro: tolerated as long as nothing translated uses it
                    self.locals[d["id"]] = Var("UNSUPPORTED_LOCAL_" + cname(d["name"]), "bad")
                    return go(i + 1)
                rec = record_pointee(d["type"])
                if rec is not None and self.spec.get("ref_intrinsics"):
                    v = Var(cname(d["name"]) + "_i", "ref")
                    self.locals[d["id"]] = v
                    self.reftype[d["id"]] = rec
                    self.refbase.setdefault(d["id"], None)
                    return "let %s := 0 (* not bound yet *) in\n%s" % (v.name, go(i + 1))
                v = Var(cname(d["name"]), "Z")
                if v.name in self.input_names:
                    v = Var(v.name + "_l", "Z")
                init = [c for c in d.get("inner", []) if "kind" in c]
                if init and desugar(d["type"]).endswith("*"):
                    cur = self.cursor_init(d["type"], init[0])
                    if cur is not None:
                        # CURSOR: a byte pointer local that starts at (a byte offset from) a pointer parameter is
                        # represented by its offset; `*cd' reads the parameter's byte path at that offset
                        self.cursor[d["id"]] = cur[0]
                        self.locals[d["id"]] = v
                        note = "the local pointer %s walks over the bytes %s points to: it is represented by its byte offset, `*%s' is (%s %s)" \
                               % (v.name, cur[0][:-6], v.name, cur[0], v.name)
                        if note not in self.notes:
                            self.notes.append(note)
                        return "let %s := %s in\n%s" % (v.name, cur[1], go(i + 1))
                    if self.pointer_local_bind(d["id"], init[0]) == "alias":
                        self.locals[d["id"]] = v
                        return go(i + 1)
                if init:
                    val, pre = self.ev(lambda: wrap(d["type"], self.expr(init[0])))
                else:
                    val, pre = "0 (* uninitialised *)", []
                self.locals[d["id"]] = v
                return self.wrap_pre(pre, "let %s := %s in\n%s" % (v.name, val, go(i + 1)))
            return go(0)
        if kind == "ReturnStmt":
            inner = [c for c in s.get("inner", []) if "kind" in c]
            val, pre = self.ev(lambda: self.expr(inner[0])) if inner else ("0", [])
            return self.wrap_pre(pre, self.ret(val))
        if kind in ("ParenExpr", "ImplicitCastExpr", "CStyleCastExpr"):
            return self.stmt(s["inner"][0], k)
        if kind == "BinaryOperator" and s["opcode"] == "=" and s["inner"][0].get("kind") == "DeclRefExpr" and \
                s["inner"][0]["referencedDecl"]["id"] in self.locals and \
                self.locals[s["inner"][0]["referencedDecl"]["id"]].kind == "Z" and \
                desugar(s["inner"][0]["type"]).endswith("*") and \
                s["inner"][0]["referencedDecl"]["id"] not in self.param_ids:
            if self.pointer_local_bind(s["inner"][0]["referencedDecl"]["id"], s["inner"][1]) == "alias":
                return k()
        if kind == "BinaryOperator" and s["opcode"] == "=":
            p = self.path_of(s["inner"][0])
            rhs = s["inner"][1]
            val, pre = self.ev(lambda: self.expr(rhs))
            return self.wrap_pre(pre, self.store(p, val, k))
        if kind == "CompoundAssignOperator":
            p = self.path_of(s["inner"][0])
            op = s["opcode"][:-1]
            ct = s.get("computeResultType", s["type"])

            def comp():
                cur = self.read_path(s["inner"][0])
                fake = {"kind": "BinaryOperator", "opcode": op, "type": ct,
                        "inner": [{"kind": "__raw", "text": wrap(s.get("computeLHSType", ct), cur), "type": ct},
                                  s["inner"][1]]}
                return self.expr_raw(fake)
            val, pre = self.ev(comp)
            return self.wrap_pre(pre, self.store(p, val, k))
        if kind == "UnaryOperator" and s["opcode"] in ("++", "--"):
            p = self.path_of(s["inner"][0])
            cur = self.read_path(s["inner"][0])
            return self.store(p, "(%s %s 1)" % (cur, "+" if s["opcode"] == "++" else "-"), k)
        if kind == "CallExpr" and self.callee_name(s)[0] in self.spec.get("ignored_calls", []):
            n = self.callee_name(s)[0]
            note = "call(s) to %s dropped (listed under ignored_calls: no effect on the modelled paths)" % n
            if note not in self.notes:
                self.notes.append(note)
            return k()
        if kind == "CallExpr":
            (val, stores), pre = self.ev(lambda: self.call(s, want_value=False))

            def chain(i):
                if i == len(stores):
                    return k()
                return self.store(stores[i][0], stores[i][1], lambda: chain(i + 1))
            return self.wrap_pre(pre, chain(0))
        if kind == "IfStmt":
            parts = [c for c in s["inner"]]
            c, th = parts[0], parts[1]
            el = parts[2] if len(parts) > 2 else None
            escapes = ("ReturnStmt", "BreakStmt", "ContinueStmt", "GotoStmt")
            esc = self.contains(th, escapes, False) or (el is not None and self.contains(el, escapes, False))
            cnd, pre = self.ev(lambda: self.cond(c))
            if not esc:
                acc = []
                self.assigned_vars(th, acc)
                if el is not None:
                    self.assigned_vars(el, acc)
                names = []
                for n, kd in acc:
                    if n not in names:
                        names.append(n)
                inner_decl = set()
                self.declared(th, inner_decl)
                if el is not None:
                    self.declared(el, inner_decl)
                names = sorted(n for n in names if n not in inner_decl)
                if not names:
                    return self.wrap_pre(pre, k())
                tup = names[0] if len(names) == 1 else "(" + ", ".join(names) + ")"
                pat = names[0] if len(names) == 1 else "'(" + ", ".join(names) + ")"
                self.joinn = getattr(self, "joinn", 0) + 1
                mark = "@JOIN%d@" % self.joinn
                a = self.stmt(th, lambda: mark)
                b = self.stmt(el, lambda: mark) if el is not None else mark
                if "| None => None" in a or "with None => None" in a or "| None => None" in b or "with None => None" in b:
                    # a branch runs a loop (or calls a function with one): its value is an option (None = out of
                    # fuel), so the join is a match on the option, not a plain let
                    a, b = a.replace(mark, "Some " + tup), b.replace(mark, "Some " + tup)
                    return self.wrap_pre(pre, "match (if %s then\n%s else\n%s) with\n| None => None\n| Some %s =>\n%s\nend"
                                         % (cnd, a, b, tup, k()))
                a, b = a.replace(mark, tup), b.replace(mark, tup)
                return self.wrap_pre(pre, "let %s := (if %s then\n%s else\n%s) in\n%s" % (pat, cnd, a, b, k()))
            a = self.stmt(th, k)
            b = self.stmt(el, k) if el is not None else k()
            return self.wrap_pre(pre, "if %s then\n%s else\n%s" % (cnd, a, b))
        if kind == "DoStmt":
            body, c = s["inner"][0], s["inner"][1]
            if c["kind"] == "IntegerLiteral" and c["value"] == "0" and \
                    not self.contains(body, ("BreakStmt", "ContinueStmt"), True):
                return self.stmt(body, k)
            return self.loop(c, None, body, k, post_test=True)
        if kind == "WhileStmt":
            return self.loop(s["inner"][0], None, s["inner"][1], k)
        if kind == "ForStmt":
            init, _, c, inc, body = s["inner"]
            c = c if c and "kind" in c else None
            inc = inc if inc and "kind" in inc else None
            if init and "kind" in init:
                return self.stmt(init, lambda: self.loop(c, inc, body, k))
            return self.loop(c, inc, body, k)
        if kind == "LabelStmt":
            return self.stmt(s["inner"][0], k)
        if kind == "GotoStmt":
            if self.loop_depth:
                raise Unsupported("goto out of a loop")
            th = self.labels.get(s.get("targetLabelDeclId"))
            if th is None:
                raise Unsupported("goto to a label that is not a later statement of an enclosing statement list")
            if th[0] is None or src_offset(s) is None or th[0] <= src_offset(s):
                raise Unsupported("backward goto")
            return th[1]()
        if kind == "SwitchStmt":
            return self.switch(s, k)
        if kind == "StmtExpr":
            return self.stmt(s["inner"][0], k)
        if kind == "UnaryOperator" and s["opcode"] == "__extension__":
            return self.stmt(s["inner"][0], k)
        if kind == "BinaryOperator" and s["opcode"] == ",":
            return self.stmt(s["inner"][0], lambda: self.stmt(s["inner"][1], k))
        if kind in ("IntegerLiteral", "DeclRefExpr", "UnaryExprOrTypeTraitExpr", "CharacterLiteral", "StringLiteral",
                    "MemberExpr", "ArraySubscriptExpr", "ConditionalOperator") or \
                (kind in ("BinaryOperator", "UnaryOperator") and not self.has_effects(s)):
            return k()           # an expression statement without effects
        if kind == "BreakStmt":
            return self.on_break()
        if kind == "ContinueStmt":
            return self.on_continue()
        raise Unsupported("statement kind %s" % kind)

    def declared(self, s, acc):
        if s.get("kind") == "VarDecl":
            acc.add(cname(s["name"]))
        for c in s.get("inner", []):
            if isinstance(c, dict) and c:
                self.declared(c, acc)

    def expr_raw(self, e):
        # BinaryOperator whose first operand is already Gallina text
        saved = self.expr

        def ex(x):
            if x.get("kind") == "__raw":
                return x["text"]
            return saved(x)
        self.expr = ex
        try:
            return saved(e)
        finally:
            self.expr = saved

    def ret_tuple(self, val):
        outs = [val] if not self.ret_void else []
        outs.append("@W@")      # placeholder: the final values of all stored paths, known at the end
        return "(" + ", ".join(outs) + ")"

    def ret(self, val):
        body = self.ret_tuple(val)
        if self.loop_depth and self.loop_rets[-1]:
            return "Some (inr %s)" % body
        return ("Some %s" % body) if self.has_loop_anywhere else body

    # loops ------------------------------------------------------------------
    def out_local(self, a):
        """the local variable whose address the call argument `a' passes (`&x', `(void **)&x'), or None"""
        while a.get("kind") in ("ImplicitCastExpr", "CStyleCastExpr", "ParenExpr"):
            a = a["inner"][0]
        if a.get("kind") == "UnaryOperator" and a.get("opcode") == "&":
            t = a["inner"][0]
            while t.get("kind") == "ParenExpr":
                t = t["inner"][0]
            if t.get("kind") == "DeclRefExpr":
                did = t["referencedDecl"]["id"]
                if did in self.locals and did not in self.param_ids and self.locals[did].kind == "Z":
                    return did
        return None

    def has_effects(self, e):
        return any(n.get("kind") in ("CallExpr", "CompoundAssignOperator") or
                   (n.get("kind") == "BinaryOperator" and n.get("opcode") == "=") or
                   (n.get("kind") == "UnaryOperator" and n.get("opcode") in ("++", "--")) for n in walk(e))

    def switch(self, s, k):
        """switch (e) { case a: case b: S1; break; default: S2; break; }  ->  if-chain on e"""
        e, body = s["inner"][0], s["inner"][-1]
        if self.has_effects(e):
            raise Unsupported("switch over an expression with effects")
        if body.get("kind") != "CompoundStmt":
            raise Unsupported("switch body is not a block")
        groups, cur = [], None                # (labels or None for default, statements)
        for it in body.get("inner", []):
            labels, st = [], it
            while st.get("kind") in ("CaseStmt", "DefaultStmt"):
                if st["kind"] == "CaseStmt":
                    if len([c_ for c_ in st["inner"] if "kind" in c_]) != 2:
                        raise Unsupported("case range")
                    labels.append(st["inner"][0])
                else:
                    labels.append(None)
                st = st["inner"][-1]
            if labels:
                if cur is not None and cur[1] and cur[1][-1].get("kind") not in ("BreakStmt", "ReturnStmt", "GotoStmt"):
                    raise Unsupported("fall-through between non-empty case groups")
                if cur is not None and not cur[1]:
                    labels = cur[0] + labels
                    groups.pop()
                cur = (labels, [st])
                groups.append(cur)
            else:
                if cur is None:
                    raise Unsupported("statement before the first case label")
                cur[1].append(it)
        ity = {"qualType": "int"}
        default, chain = None, []
        for labels, sts in groups:
            if sts and sts[-1].get("kind") == "BreakStmt":
                sts = sts[:-1]
            blk = {"kind": "CompoundStmt", "inner": sts}
            if self.contains(blk, ("BreakStmt",), True):
                raise Unsupported("break nested inside a case group")
            if None in labels:
                default = blk
                labels = [l for l in labels if l is not None]
                if not labels:
                    continue
            cnd = None
            for l in labels:
                t = {"kind": "BinaryOperator", "opcode": "==", "type": ity, "inner": [e, l]}
                cnd = t if cnd is None else {"kind": "BinaryOperator", "opcode": "||", "type": ity, "inner": [cnd, t]}
            chain.append((cnd, blk, None in [None] and blk is default))
        node = default
        for cnd, blk, _ in reversed(chain):
            node = {"kind": "IfStmt", "inner": [cnd, blk] + ([node] if node is not None else [])}
        if node is None:
            return k()
        # a group that is both `case x:' and `default:' was put in the chain and is the default as well: fine
        return self.stmt(node, k)

    def loop(self, c, inc, body, k, post_test=False):
        rets = self.contains(body, ("ReturnStmt",), False)
        self.has_loop = True
        acc = []
        self.assigned_vars(body, acc)
        if inc is not None:
            self.assigned_vars(inc, acc)
        if c is not None:
            self.assigned_vars(c, acc)
        inner_decl = set()
        self.declared(body, inner_decl)
        names, kinds = [], {}
        for n, kd in acc:
            if n not in names and n not in inner_decl:
                names.append(n)
                kinds[n] = kd
        names.sort()
        if not names:
            raise Unsupported("loop without state")
        localnames = {v.name for v in self.locals.values()}
        for n in names:
            if n not in localnames:
                self.add_input(Var(n, kinds[n]))
        tup = names[0] if len(names) == 1 else "(" + ", ".join(names) + ")"
        binders = " ".join("(%s : %s)" % (n, "Z -> Z" if kinds[n] == "arr" else "Z") for n in names)
        self.loopn += 1
        again_marker = "@LOOP%d_%s@" % (self.loopn, self.name)
        again = again_marker
        stop = ("Some (inl %s)" if rets else "Some %s") % tup
        saved = (self.on_break, self.on_continue)
        step_inc = (lambda: self.stmt(inc, lambda: again)) if inc is not None else (lambda: again)
        if post_test:
            # do-while: the test comes after the body (and is where `continue' goes)
            def step_inc():
                cnd_, pre_ = self.ev(lambda: self.cond(c))
                return self.wrap_pre(pre_, "if %s then %s else %s" % (cnd_, again, stop))
        self.on_break = lambda: stop
        self.on_continue = step_inc
        self.loop_depth += 1
        self.loop_rets.append(rets)
        if c is not None and not post_test:
            cnd, pre = self.ev(lambda: self.cond(c))
        else:
            cnd, pre = "true", []
        bodytxt = self.stmt(body, step_inc)
        self.loop_rets.pop()
        self.loop_depth -= 1
        self.on_break, self.on_continue = saved
        # the loop becomes a top-level Fixpoint of its own (<function>_loopN): first the variables of the
        # enclosing scope its body mentions (closure, passed unchanged), then the loop state
        lname = "%s_loop%d" % (self.name, self.loopn)
        guard = self.wrap_pre(pre, "  if %s then\n%s\n  else %s" % (cnd, bodytxt, stop))
        guard = guard.replace(again_marker, "@AGAIN@")
        known = dict((v.name, v.kind) for v in self.inputs)
        for v in self.locals.values():
            if v.kind != "bad":
                known.setdefault(v.name, "Z")
        known["fuel"] = "nat"
        used = set(re.findall(r"[A-Za-z_][A-Za-z0-9_']*", guard))
        closure = sorted(n for n in used if n in known and n not in names and n not in inner_decl)
        ctype = {"arr": "Z -> Z", "Z": "Z", "ref": "Z", "nat": "nat"}
        cbind = " ".join("(%s : %s)" % (n, ctype[known[n]]) for n in closure)
        call_args = " ".join(closure + names)
        guard = guard.replace("@AGAIN@", "%s fuel_ %s" % (lname, call_args))
        self.aux.append("Fixpoint %s (fuel_ : nat) %s %s {struct fuel_} : option _ :=\n"
                        "  match fuel_ with O => None | S fuel_ =>\n%s\n  end.\n" % (lname, cbind, binders, guard))
        looptxt = "%s fuel %s" % (lname, call_args)
        pat = tup
        if rets:
            # a `return' inside the loop leaves the function (or the enclosing loop) with that value
            if self.loop_depth and self.loop_rets[-1]:
                out = "Some (inr r_)"
            else:
                out = "Some r_"
            return ("match %s with\n| None => None\n| Some (inr r_) => %s\n| Some (inl %s) =>\n%s\nend"
                    % (looptxt, out, pat, k()))
        return "match %s with\n| None => None\n| Some %s =>\n%s\nend" % (looptxt, pat, k())


class TU:
    def __init__(self, repo, path, extra_flags=None):
        self.repo, self.path = repo, path
        flags = ["-DHAVE_CONFIG_H", "-I" + os.path.join(repo, "include"), "-I" + os.path.join(repo, "lib")]
        if not os.path.exists(os.path.join(repo, "include", "config.h")):
            flags += ["-idirafter", "/repo/include"]
        self.flags = flags + (extra_flags or [])
        p = subprocess.run(["clang", "-fsyntax-only", "-w"] + self.flags +
                           ["-Xclang", "-ast-dump=json", os.path.join(repo, path)],
                           stdout=subprocess.PIPE, stderr=subprocess.PIPE)
        if p.returncode != 0:
            raise RuntimeError("clang failed on %s: %s" % (path, p.stderr.decode()[-2000:]))
        self.ast = json.loads(p.stdout.decode())
        self.enums = {}
        self.collect_enums(self.ast)
        self.sizes = {}

    def collect_enums(self, n):
        if n.get("kind") == "EnumDecl":
            nxt = 0
            for c in n.get("inner", []):
                if c.get("kind") != "EnumConstantDecl":
                    continue
                val = None
                for i in c.get("inner", []):
                    v = self.const_value(i)
                    if v is not None:
                        val = v
                if val is None:
                    val = nxt
                self.enums[c["name"]] = val
                nxt = val + 1
            return
        for c in n.get("inner", []):
            if isinstance(c, dict):
                self.collect_enums(c)

    def const_value(self, n):
        if "value" in n and n.get("kind") in ("ConstantExpr", "IntegerLiteral"):
            try:
                return int(n["value"])
            except ValueError:
                return None
        for c in n.get("inner", []):
            v = self.const_value(c)
            if v is not None:
                return v
        return None

    def enum_value(self, name):
        if name not in self.enums:
            raise Unsupported("enum constant %s" % name)
        return self.enums[name]

    def sizeof(self, tname):
        """sizeof of a non-scalar type: asked to the C compiler (gcc -S of the file plus one initialised global)"""
        if tname not in self.sizes:
            src = '#include "%s"\nunsigned long c2coq_sz_0 = sizeof(%s);\n' % (os.path.join(self.repo, self.path), tname)
            p = subprocess.run(["gcc", "-w", "-x", "c", "-", "-S", "-o", "-"] + self.flags,
                               input=src.encode(), stdout=subprocess.PIPE, stderr=subprocess.PIPE)
            m = re.search(r"c2coq_sz_0:\s*\n\s*\.quad\s+(\d+)", p.stdout.decode("utf-8", "replace"))
            if p.returncode != 0 or not m:
                raise Unsupported("sizeof(%s): the C compiler gave no value" % tname)
            self.sizes[tname] = int(m.group(1))
        return self.sizes[tname]

    def record_fields(self, rname):
        """[(field name, clang type dict)] of the complete definition of struct rname"""
        for d in walk(self.ast):
            if d.get("kind") == "RecordDecl" and d.get("name") == rname and d.get("completeDefinition"):
                return [(f["name"], f["type"]) for f in d.get("inner", []) if f.get("kind") == "FieldDecl"]
        raise Unsupported("no definition of struct %s" % rname)

    def function(self, name):
        best = None
        for d in self.ast.get("inner", []):
            if d.get("kind") == "FunctionDecl" and d.get("name") == name and \
                    any(c.get("kind") == "CompoundStmt" for c in d.get("inner", [])):
                best = d
        if best is None:
            raise Unsupported("no definition of %s in %s" % (name, self.path))
        return best


def indent(txt, n=2):
    return "\n".join(" " * n + l for l in txt.split("\n"))


def translate_function(tu, name, spec, done):
    f = Fn(tu, tu.function(name), spec, done)
    loops = any(d.get("kind") in ("WhileStmt", "ForStmt") or
                (d.get("kind") == "DoStmt" and d["inner"][1].get("value") != "0") for d in walk(f.body))
    for d in walk(f.body):
        if d.get("kind") == "CallExpr":
            n, _ = f.callee_name(d)
            if n in done and done[n].has_loop_anywhere:
                loops = True
    f.has_loop_anywhere = loops
    fall = (lambda: f.ret("0"))
    body = f.stmt(f.body, fall)
    # canonical order (independent of the order of first use in the source): parameters in C order, then
    # the other inputs by name; stored paths by name
    f.written.sort()
    for w_ in f.written:
        for v_ in f.inputs:
            if v_.name.startswith(w_ + "_") and not v_.name.endswith("_ptr") and not w_.startswith(("cnt_", "orc_")):
                raise Unsupported("store to %s, a pointer that the path %s goes through" % (w_, v_.name))
    npar = len(f.params)
    f.inputs = f.inputs[:npar] + sorted(f.inputs[npar:], key=lambda v: v.name)
    w = list(f.written)
    body = body.replace(", @W@", "".join(", " + x for x in w))
    body = body.replace("(@W@)", ("(" + ", ".join(w) + ")") if len(w) > 1 else (w[0] if w else "tt"))
    body = re.sub(r"\((\(*[^(),@]+\)*)\)(?=[\s.]|$)", lambda m: m.group(0), body)
    params = []
    if f.has_loop_anywhere:
        params.append("(fuel : nat)")
    for v in f.inputs:
        params.append("(%s : %s)" % (v.name, "Z -> Z" if v.kind == "arr" else "Z"))
    hdr = "(* %s:%s   C return type: %s%s *)\n" % (tu.path, name, f.rettype,
                                                   ("; returned with it, the final value of: " + ", ".join(w)) if w else "")
    for n in f.notes:
        hdr += "(* %s *)\n" % n
    def fin(t):
        t = t.replace(", @W@", "".join(", " + x for x in w))
        return t.replace("(@W@)", ("(" + ", ".join(w) + ")") if len(w) > 1 else (w[0] if w else "tt"))
    aux = "".join("(* %s:%s, loop %d *)\n%s\n" % (tu.path, name, i + 1, fin(a)) for i, a in enumerate(f.aux))
    txt = aux + hdr + "Definition %s %s :=\n%s.\n" % (name, " ".join(params), indent(body))
    return f, txt


def walk(n):
    yield n
    for c in n.get("inner", []):
        if isinstance(c, dict) and c:
            yield from walk(c)


def translate_spec(repo, spec):
    tu = TU(repo, spec["file"], spec.get("cflags"))
    done = {}
    out = ["(* GENERATED on every run from %s of the working tree by tools/c2coq.py - do not edit *)" % spec["file"],
           "From Coq Require Import ZArith Bool.", "Require Import Verif.C2CoqPrelude.", "Local Open Scope Z_scope.", ""]
    problems = []
    for name in spec["functions"]:
        try:
            f, txt = translate_function(tu, name, spec, done)
            done[name] = f
            out.append(txt)
        except Unsupported as e:
            problems.append((name, str(e)))
            out.append("(* %s: NOT TRANSLATED: %s *)\n" % (name, e))
    return "\n".join(out), problems


def main():
    repo = os.environ.get("VERIF_REPO", "/repo")
    spec = json.load(open(sys.argv[1]))
    txt, problems = translate_spec(repo, spec)
    print(txt)
    for n, p in problems:
        print("c2coq: %s: %s" % (n, p), file=sys.stderr)
    sys.exit(1 if problems else 0)


if __name__ == "__main__":
    main()
