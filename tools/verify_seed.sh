#!/bin/bash
# Independent confirmation of a seeded change: builds, passes the unedited test-suite, demo passes on the
# unchanged tree and fails on the changed one.  Usage: tools/verify_seed.sh <name>   (seeded/<name>/)
# Works in a throw-away full copy of /repo (removed afterwards).
name=$1
HERE=$(cd "$(dirname "$0")/.." && pwd)
d=$HERE/seeded/$name
w=/work/lead/vs-$name
log=$d/verify.log
rm -rf "$w"; mkdir -p /work/lead; cp -a /repo "$w"
{
echo "== verify $name on $(git -C /repo rev-parse --short HEAD)"
cd "$w" && git reset -q --hard && (make clean >/dev/null 2>&1; make -j4 >/dev/null 2>&1)
bash "$d/run_demo.sh" "$w" >/dev/null 2>&1; r0=$?
echo "demo on unchanged tree: exit $r0"
git apply "$d/patch.diff" || git apply --3way "$d/patch.diff"
echo "patch applied: rc=$?"
make -j4 >/dev/null 2>&1; echo "build rc=$?"
flock /tmp/libqb-make-check.lock make check > "$w/check.log" 2>&1
grep -E "^# (TOTAL|PASS|FAIL|ERROR)" "$w/check.log" | tr '\n' ' '; echo
bash "$d/run_demo.sh" "$w" > "$w/demo.out" 2>&1; r1=$?
echo "demo on changed tree: exit $r1"; tail -3 "$w/demo.out"
np=$(grep -c "^PASS:" "$w/check.log")
if [ "$r0" = 0 ] && [ "$r1" != 0 ] && [ "$np" = 11 ]; then echo "VERDICT: confirmed"; else echo "VERDICT: NOT confirmed (r0=$r0 r1=$r1 pass=$np)"; fi
} > "$log" 2>&1
rm -rf "$w"
tail -1 "$log"
