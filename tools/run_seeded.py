#!/usr/bin/env python3
"""Run the registered checks against every seeded breaking change under /verif/seeded/<name>/.

For each: apply patch.diff to a scratch worktree of /repo (never /repo itself), run
`VERIF_REPO=<scratch> ./check <pid> --tier quick` (and thorough when quick is silent), undo.
Writes seeded/RESULTS.json and prints a table.  Usage: tools/run_seeded.py [name ...] [--demo] [--thorough]"""
import json
import os
import subprocess
import sys
import time

HERE = os.path.dirname(os.path.dirname(os.path.abspath(__file__)))
SCRATCH = os.environ.get("SEED_SCRATCH", "/work/lead/seedrun")


def sh(cmd, **kw):
    p = subprocess.run(cmd, stdout=subprocess.PIPE, stderr=subprocess.STDOUT, **kw)
    return p.returncode, p.stdout.decode("utf-8", "replace")


def main():
    args = [a for a in sys.argv[1:] if not a.startswith("--")]
    demo = "--demo" in sys.argv
    force_thorough = "--thorough" in sys.argv
    sd = os.path.join(HERE, "seeded")
    names = args or sorted(d for d in os.listdir(sd) if os.path.isdir(os.path.join(sd, d)))
    if not os.path.exists(SCRATCH):
        os.makedirs(os.path.dirname(SCRATCH), exist_ok=True)
        rc, out = sh(["git", "-C", "/repo", "worktree", "add", "-q", "--detach", SCRATCH, "HEAD"])
        if rc:
            print(out)
            sys.exit(2)
    else:
        sh(["git", "-C", SCRATCH, "checkout", "-q", "--detach", subprocess.check_output(
            ["git", "-C", "/repo", "rev-parse", "HEAD"]).decode().strip()])
    results = {}
    rp = os.path.join(sd, "RESULTS.json")
    if os.path.exists(rp):
        results = json.load(open(rp))
    env = dict(os.environ, VERIF_REPO=SCRATCH, VERIF_BUILD=os.path.join(os.path.dirname(SCRATCH), "seedbuild"))
    for name in names:
        d = os.path.join(sd, name)
        meta = json.load(open(os.path.join(d, "meta.json")))
        pid = meta["property"]
        sh(["git", "-C", SCRATCH, "reset", "-q", "--hard"])
        sh(["git", "-C", SCRATCH, "clean", "-fdq"])
        rc, out = sh(["git", "-C", SCRATCH, "apply", "--3way", os.path.join(d, "patch.diff")])
        if rc:
            rc, out = sh(["git", "-C", SCRATCH, "apply", os.path.join(d, "patch.diff")])
        if rc:
            results[name] = {"property": pid, "status": "patch-does-not-apply", "detail": out[-400:]}
            print("%-28s %s patch does not apply" % (name, pid))
            continue
        r = {"property": pid}
        for tier in (["thorough"] if force_thorough else ["quick", "thorough"]):
            t0 = time.time()
            rc, out = sh([os.path.join(HERE, "check"), pid, "--tier", tier], cwd=HERE, env=env)
            viol = [l for l in out.split("\n") if l.startswith("VIOLATION")]
            det = [l for l in out.split("\n") if l.startswith("DETAIL")]
            r[tier] = {"exit": rc, "violation_lines": viol[:3], "detail": det[:3], "wall_s": round(time.time() - t0, 1)}
            if rc == 1 and viol:
                r["status"] = "caught-" + tier
                break
            if rc not in (0, 1):
                r["status"] = "check-error"
                r["output_tail"] = out[-600:]
                break
        else:
            r["status"] = "MISSED"
        if demo and os.path.exists(os.path.join(d, "run_demo.sh")):
            rc2, out2 = sh(["bash", os.path.join(d, "run_demo.sh"), SCRATCH], cwd=d)
            r["demo_on_changed"] = rc2
        results[name] = r
        print("%-28s %s %s %s" % (name, pid, r["status"], (r.get("quick") or r.get("thorough") or {}).get("detail", [""])[:1]))
        sh(["git", "-C", SCRATCH, "reset", "-q", "--hard"])
    json.dump(results, open(rp, "w"), indent=1, sort_keys=True)
    # restore evidence written during mutation runs: re-run the affected checks on the unchanged tree
    for pid in sorted({results[n]["property"] for n in names if n in results}):
        sh([os.path.join(HERE, "check"), pid, "--tier", "quick"], cwd=HERE)


if __name__ == "__main__":
    main()
