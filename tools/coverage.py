#!/usr/bin/env python3
"""Development aid (not a check): which lines/branches of the anchored C files do a property's generated
scripts actually execute?   Usage: tools/coverage.py Cnn [--tier quick|thorough]

Runs `./check Cnn` with VERIF_COV=1 (ASan build + gcov instrumentation) in a separate build and evidence
directory, then runs gcov on every lib/*.c the property is anchored in and prints, per function, the line
coverage and the source lines never executed.  Writes out/coverage_Cnn.json.  Used to aim the generators
of the correspondence check at code they do not reach yet."""
import glob
import json
import os
import re
import shutil
import subprocess
import sys

HERE = os.path.dirname(os.path.dirname(os.path.abspath(__file__)))
sys.path.insert(0, HERE)


def main():
    pid = sys.argv[1]
    tier = "quick"
    if "--tier" in sys.argv:
        tier = sys.argv[sys.argv.index("--tier") + 1]
    scratch = os.environ.get("COV_SCRATCH", "/work/lead/cov-" + pid)
    shutil.rmtree(scratch, ignore_errors=True)
    os.makedirs(scratch)
    env = dict(os.environ, VERIF_COV="1", VERIF_BUILD=os.path.join(scratch, "build"),
               VERIF_EVID=os.path.join(scratch, "evidence"), VERIF_NO_COQCHK="1", VERIF_NO_ESCALATE="1")
    p = subprocess.run([os.path.join(HERE, "check"), pid, "--tier", tier], cwd=HERE, env=env,
                       stdout=subprocess.PIPE, stderr=subprocess.STDOUT)
    print(p.stdout.decode()[-600:])
    from vlib import common as C
    files = [f for f in C.anchored_files(pid) if f.endswith(".c")]
    extra = [a for a in sys.argv[2:] if a.endswith(".c")]
    files += extra
    report = {}
    for f in files:
        base = os.path.splitext(os.path.basename(f))[0]
        # object files of the library build(s) and harness builds that #include the file
        gcnos = glob.glob(os.path.join(scratch, "build", "impl", "*", base + ".gcno")) + \
            glob.glob(os.path.join(scratch, "build", "impl", "*", base + ".o.gcno"))
        gcnos += glob.glob(os.path.join(scratch, "build", "impl", "*", "*" + base + "*.gcno"))
        gcnos = sorted(set(gcnos))
        best = None
        for g in gcnos:
            d = os.path.dirname(g)
            gd = os.path.join(scratch, "gcov", os.path.basename(d))
            os.makedirs(gd, exist_ok=True)
            r = subprocess.run(["gcov", "-b", "-c", "-f", "-o", d, g], cwd=gd, stdout=subprocess.PIPE,
                               stderr=subprocess.STDOUT)
            out = r.stdout.decode("utf-8", "replace")
            gc = os.path.join(gd, os.path.basename(f) + ".gcov")
            if not os.path.exists(gc):
                continue
            funcs = {}
            for m in re.finditer(r"Function '([^']+)'\nLines executed:([\d.]+)% of (\d+)", out):
                funcs[m.group(1)] = (float(m.group(2)), int(m.group(3)))
            missed = []
            for line in open(gc, errors="replace"):
                m = re.match(r"\s*#####:\s*(\d+):(.*)", line)
                if m:
                    missed.append((int(m.group(1)), m.group(2).rstrip()))
            tot = re.search(r"File '[^']*" + re.escape(os.path.basename(f)) + r"'\nLines executed:([\d.]+)% of (\d+)", out)
            cand = {"file_lines_pct": float(tot.group(1)) if tot else None, "functions": funcs, "missed": missed}
            if best is None or (cand["file_lines_pct"] or 0) > (best["file_lines_pct"] or 0):
                best = cand
        report[f] = best
    os.makedirs(os.path.join(HERE, "out"), exist_ok=True)
    json.dump(report, open(os.path.join(HERE, "out", "coverage_%s.json" % pid), "w"), indent=1)
    for f, r in report.items():
        if not r:
            print("%s: no coverage data" % f)
            continue
        print("== %s: %s%% of lines executed" % (f, r["file_lines_pct"]))
        for fn, (pct, n) in sorted(r["functions"].items(), key=lambda kv: kv[1][0]):
            print("   %-40s %6.1f%% of %d" % (fn, pct, n))
        print("   never executed:")
        for ln, txt in r["missed"]:
            print("     %5d: %s" % (ln, txt[:110]))
    shutil.rmtree(scratch, ignore_errors=True)


if __name__ == "__main__":
    main()
