(* C13 - the text of the formatted line: for every format / message / call-site data / limit / ellipsis setting
   inside the guard [line_guard], qb_log_target_format (repaired) leaves exactly  line_spec  followed by a NUL. *)
From Coq Require Import List ZArith Bool Lia.
Require Import Verif.gen.Consts_logfmt Verif.SerModel Verif.SerProofs Verif.SerLists Verif.SerRoundS Verif.SerRoundD
        Verif.LogFmtModel Verif.LogFmtProofs.
Import ListNotations.
Open Scope Z_scope.

(* ------------------------------------------------------------------ list facts *)
Lemma takeZ_repeat : forall (x : Z) m k, takeZ k (repeat x m) = repeat x (Z.to_nat (Z.min k (Z.of_nat m))).
Proof.
  induction m as [|m IH]; intros k.
  - cbn [repeat]. destruct (Z.to_nat (Z.min k (Z.of_nat 0))) eqn:E; [reflexivity | lia].
  - cbn [repeat]. destruct (Z_le_gt_dec k 0).
    + rewrite takeZ_nonpos by lia. replace (Z.to_nat (Z.min k (Z.of_nat (S m)))) with O by lia. reflexivity.
    + rewrite takeZ_cons_pos by lia. rewrite IH.
      assert (Hmin : Z.min k (Z.of_nat (S m)) = Z.min (k - 1) (Z.of_nat m) + 1) by lia.
      rewrite Hmin. rewrite Z2Nat.inj_add by lia. change (Z.to_nat 1) with 1%nat. rewrite Nat.add_1_r.
      reflexivity.
Qed.

Lemma takeZ_takeZ_min : forall (l : list Z) a b, takeZ a (takeZ b l) = takeZ (Z.min a b) l.
Proof.
  intros. destruct (Z_le_gt_dec a b).
  - rewrite Z.min_l by lia. apply takeZ_takeZ. lia.
  - rewrite Z.min_r by lia. destruct (Z_le_gt_dec a 0).
    + rewrite (takeZ_nonpos _ a) by lia. rewrite (takeZ_nonpos l b) by lia. reflexivity.
    + apply takeZ_all. rewrite zlen_takeZ. pose proof (zlen_nonneg _ l). lia.
Qed.

Lemma zlen_pad_chop_nonneg : forall cap src w r, 0 <= zlen (pad_chop cap src w r).
Proof. intros. apply zlen_nonneg. Qed.

(* what _strcpy_cutoff lays out = the first [R1] characters of the documented field *)
Lemma cutoff_bytes : forall L src cutoff ralign R1,
  1 <= R1 -> R1 < L -> 0 <= cutoff ->
  (ralign = true -> zlen src < cutoff -> cutoff <= R1) ->
  let len := zlen src in
  let c1 := if cutoff =? 0 then len else cutoff in
  let c2 := Z.min c1 R1 in
  let l2 := Z.min len c2 in
  let pad := repeat 32 (Z.to_nat (c2 - l2)) in
  (if ralign then pad ++ takeZ l2 src else takeZ l2 src ++ pad) = takeZ R1 (pad_chop L src cutoff ralign) /\
  c2 = Z.min (zlen (pad_chop L src cutoff ralign)) R1.
Proof.
  intros L src cutoff ralign R1 HR1 HRL Hc Hg len c1 c2 l2 pad.
  pose proof (zlen_nonneg _ src) as Hs. fold len in Hs.
  unfold pad_chop. fold len.
  destruct (cutoff =? 0) eqn:E0.
  - (* no width *)
    apply Z.eqb_eq in E0. subst cutoff. subst c1. cbv iota in c2.
    assert (Hl2 : l2 = c2) by (unfold l2, c2; lia).
    assert (Hp : pad = []) by (unfold pad; rewrite Hl2, Z.sub_diag; reflexivity).
    rewrite Hp, Hl2. split.
    + assert (takeZ c2 src = takeZ R1 src) by (unfold c2; rewrite Z.min_comm; apply takeZ_min_len).
      destruct ralign; cbn [app]; rewrite ?app_nil_r; assumption.
    + reflexivity.
  - apply Z.eqb_neq in E0. subst c1. cbv iota in c2.
    destruct (cutoff <=? len) eqn:E1.
    + (* chop *)
      apply Z.leb_le in E1.
      assert (Hl2 : l2 = c2) by (unfold l2, c2; lia).
      assert (Hp : pad = []) by (unfold pad; rewrite Hl2, Z.sub_diag; reflexivity).
      rewrite Hp, Hl2. split.
      * assert (takeZ c2 src = takeZ R1 (takeZ cutoff src)) by (rewrite takeZ_takeZ_min; unfold c2; f_equal; lia).
        destruct ralign; cbn [app]; rewrite ?app_nil_r; assumption.
      * rewrite zlen_takeZ. fold len. unfold c2. lia.
    + (* pad *)
      apply Z.leb_gt in E1.
      set (padn := Z.min cutoff (L + len) - len).
      assert (Hpl : zlen (repeat 32 (Z.to_nat padn)) = padn) by (rewrite zlen_repeat; unfold padn; lia).
      destruct ralign.
      * (* padding in front: inside the guard the whole field fits *)
        specialize (Hg eq_refl E1).
        assert (Hc2 : c2 = cutoff) by (unfold c2; lia).
        assert (Hl2 : l2 = len) by (unfold l2; lia).
        assert (Hpn : padn = cutoff - len) by (unfold padn; lia).
        split.
        -- unfold pad. rewrite Hc2, Hl2, Hpn. rewrite (takeZ_all src) by (fold len; lia).
           rewrite takeZ_all; [reflexivity|]. rewrite zlen_app, zlen_repeat. fold len. lia.
        -- rewrite zlen_app, Hpl. fold len. lia.
      * split.
        -- destruct (Z_le_gt_dec R1 len).
           ++ assert (Hc2 : c2 = R1) by (unfold c2; lia).
              assert (Hl2 : l2 = R1) by (unfold l2; lia).
              unfold pad. rewrite Hc2, Hl2, Z.sub_diag. cbn [Z.to_nat repeat]. rewrite app_nil_r.
              rewrite takeZ_app_le by (fold len; lia). reflexivity.
           ++ assert (Hl2 : l2 = len) by (unfold l2, c2; lia).
              unfold pad. rewrite Hl2. rewrite (takeZ_all src) by (fold len; lia).
              rewrite takeZ_app_ge by (fold len; lia). fold len. rewrite takeZ_repeat.
              rewrite Z2Nat.id by (unfold padn; lia).
              replace (Z.min (R1 - len) padn) with (c2 - len) by (unfold c2, padn; lia). reflexivity.
        -- rewrite zlen_app, Hpl. fold len. unfold c2, padn. lia.
Qed.

(* ------------------------------------------------------------------ the loop *)
Section Text.
  Variable L : Z.
  Variable ell : bool.
  Variable field : Z -> option (list Z).
  Variable sfield : Z -> list Z.
  Hypothesis HL : 1 <= L < 4294967296.
  Hypothesis Hfield : forall c, match field c with Some s => s = sfield c | None => sfield c = [] end.
  Hypothesis Hfield0 : field 0 = None.

  (* result of the loop: the buffer holds the first L-1 characters of (prefix ++ rest) *)
  Definition loop_res (st : fst) (R : list Z) (r : fres) : Prop :=
    exists st', r = tf_finish true L ell st' /\ zlen (f_buf st') = L /\
                f_idx st' = zlen (takeZ (L - 1) (takeZ (f_idx st) (f_buf st) ++ R)) /\
                takeZ (f_idx st') (f_buf st') = takeZ (L - 1) (takeZ (f_idx st) (f_buf st) ++ R).

  Lemma loop_stop : forall st R, zlen (f_buf st) = L -> f_idx st = L - 1 -> loop_res st R (tf_finish true L ell st).
  Proof.
    intros st R Hb Hi. exists st. split; [reflexivity|]. split; [exact Hb|].
    assert (Hz : zlen (takeZ (f_idx st) (f_buf st)) = L - 1) by (rewrite zlen_takeZ; lia).
    rewrite takeZ_app_le by lia. rewrite takeZ_all by lia. split; [lia | reflexivity].
  Qed.

  Lemma loop_end : forall st, zlen (f_buf st) = L -> 0 <= f_idx st <= L - 1 -> loop_res st [] (tf_finish true L ell st).
  Proof.
    intros st Hb Hi. exists st. split; [reflexivity|]. split; [exact Hb|].
    rewrite app_nil_r.
    assert (Hz : zlen (takeZ (f_idx st) (f_buf st)) = f_idx st) by (rewrite zlen_takeZ; lia).
    rewrite takeZ_all by lia. split; [lia | reflexivity].
  Qed.

  Lemma loop_chain : forall st st' p R r,
    zlen (f_buf st) = L -> 0 <= f_idx st -> f_idx st' = f_idx st + zlen p ->
    takeZ (f_idx st') (f_buf st') = takeZ (f_idx st) (f_buf st) ++ p ->
    loop_res st' R r -> loop_res st (p ++ R) r.
  Proof.
    intros st st' p R r Hb Hi Hi' Ht [s2 [E [L2 [I2 T2]]]]. exists s2. split; [exact E|]. split; [exact L2|].
    rewrite Ht, <- app_assoc in I2, T2. split; assumption.
  Qed.

  (* one field *)
  Lemma emit_text : forall st src cutoff ralign k R,
    zlen (f_buf st) = L -> 0 <= f_idx st -> f_idx st + 1 < L -> 0 <= cutoff ->
    item_ok L ralign src cutoff (f_idx st) = true ->
    (forall st', zlen (f_buf st') = L -> 0 <= f_idx st' <= L - 1 ->
        f_idx st' = f_idx st + Z.min (zlen (pad_chop L src cutoff ralign)) (L - 1 - f_idx st) ->
        takeZ (f_idx st') (f_buf st') = takeZ (f_idx st) (f_buf st) ++ takeZ (L - 1 - f_idx st) (pad_chop L src cutoff ralign) ->
        loop_res st (pad_chop L src cutoff ralign ++ R) (k st')) ->
    loop_res st (pad_chop L src cutoff ralign ++ R) (emit L st src cutoff ralign k).
  Proof.
    intros st src cutoff ralign k R Hb H0 H1 Hc Hok Hk. unfold emit, strcpy_cutoff_m.
    rewrite wrapsz_small by (rewrite SIZE_MOD_val; lia).
    replace (L - f_idx st <=? 1) with false by (symmetry; apply Z.leb_gt; lia).
    replace (L - f_idx st - 1) with (L - 1 - f_idx st) by lia.
    assert (Hg : ralign = true -> zlen src < cutoff -> cutoff <= L - 1 - f_idx st).
    { intros Hr Hw. unfold item_ok in Hok. rewrite Hr in Hok. cbn [negb orb] in Hok.
      apply orb_true_iff in Hok. destruct Hok as [Hok | Hok]; [|apply Z.leb_le in Hok; lia].
      apply orb_true_iff in Hok. destruct Hok as [Hok | Hok]; apply Z.leb_le in Hok; lia. }
    destruct (cutoff_bytes L src cutoff ralign (L - 1 - f_idx st) ltac:(lia) ltac:(lia) Hc Hg) as [Hbytes Hc2].
    cbv zeta in Hbytes, Hc2. rewrite Hbytes.
    set (p := pad_chop L src cutoff ralign) in *.
    set (c2 := Z.min (if cutoff =? 0 then zlen src else cutoff) (L - 1 - f_idx st)) in *.
    pose proof (zlen_nonneg _ p) as Hp0.
    assert (Hzt : zlen (takeZ (L - 1 - f_idx st) p) = c2) by (rewrite zlen_takeZ, Hc2; lia).
    destruct (store_bytes_append_nul (f_buf st) (f_idx st) (takeZ (L - 1 - f_idx st) p)) as [b [Eb [Lb [Tb _]]]]; [lia | lia |].
    rewrite Eb. rewrite Hzt in Tb.
    rewrite (wrap32_small c2) by lia. rewrite wrap32_small by lia.
    apply Hk; cbn [f_buf f_idx]; [lia | lia | lia | exact Tb].
  Qed.

  Definition mrel (m : fmode) (q : smode2) : Prop :=
    match m, q with
    | MLit, QLit => True
    | MDir r ds dk _, QDir r' ds' dk' => r = r' /\ ds = ds' /\ dk = dk'
    | _, _ => False
    end.

  Lemma conv_text : forall st ralign ds txt c k R,
    zlen (f_buf st) = L -> 0 <= f_idx st -> f_idx st + 1 < L ->
    item_ok L ralign (sfield c) (atoi_cutoff ds) (f_idx st) = true ->
    (forall st', zlen (f_buf st') = L -> 0 <= f_idx st' <= L - 1 ->
        f_idx st' = f_idx st + Z.min (zlen (pad_chop L (sfield c) (atoi_cutoff ds) ralign)) (L - 1 - f_idx st) ->
        takeZ (f_idx st') (f_buf st') = takeZ (f_idx st) (f_buf st) ++ takeZ (L - 1 - f_idx st) (pad_chop L (sfield c) (atoi_cutoff ds) ralign) ->
        loop_res st (pad_chop L (sfield c) (atoi_cutoff ds) ralign ++ R) (k st')) ->
    loop_res st (pad_chop L (sfield c) (atoi_cutoff ds) ralign ++ R) (conv L true field st ralign ds txt c k).
  Proof.
    intros st ralign ds txt c k R Hb H0 H1 Hok Hk. unfold conv. pose proof (Hfield c) as Hf.
    pose proof (atoi_cutoff_nonneg ds).
    destruct (field c) as [s|]; [subst s | rewrite Hf in *]; apply emit_text; auto.
  Qed.

  (* after an item: either the limit is reached (stop) or the whole item went out (continue) *)
  Lemma after_item : forall st st' p R (k : fst -> fres),
    zlen (f_buf st) = L -> 0 <= f_idx st -> f_idx st + 1 <= L ->
    zlen (f_buf st') = L -> 0 <= f_idx st' <= L - 1 ->
    f_idx st' = f_idx st + Z.min (zlen p) (L - 1 - f_idx st) ->
    takeZ (f_idx st') (f_buf st') = takeZ (f_idx st) (f_buf st) ++ takeZ (L - 1 - f_idx st) p ->
    (f_idx st' < L - 1 -> loop_res st' R (k st')) ->
    loop_res st (p ++ R) (bottom L (tf_finish true L ell) st' k).
  Proof.
    intros st st' p R k Hb H0 H1 Hb' Hi' Hidx Ht Hk. unfold bottom.
    rewrite wrapsz_small by (rewrite SIZE_MOD_val; lia).
    pose proof (zlen_nonneg _ p) as Hp.
    assert (Hz : zlen (takeZ (f_idx st) (f_buf st)) = f_idx st) by (rewrite zlen_takeZ; lia).
    destruct (L - 1 <=? f_idx st') eqn:E.
    - (* the limit is reached *)
      apply Z.leb_le in E. exists st'. split; [reflexivity|]. split; [exact Hb'|].
      rewrite takeZ_app_ge by lia. rewrite Hz.
      assert (Hcut : takeZ (L - 1 - f_idx st) (p ++ R) = takeZ (L - 1 - f_idx st) p) by (apply takeZ_app_le; lia).
      rewrite Hcut, <- Ht. split; [|reflexivity].
      rewrite zlen_takeZ. lia.
    - apply Z.leb_gt in E.
      assert (Hall : takeZ (L - 1 - f_idx st) p = p) by (apply takeZ_all; lia).
      rewrite Hall in Ht.
      apply (loop_chain st st' p R); auto; lia.
  Qed.

  Lemma sfield0 : sfield 0 = [].
  Proof. pose proof (Hfield 0) as H. rewrite Hfield0 in H. exact H. Qed.

  Lemma fmt_go_text : forall f m q st,
    mrel m q -> zlen (f_buf st) = L -> 0 <= f_idx st ->
    match m with MLit => f_idx st <= L - 1 | MDir _ _ _ _ => f_idx st + 1 < L end ->
    ralign_ok L sfield f q (f_idx st) = true ->
    loop_res st (render_spec L sfield f q) (fmt_go true L true field (tf_finish true L ell) f m st).
  Proof.
    induction f as [|c f' IH]; intros m q st Hrel Hb H0 Hm Hok.
    - destruct m as [|ralign ds dk txt]; destruct q as [|r' ds' dk']; try contradiction; cbn [fmt_go render_spec].
      + apply loop_end; auto; lia.
      + destruct Hrel as [<- [<- <-]]. cbn [ralign_ok] in Hok.
        replace (pad_chop L [] (atoi_cutoff ds) ralign) with (pad_chop L (sfield 0) (atoi_cutoff ds) ralign ++ [])
          by (rewrite app_nil_r, sfield0; reflexivity).
        apply conv_text; [exact Hb | exact H0 | exact Hm | rewrite sfield0; exact Hok |].
        intros st' Hb' Hi' Hidx Ht.
        apply (after_item st st' _ [] (fun st'' => tf_finish true L ell st'')); auto; try lia.
        intros _. apply loop_end; auto.
    - destruct m as [|ralign ds dk txt]; destruct q as [|r' ds' dk']; try contradiction; cbn [fmt_go render_spec andb].
      + (* literal text *)
        cbn [ralign_ok] in Hok.
        destruct (L <=? f_idx st + 1) eqn:E.
        { apply Z.leb_le in E. apply loop_stop; auto; lia. }
        apply Z.leb_gt in E.
        revert Hok. destruct (c =? 37); intros Hok.
        * apply IH; [cbn; auto | exact Hb | exact H0 | lia | exact Hok].
        * destruct (store_append (f_buf st) (f_idx st) c) as [b [Eb [Lb Tb]]]; [lia|]. rewrite Eb.
          rewrite wrap32_small by lia.
          change (c :: render_spec L sfield f' QLit) with ([c] ++ render_spec L sfield f' QLit).
          apply (after_item st (mkF b (f_idx st + 1)) [c] _ (fun st' => fmt_go true L true field (tf_finish true L ell) f' MLit st'));
            cbn [f_buf f_idx]; auto; try lia.
          -- change (zlen [c]) with 1. lia.
          -- rewrite (takeZ_all [c]) by (change (zlen [c]) with 1; lia). exact Tb.
          -- intros Hlt. apply IH; cbn [f_buf f_idx]; [exact I | lia | lia | lia | exact Hok].
      + (* inside a directive *)
        destruct Hrel as [<- [<- <-]]. cbn [ralign_ok] in Hok.
        revert Hok. destruct (dk && (c =? 45)); intros Hok.
        { apply IH; [cbn; auto | exact Hb | exact H0 | exact Hm | exact Hok]. }
        revert Hok. destruct (is_digit c); intros Hok.
        { apply IH; [cbn; auto | exact Hb | exact H0 | exact Hm | exact Hok]. }
        apply andb_true_iff in Hok. destruct Hok as [Hitem Hrest].
        apply conv_text; [exact Hb | exact H0 | exact Hm | exact Hitem |].
        intros st' Hb' Hi' Hidx Ht.
        apply (after_item st st' _ _ (fun st'' => fmt_go true L true field (tf_finish true L ell) f' MLit st'')); auto; try lia.
        intros Hlt. apply IH; [exact I | exact Hb' | lia | lia |].
        pose proof (zlen_nonneg _ (pad_chop L (sfield c) (atoi_cutoff ds) ralign)).
        replace (f_idx st') with (f_idx st + zlen (pad_chop L (sfield c) (atoi_cutoff ds) ralign)) by lia.
        exact Hrest.
  Qed.

  (* ---------------------------------------------------------------- the code after the loop *)
  Lemma store_keeps_prefix : forall buf i v b k, store buf i v = Some b -> k <= i -> takeZ k b = takeZ k buf.
  Proof.
    intros buf i v b k E Hk. pose proof (store_inv _ _ _ _ E) as [Hi _]. apply store_spec in E. rewrite E.
    assert (zlen (takeZ i buf) = i) by (rewrite zlen_takeZ; lia).
    rewrite takeZ_app_le by lia. apply takeZ_takeZ. lia.
  Qed.

  Lemma rd_takeZ : forall (l : list Z) k j, 0 <= j < k -> rd (takeZ k l) j = rd l j.
  Proof.
    induction l as [|x t IH]; intros k j H.
    - reflexivity.
    - rewrite takeZ_cons_pos by lia. destruct (Z.eq_dec j 0) as [->|].
      + rewrite !rd_nth by lia. reflexivity.
      + rewrite !rd_nth by lia. replace (Z.to_nat j) with (S (Z.to_nat (j - 1))) by lia. cbn [nth].
        rewrite <- !rd_nth by lia. apply IH. lia.
  Qed.

  Lemma tf_finish_text : forall st R,
    zlen (f_buf st) = L -> f_idx st = zlen (takeZ (L - 1) R) -> takeZ (f_idx st) (f_buf st) = takeZ (L - 1) R ->
    exists b, tf_finish true L ell st = FDone b /\ zlen b = L /\
              takeZ (zlen (truncate_spec L ell R)) b = truncate_spec L ell R /\
              rd b (zlen (truncate_spec L ell R)) = 0.
  Proof.
    intros st R Hb Hi Ht. unfold tf_finish, truncate_spec.
    set (t := takeZ (L - 1) R) in *. set (n := zlen t) in *.
    assert (Hn : 0 <= n <= L - 1).
    { unfold n, t. rewrite zlen_takeZ. pose proof (zlen_nonneg _ R). lia. }
    rewrite Hi. rewrite wrapsz_small by (rewrite SIZE_MOD_val; lia).
    assert (Hrd : 0 < n -> rd (f_buf st) (n - 1) = rd t (n - 1)).
    { intros. rewrite <- Ht, Hi. symmetry. apply rd_takeZ. lia. }
    (* the newline step *)
    assert (Hb1 : exists b1, (if (0 <? n) && (rd (f_buf st) (n - 1) =? 10) then store (f_buf st) (n - 1) 0 else Some (f_buf st)) = Some b1 /\
                             zlen b1 = L /\ (forall k, k <= n - 1 -> takeZ k b1 = takeZ k (f_buf st)) /\
                             ((0 <? n) && (rd t (n - 1) =? 10) = true -> rd b1 (n - 1) = 0) /\
                             ((0 <? n) && (rd t (n - 1) =? 10) = false -> b1 = f_buf st)).
    { destruct (0 <? n) eqn:E0; cbn [andb].
      - apply Z.ltb_lt in E0. rewrite (Hrd E0).
        destruct (rd t (n - 1) =? 10) eqn:E1.
        + destruct (store_some (f_buf st) (n - 1) 0) as [b1 [E L1]]; [lia|]. exists b1. rewrite E.
          split; [reflexivity|]. split; [lia|]. split; [intros; eapply store_keeps_prefix; eauto|].
          split; [intros _; eapply rd_store_same; eauto | discriminate].
        + exists (f_buf st). split; [reflexivity|]. split; [exact Hb|]. split; [reflexivity|]. split; [discriminate | reflexivity].
      - exists (f_buf st). split; [reflexivity|]. split; [exact Hb|]. split; [reflexivity|]. split; [discriminate | reflexivity]. }
    destruct Hb1 as [b1 [E1 [L1 [P1 [N1 S1]]]]]. rewrite E1.
    destruct (store_some b1 n 0) as [b2 [E2 L2]]; [lia|]. rewrite E2.
    destruct (ell && (L - 1 <=? n) && (3 <=? n)) eqn:EE.
    - (* ellipsis *)
      apply andb_true_iff in EE. destruct EE as [_ E3]. apply Z.leb_le in E3.
      destruct (store_bytes_append b2 (n - 3) [46; 46; 46]) as [b3 [E3b [L3 T3]]]; [lia | change (zlen [46; 46; 46]) with 3; lia |].
      rewrite E3b. exists b3. split; [reflexivity|]. split; [lia|].
      assert (Hzt : zlen (takeZ (n - 3) t ++ [46; 46; 46]) = n).
      { rewrite zlen_app, zlen_takeZ. change (zlen [46; 46; 46]) with 3. fold n. lia. }
      rewrite Hzt. change (zlen [46; 46; 46]) with 3 in T3. replace (n - 3 + 3) with n in T3 by lia.
      split.
      + rewrite T3. f_equal.
        rewrite (store_keeps_prefix _ _ _ _ (n - 3) E2) by lia. rewrite P1 by lia.
        rewrite <- Ht, Hi. rewrite takeZ_takeZ by lia. reflexivity.
      + rewrite (store_bytes_rd_after _ _ _ _ n E3b) by (try lia; change (zlen [46; 46; 46]) with 3; lia).
        eapply rd_store_same; eauto.
    - destruct ((0 <? n) && (rd t (n - 1) =? 10)) eqn:EN.
      + (* trailing newline dropped *)
        exists b2. split; [reflexivity|]. split; [lia|].
        apply andb_true_iff in EN. destruct EN as [E0 E10]. apply Z.ltb_lt in E0.
        assert (Hzt : zlen (takeZ (n - 1) t) = n - 1) by (rewrite zlen_takeZ; fold n; lia).
        rewrite Hzt. split.
        * rewrite (store_keeps_prefix _ _ _ _ (n - 1) E2) by lia. rewrite P1 by lia.
          rewrite <- Ht, Hi. rewrite takeZ_takeZ by lia. reflexivity.
        * rewrite (rd_store_other _ _ _ _ _ E2) by lia. apply N1. first [reflexivity | rewrite andb_true_iff; split; [apply Z.ltb_lt; lia | exact E10]].
      + exists b2. split; [reflexivity|]. split; [lia|]. fold n. split.
        * rewrite (store_keeps_prefix _ _ _ _ n E2) by lia. rewrite S1 by first [reflexivity | exact EN]. rewrite <- Hi. exact Ht.
        * eapply rd_store_same; eauto.
  Qed.
End Text.

(* ------------------------------------------------------------------ the theorem *)
Theorem target_format_text : forall fmt cs msg L ell o garbage,
  1 <= L < 4294967296 -> zlen garbage = L ->
  line_guard fmt cs msg L o = true ->
  exists buf, target_format true fmt cs msg L ell o garbage = FDone buf /\ zlen buf = L /\
              takeZ (zlen (line_spec fmt cs msg L ell o)) buf = line_spec fmt cs msg L ell o /\
              rd buf (zlen (line_spec fmt cs msg L ell o)) = 0.
Proof.
  intros fmt cs msg L ell o garbage HL Hg Hguard. unfold target_format, line_spec, line_guard in *.
  rewrite Z.max_l by lia.
  set (field := fun c : Z => if (c =? 103) || (c =? 110) || (c =? 102) || (c =? 108) || (c =? 116) || (c =? 84) || (c =? 98) || (c =? 112)
                             then Some (dyn_field cs (cstr msg) o c) else None).
  set (sfield := dyn_field cs (cstr msg) o) in *.
  assert (Hfield : forall c, match field c with Some s => s = sfield c | None => sfield c = [] end).
  { intros c. unfold field.
    destruct ((c =? 103) || (c =? 110) || (c =? 102) || (c =? 108) || (c =? 116) || (c =? 84) || (c =? 98) || (c =? 112)) eqn:E;
      [reflexivity|].
    repeat (apply orb_false_iff in E; destruct E as [E ?]).
    unfold sfield, dyn_field.
    repeat match goal with H : (c =? _) = false |- _ => rewrite H; clear H end. reflexivity. }
  destruct (fmt_go_text L ell field sfield HL Hfield eq_refl (cstr fmt) MLit QLit (mkF garbage 0))
    as [st' [E [Lb [Hi Ht]]]]; [exact I | exact Hg | cbn [f_idx]; lia | cbn [f_idx]; lia | exact Hguard |].
  rewrite E. cbn [f_idx f_buf] in Hi, Ht. rewrite (takeZ_nonpos garbage 0) in Hi, Ht by lia. cbn [app] in Hi, Ht.
  apply tf_finish_text; auto.
Qed.
