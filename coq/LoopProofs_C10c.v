(* C10 - the loop does not sleep on queued work: the sum of the levels' todo counters equals the number of queued
   items whenever no dispatch is in progress, callbacks can only lower a level's counter, so the remaining_todo that a
   full turn hands to the next one is at least the number of items still queued, and the next wait gets timeout 0. *)
Require Import ZArith List Bool Lia.
Require Import Verif.gen.Consts_loop Verif.LoopModel Verif.LoopProofs_C10 Verif.LoopProofs_C10w Verif.LoopProofs_C10b Verif.LoopProofs_C08a.
Import ListNotations.
Open Scope Z_scope.

Definition tsum (st : state) : Z := todo (lv st High) + todo (lv st Med) + todo (lv st Low).
Definition qsum (st : state) : Z := zlen (jobq (lv st High)) + zlen (jobq (lv st Med)) + zlen (jobq (lv st Low)).
Definition dd (st : state) : Z := tsum st - qsum st.
(* what API calls (hence callbacks) may do: the difference stays, counters and list lengths only go down *)
Definition dstep (st st' : state) : Prop :=
  dd st' = dd st /\ (forall p, todo (lv st' p) <= todo (lv st p)) /\ (forall p, zlen (jobq (lv st' p)) <= zlen (jobq (lv st p))).
Lemma dstep_refl : forall st, dstep st st.
Proof. intros. split; [reflexivity|]. split; intros; lia. Qed.
Lemma dstep_trans : forall a b c, dstep a b -> dstep b c -> dstep a c.
Proof. intros a b c (A1 & A2 & A3) (B1 & B2 & B3). split; [lia|]. split; intros p; [specialize (A2 p); specialize (B2 p)|specialize (A3 p); specialize (B3 p)]; lia. Qed.
Lemma dstep_lv : forall st st', lv st' = lv st -> dstep st st'.
Proof. intros st st' L. unfold dstep, dd, tsum, qsum. rewrite L. split; [reflexivity|]. split; intros; lia. Qed.
Ltac dlv := apply dstep_lv; reflexivity.

Lemma zlen_remove_first : forall it l, existsb (qitem_eqb it) l = true ->
  zlen (match remove_first (qitem_eqb it) l with Some (_, r) => r | None => l end) = zlen l - 1.
Proof.
  intros it l H. destruct (remove_first (qitem_eqb it) l) as [[y r]|] eqn:R.
  - apply remove_first_spec in R. destruct R as (l1 & l2 & -> & -> & _). rewrite !zlen_app. unfold zlen. cbn [length]. lia.
  - apply existsb_exists in H. destruct H as (y & A & B). exfalso. exact (remove_first_some _ _ _ y A B R).
Qed.
Lemma zlen_filter_split : forall A (f : A -> bool) l, zlen (filter f l) + zlen (filter (fun x => negb (f x)) l) = zlen l.
Proof. induction l; cbn; [reflexivity|]. unfold zlen in *. destruct (f a); cbn [negb length]; lia. Qed.

(* the level primitives *)
Lemma dstep_item_del : forall p it st, dstep st (item_del p it st).
Proof.
  intros p it st. unfold item_del.
  assert (K : forall q, in_jobq it q st = true -> dstep st (dec_todo p (unlink it q st))).
  { intros q H. unfold in_jobq in H. pose proof (zlen_remove_first it _ H) as L.
    unfold dstep, dd, tsum, qsum, dec_todo, unlink, upd_level, set_lv. destruct p, q; cbn; rewrite ?L; repeat split; try lia; intros []; cbn; rewrite ?L; lia. }
  destruct (in_jobq it High st) eqn:EH; [apply K; exact EH|].
  destruct (in_jobq it Med st) eqn:EM; [apply K; exact EM|].
  destruct (in_jobq it Low st) eqn:EL; [apply K; exact EL|]. apply dstep_refl.
Qed.
Lemma dstep_purge : forall h p st, dstep st (purge_clones h p st).
Proof.
  intros h p st. pose proof (zlen_filter_split _ (is_clone_of h) (jobq (lv st p))) as L.
  pose proof (zlen_nonneg _ (filter (is_clone_of h) (jobq (lv st p)))).
  unfold dstep, dd, tsum, qsum, purge_clones, upd_level, set_lv. destruct p; cbn; repeat split; try lia; intros []; cbn; lia.
Qed.
Lemma dstep_wait_only : forall p f st, (forall l, jobq (f l) = jobq l /\ todo (f l) = todo l) -> dstep st (upd_level p f st).
Proof.
  intros p f st H. destruct (H (lv st p)) as [A B].
  unfold dstep, dd, tsum, qsum, upd_level, set_lv. destruct p; cbn; rewrite ?A, ?B; repeat split; try lia; intros []; cbn; rewrite ?A, ?B; lia.
Qed.

(* API calls *)
Lemma dstep_job_del : forall p key st, dstep st (snd (job_del p key st)).
Proof.
  intros. unfold job_del. destruct (remove_first (is_job_key key) (wait (lv st p))) as [[it r]|]; cbn [snd].
  - apply (dstep_trans st (emit (EvDel 0 (item_uid it)) st)); [dlv|]. apply dstep_wait_only. intros; cbn; auto.
  - destruct (find (is_job_key key) (jobq (lv st p))) as [it|]; cbn [snd]; [|apply dstep_refl].
    apply (dstep_trans st (emit (EvDel 0 (item_uid it)) st)); [dlv|apply dstep_item_del].
Qed.
Lemma dstep_timer_del : forall h st, dstep st (snd (timer_del h st)).
Proof.
  intros. unfold timer_del. destruct (timer_from_handle h st) as [[i t]|]; [|apply dstep_refl].
  destruct (t_state t); cbn [snd]; try apply dstep_refl.
  - eapply dstep_trans; [apply (dstep_item_del (t_p t) (QTimer i) st)|]. dlv.
  - dlv.
Qed.
Lemma dstep_poll_del : forall fd st, dstep st (snd (poll_del fd st)).
Proof.
  intros. unfold poll_del. destruct (find_idx _ _) as [i|]; [|apply dstep_refl].
  destruct (nth_error (polls st) i) as [e|]; [|apply dstep_refl].
  assert (K : forall s, dstep s (snd (let '(res, s') := k_del fd (emit (EvDel 2 (p_uid e)) s) in (res, set_polls (upd_nth i mark_deleted (polls s')) s')))).
  { intros s. unfold k_del. destruct (kfind _ _); cbn; dlv. }
  destruct (p_state e); cbn [snd]; try apply dstep_refl.
  - eapply dstep_trans; [apply (dstep_item_del (p_p e) (QFd i) st)|apply K].
  - apply K.
Qed.
Lemma dstep_signal_del : forall h st, dstep st (snd (signal_del h st)).
Proof.
  intros. unfold signal_del. destruct (h =? 0); [apply dstep_refl|].
  destruct (sig_find h st) as [s|]; cbn [snd]; [|unfold flag_uaf; dlv].
  destruct (fx_sigdel (fx st)).
  - eapply dstep_trans; [eapply dstep_trans; [eapply dstep_trans; [apply dstep_purge|apply dstep_purge]|apply dstep_purge]|]. dlv.
  - destruct (find _ _); [eapply dstep_trans; [apply dstep_item_del|dlv]|dlv].
Qed.
Lemma dstep_fr : forall st st', fr st st' -> dstep st st'.
Proof. intros st st' [L _]. apply dstep_lv. exact L. Qed.

Lemma dstep_exec_op : forall o st, dstep st (exec_op o st).
Proof.
  intros o st. unfold exec_op. set (s0 := emit (EvOp o) st).
  assert (S0 : dstep st s0) by dlv.
  assert (R : forall tag (r : Z * state), dstep s0 (snd r) -> dstep st (ret tag r)).
  { intros tag r H. unfold ret. eapply dstep_trans; [exact S0|]. eapply dstep_trans; [exact H|]. dlv. }
  destruct o.
  - apply R. unfold job_add, fresh_uid. cbn [snd].
    match goal with |- dstep s0 (upd_level ?p ?f ?s) => apply (dstep_trans s0 s); [dlv|apply dstep_wait_only; intros; cbn; auto] end.
  - apply R. apply dstep_job_del.
  - apply R. apply dstep_fr. apply fr_timer_add.
  - apply R. apply dstep_timer_del.
  - apply R. cbn. apply dstep_refl.
  - apply R. apply dstep_fr. apply fr_poll_add.
  - apply R. apply dstep_fr. apply fr_poll_mod.
  - apply R. apply dstep_poll_del.
  - apply R. unfold signal_add, fresh_uid. cbn. dlv.
  - apply R. unfold signal_mod. destruct (assoc reg (sregs s0) =? 0); [apply dstep_refl|].
    destruct (sig_find _ _); cbn; [dlv|unfold flag_uaf; dlv].
  - apply R. apply dstep_signal_del.
  - eapply dstep_trans; [exact S0|]. dlv.
  - eapply dstep_trans; [exact S0|]. dlv.
  - eapply dstep_trans; [exact S0|]. unfold raise_signal. destruct (existsb _ _); [dlv|apply dstep_refl].
Qed.
Lemma dstep_exec_ops : forall ops st, dstep st (exec_ops ops st).
Proof.
  induction ops as [|o ops IH]; intros st; [apply dstep_refl|]. unfold exec_ops. cbn [fold_left].
  eapply dstep_trans; [apply dstep_exec_op|apply IH].
Qed.
Lemma dstep_callback : forall beh kind key a b st, dstep st (snd (callback beh kind key a b st)).
Proof.
  intros. unfold callback. destruct (beh key (assoc key (cnt st))) as [ops r]. cbn [snd].
  eapply dstep_trans; [|apply dstep_exec_ops]. dlv.
Qed.
Lemma dstep_dispatch : forall beh it st, dstep st (dispatch beh it st).
Proof.
  intros beh it st. destruct it as [u key|i|i|u f g k]; cbn [dispatch].
  - eapply dstep_trans; [|apply dstep_callback]. dlv.
  - destruct (nth_error (timers st) i) as [t|]; [|apply dstep_refl].
    match goal with |- context [callback beh 1 ?k 0 0 ?s] => pose proof (dstep_callback beh 1 k 0 0 s) as H; destruct (callback beh 1 k 0 0 s) as [r s3] end.
    cbn [snd] in *. eapply dstep_trans; [|eapply dstep_trans; [exact H|dlv]]. dlv.
  - destruct (nth_error (polls st) i) as [e|]; [|apply dstep_refl].
    match goal with |- context [callback beh 2 ?k ?a ?b ?s] => pose proof (dstep_callback beh 2 k a b s) as H; destruct (callback beh 2 k a b s) as [r s3] end.
    cbn [snd] in *. eapply dstep_trans; [|eapply dstep_trans; [exact H|]]; [dlv|].
    destruct (r <? 0); [|dlv]. destruct (nth_error (polls s3) i) as [e'|]; [destruct (est_eqb (p_state e') Deleted)|]; dlv.
  - match goal with |- context [callback beh 3 ?k ?a 0 ?s] => pose proof (dstep_callback beh 3 k a 0 s) as H; destruct (callback beh 3 k a 0 s) as [r s3] end.
    cbn [snd] in *. eapply dstep_trans; [|eapply dstep_trans; [exact H|]]; [dlv|].
    destruct (r =? 0); [apply dstep_refl|]. destruct (sig_find f s3); [apply dstep_signal_del|unfold flag_uaf; dlv].
Qed.

(* qb_loop_run_level: the difference is restored when it returns; other levels' counters only go down *)
Lemma run_level_go_dd : forall beh p fuel processed st,
  dd (fst (run_level_go beh p fuel processed st)) = dd st /\
  (forall q, q <> p -> todo (lv (fst (run_level_go beh p fuel processed st)) q) <= todo (lv st q)).
Proof.
  intros beh p. induction fuel as [|fu IH]; intros processed st; cbn [run_level_go]; [cbn [fst]; split; [reflexivity|intros; lia]|].
  destruct (jobq (lv st p)) as [|it rest] eqn:Q; [cbn [fst]; split; [reflexivity|intros; lia]|].
  set (s1 := upd_level p (fun l => {| wait := wait l; jobq := rest; todo := todo l |}) st).
  destruct (dstep_dispatch beh it s1) as (D2 & T2 & _). set (s2 := dispatch beh it s1) in *.
  set (s3 := dec_todo p s2).
  assert (D1 : dd s1 = dd st + 1).
  { unfold s1, dd, tsum, qsum, upd_level, set_lv. destruct p; cbn; rewrite Q; unfold zlen; cbn [length]; lia. }
  assert (T1 : forall q, todo (lv s1 q) = todo (lv st q)).
  { intros q. unfold s1, upd_level, set_lv. cbn. destruct (prio_eqb q p) eqn:E; [apply LoopProofs_C08a.prio_eqb_eq in E; subst|]; reflexivity. }
  assert (D3 : dd s3 = dd st).
  { unfold s3. assert (dd (dec_todo p s2) = dd s2 - 1) by (unfold dd, tsum, qsum, dec_todo, upd_level, set_lv; destruct p; cbn; lia). lia. }
  assert (T3 : forall q, q <> p -> todo (lv s3 q) <= todo (lv st q)).
  { intros q Hq. unfold s3, dec_todo, upd_level, set_lv. cbn. destruct (prio_eqb q p) eqn:E; [apply LoopProofs_C08a.prio_eqb_eq in E; contradiction|].
    specialize (T2 q). rewrite T1 in T2. exact T2. }
  fold s1. fold s2. fold s3.
  destruct (stop s3); [cbn [fst]; split; assumption|].
  destruct (processed + 1 <? LOOP_TO_PROCESS); [|cbn [fst]; split; assumption].
  destruct (IH (processed + 1) s3) as [A B]. split; [lia|]. intros q Hq. specialize (B q Hq). specialize (T3 q Hq). lia.
Qed.
Lemma serve_dd : forall beh c p st, dd (fst (serve beh c p st)) = dd st /\
  (forall q, q <> p -> todo (lv (fst (serve beh c p st)) q) <= todo (lv st q)).
Proof.
  intros. unfold serve. destruct (prio_geb p c); [|cbn [fst]; split; [reflexivity|intros; lia]].
  pose proof (run_level_go_dd beh p (S (Z.to_nat LOOP_TO_PROCESS)) 0 st) as H. unfold run_level.
  destruct (run_level_go beh p (S (Z.to_nat LOOP_TO_PROCESS)) 0 st). exact H.
Qed.

(* the poll phases add to a list and to its counter together *)
Lemma dd_item_add : forall p it st, dd (item_add p it st) = dd st.
Proof. intros. unfold dd, tsum, qsum, item_add, upd_level, set_lv. destruct p; cbn; rewrite zlen_app; unfold zlen; cbn [length]; lia. Qed.
Lemma dd_more_jobs_level : forall p n st, dd (snd (more_jobs_level p (n, st))) = dd st.
Proof.
  intros. unfold more_jobs_level. destruct (wait (lv st p)) as [|w ws] eqn:W; [reflexivity|]. cbn [snd].
  set (l0 := w :: ws). clearbody l0.
  unfold dd, tsum, qsum, upd_level, set_lv. destruct p; cbn; rewrite zlen_app; lia.
Qed.
Lemma dd_get_more_jobs : forall st, dd (snd (get_more_jobs st)) = dd st.
Proof.
  intros. unfold get_more_jobs.
  pose proof (dd_more_jobs_level Low 0 st) as H1. destruct (more_jobs_level Low (0, st)) as [n1 s1]. cbn [snd] in *.
  pose proof (dd_more_jobs_level Med n1 s1) as H2. destruct (more_jobs_level Med (n1, s1)) as [n2 s2]. cbn [snd] in *.
  rewrite dd_more_jobs_level. lia.
Qed.
Lemma dd_lv : forall st st', lv st' = lv st -> dd st' = dd st.
Proof. intros st st' L. unfold dd, tsum, qsum. now rewrite L. Qed.
Lemma dd_expire_go : forall fuel n st, dd (snd (expire_go fuel n st)) = dd st.
Proof.
  induction fuel as [|f IH]; intros n st; cbn [expire_go]; [reflexivity|].
  destruct (heap_min st) as [[i e]|]; [|reflexivity]. destruct (e <? now st); [|reflexivity].
  destruct (nth_error (timers st) i) as [t|]; [|reflexivity]. rewrite IH, dd_item_add. apply dd_lv. reflexivity.
Qed.
Lemma dd_clone_all : forall signo l n st, dd (snd (clone_all signo l n st)) = dd st.
Proof.
  induction l as [|s l IH]; intros n st; cbn [clone_all]; [reflexivity|].
  destruct (s_signo s =? signo); [|apply IH]. unfold fresh_uid. rewrite IH, dd_item_add. apply dd_lv. reflexivity.
Qed.
Lemma dd_poll_event : forall evt n st, dd (snd (poll_event evt (n, st))) = dd st.
Proof.
  intros [data bits] n st. unfold poll_event.
  destruct (nth_error (polls st) _) as [e|]; [|apply dd_lv; reflexivity].
  destruct (negb _); [apply dd_lv; reflexivity|]. destruct (_ || _); [reflexivity|].
  destruct (est_eqb (p_state e) Joblist); [apply dd_lv; reflexivity|]. destruct (negb (p_fn e)); [unfold flag_uaf; apply dd_lv; reflexivity|].
  destruct (p_sig e).
  - unfold signal_add_to_jobs. cbn [sigpipe set_polls]. destruct (sigpipe st) as [|g rest]; cbn [snd]; [apply dd_lv; reflexivity|].
    match goal with |- context [clone_all ?a ?b ?c ?s] => pose proof (dd_clone_all a b c s) as H; destruct (clone_all a b c s) as [k s'] end.
    cbn [snd] in *. rewrite H. apply dd_lv. reflexivity.
  - cbn [snd]. match goal with |- dd (set_polls _ (item_add ?P ?IT ?s1)) = _ =>
      transitivity (dd (item_add P IT s1)); [apply dd_lv; reflexivity|rewrite dd_item_add; apply dd_lv; reflexivity] end.
Qed.
Lemma dd_fold_poll_event : forall evs n st, dd (snd (fold_left (fun acc evt => poll_event evt acc) evs (n, st))) = dd st.
Proof.
  induction evs as [|evt evs IH]; intros n st; cbn [fold_left]; [reflexivity|].
  pose proof (dd_poll_event evt n st). destruct (poll_event evt (n, st)) as [n1 s1]. cbn [snd] in *. rewrite IH. exact H.
Qed.
Lemma lv_fold_raise : forall gs st, lv (fold_left (fun s g => raise_signal g s) gs st) = lv st.
Proof. induction gs as [|g gs IH]; intros st; cbn [fold_left]; [reflexivity|]. rewrite IH. unfold raise_signal. destruct (existsb _ _); reflexivity. Qed.
Lemma dd_poll_and_add : forall e t st, dd (snd (poll_and_add_to_jobs e t st)) = dd st.
Proof.
  intros. unfold poll_and_add_to_jobs. rewrite dd_fold_poll_event. apply dd_lv. cbn [lv emit set_out].
  destruct (e_stop e); cbn [lv set_stop]; rewrite lv_fold_raise; reflexivity.
Qed.

(* one turn: the difference is kept, and a full turn's remaining_todo covers everything still queued *)
Lemma iteration_dd : forall beh e rs st st' rs' ti, iteration beh e rs st = (st', rs', ti) ->
  dd st' = dd st /\ (ti_returned ti = false -> dd st = 0 -> qsum st' <= r_remaining rs').
Proof.
  intros beh e rs st st' rs' ti. unfold iteration.
  pose proof (dd_get_more_jobs st) as D1. destruct (get_more_jobs st) as [jt s1]. cbn [snd] in *.
  pose proof (dd_expire_go (length (timers s1)) 0 s1) as D2. unfold expire_the_timers. destruct (expire_go _ 0 s1) as [tt s2]. cbn [snd] in *.
  match goal with |- context [poll_and_add_to_jobs e ?t s2] => pose proof (dd_poll_and_add e t s2) as D3; destruct (poll_and_add_to_jobs e t s2) as [x s3] end.
  cbn [snd] in *.
  pose proof (serve_dd beh (next_pstop (r_pstop rs)) High s3) as [D4 T4]. destruct (serve beh _ High s3) as [s4 ih]. cbn [fst] in *.
  destruct (li_admitted ih && stop s4); [intros H; inversion H; subst; split; [lia|discriminate]|].
  pose proof (serve_dd beh (next_pstop (r_pstop rs)) Med s4) as [D5 T5]. destruct (serve beh _ Med s4) as [s5 im]. cbn [fst] in *.
  destruct (li_admitted im && stop s5); [intros H; inversion H; subst; split; [lia|discriminate]|].
  pose proof (serve_dd beh (next_pstop (r_pstop rs)) Low s5) as [D6 T6]. destruct (serve beh _ Low s5) as [s6 il]. cbn [fst] in *.
  destruct (li_admitted il && stop s6); [intros H; inversion H; subst; split; [lia|discriminate]|].
  intros H; inversion H; subst. split; [lia|]. intros _ Z0. cbn [r_remaining].
  pose proof (T5 High ltac:(discriminate)). pose proof (T6 High ltac:(discriminate)). pose proof (T6 Med ltac:(discriminate)).
  assert (dd st' = 0) by lia. unfold dd, tsum in *. lia.
Qed.

(* the next wait does not block *)
Lemma no_sleep_on_queued_work : forall beh e1 e2 rs st st1 rs1 t1,
  dd st = 0 -> iteration beh e1 rs st = (st1, rs1, t1) -> ti_returned t1 = false -> 0 < qsum st1 ->
  ti_timeout (snd (iteration beh e2 rs1 st1)) = 0.
Proof.
  intros beh e1 e2 rs st st1 rs1 t1 Z0 I1 R Q. destruct (iteration_dd _ _ _ _ _ _ _ I1) as [_ B]. specialize (B R Z0).
  assert (P : (0 <? r_remaining rs1) = true) by (apply Z.ltb_lt; lia).
  unfold iteration. rewrite P. cbn [orb]. destr_lets; reflexivity.
Qed.

(* the difference is 0 in every state reachable by a history (between calls, i.e. outside any dispatch) *)
Lemma run_go_dd : forall beh envs rs st, dd (fst (run_go beh envs rs st)) = dd st.
Proof.
  intros beh. induction envs as [|e es IH]; intros rs st; cbn [run_go].
  - destruct (iteration beh env_end rs st) as [[s r] t] eqn:I. cbn. apply (iteration_dd _ _ _ _ _ _ _ I).
  - destruct (iteration beh e rs st) as [[s r] t] eqn:I. destruct (iteration_dd _ _ _ _ _ _ _ I) as [A _].
    destruct (ti_returned t || stop s); [exact A|]. specialize (IH r s). destruct (run_go beh es r s). cbn in *. lia.
Qed.
Lemma dd_all_histories : forall f beh h rnd, dd (run_history_fx f beh h rnd) = 0.
Proof.
  intros f beh h rnd. unfold run_history_fx.
  assert (forall st, dd st = 0 -> dd (fold_left (fun s c => exec_cmd beh c s) h st) = 0).
  { induction h as [|c h IH]; intros st Z0; cbn [fold_left]; [exact Z0|]. apply IH. destruct c as [o|envs]; cbn [exec_cmd].
    - destruct (dstep_exec_op o st) as [A _]. lia.
    - unfold loop_run. pose proof (run_go_dd beh envs (run_start_of st) (set_stop false st)) as R.
      destruct (run_go beh envs (run_start_of st) (set_stop false st)) as [s tis]. cbn [fst] in *.
      change (dd (emit EvRunRet s)) with (dd s). rewrite R. exact Z0. }
  apply H. unfold loop_create_fx.
  destruct (fr_poll_add true High SIGPIPE_FD LOOP_POLLIN 0 (state_zero f rnd)) as [L _].
  rewrite (dd_lv (state_zero f rnd) _ L). reflexivity.
Qed.
