(* C08 - FIFO per priority, state form: in every reachable state the jobs of one priority sit on
   job_head ++ wait_head in the order they were added (uids are handed out in call order), and
   qb_loop_run_level always dispatches the first item of job_head. *)
Require Import ZArith List Bool Lia Sorted.
Require Import Verif.gen.Consts_loop Verif.LoopModel Verif.LoopProofs_C10 Verif.LoopProofs_C10w
               Verif.LoopProofs_C08a Verif.LoopProofs_C08b Verif.LoopProofs_C08c Verif.LoopProofs_C08d.
Import ListNotations.
Open Scope Z_scope.

(* ------------------------------------------------------------------ subsequences *)
Inductive subseq {A} : list A -> list A -> Prop :=
| ss_nil : subseq [] []
| ss_skip : forall x l l', subseq l l' -> subseq l (x :: l')
| ss_keep : forall x l l', subseq l l' -> subseq (x :: l) (x :: l').
Lemma subseq_refl : forall A (l : list A), subseq l l.
Proof. induction l; [apply ss_nil|apply ss_keep; auto]. Qed.
Lemma subseq_nil_l : forall A (l : list A), subseq [] l.
Proof. induction l; [apply ss_nil|apply ss_skip; auto]. Qed.
Lemma subseq_trans : forall A (a b c : list A), subseq a b -> subseq b c -> subseq a c.
Proof.
  intros A a b c H1 H2. revert a H1. induction H2; intros a H1.
  - exact H1.
  - apply ss_skip. auto.
  - inversion H1; subst; [apply ss_skip; auto|apply ss_keep; auto].
Qed.
Lemma subseq_app : forall A (a a' b b' : list A), subseq a a' -> subseq b b' -> subseq (a ++ b) (a' ++ b').
Proof. intros A a a' b b' H1 H2. induction H1; cbn; [exact H2|apply ss_skip; auto|apply ss_keep; auto]. Qed.
Lemma subseq_filter : forall A (f : A -> bool) l, subseq (filter f l) l.
Proof. induction l; cbn; [apply ss_nil|]. destruct (f a); [apply ss_keep|apply ss_skip]; auto. Qed.
Lemma subseq_filter_compat : forall A (f : A -> bool) l l', subseq l l' -> subseq (filter f l) (filter f l').
Proof.
  intros A f l l' H. induction H; cbn; [apply ss_nil| |].
  - destruct (f x); [apply ss_skip|]; auto.
  - destruct (f x); [apply ss_keep|]; auto.
Qed.
Lemma subseq_map : forall A B (f : A -> B) l l', subseq l l' -> subseq (map f l) (map f l').
Proof. intros A B f l l' H. induction H; cbn; [apply ss_nil|apply ss_skip|apply ss_keep]; auto. Qed.
Lemma subseq_Forall : forall A (P : A -> Prop) l l', subseq l l' -> Forall P l' -> Forall P l.
Proof. intros A P l l' H. induction H; intros F; [constructor| |]; inversion F; subst; auto. Qed.
Lemma subseq_sorted : forall l l', subseq l l' -> StronglySorted Z.lt l' -> StronglySorted Z.lt l.
Proof.
  intros l l' H. induction H; intros S; [constructor| |]; inversion S; subst; auto.
  constructor; [auto|]. eapply subseq_Forall; eauto.
Qed.
Lemma subseq_remove_mid : forall A (l1 l2 : list A) x, subseq (l1 ++ l2) (l1 ++ x :: l2).
Proof. intros. apply subseq_app; [apply subseq_refl|apply ss_skip; apply subseq_refl]. Qed.

(* ------------------------------------------------------------------ the jobs of one level, in list order *)
Definition juids (l : list qitem) : list Z := map item_uid (filter is_job l).
Definition jseq (st : state) (p : prio) : list Z := juids (jobq (lv st p) ++ wait (lv st p)).
Lemma juids_subseq : forall l l', subseq l l' -> subseq (juids l) (juids l').
Proof. intros. unfold juids. apply subseq_map. apply subseq_filter_compat. exact H. Qed.
Lemma juids_app : forall a b, juids (a ++ b) = juids a ++ juids b.
Proof. intros. unfold juids. now rewrite filter_app, map_app. Qed.

Definition jsub (st st' : state) : Prop := (forall p, subseq (jseq st' p) (jseq st p)) /\ next_uid st <= next_uid st'.
Definition jsorted (st : state) : Prop :=
  forall p, StronglySorted Z.lt (jseq st p) /\ Forall (fun x => x < next_uid st) (jseq st p).
Lemma jsub_refl : forall st, jsub st st.
Proof. intros. split; [intros; apply subseq_refl|lia]. Qed.
Lemma jsub_trans : forall a b c, jsub a b -> jsub b c -> jsub a c.
Proof. intros a b c [A1 A2] [B1 B2]. split; [intros p; eapply subseq_trans; eauto|lia]. Qed.
Lemma jsub_sorted : forall st st', jsub st st' -> jsorted st -> jsorted st'.
Proof.
  intros st st' [A B] J p. destruct (J p) as [S F]. split; [eapply subseq_sorted; eauto|].
  eapply subseq_Forall; [apply A|]. eapply Forall_impl; [|exact F]. intros; cbn in *; lia.
Qed.
Lemma jsub_lv : forall st st', lv st' = lv st -> next_uid st <= next_uid st' -> jsub st st'.
Proof. intros st st' L U. split; [|exact U]. intros p. unfold jseq. rewrite L. apply subseq_refl. Qed.

Lemma jseq_upd_level : forall p f st q,
  jseq (upd_level p f st) q = if prio_eqb q p then juids (jobq (f (lv st p)) ++ wait (f (lv st p))) else jseq st q.
Proof. intros. unfold jseq, upd_level, set_lv. cbn. destruct (prio_eqb q p); reflexivity. Qed.
Lemma jsub_upd_level : forall p f st,
  subseq (juids (jobq (f (lv st p)) ++ wait (f (lv st p)))) (jseq st p) -> jsub st (upd_level p f st).
Proof.
  intros p f st H. split; [|cbn; lia]. intros q. rewrite jseq_upd_level. destruct (prio_eqb q p) eqn:E; [|apply subseq_refl].
  apply LoopProofs_C08a.prio_eqb_eq in E. subst. exact H.
Qed.

(* ------------------------------------------------------------------ the list primitives *)
Lemma jsub_dec_todo : forall p st, jsub st (dec_todo p st).
Proof. intros. unfold dec_todo. apply jsub_upd_level. cbn. apply subseq_refl. Qed.
Lemma jsub_unlink : forall it p st, jsub st (unlink it p st).
Proof.
  intros. unfold unlink. apply jsub_upd_level. cbn [jobq wait]. unfold jseq. apply juids_subseq. apply subseq_app; [|apply subseq_refl].
  destruct (remove_first (qitem_eqb it) (jobq (lv st p))) as [[y r]|] eqn:R; [|apply subseq_refl].
  apply remove_first_spec in R. destruct R as (l1 & l2 & -> & -> & _). apply subseq_remove_mid.
Qed.
Lemma jsub_item_del : forall p it st, jsub st (item_del p it st).
Proof.
  intros. unfold item_del.
  destruct (in_jobq it High st); [eapply jsub_trans; [apply jsub_unlink|apply jsub_dec_todo]|].
  destruct (in_jobq it Med st); [eapply jsub_trans; [apply jsub_unlink|apply jsub_dec_todo]|].
  destruct (in_jobq it Low st); [eapply jsub_trans; [apply jsub_unlink|apply jsub_dec_todo]|]. apply jsub_refl.
Qed.
Lemma jsub_item_add : forall p it st, is_job it = false -> jsub st (item_add p it st).
Proof.
  intros p it st J. unfold item_add. apply jsub_upd_level. cbn [jobq wait]. unfold jseq. rewrite !juids_app.
  unfold juids at 2. cbn. rewrite J. cbn. rewrite app_nil_r. apply subseq_refl.
Qed.
Lemma jsub_purge : forall h p st, jsub st (purge_clones h p st).
Proof.
  intros. unfold purge_clones. apply jsub_upd_level. cbn [jobq wait]. unfold jseq. apply juids_subseq.
  apply subseq_app; [apply subseq_filter|apply subseq_refl].
Qed.

(* states that differ outside the levels *)
Ltac lvsame := apply jsub_lv; [reflexivity|cbn; lia].

(* ------------------------------------------------------------------ API calls other than job_add *)
Lemma jsub_job_del : forall p key st, jsub st (snd (job_del p key st)).
Proof.
  intros. unfold job_del. destruct (remove_first (is_job_key key) (wait (lv st p))) as [[it r]|] eqn:R; cbn [snd].
  - apply (jsub_trans st (emit (EvDel 0 (item_uid it)) st)); [lvsame|]. apply jsub_upd_level. cbn [jobq wait].
    change (lv (emit (EvDel 0 (item_uid it)) st) p) with (lv st p). change (jseq (emit (EvDel 0 (item_uid it)) st) p) with (jseq st p).
    unfold jseq. apply juids_subseq. apply subseq_app; [apply subseq_refl|].
    apply remove_first_spec in R. destruct R as (l1 & l2 & -> & -> & _). apply subseq_remove_mid.
  - destruct (find (is_job_key key) (jobq (lv st p))) as [it|]; cbn [snd]; [|apply jsub_refl].
    apply (jsub_trans st (emit (EvDel 0 (item_uid it)) st)); [lvsame|apply jsub_item_del].
Qed.
Lemma jsub_timer_del : forall h st, jsub st (snd (timer_del h st)).
Proof.
  intros. unfold timer_del. destruct (timer_from_handle h st) as [[i t]|]; [|apply jsub_refl].
  destruct (t_state t); cbn [snd]; try apply jsub_refl.
  - eapply jsub_trans; [apply (jsub_item_del (t_p t) (QTimer i) st)|]. lvsame.
  - lvsame.
Qed.
Lemma jsub_poll_del : forall fd st, jsub st (snd (poll_del fd st)).
Proof.
  intros. unfold poll_del. destruct (find_idx _ _) as [i|]; [|apply jsub_refl].
  destruct (nth_error (polls st) i) as [e|]; [|apply jsub_refl].
  assert (K : forall s, jsub s (snd (let '(res, s') := k_del fd (emit (EvDel 2 (p_uid e)) s) in (res, set_polls (upd_nth i mark_deleted (polls s')) s')))).
  { intros s. unfold k_del. destruct (kfind _ _); cbn; lvsame. }
  destruct (p_state e); cbn [snd]; try apply jsub_refl.
  - eapply jsub_trans; [apply (jsub_item_del (p_p e) (QFd i) st)|apply K].
  - apply K.
Qed.
Lemma jsub_signal_del : forall h st, jsub st (snd (signal_del h st)).
Proof.
  intros. unfold signal_del. destruct (h =? 0); [apply jsub_refl|].
  destruct (sig_find h st) as [s|]; cbn [snd]; [|unfold flag_uaf; lvsame].
  destruct (fx_sigdel (fx st)).
  - eapply jsub_trans; [eapply jsub_trans; [eapply jsub_trans; [apply jsub_purge|apply jsub_purge]|apply jsub_purge]|]. lvsame.
  - destruct (find _ _); [eapply jsub_trans; [apply jsub_item_del|lvsame]|lvsame].
Qed.

Lemma jsub_fr : forall st st', fr st st' -> next_uid st <= next_uid st' -> jsub st st'.
Proof. intros st st' [L _] U. apply jsub_lv; assumption. Qed.

(* every call but job_add, given the frame facts of C08c *)
Lemma jsub_exec_op : forall o st, inv st -> (forall p k, o <> OJobAdd p k) -> jsub st (exec_op o st).
Proof.
  intros o st I NJ. pose proof (exec_op_ok o st I) as [_ F]. pose proof (of_uid _ _ F) as U.
  unfold exec_op in *. set (s0 := emit (EvOp o) st) in *.
  assert (S0 : jsub st s0) by (apply jsub_lv; [reflexivity|cbn; lia]).
  assert (I0 : inv s0) by (apply inv_emit_neutral; [exact Logic.I|exact I]).
  assert (R : forall tag (r : Z * state), jsub s0 (snd r) -> jsub st (ret tag r)).
  { intros tag r H. unfold ret. eapply jsub_trans; [exact S0|]. eapply jsub_trans; [exact H|]. lvsame. }
  destruct o.
  - exfalso. eapply NJ. reflexivity.
  - apply R. apply jsub_job_del.
  - apply R. pose proof (timer_add_ok p dur key reg s0 I0) as [_ F2].
    apply jsub_fr; [apply fr_timer_add|apply (of_uid _ _ F2)].
  - apply R. apply jsub_timer_del.
  - apply R. cbn. apply jsub_refl.
  - apply R. pose proof (poll_add_gen_ok false p fd events key s0 I0) as [_ F2].
    apply jsub_fr; [apply fr_poll_add|apply (of_uid _ _ F2)].
  - apply R. pose proof (poll_mod_ok p fd events key s0 I0) as [_ F2].
    apply jsub_fr; [apply fr_poll_mod|apply (of_uid _ _ F2)].
  - apply R. apply jsub_poll_del.
  - apply R. unfold signal_add, fresh_uid. cbn. lvsame.
  - apply R. unfold signal_mod. destruct (assoc reg (sregs s0) =? 0); [apply jsub_refl|].
    destruct (sig_find _ _); cbn; [lvsame|unfold flag_uaf; lvsame].
  - apply R. apply jsub_signal_del.
  - eapply jsub_trans; [exact S0|]. lvsame.
  - eapply jsub_trans; [exact S0|]. lvsame.
  - eapply jsub_trans; [exact S0|]. unfold raise_signal. destruct (existsb _ _); [lvsame|apply jsub_refl].
Qed.

(* ------------------------------------------------------------------ qb_loop_job_add appends the newest uid *)
Lemma sorted_snoc : forall l n, StronglySorted Z.lt l -> Forall (fun x => x < n) l -> StronglySorted Z.lt (l ++ [n]).
Proof.
  induction l; cbn; intros n S F; [repeat constructor|]. inversion S; subst. inversion F; subst.
  constructor; [auto|]. apply Forall_app. split; [auto|repeat constructor; auto].
Qed.
Lemma jsorted_job_add : forall p key st, jsorted st -> jsorted (snd (job_add p key st)).
Proof.
  intros p key st J q. unfold job_add, fresh_uid. cbn [snd]. rewrite jseq_upd_level.
  change (next_uid (upd_level _ _ _)) with (next_uid st + 1).
  destruct (prio_eqb q p) eqn:E.
  - apply LoopProofs_C08a.prio_eqb_eq in E. subst q. cbn [jobq wait].
    change (lv (emit _ (set_next_uid _ st)) p) with (lv st p).
    rewrite app_assoc, juids_app. fold (jseq st p). unfold juids at 2. cbn.
    destruct (J p) as [S F]. split; [apply sorted_snoc; assumption|].
    apply Forall_app. split; [eapply Forall_impl; [|exact F]; intros; cbn in *; lia|repeat constructor; lia].
  - change (jseq (emit _ (set_next_uid _ st)) q) with (jseq st q). destruct (J q) as [S F]. split; [exact S|].
    eapply Forall_impl; [|exact F]. intros; cbn in *; lia.
Qed.

Lemma jsorted_exec_op : forall o st, inv st -> jsorted st -> jsorted (exec_op o st).
Proof.
  intros o st I J. destruct o; try (eapply jsub_sorted; [apply jsub_exec_op; [exact I|intros; discriminate]|exact J]).
  unfold exec_op, ret. eapply jsub_sorted; [|apply jsorted_job_add; eapply jsub_sorted; [|exact J]]; apply jsub_lv; try reflexivity; cbn; lia.
Qed.
Lemma jsorted_exec_ops : forall ops st, inv st -> jsorted st -> jsorted (exec_ops ops st).
Proof.
  induction ops as [|o ops IH]; intros st I J; [exact J|]. unfold exec_ops. cbn [fold_left].
  apply IH; [apply exec_op_ok; exact I|apply jsorted_exec_op; assumption].
Qed.
Lemma jsorted_callback : forall beh kind key a b st, inv st -> jsorted st -> jsorted (snd (callback beh kind key a b st)).
Proof.
  intros beh kind key a b st I J. unfold callback.
  set (s1 := set_cnt _ (emit (EvCb kind key a b) st)).
  assert (I1 : inv s1).
  { eapply inv_same_core; [|apply (inv_emit_neutral (EvCb kind key a b) st Logic.I I)]. constructor; reflexivity. }
  assert (J1 : jsorted s1) by (eapply jsub_sorted; [|exact J]; apply jsub_lv; [reflexivity|cbn; lia]).
  destruct (beh key (assoc key (cnt st))) as [ops r]. cbn [snd]. apply jsorted_exec_ops; assumption.
Qed.

(* ------------------------------------------------------------------ the poll phases only add timers, descriptors, clones *)
Lemma jsub_more_jobs_level : forall p n st, jsub st (snd (more_jobs_level p (n, st))).
Proof.
  intros. unfold more_jobs_level. destruct (wait (lv st p)) as [|w ws] eqn:W; cbn [snd]; [apply jsub_refl|].
  apply jsub_upd_level. cbn [jobq wait]. unfold jseq. rewrite W, app_nil_r. apply subseq_refl.
Qed.
Lemma jsub_get_more_jobs : forall st, jsub st (snd (get_more_jobs st)).
Proof.
  intros. unfold get_more_jobs.
  pose proof (jsub_more_jobs_level Low 0 st) as H1. destruct (more_jobs_level Low (0, st)) as [n1 s1]. cbn [snd] in *.
  pose proof (jsub_more_jobs_level Med n1 s1) as H2. destruct (more_jobs_level Med (n1, s1)) as [n2 s2]. cbn [snd] in *.
  eapply jsub_trans; [exact H1|]. eapply jsub_trans; [exact H2|]. apply jsub_more_jobs_level.
Qed.
Lemma jsub_expire_go : forall fuel n st, jsub st (snd (expire_go fuel n st)).
Proof.
  induction fuel as [|f IH]; intros n st; cbn [expire_go]; [apply jsub_refl|].
  destruct (heap_min st) as [[i e]|]; [|apply jsub_refl]. destruct (e <? now st); [|apply jsub_refl].
  destruct (nth_error (timers st) i) as [t|]; [|apply jsub_refl].
  eapply jsub_trans; [|apply IH].
  match goal with |- jsub st (item_add ?P ?IT ?s1) => apply (jsub_trans st s1); [lvsame|apply jsub_item_add; reflexivity] end.
Qed.
Lemma jsub_clone_all : forall signo l n st, jsub st (snd (clone_all signo l n st)).
Proof.
  induction l as [|s l IH]; intros n st; cbn [clone_all]; [apply jsub_refl|].
  destruct (s_signo s =? signo); [|apply IH]. unfold fresh_uid. eapply jsub_trans; [|apply IH].
  match goal with |- jsub st (item_add ?P ?IT ?s1) => apply (jsub_trans st s1); [lvsame|apply jsub_item_add; reflexivity] end.
Qed.
Lemma jsub_poll_event : forall evt n st, jsub st (snd (poll_event evt (n, st))).
Proof.
  intros [data bits] n st. unfold poll_event.
  destruct (nth_error (polls st) _) as [e|]; [|lvsame].
  destruct (negb _); [lvsame|]. destruct (_ || _); [apply jsub_refl|].
  destruct (est_eqb (p_state e) Joblist); [lvsame|]. destruct (negb (p_fn e)); [unfold flag_uaf; lvsame|].
  destruct (p_sig e).
  - unfold signal_add_to_jobs. cbn [sigpipe set_polls]. destruct (sigpipe st) as [|g rest]; cbn [snd]; [lvsame|].
    match goal with |- context [clone_all ?a ?b ?c ?s] => pose proof (jsub_clone_all a b c s) as H; destruct (clone_all a b c s) as [k s'] end.
    cbn [snd] in *. eapply jsub_trans; [|exact H]. lvsame.
  - cbn [snd]. match goal with |- jsub st (set_polls _ (item_add ?P ?IT ?s1)) =>
      apply (jsub_trans st s1); [lvsame|]; apply (jsub_trans s1 (item_add P IT s1)); [apply jsub_item_add; reflexivity|lvsame] end.
Qed.
Lemma jsub_fold_poll_event : forall evs n st, jsub st (snd (fold_left (fun acc evt => poll_event evt acc) evs (n, st))).
Proof.
  induction evs as [|evt evs IH]; intros n st; cbn [fold_left]; [apply jsub_refl|].
  pose proof (jsub_poll_event evt n st). destruct (poll_event evt (n, st)) as [n1 s1]. cbn [snd] in *.
  eapply jsub_trans; [exact H|apply IH].
Qed.
Lemma jsub_fold_raise : forall gs st, jsub st (fold_left (fun s g => raise_signal g s) gs st).
Proof.
  induction gs as [|g gs IH]; intros st; cbn [fold_left]; [apply jsub_refl|]. eapply jsub_trans; [|apply IH].
  unfold raise_signal. destruct (existsb _ _); [lvsame|apply jsub_refl].
Qed.
Lemma jsub_poll_and_add : forall e t st, jsub st (snd (poll_and_add_to_jobs e t st)).
Proof.
  intros. unfold poll_and_add_to_jobs.
  set (s1 := fold_left (fun s g => raise_signal g s) (e_sigs e) (set_now (now (usage_check st) + e_adv e) (usage_check st))).
  assert (H : jsub st s1) by (unfold s1; eapply jsub_trans; [|apply jsub_fold_raise]; unfold usage_check; lvsame).
  set (s2 := if e_stop e then set_stop true s1 else s1).
  assert (H2 : jsub st s2) by (unfold s2; destruct (e_stop e); [eapply jsub_trans; [exact H|lvsame]|exact H]).
  eapply jsub_trans; [|apply jsub_fold_poll_event]. eapply jsub_trans; [exact H2|]. lvsame.
Qed.

(* ------------------------------------------------------------------ dispatch, levels, turns, runs, histories *)
Lemma jsorted_dispatch : forall beh it st, inv st -> ready st it -> jsorted st -> jsorted (dispatch beh it st).
Proof.
  intros beh it st I RD J. pose proof RD as [Z K]. destruct it as [u key|i|i|u f g k]; cbn [dispatch].
  - destruct K as [U NG]. apply jsorted_callback.
    + apply inv_emit_inv; auto. intros _. eapply job_not_live. rewrite Z. lia.
    + eapply jsub_sorted; [|exact J]. lvsame.
  - destruct K as (t & N & S & NG). rewrite N.
    set (g0 := fun t0 => {| t_state := t_state t0; t_check := 0; t_p := t_p t0; t_key := t_key t0; t_uid := t_uid t0; t_exp := t_exp t0 |}).
    set (s2 := emit (EvInv 1 (t_uid t)) (set_timers (upd_nth i g0 (timers st)) st)).
    assert (I2 : inv s2).
    { pose proof (dispatch_inv beh (QTimer i) st I RD) as _.
      set (s1 := set_timers (upd_nth i g0 (timers st)) st).
      assert (I1 : inv s1) by (apply inv_timer_touch; [exact I|intros; cbn; auto]).
      assert (N1 : nth_error (timers s1) i = Some (g0 t)) by (cbn; apply nth_upd_nth_same; exact N).
      apply inv_emit_inv; [exact I1|destruct I as (_ & (_ & T2 & _) & _); eauto|exact NG|].
      intros _ [[X _]|[[_ (j & t' & A & B & C)]|[[X _]|[X _]]]]; try discriminate X.
      fold s1 in A, C.
      assert (j = i).
      { destruct I1 as (_ & (_ & _ & T3) & _). apply (T3 j i t' (g0 t) A N1); [destruct C as [C|[C _]]; congruence|cbn; congruence|exact B]. }
      subst j. rewrite N1 in A. inversion A; subst t'. destruct C as [C|[_ C]]; [cbn in C; congruence|].
      apply in_occ_all in C. change (occ_all (QTimer i) s1) with (occ_all (QTimer i) st) in C. lia. }
    assert (J2 : jsorted s2) by (eapply jsub_sorted; [|exact J]; lvsame).
    pose proof (jsorted_callback beh 1 (t_key t) 0 0 s2 I2 J2) as J3. destruct (callback beh 1 (t_key t) 0 0 s2) as [r s3]. cbn [snd] in *.
    eapply jsub_sorted; [|exact J3]. lvsame.
  - destruct K as (e & N & S). rewrite N.
    set (s2 := emit (EvInv 2 (p_uid e)) st).
    assert (I2 : inv s2).
    { apply inv_emit_inv; [exact I|destruct I as (_ & _ & (P1 & _) & _); eauto| |intros [X|X]; discriminate X].
      apply live_not_gone; [exact I|]. right; right; left. split; [reflexivity|]. exists i, e. split; [exact N|split; [reflexivity|right; exact S]]. }
    assert (J2 : jsorted s2) by (eapply jsub_sorted; [|exact J]; lvsame).
    pose proof (jsorted_callback beh 2 (p_key e) (p_fd e) (p_revents e) s2 I2 J2) as J3.
    destruct (callback beh 2 (p_key e) (p_fd e) (p_revents e) s2) as [r s3]. cbn [snd] in *.
    destruct (r <? 0).
    + destruct (nth_error (polls s3) i) as [e'|]; [destruct (est_eqb (p_state e') Deleted)|]; (eapply jsub_sorted; [|exact J3]; lvsame).
    + eapply jsub_sorted; [|exact J3]. lvsame.
  - set (s2 := emit (EvInv 3 f) st).
    assert (I2 : inv s2).
    { apply inv_emit_inv; [exact I| | |intros [X|X]; discriminate X].
      - destruct K as (s & A & B). destruct I as (_ & _ & _ & (_ & S2) & _). rewrite <- B. auto.
      - apply live_not_gone; [exact I|]. right; right; right. auto. }
    assert (J2 : jsorted s2) by (eapply jsub_sorted; [|exact J]; lvsame).
    pose proof (jsorted_callback beh 3 k g 0 s2 I2 J2) as J3. pose proof (callback_ok beh 3 k g 0 s2 I2) as [I3 _].
    destruct (callback beh 3 k g 0 s2) as [r s3]. cbn [snd] in *.
    destruct (r =? 0); [exact J3|]. destruct (sig_find f s3); [eapply jsub_sorted; [apply jsub_signal_del|exact J3]|].
    eapply jsub_sorted; [|exact J3]. unfold flag_uaf. lvsame.
Qed.

Lemma run_level_go_both : forall beh p fuel processed st, inv st -> jsorted st ->
  inv (fst (run_level_go beh p fuel processed st)) /\ jsorted (fst (run_level_go beh p fuel processed st)).
Proof.
  intros beh p. induction fuel as [|fu IH]; intros processed st I J; cbn [run_level_go]; [split; assumption|].
  destruct (jobq (lv st p)) as [|it rest] eqn:Q; [split; assumption|].
  set (s1 := upd_level p (fun l => {| wait := wait l; jobq := rest; todo := todo l |}) st).
  (* the facts about s1 and the popped item are those of run_level_go_inv *)
  assert (Hin : In it (all_items st)) by (apply in_all_items; exists p; left; rewrite Q; cbn; auto).
  assert (OC : forall x, occ_all x s1 = occ_all x st - (if qitem_eqb x it then 1 else 0)).
  { intros x. unfold s1. rewrite occ_all_upd_level. cbn [jobq wait]. rewrite Q. cbn [occ]. lia. }
  assert (SH : shrinks st s1).
  { constructor; try reflexivity.
    - intros x. rewrite OC. destruct (qitem_eqb x it); lia.
    - intros y H. unfold s1 in H. apply in_all_upd_level in H. cbn [jobq wait] in H.
      destruct H as [H|[H|H]]; [exact H| |]; apply in_all_items; exists p; [left; rewrite Q; cbn; auto|right; exact H].
    - intros q y H. unfold s1, upd_level, set_lv in H. cbn in H. destruct (prio_eqb q p) eqn:E; [|exact H].
      apply LoopProofs_C08a.prio_eqb_eq in E; subst. exact H. }
  assert (I1 : inv s1) by (eapply inv_shrinks; eauto).
  assert (RD : ready s1 it).
  { split.
    - rewrite OC, qitem_eqb_refl. destruct I as (_ & _ & _ & _ & (Q1 & _) & _). specialize (Q1 it). pose proof (in_occ_all it st Hin). lia.
    - pose proof I as (_ & _ & _ & _ & (_ & Q2 & Q3 & Q4 & Q5 & _) & _).
      destruct it as [u key|i|i|u f g k].
      + split; [exact (Q5 u key Hin)|]. change (out s1) with (out st). apply live_not_gone; [exact I|]. left. split; [reflexivity|]. exists key. exact Hin.
      + destruct (Q2 i Hin) as (t & A & B). exists t. split; [exact A|]. split; [exact B|]. change (out s1) with (out st).
        apply live_not_gone; [exact I|]. right; left. split; [reflexivity|]. exists i, t. auto.
      + exact (Q3 i Hin).
      + exact (Q4 u f g k Hin). }
  assert (J1 : jsorted s1).
  { eapply jsub_sorted; [|exact J]. unfold s1. apply jsub_upd_level. cbn [jobq wait]. unfold jseq. rewrite Q. apply juids_subseq.
    cbn. apply ss_skip. apply subseq_refl. }
  pose proof (dispatch_inv beh it s1 I1 RD) as I2. pose proof (jsorted_dispatch beh it s1 I1 RD J1) as J2.
  assert (I3 : inv (dec_todo p (dispatch beh it s1))) by (eapply inv_shrinks; [apply shrinks_dec_todo|exact I2]).
  assert (J3 : jsorted (dec_todo p (dispatch beh it s1))) by (eapply jsub_sorted; [apply jsub_dec_todo|exact J2]).
  fold s1. destruct (stop (dec_todo p (dispatch beh it s1))); [split; assumption|].
  destruct (processed + 1 <? LOOP_TO_PROCESS); [apply IH; assumption|split; assumption].
Qed.

Lemma serve_both : forall beh c p st, inv st -> jsorted st -> inv (fst (serve beh c p st)) /\ jsorted (fst (serve beh c p st)).
Proof.
  intros beh c p st I J. unfold serve. destruct (prio_geb p c); [|split; assumption].
  pose proof (run_level_go_both beh p (S (Z.to_nat LOOP_TO_PROCESS)) 0 st I J) as H. unfold run_level.
  destruct (run_level_go beh p (S (Z.to_nat LOOP_TO_PROCESS)) 0 st). exact H.
Qed.

Lemma iteration_jsorted : forall beh e rs st, inv st -> jsorted st -> jsorted (fst (fst (iteration beh e rs st))).
Proof.
  intros beh e rs st I J. unfold iteration.
  pose proof (get_more_jobs_inv st I) as I1. pose proof (jsub_get_more_jobs st) as S1. destruct (get_more_jobs st) as [jt s1]. cbn [snd] in *.
  pose proof (expire_go_inv (length (timers s1)) 0 s1 I1) as I2. pose proof (jsub_expire_go (length (timers s1)) 0 s1) as S2.
  unfold expire_the_timers. destruct (expire_go _ 0 s1) as [tt s2]. cbn [snd] in *.
  match goal with |- context [poll_and_add_to_jobs e ?t s2] =>
    pose proof (poll_and_add_inv e t s2 I2) as I3; pose proof (jsub_poll_and_add e t s2) as S3; destruct (poll_and_add_to_jobs e t s2) as [x s3] end.
  cbn [snd] in *.
  assert (J3 : jsorted s3) by (eapply jsub_sorted; [exact S3|]; eapply jsub_sorted; [exact S2|]; eapply jsub_sorted; [exact S1|exact J]).
  pose proof (serve_both beh (next_pstop (r_pstop rs)) High s3 I3 J3) as [I4 J4]. destruct (serve beh _ High s3) as [s4 ih]. cbn [fst] in *.
  destruct (li_admitted ih && stop s4); [exact J4|].
  pose proof (serve_both beh (next_pstop (r_pstop rs)) Med s4 I4 J4) as [I5 J5]. destruct (serve beh _ Med s4) as [s5 im]. cbn [fst] in *.
  destruct (li_admitted im && stop s5); [exact J5|].
  pose proof (serve_both beh (next_pstop (r_pstop rs)) Low s5 I5 J5) as [I6 J6]. destruct (serve beh _ Low s5) as [s6 il]. cbn [fst] in *.
  destruct (li_admitted il && stop s6); exact J6.
Qed.

Lemma run_go_jsorted : forall beh envs rs st, inv st -> jsorted st -> jsorted (fst (run_go beh envs rs st)).
Proof.
  intros beh. induction envs as [|e es IH]; intros rs st I J; cbn [run_go].
  - pose proof (iteration_jsorted beh env_end rs st I J). destruct (iteration beh env_end rs st) as [[s r] t]. exact H.
  - pose proof (iteration_jsorted beh e rs st I J) as H. pose proof (iteration_inv beh e rs st I) as HI.
    destruct (iteration beh e rs st) as [[s r] t]. cbn [fst] in *.
    destruct (ti_returned t || stop s); [exact H|]. specialize (IH r s HI H). destruct (run_go beh es r s). exact IH.
Qed.
Lemma exec_cmd_jsorted : forall beh c st, inv st -> jsorted st -> jsorted (exec_cmd beh c st).
Proof.
  intros beh [o|envs] st I J; cbn [exec_cmd]; [apply jsorted_exec_op; assumption|]. unfold loop_run.
  assert (I0 : inv (set_stop false st)) by (eapply inv_same_core; [|exact I]; constructor; reflexivity).
  assert (J0 : jsorted (set_stop false st)) by (eapply jsub_sorted; [|exact J]; lvsame).
  pose proof (run_go_jsorted beh envs (run_start_of st) (set_stop false st) I0 J0).
  destruct (run_go beh envs (run_start_of st) (set_stop false st)) as [s tis]. cbn [fst] in *.
  eapply jsub_sorted; [|exact H]. lvsame.
Qed.

(* jobs of one priority are queued in the order of their qb_loop_job_add calls, in every reachable state *)
Lemma fifo_all_histories : forall f beh h rnd p, fx_sigdel f = true -> good_rand rnd ->
  StronglySorted Z.lt (jseq (run_history_fx f beh h rnd) p).
Proof.
  intros f beh h rnd p F G. unfold run_history_fx.
  assert (forall st, inv st -> jsorted st -> jsorted (fold_left (fun s c => exec_cmd beh c s) h st)).
  { induction h as [|c h IH]; intros st I J; cbn [fold_left]; [exact J|]. apply IH; [apply exec_cmd_inv; exact I|apply exec_cmd_jsorted; assumption]. }
  apply H; [apply loop_create_inv; assumption|].
  intros q. unfold loop_create_fx.
  pose proof (fr_poll_add true High SIGPIPE_FD LOOP_POLLIN 0 (state_zero f rnd)) as [L _].
  unfold jseq. rewrite L. cbn. split; constructor.
Qed.
(* and qb_loop_run_level takes the first item of job_head *)
Lemma run_level_takes_head : forall beh p fuel processed st it rest, jobq (lv st p) = it :: rest ->
  run_level_go beh p (S fuel) processed st =
    (let st1 := dec_todo p (dispatch beh it (upd_level p (fun l => {| wait := wait l; jobq := rest; todo := todo l |}) st)) in
     if stop st1 then (st1, processed + 1)
     else if processed + 1 <? LOOP_TO_PROCESS then run_level_go beh p fuel (processed + 1) st1 else (st1, processed + 1)).
Proof. intros. cbn [run_level_go]. rewrite H. reflexivity. Qed.
