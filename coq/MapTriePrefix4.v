(* C17 trie part, prefix iteration (4): the nodes a prefix iteration visits are the entries whose key has the
   prefix, in the order of the full enumeration. *)
From Coq Require Import List ZArith Bool Arith Lia Sorted.
Import ListNotations.
Require Import Verif.gen.Consts_trie Verif.MapTrieModel Verif.MapTrieSpec Verif.MapTrieProofs Verif.MapTrieProofs2
               Verif.MapTrieIter Verif.MapTrieIter2 Verif.MapTrieIds Verif.MapTrieIter3 Verif.MapTrieIter4
               Verif.MapTrieIter5 Verif.MapTrieIter6 Verif.MapTrieOrder Verif.MapTrieKeys
               Verif.MapTriePrefix1 Verif.MapTriePrefix2 Verif.MapTriePrefix3.

(* the string up to (not including) the segment of the node at p *)
Fixpoint qpre (n : tnode) (p : path) {struct p} : key :=
  match p with
  | [] => []
  | j :: p' => t_seg n ++ i2c j :: match fget (t_ch n) j with Some c => qpre c p' | None => [] end
  end.

Lemma qstr_app : forall p n sub q, get_at n p = Some sub -> qstr n (p ++ q) = qpre n p ++ qstr sub q.
Proof.
  induction p; intros n sub q G; simpl in G.
  - inversion G; subst. reflexivity.
  - destruct (fget (t_ch n) a) as [c|] eqn:F; [|discriminate]. simpl. rewrite F. rewrite (IHp c sub q G).
    rewrite <- app_assoc. reflexivity.
Qed.

(* sorted lists of entries *)
Definition plt (a b : key * val) : Prop := klt (fst a) (fst b).

Lemma sorted_same_pairs : forall l1 l2 : list (key * val), StronglySorted plt l1 -> StronglySorted plt l2 ->
  (forall x, In x l1 <-> In x l2) -> l1 = l2.
Proof.
  induction l1 as [|a l1]; intros l2 S1 S2 H.
  - destruct l2 as [|b l2]; auto. exfalso. apply (proj2 (H b)). simpl. auto.
  - destruct l2 as [|b l2]. { exfalso. apply (proj1 (H a)). simpl. auto. }
    inversion S1 as [|? ? S1' F1]; subst. inversion S2 as [|? ? S2' F2]; subst.
    rewrite Forall_forall in F1, F2.
    assert (E : a = b).
    { destruct (proj1 (H a) (or_introl eq_refl)) as [X|X]; auto.
      destruct (proj2 (H b) (or_introl eq_refl)) as [Y|Y]; auto.
      exfalso. apply (klt_asym (fst a) (fst b)); [apply F1; exact Y | apply F2; exact X]. }
    subst b. f_equal. apply IHl1; auto. intro x. split; intro Hx.
    + destruct (proj1 (H x) (or_intror Hx)) as [X|X]; auto. subst x. exfalso. apply (klt_irrefl (fst a)). apply F1. exact Hx.
    + destruct (proj2 (H x) (or_intror Hx)) as [X|X]; auto. subst x. exfalso. apply (klt_irrefl (fst a)). apply F2. exact Hx.
Qed.

Lemma sorted_filter_pairs : forall (P : key * val -> bool) l, StronglySorted plt l -> StronglySorted plt (filter P l).
Proof.
  induction l; simpl; intros; auto. inversion H; subst. destruct (P a); auto. constructor; auto.
  rewrite Forall_forall in *. intros x Hx. apply filter_In in Hx. apply H3. tauto.
Qed.

Lemma sorted_map_fst : forall l : list (key * val), StronglySorted klt (map fst l) -> StronglySorted plt l.
Proof.
  induction l; simpl; intros; constructor; inversion H; subst; auto.
  rewrite Forall_forall in *. intros x Hx. apply H3. apply in_map. exact Hx.
Qed.

Lemma als_seg_first : forall i s f e, In e (als_t (TN i s f)) -> exists c r, fst e = s ++ c :: r.
Proof.
  intros i s f e H. simpl in H. apply in_map_iff in H. destruct H as [x [E Hx]]. subst e.
  apply als_f_first in Hx. unfold first_ge in Hx. unfold pre. simpl. destruct (fst x); [contradiction|]. eauto.
Qed.

(* key and value of a present node below the root, by its path *)
Lemma node_kv : forall t d p tn, Inv t d -> get_at (t_root t) p = Some tn -> p <> [] -> alive tn = true ->
  exists v, kv_of (t_info tn) = (qstr (t_root t) p, v) /\ In (t_info tn) (al_t (t_root t)).
Proof.
  intros t d p tn HI G Hp A. pose proof (in_al p _ tn Hp G A) as Hin.
  destruct (al_sound t d _ HI Hin) as [k [v [K [V _]]]].
  pose proof (obs_qstr _ _ _ G) as O. pose proof (qstr_nonempty p (t_root t) Hp) as QN.
  pose proof (inv_key _ _ HI _ QN) as KK. rewrite O in KK. unfold core_of in KK. simpl in KK.
  rewrite K, V in KK. assert (X : Some k = Some (qstr (t_root t) p)) by (apply KK; discriminate). inversion X; subst k.
  exists v. split; auto. unfold kv_of. rewrite K, V. reflexivity.
Qed.

(* when the lookup of the prefix fails, so does the lookup of every key that has the prefix *)
Lemma look_prefix_none : forall sz n, size_t n <= sz -> forall pre k, look_t n pre false = None ->
  is_prefix pre k = true -> look_t n k true = None.
Proof.
  induction sz; intros n Hsz pre k H P.
  { destruct n; simpl in Hsz; lia. }
  destruct n as [i seg f]. destruct (is_prefix_spec _ _ P) as [e E]. subst k. cbn [look_t] in *.
  destruct (strip seg pre 0) eqn:St.
  - simpl in H. discriminate.
  - apply strip_mismatch in St. destruct St as [m [s [rest [S1 [S2 [S3 S4]]]]]]. subst.
    rewrite <- !app_assoc. rewrite strip_app. simpl.
    destruct (s =? c) eqn:Q; auto. apply Nat.eqb_eq in Q. contradiction.
  - pose proof (strip_segend _ _ _ _ _ St) as Sk. subst pre. rewrite <- app_assoc. simpl.
    rewrite strip_self_more. rewrite look_f_fget in *. destruct (fget f (c2i c)) as [t0|] eqn:G; auto.
    destruct (look_t t0 k' false) as [p0|] eqn:L0; [discriminate|].
    rewrite (IHsz t0) with (pre := k'); auto; [|apply is_prefix_app].
    apply size_fget in G. simpl in Hsz. lia.
Qed.

Theorem prefix_nodes_filter : forall t d pre, Inv t d -> pre <> [] ->
  map kv_of (prefix_nodes (t_root t) pre) =
  filter (fun kv => is_prefix pre (fst kv)) (map kv_of (al_t (t_root t))).
Proof.
  intros t d pre HI Hpre. set (r := t_root t) in *.
  assert (SL : StronglySorted plt (map kv_of (al_t r))).
  { apply sorted_map_fst. apply (visit_keys_sorted t d HI). }
  (* every listed entry: its key is the string of its path, which the lookup finds *)
  assert (ENT : forall x, In x (map kv_of (al_t r)) -> exists p tn, p <> [] /\ get_at r p = Some tn /\ alive tn = true /\
                            x = kv_of (t_info tn) /\ fst x = qstr r p /\ look_t r (fst x) true = Some p).
  { intros x Hx. apply in_map_iff in Hx. destruct Hx as [i [E Hi]]. subst x.
    destruct (proj1 al_in _ _ Hi) as [p [tn [Hp [G [Ei A]]]]]. subst i.
    destruct (node_kv t d p tn HI G Hp A) as [v [KV _]]. exists p, tn. rewrite KV. simpl.
    repeat split; auto. apply (look_qstr _ _ _ G). }
  unfold prefix_nodes. destruct (look_t r pre false) as [pr|] eqn:L.
  2:{ symmetry. induction (map kv_of (al_t r)) as [|x l IH]; simpl; auto.
      assert (F : is_prefix pre (fst x) = false).
      { destruct (is_prefix pre (fst x)) eqn:P; auto. exfalso.
        destruct (ENT x (or_introl eq_refl)) as [p [tn [_ [_ [_ [_ [_ LK]]]]]]].
        pose proof (look_prefix_none _ r (le_n _) pre (fst x) L P) as X. congruence. }
      rewrite F. apply IH; [inversion SL; auto|]. intros y Hy. apply ENT. simpl. auto. }
  destruct (look_false_get _ _ (le_n _) _ _ L) as [sub Gs]. rewrite Gs.
  destruct (look_prefix_through _ _ (le_n _) pre pr (or_intror I) L) as [TH1 TH2].
  assert (Hpr : pr <> []).
  { pose proof (inv_hdr _ _ HI) as SG. fold r in SG. destruct r as [i0 s0 f0]. simpl in SG. subst s0. cbn [look_t] in L.
    destruct pre; [congruence|]. simpl in L. destruct (look_f f0 (c2i b) pre false); inversion L. discriminate. }
  apply sorted_same_pairs.
  - (* the visited entries are sorted: strings below the root node *)
    apply sorted_map_fst.
    assert (SA : StronglySorted klt (map fst (map (fun e => (qpre r pr ++ fst e, snd e)) (als_t sub)))).
    { pose proof (proj1 als_sorted sub) as S. induction S; simpl; constructor; auto.
      apply Forall_forall. intros x Hx. rewrite map_map in Hx. apply in_map_iff in Hx. destruct Hx as [y [E Hy]]. subst x. simpl.
      apply klt_pre. rewrite Forall_forall in H. apply H; auto. }
    assert (KS : map fst (map kv_of (self_l sub)) =
                 map fst ((if alive sub then [(qstr r pr, t_info sub)] else []) ++
                          map (fun e => (qpre r pr ++ fst e, snd e)) (als_t sub))).
    { unfold self_l. rewrite <- (proj1 als_infos sub). rewrite !map_app, !map_map. f_equal.
      - destruct (alive sub) eqn:A; simpl; auto. destruct (node_kv t d pr sub HI Gs Hpr A) as [v [KV _]]. rewrite KV. reflexivity.
      - apply map_ext_in. intros e He. simpl.
        destruct (proj1 als_qstr _ _ He) as [q [tn [Hq [Gq [Iq Qq]]]]].
        assert (G0 : get_at r (pr ++ q) = Some tn) by (rewrite get_at_app, Gs; exact Gq).
        assert (A : alive tn = true).
        { assert (X : In (snd e) (al_t sub)) by (rewrite <- (proj1 als_infos sub); apply in_map; exact He).
          destruct (proj1 al_in _ _ X) as [q' [tn' [_ [_ [E' A']]]]]. unfold alive in *. exact (eq_trans (f_equal present_i (eq_trans Iq (eq_sym E'))) A'). }
        assert (Hpq : pr ++ q <> []) by (destruct pr; [congruence|discriminate]).
        destruct (node_kv t d (pr ++ q) tn HI G0 Hpq A) as [v [KV _]]. rewrite <- Iq, KV. simpl. fold r.
        rewrite (qstr_app pr r sub q Gs). f_equal. symmetry. exact Qq. }
    rewrite KS. rewrite map_app.
    destruct (alive sub); simpl; auto. constructor; auto.
    apply Forall_forall. intros x Hx. rewrite map_map in Hx. apply in_map_iff in Hx. destruct Hx as [y [E Hy]]. subst x. simpl.
    rewrite <- (app_nil_r pr) at 1. rewrite (qstr_app pr r sub [] Gs). simpl.
    destruct sub as [isub ssub fsub]. destruct (als_seg_first _ _ _ _ Hy) as [c [rr E]]. simpl.
    apply klt_pre. pose proof (klt_prefix ssub c rr) as X. exact (eq_ind _ (fun z => klt ssub z) X _ (eq_sym E)).
  - apply sorted_filter_pairs. exact SL.
  - intro x. rewrite filter_In. split.
    + (* visited => listed, and its key has the prefix *)
      intro Hx. apply in_map_iff in Hx. destruct Hx as [i [E Hi]]. subst x.
      assert (X : exists q tn, get_at sub q = Some tn /\ t_info tn = i /\ alive tn = true).
      { unfold self_l in Hi. apply in_app_or in Hi. destruct Hi as [Hi|Hi].
        - destruct (alive sub) eqn:A; [|destruct Hi]. destruct Hi as [Hi|[]]. exists [], sub. auto.
        - destruct (proj1 al_in _ _ Hi) as [q [tn [_ [G [E A]]]]]. eauto. }
      destruct X as [q [tn [Gq [Ei A]]]]. subst i.
      assert (G0 : get_at r (pr ++ q) = Some tn) by (rewrite get_at_app, Gs; exact Gq).
      assert (Hpq : pr ++ q <> []) by (destruct pr; [congruence|discriminate]).
      destruct (node_kv t d (pr ++ q) tn HI G0 Hpq A) as [v [KV IN]]. split.
      * apply in_map. exact IN.
      * rewrite KV. simpl. apply (TH2 q tn G0).
    + intros [Hx P]. destruct (ENT x Hx) as [p [tn [Hp [G [A [E [Q LK]]]]]]].
      destruct (TH1 (fst x) p P LK) as [q Eq]. subst p. rewrite E. apply in_map.
      rewrite get_at_app, Gs in G. unfold self_l. apply in_or_app. destruct q as [|j q].
      * simpl in G. inversion G; subst tn. left. rewrite A. simpl. auto.
      * right. apply in_al with (p := j :: q); auto. discriminate.
Qed.
