(* C18 trie part, coverage (6): THE iterator theorem - every interleaving refines the key-space specification. *)
From Coq Require Import List ZArith Bool Arith Lia.
Import ListNotations.
Require Import Verif.gen.Consts_trie Verif.MapTrieModel Verif.MapTrieSpec Verif.MapTrieProofs Verif.MapTrieProofs2
               Verif.MapTrieIter6 Verif.MapTrieOrder Verif.MapTrieKeys Verif.MapTrieSafe2 Verif.MapTrieSafe4
               Verif.MapTrieSafe5 Verif.MapTrieSafe6 Verif.MapTrieSafe8 Verif.MapTrieCov4 Verif.MapTrieCov5.

(* what every operation of an interleaving has to return; d = the dictionary, s = where each iterator stands *)
Inductive trace_ok : dict -> (nat -> ipos) -> list sop -> list out -> Prop :=
| TO_nil : forall d s, trace_ok d s [] []
| TO_put : forall d s k v hs os, trace_ok (d_put d k v) s hs os -> trace_ok d s (SPut k v :: hs) (RUnit :: os)
| TO_get : forall d s k hs os, trace_ok d s hs os -> trace_ok d s (SGet k :: hs) (RVal (d_get d k) :: os)
| TO_rm : forall d s k hs os, trace_ok (d_rm d k) s hs os ->
    trace_ok d s (SRm k :: hs) (RInt (match d_get d k with Some _ => TRIE_QB_TRUE | None => TRIE_QB_FALSE end) :: os)
| TO_count : forall d s hs os, trace_ok d s hs os ->
    trace_ok d s (SCount :: hs) (RInt (Z.of_nat (length d) mod 2 ^ (8 * TRIE_SIZEOF_LENGTH)) :: os)
| TO_create : forall d s h hs os, trace_ok d (pupd s h PStart) hs os -> trace_ok d s (SCreate h :: hs) (RUnit :: os)
| TO_next : forall d s h kv pos' hs os, next_ok d (s h) kv pos' -> trace_ok d (pupd s h pos') hs os ->
    trace_ok d s (SNext h :: hs) (RKV kv :: os)
| TO_free : forall d s h hs os, trace_ok d s hs os -> trace_ok d s (SFree h :: hs) (RUnit :: os).

Lemma run_trace : forall hs t d s open, InvS t d s -> opens open (t_iters t) -> hv open hs ->
  exists outs t', run FX_ALL t (map sop_op hs) = (outs, Ok t') /\ trace_ok d s hs (map fst outs).
Proof.
  induction hs as [|o hs]; intros t d s open HI HO Hv.
  - exists [], t. split; [reflexivity|constructor].
  - cbn [map run]. destruct o as [k v|k|k| |h|h|h]; cbn [sop_op hv step] in *.
    + destruct Hv as [Hk Hv]. pose proof (put_s t d s k v HI Hk) as I'. pose proof (iters_put t k v) as IT.
      destruct (do_put FX_ALL t k v) as [t' evs]. simpl in I', IT.
      destruct (IHhs t' _ s open I' ltac:(rewrite IT; exact HO) Hv) as [outs [t'' [R M]]]. rewrite R.
      eexists _, t''. split; [reflexivity|]. simpl. constructor. exact M.
    + destruct Hv as [Hk Hv]. rewrite (get_d t d k (is_d _ _ _ HI) Hk).
      destruct (IHhs t d s open HI HO Hv) as [outs [t'' [R M]]]. rewrite R.
      eexists _, t''. split; [reflexivity|]. simpl. constructor. exact M.
    + destruct Hv as [Hk Hv]. destruct (rm_d t d k (is_d _ _ _ HI) Hk) as [Z _]. pose proof (rm_s t d s k HI Hk) as I'.
      pose proof (iters_rm t k) as IT.
      destruct (do_rm FX_ALL t k) as [[t' z] evs]. simpl in Z, I', IT. subst z.
      destruct (IHhs t' _ s open I' ltac:(rewrite IT; exact HO) Hv) as [outs [t'' [R M]]]. rewrite R.
      eexists _, t''. split; [reflexivity|]. simpl. constructor. exact M.
    + destruct (IHhs t d s open HI HO Hv) as [outs [t'' [R M]]]. rewrite R.
      eexists _, t''. split; [reflexivity|]. simpl. unfold do_count. rewrite (id_len _ _ (is_d _ _ _ HI)). constructor. exact M.
    + pose proof (create_s t d s h HI) as I'.
      match goal with |- context [run FX_ALL ?t1 _] => destruct (IHhs t1 d (pupd s h PStart) (h :: open) I') as [outs [t'' [R M]]]; auto end.
      { simpl. apply (proj1 (opens_set open (t_iters t) h (new_iter None) HO)). }
      rewrite R. eexists _, t''. split; [reflexivity|]. simpl. constructor. exact M.
    + destruct Hv as [Hh Hv]. destruct (HO h Hh) as [it G]. rewrite G.
      destruct (next_s t d s h it HI G) as [r [it' [kv [evs [pos' [E [NO I']]]]]]]. rewrite E.
      match goal with |- context [run FX_ALL ?t1 _] => destruct (IHhs t1 d (pupd s h pos') open I') as [outs [t'' [R M]]]; auto end.
      { simpl. apply (proj2 (opens_set open (t_iters t) h it' HO)). }
      rewrite R. eexists _, t''. split; [reflexivity|]. simpl. econstructor; eauto.
    + destruct Hv as [Hh Hv]. destruct (HO h Hh) as [it G]. rewrite G.
      destruct (free_s t d s h it HI G) as [r [evs [E I']]]. rewrite E.
      match goal with |- context [run FX_ALL ?t1 _] => destruct (IHhs t1 d s (remove Nat.eq_dec h open) I') as [outs [t'' [R M]]]; auto end.
      { simpl. apply opens_del. exact HO. }
      rewrite R. eexists _, t''. split; [reflexivity|]. simpl. constructor. exact M.
Qed.

(* C18 (trie, iterators without prefix), ALL interleavings of put / get / rm / count with iterator create / next /
   free on any number of open iterators, repaired code: no error state, the dictionary operations answer like the
   dictionary, and EVERY trie_iter_next returns the entry with the least key greater than the key the iterator
   returned last (all keys at the start), taken from the dictionary as it is at that moment - NULL exactly when
   there is none, and from then on *)
Theorem trie_c18_iterators : forall hs, hv [] hs ->
  exists outs t', run FX_ALL trie_init (map sop_op hs) = (outs, Ok t') /\
                  trace_ok [] (fun _ => PEnd) hs (map fst outs).
Proof.
  intros hs Hv. apply run_trace with (open := []); auto.
  - apply invs_init.
  - intros h [].
Qed.
