(* C01: small-step interleaving model of ONE writer and ONE reader on one (non-overwriting) ring buffer.
   No proofs in this file.

   Each API call is a sequence of micro-steps, exactly one per access to shared state or semaphore
   operation, in the program order of lib/ringbuffer.c as it is executed (the order is re-derived from the
   real code on every run: the correspondence check compares the access trace of the instrumented
   lib/ringbuffer.c with the labels below, event by event).  Private computation happens inside the step of
   the access that precedes it.  A schedule is a list of thread ids; one entry = one micro-step of that
   thread if it is enabled (a blocking semaphore wait is not enabled while the count is 0; a thread whose
   program is finished is not enabled).

   Granularity: sequential consistency; a load/store of write_pt, read_pt or a data WORD is one step
   (uint32_t accesses); the payload copies (memcpy into the ring in qb_rb_chunk_write, out of it in
   qb_rb_chunk_read, and the consumer's in-place read after qb_rb_chunk_peek) are ONE STEP PER BYTE.
   Every acquire/release access carries its memory order (compared with the implementation's, not used by
   the SC semantics).

   Transcribed functions (lib/ringbuffer.c, tree with the empty-ring repairs 38445f6 / 6c47408 / f545f17):
     wstep : qb_rb_chunk_write = qb_rb_chunk_alloc (qb_rb_space_free) ; memcpy ; qb_rb_chunk_commit
             (qb_rb_chunk_step, my_posix_sem_post)
     rstep : qb_rb_chunk_read, qb_rb_chunk_peek (+ the consumer's copy), qb_rb_chunk_reclaim =
             _rb_chunk_reclaim (qb_rb_chunk_step), my_posix_sem_timedwait with timeout 0 (sem_trywait) or
             negative (sem_wait).
   Ghost state (never read by the steps): pub = chunks in publication order (appended by the step that
   stores QB_RB_CHUNK_MAGIC); got = one entry per consumed chunk (appended by the step that stores
   read_pt): Some bytes = what the reader's buffer holds (copied by this read, or by the last successful
   peek since the previous consumption), None = reclaimed without having been looked at.
   err = an access outside the mapped ring, or qb_rb_chunk_read returned a chunk that its own reclaim then
   refused to consume.
   Not modelled: positive timeouts (virtual time), len >= 2^32, SEM_VALUE_MAX overflow, overwrite mode. *)
From Coq Require Import ZArith List Bool FMapPositive.
Import ListNotations.
Require Import Verif.gen.Consts_rb Verif.gen.Consts_rbconc Verif.RbModel.
Local Open Scope Z_scope.

(* ------------------------------------------------------------------ shared state *)
Record shared := { hW : Z;               (* shared_hdr->word_size (constant) *)
                   hwpt : Z; hrpt : Z;   (* shared_hdr->write_pt / read_pt *)
                   hmem : mem;           (* shared_data, byte memory of RbModel.v *)
                   hsem : option Z }.    (* shared_hdr->posix_sem count; None = QB_RB_FLAG_NO_SEMAPHORE *)

Definition set_wpt (h : shared) (v : Z) : shared :=
  {| hW := hW h; hwpt := v; hrpt := hrpt h; hmem := hmem h; hsem := hsem h |}.
Definition set_rpt (h : shared) (v : Z) : shared :=
  {| hW := hW h; hwpt := hwpt h; hrpt := v; hmem := hmem h; hsem := hsem h |}.
Definition set_mem (h : shared) (m : mem) : shared :=
  {| hW := hW h; hwpt := hwpt h; hrpt := hrpt h; hmem := m; hsem := hsem h |}.
Definition set_hsem (h : shared) (c : option Z) : shared :=
  {| hW := hW h; hwpt := hwpt h; hrpt := hrpt h; hmem := hmem h; hsem := c |}.
Definition post (h : shared) : shared :=
  match hsem h with Some c => set_hsem h (Some (c + 1)) | None => h end.

(* qb_rb_open_2 with QB_RB_FLAG_CREATE (see RbModel.rb_open) *)
Definition open_shared (S : Z) (nosem : bool) : shared :=
  let b := rb_open S nosem false in
  {| hW := rW b; hwpt := 0; hrpt := 0; hmem := data b; hsem := sem b |}.

(* ------------------------------------------------------------------ programs, labels *)
Inductive wcall := WWrite (d : list Z).                                  (* qb_rb_chunk_write(rb, d, |d|) *)
Inductive rcall :=
| RRead (n : Z) (blk : bool)     (* qb_rb_chunk_read(rb, buf, n, blk ? -1 : 0) *)
| RPeek (blk : bool)             (* qb_rb_chunk_peek(rb, &p, blk ? -1 : 0); if (rc > 0) memcpy(buf, p, rc) *)
| RReclaim.                      (* qb_rb_chunk_reclaim(rb) *)

Inductive loc := HWpt | HRpt | DW (i : Z).
Inductive label :=
| LStart
| LRd (l : loc) | LWr (l : loc)
| LARd (l : loc) (mo : Z) | LAWr (l : loc) (mo : Z)
| LRdB (a : Z) | LWrB (a : Z)           (* byte of the data area, a in [0, 4W) *)
| LPost | LTryWait | LWait.

Inductive ghost := GNone | GPub (d : list Z) | GCons (g : option (list Z)).

Record sres (T : Type) := mkres { s_sh : shared; s_t : T; s_lab : label;
                                  s_ret : option (Z * list Z);     (* the call in progress returns (value, bytes) *)
                                  s_gh : ghost; s_err : bool }.
Arguments mkres {T}. Arguments s_sh {T}. Arguments s_t {T}. Arguments s_lab {T}.
Arguments s_ret {T}. Arguments s_gh {T}. Arguments s_err {T}.

Definition inr (W i : Z) : bool := (0 <=? i) && (i <? W).

(* ------------------------------------------------------------------ writer *)
Inductive wpc :=
| WStart | WCall
| WRdRpt (w1 : Z)                  (* space_free: write_pt read, read_pt next *)
| WRdWpt2                          (* alloc: write_pt = hdr->write_pt *)
| WStSize0 (wp : Z)                (* shared_data[write_pt] = 0 *)
| WStAlloc (wp : Z)                (* MAGIC_SET(write_pt, ALLOC) *)
| WCopy (wp k : Z) (rest : list Z) (* memcpy: byte k *)
| WRdWpt3                          (* commit: old_write_pt = hdr->write_pt *)
| WStSize (old : Z)                (* shared_data[old] = len *)
| WRdSize (old : Z)                (* chunk_step: chunk_size = shared_data[old] *)
| WStWpt (old sz : Z)              (* hdr->write_pt = step *)
| WStMagic (old : Z)               (* MAGIC_SET(old, MAGIC) *)
| WPost.                           (* post_fn *)

Record wthread := { w_prog : list wcall; w_k : Z; w_pc : wpc }.

Definition wdata (t : wthread) : list Z := match w_prog t with WWrite d :: _ => d | [] => [] end.
Definition w_at (t : wthread) (p : wpc) : wthread := {| w_prog := w_prog t; w_k := w_k t; w_pc := p |}.
Definition w_ret (t : wthread) : wthread := {| w_prog := tl (w_prog t); w_k := w_k t + 1; w_pc := WCall |}.

Definition wstep (h : shared) (t : wthread) : option (sres wthread) :=
  let W := hW h in
  let m := hmem h in
  let d := wdata t in
  let go (p : wpc) (lab : label) := Some (mkres h (w_at t p) lab None GNone false) in
  match w_pc t with
  | WStart => go WCall LStart
  | WCall => match w_prog t with [] => None | _ :: _ => go (WRdRpt (hwpt h)) (LRd HWpt) end
  | WRdRpt w1 =>
      if free_words W w1 (hrpt h) * RB_SIZEOF_WORD <? zlen d + RB_CHUNK_MARGIN
      then Some (mkres h (w_ret t) (LRd HRpt) (Some (- RB_EAGAIN, [])) GNone false)
      else go WRdWpt2 (LRd HRpt)
  | WRdWpt2 => go (WStSize0 (hwpt h)) (LRd HWpt)
  | WStSize0 wp =>
      Some (mkres (set_mem h (stw m wp 0)) (w_at t (WStAlloc wp)) (LWr (DW wp)) None GNone (negb (inr W wp)))
  | WStAlloc wp =>
      let i := (wp + 1) mod W in
      Some (mkres (set_mem h (stw m i RB_CHUNK_MAGIC_ALLOC))
                  (w_at t (match d with [] => WRdWpt3 | _ :: _ => WCopy wp 0 d end))
                  (LAWr (DW i) RBC_MO_RELEASE) None GNone false)
  | WCopy wp k rest =>
      match rest with
      | [] => None
      | x :: rest' =>
          let a := 4 * ((wp + RB_CHUNK_HEADER_WORDS) mod W) + k in
          Some (mkres (set_mem h (st m (a mod (4 * W)) x))
                      (w_at t (match rest' with [] => WRdWpt3 | _ :: _ => WCopy wp (k + 1) rest' end))
                      (LWrB (a mod (4 * W))) None GNone (negb (a <? 8 * W)))
      end
  | WRdWpt3 => go (WStSize (hwpt h)) (LRd HWpt)
  | WStSize old =>
      Some (mkres (set_mem h (stw m old (zlen d))) (w_at t (WRdSize old)) (LWr (DW old)) None GNone (negb (inr W old)))
  | WRdSize old => go (WStWpt old (ldw m old)) (LRd (DW old))
  | WStWpt old sz =>
      Some (mkres (set_wpt h (chunk_step W old sz)) (w_at t (WStMagic old)) (LWr HWpt) None GNone false)
  | WStMagic old =>
      let i := (old + 1) mod W in
      let h1 := set_mem h (stw m i RB_CHUNK_MAGIC) in
      match hsem h with
      | None => Some (mkres h1 (w_ret t) (LAWr (DW i) RBC_MO_RELEASE) (Some (zlen d, [])) (GPub d) false)
      | Some _ => Some (mkres h1 (w_at t WPost) (LAWr (DW i) RBC_MO_RELEASE) None (GPub d) false)
      end
  | WPost => Some (mkres (post h) (w_ret t) LPost (Some (zlen d, [])) GNone false)
  end.

(* ------------------------------------------------------------------ reader *)
Inductive rpc :=
| RStart | RCall
| RRdRpt                           (* read/peek after the wait: read_pt = hdr->read_pt *)
| RRdWpt (rp : Z)                  (* read_pt == hdr->write_pt ? *)
| RRdMagic (rp : Z)                (* MAGIC_GET(read_pt) *)
| RFailPost                        (* re-post, then -EBADMSG *)
| RRdSize (rp : Z)                 (* chunk_size = shared_data[read_pt] *)
| RNoBufPost                       (* re-post, then -ENOBUFS *)
| RCopy (rp k : Z)                 (* memcpy out: byte k *)
| RcRdRpt                          (* _rb_chunk_reclaim: old_read_pt = hdr->read_pt *)
| RcRdWpt (old : Z)
| RcRdMagic (old : Z)
| RcRdSize1 (old : Z)              (* old_chunk_size = shared_data[old] *)
| RcRdSize2 (old : Z)              (* chunk_step: shared_data[old] *)
| RcSt0 (old new : Z)              (* shared_data[old] = 0 *)
| RcStDead (old new : Z)           (* MAGIC_SET(old, DEAD) *)
| RcStRpt (old new : Z).           (* hdr->read_pt = new *)

Record rthread := { r_prog : list rcall; r_k : Z; r_pc : rpc;
                    r_size : Z;             (* chunk_size of the read/peek in progress *)
                    r_acc : list Z;         (* bytes copied so far, newest first *)
                    r_buf : list Z;         (* the consumer's buffer after a completed copy *)
                    r_have : bool }.        (* r_buf was copied since the last consumption *)

Definition rcur (t : rthread) : rcall := match r_prog t with c :: _ => c | [] => RReclaim end.
Definition is_read (c : rcall) : bool := match c with RRead _ _ => true | _ => false end.
Definition is_peek (c : rcall) : bool := match c with RPeek _ => true | _ => false end.

Definition r_at (t : rthread) (p : rpc) : rthread :=
  {| r_prog := r_prog t; r_k := r_k t; r_pc := p; r_size := r_size t; r_acc := r_acc t; r_buf := r_buf t; r_have := r_have t |}.
Definition r_ret (t : rthread) : rthread :=
  {| r_prog := tl (r_prog t); r_k := r_k t + 1; r_pc := RCall; r_size := r_size t; r_acc := r_acc t; r_buf := r_buf t;
     r_have := r_have t |}.

Definition rgo (h : shared) (t : rthread) (p : rpc) (lab : label) : option (sres rthread) :=
  Some (mkres h (r_at t p) lab None GNone false).
Definition rreturn (h : shared) (t : rthread) (lab : label) (rc : Z) (bytes : list Z) : option (sres rthread) :=
  Some (mkres h (r_ret t) lab (Some (rc, bytes)) GNone false).

(* the chunk at read_pt is not there (pointers equal or marker not MAGIC) *)
Definition r_fail (h : shared) (t : rthread) (lab : label) : option (sres rthread) :=
  match hsem h with
  | Some _ => rgo h t RFailPost lab
  | None => rreturn h t lab (if is_read (rcur t) then - RB_ETIMEDOUT else - RB_EBADMSG) []
  end.

(* the payload copy is complete: buf is in the consumer's buffer *)
Definition copy_done (h : shared) (t : rthread) (lab : label) (size : Z) (buf : list Z) (e : bool)
  : option (sres rthread) :=
  let t1 := {| r_prog := r_prog t; r_k := r_k t; r_pc := RcRdRpt; r_size := size; r_acc := []; r_buf := buf;
               r_have := true |} in
  if is_read (rcur t) then Some (mkres h t1 lab None GNone e)
  else Some (mkres h (r_ret t1) lab (Some (size, buf)) GNone e).

(* _rb_chunk_reclaim refuses (-EINVAL): qb_rb_chunk_read has already copied the chunk out and returns it *)
Definition rc_fail (h : shared) (t : rthread) (lab : label) : option (sres rthread) :=
  if is_read (rcur t) then Some (mkres h (r_ret t) lab (Some (r_size t, r_buf t)) GNone true)
  else rreturn h t lab 0 [].

Definition act_rd_rpt (h : shared) (t : rthread) : option (sres rthread) := rgo h t (RRdWpt (hrpt h)) (LRd HRpt).
Definition act_rc_rd_rpt (h : shared) (t : rthread) : option (sres rthread) := rgo h t (RcRdWpt (hrpt h)) (LRd HRpt).

(* my_posix_sem_timedwait *)
Definition act_wait (h : shared) (t : rthread) (c : Z) (blk : bool) : option (sres rthread) :=
  let lab := if blk then LWait else LTryWait in
  if 0 <? c then Some (mkres (set_hsem h (Some (c - 1))) (r_at t RRdRpt) lab None GNone false)
  else if blk then None
  else rreturn h t lab (if is_read (rcur t) then - RB_ETIMEDOUT else 0) [].

Definition rstep (h : shared) (t : rthread) : option (sres rthread) :=
  let W := hW h in
  let m := hmem h in
  match r_pc t with
  | RStart => rgo h t RCall LStart
  | RCall =>
      match r_prog t with
      | [] => None
      | RReclaim :: _ => act_rc_rd_rpt h t
      | RRead _ blk :: _ | RPeek blk :: _ =>
          match hsem h with Some c => act_wait h t c blk | None => act_rd_rpt h t end
      end
  | RRdRpt => act_rd_rpt h t
  | RRdWpt rp => if rp =? hwpt h then r_fail h t (LRd HWpt) else rgo h t (RRdMagic rp) (LRd HWpt)
  | RRdMagic rp =>
      let i := (rp + 1) mod W in
      if ldw m i =? RB_CHUNK_MAGIC then rgo h t (RRdSize rp) (LARd (DW i) RBC_MO_ACQUIRE)
      else r_fail h t (LARd (DW i) RBC_MO_ACQUIRE)
  | RFailPost => rreturn (post h) t LPost (- RB_EBADMSG) []
  | RRdSize rp =>
      let size := ldw m rp in
      let e := negb (inr W rp) in
      let lab := LRd (DW rp) in
      let nobuf := match rcur t with RRead n _ => n <? size | _ => false end in
      if nobuf then
        match hsem h with
        | Some _ => Some (mkres h (r_at t RNoBufPost) lab None GNone e)
        | None => Some (mkres h (r_ret t) lab (Some (- RB_ENOBUFS, [])) GNone e)
        end
      else if size <=? 0 then copy_done h t lab size [] e
      else Some (mkres h {| r_prog := r_prog t; r_k := r_k t; r_pc := RCopy rp 0; r_size := size; r_acc := [];
                            r_buf := r_buf t; r_have := false |} lab None GNone e)
  | RNoBufPost => rreturn (post h) t LPost (- RB_ENOBUFS) []
  | RCopy rp k =>
      let a := 4 * ((rp + RB_CHUNK_HEADER_WORDS) mod W) + k in
      let acc := ld m (a mod (4 * W)) :: r_acc t in
      let e := negb (a <? 8 * W) in
      let lab := LRdB (a mod (4 * W)) in
      if k + 1 <? r_size t then
        Some (mkres h {| r_prog := r_prog t; r_k := r_k t; r_pc := RCopy rp (k + 1); r_size := r_size t; r_acc := acc;
                         r_buf := r_buf t; r_have := false |} lab None GNone e)
      else copy_done h t lab (r_size t) (rev acc) e
  | RcRdRpt => act_rc_rd_rpt h t
  | RcRdWpt old => if old =? hwpt h then rc_fail h t (LRd HWpt) else rgo h t (RcRdMagic old) (LRd HWpt)
  | RcRdMagic old =>
      let i := (old + 1) mod W in
      if ldw m i =? RB_CHUNK_MAGIC then rgo h t (RcRdSize1 old) (LARd (DW i) RBC_MO_ACQUIRE)
      else rc_fail h t (LARd (DW i) RBC_MO_ACQUIRE)
  | RcRdSize1 old => Some (mkres h (r_at t (RcRdSize2 old)) (LRd (DW old)) None GNone (negb (inr W old)))
  | RcRdSize2 old => rgo h t (RcSt0 old (chunk_step W old (ldw m old))) (LRd (DW old))
  | RcSt0 old new =>
      Some (mkres (set_mem h (stw m old 0)) (r_at t (RcStDead old new)) (LWr (DW old)) None GNone (negb (inr W old)))
  | RcStDead old new =>
      let i := (old + 1) mod W in
      Some (mkres (set_mem h (stw m i RB_CHUNK_MAGIC_DEAD)) (r_at t (RcStRpt old new)) (LAWr (DW i) RBC_MO_RELEASE)
                  None GNone false)
  | RcStRpt old new =>
      let t1 := {| r_prog := tl (r_prog t); r_k := r_k t + 1; r_pc := RCall; r_size := r_size t; r_acc := r_acc t;
                   r_buf := r_buf t; r_have := false |} in
      Some (mkres (set_rpt h new) t1 (LWr HRpt)
                  (Some (if is_read (rcur t) then (r_size t, r_buf t) else (0, [])))
                  (GCons (if r_have t then Some (r_buf t) else None)) false)
  end.

(* ------------------------------------------------------------------ the two-thread system *)
Inductive tid := TW | TR.

Record state := { g_sh : shared; g_w : wthread; g_r : rthread;
                  g_pub : list (list Z); g_got : list (option (list Z)); g_err : bool }.

Definition apply_ghost (g : ghost) (pub : list (list Z)) (got : list (option (list Z))) :=
  match g with
  | GNone => (pub, got)
  | GPub d => (pub ++ [d], got)
  | GCons x => (pub, got ++ [x])
  end.

Definition wthread0 (p : list wcall) : wthread := {| w_prog := p; w_k := 0; w_pc := WStart |}.
Definition rthread0 (p : list rcall) : rthread :=
  {| r_prog := p; r_k := 0; r_pc := RStart; r_size := 0; r_acc := []; r_buf := []; r_have := false |}.

Definition init (h : shared) (pw : list wcall) (pr : list rcall) : state :=
  {| g_sh := h; g_w := wthread0 pw; g_r := rthread0 pr; g_pub := []; g_got := []; g_err := false |}.

(* new programs for two idle threads (the harness' sequential prologue followed by the concurrent phase) *)
Definition load (s : state) (pw : list wcall) (pr : list rcall) : state :=
  {| g_sh := g_sh s; g_w := wthread0 pw;
     g_r := {| r_prog := pr; r_k := 0; r_pc := RStart; r_size := r_size (g_r s); r_acc := r_acc (g_r s);
               r_buf := r_buf (g_r s); r_have := r_have (g_r s) |};
     g_pub := g_pub s; g_got := g_got s; g_err := g_err s |}.

(* one micro-step of thread t; None = not enabled.  The step's observable part is returned for the runner. *)
Definition step (t : tid) (s : state) : option (state * (label * option (Z * list Z))) :=
  match t with
  | TW =>
      match wstep (g_sh s) (g_w s) with
      | None => None
      | Some r =>
          let '(pub, got) := apply_ghost (s_gh r) (g_pub s) (g_got s) in
          Some ({| g_sh := s_sh r; g_w := s_t r; g_r := g_r s; g_pub := pub; g_got := got;
                   g_err := g_err s || s_err r |}, (s_lab r, s_ret r))
      end
  | TR =>
      match rstep (g_sh s) (g_r s) with
      | None => None
      | Some r =>
          let '(pub, got) := apply_ghost (s_gh r) (g_pub s) (g_got s) in
          Some ({| g_sh := s_sh r; g_w := g_w s; g_r := s_t r; g_pub := pub; g_got := got;
                   g_err := g_err s || s_err r |}, (s_lab r, s_ret r))
      end
  end.

Definition step1 (s : state) (t : tid) : state := match step t s with Some (s', _) => s' | None => s end.
Definition exec (sched : list tid) (s : state) : state := fold_left step1 sched s.

Definition w_idle (t : wthread) : bool := match w_pc t with WStart | WCall => true | _ => false end.
Definition r_idle (t : rthread) : bool := match r_pc t with RStart | RCall => true | _ => false end.
Definition quiescent (s : state) : bool := w_idle (g_w s) && r_idle (g_r s).
