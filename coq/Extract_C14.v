(* Extraction of the C14 model.  ExtrOcamlBasic only: bool/option/unit/list/prod/sumbool map to the
   OCaml types of the same shape; Z, positive, nat stay inductive; no Extract Constant. *)
From Coq Require Import ExtrOcamlBasic.
Require Import Verif.SerModel Verif.SerSpec.
Extraction "model_C14.ml" serialize deserialize printf_spec SIZE_MAX zlen wf_go ser_data.
