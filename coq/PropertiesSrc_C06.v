(* C06 - source-tie obligations.  gen/Src_ipcs.v is regenerated from lib/ipcs.c by tools/c2coq.py on every run; these
   theorems are about the translated _process_request_ itself (for every answer of the transport functions, of the
   application callback and of the notification helpers, which are oracle streams in the translation):
   the message callback is invoked at most once per call and, when it is, the length it is told is the header's own
   size field with 0 <= told <= bytes the transport handed over, told <= negotiated maximum (c->request.max_msg_size),
   a complete header was received and the message is not a disconnect request; and the translated function computes
   exactly what the model's process_body (IpcDataModel.v, the definition the C06/C02 history theorems are about)
   computes.  Statements only, each closed by `exact'.
   run_src ... = Src_ipcs._process_request_ applied to: the connection c, timeout ms, the recorded-argument paths
   (a2m = third argument of msg_process per call index), c->receive_buf, mx = c->request.max_msg_size, the peek/reclaim
   function pointers (both non-null = shm), the statistics, the call counters, hdr->id, hdr->size and the oracle
   streams.  got_size = the transport's answer for this call; peek_mode = shm. *)
From Coq Require Import ZArith List Bool.
Import ListNotations.
Require Import Verif.gen.Consts_ipcdata Verif.gen.Src_ipcs Verif.C2CoqPrelude Verif.IpcDataModel Verif.IpcSrcEq.
Local Open Scope Z_scope.

Theorem C06_src_msg_process_told : forall c ms a0r a0m a1r a1m a2r a2m a3r rbuf mx fpeek frecl retries reqs
    kpeek krecl krecv kmp hid hsz opeek opeek_out orecl orecv omp,
  - 2 ^ 31 <= hsz < 2 ^ 31 ->
  let '(res, _, _, _, _, _, a2m', _, _, _, _, _, _, kmp') :=
    run_src c ms a0r a0m a1r a1m a2r a2m a3r rbuf mx fpeek frecl retries reqs kpeek krecl krecv kmp hid hsz
            opeek opeek_out orecl orecv omp in
  (kmp' = kmp /\ (forall k, a2m' k = a2m k)) \/
  (kmp' = kmp + 1 /\ a2m' kmp = hsz /\
   0 <= hsz /\ hsz <= got_size fpeek frecl kpeek krecv opeek orecv /\ hsz <= mx /\
   IPC_HDR_SIZE <= got_size fpeek frecl kpeek krecv opeek orecv /\ hid <> IPC_MSG_DISCONNECT).
Proof. exact src_process_request_told. Qed.
Print Assumptions C06_src_msg_process_told.

Theorem C06_src_process_request_eq_model : forall c ms a0r a0m a1r a1m a2r a2m a3r rbuf mx fpeek frecl retries reqs
    kpeek krecl krecv kmp hid hsz opeek opeek_out orecl orecv omp,
  - 2 ^ 31 <= hsz < 2 ^ 31 ->
  forall (s : st) (m : msg),
  m_id m = hid -> m_hsize m = hsz -> maxsz s = mx ->
  match mrets (sv s) with [] => 0 | r :: _ => r end = s32 (s32 (omp kmp)) ->
  0 <= got_size fpeek frecl kpeek krecv opeek orecv < 2 ^ 31 ->
  let '(res, _, _, _, _, _, a2m', _, retries', reqs', _, krecl', _, kmp') :=
    run_src c ms a0r a0m a1r a1m a2r a2m a3r rbuf mx fpeek frecl retries reqs kpeek krecl krecv kmp hid hsz
            opeek opeek_out orecl orecv omp in
  let '(s', mres, cbs) := process_body fixed s m (got_size fpeek frecl kpeek krecv opeek orecv) (peek_mode fpeek frecl) in
  res = mres /\ retries' = retries /\
  match cbs with
  | [] => kmp' = kmp /\ krecl' = krecl /\ reqs' = reqs
  | (told, _) :: _ => kmp' = kmp + 1 /\ a2m' kmp = told /\ reqs' = u64 (reqs + 1) /\
                      krecl' = (if peek_mode fpeek frecl then krecl + 1 else krecl)
  end.
Proof. exact src_process_request_body_eq. Qed.
Print Assumptions C06_src_process_request_eq_model.

Theorem C06_src_process_request_error : forall c ms a0r a0m a1r a1m a2r a2m a3r rbuf mx fpeek frecl retries reqs
      kpeek krecl krecv kmp hid hsz opeek opeek_out orecl orecv omp,
  got_size fpeek frecl kpeek krecv opeek orecv < 0 -> - 2 ^ 31 <= got_size fpeek frecl kpeek krecv opeek orecv ->
  let size := got_size fpeek frecl kpeek krecv opeek orecv in
  let '(res, _, _, _, _, _, _, _, retries', reqs', _, krecl', _, kmp') :=
    _process_request_ c ms a0r a0m a1r a1m a2r a2m a3r rbuf mx fpeek frecl retries reqs
                      kpeek krecl krecv kmp hid hsz opeek opeek_out orecl orecv omp in
  res = size /\ kmp' = kmp /\ krecl' = krecl /\ reqs' = reqs /\
  retries' = (if (size =? - IPC_EAGAIN) || (size =? - IPC_ETIMEDOUT) then u64 (retries + 1) else retries).
Proof. exact src_process_request_error. Qed.
Print Assumptions C06_src_process_request_error.

(* non-vacuity: a socket-mode call (no peek function) whose transport hands over 120 bytes with a header claiming 5000
   (the design round's finding 6.3 #3) is refused with -EBADMSG and the callback is not invoked; with a truthful header
   (size field 120) the callback is told 120 *)
Example C06_src_example :
  let run hsz := _process_request_ 1 0 (fun _ => 0) (fun _ => 0) (fun _ => 0) (fun _ => 0) (fun _ => 0) (fun _ => 0) (fun _ => 0)
                   7 8192 0 0 0 0 0 0 0 0 1 hsz (fun _ => 0) (fun _ => 0) (fun _ => 0) (fun _ => 120) (fun _ => 0) in
  (let '(res, _, _, _, _, _, _, _, _, _, _, _, _, kmp') := run 5000 in (res, kmp')) = (- IPC_EBADMSG, 0) /\
  (let '(res, _, _, _, _, _, a2m', _, _, _, _, _, _, kmp') := run 120 in (res, kmp', a2m' 0)) = (120, 1, 120).
Proof. split; vm_compute; reflexivity. Qed.
