(* C03 - IPC: death of the peer at any point is detected and fully cleaned up.  Only statements + `exact`. *)
Require Import ZArith List Bool.
Require Import Verif.gen.Consts_ipcdeath Verif.IpcDeathModel Verif.IpcDeathProofs Verif.IpcDeathProofs2 Verif.IpcDeathProofs3.
Import ListNotations.
Open Scope Z_scope.

(* The tree's constants the arguments rely on. *)
Theorem C03_consts_ok : 0 < D_AUTH_LEN /\ 0 < D_MAX_RECV_MSGS /\ 0 < D_MAX_WAIT_MS.
Proof. exact consts_ok. Qed.

(* CLIENT DEATH.  For both transports, EVERY client program (any list of steps over connect / handshake bytes in any
   split / queued request / wake-up byte / local call / close - the five scenarios of the harness are instances), every
   schedule of server passes between the steps, every cut point k (also beyond the end), fresh or stale readiness
   information at the death, and either answer of connection_accept(): after the server has quiesced it holds nothing
   for the dead client (no descriptor, poll entry, ring, control file, directory, record or object), the callback log
   is empty (never got a connection object) or accept,destroyed (object dropped before it was reported as created) or
   accept,created,msg*,closed,destroyed - i.e. destroyed exactly once, closed before it iff created was called -, the
   service's reference count is back, the listener is still registered, the other connections are untouched, and a
   further pass changes nothing. *)
Theorem C03_client_death :
  forall (Fr : Type) (tr : transport) (acc r0 a0 c0 : Z) (o : Fr) (prog : list cstep) (sched : list nat) (k : nat)
         (stale : bool),
  let s := client_dies_at tr acc prog sched k stale (init r0 a0 c0 o) in
  held s = no_res /\ good_log (log s) /\ svc_ref s = r0 /\ listening s = true /\ others s = o /\
  turn tr acc s = s.
Proof. exact client_death_cleanup. Qed.

Example C03_client_death_nontrivial :
  let s := client_dies_at Sock 0 (scenario Sock 1) (repeat 0%nat 4 ++ repeat 1%nat 40) 31 false (init 1 1 0 tt) in
  log s = [CbAccept; CbCreated; CbMsg; CbMsg; CbMsg; CbClosed; CbDestroyed] /\ held s = no_res /\ svc_ref s = 1.
Proof. vm_compute. repeat split; reflexivity. Qed.

(* what the model says about the statistics (observable through qb_ipcs_stats_get, not part of C03): a client that dies
   between the server's poll() and the sending of the connection response leaves active_connections incremented *)
Example C03_stats_active_leak_observed :
  active (predict Shm (CutAuth D_AUTH_LEN false) true (init 0 0 0 tt)) = 1 /\
  log (predict Shm (CutAuth D_AUTH_LEN false) true (init 0 0 0 tt)) = [CbAccept; CbDestroyed].
Proof. vm_compute. split; reflexivity. Qed.

(* SERVER DEATH (environments of kind dead_server: nothing arrives any more, the setup socket reports the hang-up at
   once, sending fails with a disconnect error; rq/eq: a response/event was already queued). *)

(* finite timeout: qb_ipcc_recv returns a disconnect error by its deadline *)
Theorem C03_recv_deadline :
  forall fixed e conn eq t, dead_server false eq e -> 0 <= t ->
  exists r, ipcc_recv fixed e conn t = Some (r, false, if fixed && negb conn then 0 else t) /\ is_disconnected r = true.
Proof. exact recv_dead. Qed.

(* qb_ipcc_sendv_recv in flight when the server dies, finite timeout or -1: one bounded wait, then a disconnect error;
   never later than QB_IPC_MAX_WAIT_MS, never later than a finite deadline *)
Theorem C03_sendv_recv_bounded :
  forall f fixed e eq ms, dead_server false eq e -> (ms = -1 \/ 0 <= ms) ->
  exists r w, recv_loop (S f) fixed e true ms ms 0 = Some (r, false, w) /\ is_disconnected r = true /\
              0 <= w <= D_MAX_WAIT_MS /\ (0 <= ms -> w <= ms).
Proof. exact recv_loop_dead. Qed.

(* qb_ipcc_event_recv, any timeout including -1: a disconnect error at once *)
Theorem C03_event_recv_bounded :
  forall e rq eq conn t, dead_server rq eq e ->
  exists r, ipcc_event_recv e conn t = Some (r, false, 0) /\ is_disconnected r = true.
Proof. exact event_recv_dead. Qed.

(* later calls: send / sendv_recv started after the death fail at once (flow control off at the death) *)
Theorem C03_later_sendv_recv :
  forall fuel fixed e rq eq conn ms, dead_server rq eq e -> e_fc e = 0 ->
  exists r, ipcc_sendv_recv fuel fixed e conn ms = Some (r, false, 0) /\ is_disconnected r = true.
Proof. exact sendv_recv_after_death. Qed.
Theorem C03_later_send :
  forall e rq eq conn, dead_server rq eq e -> ipcc_send e conn = (e_sendv e, false) /\ is_disconnected (e_sendv e) = true.
Proof. exact send_after_death. Qed.

(* later qb_ipcc_recv: in the code AS FOUND it waits for its whole timeout, for ever with -1 (refuted; replayed on the
   library: harness "sdeath", call "recv -1" -> HANG); the repaired code (fixes/C03-ipcc-recv-after-disconnect.patch)
   fails at once - instance [fixed = true, conn = false] of C03_recv_deadline and the concrete runs below *)
Theorem C03_later_recv_refuted :
  dead_server false false (dead_env_shm false false) /\
  ipcc_recv false (dead_env_shm false false) false (-1) = None /\
  ipcc_recv false (dead_env_shm false false) false 100 = Some (- D_ENOTCONN, false, 100) /\
  ipcc_recv true (dead_env_shm false false) false (-1) = Some (- D_ENOTCONN, false, 0) /\
  ipcc_recv true (dead_env_shm false false) false 100 = Some (- D_ENOTCONN, false, 0).
Proof. exact recv_after_disconnect_unfixed. Qed.

(* qb_ipcc_disconnect notices the death itself and takes the force-close branch (ring files unlinked) once
   kill(server_pid, 0) says ESRCH - or when the pid is not known *)
Theorem C03_disconnect_unlinks :
  forall e rq eq conn pid_known, dead_server rq eq e -> ipcc_disconnect_forces e conn pid_known true = Some true.
Proof. exact disconnect_forces. Qed.

Example C03_dead_env_exists : forall rq eq, dead_server rq eq (dead_env_shm rq eq).
Proof. exact dead_env_shm_dead. Qed.

(* "KEEPS SERVING ITS OTHER CLIENTS" vs. the socket transport's connect-on-send retry (_finish_connecting: up to
   FC_RETRIES connect() attempts FC_SLEEP_MS apart for every response/event to a client whose socket is gone).
   Reading adopted: a bounded delay is not a failure to serve.  The bound: one attempt ends after at most
   FC_RETRIES * FC_SLEEP_MS (= 1 s) whatever connect() answers; in the pass in which the server notices the death it hands
   at most min(queued, MAX_RECV_MSGS) of the dead client's requests to msg_process, so the other clients wait at most
   n * 1 s, once per dead client (the liveliness handler of the same pass disconnects it: C03_client_death).
   The shm transport's INFINITE wait for wake-up bytes (phase PStalled) has no such bound for a client that is stopped
   but alive - that is outside C03 (no death); the death itself ends the wait (finish_wakeup_read, C03_client_death). *)
Theorem C03_connect_on_send_bounded : forall conn_ok,
  exists ok ms, finish_connecting 10 0 conn_ok 0 = Some (ok, ms) /\ 0 <= ms <= FC_RETRIES * FC_SLEEP_MS.
Proof. exact finish_connecting_bound. Qed.
Theorem C03_dead_client_stall_bounded : forall (Fr : Type) (pin : bool) (s : st Fr) conn_ok, 0 <= k_reqq s ->
  exists n ms, 0 <= n <= D_MAX_RECV_MSGS /\ n <= k_reqq s /\
    log (dispatch_request Sock pin false s) = log s ++ msgs_n n /\
    stall_of_sends (Z.to_nat n) conn_ok = Some ms /\
    0 <= ms <= n * (FC_RETRIES * FC_SLEEP_MS).
Proof. exact dead_client_stall_bounded. Qed.
Example C03_stall_three_requests :
  stall_of_sends 3 (fun _ _ => false) = Some 3000.
Proof. vm_compute. reflexivity. Qed.

Print Assumptions C03_client_death.
Print Assumptions C03_dead_client_stall_bounded.
Print Assumptions C03_recv_deadline.
Print Assumptions C03_sendv_recv_bounded.
Print Assumptions C03_event_recv_bounded.
Print Assumptions C03_later_sendv_recv.
Print Assumptions C03_later_recv_refuted.
Print Assumptions C03_disconnect_unlinks.
