(* C10 - weak priorities: proofs about the turn structure of qb_loop_run (LoopModel.iteration).
   Everything here holds for EVERY state, every behaviour table and every environment: the rotation and
   the per-level quota do not depend on what the callbacks do. *)
Require Import ZArith List Bool Lia.
Require Import Verif.gen.Consts_loop Verif.LoopModel.
Import ListNotations.
Open Scope Z_scope.

(* ------------------------------------------------------------------ constants *)
Lemma to_process_pos : 1 <= LOOP_TO_PROCESS.
Proof. unfold LOOP_TO_PROCESS. lia. Qed.
Lemma prio_order : LOOP_LOW < LOOP_MED /\ LOOP_MED < LOOP_HIGH.
Proof. unfold LOOP_LOW, LOOP_MED, LOOP_HIGH. lia. Qed.
Lemma level_prio_ok : LOOP_LEVEL_PRIO_OK = 1.
Proof. reflexivity. Qed.

Lemma geb_low : forall p, prio_geb p Low = true.
Proof. intros p. unfold prio_geb. pose proof prio_order. destruct p; cbn; lia. Qed.
Lemma geb_high : forall p, prio_geb High p = true.
Proof. intros p. unfold prio_geb. pose proof prio_order. destruct p; cbn; lia. Qed.
(* a level admitted by a cut-off is admitted together with every higher level *)
Lemma geb_mono : forall p q c, prio_geb p c = true -> prio_z p <= prio_z q -> prio_geb q c = true.
Proof. intros p q c. unfold prio_geb. lia. Qed.
Lemma geb_med_high : prio_geb Med High = false /\ prio_geb Low High = false /\ prio_geb Low Med = false /\ prio_geb Med Med = true.
Proof. unfold prio_geb. pose proof prio_order. cbn. lia. Qed.

(* ------------------------------------------------------------------ rotation *)
Lemma next_pstop_3 : forall p, next_pstop (next_pstop (next_pstop p)) = p.
Proof. destruct p; reflexivity. Qed.

Ltac pcbn := cbn [li_admitted li_qlen li_disp ti_pstop ti_timeout ti_high ti_med ti_low ti_returned ti_lv r_pstop r_remaining fst snd li_none].
Ltac destr_lets :=
  repeat match goal with
         | |- context [let '(_, _) := ?t in _] => destruct t
         | |- context [if ?c then _ else _] => destruct c
         end.

Lemma iteration_pstop : forall beh e rs st,
  r_pstop (snd (fst (iteration beh e rs st))) = next_pstop (r_pstop rs) /\
  ti_pstop (snd (iteration beh e rs st)) = next_pstop (r_pstop rs).
Proof. intros. unfold iteration. destr_lets; cbn; auto. Qed.

(* the cut-off used in the k-th turn (k = 0, 1, 2, ...) of any run *)
Definition phase (k : nat) : prio := match (k mod 3)%nat with O => High | 1%nat => Med | _ => Low end.
Fixpoint iter_next (k : nat) (p : prio) : prio := match k with O => p | S k' => next_pstop (iter_next k' p) end.
Lemma iter_next_comm : forall k p, iter_next k (next_pstop p) = next_pstop (iter_next k p).
Proof. induction k; intros; cbn; [reflexivity | now rewrite IHk]. Qed.
Lemma iter_next_phase : forall k, iter_next (S k) Low = phase k.
Proof.
  assert (H3 : forall k p, iter_next (3 + k) p = iter_next k p).
  { intros k p. cbn [plus iter_next]. apply next_pstop_3. }
  assert (forall n k, (k < 3 * n)%nat -> iter_next (S k) Low = phase k).
  { induction n; intros k Hk; [lia|].
    destruct (Nat.lt_ge_cases k 3) as [Hlt|Hge].
    - destruct k as [|[|[|k]]]; try lia; reflexivity.
    - replace (S k) with (3 + S (k - 3))%nat by lia. rewrite H3. rewrite IHn by lia.
      unfold phase. replace k with ((k - 3) + 1 * 3)%nat at 2 by lia. now rewrite Nat.mod_add by lia. }
  intros k. apply (H (S k)). lia.
Qed.

(* cut-offs of the turns of a run *)
Lemma run_go_pstops : forall beh envs rs st k t,
  nth_error (snd (run_go beh envs rs st)) k = Some t -> ti_pstop t = iter_next (S k) (r_pstop rs).
Proof.
  induction envs as [|e es IH]; intros rs st k t; cbn [run_go].
  - pose proof (iteration_pstop beh env_end rs st) as [_ Hp].
    destruct (iteration beh env_end rs st) as [[st' rs'] ti]. cbn in *.
    destruct k as [|k]; cbn; [intros H; inversion H; subst; exact Hp | destruct k; cbn; discriminate].
  - pose proof (iteration_pstop beh e rs st) as [Hr Hp].
    destruct (iteration beh e rs st) as [[st' rs'] ti]. cbn in Hr, Hp.
    destruct (ti_returned ti || stop st').
    + cbn. destruct k as [|k]; cbn; [intros H; inversion H; subst; exact Hp | destruct k; cbn; discriminate].
    + specialize (IH rs' st'). destruct (run_go beh es rs' st') as [st'' tis]. cbn in *.
      destruct k as [|k]; cbn.
      * intros H; inversion H; subst; exact Hp.
      * intros H. rewrite (IH k t H). rewrite Hr. now rewrite iter_next_comm.
Qed.

Lemma loop_run_pstops : forall beh envs st k t,
  nth_error (snd (loop_run beh envs st)) k = Some t -> ti_pstop t = phase k.
Proof.
  intros beh envs st k t. unfold loop_run.
  pose proof (run_go_pstops beh envs (run_start_of st) (set_stop false st) k t) as H.
  destruct (run_go beh envs (run_start_of st) (set_stop false st)) as [st' tis]. cbn in *.
  intros Hk. rewrite (H Hk). apply iter_next_phase.
Qed.

(* ------------------------------------------------------------------ the quota of one level *)
Lemma run_level_go_bounds : forall beh p fuel processed st st' n,
  run_level_go beh p fuel processed st = (st', n) ->
  processed <= n <= Z.max (processed + 1) LOOP_TO_PROCESS /\
  (fuel <> O -> jobq (lv st p) <> [] -> processed + 1 <= n) /\
  (jobq (lv st p) = [] -> n = processed /\ st' = st) /\
  (LOOP_TO_PROCESS - processed <= Z.of_nat fuel -> stop st' = true \/ jobq (lv st' p) = [] \/ LOOP_TO_PROCESS <= n).
Proof.
  induction fuel as [|f IH]; intros processed st st' n; cbn [run_level_go].
  - intros H; inversion H; subst. split; [lia|]. split; [congruence|]. split; [auto|]. intros. right; right. lia.
  - destruct (jobq (lv st p)) as [|it rest] eqn:Q.
    + intros H; inversion H; subst. split; [lia|]. split; [congruence|]. split; [auto|]. intros. right; left. exact Q.
    + match goal with |- context [dec_todo p ?x] => set (st1 := dec_todo p x) end.
      destruct (stop st1) eqn:S1.
      * intros H; inversion H; subst. split; [lia|]. split; [lia|]. split; [congruence|]. intros. now left.
      * destruct (processed + 1 <? LOOP_TO_PROCESS) eqn:L.
        -- intros H. apply IH in H. destruct H as (B & _ & _ & C).
           split; [lia|]. split; [lia|]. split; [congruence|]. intros Hf. apply C. lia.
        -- intros H; inversion H; subst. split; [lia|]. split; [lia|]. split; [congruence|]. intros. right; right. lia.
Qed.

Lemma run_level_spec : forall beh p st st' n,
  run_level beh p st = (st', n) ->
  0 <= n <= Z.max 1 LOOP_TO_PROCESS /\
  (jobq (lv st p) <> [] -> 1 <= n) /\
  (jobq (lv st p) = [] -> n = 0 /\ st' = st) /\
  (stop st' = true \/ jobq (lv st' p) = [] \/ LOOP_TO_PROCESS <= n).
Proof.
  intros beh p st st' n H. unfold run_level in H. apply run_level_go_bounds in H.
  destruct H as (A & B & C & D). split; [lia|]. split; [|split].
  - intros Q. specialize (B ltac:(discriminate) Q). lia.
  - exact C.
  - apply D. pose proof to_process_pos. lia.
Qed.

Lemma zlen_pos : forall A (l : list A), 0 < zlen l <-> l <> [].
Proof. intros A l. unfold zlen. destruct l; cbn; split; intros; try lia; congruence. Qed.

Lemma serve_spec : forall beh c p st st' i,
  serve beh c p st = (st', i) ->
  li_admitted i = prio_geb p c /\ li_qlen i = zlen (jobq (lv st p)) /\ 0 <= li_disp i <= Z.max 1 LOOP_TO_PROCESS /\
  (li_admitted i = true -> 0 < li_qlen i -> 1 <= li_disp i) /\
  (li_admitted i = false -> li_disp i = 0 /\ st' = st) /\
  (li_admitted i = true -> stop st' = true \/ jobq (lv st' p) = [] \/ LOOP_TO_PROCESS <= li_disp i).
Proof.
  intros beh c p st st' i. unfold serve. destruct (prio_geb p c).
  - destruct (run_level beh p st) as [s n] eqn:R. intros H; inversion H; subst; pcbn.
    apply run_level_spec in R. destruct R as (A & B & C & D).
    split; [reflexivity|]. split; [reflexivity|]. split; [lia|]. split; [|split; [discriminate|intros _; exact D]].
    intros _ Q. apply B. now apply zlen_pos.
  - intros H; inversion H; subst; pcbn. pose proof to_process_pos.
    split; [reflexivity|]. split; [reflexivity|]. split; [lia|]. split; [discriminate|]. split; [auto|discriminate].
Qed.

(* one level's record in a turn: admitted and something queued => between 1 and to_process dispatched *)
Definition lv_ok (i : lvinfo) : Prop :=
  0 <= li_disp i <= Z.max 1 LOOP_TO_PROCESS /\
  (li_admitted i = true -> 0 < li_qlen i -> 1 <= li_disp i) /\
  (li_admitted i = false -> li_disp i = 0).
Lemma li_none_ok : lv_ok li_none.
Proof. unfold lv_ok, li_none; cbn. pose proof to_process_pos. repeat split; try lia; discriminate. Qed.
Lemma serve_ok : forall beh c p st st' i, serve beh c p st = (st', i) -> lv_ok i.
Proof. intros. apply serve_spec in H. unfold lv_ok. intuition. Qed.

Lemma iteration_spec : forall beh e rs st st' rs' ti,
  iteration beh e rs st = (st', rs', ti) ->
  ti_pstop ti = next_pstop (r_pstop rs) /\
  (forall p, lv_ok (ti_lv ti p)) /\
  (ti_returned ti = false -> forall p, li_admitted (ti_lv ti p) = prio_geb p (ti_pstop ti)) /\
  (ti_returned ti = true -> stop st' = true).
Proof.
  intros beh e rs st st' rs' ti. unfold iteration.
  destruct (get_more_jobs st) as [jt s1]. destruct (expire_the_timers s1) as [tt s2].
  match goal with |- context [poll_and_add_to_jobs e ?t s2] => destruct (poll_and_add_to_jobs e t s2) as [x s3] end.
  destruct (serve beh (next_pstop (r_pstop rs)) High s3) as [s4 ih] eqn:SH.
  pose proof (serve_ok _ _ _ _ _ _ SH) as OH. pose proof (serve_spec _ _ _ _ _ _ SH) as (AH & _).
  destruct (li_admitted ih && stop s4) eqn:EH.
  { intros H; inversion H; subst; pcbn. apply andb_true_iff in EH. destruct EH as [EA ES].
    split; [reflexivity|]. split; [intros q; destruct q; pcbn; auto using li_none_ok|].
    split; [discriminate|]. intros _; exact ES. }
  destruct (serve beh (next_pstop (r_pstop rs)) Med s4) as [s5 im] eqn:SM.
  pose proof (serve_ok _ _ _ _ _ _ SM) as OM. pose proof (serve_spec _ _ _ _ _ _ SM) as (AM & _).
  destruct (li_admitted im && stop s5) eqn:EM.
  { intros H; inversion H; subst; pcbn. apply andb_true_iff in EM. destruct EM as [EA ES].
    split; [reflexivity|]. split; [intros q; destruct q; pcbn; auto using li_none_ok|].
    split; [discriminate|]. intros _; exact ES. }
  destruct (serve beh (next_pstop (r_pstop rs)) Low s5) as [s6 il] eqn:SL.
  pose proof (serve_ok _ _ _ _ _ _ SL) as OL. pose proof (serve_spec _ _ _ _ _ _ SL) as (AL & _).
  destruct (li_admitted il && stop s6) eqn:EL.
  { intros H; inversion H; subst; pcbn. apply andb_true_iff in EL. destruct EL as [EA ES].
    split; [reflexivity|]. split; [intros q; destruct q; pcbn; auto using li_none_ok|].
    split; [discriminate|]. intros _; exact ES. }
  intros H; inversion H; subst; pcbn.
  split; [reflexivity|]. split; [intros q; destruct q; pcbn; auto|].
  split; [intros _ q; destruct q; pcbn; auto | discriminate].
Qed.

(* ------------------------------------------------------------------ three consecutive turns *)
Definition three_turns (beh : behaviour) (e1 e2 e3 : env) (rs : runstate) st : state * runstate * list turninfo :=
  let '(st1, rs1, t1) := iteration beh e1 rs st in
  let '(st2, rs2, t2) := iteration beh e2 rs1 st1 in
  let '(st3, rs3, t3) := iteration beh e3 rs2 st2 in
  (st3, rs3, [t1; t2; t3]).
Definition total_disp (ts : list turninfo) (p : prio) : Z := fold_right (fun t a => li_disp (ti_lv t p) + a) 0 ts.
Definition admitted_count (ts : list turninfo) (p : prio) : Z :=
  fold_right (fun t a => (if li_admitted (ti_lv t p) then 1 else 0) + a) 0 ts.

Lemma three_turns_spec : forall beh e1 e2 e3 rs st st' rs' ts,
  three_turns beh e1 e2 e3 rs st = (st', rs', ts) ->
  (forall t, In t ts -> ti_returned t = false) ->
  (exists t1 t2 t3, ts = [t1; t2; t3] /\ ti_pstop t2 = next_pstop (ti_pstop t1) /\ ti_pstop t3 = next_pstop (ti_pstop t2)) /\
  (forall t p, In t ts -> lv_ok (ti_lv t p) /\ li_admitted (ti_lv t p) = prio_geb p (ti_pstop t)) /\
  r_pstop rs' = r_pstop rs.
Proof.
  intros beh e1 e2 e3 rs st st' rs' ts. unfold three_turns.
  destruct (iteration beh e1 rs st) as [[s1 r1] t1] eqn:I1.
  destruct (iteration beh e2 r1 s1) as [[s2 r2] t2] eqn:I2.
  destruct (iteration beh e3 r2 s2) as [[s3 r3] t3] eqn:I3.
  intros H Hret; inversion H; subst.
  pose proof (iteration_pstop beh e1 rs st) as [P1 _]; rewrite I1 in P1; cbn in P1.
  pose proof (iteration_pstop beh e2 r1 s1) as [P2 _]; rewrite I2 in P2; cbn in P2.
  pose proof (iteration_pstop beh e3 r2 s2) as [P3 _]; rewrite I3 in P3; cbn in P3.
  apply iteration_spec in I1. apply iteration_spec in I2. apply iteration_spec in I3.
  destruct I1 as (A1 & B1 & C1 & _), I2 as (A2 & B2 & C2 & _), I3 as (A3 & B3 & C3 & _).
  split; [|split].
  - exists t1, t2, t3. split; [reflexivity|]. split; congruence.
  - intros t p Ht. split.
    + destruct Ht as [<-|[<-|[<-|[]]]]; auto.
    + destruct Ht as [<-|[<-|[<-|[]]]]; [apply C1|apply C2|apply C3]; apply Hret; cbn; auto.
  - rewrite P3, P2, P1. apply next_pstop_3.
Qed.

(* among three consecutive cut-offs one is LOW *)
Lemma one_is_low : forall c, c = Low \/ next_pstop c = Low \/ next_pstop (next_pstop c) = Low.
Proof. destruct c; cbn; auto. Qed.

Lemma total_disp_ge : forall ts p t, (forall t, In t ts -> 0 <= li_disp (ti_lv t p)) -> In t ts ->
  li_disp (ti_lv t p) <= total_disp ts p.
Proof.
  induction ts as [|a ts IH]; intros p t H Hin; [destruct Hin|]. cbn [total_disp fold_right].
  assert (0 <= total_disp ts p).
  { clear -H. induction ts; cbn; [lia|]. pose proof (H a0 (or_intror (or_introl eq_refl))).
    assert (0 <= total_disp ts p) by (apply IHts; intros; apply H; cbn in *; tauto). unfold total_disp in *. lia. }
  destruct Hin as [<-|Hin].
  - unfold total_disp in *. lia.
  - pose proof (IH p t (fun t h => H t (or_intror h)) Hin). pose proof (H a (or_introl eq_refl)). unfold total_disp in *. lia.
Qed.

(* no level is starved: in any three consecutive turns that are not cut short by stop, every level has a
   turn in which it is admitted, and if anything is on its job list when that turn comes, between 1 and
   to_process items are dispatched there - whatever the state, the callbacks and the environment *)
Lemma no_starvation_general : forall beh e1 e2 e3 rs st st' rs' ts p,
  three_turns beh e1 e2 e3 rs st = (st', rs', ts) ->
  (forall t, In t ts -> ti_returned t = false) ->
  exists t, In t ts /\ li_admitted (ti_lv t p) = true /\
            (0 < li_qlen (ti_lv t p) -> 1 <= li_disp (ti_lv t p) <= Z.max 1 LOOP_TO_PROCESS /\ 1 <= total_disp ts p).
Proof.
  intros beh e1 e2 e3 rs st st' rs' ts p H Hret.
  destruct (three_turns_spec _ _ _ _ _ _ _ _ _ H Hret) as ((t1 & t2 & t3 & -> & P2 & P3) & OK & _).
  assert (Hd : forall t, In t [t1; t2; t3] -> 0 <= li_disp (ti_lv t p)).
  { intros t Ht. destruct (OK t p Ht) as [[? _] _]. lia. }
  assert (K : forall t, In t [t1; t2; t3] -> ti_pstop t = Low ->
              In t [t1; t2; t3] /\ li_admitted (ti_lv t p) = true /\
              (0 < li_qlen (ti_lv t p) -> 1 <= li_disp (ti_lv t p) <= Z.max 1 LOOP_TO_PROCESS /\ 1 <= total_disp [t1; t2; t3] p)).
  { intros t Ht HL. destruct (OK t p Ht) as [(B & S & _) Adm]. rewrite HL, geb_low in Adm.
    split; [exact Ht|]. split; [exact Adm|]. intros Q. specialize (S Adm Q).
    pose proof (total_disp_ge [t1; t2; t3] p t Hd Ht). lia. }
  destruct (one_is_low (ti_pstop t1)) as [L|[L|L]].
  - exists t1. apply K; cbn; auto.
  - exists t2. apply K; cbn; auto. congruence.
  - exists t3. apply K; cbn; auto. congruence.
Qed.

(* dispatch opportunities: in every turn the set of admitted levels is upward closed, so over any span
   HIGH is admitted at least as often as MED and MED at least as often as LOW; over three consecutive
   turns the counts are exactly 3, 2, 1 *)
Lemma opportunities_turn : forall beh e rs st st' rs' ti p q,
  iteration beh e rs st = (st', rs', ti) -> ti_returned ti = false ->
  prio_z p <= prio_z q -> li_admitted (ti_lv ti p) = true -> li_admitted (ti_lv ti q) = true.
Proof.
  intros. apply iteration_spec in H. destruct H as (_ & _ & C & _). rewrite (C H0) in *. eapply geb_mono; eauto.
Qed.

Lemma opportunities_321 : forall beh e1 e2 e3 rs st st' rs' ts,
  three_turns beh e1 e2 e3 rs st = (st', rs', ts) ->
  (forall t, In t ts -> ti_returned t = false) ->
  admitted_count ts High = 3 /\ admitted_count ts Med = 2 /\ admitted_count ts Low = 1.
Proof.
  intros beh e1 e2 e3 rs st st' rs' ts H Hret.
  destruct (three_turns_spec _ _ _ _ _ _ _ _ _ H Hret) as ((t1 & t2 & t3 & -> & P2 & P3) & OK & _).
  assert (A : forall t p, In t [t1; t2; t3] -> li_admitted (ti_lv t p) = prio_geb p (ti_pstop t)) by (intros; apply OK; auto).
  unfold admitted_count; cbn [fold_right].
  rewrite !(A t1), !(A t2), !(A t3) by (cbn; auto). rewrite P3, P2.
  destruct geb_med_high as (G1 & G2 & G3 & G4).
  destruct (ti_pstop t1); cbn [next_pstop]; rewrite ?geb_low, ?geb_high, ?G1, ?G2, ?G3, ?G4; repeat split; reflexivity.
Qed.

(* ------------------------------------------------------------------ statements used by Properties_C10 *)
Lemma rotation : forall beh e rs st,
  ti_pstop (snd (iteration beh e rs st)) = next_pstop (r_pstop rs) /\
  r_pstop (snd (fst (iteration beh e rs st))) = next_pstop (r_pstop rs) /\
  next_pstop (next_pstop (next_pstop (r_pstop rs))) = r_pstop rs.
Proof. intros. destruct (iteration_pstop beh e rs st). split; [auto|]. split; [auto|]. apply next_pstop_3. Qed.

Lemma served_when_due : forall beh e rs st st' rs' ti p,
  iteration beh e rs st = (st', rs', ti) ->
  (ti_returned ti = false -> li_admitted (ti_lv ti p) = prio_geb p (next_pstop (r_pstop rs))) /\
  (li_admitted (ti_lv ti p) = true -> 0 < li_qlen (ti_lv ti p) ->
   1 <= li_disp (ti_lv ti p) <= LOOP_TO_PROCESS) /\
  (li_admitted (ti_lv ti p) = false -> li_disp (ti_lv ti p) = 0).
Proof.
  intros. apply iteration_spec in H. destruct H as (A & B & C & _). destruct (B p) as (B1 & B2 & B3).
  pose proof to_process_pos. split; [|split].
  - intros R. rewrite (C R). now rewrite A.
  - intros X Y. specialize (B2 X Y). lia.
  - exact B3.
Qed.

(* the quota is used up: a served level stops only because to_process items were dispatched, or its list is
   empty, or stop was requested *)
Lemma quota_exhaustive : forall beh p st st' n,
  run_level beh p st = (st', n) ->
  0 <= n <= LOOP_TO_PROCESS /\ (jobq (lv st p) <> [] -> 1 <= n) /\
  (stop st' = true \/ jobq (lv st' p) = [] \/ n = LOOP_TO_PROCESS).
Proof.
  intros. apply run_level_spec in H. destruct H as (A & B & _ & D). pose proof to_process_pos.
  split; [lia|]. split; [exact B|]. destruct D as [D|[D|D]]; auto. right; right. lia.
Qed.
