(* C05 - IPC admission: further property theorems (same conventions as Properties_C05.v). *)
From Coq Require Import ZArith NArith List Bool.
Require Import Verif.gen.Consts_ipcadmit Verif.IpcAdmitModel Verif.IpcAdmitProofs Verif.IpcAdmitProofs2.
Import ListNotations.
Local Open Scope Z_scope.

(* repaired code, root server, any interleaving with other peers: when the admission of an accepted peer is complete,
   the directory and every file the client will open (shm: six ring files; socket: the control file) are owned by
   exactly the authorised uid:gid (-1 = the server's) with exactly the authorised mode (directory: plus search bits),
   and no other object of the connection exists *)
Theorem C05_final_state_is_the_authorised_one : forall en tr p l k,
  srv_root en = true -> p_decision p = 0 ->
  fsops (proj k l) = admission_ops Fixed tr p ->
  final_ok (srv en) (eff_auth p) tr (l_fs (run en w_empty l k)).
Proof. exact fixed_final_state_global. Qed.
Print Assumptions C05_final_state_is_the_authorised_one.

(* both variants, root server, any interleaving: once the server is done with a peer (refused: end of the admission;
   accepted: end of the tear-down after the peer went away) no file or directory of the connection is left *)
Theorem C05_nothing_left_when_done : forall en v tr p l k,
  srv_root en = true -> fsops (proj k l) = peer_script v tr p -> l_fs (run en w_empty l k) = [].
Proof. exact script_leaves_nothing_global. Qed.
Print Assumptions C05_nothing_left_when_done.

(* non-vacuity: default authorisation on the socket transport under umask 022 *)
Example C05_example_final_state :
  frun root_env_022 [] (admission_ops Fixed Sock peer_1000) =
  [(TCtl, mkE 1000 1000 m600 false); (TDir, mkE 1000 1000 m700 true)].
Proof. exact ex_final_state. Qed.
Print Assumptions C05_example_final_state.
