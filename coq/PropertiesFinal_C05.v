(* C05 - IPC admission: further property theorems (same conventions as Properties_C05.v). *)
From Coq Require Import ZArith NArith List Bool.
Require Import Verif.gen.Consts_ipcadmit Verif.IpcAdmitModel Verif.IpcAdmitProofs Verif.IpcAdmitProofs2.
Import ListNotations.
Local Open Scope Z_scope.

(* repaired code, root server, any interleaving with other peers: when the admission of an accepted peer is complete,
   the directory and every file the client will open (shm: six ring files; socket: the control file) are owned by
   exactly the authorised uid:gid (-1 = the server's) with exactly the authorised mode (directory: plus search bits),
   and no other object of the connection exists *)
Theorem C05_final_state_is_the_authorised_one : forall en tr p l k,
  srv_root en = true -> p_decision p = 0 ->
  fsops (proj k l) = admission_ops Fixed tr p ->
  final_ok (srv en) (eff_auth p) tr (l_fs (run en w_empty l k)).
Proof. exact fixed_final_state_global. Qed.
Print Assumptions C05_final_state_is_the_authorised_one.

(* both variants, root server, any interleaving: once the server is done with a peer (refused: end of the admission;
   accepted: end of the tear-down after the peer went away) no file or directory of the connection is left *)
Theorem C05_nothing_left_when_done : forall en v tr p l k,
  srv_root en = true -> fsops (proj k l) = peer_script v tr p -> l_fs (run en w_empty l k) = [].
Proof. exact script_leaves_nothing_global. Qed.
Print Assumptions C05_nothing_left_when_done.

(* non-vacuity: default authorisation on the socket transport under umask 022 *)
Example C05_example_final_state :
  frun root_env_022 [] (admission_ops Fixed Sock peer_1000) =
  [(TCtl, mkE 1000 1000 m600 false); (TDir, mkE 1000 1000 m700 true)].
Proof. exact ex_final_state. Qed.
Print Assumptions C05_example_final_state.

(* whose requests reach msg_process.  [LForeign tr filt] = a process that is not the connection's peer sends a
   well-formed request to the connection's request address (see IpcAdmitModel.v); [foreign_blocked] = it cannot get
   through: shm transport, or socket transport with fixes/C05-sock-request-sender-check.patch.  Any interleaving, any
   number of foreign datagrams and of the peer's own sends: msg_process is never invoked for a foreign datagram, and at
   most once per request the connection's own peer sent *)
Theorem C05_msg_only_from_own_peer : forall en l k,
  forallb foreign_blocked (proj k l) = true ->
  ~ In EvMsgForeign (l_log (run en w_empty l k)) /\
  (nmsg (l_log (run en w_empty l k)) <= npeer_sends (proj k l))%nat.
Proof. exact own_peer_only_global. Qed.
Print Assumptions C05_msg_only_from_own_peer.

(* without the sender check the statement is false on the socket transport (known finding C05-sock-dgram-injection /
   its repair): an accepted peer that sends nothing, one foreign datagram, msg_process runs; with the check, or on
   shm, the same trace is harmless *)
Theorem C05_msg_only_from_own_peer_unfiltered_refuted :
  In EvMsgForeign (l_log (lrun root_env_022 l_empty foreign_witness)) /\ npeer_sends foreign_witness = 0%nat /\
  ~ In EvMsgForeign (l_log (lrun root_env_022 l_empty (admission_ops Fixed Sock peer_1000 ++ [LForeign Sock true]))) /\
  ~ In EvMsgForeign (l_log (lrun root_env_022 l_empty (admission_ops Fixed Shm peer_1000 ++ [LForeign Shm false]))).
Proof. exact foreign_refuted. Qed.
Print Assumptions C05_msg_only_from_own_peer_unfiltered_refuted.

(* (3) for a server that is NOT root.  Partial: the hypothesis is that every peer's authorised uid:gid are the server's
   own (same-user clients with the default authorisation, or auth_set(-1, -1, mode)) - then chown changes nothing and the
   full at-any-moment statement holds for every umask, mode, interleaving.  What is missing for the full statement is
   exactly the case refuted below. *)
Theorem C05_private_at_any_moment_nonroot_partial : forall en tr (ps : nat -> peer) l,
  (forall k, keep (a_uid (eff_auth (ps k))) (c_uid (srv en)) = c_uid (srv en) /\
             keep (a_gid (eff_auth (ps k))) (c_gid (srv en)) = c_gid (srv en)) ->
  (forall k, is_prefix (fsops (proj k l)) (peer_script Fixed tr (ps k))) ->
  forall k t e, lookup t (l_fs (run en w_empty l k)) = Some e -> permitted (srv en) (authorised (ps k)) e.
Proof. exact fixed_any_moment_nonroot_global. Qed.
Print Assumptions C05_private_at_any_moment_nonroot_partial.

(* non-root server (500:500) authorising another user (auth_set(1, 2, 0660)): every chown fails with EPERM and is
   ignored by the code; the connection is accepted, the ring files end up 500:500 0660 (the server's group may read and
   write what was authorised for gid 2), the authorised client cannot open them (its connect returns -EACCES), the
   server's later tear-down leaves nothing.  The last conjunct: the same server with a same-user peer is fine. *)
Theorem C05_private_at_any_moment_nonroot_refuted :
  all_prefixes_ok nonroot_env Fixed Shm peer_auth_other = false /\
  lookup TReqD (frun nonroot_env [] (admission_ops Fixed Shm peer_auth_other)) = Some (mkE 500 500 432%N false) /\
  connect_result Shm peer_auth_other (lrun nonroot_env l_empty (admission_ops Fixed Shm peer_auth_other)) = - ADM_EACCES /\
  frun nonroot_env [] (peer_script Fixed Shm peer_auth_other) = [] /\
  all_prefixes_ok nonroot_env Fixed Shm (mkP (mkC 500 500) (mkC 500 500) 0 None false) = true.
Proof. exact nonroot_refuted. Qed.
Print Assumptions C05_private_at_any_moment_nonroot_refuted.
