(* Extraction of the C09 models.  ExtrOcamlBasic only; Z, positive, nat stay inductive. *)
From Coq Require Import ExtrOcamlBasic.
Require Import Verif.HeapModel Verif.LoopTimerModel.
Extraction "model_C09.ml" hs_init hstep hrun is_valid_heap lp_init hz_of_res expire_of sat64 step run fixed as_found.
