(* C18 trie part, safety: THE theorem - no interleaving of put / get / rm / count with any number of open iterators
   (created, advanced, abandoned in any order) makes the repaired trie touch freed memory. *)
From Coq Require Import List ZArith Bool Arith Lia.
Import ListNotations.
Require Import Verif.gen.Consts_trie Verif.MapTrieModel Verif.MapTrieSpec Verif.MapTrieProofs Verif.MapTrieProofs2
               Verif.MapTrieIds Verif.MapTrieIter6 Verif.MapTrieSafe2 Verif.MapTrieSafe4 Verif.MapTrieSafe5.

Inductive sop :=
| SPut (k : key) (v : val) | SGet (k : key) | SRm (k : key) | SCount
| SCreate (h : nat) | SNext (h : nat) | SFree (h : nat).

Definition sop_op (o : sop) : op :=
  match o with
  | SPut k v => OPut k v | SGet k => OGet k | SRm k => ORm k | SCount => OCount
  | SCreate h => OIterCreate h None | SNext h => OIterNext h | SFree h => OIterFree h
  end.

(* well-formed use of the API: C-string keys; iter_next / iter_free only on an iterator that was created and not
   yet freed ([open] = the handles in use) *)
Fixpoint hv (open : list nat) (hs : list sop) : Prop :=
  match hs with
  | [] => True
  | SPut k _ :: hs' => kvalid k /\ hv open hs'
  | SGet k :: hs' => kvalid k /\ hv open hs'
  | SRm k :: hs' => kvalid k /\ hv open hs'
  | SCount :: hs' => hv open hs'
  | SCreate h :: hs' => hv (h :: open) hs'
  | SNext h :: hs' => In h open /\ hv open hs'
  | SFree h :: hs' => In h open /\ hv (remove Nat.eq_dec h open) hs'
  end.

Definition opens (open : list nat) (its : list (nat * iter)) : Prop :=
  forall h, In h open -> exists it, iters_get its h = Some it.

Lemma get_del_other : forall its h h', h <> h' -> iters_get (iters_del its h) h' = iters_get its h'.
Proof.
  induction its as [|[h0 it0] its]; simpl; intros; auto. destruct (Nat.eqb_spec h0 h).
  - subst. destruct (Nat.eqb_spec h h'); [congruence|auto].
  - simpl. destruct (h0 =? h'); auto.
Qed.

Lemma opens_set : forall open its h it, opens open its -> opens (h :: open) (iters_set its h it) /\ opens open (iters_set its h it).
Proof.
  intros. assert (X : forall h', (h' = h \/ In h' open) -> exists it', iters_get (iters_set its h it) h' = Some it').
  { intros h' Hh. unfold iters_set. simpl. destruct (Nat.eqb_spec h h'); [eauto|].
    rewrite get_del_other by auto. destruct Hh as [Hh|Hh]; [congruence|]. apply H; auto. }
  split; intros h' Hh; apply X; simpl in *; intuition.
Qed.

Lemma opens_del : forall open its h, opens open its -> opens (remove Nat.eq_dec h open) (iters_del its h).
Proof.
  intros open its h H h' Hh. apply in_remove in Hh. destruct Hh as [Hh Hne].
  rewrite get_del_other by auto. apply H; auto.
Qed.

Lemma run_safe : forall hs t open, SafT t -> opens open (t_iters t) -> hv open hs ->
  exists outs t', run FX_ALL t (map sop_op hs) = (outs, Ok t').
Proof.
  induction hs as [|o hs]; intros t open HS HO Hv.
  - exists [], t. reflexivity.
  - cbn [map run]. destruct o as [k v|k|k| |h|h|h]; cbn [sop_op hv step] in *.
    + destruct Hv as [Hk Hv]. pose proof (saf_put t k v HS Hk) as S'.
      destruct (do_put FX_ALL t k v) as [t' evs] eqn:E. simpl in S'.
      assert (IT : t_iters t' = t_iters t).
      { unfold do_put in E. destruct (ins_t FX_ALL (t_root t) k true (t_next t)) as [[r1 p] nid].
        destruct (get_at r1 p) as [[i s f]|]; [|inversion E; auto].
        destruct (if n_removed i then None else n_val i); inversion E; reflexivity. }
      destruct (IHhs t' open S' ltac:(rewrite IT; exact HO) Hv) as [outs [t'' R]]. rewrite R. eauto.
    + destruct Hv as [Hk Hv]. destruct (IHhs t open HS HO Hv) as [outs [t'' R]]. rewrite R. eauto.
    + destruct Hv as [Hk Hv]. pose proof (saf_rm t k HS Hk) as S'.
      destruct (do_rm FX_ALL t k) as [[t' z] evs] eqn:E. simpl in S'.
      assert (IT : t_iters t' = t_iters t).
      { unfold do_rm in E. destruct (lookup (t_root t) k true) as [pl|]; [|inversion E; auto].
        destruct (f_rm FX_ALL && _); [inversion E; auto|].
        destruct (node_deref _ pl). inversion E; reflexivity. }
      destruct (IHhs t' open S' ltac:(rewrite IT; exact HO) Hv) as [outs [t'' R]]. rewrite R. eauto.
    + destruct (IHhs t open HS HO Hv) as [outs [t'' R]]. rewrite R. eauto.
    + pose proof (saf_iter_create t h HS) as S'.
      match goal with |- context [run FX_ALL ?t1 _] => destruct (IHhs t1 (h :: open)) as [outs [t'' R]]; auto end.
      { simpl. apply (proj1 (opens_set open (t_iters t) h (new_iter None) HO)). }
      rewrite R. eauto.
    + destruct Hv as [Hh Hv]. destruct (HO h Hh) as [it G]. rewrite G.
      destruct (saf_iter_next t h it HS G) as [r [it' [kv [evs [E [S' _]]]]]]. rewrite E.
      match goal with |- context [run FX_ALL ?t1 _] => destruct (IHhs t1 open) as [outs [t'' R]]; auto end.
      { simpl. apply (proj2 (opens_set open (t_iters t) h it' HO)). }
      rewrite R. eauto.
    + destruct Hv as [Hh Hv]. destruct (HO h Hh) as [it G]. rewrite G.
      destruct (saf_iter_free t h it HS G) as [r [evs [E [S' _]]]]. rewrite E.
      match goal with |- context [run FX_ALL ?t1 _] => destruct (IHhs t1 (remove Nat.eq_dec h open)) as [outs [t'' R]]; auto end.
      { simpl. apply opens_del. exact HO. }
      rewrite R. eauto.
Qed.

(* C18 (trie, safety): for ALL interleavings of put / get / rm / count with iterator create / next / free on any
   number of simultaneously open iterators (without prefix), the repaired code (the trie_rm node test, the removed
   flag and the identity-keeping split) never reaches an error state: no use after free (every pointer an iterator
   holds denotes a live node whenever it is used), no stray position, no loop out of fuel *)
Theorem trie_c18_no_freed_memory : forall hs, hv [] hs ->
  exists outs t', run FX_ALL trie_init (map sop_op hs) = (outs, Ok t').
Proof.
  intros hs Hv. apply run_safe with (open := []); auto.
  - unfold SafT. simpl. apply saf_init.
  - intros h [].
Qed.
