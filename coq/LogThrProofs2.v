(* C16, interleaving model (LogThrModel.v part B): proofs for every schedule.  Part 1: safety and shutdown. *)
From Coq Require Import ZArith List Bool Lia.
Import ListNotations.
Require Import Verif.gen.Consts_logthr Verif.LogThrModel.
Local Open Scope Z_scope.

(* ------------------------------------------------------------------------------------------
   The code as found: witnesses (replayed on the real library by props/C16.py, concurrent corpus). *)
Definition lost_mprog : list mop := [MStop].
Definition lost_progs : list (list Z) := [[20]].
Definition lost_sched : list nat := [2; 2; 2; 2; 0; 0; 0; 0; 1; 1; 1; 1; 1; 0; 0]%nat.

(* qb_log_fini returns, the record is still queued and was never written *)
Lemma unfixed_record_lost :
  let s := exec false lost_sched (cinit lost_mprog lost_progs) in
  stopped (c_gh s) = true /\ c_error s = false /\ length (q (c_sh s)) = 1%nat /\
  length (accepted (c_gh s)) = 1%nat /\ written (c_gh s) = [] /\ dropped (c_gh s) = [] /\ reported (c_gh s) = [].
Proof. vm_compute. repeat split. Qed.

Lemma fixed_same_schedule_complete :
  let s := exec true (lost_sched ++ [1; 1; 1; 1; 1; 1; 1; 1; 0; 0]%nat) (cinit lost_mprog lost_progs) in
  stopped (c_gh s) = true /\ q (c_sh s) = [] /\ written (c_gh s) = accepted (c_gh s) /\ length (written (c_gh s)) = 1%nat.
Proof. vm_compute. repeat split. Qed.

Definition cdw_mprog : list mop := [MClose; MStop].
Definition cdw_progs : list (list Z) := [[20; 21]].
Definition cdw_sched : list nat := [2; 2; 2; 2; 1; 1; 0]%nat.

(* qb_log_custom_close runs the close callback while the worker is inside the target's logger callback *)
Lemma unfixed_close_during_write :
  err (c_gh (exec false cdw_sched (cinit cdw_mprog cdw_progs))) = Some ECloseDuringWrite.
Proof. vm_compute. reflexivity. Qed.

(* ------------------------------------------------------------------------------------------
   Sums over the producer list *)
Fixpoint psum (f : prod -> Z) (l : list prod) : Z := match l with [] => 0 | p :: r => f p + psum f r end.

Lemma psum_upd : forall f l i p p', nth_error l i = Some p ->
  psum f (upd_prod l i p') = psum f l - f p + f p'.
Proof.
  induction l as [|a r IH]; intros i p p' H; destruct i; cbn in *; try discriminate.
  - injection H as ->. lia.
  - rewrite (IH _ _ _ H). lia.
Qed.

Lemma psum_nonneg : forall f l, (forall p, 0 <= f p) -> 0 <= psum f l.
Proof. induction l; intros; cbn; [lia|]. specialize (H a) as Ha. specialize (IHl H). lia. Qed.

Lemma nth_upd_same : forall l i (p p' : prod), nth_error l i = Some p -> nth_error (upd_prod l i p') i = Some p'.
Proof. induction l; intros i p p' H; destruct i; cbn in *; try discriminate; eauto. Qed.

Lemma nth_upd_other : forall l i j (p' : prod), i <> j -> nth_error (upd_prod l i p') j = nth_error l j.
Proof. induction l; intros i j p' H; destruct i, j; cbn; try reflexivity; try congruence. apply IHl. congruence. Qed.

Lemma upd_length : forall l i (p' : prod), length (upd_prod l i p') = length l.
Proof. induction l; intros; destruct i; cbn; auto. Qed.

Definition fpost (p : prod) : Z := match p_pc p with PPost _ | PUnlock _ true => 1 | _ => 0 end.   (* appended, not yet posted *)
Definition fsec (p : prod) : Z := match p_pc p with PUnlock _ _ => 1 | _ => 0 end.
Lemma fpost_nonneg : forall p, 0 <= fpost p. Proof. intro p. unfold fpost. destruct (p_pc p) as [| |? []|]; lia. Qed.
Lemma fsec_nonneg : forall p, 0 <= fsec p. Proof. intro p. unfold fsec. destruct (p_pc p); lia. Qed.

Definition wc (w : wpc) : Z := match w with WLock => 1 | _ => 0 end.
Definition we (w : wpc) : Z := match w with WUnlockExit | WExit | WDone => 1 | _ => 0 end.
Definition wsec (w : wpc) : Z := match w with WGetval | WWrite _ | WUnlock | WUnlockExit => 1 | _ => 0 end.
Definition msec (m : mpc) : Z := match m with MUnlock | MStopUnlock => 1 | _ => 0 end.
Definition in_stop (m : mpc) : bool := match m with MStopLock | MStopUnlock | MStopPost | MStopJoin => true | _ => false end.
Definition m_flagged (m : mpc) : bool := match m with MStopUnlock | MStopPost | MStopJoin => true | _ => false end.
Definition m_posted (m : mpc) : bool := match m with MStopJoin => true | _ => false end.

Definition m_stopping (m : mpc) : bool :=
  match m with MJoin _ | MStopLock | MStopUnlock | MStopPost | MStopJoin => true | _ => false end.

Definition all_prods_done (l : list prod) : Prop := forall j p, nth_error l j = Some p -> prod_done p = true.

Record Inv1 (s : cstate) : Prop := {
  i_err : err (c_gh s) = None;
  i_sem : 0 <= sem (c_sh s);
  i_tok : sem (c_sh s) + psum fpost (c_prods s) + wc (c_w s) + we (c_w s) =
          Z.of_nat (length (q (c_sh s))) + (if m_posted (c_m s) || stopped (c_gh s) then 1 else 0);
  i_flag : flag (c_sh s) = m_flagged (c_m s) || stopped (c_gh s);
  i_join : forall k, c_m s = MJoin k -> forall j p, (j < k)%nat -> nth_error (c_prods s) j = Some p -> prod_done p = true;
  i_done : in_stop (c_m s) || stopped (c_gh s) = true -> all_prods_done (c_prods s);
  i_exit : we (c_w s) = 1 -> q (c_sh s) = [] /\ flag (c_sh s) = true;
  i_stopped : stopped (c_gh s) = true -> c_w s = WDone /\ c_m s = MIdle /\ c_mprog s = [];
  i_mutex : wsec (c_w s) + msec (c_m s) + psum fsec (c_prods s) = (if lock_free (c_sh s) then 0 else 1);
  i_nogv : c_w s <> WGetval;
  i_prog : m_stopping (c_m s) = true -> c_mprog s = []
}.

Lemma inv1_init : forall mprog progs, Inv1 (cinit mprog progs).
Proof.
  intros. assert (P : forall f, (forall p, p_pc p = PIdle -> f p = 0) ->
                   psum f (map (fun p => {| p_prog := p; p_seq := 0; p_pc := PIdle |}) progs) = 0).
  { intros f Hf. induction progs as [|a r IH]; cbn; [reflexivity|]. rewrite IH, Hf by reflexivity. reflexivity. }
  constructor; cbn; try reflexivity; try lia; try discriminate.
  all: try (rewrite P; [reflexivity|]; intros p H; unfold fpost, fsec; rewrite H; reflexivity).
  all: try (intros; discriminate).
Qed.

Lemma done_no_step : forall b i sh gh p, prod_done p = true -> prod_step b i sh gh p = None.
Proof.
  intros b i sh gh p H. unfold prod_done in H. unfold prod_step.
  destruct (p_pc p); try discriminate. destruct (p_prog p); [reflexivity|discriminate].
Qed.

Lemma lock_free_set_lk_none : forall sh, lock_free (set_lk sh None) = true. Proof. reflexivity. Qed.

Lemma mutex_free_wsec : forall s, Inv1 s -> lock_free (c_sh s) = true ->
  wsec (c_w s) = 0 /\ msec (c_m s) = 0 /\ psum fsec (c_prods s) = 0.
Proof.
  intros s I L. pose proof (i_mutex s I) as M. rewrite L in M.
  pose proof (psum_nonneg fsec (c_prods s) fsec_nonneg).
  assert (0 <= wsec (c_w s)) by (destruct (c_w s); cbn; lia).
  assert (0 <= msec (c_m s)) by (destruct (c_m s); cbn; lia). lia.
Qed.

Lemma mutex_held : forall s, Inv1 s -> 1 <= wsec (c_w s) + msec (c_m s) + psum fsec (c_prods s) ->
  lock_free (c_sh s) = false /\ wsec (c_w s) + msec (c_m s) + psum fsec (c_prods s) = 1.
Proof.
  intros s I H. pose proof (i_mutex s I) as M. destruct (lock_free (c_sh s)); [lia|]. split; [reflexivity|exact M].
Qed.

Definition with_worker (s : cstate) (sh : shared) (gh : ghost) (w : wpc) : cstate :=
  {| c_sh := sh; c_gh := gh; c_w := w; c_mprog := c_mprog s; c_m := c_m s; c_prods := c_prods s |}.

Lemma pop_section_cases : forall sh gh,
  match q sh with
  | [] => pop_section sh gh = (sh, set_err gh EPopEmpty, WUnlock)
  | m :: r => exists sh2 gh2 w2, pop_section sh gh = (sh2, gh2, w2) /\
      q sh2 = r /\ sem sh2 = sem sh /\ flag sh2 = flag sh /\ lk sh2 = lk sh /\ en sh2 = en sh /\ closed sh2 = closed sh /\
      inlog sh2 = inlog sh /\ err gh2 = err gh /\ stopped gh2 = stopped gh /\ plog gh2 = plog gh /\
      (w2 = WWrite m /\ out gh2 = out gh \/ w2 = WUnlock /\ out gh2 = out gh ++ [(m, false)])
  end.
Proof.
  intros sh gh. unfold pop_section. destruct (q sh) as [|m r]; [reflexivity|].
  destruct (drop sh =? 0); destruct (en sh) eqn:En; eexists _, _, _; (split; [reflexivity|]); cbn;
    repeat (split; [first [reflexivity|assumption]|]); first [left; split; reflexivity | right; split; reflexivity].
Qed.

Ltac simp := cbn [c_sh c_gh c_w c_mprog c_m c_prods lk q mem drop sem flag en closed inlog plog out reported guarded skipped closes stopped err set_lk set_q set_mem set_drop set_sem set_flag set_en set_closed set_inlog add_plog add_out add_reported add_guarded add_skipped set_err set_stopped wc we wsec msec in_stop m_flagged m_posted lock_free length fst snd orb andb negb].
Tactic Notation "simp" "in" hyp(H) := cbn [c_sh c_gh c_w c_mprog c_m c_prods lk q mem drop sem flag en closed inlog plog out reported guarded skipped closes stopped err set_lk set_q set_mem set_drop set_sem set_flag set_en set_closed set_inlog add_plog add_out add_reported add_guarded add_skipped set_err set_stopped wc we wsec msec in_stop m_flagged m_posted lock_free length fst snd orb andb negb] in H.

Ltac inv1_tail s I := first [exact (i_join s I) | exact (i_done s I) | assumption | idtac].

Lemma worker_inv1 : forall s sh gh w l, Inv1 s ->
  worker_step true (c_sh s) (c_gh s) (c_w s) = Some (sh, gh, w, l) -> Inv1 (with_worker s sh gh w).
Proof.
  intros s sh gh w l I H.
  assert (NS : stopped (c_gh s) = false).
  { destruct (stopped (c_gh s)) eqn:E; [|reflexivity]. destruct (i_stopped s I E) as [W _]. rewrite W in H. discriminate. }
  pose proof (psum_nonneg fpost (c_prods s) fpost_nonneg) as PN.
  pose proof (i_tok s I) as T. pose proof (i_mutex s I) as M. pose proof (i_flag s I) as F.
  pose proof (i_sem s I) as S0. pose proof (i_done s I) as ID. rewrite NS in *. rewrite orb_false_r in *.
  unfold worker_step in H. destruct (c_w s) eqn:W; cbn [wc we wsec] in T, M.
  - (* WWait *)
    destruct (0 <? sem (c_sh s)) eqn:Z; [|discriminate]. apply Z.ltb_lt in Z. injection H as <- <- <- <-.
    constructor; unfold with_worker; simp; rewrite ?NS, ?orb_false_r; try apply I; try lia; try discriminate; auto;
      inv1_tail s I.
  - (* WLock *)
    destruct (lock_free (c_sh s)) eqn:L; [|discriminate].
    destruct (mutex_free_wsec s I L) as (M1 & M2 & M3).
    destruct (flag (c_sh s) && is_nil (q (c_sh s))) eqn:FX.
    + injection H as <- <- <- <-. apply andb_true_iff in FX. destruct FX as [Ff Fq].
      destruct (q (c_sh s)) eqn:Q; [|discriminate].
      constructor; unfold with_worker; simp; rewrite ?NS, ?orb_false_r, ?Q; try apply I; try lia; try discriminate; auto;
        inv1_tail s I.
    + pose proof (pop_section_cases (set_lk (c_sh s) (Some HWorker)) (c_gh s)) as PC. cbn [q sem flag lk en closed inlog set_lk] in PC.
      destruct (q (c_sh s)) as [|m r] eqn:Q.
      * exfalso. cbn in FX. rewrite andb_true_r in FX. rewrite FX in F. symmetry in F.
        assert (m_posted (c_m s) = false) as MP by (destruct (c_m s); cbn in *; congruence).
        rewrite MP in T. simp in T. lia.
      * destruct PC as (sh2 & gh2 & w2 & E & Q2 & S2 & F2 & L2 & _ & _ & _ & E2 & St2 & _ & WW). rewrite E in H.
        injection H as <- <- <- <-.
        assert (WE : we w2 = 0 /\ wc w2 = 0 /\ wsec w2 = 1 /\ w2 <> WGetval)
          by (destruct WW as [[-> _]|[-> _]]; cbn; repeat split; discriminate).
        destruct WE as (WE1 & WE2 & WE3 & WE4).
        constructor; unfold with_worker; cbn [c_sh c_gh c_w c_mprog c_m c_prods];
          rewrite ?Q2, ?S2, ?F2, ?E2, ?St2, ?NS, ?orb_false_r, ?WE1, ?WE2, ?WE3;
          try apply I; try lia; try discriminate; auto; inv1_tail s I.
        -- simp in T. change (length (m :: r)) with (S (length r)) in T. lia.
        -- unfold lock_free. rewrite L2. lia.
  - (* WGetval *) exfalso. exact (i_nogv s I W).
  - (* WWrite *)
    injection H as <- <- <- <-.
    constructor; unfold with_worker; simp; rewrite ?NS, ?orb_false_r; try apply I; try lia; try discriminate; auto;
      inv1_tail s I.
  - (* WUnlock *)
    injection H as <- <- <- <-.
    assert (H : 1 <= wsec (c_w s) + msec (c_m s) + psum fsec (c_prods s)).
    { rewrite W. simp. pose proof (psum_nonneg fsec (c_prods s) fsec_nonneg). destruct (c_m s); simp; lia. }
    destruct (mutex_held s I H) as [_ M1]. rewrite W in M1. simp in M1.
    constructor; unfold with_worker; simp; rewrite ?NS, ?orb_false_r; try apply I; try lia; try discriminate; auto;
      inv1_tail s I.
  - (* WUnlockExit *)
    injection H as <- <- <- <-.
    assert (H : 1 <= wsec (c_w s) + msec (c_m s) + psum fsec (c_prods s)).
    { rewrite W. simp. pose proof (psum_nonneg fsec (c_prods s) fsec_nonneg). destruct (c_m s); simp; lia. }
    destruct (mutex_held s I H) as [_ M1]. rewrite W in M1. simp in M1.
    pose proof (i_exit s I) as X. rewrite W in X. specialize (X eq_refl).
    constructor; unfold with_worker; simp; rewrite ?NS, ?orb_false_r; try apply I; try lia; try discriminate; auto;
      inv1_tail s I.
  - (* WExit *)
    injection H as <- <- <- <-.
    pose proof (i_exit s I) as X. rewrite W in X. specialize (X eq_refl).
    constructor; unfold with_worker; simp; rewrite ?NS, ?orb_false_r; try apply I; try lia; try discriminate; auto;
      inv1_tail s I.
  - discriminate.
Qed.

Definition with_prod (s : cstate) (sh : shared) (gh : ghost) (i : nat) (p' : prod) : cstate :=
  {| c_sh := sh; c_gh := gh; c_w := c_w s; c_mprog := c_mprog s; c_m := c_m s; c_prods := upd_prod (c_prods s) i p' |}.

Ltac fin_prod :=
  match goal with
  | I : Inv1 ?s, NS : stopped (c_gh ?s) = false, NP : m_posted (c_m ?s) = false, NF : m_flagged (c_m ?s) = false,
    NI : in_stop (c_m ?s) = false, UP : psum fpost (upd_prod _ _ _) = _, US : psum fsec (upd_prod _ _ _) = _, F1 : fpost _ = _, F2 : fsec _ = _ |- _ =>
      constructor; unfold with_prod; simp; rewrite ?NS, ?NP, ?NF, ?NI, ?UP, ?US, ?F1, ?F2, ?app_length;
      cbn [fpost fsec p_pc at_ppc length orb]; unfold lock_free in *; simp;
      try apply I; try lia; try discriminate; try (intro; exfalso; auto; fail); auto
  end.

Lemma prod_inv1 : forall s i p sh gh p' l, Inv1 s -> nth_error (c_prods s) i = Some p ->
  prod_step true i (c_sh s) (c_gh s) p = Some (sh, gh, p', l) -> Inv1 (with_prod s sh gh i p').
Proof.
  intros s i p sh gh p' l I Hn H.
  assert (ND : prod_done p = false).
  { destruct (prod_done p) eqn:E; [|reflexivity]. rewrite (done_no_step _ _ _ _ _ E) in H. discriminate. }
  assert (NSt : in_stop (c_m s) || stopped (c_gh s) = false).
  { destruct (in_stop (c_m s) || stopped (c_gh s)) eqn:E; [|reflexivity].
    rewrite (i_done s I E i p Hn) in ND. discriminate. }
  apply orb_false_iff in NSt. destruct NSt as [NI NS].
  assert (NF : m_flagged (c_m s) = false) by (destruct (c_m s); cbn in *; congruence).
  assert (NP : m_posted (c_m s) = false) by (destruct (c_m s); cbn in *; congruence).
  pose proof (i_flag s I) as F. rewrite NF, NS in F. simp in F.
  assert (NE : we (c_w s) = 1 -> False).
  { intro E. destruct (i_exit s I E) as [_ X]. congruence. }
  pose proof (i_tok s I) as T. rewrite NP, NS in T. simp in T.
  pose proof (i_mutex s I) as M. pose proof (i_sem s I) as S0.
  pose proof (psum_upd fpost _ _ _ p' Hn) as UP. pose proof (psum_upd fsec _ _ _ p' Hn) as US.
  assert (J : forall k, c_m s = MJoin k -> forall j p0, (j < k)%nat ->
              nth_error (upd_prod (c_prods s) i p') j = Some p0 -> prod_done p0 = true).
  { intros k Hk j p0 Hj Hp. destruct (Nat.eq_dec i j) as [->|Ne].
    - rewrite (i_join s I k Hk j p Hj Hn) in ND. discriminate.
    - rewrite nth_upd_other in Hp by exact Ne. exact (i_join s I k Hk j p0 Hj Hp). }
  assert (St : stopped (c_gh s) = true -> c_w s = WDone /\ c_m s = MIdle /\ c_mprog s = []) by (rewrite NS; discriminate).
  unfold prod_step in H. destruct (p_pc p) eqn:PC.
  - (* PIdle *)
    destruct (p_prog p) as [|len rest] eqn:PR; [discriminate|].
    assert (F0 : fpost p = 0 /\ fsec p = 0) by (unfold fpost, fsec; rewrite PC; auto). destruct F0 as [F1 F2].
    cbn [negb andb] in H; destruct (en (c_sh s)); injection H as <- <- <- <-; fin_prod.
  - (* PLock *)
    destruct (lock_free (c_sh s)) eqn:L; [|discriminate].
    destruct (mutex_free_wsec s I L) as (M1 & M2 & M3).
    assert (F0 : fpost p = 0 /\ fsec p = 0) by (unfold fpost, fsec; rewrite PC; auto). destruct F0 as [F1 F2].
    destruct (LOGT_LIMIT <? mem (c_sh s) + msg_total m); injection H as <- <- <- <-; fin_prod.
  - (* PUnlock *)
    assert (F2 : fsec p = 1) by (unfold fsec; rewrite PC; auto).
    assert (H1 : 1 <= wsec (c_w s) + msec (c_m s) + psum fsec (c_prods s)).
    { pose proof (psum_nonneg fsec (c_prods s) fsec_nonneg).
      assert (fsec p <= psum fsec (c_prods s)).
      { clear -Hn. revert i Hn. induction (c_prods s) as [|a r IH]; intros i Hn; destruct i; cbn in *; try discriminate.
        - injection Hn as ->. pose proof (psum_nonneg fsec r fsec_nonneg). lia.
        - specialize (IH _ Hn). pose proof (fsec_nonneg a). lia. }
      destruct (c_w s); destruct (c_m s); simp; lia. }
    destruct (mutex_held s I H1) as [L M1].
    destruct acc.
    + assert (F1 : fpost p = 1) by (unfold fpost; rewrite PC; auto). injection H as <- <- <- <-. fin_prod.
    + assert (F1 : fpost p = 0) by (unfold fpost; rewrite PC; auto). injection H as <- <- <- <-. fin_prod.
  - (* PPost *)
    assert (F0 : fpost p = 1 /\ fsec p = 0) by (unfold fpost, fsec; rewrite PC; auto). destruct F0 as [F1 F2].
    injection H as <- <- <- <-. fin_prod.
Qed.

Lemma close_cb_quiet : forall sh gh w, in_write w = false ->
  exists sh2 gh2, close_cb sh gh w = (sh2, gh2) /\ lk sh2 = lk sh /\ q sh2 = q sh /\ sem sh2 = sem sh /\
    flag sh2 = flag sh /\ err gh2 = err gh /\ stopped gh2 = stopped gh.
Proof. intros sh gh w H. unfold close_cb. rewrite H. eexists _, _. repeat split. Qed.

Lemma wsec0_not_write : forall w, wsec w = 0 -> in_write w = false.
Proof. destruct w; cbn; intros; try reflexivity; lia. Qed.

Lemma nth_done_true : forall l k p, nth_done l k = true -> nth_error l k = Some p -> prod_done p = true.
Proof. intros l k p H E. unfold nth_done in H. rewrite E in H. exact H. Qed.

Ltac useI s I :=
  first [exact (i_err s I) | exact (i_sem s I) | exact (i_join s I) | exact (i_done s I) | exact (i_exit s I)
        | exact (i_stopped s I) | exact (i_nogv s I) | exact (i_prog s I)].

Ltac fin_main :=
  match goal with
  | I : Inv1 ?s |- _ =>
      constructor; simp; unfold lock_free in *; simp;
      try useI s I; try lia; try discriminate; try assumption; try congruence; try (intro; exfalso; auto; fail); auto
  end.

Lemma main_inv1 : forall s s' l, Inv1 s -> main_step true s = Some (s', l) -> Inv1 s'.
Proof.
  intros s s' l I H.
  pose proof (psum_nonneg fpost (c_prods s) fpost_nonneg) as PN.
  pose proof (psum_nonneg fsec (c_prods s) fsec_nonneg) as SN.
  pose proof (i_tok s I) as T. pose proof (i_mutex s I) as M. pose proof (i_flag s I) as F.
  pose proof (i_sem s I) as S0. pose proof (i_exit s I) as X. pose proof (i_join s I) as J.
  pose proof (i_done s I) as D. pose proof (i_prog s I) as PR. pose proof (i_nogv s I) as NG.
  assert (W0 : 0 <= wsec (c_w s)) by (destruct (c_w s); simp; lia).
  unfold main_step in H. destruct (c_m s) eqn:CM.
  - (* MIdle *)
    assert (NS : stopped (c_gh s) = false).
    { destruct (stopped (c_gh s)) eqn:E; [|reflexivity]. destruct (i_stopped s I E) as (_ & _ & P). rewrite P in H. discriminate. }
    rewrite NS in *. simp in T. simp in F. simp in M.
    destruct (c_mprog s) as [|[b| |] rest] eqn:MP; [discriminate| | |].
    + destruct (closed (c_sh s)); injection H as <- <-; fin_main; rewrite ?NS; simp; auto; try discriminate.
    + destruct (closed (c_sh s)); injection H as <- <-; fin_main; rewrite ?NS; simp; auto; try discriminate.
    + destruct (c_prods s) eqn:CP; injection H as <- <-; fin_main; rewrite ?NS, ?CP in *; simp; auto; try discriminate.
      * intros _ j0 p0 Hj. destruct j0; discriminate.
      * intros k0 Hk j0 p0 Hj. injection Hk as <-. lia.
  - (* MCtlLock *)
    assert (NS : stopped (c_gh s) = false).
    { destruct (stopped (c_gh s)) eqn:E; [|reflexivity]. destruct (i_stopped s I E) as (_ & P & _). congruence. }
    rewrite NS in *. simp in T. simp in F. simp in M.
    destruct (lock_free (c_sh s)) eqn:L; [|discriminate].
    assert (M1 : wsec (c_w s) = 0 /\ psum fsec (c_prods s) = 0) by lia. destruct M1 as [M1 M3].
    pose proof (wsec0_not_write _ M1) as NW.
    destruct b.
    + injection H as <- <-. fin_main; rewrite ?NS; simp; auto; try discriminate.
    + destruct (en (c_sh s)).
      * destruct (close_cb_quiet (set_en (set_lk (c_sh s) (Some HMain)) false) (c_gh s) (c_w s) NW)
          as (sh2 & gh2 & E & C1 & C2 & C3 & C4 & C5 & C6). rewrite E in H. simp in C1. simp in C2. simp in C3. simp in C4.
        injection H as <- <-. fin_main; rewrite ?C1, ?C2, ?C3, ?C4, ?C5, ?C6, ?NS; simp; try (match goal with I : Inv1 ?s |- _ => useI s I end); auto; try lia; try discriminate; try congruence.
      * injection H as <- <-. fin_main; rewrite ?NS; simp; auto; try discriminate.
  - (* MCloseLock *)
    assert (NS : stopped (c_gh s) = false).
    { destruct (stopped (c_gh s)) eqn:E; [|reflexivity]. destruct (i_stopped s I E) as (_ & P & _). congruence. }
    rewrite NS in *. simp in T. simp in F. simp in M.
    destruct (lock_free (c_sh s)) eqn:L; [|discriminate].
    assert (M1 : wsec (c_w s) = 0 /\ psum fsec (c_prods s) = 0) by lia. destruct M1 as [M1 M3].
    pose proof (wsec0_not_write _ M1) as NW.
    destruct (close_cb_quiet (set_lk (c_sh s) (Some HMain)) (c_gh s) (c_w s) NW)
      as (sh2 & gh2 & E & C1 & C2 & C3 & C4 & C5 & C6). rewrite E in H. simp in C1. simp in C2. simp in C3. simp in C4.
    injection H as <- <-. fin_main; rewrite ?C1, ?C2, ?C3, ?C4, ?C5, ?C6, ?NS; simp; try (match goal with I : Inv1 ?s |- _ => useI s I end); auto; try lia; try discriminate; try congruence.
  - (* MUnlock *)
    assert (NS : stopped (c_gh s) = false).
    { destruct (stopped (c_gh s)) eqn:E; [|reflexivity]. destruct (i_stopped s I E) as (_ & P & _). congruence. }
    rewrite NS in *. simp in T. simp in F. simp in M.
    assert (H1 : 1 <= wsec (c_w s) + msec (c_m s) + psum fsec (c_prods s)) by (rewrite CM; simp; lia).
    destruct (mutex_held s I H1) as [L M1]. rewrite CM in M1. simp in M1.
    injection H as <- <-. fin_main; rewrite ?NS; simp; auto; try discriminate.
  - (* MJoin *)
    assert (NS : stopped (c_gh s) = false).
    { destruct (stopped (c_gh s)) eqn:E; [|reflexivity]. destruct (i_stopped s I E) as (_ & P & _). congruence. }
    rewrite NS in *. simp in T. simp in F. simp in M.
    destruct (nth_done (c_prods s) k) eqn:ND; [|discriminate].
    destruct (Nat.ltb (S k) (length (c_prods s))) eqn:LT; injection H as <- <-; fin_main; rewrite ?NS; simp; auto; try discriminate.
    + intros k' Hk j p Hj Hp. injection Hk as <-.
      destruct (Nat.eq_dec j k) as [->|Ne]; [eapply nth_done_true; eassumption|].
      eapply (J k eq_refl j); [lia|exact Hp].
    + intros _ j p Hp. apply Nat.ltb_ge in LT.
      assert (j < length (c_prods s))%nat by (apply nth_error_Some; congruence).
      destruct (Nat.eq_dec j k) as [->|Ne]; [eapply nth_done_true; eassumption|].
      eapply (J k eq_refl j); [lia|exact Hp].
  - (* MStopLock *)
    assert (NS : stopped (c_gh s) = false).
    { destruct (stopped (c_gh s)) eqn:E; [|reflexivity]. destruct (i_stopped s I E) as (_ & P & _). congruence. }
    rewrite NS in *. simp in T. simp in F. simp in M.
    destruct (lock_free (c_sh s)) eqn:L; [|discriminate].
    assert (NX : we (c_w s) = 1 -> False) by (intro E; destruct (X E); congruence).
    injection H as <- <-. fin_main; rewrite ?NS; simp; auto; try discriminate.
  - (* MStopUnlock *)
    assert (NS : stopped (c_gh s) = false).
    { destruct (stopped (c_gh s)) eqn:E; [|reflexivity]. destruct (i_stopped s I E) as (_ & P & _). congruence. }
    rewrite NS in *. simp in T. simp in F. simp in M.
    assert (H1 : 1 <= wsec (c_w s) + msec (c_m s) + psum fsec (c_prods s)) by (rewrite CM; simp; lia).
    destruct (mutex_held s I H1) as [L M1]. rewrite CM in M1. simp in M1.
    injection H as <- <-. fin_main; rewrite ?NS; simp; auto; try discriminate.
  - (* MStopPost *)
    assert (NS : stopped (c_gh s) = false).
    { destruct (stopped (c_gh s)) eqn:E; [|reflexivity]. destruct (i_stopped s I E) as (_ & P & _). congruence. }
    rewrite NS in *. simp in T. simp in F. simp in M.
    injection H as <- <-. fin_main; rewrite ?NS; simp; auto; try discriminate.
  - (* MStopJoin *)
    assert (NS : stopped (c_gh s) = false).
    { destruct (stopped (c_gh s)) eqn:E; [|reflexivity]. destruct (i_stopped s I E) as (_ & P & _). congruence. }
    rewrite NS in *. simp in T. simp in F. simp in M.
    destruct (c_w s) eqn:CW; try discriminate.
    destruct (en (c_sh s)).
    + destruct (close_cb_quiet (set_en (c_sh s) false) (c_gh s) WDone eq_refl)
        as (sh2 & gh2 & E & C1 & C2 & C3 & C4 & C5 & C6). rewrite E in H. simp in C1. simp in C2. simp in C3. simp in C4.
      injection H as <- <-. fin_main; rewrite ?C1, ?C2, ?C3, ?C4, ?C5, ?C6, ?NS; simp; try (match goal with I : Inv1 ?s |- _ => useI s I end); auto; try lia; try discriminate; try congruence.
    + injection H as <- <-. fin_main; rewrite ?NS; simp; auto; try discriminate.
Qed.

Lemma inv1_step : forall s tid, Inv1 s -> Inv1 (cstep' true s tid).
Proof.
  intros s tid I. unfold cstep', cstep. destruct tid as [|[|i]].
  - destruct (main_step true s) as [[s' l]|] eqn:E; [|exact I]. eapply main_inv1; eassumption.
  - destruct (worker_step true (c_sh s) (c_gh s) (c_w s)) as [[[[sh gh] w] l]|] eqn:E; [|exact I].
    exact (worker_inv1 s sh gh w l I E).
  - destruct (nth_error (c_prods s) i) as [p|] eqn:Hn; [|exact I].
    destruct (prod_step true i (c_sh s) (c_gh s) p) as [[[[sh gh] p'] l]|] eqn:E; [|exact I].
    exact (prod_inv1 s i p sh gh p' l I Hn E).
Qed.

Lemma inv1_exec : forall sched s, Inv1 s -> Inv1 (exec true sched s).
Proof. induction sched as [|t r IH]; intros s I; [exact I|]. cbn. apply IH. apply inv1_step. exact I. Qed.

Lemma inv1_reach : forall mprog progs sched, Inv1 (exec true sched (cinit mprog progs)).
Proof. intros. apply inv1_exec. apply inv1_init. Qed.

(* no schedule reaches an error state: the worker never takes a record off an empty list, and a close
   callback never runs while the worker is inside the logger callback *)
Lemma conc_no_error : forall mprog progs sched, c_error (exec true sched (cinit mprog progs)) = false.
Proof. intros. unfold c_error. rewrite (i_err _ (inv1_reach mprog progs sched)). reflexivity. Qed.

(* when qb_log_fini has returned the worker has exited and the list is empty *)
Lemma conc_stop_drained : forall mprog progs sched, let s := exec true sched (cinit mprog progs) in
  stopped (c_gh s) = true -> c_w s = WDone /\ q (c_sh s) = [] /\ all_prods_done (c_prods s).
Proof.
  intros mprog progs sched s H. pose proof (inv1_reach mprog progs sched) as I. fold s in I.
  destruct (i_stopped s I H) as (W & _ & _). split; [exact W|]. split.
  - apply (i_exit s I). rewrite W. reflexivity.
  - apply (i_done s I). rewrite H. apply orb_true_r.
Qed.

(* the lock is held by at most one thread, and only between its lock and unlock steps *)
Lemma conc_mutex : forall mprog progs sched, let s := exec true sched (cinit mprog progs) in
  wsec (c_w s) + msec (c_m s) + psum fsec (c_prods s) = (if lock_free (c_sh s) then 0 else 1).
Proof. intros. apply i_mutex. apply inv1_reach. Qed.
