(* C11: the logging blackbox on top of the overwrite ring.  No proofs in this file.

   Transcribed from lib/log_blackbox.c:
     _blackbox_vlogger                 bb_vlogger   (reserve header + function + max_line_length, fill, commit actual)
     qb_log_blackbox_write_to_file +
     qb_log_blackbox_print_from_file   bb_dump      (dump, qb_rb_create_from_file, qb_rb_chunk_read until it fails)
     the field parsing of qb_log_blackbox_print_from_file (new-format header: have_timespecs = 1)   bb_decode
   The code modelled is the tree WITH fixes/C11-blackbox-fallback-reserve.patch (the "message too long" notice is
   serialised with limit QB_MIN(max_line_length, QB_LOG_MAX_LEN)); the unrepaired limit is bb_fallback_limit_unfixed.

   Oracle (DESIGN.md section 3): qb_vsnprintf_serialize.  A log call carries what the serializer answered on the
   implementation run: len1 = return value of the first call (limit max_line_length) with the bytes m1 it left in the
   chunk, and m2 = the bytes of the second call (the notice), used only when len1 >= max_line_length.  The serializer
   itself is C14's subject; here only its contract "at most `limit' bytes" matters (BbProofs.ser_ok).
   The time stamp (struct timespec, raw bytes) is an argument of _blackbox_vlogger. *)
From Coq Require Import ZArith List Bool.
Import ListNotations.
Require Import Verif.gen.Consts_rb Verif.gen.Consts_rbow Verif.RbModel Verif.RbSpec Verif.RbOwSpec.
Local Open Scope Z_scope.

(* memcpy(chunk, &u32, 4) on a little-endian machine *)
Definition le32 (v : Z) : list Z := [v mod 256; (v / 256) mod 256; (v / 65536) mod 256; (v / 16777216) mod 256].
Definition de32 (l : list Z) : Z := nth 0 l 0 + 256 * nth 1 l 0 + 65536 * nth 2 l 0 + 16777216 * nth 3 l 0.

Record bbrec := { r_lineno : Z; r_tags : Z; r_prio : Z;
                  r_fn : list Z;          (* cs->function including the terminating NUL: fn_size bytes *)
                  r_ts : list Z;          (* struct timespec, raw bytes *)
                  r_msg : list Z }.       (* serialised message: msg_len bytes *)

Definition with_msg (r : bbrec) (m : list Z) : bbrec :=
  {| r_lineno := r_lineno r; r_tags := r_tags r; r_prio := r_prio r; r_fn := r_fn r; r_ts := r_ts r; r_msg := m |}.

(* the chunk _blackbox_vlogger builds: lineno, tags, priority, fn_size, function, timestamp, msg_len, message *)
Definition bb_encode (r : bbrec) : list Z :=
  le32 (r_lineno r) ++ le32 (r_tags r) ++ [r_prio r mod 256] ++ le32 (zlen (r_fn r)) ++ r_fn r ++ r_ts r ++
  le32 (zlen (r_msg r)) ++ r_msg r.

(* actual_size before the message: 4 * sizeof(uint32_t) + sizeof(uint8_t) + fn_size + sizeof(struct timespec) *)
Definition bb_fixed : Z := 4 * BBO_SIZEOF_U32 + BBO_SIZEOF_U8 + BBO_SIZEOF_TIMESPEC.
(* max_size = actual_size + t->max_line_length *)
Definition bb_reserve (maxline : Z) (fn : list Z) : Z := bb_fixed + zlen fn + maxline.

(* limit handed to the second qb_vsnprintf_serialize call *)
Definition bb_fallback_limit (maxline : Z) : Z := Z.min maxline BBO_LOG_MAX_LEN.
Definition bb_fallback_limit_unfixed (maxline : Z) : Z := BBO_LOG_MAX_LEN.

(* if (msg_len >= t->max_line_length) { second call } *)
Definition bb_uses_fallback (maxline len1 : Z) : bool := maxline <=? len1.
Definition bb_msg (maxline len1 : Z) (m1 m2 : list Z) : list Z :=
  if bb_uses_fallback maxline len1 then m2 else m1.

(* the (reservation, chunk) pair one log call hands to qb_rb_chunk_alloc / qb_rb_chunk_commit *)
Definition bb_wchunk (maxline : Z) (r : bbrec) : wchunk := (bb_reserve maxline (r_fn r), bb_encode r).

(* ------------------------------------------------------------------ the blackbox target *)
(* t->instance: None once the blackbox has closed itself ("Blackbox allocation error, aborting") *)
Definition bbst := option rb.

(* qb_log_blackbox_open: qb_rb_open(filename, size, CREATE | OVERWRITE, 0)  (default notifier: semaphore) *)
Definition bb_open (size : Z) : bbst := Some (rb_open size false true).

Inductive bbop :=
| BLog (maxline : Z) (hdr : bbrec) (len1 : Z) (m1 m2 : list Z)   (* r_msg of hdr is ignored *)
| BDump (n : Z).                                                   (* n = the reader's buffer size (2 * QB_LOG_MAX_LEN) *)

Inductive bbout :=
| BoLog (rlen : Z) (limit2 : option Z) (r : Z) (chunk : list Z)    (* alloc(rlen); [second serialize limit]; commit = r, bytes *)
| BoAbort (rlen : Z) (e : Z)                                       (* alloc failed with errno e: blackbox closed *)
| BoClosed                                                         (* t->instance == NULL: nothing happens / -ENOENT *)
| BoDump (chunks : list chunk)
| BoFuel.

Definition bb_vlogger (b : rb) (maxline : Z) (hdr : bbrec) (len1 : Z) (m1 m2 : list Z) : bbst * bbout :=
  let rlen := bb_reserve maxline (r_fn hdr) in
  let chunk := bb_encode (with_msg hdr (bb_msg maxline len1 m1 m2)) in
  let lim2 := if bb_uses_fallback maxline len1 then Some (bb_fallback_limit maxline) else None in
  match alloc b rlen with
  | AFuel => (Some b, BoFuel)
  | AErr b1 e => (None, BoAbort rlen e)
  | AOk b1 p =>
      let m := write_bytes (data b1) (4 * rW b1) (4 * p) chunk in
      let '(b2, r) := commit (set_data b1 m) (zlen chunk) in
      (Some b2, BoLog rlen lim2 r chunk)
  end.

Definition bb_dump (b : rb) (n : Z) : list chunk := readback b n.

Definition bb_step (st : bbst) (o : bbop) : bbst * bbout :=
  match st with
  | None => (None, BoClosed)
  | Some b =>
      match o with
      | BLog maxline hdr len1 m1 m2 => bb_vlogger b maxline hdr len1 m1 m2
      | BDump n => (Some b, BoDump (bb_dump b n))
      end
  end.

Fixpoint bb_run (st : bbst) (ops : list bbop) : bbst * list bbout :=
  match ops with
  | [] => (st, [])
  | o :: t => let '(st1, x) := bb_step st o in let '(st2, xs) := bb_run st1 t in (st2, x :: xs)
  end.

(* ------------------------------------------------------------------ reading a record back *)
Definition take (n : Z) (l : list Z) : list Z * list Z := (firstn (Z.to_nat n) l, skipn (Z.to_nat n) l).

(* qb_log_blackbox_print_from_file, one chunk: None = "Corrupt file" *)
Definition bb_decode (c : list Z) : option bbrec :=
  let bytes_read := zlen c in
  if bytes_read <? BBO_MIN_ENTRY_SIZE then None else
  let '(w1, c1) := take BBO_SIZEOF_U32 c in
  let '(w2, c2) := take BBO_SIZEOF_U32 c1 in
  let '(p, c3) := take BBO_SIZEOF_U8 c2 in
  let '(w3, c4) := take BBO_SIZEOF_U32 c3 in
  let fn_size := de32 w3 in
  if bytes_read <? fn_size + BBO_MIN_ENTRY_SIZE then None else
  if fn_size <=? 0 then None else
  let '(fn, c5) := take fn_size c4 in
  let '(ts, c6) := take BBO_SIZEOF_TIMESPEC c5 in
  let '(w4, c7) := take BBO_SIZEOF_U32 c6 in
  let msg_len := de32 w4 in
  if (BBO_LOG_MAX_LEN <? msg_len) || (msg_len <=? 0) then None else
  let '(msg, _) := take msg_len c7 in
  Some {| r_lineno := de32 w1; r_tags := de32 w2; r_prio := nth 0 p 0; r_fn := fn; r_ts := ts; r_msg := msg |}.

(* ------------------------------------------------------------------ sequences of log calls *)
Record logcall := { lc_hdr : bbrec; lc_len1 : Z; lc_m1 : list Z; lc_m2 : list Z }.

(* the record a log call stores *)
Definition lc_rec (maxline : Z) (c : logcall) : bbrec :=
  with_msg (lc_hdr c) (bb_msg maxline (lc_len1 c) (lc_m1 c) (lc_m2 c)).

Definition lc_op (maxline : Z) (c : logcall) : bbop := BLog maxline (lc_hdr c) (lc_len1 c) (lc_m1 c) (lc_m2 c).

(* ------------------------------------------------------------------ for the model runner *)
(* conf[i].max_line_length = QB_LOG_MAX_LEN unless QB_LOG_CONF_MAX_LINE_LEN was set *)
Definition bb_default_maxline : Z := BBO_LOG_MAX_LEN.
(* return value of qb_log_blackbox_write_to_file: blackbox header + five ring header words + the data area *)
Definition bb_dump_file_size (st : bbst) : Z :=
  match st with
  | Some b => BBO_FILE_HEADER_SIZE + 5 * BBO_SIZEOF_U32 + BBO_SIZEOF_U32 * rW b
  | None => - BBO_ENOENT
  end.
Definition bb_timespec_size : Z := BBO_SIZEOF_TIMESPEC.
