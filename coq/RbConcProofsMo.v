(* C01: what stands behind the comparison of memory orders in the trace check.

   NOT a weak-memory proof: the semantics of RbConcModel.v is sequential consistency.  What is proved here are
   statements about the PROGRAM ORDER of the two micro-step programs, the shape a release/acquire argument needs:
     - every marker word is loaded with ACQUIRE and stored with RELEASE order (all three marker values);
     - reader: every load of a size word or of a payload byte, and every store of its reclaim, is program-order-after
       an acquire load, in the same call, of the marker of that very chunk that returned QB_RB_CHUNK_MAGIC;
     - writer: every payload byte store and the size store of a call are program-order-before the release store of
       QB_RB_CHUNK_MAGIC to that chunk's marker, and the call cannot end (return) from such a point without
       performing that release store; the only store of the value MAGIC is that release store (the publishing step).
   Hence: IF the reader's acquire load reads from the writer's release store of MAGIC (as it does under SC whenever
   it returns MAGIC for a chunk that is published - RbConcProofsInv.v), all of the writer's payload/size stores
   happen-before all of the reader's payload/size loads of that chunk in the C11 sense.
   The opposite direction (the reader's loads before the writer's re-use of the space) goes through the plain
   volatile read_pt (a store by the reader, a load by the writer): no acquire/release pair is used there by the code,
   and nothing is claimed about it beyond SC. *)
From Coq Require Import ZArith List Bool Lia ZifyBool.
Import ListNotations.
Require Import Verif.gen.Consts_rb Verif.gen.Consts_rbconc Verif.RbModel Verif.RbMem Verif.RbConcModel.
Local Open Scope Z_scope.

Ltac wcases H Epc :=
  unfold wstep in H; rewrite Epc in H;
  repeat match type of H with
         | context [match ?x with _ => _ end] => destruct x eqn:?
         end;
  try discriminate; inversion H; subst; clear H.

Ltac rcases H Epc :=
  unfold rstep in H; rewrite Epc in H;
  unfold rgo, rreturn, r_fail, rc_fail, copy_done, act_wait, act_rd_rpt, act_rc_rd_rpt in H;
  repeat match type of H with
         | context [match ?x with _ => _ end] => destruct x eqn:?
         end;
  try discriminate; inversion H; subst; clear H.

(* ------------------------------------------------------------------ orders of the marker accesses *)
Lemma w_atomic_orders : forall h t r l mo, wstep h t = Some r ->
  (s_lab r = LAWr l mo -> mo = RBC_MO_RELEASE) /\ (s_lab r <> LARd l mo).
Proof.
  intros h t r l mo H. destruct (w_pc t) eqn:Epc; wcases H Epc; cbn [s_lab]; split; try discriminate;
    intro E; inversion E; reflexivity.
Qed.

Lemma r_atomic_orders : forall h t r l mo, rstep h t = Some r ->
  (s_lab r = LAWr l mo -> mo = RBC_MO_RELEASE) /\ (s_lab r = LARd l mo -> mo = RBC_MO_ACQUIRE).
Proof.
  intros h t r l mo H. destruct (r_pc t) eqn:Epc; rcases H Epc; cbn [s_lab]; split; try discriminate;
    intro E; inversion E; reflexivity.
Qed.

(* ------------------------------------------------------------------ reader: use after acquire *)
(* the chunk (by the word index of its header) whose marker the reader has acquire-loaded as MAGIC in this call *)
Definition r_acquired (p : rpc) : option Z :=
  match p with
  | RRdSize rp | RCopy rp _ => Some rp
  | RcRdSize1 old | RcRdSize2 old | RcSt0 old _ | RcStDead old _ | RcStRpt old _ => Some old
  | _ => None
  end.

(* (a) what a reader step touches in the data area, it touches at an "acquired" pc, and it belongs to that chunk:
   its size word, its marker, or a payload byte address computed from its data pointer *)
Lemma r_data_access_after_acquire : forall h t r, rstep h t = Some r ->
  match s_lab r with
  | LRd (DW i) | LWr (DW i) => r_acquired (r_pc t) = Some i
  | LRdB a => exists rp k, r_acquired (r_pc t) = Some rp /\ r_pc t = RCopy rp k /\
                           a = (4 * ((rp + RB_CHUNK_HEADER_WORDS) mod hW h) + k) mod (4 * hW h)
  | LAWr (DW i) _ => exists old, r_acquired (r_pc t) = Some old /\ i = (old + 1) mod hW h
  | LWrB _ => False
  | _ => True
  end.
Proof.
  intros h t r H. destruct (r_pc t) eqn:Epc; rcases H Epc; cbn [s_lab r_acquired]; eauto.
Qed.

(* (b) an "acquired" pc is entered only by the acquire load of that chunk's marker returning MAGIC, and is left only
   towards another pc acquired for the same chunk or by ending / abandoning the call: so, by induction along the
   reader's own steps from the start of the call (r_acquired RCall = None), every data access of (a) is
   program-order-after such a load in the same call *)
Lemma r_acquire_entry : forall h t r rp, rstep h t = Some r -> r_acquired (r_pc (s_t r)) = Some rp ->
  r_acquired (r_pc t) = Some rp \/
  (s_lab r = LARd (DW ((rp + 1) mod hW h)) RBC_MO_ACQUIRE /\ ldw (hmem h) ((rp + 1) mod hW h) = RB_CHUNK_MAGIC /\
   s_ret r = None).
Proof.
  intros h t r rp H Ha. destruct (r_pc t) eqn:Epc; rcases H Epc; cbn [s_t s_lab s_ret r_at r_ret r_pc r_acquired] in *;
    try discriminate; try (left; assumption); try (inversion Ha; subst); auto.
  all: right; repeat split; try reflexivity; lia.
Qed.

Lemma r_call_start_not_acquired : r_acquired RCall = None /\ r_acquired RStart = None.
Proof. split; reflexivity. Qed.

(* ------------------------------------------------------------------ writer: fill before release *)
(* the chunk the writer is filling and has not published yet *)
Definition w_filling (p : wpc) : option Z :=
  match p with
  | WStSize0 wp | WStAlloc wp | WCopy wp _ _ => Some wp
  | WStSize old | WRdSize old | WStWpt old _ | WStMagic old => Some old
  | _ => None
  end.
Definition w_filling_any (p : wpc) : bool :=
  match p with WRdWpt3 => true | _ => match w_filling p with Some _ => true | None => false end end.

(* (a) every store of the writer into the data area happens while it is filling (before the publishing store), to the
   chunk being filled: its size word, its marker, or a payload byte computed from its data pointer *)
Lemma w_data_store_before_release : forall h t r, wstep h t = Some r ->
  match s_lab r with
  | LWr (DW i) => w_filling (w_pc t) = Some i
  | LWrB a => exists wp k rest, w_pc t = WCopy wp k rest /\
                                a = (4 * ((wp + RB_CHUNK_HEADER_WORDS) mod hW h) + k) mod (4 * hW h)
  | LAWr (DW i) _ => exists wp, w_filling (w_pc t) = Some wp /\ i = (wp + 1) mod hW h
  | LRdB _ => False
  | _ => True
  end.
Proof.
  intros h t r H. destruct (w_pc t) eqn:Epc; wcases H Epc; cbn [s_lab w_filling]; eauto.
Qed.

(* (b) from a filling pc the writer's next step stays in the filling phase of the same call, or is the release store
   of MAGIC = the publishing step; in particular the call does not return in between.  So every store of (a) is
   program-order-before the release store of MAGIC of its call. *)
Lemma w_filling_ends_in_release : forall h t r, wstep h t = Some r -> w_filling_any (w_pc t) = true ->
  (w_filling_any (w_pc (s_t r)) = true /\ s_ret r = None /\ s_gh r = GNone) \/
  (exists old, w_pc t = WStMagic old /\ s_lab r = LAWr (DW ((old + 1) mod hW h)) RBC_MO_RELEASE /\
               s_gh r = GPub (wdata t) /\ hmem (s_sh r) = stw (hmem h) ((old + 1) mod hW h) RB_CHUNK_MAGIC).
Proof.
  intros h t r H Hf. destruct (w_pc t) eqn:Epc; cbn [w_filling_any w_filling] in Hf; try discriminate; wcases H Epc;
    cbn [s_t s_ret s_gh s_lab s_sh w_at w_ret w_pc w_filling_any w_filling hmem set_mem]; auto.
  all: right; eexists; repeat split; reflexivity.
Qed.

(* (c) the value MAGIC reaches a marker word only through that publishing step: every other store of the writer to a
   marker stores ALLOC, every store of the reader to a marker stores DEAD (both different from MAGIC) *)
Lemma w_marker_values : forall h t r i mo, wstep h t = Some r -> s_lab r = LAWr (DW i) mo ->
  (hmem (s_sh r) = stw (hmem h) i RB_CHUNK_MAGIC /\ exists d, s_gh r = GPub d) \/
  (hmem (s_sh r) = stw (hmem h) i RB_CHUNK_MAGIC_ALLOC /\ s_gh r = GNone).
Proof.
  intros h t r i mo H Hl. destruct (w_pc t) eqn:Epc; wcases H Epc; cbn [s_lab s_sh s_gh hmem set_mem] in *;
    try discriminate; inversion Hl; subst; eauto.
Qed.

Lemma r_marker_values : forall h t r i mo, rstep h t = Some r -> s_lab r = LAWr (DW i) mo ->
  hmem (s_sh r) = stw (hmem h) i RB_CHUNK_MAGIC_DEAD.
Proof.
  intros h t r i mo H Hl. destruct (r_pc t) eqn:Epc; rcases H Epc; cbn [s_lab s_sh hmem set_mem] in *;
    try discriminate; inversion Hl; subst; reflexivity.
Qed.

(* ------------------------------------------------------------------ what no step writes
   The model has ONE word_size and ONE notifier mode for both threads, while the code has two handles (creator and
   opener), each reading shared_hdr->word_size through its own mapping and its own cached flags / notifier table.
   That is exact as long as nobody stores to them after qb_rb_open: in the model no step does (below); on the
   implementation the harness compares both handle structures and the rest of the shared header with copies taken
   before the run after EVERY scheduling step (harness/sched_wrap_rb.c: "c ro ..." lines, which the model never
   prints and the monitor rejects). *)
Lemma wstep_static : forall h t r, wstep h t = Some r ->
  hW (s_sh r) = hW h /\ (hsem (s_sh r) = None <-> hsem h = None) /\ hrpt (s_sh r) = hrpt h.
Proof.
  intros h t r H. destruct (w_pc t) eqn:Epc; unfold wstep in H; rewrite Epc in H; unfold post in H;
    repeat match type of H with
           | context [match ?x with _ => _ end] => destruct x eqn:?
           end;
    try discriminate; inversion H; subst; clear H; cbn [s_sh hW hsem hrpt set_mem set_wpt set_hsem];
    repeat split; auto; try congruence.
Qed.

Lemma rstep_static : forall h t r, rstep h t = Some r ->
  hW (s_sh r) = hW h /\ (hsem (s_sh r) = None <-> hsem h = None) /\ hwpt (s_sh r) = hwpt h.
Proof.
  intros h t r H. destruct (r_pc t) eqn:Epc; unfold rstep in H; rewrite Epc in H;
    unfold rgo, rreturn, r_fail, rc_fail, copy_done, act_wait, act_rd_rpt, act_rc_rd_rpt, post in H;
    repeat match type of H with
           | context [match ?x with _ => _ end] => destruct x eqn:?
           end;
    try discriminate; inversion H; subst; clear H; cbn [s_sh hW hsem hwpt set_mem set_rpt set_hsem];
    repeat split; auto; try congruence.
Qed.

(* word_size and the notifier mode never change; write_pt is stored only by the writer, read_pt only by the reader *)
Theorem step_static : forall t s s' o, step t s = Some (s', o) ->
  hW (g_sh s') = hW (g_sh s) /\ (hsem (g_sh s') = None <-> hsem (g_sh s) = None) /\
  match t with TW => hrpt (g_sh s') = hrpt (g_sh s) | TR => hwpt (g_sh s') = hwpt (g_sh s) end.
Proof.
  intros t s s' o H. unfold step in H. destruct t.
  - destruct (wstep (g_sh s) (g_w s)) as [r|] eqn:E; [|discriminate].
    destruct (apply_ghost (s_gh r) (g_pub s) (g_got s)). inversion H; subst. cbn [g_sh]. apply wstep_static with (t := g_w s); assumption.
  - destruct (rstep (g_sh s) (g_r s)) as [r|] eqn:E; [|discriminate].
    destruct (apply_ghost (s_gh r) (g_pub s) (g_got s)). inversion H; subst. cbn [g_sh]. apply rstep_static with (t := g_r s); assumption.
Qed.

Lemma mo_marker_orders : forall h l mo,
  (forall t r, wstep h t = Some r -> (s_lab r = LAWr l mo -> mo = RBC_MO_RELEASE) /\ s_lab r <> LARd l mo) /\
  (forall t r, rstep h t = Some r -> (s_lab r = LAWr l mo -> mo = RBC_MO_RELEASE) /\ (s_lab r = LARd l mo -> mo = RBC_MO_ACQUIRE)).
Proof. intros h l mo. split; intros t r H; [apply w_atomic_orders with (h := h) (t := t) | apply r_atomic_orders with (h := h) (t := t)]; assumption. Qed.

Lemma mo_marker_values : forall h i mo,
  (forall t r, wstep h t = Some r -> s_lab r = LAWr (DW i) mo ->
     (hmem (s_sh r) = stw (hmem h) i RB_CHUNK_MAGIC /\ exists d, s_gh r = GPub d) \/
     (hmem (s_sh r) = stw (hmem h) i RB_CHUNK_MAGIC_ALLOC /\ s_gh r = GNone)) /\
  (forall t r, rstep h t = Some r -> s_lab r = LAWr (DW i) mo -> hmem (s_sh r) = stw (hmem h) i RB_CHUNK_MAGIC_DEAD).
Proof. intros h i mo. split; intros t r H Hl; [eapply w_marker_values | eapply r_marker_values]; eauto. Qed.
