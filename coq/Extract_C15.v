(* Extraction of the blackbox dump-file model for C15.  ExtrOcamlBasic only; Z, positive, nat stay inductive;
   no Extract Constant. *)
From Coq Require Import ExtrOcamlBasic.
Require Import Verif.RbModel Verif.BbFileModel.
Extraction "model_C15.ml" print_from_file bb_dump enc rb_open alloc_commit records.
