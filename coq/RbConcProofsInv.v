(* C01: the invariant of the interleaving model and its preservation by every micro-step of either thread.

   Ghost coordinates: RP = logical (unwrapped) word position of the oldest unread chunk, q = the published and not
   yet consumed chunks (oldest first), L = RP + used q = logical position where the writer puts its next chunk.
   Physical word index = logical position mod W, physical byte = logical byte mod 4W (the double mapping).  All
   logical positions that matter lie in [RP, RP + W - 1], so distinct logical positions are distinct physical
   words (I1 of DESIGN.md C01). *)
From Coq Require Import ZArith List Bool Lia ZifyBool.
Import ListNotations.
Require Import Verif.gen.Consts_rb Verif.gen.Consts_rbconc Verif.RbModel Verif.RbMem Verif.RbSpec Verif.RbProofs
  Verif.RbConcModel Verif.RbConcProofs.
Local Open Scope Z_scope.

Ltac Zify.zify_post_hook ::= Z.div_mod_to_equations.

(* ------------------------------------------------------------------ stores seen through logical addresses *)
Lemma same_on_refl : forall m W4 lo hi, same_on m m W4 lo hi.
Proof. intros m W4 lo hi A HA; reflexivity. Qed.

Lemma same_on_sub : forall m m' W4 lo hi lo' hi', same_on m m' W4 lo hi -> lo <= lo' -> hi' <= hi -> same_on m m' W4 lo' hi'.
Proof. intros m m' W4 lo hi lo' hi' H Hl Hh A HA. apply H; lia. Qed.

Lemma same_on_stw : forall m W Y v lo hi, 0 < W -> (hi <= 4 * Y \/ 4 * Y + 4 <= lo) ->
  4 * Y + 4 - 4 * W <= lo -> hi <= 4 * Y + 4 * W -> same_on m (stw m (Y mod W) v) (4 * W) lo hi.
Proof. intros m W Y v lo hi HW Hout Hlo Hhi A HA. apply ld_stw_logical; lia. Qed.

Lemma same_on_st : forall m W B x lo hi, 0 < W -> (hi <= B \/ B < lo) ->
  B - 4 * W < lo -> hi <= B + 4 * W -> same_on m (st m (B mod (4 * W)) x) (4 * W) lo hi.
Proof.
  intros m W B x lo hi HW Hout Hlo Hhi A HA.
  apply ld_st_other; try (apply Z.mod_pos_bound; lia).
  intro Heq. apply mod_inj_window in Heq; lia.
Qed.

Lemma ldw_same_on : forall m m' W X lo hi, 0 < W -> same_on m m' (4 * W) lo hi -> lo <= 4 * X -> 4 * X + 4 <= hi ->
  ldw m' (X mod W) = ldw m (X mod W).
Proof.
  intros m m' W X lo hi HW Hs Hl Hh. apply ldw_ext; intros j Hj.
  rewrite byte_addr_small by lia. apply Hs; lia.
Qed.

Lemma succ_mod : forall W X, 0 < W -> (X mod W + 1) mod W = (X + 1) mod W.
Proof. intros. rewrite Zplus_mod_idemp_l. reflexivity. Qed.

(* the payload byte k of the chunk whose header is at logical position X *)
Lemma data_byte_addr : forall W X k, 0 < W ->
  (4 * ((X mod W + RB_CHUNK_HEADER_WORDS) mod W) + k) mod (4 * W) = (4 * (X + 2) + k) mod (4 * W).
Proof.
  intros W X k HW. unfold RB_CHUNK_HEADER_WORDS.
  rewrite Zplus_mod_idemp_l. apply byte_addr; assumption.
Qed.

Lemma data_byte_in_map : forall W X k len, 0 < W -> 0 <= k < len -> len <= 4 * W ->
  (4 * ((X mod W + RB_CHUNK_HEADER_WORDS) mod W) + k <? 8 * W) = true.
Proof.
  intros W X k len HW Hk Hl.
  pose proof (Z.mod_pos_bound (X mod W + RB_CHUNK_HEADER_WORDS) W HW). lia.
Qed.

Lemma inr_mod : forall W X, 0 < W -> inr W (X mod W) = true.
Proof. intros W X HW. unfold inr. pose proof (Z.mod_pos_bound X W HW). lia. Qed.

Lemma mod_neq_window : forall W X x, 0 < W -> 0 < x < W -> (X + x) mod W <> X mod W.
Proof. intros W X x HW Hx H. apply mod_inj_window in H; lia. Qed.

Lemma cw_payload : forall n, 0 <= n -> n <= 4 * (cw n - 2).
Proof. intros; unfold cw; lia. Qed.

Lemma magic_mod : RB_CHUNK_MAGIC mod two32 = RB_CHUNK_MAGIC /\ RB_CHUNK_MAGIC_ALLOC mod two32 = RB_CHUNK_MAGIC_ALLOC.
Proof. vm_compute; split; reflexivity. Qed.

(* qb_rb_space_free in ghost coordinates: u = words in use *)
Lemma free_words_logical : forall W RP u, 0 < W -> 0 <= u <= W - 1 ->
  free_words W ((RP + u) mod W) (RP mod W) = if u =? 0 then W else W - u - 1.
Proof.
  intros W RP u HW Hu. unfold free_words.
  pose proof (Z.mod_pos_bound RP W HW) as Hr.
  destruct (u =? 0) eqn:E.
  - assert (u = 0) by lia. subst u. rewrite Z.add_0_r.
    rewrite Z.ltb_irrefl. reflexivity.
  - assert (Hcase : (RP + u) mod W = RP mod W + u \/ (RP + u) mod W = RP mod W + u - W).
    { rewrite <- Zplus_mod_idemp_l.
      destruct (Z_lt_dec (RP mod W + u) W).
      - left. apply Z.mod_small; lia.
      - right. symmetry. apply (Z.mod_unique (RP mod W + u) W 1); lia. }
    destruct Hcase as [Hc|Hc]; rewrite Hc.
    + replace (RP mod W <? RP mod W + u) with true by lia. lia.
    + replace (RP mod W <? RP mod W + u - W) with false by lia.
      replace (RP mod W + u - W <? RP mod W) with true by lia. lia.
Qed.

(* the admission test of qb_rb_chunk_alloc leaves the gap: I1 *)
Lemma admission : forall W RP u len, 0 < W -> 0 <= u <= W - 1 -> 0 <= len ->
  (free_words W ((RP + u) mod W) (RP mod W) * RB_SIZEOF_WORD <? len + RB_CHUNK_MARGIN) = false ->
  u + cw len <= W - 1.
Proof.
  intros W RP u len HW Hu Hl H. rewrite free_words_logical in H by lia.
  unfold RB_SIZEOF_WORD, RB_CHUNK_MARGIN, cw in *.
  destruct (u =? 0) eqn:E; lia.
Qed.

(* ------------------------------------------------------------------ lists *)
Lemma firstn_succ_nth : forall (c : list Z) k, (k < length c)%nat -> firstn (S k) c = firstn k c ++ [nth k c 0].
Proof.
  induction c as [|x t IH]; intros k Hk; cbn [length] in Hk; [lia|].
  destruct k as [|k]; [reflexivity|].
  change (firstn (S (S k)) (x :: t)) with (x :: firstn (S k) t).
  change (firstn (S k) (x :: t)) with (x :: firstn k t).
  change (nth (S k) (x :: t) 0) with (nth k t 0).
  rewrite IH by lia. reflexivity.
Qed.

Lemma nth_middle_z : forall (a : list Z) x b, nth (Z.to_nat (zlen a)) (a ++ x :: b) 0 = x.
Proof. intros. rewrite to_nat_zlen. rewrite app_nth2 by lia. rewrite Nat.sub_diag. reflexivity. Qed.

Lemma zlen_zero_nil : forall (c : list Z), zlen c <= 0 -> c = [].
Proof. intros [|x t] H; [reflexivity|]. rewrite zlen_cons in H. pose proof (zlen_nonneg t). lia. Qed.

(* ------------------------------------------------------------------ the invariant, in parts *)
Definition sem_ok (h : shared) : Prop := match hsem h with Some c => 0 <= c | None => True end.

(* the unread chunks in memory; while the reader is between its two header-killing stores and the read_pt
   store, the header of the oldest one is (partly) destroyed *)
Definition q_in_mem (m : mem) (W RP : Z) (q : list chunk) (kill : bool) : Prop :=
  if kill then match q with [] => False | c :: q' => chunks_at m W (RP + cw (zlen c)) q' end
  else chunks_at m W RP q.

Record Core (W wpt rpt : Z) (m : mem) (RP : Z) (q : list chunk) (win pend : Z) (kill : bool) : Prop := mkCore {
  c_W : 0 < W;
  c_W32 : 4 * W <= two32;
  c_rpt : rpt = RP mod W;
  c_wpt : wpt = (RP + used q + pend) mod W;          (* write_pt is advanced before the chunk is published *)
  c_cap : used q + win <= W - 1;                     (* I1: the gap *)
  c_pend : 0 <= pend <= win;
  c_q : q_in_mem m W RP q kill }.

(* words reserved by the write in progress (from the admission test to the publishing store) *)
Definition w_win (t : wthread) : Z :=
  match w_pc t with
  | WStart | WCall | WRdRpt _ | WPost => 0
  | _ => cw (zlen (wdata t))
  end.
(* ... of which already behind write_pt *)
Definition w_pend (t : wthread) : Z := match w_pc t with WStMagic _ => cw (zlen (wdata t)) | _ => 0 end.

Definition wr_alloc (m : mem) (W L : Z) : Prop := ldw m ((L + 1) mod W) = RB_CHUNK_MAGIC_ALLOC.
Definition wr_bytes (m : mem) (W L : Z) (d : list Z) (k : Z) : Prop :=
  forall j, 0 <= j < k -> ld m ((4 * (L + 2) + j) mod (4 * W)) = nth (Z.to_nat j) d 0.
Definition wr_size (m : mem) (W L len : Z) : Prop := ldw m (L mod W) = len.

(* what the writer knows at each pc; L = logical position of the chunk being written *)
Definition winv (h : shared) (L : Z) (t : wthread) : Prop :=
  let W := hW h in
  let m := hmem h in
  let d := wdata t in
  match w_pc t with
  | WStart | WCall | WPost | WRdWpt2 => True
  | WRdRpt w1 => w1 = hwpt h
  | WStSize0 wp | WStAlloc wp => wp = L mod W
  | WCopy wp k rest =>
      wp = L mod W /\ wr_alloc m W L /\ (exists done, d = done ++ rest /\ zlen done = k) /\ rest <> [] /\
      wr_bytes m W L d k
  | WRdWpt3 => wr_alloc m W L /\ wr_bytes m W L d (zlen d)
  | WStSize old => old = L mod W /\ wr_alloc m W L /\ wr_bytes m W L d (zlen d)
  | WRdSize old => old = L mod W /\ wr_alloc m W L /\ wr_bytes m W L d (zlen d) /\ wr_size m W L (zlen d)
  | WStWpt old sz =>
      old = L mod W /\ sz = zlen d /\ wr_alloc m W L /\ wr_bytes m W L d (zlen d) /\ wr_size m W L (zlen d)
  | WStMagic old => old = L mod W /\ wr_alloc m W L /\ wr_bytes m W L d (zlen d) /\ wr_size m W L (zlen d)
  end.

Definition in_rc (p : rpc) : bool :=
  match p with
  | RcRdRpt | RcRdWpt _ | RcRdMagic _ | RcRdSize1 _ | RcRdSize2 _ | RcSt0 _ _ | RcStDead _ _ | RcStRpt _ _ => true
  | _ => false
  end.
Definition r_kill (t : rthread) : bool := match r_pc t with RcStDead _ _ | RcStRpt _ _ => true | _ => false end.

(* what the reader knows at each pc; pend > 0 = the writer has advanced write_pt over a chunk it has not
   published yet (that chunk's marker word is ALLOC) *)
Definition rinv (W RP : Z) (q : list chunk) (pend : Z) (t : rthread) : Prop :=
  (r_have t = true -> exists c q', q = c :: q' /\ r_buf t = c /\ r_size t = zlen c) /\
  (in_rc (r_pc t) = true -> is_read (rcur t) = true -> r_have t = true) /\
  match r_pc t with
  | RStart | RCall | RRdRpt | RFailPost | RNoBufPost | RcRdRpt => True
  | RRdWpt rp | RcRdWpt rp => rp = RP mod W
  | RRdMagic rp | RcRdMagic rp => rp = RP mod W /\ (q <> [] \/ 0 < pend)
  | RRdSize rp | RcRdSize1 rp | RcRdSize2 rp => rp = RP mod W /\ q <> []
  | RCopy rp k =>
      rp = RP mod W /\ exists c q', q = c :: q' /\ r_size t = zlen c /\ 0 <= k < zlen c /\
                                    rev (r_acc t) = firstn (Z.to_nat k) c /\ r_have t = false
  | RcSt0 old new | RcStDead old new | RcStRpt old new =>
      old = RP mod W /\ exists c q', q = c :: q' /\ new = (RP + cw (zlen c)) mod W
  end.

Definition gmatch (g : option chunk) (p : chunk) : Prop := match g with Some b => b = p | None => True end.

Definition Inv (s : state) : Prop :=
  exists RP q pre,
    let h := g_sh s in
    g_pub s = pre ++ q /\ Forall2 gmatch (g_got s) pre /\
    Core (hW h) (hwpt h) (hrpt h) (hmem h) RP q (w_win (g_w s)) (w_pend (g_w s)) (r_kill (g_r s)) /\
    winv h (RP + used q) (g_w s) /\
    rinv (hW h) RP q (w_pend (g_w s)) (g_r s) /\
    sem_ok h /\ g_err s = false.

(* ------------------------------------------------------------------ frames *)
Lemma q_in_mem_frame : forall m m' W RP q kill, 0 < W ->
  q_in_mem m W RP q kill -> same_on m m' (4 * W) (4 * RP) (4 * (RP + used q)) -> q_in_mem m' W RP q kill.
Proof.
  intros m m' W RP q kill HW H Hs. unfold q_in_mem in *.
  destruct kill.
  - destruct q as [|c q']; [assumption|].
    apply chunks_at_frame with (m := m); try assumption.
    cbn [used] in Hs. pose proof (cw_ge2 (zlen c) (zlen_nonneg c)).
    eapply same_on_sub; [exact Hs | lia | lia].
  - apply chunks_at_frame with (m := m); assumption.
Qed.

Lemma winv_frame : forall h m' L t, 0 < hW h -> 2 <= w_win t -> zlen (wdata t) <= 4 * (w_win t - 2) ->
  winv h L t -> same_on (hmem h) m' (4 * hW h) (4 * L) (4 * (L + w_win t)) -> winv (set_mem h m') L t.
Proof.
  intros h m' L t HW Hwin Hlen H Hs. unfold winv in *. cbn [hW hmem hwpt set_mem].
  set (W := hW h) in *. set (m := hmem h) in *.
  assert (Ha : wr_alloc m W L -> wr_alloc m' W L).
  { unfold wr_alloc. intro E. rewrite <- E. eapply ldw_same_on; [lia | exact Hs | lia | lia]. }
  assert (Hz : forall n, wr_size m W L n -> wr_size m' W L n).
  { unfold wr_size. intros n E. rewrite <- E. eapply ldw_same_on; [lia | exact Hs | lia | lia]. }
  assert (Hb : forall k, k <= zlen (wdata t) -> wr_bytes m W L (wdata t) k -> wr_bytes m' W L (wdata t) k).
  { unfold wr_bytes. intros k Hk E j Hj. rewrite <- E by assumption. apply Hs. lia. }
  destruct (w_pc t); try exact H.
  - destruct H as (H1 & H2 & (dn & H3 & H4) & H5 & H6). repeat split; auto.
    + exists dn; auto.
    + apply Hb; [|assumption]. rewrite H3, zlen_app. pose proof (zlen_nonneg rest). lia.
  - destruct H as (H1 & H2). split; auto. apply Hb; [lia|assumption].
  - destruct H as (H0 & H1 & H2). repeat split; auto. apply Hb; [lia|assumption].
  - destruct H as (H0 & H1 & H2 & H3). repeat split; auto. apply Hb; [lia|assumption].
  - destruct H as (H0 & H00 & H1 & H2 & H3). repeat split; auto. apply Hb; [lia|assumption].
  - destruct H as (H0 & H1 & H2 & H3). repeat split; auto. apply Hb; [lia|assumption].
Qed.

(* ------------------------------------------------------------------ writer steps *)
Lemma wdata_at : forall t p, wdata (w_at t p) = wdata t.
Proof. reflexivity. Qed.

Lemma w_win_in : forall t p,
  match p with WStart | WCall | WRdRpt _ | WPost => False | _ => True end -> w_win (w_at t p) = cw (zlen (wdata t)).
Proof. intros t p H. unfold w_win; cbn [w_at w_pc]. rewrite wdata_at. destruct p; try contradiction; reflexivity. Qed.
Lemma w_pend_out : forall t p, match p with WStMagic _ => False | _ => True end -> w_pend (w_at t p) = 0.
Proof. intros t p H. unfold w_pend; cbn [w_at w_pc]. destruct p; try contradiction; reflexivity. Qed.

Definition q_after (g : ghost) (q : list chunk) : list chunk := match g with GPub d => q ++ [d] | _ => q end.

Ltac wfin := repeat split; try assumption; try lia; try discriminate;
  try (match goal with Hpd : 0 < w_pend _ -> _ |- _ => let Hp := fresh in intro Hp; exfalso; apply Hpd in Hp; destruct Hp as [? Hp]; congruence end).

Lemma wstep_core : forall h t r RP q kill,
  wstep h t = Some r ->
  Core (hW h) (hwpt h) (hrpt h) (hmem h) RP q (w_win t) (w_pend t) kill ->
  winv h (RP + used q) t -> sem_ok h ->
  let q' := q_after (s_gh r) q in
  let h' := s_sh r in
  let t' := s_t r in
  Core (hW h') (hwpt h') (hrpt h') (hmem h') RP q' (w_win t') (w_pend t') kill /\
  winv h' (RP + used q') t' /\ sem_ok h' /\ s_err r = false /\ hW h' = hW h /\
  (forall g, s_gh r <> GCons g) /\
  (0 < w_pend t -> 0 < w_pend t' \/ q' <> []).
Proof.
  intros h t r RP q kill H HC Hwi Hsem.
  destruct HC as [HW H32 Hr Hw Hcap Hpend Hq].
  set (L := RP + used q) in *.
  pose proof (used_nonneg q) as Huq.
  pose proof (zlen_nonneg (wdata t)) as Hlen.
  pose proof (cw_ge2 _ Hlen) as Hcw2.
  pose proof (cw_payload _ Hlen) as Hpay.
  assert (Hpd : 0 < w_pend t -> exists old, w_pc t = WStMagic old).
  { unfold w_pend. destruct (w_pc t); try lia. eexists; reflexivity. }
  unfold wstep in H. unfold winv in Hwi. unfold w_win in Hcap, Hpend. unfold w_pend in Hw, Hpend.
  set (W := hW h) in *. set (m := hmem h) in *.
  destruct (w_pc t) eqn:Epc.
  - (* WStart *)
    inversion H; subst r; clear H. cbn [s_sh s_t s_gh s_err q_after]. unfold w_win, w_pend, winv; cbn [w_at w_pc].
    wfin.
  - (* WCall *)
    destruct (w_prog t) eqn:Ep; [discriminate|].
    inversion H; subst r; clear H. cbn [s_sh s_t s_gh s_err q_after]. unfold w_win, w_pend, winv; cbn [w_at w_pc].
    wfin.
  - (* WRdRpt *)
    destruct (free_words W w1 (hrpt h) * RB_SIZEOF_WORD <? zlen (wdata t) + RB_CHUNK_MARGIN) eqn:Et;
      inversion H; subst r; clear H; cbn [s_sh s_t s_gh s_err q_after]; unfold w_win, w_pend, winv; cbn [w_at w_ret w_pc].
    + wfin.
    + rewrite wdata_at.
      assert (used q + cw (zlen (wdata t)) <= W - 1).
      { apply admission with (RP := RP); try lia.
        rewrite <- Hr. replace ((RP + used q) mod W) with w1; [exact Et|].
        rewrite Hwi, Hw. f_equal. lia. }
      wfin.
  - (* WRdWpt2 *)
    inversion H; subst r; clear H. cbn [s_sh s_t s_gh s_err q_after]. unfold w_win, w_pend, winv; cbn [w_at w_pc].
    rewrite wdata_at.
    wfin.
    rewrite Hw. f_equal. lia.
  - (* WStSize0 *)
    inversion H; subst r; clear H. cbn [s_sh s_t s_gh s_err q_after hW hwpt hrpt hmem set_mem].
    unfold w_win, w_pend; cbn [w_at w_pc]. rewrite wdata_at. subst wp. fold W m.
    assert (Hs : same_on m (stw m (L mod W) 0) (4 * W) (4 * RP) (4 * L)) by (apply same_on_stw; lia).
    split; [constructor; try assumption; try lia; eapply q_in_mem_frame; eauto |].
    split; [unfold winv; cbn [w_at w_pc]; reflexivity|].
    split; [exact Hsem|].
    split; [rewrite inr_mod by assumption; reflexivity|]. wfin.
  - (* WStAlloc *)
    subst wp. rewrite succ_mod in H by assumption.
    set (m' := stw m ((L + 1) mod W) RB_CHUNK_MAGIC_ALLOC) in *.
    assert (Hs : same_on m m' (4 * W) (4 * RP) (4 * L)) by (apply same_on_stw; lia).
    assert (Hal : wr_alloc m' W L).
    { unfold wr_alloc, m'. rewrite ldw_stw_same by (apply Z.mod_pos_bound; lia). apply magic_mod. }
    inversion H; subst r; clear H. cbn [s_sh s_t s_gh s_err q_after hW hwpt hrpt hmem set_mem].
    set (pn := match wdata t with [] => WRdWpt3 | _ :: _ => WCopy (L mod W) 0 (wdata t) end).
    rewrite (w_win_in t pn) by (unfold pn; destruct (wdata t); exact I).
    rewrite (w_pend_out t pn) by (unfold pn; destruct (wdata t); exact I).
    split; [constructor; try assumption; try lia; eapply q_in_mem_frame; eauto |].
    split.
    { unfold winv, pn. destruct (wdata t) eqn:Ed; cbn [w_at w_pc hW hmem set_mem]; rewrite wdata_at, Ed; fold W.
      - split; [assumption|]. intros j Hj. rewrite zlen_nil in Hj. lia.
      - split; [reflexivity|]. split; [assumption|]. split; [exists []; split; [reflexivity|apply zlen_nil]|].
        split; [discriminate|]. intros j Hj. lia. }
    split; [exact Hsem|]. split; [reflexivity|]. wfin.
  - (* WCopy *)
    destruct rest as [|x rest']; [discriminate|].
    destruct Hwi as (Hwp & Hal & (dn & Hd & Hk) & _ & Hby). subst wp.
    assert (Hzd : zlen (wdata t) = k + 1 + zlen rest') by (rewrite Hd, zlen_app, zlen_cons; lia).
    pose proof (zlen_nonneg rest') as Hr'. pose proof (zlen_nonneg dn) as Hdn.
    set (B := 4 * (L + 2) + k).
    assert (Ea : (4 * ((L mod W + RB_CHUNK_HEADER_WORDS) mod W) + k) mod (4 * W) = B mod (4 * W))
      by (apply data_byte_addr; assumption).
    rewrite Ea in H.
    set (m' := st m (B mod (4 * W)) x) in *.
    assert (Hs : same_on m m' (4 * W) (4 * RP) (4 * L)) by (apply same_on_st; unfold B; lia).
    assert (Hal' : wr_alloc m' W L).
    { unfold wr_alloc in *. rewrite <- Hal. apply ldw_same_on with (lo := 4 * (L + 1)) (hi := 4 * (L + 1) + 4); try lia.
      apply same_on_st; unfold B; lia. }
    assert (Hby' : wr_bytes m' W L (wdata t) (k + 1)).
    { intros j Hj. destruct (Z.eq_dec j k) as [->|Hne].
      - unfold m'. fold B. rewrite ld_st_same. rewrite Hd, <- Hk. symmetry. apply nth_middle_z.
      - rewrite <- Hby by lia.
        assert (Hsb : same_on m m' (4 * W) (4 * (L + 2)) (4 * (L + 2) + k)) by (apply same_on_st; unfold B; lia).
        apply Hsb. lia. }
    assert (He : (4 * ((L mod W + RB_CHUNK_HEADER_WORDS) mod W) + k <? 8 * W) = true)
      by (apply data_byte_in_map with (len := zlen (wdata t)); lia).
    inversion H; subst r; clear H. cbn [s_sh s_t s_gh s_err q_after hW hwpt hrpt hmem set_mem].
    set (pn := match rest' with [] => WRdWpt3 | _ :: _ => WCopy (L mod W) (k + 1) rest' end).
    rewrite (w_win_in t pn) by (unfold pn; destruct rest'; exact I).
    rewrite (w_pend_out t pn) by (unfold pn; destruct rest'; exact I).
    split; [constructor; try assumption; try lia; eapply q_in_mem_frame; eauto |].
    split.
    { unfold winv, pn. destruct rest' as [|y rest'']; cbn [w_at w_pc hW hmem set_mem]; rewrite wdata_at; fold W.
      - split; [assumption|]. rewrite zlen_nil in Hzd. rewrite Hzd. replace (k + 1 + 0) with (k + 1) by lia. assumption.
      - split; [reflexivity|]. split; [assumption|].
        split; [exists (dn ++ [x]); split; [rewrite <- app_assoc; exact Hd | rewrite zlen_app, zlen_cons, zlen_nil; lia]|].
        split; [discriminate|assumption]. }
    split; [exact Hsem|]. split; [change (negb (4 * ((L mod W + RB_CHUNK_HEADER_WORDS) mod W) + k <? 8 * W) = false); rewrite He; reflexivity|]. wfin.
  - (* WRdWpt3 *)
    inversion H; subst r; clear H. cbn [s_sh s_t s_gh s_err q_after]. unfold w_win, w_pend, winv; cbn [w_at w_pc].
    rewrite wdata_at. destruct Hwi as (Hal & Hby).
    wfin. rewrite Hw. f_equal. lia.
  - (* WStSize *)
    destruct Hwi as (Hold & Hal & Hby). subst old.
    set (m' := stw m (L mod W) (zlen (wdata t))) in *.
    assert (Hs : same_on m m' (4 * W) (4 * RP) (4 * L)) by (apply same_on_stw; lia).
    assert (Hs2 : same_on m m' (4 * W) (4 * (L + 1)) (4 * (L + cw (zlen (wdata t))))) by (apply same_on_stw; lia).
    assert (Hal' : wr_alloc m' W L).
    { unfold wr_alloc in *. rewrite <- Hal. eapply ldw_same_on; [lia | exact Hs2 | lia | lia]. }
    assert (Hby' : wr_bytes m' W L (wdata t) (zlen (wdata t))).
    { intros j Hj. rewrite <- Hby by assumption. apply Hs2. lia. }
    assert (Hsz : wr_size m' W L (zlen (wdata t))).
    { unfold wr_size, m'. rewrite ldw_stw_same by (apply Z.mod_pos_bound; lia). apply Z.mod_small. lia. }
    inversion H; subst r; clear H. cbn [s_sh s_t s_gh s_err q_after hW hwpt hrpt hmem set_mem].
    unfold w_win, w_pend; cbn [w_at w_pc]. rewrite wdata_at. fold W.
    split; [constructor; try assumption; try lia; eapply q_in_mem_frame; eauto |].
    split; [unfold winv; cbn [w_at w_pc hW hmem set_mem]; rewrite wdata_at; fold W; auto|].
    split; [exact Hsem|].
    split; [rewrite inr_mod by assumption; reflexivity|]. wfin.
  - (* WRdSize *)
    destruct Hwi as (Hold & Hal & Hby & Hsz). subst old.
    inversion H; subst r; clear H. cbn [s_sh s_t s_gh s_err q_after]. unfold w_win, w_pend, winv; cbn [w_at w_pc].
    rewrite wdata_at. fold W m. wfin.
  - (* WStWpt *)
    destruct Hwi as (Hold & Hsz0 & Hal & Hby & Hsz). subst old sz.
    inversion H; subst r; clear H. cbn [s_sh s_t s_gh s_err q_after hW hwpt hrpt hmem set_wpt].
    unfold w_win, w_pend; cbn [w_at w_pc]. rewrite wdata_at. fold W m.
    split.
    { constructor; try assumption; try lia.
      rewrite chunk_step_eq by (try apply Z.mod_pos_bound; lia).
      rewrite Zplus_mod_idemp_l. f_equal. }
    split; [unfold winv; cbn [w_at w_pc hW hmem set_wpt]; rewrite wdata_at; fold W m; auto|].
    split; [exact Hsem|]. wfin.
  - (* WStMagic *)
    destruct Hwi as (Hold & Hal & Hby & Hsz). subst old. rewrite succ_mod in H by assumption.
    set (d := wdata t) in *.
    set (m' := stw m ((L + 1) mod W) RB_CHUNK_MAGIC) in *.
    assert (Hs : same_on m m' (4 * W) (4 * RP) (4 * L)) by (apply same_on_stw; lia).
    assert (Hnew : chunks_at m' W L [d]).
    { cbn [chunks_at]. split; [|split; [|split; [|exact I]]].
      - unfold wr_size in Hsz. rewrite <- Hsz. apply ldw_same_on with (lo := 4 * L) (hi := 4 * L + 4); try lia.
        apply same_on_stw; lia.
      - unfold m'. rewrite ldw_stw_same by (apply Z.mod_pos_bound; lia). apply magic_mod.
      - intros k Hk. rewrite <- Hby by assumption.
        assert (Hsb : same_on m m' (4 * W) (4 * (L + 2)) (4 * (L + 2) + zlen d)) by (apply same_on_stw; lia).
        apply Hsb. lia. }
    assert (Hq' : q_in_mem m' W RP (q ++ [d]) kill).
    { pose proof (q_in_mem_frame _ _ _ _ _ _ HW Hq Hs) as Hq1. unfold q_in_mem in *. destruct kill.
      - destruct q as [|c q0]; [contradiction|]. cbn [app]. apply chunks_at_app. split; [assumption|].
        replace (RP + cw (zlen c) + used q0) with L by (unfold L; cbn [used]; lia). assumption.
      - apply chunks_at_app. split; assumption. }
    assert (Hcore : forall win, win = 0 ->
              Core W (hwpt h) (hrpt h) m' RP (q ++ [d]) win 0 kill).
    { intros win ->. constructor; try assumption; try lia.
      - rewrite Hw. f_equal. rewrite used_app. unfold L. lia.
      - rewrite used_app. lia. }
    assert (Hne : q ++ [d] <> []) by (destruct q; discriminate).
    destruct (hsem h) eqn:Es; inversion H; subst r; clear H;
      cbn [s_sh s_t s_gh s_err q_after hW hwpt hrpt hmem set_mem]; unfold w_win, w_pend, winv; cbn [w_at w_ret w_pc];
      (split; [apply Hcore; reflexivity|]); (split; [exact I|]); (split; [exact Hsem|]); wfin; right; assumption.
  - (* WPost *)
    inversion H; subst r; clear H. cbn [s_sh s_t s_gh s_err q_after]. unfold w_win, w_pend, winv; cbn [w_ret w_pc].
    assert (Hs' : sem_ok (post h)).
    { unfold sem_ok, post in *. destruct (hsem h) eqn:Es; cbn [hsem set_hsem]; [lia|rewrite Es; exact I]. }
    assert (Hp : hW (post h) = W /\ hwpt (post h) = hwpt h /\ hrpt (post h) = hrpt h /\ hmem (post h) = m).
    { unfold post. destruct (hsem h); cbn; auto. }
    destruct Hp as (-> & -> & -> & ->).
    wfin.
Qed.

(* ------------------------------------------------------------------ reader steps *)
Lemma rcur_at : forall t p, rcur (r_at t p) = rcur t.
Proof. reflexivity. Qed.

Lemma post_fields : forall h, hW (post h) = hW h /\ hwpt (post h) = hwpt h /\ hrpt (post h) = hrpt h /\
  hmem (post h) = hmem h /\ (sem_ok h -> sem_ok (post h)).
Proof.
  intros h. unfold post, sem_ok. destruct (hsem h) eqn:E; cbn [hW hwpt hrpt hmem hsem set_hsem]; repeat split; auto.
  - intros; lia.
  - rewrite E; auto.
Qed.

Definition rconcl (h : shared) (RP : Z) (q : list chunk) (win pend : Z) (r : sres rthread) : Prop :=
  let h' := s_sh r in
  let t' := s_t r in
  exists RP' q',
    match s_gh r with
    | GCons x => exists c, q = c :: q' /\ gmatch x c /\ RP' = RP + cw (zlen c)
    | GNone => q' = q /\ RP' = RP
    | GPub _ => False
    end /\
    Core (hW h') (hwpt h') (hrpt h') (hmem h') RP' q' win pend (r_kill t') /\
    rinv (hW h') RP' q' pend t' /\
    same_on (hmem h) (hmem h') (4 * hW h) (4 * (RP + used q)) (4 * (RP + used q + win)) /\
    hW h' = hW h /\ hwpt h' = hwpt h /\ sem_ok h' /\ s_err r = false.

Lemma r_nomem : forall h RP q win pend h' t' lab ret,
  Core (hW h) (hwpt h) (hrpt h) (hmem h) RP q win pend (r_kill t') ->
  hW h' = hW h -> hwpt h' = hwpt h -> hrpt h' = hrpt h -> hmem h' = hmem h -> sem_ok h' ->
  rinv (hW h) RP q pend t' ->
  rconcl h RP q win pend (mkres h' t' lab ret GNone false).
Proof.
  intros h RP q win pend h' t' lab ret HC E1 E2 E3 E4 Hs Hr.
  exists RP, q. cbn [s_sh s_t s_gh s_err]. rewrite E1, E2, E3, E4.
  split; [split; reflexivity|]. split; [assumption|]. split; [assumption|].
  split; [apply same_on_refl|]. auto.
Qed.

(* the part of rinv that a return to RCall needs *)
Lemma rinv_ret : forall W RP q pend t, rinv W RP q pend t -> rinv W RP q pend (r_ret t).
Proof.
  intros W RP q pend t (Hh & _ & _). unfold rinv; cbn [r_ret r_pc r_have r_buf r_size in_rc].
  repeat split; auto. discriminate.
Qed.

Lemma head_of_q : forall m W RP c q', 0 < W -> chunks_at m W RP (c :: q') ->
  ldw m (RP mod W) = zlen c /\ ldw m ((RP + 1) mod W) = RB_CHUNK_MAGIC /\
  (forall k, 0 <= k < zlen c -> ld m ((4 * (RP + 2) + k) mod (4 * W)) = nth (Z.to_nat k) c 0) /\
  chunks_at m W (RP + cw (zlen c)) q'.
Proof. intros m W RP c q' HW H. cbn [chunks_at] in H. exact H. Qed.

Ltac rinv_at := unfold rinv; cbn [r_at r_pc r_have r_buf r_size r_acc in_rc]; rewrite ?rcur_at;
  (split; [assumption|]); (split; [intros; discriminate|]).
Ltac rgo_tac := apply r_nomem; auto; rinv_at.
Ltac rfail_tac :=
  match goal with H : r_fail ?h ?t _ = Some ?r |- _ =>
    unfold r_fail in H; destruct (hsem h);
    [ unfold rgo in H; inversion H; subst r; clear H; rgo_tac; exact I
    | unfold rreturn in H; inversion H; subst r; clear H; apply r_nomem; auto; apply rinv_ret; assumption ] end.

Lemma rstep_core : forall h t r RP q win pend,
  rstep h t = Some r ->
  Core (hW h) (hwpt h) (hrpt h) (hmem h) RP q win pend (r_kill t) ->
  rinv (hW h) RP q pend t ->
  (0 < pend -> wr_alloc (hmem h) (hW h) (RP + used q)) ->
  sem_ok h ->
  rconcl h RP q win pend r.
Proof.
  intros h t r RP q win pend H HC Hri Hpal Hsem.
  pose proof HC as HC0.
  destruct HC as [HW H32 Hr Hw Hcap Hpend Hq].
  pose proof Hri as Hri0.
  destruct Hri as (Hhave & Hrd & Hpc).
  pose proof (used_nonneg q) as Huq.
  pose proof (post_fields h) as (Pw & Pwp & Prp & Pm & Psem).
  set (W := hW h) in *. set (m := hmem h) in *.
  (* pointers differ as soon as something is in the ring or pending *)
  assert (Hdiff : 0 < used q + pend -> RP mod W <> hwpt h).
  { intros Hpos E. rewrite Hw in E. symmetry in E.
    replace (RP + used q + pend) with (RP + (used q + pend)) in E by lia.
    apply mod_neq_window in E; lia. }
  assert (Hsame : q = [] -> pend = 0 -> RP mod W = hwpt h).
  { intros -> ->. rewrite Hw. cbn [used]. f_equal. lia. }
  assert (Hqpos : q <> [] -> 2 <= used q).
  { destruct q as [|c q0]; [congruence|]. intros _. apply used_cons_ge2. }
  (* the marker of the chunk at RP is MAGIC exactly when a published chunk is there *)
  assert (Hmagic : r_kill t = false -> (q <> [] \/ 0 < pend) ->
                   (ldw m ((RP + 1) mod W) =? RB_CHUNK_MAGIC) = true <-> q <> []).
  { intros Hk Hor. split.
    - intros E Hq0. subst q. destruct Hor as [Hor|Hor]; [congruence|].
      specialize (Hpal Hor). unfold wr_alloc in Hpal. cbn [used] in Hpal. rewrite Z.add_0_r in Hpal.
      fold m W in Hpal. pose proof conc_consts_ok as (Hne & _). lia.
    - intros Hne. destruct q as [|c q0]; [congruence|]. unfold q_in_mem in Hq. rewrite Hk in Hq.
      apply head_of_q in Hq; [|assumption]. destruct Hq as (_ & Hm & _). lia. }
  unfold rstep in H. fold W m in H.
  destruct (r_pc t) eqn:Epc; unfold r_kill in *; rewrite Epc in *.
  - (* RStart *)
    unfold rgo in H. inversion H; subst r; clear H. rgo_tac. exact I.
  - (* RCall *)
    destruct (r_prog t) as [|c0 pr] eqn:Ep; [discriminate|].
    assert (Hcur : rcur t = c0) by (unfold rcur; rewrite Ep; reflexivity).
    assert (Hwait : forall c blk, hsem h = Some c -> act_wait h t c blk = Some r -> rconcl h RP q win pend r).
    { intros c blk Es Ha. unfold act_wait in Ha. destruct (0 <? c) eqn:Ec.
      - inversion Ha; subst r; clear Ha. apply r_nomem; cbn [hW hwpt hrpt hmem set_hsem]; auto.
        + unfold sem_ok; cbn [hsem set_hsem]. lia.
        + rinv_at. exact I.
      - destruct blk; [discriminate|]. unfold rreturn in Ha. inversion Ha; subst r; clear Ha.
        apply r_nomem; auto. apply rinv_ret; assumption. }
    assert (Hrd1 : act_rd_rpt h t = Some r -> rconcl h RP q win pend r).
    { intros Ha. unfold act_rd_rpt, rgo in Ha. inversion Ha; subst r; clear Ha. rgo_tac. exact Hr. }
    destruct c0 as [n blk|blk|].
    + destruct (hsem h) as [c|] eqn:Es; [eapply Hwait; eauto | apply Hrd1; assumption].
    + destruct (hsem h) as [c|] eqn:Es; [eapply Hwait; eauto | apply Hrd1; assumption].
    + unfold act_rc_rd_rpt, rgo in H. inversion H; subst r; clear H.
      apply r_nomem; auto. unfold rinv; cbn [r_at r_pc r_have r_buf r_size r_acc in_rc]; rewrite ?rcur_at.
      split; [exact Hhave|]. split; [rewrite Hcur; cbn [is_read]; intros; discriminate|]. exact Hr.
  - (* RRdRpt *)
    unfold act_rd_rpt, rgo in H. inversion H; subst r; clear H. rgo_tac. exact Hr.
  - (* RRdWpt *)
    subst rp. destruct (RP mod W =? hwpt h) eqn:E.
    + rfail_tac.
    + unfold rgo in H. inversion H; subst r; clear H. rgo_tac. split; [reflexivity|].
      destruct q as [|c q0]; [|left; discriminate]. right.
      destruct (Z_lt_dec 0 pend); [assumption|]. exfalso. assert (pend = 0) by lia. specialize (Hsame eq_refl H). lia.
  - (* RRdMagic *)
    destruct Hpc as (-> & Hor). rewrite succ_mod in H by assumption.
    specialize (Hmagic eq_refl Hor).
    destruct (ldw m ((RP + 1) mod W) =? RB_CHUNK_MAGIC) eqn:E.
    + unfold rgo in H. inversion H; subst r; clear H. rgo_tac. split; [reflexivity|]. apply Hmagic; reflexivity.
    + rfail_tac.
  - (* RFailPost *)
    unfold rreturn in H. inversion H; subst r; clear H. apply r_nomem; auto. apply rinv_ret; assumption.
  - (* RRdSize *)
    destruct Hpc as (-> & Hne). destruct q as [|c q0]; [congruence|].
    unfold q_in_mem in Hq. apply head_of_q in Hq; [|assumption]. destruct Hq as (Hsz & Hmg & Hby & Htl).
    fold m in Hsz. rewrite Hsz in H. rewrite inr_mod in H by assumption. cbn [negb] in H.
    pose proof (zlen_nonneg c) as Hzc.
    destruct (match rcur t with RRead n _ => n <? zlen c | _ => false end).
    { destruct (hsem h); inversion H; subst r; clear H.
      - rgo_tac. exact I.
      - apply r_nomem; auto. apply rinv_ret; assumption. }
    destruct (zlen c <=? 0) eqn:Ez.
    { assert (c = []) by (apply zlen_zero_nil; lia). subst c.
      unfold copy_done in H. destruct (is_read (rcur t)) eqn:Eread; inversion H; subst r; clear H.
      - apply r_nomem; auto. unfold rinv; cbn [r_pc r_have r_buf r_size in_rc rcur r_prog].
        split; [intros _; exists [], q0; auto|]. split; [auto|exact I].
      - apply r_nomem; auto. unfold rinv; cbn [r_ret r_pc r_have r_buf r_size in_rc].
        split; [intros _; exists [], q0; auto|]. split; [intros; discriminate|exact I]. }
    inversion H; subst r; clear H. apply r_nomem; auto.
    unfold rinv; cbn [r_pc r_have r_buf r_size r_acc in_rc].
    split; [intros; discriminate|]. split; [intros; discriminate|]. split; [reflexivity|].
    exists c, q0. repeat split; auto; lia.
  - (* RNoBufPost *)
    unfold rreturn in H. inversion H; subst r; clear H. apply r_nomem; auto. apply rinv_ret; assumption.
  - (* RCopy *)
    destruct Hpc as (-> & c & q0 & -> & Hsize & Hk & Hacc & Hhv).
    unfold q_in_mem in Hq. apply head_of_q in Hq; [|assumption]. destruct Hq as (Hsz & Hmg & Hby & Htl).
    rewrite data_byte_addr in H by assumption. fold m in Hby. rewrite Hby in H by assumption.
    rewrite (data_byte_in_map W RP k (zlen c)) in H; try lia.
    2:{ assert (2 <= cw (zlen c)) by (apply cw_ge2; lia). pose proof (cw_payload (zlen c) ltac:(lia)).
        cbn [used] in Hcap. pose proof (used_nonneg q0). lia. }
    cbn [negb] in H. rewrite Hsize in H.
    assert (Hacc' : rev (nth (Z.to_nat k) c 0 :: r_acc t) = firstn (Z.to_nat (k + 1)) c).
    { cbn [rev]. rewrite Hacc. replace (Z.to_nat (k + 1)) with (S (Z.to_nat k)) by lia.
      symmetry. apply firstn_succ_nth. unfold zlen in Hk. lia. }
    destruct (k + 1 <? zlen c) eqn:Ek.
    + inversion H; subst r; clear H. apply r_nomem; auto.
      unfold rinv; cbn [r_pc r_have r_buf r_size r_acc in_rc].
      split; [intros; discriminate|]. split; [intros; discriminate|]. split; [reflexivity|].
      exists c, q0. repeat split; auto; lia.
    + assert (Hall : rev (nth (Z.to_nat k) c 0 :: r_acc t) = c).
      { rewrite Hacc'. apply firstn_all2. unfold zlen in *. lia. }
      rewrite Hall in H.
      unfold copy_done in H. destruct (is_read (rcur t)) eqn:Eread; inversion H; subst r; clear H.
      * apply r_nomem; auto. unfold rinv; cbn [r_pc r_have r_buf r_size in_rc rcur r_prog].
        split; [intros _; exists c, q0; auto|]. split; [auto|exact I].
      * apply r_nomem; auto. unfold rinv; cbn [r_ret r_pc r_have r_buf r_size in_rc].
        split; [intros _; exists c, q0; auto|]. split; [intros; discriminate|exact I].
  - (* RcRdRpt *)
    unfold act_rc_rd_rpt, rgo in H. inversion H; subst r; clear H.
    apply r_nomem; auto. unfold rinv; cbn [r_at r_pc r_have r_buf r_size r_acc in_rc]; rewrite ?rcur_at.
    split; [exact Hhave|]. split; [intros _; apply Hrd; reflexivity|]. exact Hr.
  - (* RcRdWpt *)
    subst old. destruct (RP mod W =? hwpt h) eqn:E.
    + unfold rc_fail in H. destruct (is_read (rcur t)) eqn:Eread.
      * exfalso. specialize (Hrd eq_refl eq_refl). destruct (Hhave Hrd) as (c & q0 & -> & _).
        apply Hdiff; [|lia]. pose proof (used_cons_ge2 c q0). lia.
      * unfold rreturn in H. inversion H; subst r; clear H. apply r_nomem; auto. apply rinv_ret; assumption.
    + unfold rgo in H. inversion H; subst r; clear H.
      apply r_nomem; auto. unfold rinv; cbn [r_at r_pc r_have r_buf r_size r_acc in_rc]; rewrite ?rcur_at.
      split; [exact Hhave|]. split; [intros _; apply Hrd; reflexivity|]. split; [reflexivity|].
      destruct q as [|c q0]; [|left; discriminate]. right.
      destruct (Z_lt_dec 0 pend); [assumption|]. exfalso. assert (pend = 0) by lia. specialize (Hsame eq_refl H). lia.
  - (* RcRdMagic *)
    destruct Hpc as (-> & Hor). rewrite succ_mod in H by assumption.
    specialize (Hmagic eq_refl Hor).
    destruct (ldw m ((RP + 1) mod W) =? RB_CHUNK_MAGIC) eqn:E.
    + unfold rgo in H. inversion H; subst r; clear H.
      apply r_nomem; auto. unfold rinv; cbn [r_at r_pc r_have r_buf r_size r_acc in_rc]; rewrite ?rcur_at.
      split; [exact Hhave|]. split; [intros _; apply Hrd; reflexivity|]. split; [reflexivity|]. apply Hmagic; reflexivity.
    + unfold rc_fail in H. destruct (is_read (rcur t)) eqn:Eread.
      * exfalso. specialize (Hrd eq_refl eq_refl). destruct (Hhave Hrd) as (c & q0 & -> & _).
        assert (c :: q0 <> []) by discriminate. apply Hmagic in H0. congruence.
      * unfold rreturn in H. inversion H; subst r; clear H. apply r_nomem; auto. apply rinv_ret; assumption.
  - (* RcRdSize1 *)
    destruct Hpc as (-> & Hne). rewrite inr_mod in H by assumption. cbn [negb] in H.
    inversion H; subst r; clear H.
    apply r_nomem; auto. unfold rinv; cbn [r_at r_pc r_have r_buf r_size r_acc in_rc]; rewrite ?rcur_at.
    split; [exact Hhave|]. split; [intros _; apply Hrd; reflexivity|]. auto.
  - (* RcRdSize2 *)
    destruct Hpc as (-> & Hne). destruct q as [|c q0]; [congruence|].
    unfold q_in_mem in Hq. apply head_of_q in Hq; [|assumption]. destruct Hq as (Hsz & Hmg & Hby & Htl).
    fold m in Hsz. rewrite Hsz in H.
    unfold rgo in H. inversion H; subst r; clear H.
    apply r_nomem; auto. unfold rinv; cbn [r_at r_pc r_have r_buf r_size r_acc in_rc]; rewrite ?rcur_at.
    split; [exact Hhave|]. split; [intros _; apply Hrd; reflexivity|]. split; [reflexivity|].
    exists c, q0. split; [reflexivity|].
    rewrite chunk_step_eq by (try apply Z.mod_pos_bound; try apply zlen_nonneg; lia).
    apply Zplus_mod_idemp_l.
  - (* RcSt0 *)
    destruct Hpc as (-> & c & q0 & -> & ->).
    unfold q_in_mem in Hq. apply head_of_q in Hq; [|assumption]. destruct Hq as (Hsz & Hmg & Hby & Htl).
    rewrite inr_mod in H by assumption. cbn [negb] in H.
    inversion H; subst r; clear H.
    pose proof (cw_ge2 (zlen c) (zlen_nonneg c)) as Hc2. pose proof (used_nonneg q0) as Hu0. cbn [used] in *.
    exists RP, (c :: q0). cbn [s_sh s_t s_gh s_err hW hwpt hrpt hmem set_mem]. fold W m.
    set (m' := stw m (RP mod W) 0).
    split; [split; reflexivity|].
    split.
    { unfold r_kill; cbn [r_at r_pc]. constructor; try assumption. unfold q_in_mem.
      apply chunks_at_frame with (m := m); try assumption.
      apply same_on_stw; lia. }
    split.
    { unfold rinv; cbn [r_at r_pc r_have r_buf r_size r_acc in_rc]; rewrite ?rcur_at.
      split; [exact Hhave|]. split; [intros _; apply Hrd; reflexivity|]. split; [reflexivity|].
      exists c, q0. auto. }
    split; [cbn [used]; apply same_on_stw; lia|]. auto.
  - (* RcStDead *)
    destruct Hpc as (-> & c & q0 & -> & ->).
    unfold q_in_mem in Hq. rewrite succ_mod in H by assumption.
    inversion H; subst r; clear H.
    pose proof (cw_ge2 (zlen c) (zlen_nonneg c)) as Hc2. pose proof (used_nonneg q0) as Hu0. cbn [used] in *.
    exists RP, (c :: q0). cbn [s_sh s_t s_gh s_err hW hwpt hrpt hmem set_mem]. fold W m.
    split; [split; reflexivity|].
    split.
    { unfold r_kill; cbn [r_at r_pc]. constructor; try assumption. unfold q_in_mem.
      apply chunks_at_frame with (m := m); try assumption.
      apply same_on_stw; lia. }
    split.
    { unfold rinv; cbn [r_at r_pc r_have r_buf r_size r_acc in_rc]; rewrite ?rcur_at.
      split; [exact Hhave|]. split; [intros _; apply Hrd; reflexivity|]. split; [reflexivity|].
      exists c, q0. auto. }
    split; [cbn [used]; apply same_on_stw; lia|]. auto.
  - (* RcStRpt *)
    destruct Hpc as (-> & c & q0 & -> & ->).
    unfold q_in_mem in Hq.
    inversion H; subst r; clear H.
    pose proof (cw_ge2 (zlen c) (zlen_nonneg c)) as Hc2. pose proof (used_nonneg q0) as Hu0. cbn [used] in *.
    exists (RP + cw (zlen c)), q0. cbn [s_sh s_t s_gh s_err hW hwpt hrpt hmem set_rpt]. fold W m.
    split.
    { exists c. split; [reflexivity|]. split; [|reflexivity].
      unfold gmatch. destruct (r_have t) eqn:Eh; [|exact I].
      destruct (Hhave eq_refl) as (c' & q' & Hqq & Hb & _). inversion Hqq; subst. reflexivity. }
    split.
    { unfold r_kill; cbn [r_pc]. constructor; try assumption; try lia.
      - rewrite Hw. f_equal. lia. }
    split.
    { unfold rinv; cbn [r_pc r_have r_buf in_rc]. split; [intros; discriminate|]. split; [intros; discriminate|exact I]. }
    split; [replace (RP + (cw (zlen c) + used q0)) with (RP + cw (zlen c) + used q0) by lia; apply same_on_refl|]. auto.
Qed.

(* ------------------------------------------------------------------ the two threads together *)
Lemma winv_ext : forall h h' L t, hW h' = hW h -> hwpt h' = hwpt h -> hmem h' = hmem h -> winv h L t -> winv h' L t.
Proof. intros h h' L t E1 E2 E3 H. unfold winv in *. rewrite E1, E2, E3. exact H. Qed.

Lemma winv_frame' : forall h m' L t, 0 < hW h ->
  winv h L t -> same_on (hmem h) m' (4 * hW h) (4 * L) (4 * (L + w_win t)) -> winv (set_mem h m') L t.
Proof.
  intros h m' L t HW H Hs.
  pose proof (zlen_nonneg (wdata t)) as Hl.
  pose proof (cw_ge2 _ Hl) as Hc. pose proof (cw_payload _ Hl) as Hp.
  destruct (Z.eq_dec (w_win t) 0) as [E|E].
  - unfold winv in *. unfold w_win in E. cbn [hW hmem hwpt set_mem].
    destruct (w_pc t); try exact H; lia.
  - apply winv_frame; auto; unfold w_win in *; destruct (w_pc t); try congruence; lia.
Qed.

Lemma rinv_mono : forall W RP q pend t q' pend', rinv W RP q pend t ->
  (exists x, q' = q ++ x) -> (0 < pend -> 0 < pend' \/ q' <> []) -> rinv W RP q' pend' t.
Proof.
  intros W RP q pend t q' pend' (Hh & Hrd & Hpc) (x & ->) Hp.
  assert (Hne : q <> [] -> q ++ x <> []) by (destruct q; [congruence|discriminate]).
  assert (Hor : q <> [] \/ 0 < pend -> q ++ x <> [] \/ 0 < pend').
  { intros [Hq|Hq]; [left; auto|]. destruct (Hp Hq); auto. }
  unfold rinv. split; [|split; [exact Hrd|]].
  - intros E. destruct (Hh E) as (c & q0 & -> & Hb). exists c, (q0 ++ x). split; [reflexivity|exact Hb].
  - destruct (r_pc t); try exact Hpc.
    + destruct Hpc; auto.
    + destruct Hpc; auto.
    + destruct Hpc as (E1 & c & q0 & -> & Hrest). split; [exact E1|]. exists c, (q0 ++ x). split; [reflexivity|exact Hrest].
    + destruct Hpc; auto.
    + destruct Hpc; auto.
    + destruct Hpc; auto.
    + destruct Hpc as (E1 & c & q0 & -> & Hrest). split; [exact E1|]. exists c, (q0 ++ x). auto.
    + destruct Hpc as (E1 & c & q0 & -> & Hrest). split; [exact E1|]. exists c, (q0 ++ x). auto.
    + destruct Hpc as (E1 & c & q0 & -> & Hrest). split; [exact E1|]. exists c, (q0 ++ x). auto.
Qed.

Lemma pend_alloc : forall h L t, winv h L t -> 0 < w_pend t -> wr_alloc (hmem h) (hW h) L.
Proof.
  intros h L t H Hp. unfold winv, w_pend in *. destruct (w_pc t); try lia. destruct H as (_ & Ha & _). exact Ha.
Qed.

Lemma mkInv : forall s RP q pre,
  g_pub s = pre ++ q -> Forall2 gmatch (g_got s) pre ->
  Core (hW (g_sh s)) (hwpt (g_sh s)) (hrpt (g_sh s)) (hmem (g_sh s)) RP q (w_win (g_w s)) (w_pend (g_w s)) (r_kill (g_r s)) ->
  winv (g_sh s) (RP + used q) (g_w s) -> rinv (hW (g_sh s)) RP q (w_pend (g_w s)) (g_r s) ->
  sem_ok (g_sh s) -> g_err s = false -> Inv s.
Proof.
  intros s RP q pre H1 H2 H3 H4 H5 H6 H7. exists RP, q, pre.
  split; [exact H1|]. split; [exact H2|]. split; [exact H3|]. split; [exact H4|]. split; [exact H5|]. split; assumption.
Qed.

Theorem inv_step : forall t s s' o, Inv s -> step t s = Some (s', o) -> Inv s'.
Proof.
  intros t s s' o (RP & q & pre & Hpub & Hgot & HC & Hwi & Hri & Hsem & Herr) Hst.
  unfold step in Hst. destruct t.
  - destruct (wstep (g_sh s) (g_w s)) as [r|] eqn:Ew; [|discriminate].
    pose proof (wstep_core _ _ _ _ _ _ Ew HC Hwi Hsem) as (HC' & Hwi' & Hsem' & Herr' & EW & Hng & Hpd).
    assert (Hgh : s_gh r = GNone \/ exists d, s_gh r = GPub d).
    { destruct (s_gh r); [left; reflexivity | right; eexists; reflexivity | exfalso; eapply Hng; reflexivity]. }
    assert (Hri' : rinv (hW (s_sh r)) RP (q_after (s_gh r) q) (w_pend (s_t r)) (g_r s)).
    { rewrite EW. eapply rinv_mono; [exact Hri | | exact Hpd].
      destruct Hgh as [->|(d & ->)]; cbn [q_after]; [exists []; symmetry; apply app_nil_r | exists [d]; reflexivity]. }
    destruct Hgh as [Eg|(d & Eg)]; rewrite Eg in *; cbn [apply_ghost q_after] in *;
      inversion Hst; subst s'; clear Hst.
    + apply mkInv with (RP := RP) (q := q) (pre := pre); cbn [g_sh g_w g_r g_pub g_got g_err]; auto.
      rewrite Herr, Herr'; reflexivity.
    + apply mkInv with (RP := RP) (q := q ++ [d]) (pre := pre); cbn [g_sh g_w g_r g_pub g_got g_err]; auto.
      * rewrite Hpub, app_assoc; reflexivity.
      * rewrite Herr, Herr'; reflexivity.
  - destruct (rstep (g_sh s) (g_r s)) as [r|] eqn:Er; [|discriminate].
    assert (Hpal : 0 < w_pend (g_w s) -> wr_alloc (hmem (g_sh s)) (hW (g_sh s)) (RP + used q))
      by (apply pend_alloc; assumption).
    pose proof (rstep_core _ _ _ _ _ _ _ Er HC Hri Hpal Hsem) as
        (RP' & q' & Hg & HC' & Hri' & Hs & EW & Ewp & Hsem' & Herr').
    assert (HL : RP' + used q' = RP + used q).
    { destruct (s_gh r); try contradiction.
      - destruct Hg as (-> & ->). reflexivity.
      - destruct Hg as (c & -> & _ & ->). cbn [used]. lia. }
    assert (Hwi' : winv (s_sh r) (RP' + used q') (g_w s)).
    { rewrite HL. apply winv_ext with (h := set_mem (g_sh s) (hmem (s_sh r))); auto.
      apply winv_frame'; [destruct HC; assumption | assumption |].
      replace (RP + used q + w_win (g_w s)) with (RP + used q + w_win (g_w s)) in Hs by lia.
      replace (4 * (RP + used q + w_win (g_w s))) with (4 * (RP + used q + w_win (g_w s))) by lia.
      exact Hs. }
    destruct (s_gh r) as [|d|x] eqn:Eg; try contradiction; cbn [apply_ghost] in *;
      inversion Hst; subst s'; clear Hst.
    + destruct Hg as (-> & ->).
      apply mkInv with (RP := RP) (q := q) (pre := pre); cbn [g_sh g_w g_r g_pub g_got g_err]; auto;
        try (rewrite Herr, Herr'; reflexivity).
    + destruct Hg as (c & -> & Hm & ->).
      apply mkInv with (RP := RP + cw (zlen c)) (q := q') (pre := pre ++ [c]); cbn [g_sh g_w g_r g_pub g_got g_err]; auto;
        try (rewrite Herr, Herr'; reflexivity).
      * rewrite Hpub, <- app_assoc; reflexivity.
      * apply Forall2_app; [assumption|]. constructor; [assumption|constructor].
Qed.

Theorem inv_exec : forall sched s, Inv s -> Inv (exec sched s).
Proof.
  induction sched as [|t sc IH]; intros s H; cbn [exec fold_left]; [exact H|].
  apply IH. unfold step1. destruct (step t s) as [[s' o]|] eqn:E; [eapply inv_step; eauto | exact H].
Qed.

(* any ring whose pointers are equal (empty), whatever the memory holds *)
Definition wf_ring (h : shared) : Prop :=
  0 < hW h /\ 4 * hW h <= two32 /\ 0 <= hrpt h < hW h /\ hwpt h = hrpt h /\ sem_ok h.

Lemma inv_start : forall h tw tr, wf_ring h -> w_idle tw = true -> r_idle tr = true -> r_have tr = false ->
  Inv {| g_sh := h; g_w := tw; g_r := tr; g_pub := []; g_got := []; g_err := false |}.
Proof.
  intros h tw tr (HW & H32 & Hr & Hw & Hs) Hwi Hri Hh.
  exists (hrpt h), [], []. cbn [g_sh g_w g_r g_pub g_got g_err used app].
  assert (Ew : w_win tw = 0 /\ w_pend tw = 0) by (unfold w_win, w_pend, w_idle in *; destruct (w_pc tw); try discriminate; auto).
  destruct Ew as (-> & ->).
  assert (Ek : r_kill tr = false) by (unfold r_kill, r_idle in *; destruct (r_pc tr); try discriminate; auto).
  rewrite Ek.
  split; [reflexivity|]. split; [constructor|].
  split.
  { constructor; cbn [used q_in_mem chunks_at]; try assumption; try lia; try exact I;
      try (symmetry; apply Z.mod_small; assumption);
      try (rewrite Hw, !Z.add_0_r; symmetry; apply Z.mod_small; assumption). }
  split; [unfold winv, w_idle in *; destruct (w_pc tw); try discriminate; exact I|].
  split.
  { unfold rinv. split; [rewrite Hh; discriminate|]. unfold r_idle in Hri.
    split; destruct (r_pc tr); try discriminate; auto. }
  auto.
Qed.

Theorem inv_init : forall h pw pr, wf_ring h -> Inv (init h pw pr).
Proof. intros. unfold init. apply inv_start; auto. Qed.

(* new programs for idle threads: the harness' sequential prologue followed by the concurrent phase *)
Theorem inv_load : forall s pw pr, Inv s -> quiescent s = true -> Inv (load s pw pr).
Proof.
  intros s pw pr (RP & q & pre & Hpub & Hgot & HC & Hwi & Hri & Hsem & Herr) Hq.
  unfold quiescent in Hq. apply andb_prop in Hq. destruct Hq as (Hwq & Hrq).
  assert (Ew : w_win (g_w s) = 0 /\ w_pend (g_w s) = 0)
    by (unfold w_win, w_pend, w_idle in *; destruct (w_pc (g_w s)); try discriminate; auto).
  destruct Ew as (Ew1 & Ew2). rewrite Ew1, Ew2 in *.
  assert (Ek : r_kill (g_r s) = false) by (unfold r_kill, r_idle in *; destruct (r_pc (g_r s)); try discriminate; auto).
  rewrite Ek in HC.
  exists RP, q, pre. unfold load; cbn [g_sh g_w g_r g_pub g_got g_err].
  split; [assumption|]. split; [assumption|].
  split; [exact HC|]. split; [exact I|].
  split; [|auto].
  destruct Hri as (Hh & _ & _). unfold rinv; cbn [r_pc r_have r_buf in_rc].
  split; [exact Hh|]. split; [intros; discriminate|exact I].
Qed.

(* ------------------------------------------------------------------ what the invariant gives *)
Definition got_matches (got : list (option chunk)) (pub : list chunk) : Prop :=
  exists pre rest, pub = pre ++ rest /\ Forall2 gmatch got pre.

Lemma forall2_len : forall (A B : Type) (R : A -> B -> Prop) l l', Forall2 R l l' -> length l = length l'.
Proof. induction 1; cbn [length]; congruence. Qed.

Lemma inv_fifo : forall s, Inv s -> got_matches (g_got s) (g_pub s) /\ g_err s = false.
Proof. intros s (RP & q & pre & Hpub & Hgot & _ & _ & _ & _ & Herr). split; [exists pre, q; auto|assumption]. Qed.

(* when every consumed chunk was looked at (e.g. the reader only uses qb_rb_chunk_read), got IS a prefix of pub *)
Lemma matches_all_some : forall got pre, Forall2 gmatch got pre -> Forall (fun g => g <> None) got -> got = map Some pre.
Proof.
  induction 1 as [|g p got pre Hm HF IH]; intros Hall; [reflexivity|].
  inversion Hall; subst. cbn [map]. f_equal; [|apply IH; assumption].
  destruct g; [cbn in Hm; congruence|congruence].
Qed.

(* an idle ring with equal pointers has delivered everything that was published *)
Lemma inv_drained : forall s, Inv s -> quiescent s = true -> hrpt (g_sh s) = hwpt (g_sh s) ->
  length (g_got s) = length (g_pub s) /\ Forall2 gmatch (g_got s) (g_pub s).
Proof.
  intros s (RP & q & pre & Hpub & Hgot & HC & _) Hq Heq.
  unfold quiescent in Hq. apply andb_prop in Hq. destruct Hq as (Hwq & _).
  assert (Ew : w_win (g_w s) = 0 /\ w_pend (g_w s) = 0)
    by (unfold w_win, w_pend, w_idle in *; destruct (w_pc (g_w s)); try discriminate; auto).
  destruct Ew as (Ew1 & Ew2). rewrite Ew1, Ew2 in *.
  destruct HC as [HW H32 Hr Hw Hcap _ _].
  assert (Hq0 : q = []).
  { destruct q as [|c q0]; [reflexivity|]. exfalso.
    pose proof (used_cons_ge2 c q0). rewrite Hw, Hr in Heq.
    replace (RP + used (c :: q0) + 0) with (RP + used (c :: q0)) in Heq by lia.
    symmetry in Heq. apply mod_neq_window in Heq; [contradiction | lia | cbn [used] in *; lia]. }
  subst q. rewrite app_nil_r in Hpub. subst pre.
  split; [eapply forall2_len; eauto | assumption].
Qed.

(* what the consumer holds after a successful peek (or a completed copy) is the oldest unconsumed chunk *)
Lemma inv_peeked : forall s, Inv s -> r_have (g_r s) = true ->
  nth_error (g_pub s) (length (g_got s)) = Some (r_buf (g_r s)).
Proof.
  intros s (RP & q & pre & Hpub & Hgot & _ & _ & (Hh & _) & _) E.
  destruct (Hh E) as (c & q0 & -> & Hb & _).
  pose proof (forall2_len _ _ _ _ _ Hgot) as Hl.
  replace (length (g_got s)) with (length pre) by (symmetry; exact Hl). rewrite Hpub, Hb. rewrite nth_error_app2 by lia. rewrite Nat.sub_diag. reflexivity.
Qed.

(* the ring qb_rb_open creates *)
Lemma open_wf : forall S nosem, 0 <= S -> S + RB_CHUNK_MARGIN + RB_SIZE_EXTRA + RB_PAGE_SIZE <= two32 ->
  wf_ring (open_shared S nosem).
Proof.
  intros S nosem HS Hb. pose proof (rb_open_repr S nosem false HS Hb) as (H2 & H32 & Hr & _).
  unfold wf_ring, open_shared, sem_ok; cbn [hW hwpt hrpt hsem]. unfold rb_open in *; cbn [rW rpt sem] in *.
  repeat split; try lia. destruct nosem; cbn; lia.
Qed.

(* ------------------------------------------------------------------ for every schedule *)
Lemma all_inv : forall h pw pr sched, wf_ring h -> Inv (exec sched (init h pw pr)).
Proof. intros. apply inv_exec. apply inv_init. assumption. Qed.

Lemma all_fifo : forall h pw pr sched, wf_ring h ->
  let s := exec sched (init h pw pr) in
  (exists pre rest, g_pub s = pre ++ rest /\ Forall2 gmatch (g_got s) pre) /\ g_err s = false.
Proof. intros h pw pr sched H. apply inv_fifo. apply all_inv; assumption. Qed.

Lemma all_prefix : forall h pw pr sched, wf_ring h ->
  let s := exec sched (init h pw pr) in
  Forall (fun g => g <> None) (g_got s) -> exists pre rest, g_pub s = pre ++ rest /\ g_got s = map Some pre.
Proof.
  intros h pw pr sched H s Hall. destruct (all_fifo h pw pr sched H) as ((pre & rest & Hp & Hm) & _).
  exists pre, rest. split; [exact Hp|]. apply matches_all_some; assumption.
Qed.

Lemma all_peeked : forall h pw pr sched, wf_ring h ->
  let s := exec sched (init h pw pr) in
  r_have (g_r s) = true -> nth_error (g_pub s) (length (g_got s)) = Some (r_buf (g_r s)).
Proof. intros h pw pr sched H. apply inv_peeked. apply all_inv; assumption. Qed.

Lemma all_drained : forall h pw pr sched, wf_ring h ->
  let s := exec sched (init h pw pr) in
  quiescent s = true -> hrpt (g_sh s) = hwpt (g_sh s) ->
  length (g_got s) = length (g_pub s) /\ Forall2 gmatch (g_got s) (g_pub s).
Proof. intros h pw pr sched H. apply inv_drained. apply all_inv; assumption. Qed.

(* ------------------------------------------------------------------ what the calls RETURN, in terms of the ghost logs *)
Ltac rstep_cases H :=
  unfold rstep, rgo, rreturn, r_fail, rc_fail, copy_done, act_wait, act_rd_rpt, act_rc_rd_rpt in H;
  repeat match type of H with
         | context [match ?x with _ => _ end] => destruct x eqn:?
         | context [if ?x then _ else _] => destruct x eqn:?
         end.

Lemma neg_errnos : - RB_ETIMEDOUT < 0 /\ - RB_EBADMSG < 0 /\ - RB_ENOBUFS < 0.
Proof. vm_compute. repeat split; reflexivity. Qed.

Lemma rstep_read_returns : forall h t r v bytes,
  rstep h t = Some r -> s_ret r = Some (v, bytes) -> 0 <= v -> is_read (rcur t) = true -> s_err r = false ->
  (exists old new, r_pc t = RcStRpt old new) /\ v = r_size t /\ bytes = r_buf t /\
  s_gh r = GCons (if r_have t then Some (r_buf t) else None).
Proof.
  intros h t r v bytes H Hr Hv Hread He.
  pose proof neg_errnos as (N1 & N2 & N3).
  destruct (r_pc t) eqn:Epc; unfold rstep in H; rewrite Epc in H;
    unfold rgo, rreturn, r_fail, rc_fail, copy_done, act_wait, act_rd_rpt, act_rc_rd_rpt in H;
    rewrite ?Hread in H;
    repeat match type of H with
           | context [match ?x with _ => _ end] => destruct x eqn:?
           end;
    try discriminate; inversion H; subst r; clear H; cbn [s_ret s_err s_gh] in *;
    try discriminate; inversion Hr; subst; try lia.
  all: repeat split; eauto.
Qed.

Lemma rstep_peek_returns : forall h t r v bytes,
  rstep h t = Some r -> s_ret r = Some (v, bytes) -> 0 < v -> is_read (rcur t) = false -> r_prog t <> [] ->
  rcur t <> RReclaim ->
  s_gh r = GNone /\ r_have (s_t r) = true /\ r_buf (s_t r) = bytes /\ r_size (s_t r) = v.
Proof.
  intros h t r v bytes H Hr Hv Hread Hprog Hnr.
  pose proof neg_errnos as (N1 & N2 & N3).
  destruct (r_pc t) eqn:Epc; unfold rstep in H; rewrite Epc in H;
    unfold rgo, rreturn, r_fail, rc_fail, copy_done, act_wait, act_rd_rpt, act_rc_rd_rpt in H;
    rewrite ?Hread in H;
    repeat match type of H with
           | context [match ?x with _ => _ end] => destruct x eqn:?
           end;
    try discriminate; inversion H; subst r; clear H; cbn [s_ret s_err s_gh s_t r_ret r_have r_buf r_size] in *;
    try discriminate; inversion Hr; subst; try lia; try (repeat split; reflexivity).
  all: unfold rcur in *; try congruence.
Qed.

(* qb_rb_chunk_read returning a length: the bytes delivered are exactly the oldest unconsumed published chunk, the
   length is its length, and the same step consumes it *)
Theorem read_return_ok : forall s s' lab v bytes,
  Inv s -> step TR s = Some (s', (lab, Some (v, bytes))) -> 0 <= v -> is_read (rcur (g_r s)) = true ->
  nth_error (g_pub s) (length (g_got s)) = Some bytes /\ v = zlen bytes /\
  g_got s' = g_got s ++ [Some bytes] /\ g_pub s' = g_pub s.
Proof.
  intros s s' lab v bytes HI Hst Hv Hread.
  pose proof (inv_step _ _ _ _ HI Hst) as (RP' & q' & pre' & _ & _ & _ & _ & _ & _ & Herr').
  destruct HI as (RP & q & pre & Hpub & Hgot & HC & Hwi & (Hh & Hrd & Hpc) & Hsem & Herr).
  unfold step in Hst. destruct (rstep (g_sh s) (g_r s)) as [r|] eqn:Er; [|discriminate].
  destruct (apply_ghost (s_gh r) (g_pub s) (g_got s)) as [pub got] eqn:Eg.
  inversion Hst; subst s' lab. clear Hst. cbn [g_err g_got g_pub] in *.
  assert (He : s_err r = false) by (destruct (g_err s), (s_err r); cbn in Herr'; congruence).
  match goal with H : s_ret r = _ |- _ => rename H into Hret end.
  destruct (rstep_read_returns _ _ _ _ _ Er Hret Hv Hread He) as ((old & new & Epc) & -> & -> & Egh).
  assert (Hhv : r_have (g_r s) = true) by (apply Hrd; [rewrite Epc; reflexivity | assumption]).
  destruct (Hh Hhv) as (c & q0 & -> & Hb & Hsz).
  rewrite Egh, Hhv in Eg. cbn [apply_ghost] in Eg. inversion Eg; subst pub got.
  pose proof (forall2_len _ _ _ _ _ Hgot) as Hl.
  replace (length (g_got s)) with (length pre) by (symmetry; exact Hl).
  rewrite Hpub, Hb, Hsz. rewrite nth_error_app2 by lia. rewrite Nat.sub_diag.
  repeat split; reflexivity.
Qed.

(* qb_rb_chunk_peek returning a positive length (+ the consumer's copy): the bytes are exactly the oldest
   unconsumed published chunk, the length is its length, nothing is consumed *)
Theorem peek_return_ok : forall s s' lab v bytes blk,
  Inv s -> step TR s = Some (s', (lab, Some (v, bytes))) -> 0 < v -> rcur (g_r s) = RPeek blk -> r_prog (g_r s) <> [] ->
  nth_error (g_pub s) (length (g_got s)) = Some bytes /\ v = zlen bytes /\
  g_got s' = g_got s /\ g_pub s' = g_pub s.
Proof.
  intros s s' lab v bytes blk HI Hst Hv Hcur Hprog.
  pose proof (inv_step _ _ _ _ HI Hst) as HI'.
  unfold step in Hst. destruct (rstep (g_sh s) (g_r s)) as [r|] eqn:Er; [|discriminate].
  destruct (apply_ghost (s_gh r) (g_pub s) (g_got s)) as [pub got] eqn:Eg.
  inversion Hst; subst s' lab. clear Hst.
  match goal with H : s_ret r = _ |- _ => rename H into Hret end.
  assert (Hnr : is_read (rcur (g_r s)) = false) by (rewrite Hcur; reflexivity).
  assert (Hnc : rcur (g_r s) <> RReclaim) by (rewrite Hcur; discriminate).
  destruct (rstep_peek_returns _ _ _ _ _ Er Hret Hv Hnr Hprog Hnc) as (Egh & Hhv & Hb & Hsz).
  rewrite Egh in Eg. cbn [apply_ghost] in Eg. inversion Eg; subst pub got.
  pose proof (inv_peeked _ HI' Hhv) as Hn. cbn [g_pub g_got g_r] in Hn. rewrite Hb in Hn.
  destruct HI' as (RP & q & pre & _ & _ & _ & _ & (Hh & _) & _). cbn [g_r] in Hh.
  destruct (Hh Hhv) as (c & q0 & _ & Hb' & Hsz').
  cbn [g_got g_pub]. split; [exact Hn|]. split; [|split; reflexivity].
  rewrite <- Hsz, Hsz', <- Hb', Hb. reflexivity.
Qed.
