(* C17 / C18, trie part: executable model of lib/trie.c behind the front end lib/map.c.  NO proofs here.

   Representation.  The C structure is a tree of heap nodes linked by children arrays and parent pointers.
   The model keeps exactly that tree as an inductive value: a node is (info, segment, children array); the
   children array is a list of optional sub-nodes whose POSITION is the C index (node->idx); the parent pointer
   is the containing node.  Every node carries the allocation-order id it was given by trie_new_node; ids are
   never reused.  An iterator holds node ids (si->n, si->root), i.e. raw pointers: when the node it names has
   been freed (is no longer in the tree) every access through it yields the error state [UseAfterFree id].
   "The library never touches freed memory" is then the theorem "the error state is unreachable".
   What the tree shape bakes in: child/parent links are consistent by construction (p->children[n->idx] == n
   and n->parent == p); a code change that broke that would be seen by the correspondence run / ASan, not here.

   Bytes are nat (0..255 as the caller's unsigned bytes), keys are byte lists without the terminator,
   values are nat ids of the caller's non-NULL value pointers.  Paths (list of child indexes from the header)
   play the role of the local pointer variables of the C functions.

   Code variants ([fixes] record): f_rm = trie_rm tests the node (fixes/C17-trie-rm-alive.patch, in /repo since
   2f5e8c6); f_removed = the "removed" flag of fixes/C18-trie-removed-parked.patch; f_split = trie_node_split keeps
   the split node as the lower part (fixes/C18-trie-split-keeps-node.patch).  FX_FOUND = the code as first found,
   FX_REPO = rm fix only, FX_ALL = all three (the ..._refuted theorems are about the first two). *)
From Coq Require Import List ZArith Bool Arith Lia.
Import ListNotations.
Require Import Verif.gen.Consts_trie.

Definition byte := nat.
Definition key := list byte.
Definition val := nat.
Definition path := list nat.

(* TRIE_CHAR2INDEX(ch) = 127 - (signed char)ch, on the unsigned byte value (identity beyond 255 so that the
   function is injective on all of nat; the table regenerated from the macro is compared in MapTrieProofs) *)
Definition c2i (b : byte) : nat :=
  if b <? 128 then 127 - b else if b <? 256 then 383 - b else b.

Record notifier := { nf_events : Z; nf_fn : nat; nf_ud : nat }.

(* struct trie_node without segment/children: idx is the position in the parent's array *)
Record ninfo := { n_id : nat; n_key : option key; n_val : option val; n_rc : nat; n_nots : list notifier;
                  n_removed : bool }.

Record fixes := { f_rm : bool; f_removed : bool; f_split : bool }.
Definition FX_FOUND := {| f_rm := false; f_removed := false; f_split := false |}.
Definition FX_REPO := {| f_rm := true; f_removed := false; f_split := false |}.
Definition FX_ALL := {| f_rm := true; f_removed := true; f_split := true |}.

(* field updates *)
Definition set_rc (c : nat) (i : ninfo) : ninfo :=
  {| n_id := n_id i; n_key := n_key i; n_val := n_val i; n_rc := c; n_nots := n_nots i; n_removed := n_removed i |}.
Definition set_kv (k : option key) (v : option val) (i : ninfo) : ninfo :=
  {| n_id := n_id i; n_key := k; n_val := v; n_rc := n_rc i; n_nots := n_nots i; n_removed := n_removed i |}.
Definition set_nots (l : list notifier) (i : ninfo) : ninfo :=
  {| n_id := n_id i; n_key := n_key i; n_val := n_val i; n_rc := n_rc i; n_nots := l; n_removed := n_removed i |}.
Definition set_removed (b : bool) (i : ninfo) : ninfo :=
  {| n_id := n_id i; n_key := n_key i; n_val := n_val i; n_rc := n_rc i; n_nots := n_nots i; n_removed := b |}.
Definition set_id (id : nat) (i : ninfo) : ninfo :=
  {| n_id := id; n_key := n_key i; n_val := n_val i; n_rc := n_rc i; n_nots := n_nots i; n_removed := n_removed i |}.

Inductive tnode := TN : ninfo -> list byte -> forest -> tnode
with forest := FNil | FCons : option tnode -> forest -> forest.

Definition t_info (t : tnode) := match t with TN i _ _ => i end.
Definition t_seg (t : tnode) := match t with TN _ s _ => s end.
Definition t_ch (t : tnode) := match t with TN _ _ f => f end.

(* ---------- children arrays ---------- *)
Fixpoint flen (f : forest) : nat := match f with FNil => 0 | FCons _ f' => S (flen f') end.
Fixpoint fget (f : forest) (j : nat) : option tnode :=
  match f with FNil => None | FCons c f' => match j with 0 => c | S j' => fget f' j' end end.
Fixpoint fset (f : forest) (j : nat) (x : option tnode) : forest :=
  match f with FNil => FNil | FCons c f' => match j with 0 => FCons x f' | S j' => FCons c (fset f' j' x) end end.
Fixpoint fnones (n : nat) : forest := match n with 0 => FNil | S n' => FCons None (fnones n') end.
Fixpoint fapp (f g : forest) : forest := match f with FNil => g | FCons c f' => FCons c (fapp f' g) end.
Fixpoint fall_none (f : forest) : bool :=
  match f with FNil => true | FCons None f' => fall_none f' | FCons (Some _) _ => false end.

Definition fresh_info (id : nat) : ninfo :=
  {| n_id := id; n_key := None; n_val := None; n_rc := 0; n_nots := []; n_removed := false |}.

(* new_child_node: grow the array to max(idx+1, 30) when idx is beyond it, then store the new node *)
Definition new_child (f : forest) (idx : nat) (c : tnode) : forest :=
  let f' := if flen f <=? idx then fapp f (fnones (Nat.max (idx + 1) 30 - flen f)) else f in
  fset f' idx (Some c).

(* trie_node_alive *)
Definition alive_i (i : ninfo) : bool :=
  match n_val i with None => false | Some _ => negb (n_rc i =? 0) end.
(* trie_node_present (removed is never set without f_removed, so this is trie_node_alive there) *)
Definition present_i (i : ninfo) : bool := alive_i i && negb (n_removed i).
Definition alive (t : tnode) : bool := present_i (t_info t).

(* ---------- the walk over a segment (shared by trie_insert and trie_lookup) ---------- *)
Inductive strip_res :=
| SKeyEnd (sc : nat)                       (* key exhausted after sc segment characters matched *)
| SMismatch (sc : nat) (c : byte) (k' : key)  (* segment[sc] <> c *)
| SSegEnd (c : byte) (k' : key).           (* whole segment matched, next key character is c *)

Fixpoint strip (seg : list byte) (k : key) (sc : nat) : strip_res :=
  match k with
  | [] => SKeyEnd sc
  | c :: k' => match seg with
               | [] => SSegEnd c k'
               | s :: seg' => if s =? c then strip seg' k' (S sc) else SMismatch sc c k'
               end
  end.

(* trie_node_split(cur_node, seg_cnt).  As found: the lower part is a NEW node (id nid) that takes children, value,
   key, refcount, removed flag and the notifier list, cur_node keeps its id and the first seg_cnt segment characters.
   With f_split: cur_node (id kept) stays the lower part, the new node (id nid) becomes the upper part. *)
Definition split (fx : fixes) (i : ninfo) (seg : list byte) (f : forest) (sc : nat) (nid : nat) : tnode :=
  let lower := TN (if f_split fx then i else set_id nid i) (skipn (S sc) seg) f in
  TN (fresh_info (if f_split fx then nid else n_id i)) (firstn sc seg) (new_child FNil (c2i (nth sc seg 0)) lower).

(* trie_insert below node n, [k] = the part of the key after the character that led to n.
   Returns the new node, the path (relative to n) of the node for the key, the next free id. *)
Fixpoint ins_t (fx : fixes) (n : tnode) (k : key) (hdr : bool) (nid : nat) {struct n} : tnode * path * nat :=
  match n with
  | TN i seg f =>
    match strip seg k 0 with
    | SKeyEnd sc =>
      if sc <? length seg then
        (* after the loop: split, and new_child_node(t, cur_node, '\0') *)
        match split fx i seg f sc nid with
        | TN i1 s1 f1 => (TN i1 s1 (new_child f1 (c2i 0) (TN (fresh_info (S nid)) [] FNil)), [], S (S nid))
        end
      else (n, [], nid)
    | SMismatch sc c k' =>
      match split fx i seg f sc nid with
      | TN i1 s1 f1 => (TN i1 s1 (new_child f1 (c2i c) (TN (fresh_info (S nid)) k' FNil)), [c2i c], S (S nid))
      end
    | SSegEnd c k' =>
      match ins_f fx f (c2i c) k' nid with
      | Some (f', p, nid') => (TN i seg f', c2i c :: p, nid')
      | None =>
        if hdr then (TN i seg (new_child f (c2i c) (TN (fresh_info nid) k' FNil)), [c2i c], S nid)
        else if (match n_val i with None => true | Some _ => false end)
                  && (match n_nots i with [] => true | _ => false end) && (flen f =? 0)
        then (TN i (seg ++ c :: k') f, [], nid)          (* leaf without value: extend the segment *)
        else (TN i seg (new_child f (c2i c) (TN (fresh_info nid) k' FNil)), [c2i c], S nid)
      end
    end
  end
with ins_f (fx : fixes) (f : forest) (j : nat) (k : key) (nid : nat) {struct f} : option (forest * path * nat) :=
  match f with
  | FNil => None
  | FCons c f' =>
    match j with
    | 0 => match c with
           | Some t => let '(t', p, nid') := ins_t fx t k false nid in Some (FCons (Some t') f', p, nid')
           | None => None
           end
    | S j' => match ins_f fx f' j' k nid with
              | Some (f'', p, nid') => Some (FCons c f'', p, nid')
              | None => None
              end
    end
  end.

(* trie_lookup below node n *)
Fixpoint look_t (n : tnode) (k : key) (exact : bool) {struct n} : option path :=
  match n with
  | TN i seg f =>
    match strip seg k 0 with
    | SKeyEnd sc => if exact && (sc <? length seg) then None else Some []
    | SMismatch _ _ _ => None
    | SSegEnd c k' => match look_f f (c2i c) k' exact with Some p => Some (c2i c :: p) | None => None end
    end
  end
with look_f (f : forest) (j : nat) (k : key) (exact : bool) {struct f} : option path :=
  match f with
  | FNil => None
  | FCons c f' =>
    match j with
    | 0 => match c with Some t => look_t t k exact | None => None end
    | S j' => look_f f' j' k exact
    end
  end.

(* the empty key is outside the domain (the C code reads key[1]); the model answers "not found" *)
Definition lookup (r : tnode) (k : key) (exact : bool) : option path :=
  match k with [] => None | _ => look_t r k exact end.

(* ---------- access by path ---------- *)
Fixpoint get_at (n : tnode) (p : path) {struct p} : option tnode :=
  match p with
  | [] => Some n
  | j :: p' => match fget (t_ch n) j with Some c => get_at c p' | None => None end
  end.

Fixpoint upd_t (n : tnode) (p : path) (g : ninfo -> ninfo) {struct n} : tnode :=
  match n with
  | TN i seg f => match p with [] => TN (g i) seg f | j :: p' => TN i seg (upd_f f j p' g) end
  end
with upd_f (f : forest) (j : nat) (p : path) (g : ninfo -> ninfo) {struct f} : forest :=
  match f with
  | FNil => FNil
  | FCons c f' =>
    match j with
    | 0 => FCons (match c with Some t => Some (upd_t t p g) | None => None end) f'
    | S j' => FCons c (upd_f f' j' p g)
    end
  end.

(* notifier lists of the nodes on the path, header first *)
Fixpoint nots_t (n : tnode) (p : path) {struct n} : list (list notifier) :=
  match n with
  | TN i seg f => n_nots i :: match p with [] => [] | j :: p' => nots_f f j p' end
  end
with nots_f (f : forest) (j : nat) (p : path) {struct f} : list (list notifier) :=
  match f with
  | FNil => []
  | FCons c f' =>
    match j with
    | 0 => match c with Some t => nots_t t p | None => [] end
    | S j' => nots_f f' j' p
    end
  end.

(* find a node by id (what a raw pointer held by an iterator denotes); None = the node was freed *)
Fixpoint find_t (n : tnode) (id : nat) {struct n} : option path :=
  match n with
  | TN i seg f => if n_id i =? id then Some [] else find_f f id
  end
with find_f (f : forest) (id : nat) {struct f} : option path :=
  match f with
  | FNil => None
  | FCons c f' =>
    match (match c with Some t => find_t t id | None => None end) with
    | Some p => Some (0 :: p)
    | None => match find_f f' id with Some p => Some (match p with [] => [] | j :: p' => S j :: p' end) | None => None end
    end
  end.

(* ---------- trie_node_release: free value-less, notifier-less, child-less nodes, going up ---------- *)
Definition releasable (i : ninfo) (f : forest) (hdr : bool) : bool :=
  (match n_key i with None => true | Some _ => false end) && negb hdr
  && (match n_nots i with [] => true | _ => false end) && fall_none f.

Fixpoint rel_t (n : tnode) (p : path) (hdr : bool) {struct n} : option tnode :=
  match n with
  | TN i seg f =>
    match p with
    | [] => if releasable i f hdr then None else Some n
    | j :: p' =>
      match rel_f f j p' with
      | None => Some n                                    (* no such child: nothing to do *)
      | Some (f', freed) =>
        if freed then (if releasable i f' hdr then None else Some (TN i seg f')) else Some (TN i seg f')
      end
    end
  end
with rel_f (f : forest) (j : nat) (p : path) {struct f} : option (forest * bool) :=
  match f with
  | FNil => None
  | FCons c f' =>
    match j with
    | 0 => match c with
           | Some t => match rel_t t p false with
                       | Some t' => Some (FCons (Some t') f', false)
                       | None => Some (FCons None f', true)       (* p->children[node->idx] = NULL *)
                       end
           | None => None
           end
    | S j' => match rel_f f' j' p with Some (f'', b) => Some (FCons c f'', b) | None => None end
    end
  end.

Definition release (r : tnode) (p : path) : tnode :=
  match rel_t r p true with Some r' => r' | None => r end.

(* ---------- trie_notify ---------- *)
Inductive ev :=
| ECb (event : Z) (k : option key) (old new : option val) (fn ud : nat)   (* notifier callback invocation *)
| EVisit (k : option key) (v : option val).                              (* qb_map_foreach callback *)

Definition has (events flag : Z) : bool := negb (Z.land events flag =? 0)%Z.

Definition fire (event : Z) (k : option key) (old new : option val) (self : bool) (tn : notifier) : list ev :=
  (if has (nf_events tn) event && (has (nf_events tn) TRIE_NOTIFY_RECURSIVE || self)
   then [ECb event k old new (nf_fn tn) (nf_ud tn)] else []) ++
  (if (has event TRIE_NOTIFY_DELETED || has event TRIE_NOTIFY_REPLACED) && has (nf_events tn) TRIE_NOTIFY_FREE
   then [ECb TRIE_NOTIFY_FREE k old new (nf_fn tn) (nf_ud tn)] else []).

Definition notify (r : tnode) (p : path) (event : Z) (k : option key) (old new : option val) : list ev :=
  match rev (nots_t r p) with
  | [] => []
  | self :: ups => flat_map (fire event k old new true) self ++
                   flat_map (fun l => flat_map (fire event k old new false) l) ups
  end.

(* ---------- trie_node_destroy / ref / deref (node given by its path) ---------- *)
Definition node_destroy (r : tnode) (p : path) : tnode * list ev :=
  match get_at r p with
  | Some (TN i _ _) =>
    match n_val i with
    | None => (r, [])
    | Some v =>
      let evs := notify r p TRIE_NOTIFY_DELETED (n_key i) (Some v) None in
      let r1 := upd_t r p (fun i => set_removed false (set_kv None None i)) in
      (release r1 p, evs)
    end
  | None => (r, [])
  end.

Definition node_ref (r : tnode) (p : path) : tnode :=
  match p with [] => r | _ => upd_t r p (fun i => set_rc (S (n_rc i)) i) end.

Definition node_deref (r : tnode) (p : path) : tnode * list ev :=
  match get_at r p with
  | Some (TN i _ _) =>
    if alive_i i then
      let r1 := upd_t r p (fun i => set_rc (n_rc i - 1) i) in
      if 0 <? n_rc i - 1 then (r1, []) else node_destroy r1 p
    else (r, [])
  | None => (r, [])
  end.

(* ---------- trie_node_next(node, root, all = QB_FALSE): pre-order successor inside root's subtree ----------
   Paths returned by the forest functions are relative to the forest they are called on (index 0 = its first
   slot); [bump] shifts the head index when the result comes from the tail of the array. *)
Definition bump (p : path) : path := match p with [] => [] | j :: p' => S j :: p' end.

Fixpoint first_t (t : tnode) {struct t} : option path :=       (* child/outward from t: first live strict descendant *)
  match t with TN _ _ f => first_f f end
with first_f (f : forest) {struct f} : option path :=
  match f with
  | FNil => None
  | FCons c f' =>
    match first_f f' with                              (* for (i = num_children - 1; i >= 0; i--) *)
    | Some p => Some (bump p)
    | None => match c with
              | None => None
              | Some t => if alive t then Some [0]
                          else match first_t t with Some p => Some (0 :: p) | None => None end
              end
    end
  end.

Definition self_or_first (c : option tnode) : option path :=
  match c with
  | None => None
  | Some t => if alive t then Some [0] else match first_t t with Some p => Some (0 :: p) | None => None end
  end.

Fixpoint next_t (t : tnode) (rel : path) {struct t} : option path :=
  match t with
  | TN _ _ f =>
    match rel with
    | [] => first_f f
    | j :: rel' => next_f f j rel'
    end
  end
with next_f (f : forest) (j : nat) (rel : path) {struct f} : option path :=
  match f with
  | FNil => None
  | FCons c f' =>
    match j with
    | 0 => match c with
           | Some t => match next_t t rel with Some p => Some (0 :: p) | None => None end
           | None => None
           end
    | S j' => match next_f f' j' rel with
              | Some p => Some (bump p)
              | None => self_or_first c                 (* sibling/parent: for (i = p->idx - 1; i >= 0; i--) *)
              end
    end
  end.

Fixpoint strip_prefix (a b : path) : option path :=     (* b = a ++ result *)
  match a with
  | [] => Some b
  | x :: a' => match b with y :: b' => if x =? y then strip_prefix a' b' else None | [] => None end
  end.

(* ---------- the map ---------- *)
Record iter := { it_prefix : option key; it_n : option nat; it_root : nat }.

Record trie := { t_root : tnode; t_len : Z; t_next : nat; t_iters : list (nat * iter) }.

Inductive err := UseAfterFree (id : nat) | OutOfFuel | BadHandle | Stray.
Inductive res (A : Type) := Ok (a : A) | Err (e : err).
Arguments Ok {A}. Arguments Err {A}.

Definition header : tnode := TN (fresh_info 0) [] FNil.
Definition trie_init : trie := {| t_root := header; t_len := 0; t_next := 1; t_iters := [] |}.

Definition id_at (r : tnode) (p : path) : nat := match get_at r p with Some t => n_id (t_info t) | None => 0 end.

(* node_next on ids: Err when a pointer is dangling *)
Definition node_next (r : tnode) (n root : nat) : res (option path) :=
  match find_t r n with
  | None => Err (UseAfterFree n)
  | Some pn =>
    match find_t r root with
    | None => Err (UseAfterFree root)
    | Some pr =>
      match strip_prefix pr pn with
      | None => Err Stray
      | Some rel =>
        match get_at r pr with
        | None => Err Stray
        | Some sub => Ok (match next_t sub rel with Some p => Some (pr ++ p) | None => None end)
        end
      end
    end
  end.

Inductive op :=
| OPut (k : key) (v : val) | OGet (k : key) | ORm (k : key) | OCount
| OForeach (stop : nat)                          (* the callback returns non-zero at its stop-th call (0: never) *)
| OIterCreate (h : nat) (pre : option key) | OIterNext (h : nat) | OIterFree (h : nat)
| ONotifyAdd (k : option key) (fn : nat) (events : Z) (ud : nat)
| ONotifyDel (k : option key) (fn : nat) (events : Z)
| ONotifyDel2 (k : option key) (fn : nat) (events : Z) (ud : nat)
| ODestroy.

Inductive out :=
| RUnit | RVal (v : option val) | RInt (z : Z) | RKV (kv : option (option key * option val)).

Definition set_root (t : trie) (r : tnode) : trie :=
  {| t_root := r; t_len := t_len t; t_next := t_next t; t_iters := t_iters t |}.

(* trie_put *)
Definition do_put (fx : fixes) (t : trie) (k : key) (v : val) : trie * list ev :=
  let '(r1, p, nid) := ins_t fx (t_root t) k true (t_next t) in
  match get_at r1 p with
  | Some (TN i _ _) =>
    (* if (n->removed): the removal an iterator was holding up is completed now, this is a new entry
       (n_removed is never set without f_removed) *)
    let evs0 := if n_removed i then notify r1 p TRIE_NOTIFY_DELETED (n_key i) (n_val i) None else [] in
    let old_v := if n_removed i then None else n_val i in
    let r2 := upd_t r1 p (fun i => set_removed false (set_kv (Some k) (Some v) i)) in
    match old_v with
    | None =>
      let r3 := node_ref r2 p in
      ({| t_root := r3; t_len := t_len t + 1; t_next := nid; t_iters := t_iters t |},
       evs0 ++ notify r3 p TRIE_NOTIFY_INSERTED (Some k) None (Some v))
    | Some ov =>
      ({| t_root := r2; t_len := t_len t; t_next := nid; t_iters := t_iters t |},
       notify r2 p TRIE_NOTIFY_REPLACED (n_key i) (Some ov) (Some v))
    end
  | None => (t, [])
  end.

(* trie_rm; f_rm: with the node test of fixes/C17-trie-rm-alive.patch; f_removed: n->removed = QB_TRUE *)
Definition do_rm (fx : fixes) (t : trie) (k : key) : trie * Z * list ev :=
  match lookup (t_root t) k true with
  | Some p =>
    if f_rm fx && negb (match get_at (t_root t) p with Some n => alive n | None => false end)
    then (t, TRIE_QB_FALSE, [])
    else
      let r0 := if f_removed fx then upd_t (t_root t) p (set_removed true) else t_root t in
      let '(r1, evs) := node_deref r0 p in
      ({| t_root := r1; t_len := t_len t - 1; t_next := t_next t; t_iters := t_iters t |}, TRIE_QB_TRUE, evs)
  | None => (t, TRIE_QB_FALSE, [])
  end.

(* trie_get *)
Definition do_get (t : trie) (k : key) : option val :=
  match lookup (t_root t) k true with
  | Some p => match get_at (t_root t) p with
              | Some n => if n_removed (t_info n) then None else n_val (t_info n)
              | None => None
              end
  | None => None
  end.

Definition do_count (t : trie) : Z := (t_len t mod 2 ^ (8 * TRIE_SIZEOF_LENGTH))%Z.

(* qb_map_notify_add + trie_notify_add *)
Definition nf_eqb (a : notifier) (events : Z) (fn ud : nat) : bool :=
  (nf_events a =? events)%Z && (nf_fn a =? fn) && (nf_ud a =? ud).

Definition do_notify_add (fx : fixes) (t : trie) (k : option key) (fn : nat) (events : Z) (ud : nat) : trie * Z :=
  if (match k with Some _ => true | None => false end) && has events TRIE_NOTIFY_FREE then (t, - TRIE_EINVAL)%Z
  else
    let '(r1, p, nid) :=
      match k with
      | Some kk => match lookup (t_root t) kk true with
                   | Some p => (t_root t, p, t_next t)
                   | None => ins_t fx (t_root t) kk true (t_next t)
                   end
      | None => (t_root t, [], t_next t)
      end in
    let t1 := {| t_root := r1; t_len := t_len t; t_next := nid; t_iters := t_iters t |} in
    match get_at r1 p with
    | Some (TN i _ _) =>
      if existsb (fun f => (has events TRIE_NOTIFY_FREE && (nf_events f =? events)%Z) || nf_eqb f events fn ud) (n_nots i)
      then (t1, - TRIE_EEXIST)%Z
      else
        let f := {| nf_events := events; nf_fn := fn; nf_ud := ud |} in
        let tail := match k with Some _ => has events TRIE_NOTIFY_RECURSIVE | None => has events TRIE_NOTIFY_FREE end in
        let r2 := upd_t r1 p (fun i => set_nots (if tail then n_nots i ++ [f] else f :: n_nots i) i) in
        (set_root t1 r2, 0%Z)
    | None => (t1, - TRIE_EINVAL)%Z
    end.

(* qb_map_notify_del / _del_2 + trie_notify_del *)
Definition do_notify_del (t : trie) (k : option key) (fn : nat) (events : Z) (cmp_ud : bool) (ud : nat) : trie * Z :=
  match (match k with Some kk => lookup (t_root t) kk false | None => Some [] end) with
  | None => (t, - TRIE_ENOENT)%Z
  | Some p =>
    match get_at (t_root t) p with
    | Some (TN i _ _) =>
      let m := fun f => (nf_events f =? events)%Z && (nf_fn f =? fn) && (negb cmp_ud || (nf_ud f =? ud)) in
      if existsb m (n_nots i) then
        let r1 := upd_t (t_root t) p (fun i => set_nots (filter (fun f => negb (m f)) (n_nots i)) i) in
        (set_root t (release r1 p), 0%Z)
      else (t, - TRIE_ENOENT)%Z
    | None => (t, - TRIE_ENOENT)%Z
    end
  end.

(* trie_iter_next on an iterator value *)
Definition iter_next (fx : fixes) (r : tnode) (it : iter) : res (tnode * iter * option (option key * option val) * list ev) :=
  match it_n it with
  | None => Ok (r, it, None, [])
  | Some pid =>
    match find_t r pid with
    | None => Err (UseAfterFree pid)                      (* p->parent read through a dangling pointer *)
    | Some pp =>
      let first := match pp, it_prefix it with [], Some _ => true | _, _ => false end in
      let step :=
        if first then
          match it_prefix it with
          | Some pre =>
            match lookup r pre false with
            | None => Ok (it_root it, None)
            | Some pr =>
              match get_at r pr with
              | Some rt =>
                let rid := n_id (t_info rt) in
                (* si->root->value == NULL, with f_removed: !trie_node_present(si->root) *)
                if (if f_removed fx then negb (present_i (t_info rt))
                    else match n_val (t_info rt) with None => true | Some _ => false end)
                then match node_next r rid rid with Ok x => Ok (rid, x) | Err e => Err e end
                else Ok (rid, Some pr)
              | None => Err Stray
              end
            end
          | None => Err Stray
          end
        else match node_next r pid (it_root it) with Ok x => Ok (it_root it, x) | Err e => Err e end in
      match step with
      | Err e => Err e
      | Ok (root', None) =>
        let '(r1, evs) := node_deref r pp in
        Ok (r1, {| it_prefix := it_prefix it; it_n := None; it_root := root' |}, None, evs)
      | Ok (root', Some pn) =>
        let nid := id_at r pn in
        let r1 := node_ref r pn in
        let '(r2, evs) := node_deref r1 pp in
        match find_t r2 nid with
        | None => Err (UseAfterFree nid)                  (* *value = si->n->value after the deref of p *)
        | Some pn' =>
          match get_at r2 pn' with
          | Some nn => Ok (r2, {| it_prefix := it_prefix it; it_n := Some nid; it_root := root' |},
                           Some (n_key (t_info nn), n_val (t_info nn)), evs)
          | None => Err Stray
          end
        end
      end
    end
  end.

(* trie_iter_free *)
Definition iter_free (r : tnode) (it : iter) : res (tnode * list ev) :=
  match it_n it with
  | None => Ok (r, [])
  | Some pid => match find_t r pid with
                | None => Err (UseAfterFree pid)
                | Some pp => Ok (node_deref r pp)
                end
  end.

Definition new_iter (pre : option key) : iter := {| it_prefix := pre; it_n := Some 0; it_root := 0 |}.

(* qb_map_foreach (lib/map.c): iter_create, iter_next until NULL or the callback says stop, iter_free *)
Fixpoint foreach_loop (fx : fixes) (fuel : nat) (r : tnode) (it : iter) (stop cnt : nat) (acc : list ev)
  : res (tnode * list ev) :=
  match fuel with
  | 0 => Err OutOfFuel
  | S fuel' =>
    match iter_next fx r it with
    | Err e => Err e
    | Ok (r1, it1, None, evs) =>
      match iter_free r1 it1 with Ok (r2, evs2) => Ok (r2, acc ++ evs ++ evs2) | Err e => Err e end
    | Ok (r1, it1, Some (k, v), evs) =>
      if S cnt =? stop then
        match iter_free r1 it1 with Ok (r2, evs2) => Ok (r2, acc ++ evs ++ [EVisit k v] ++ evs2) | Err e => Err e end
      else foreach_loop fx fuel' r1 it1 stop (S cnt) (acc ++ evs ++ [EVisit k v])
    end
  end.

Fixpoint size_t (t : tnode) : nat := match t with TN _ _ f => S (size_f f) end
with size_f (f : forest) : nat :=
  match f with FNil => 0 | FCons c f' => (match c with Some t => size_t t | None => 0 end) + size_f f' end.

(* trie_destroy: do { fwd = trie_node_next(cur, header); trie_node_destroy(cur); } while ((cur = fwd)) *)
Fixpoint destroy_loop (fuel : nat) (r : tnode) (cur : nat) (acc : list ev) : res (tnode * list ev) :=
  match fuel with
  | 0 => Err OutOfFuel
  | S fuel' =>
    match node_next r cur 0 with
    | Err e => Err e
    | Ok fwd =>
      match find_t r cur with
      | None => Err (UseAfterFree cur)
      | Some pc =>
        let fid := match fwd with Some pf => Some (id_at r pf) | None => None end in
        let '(r1, evs) := node_destroy r pc in
        match fid with
        | None => Ok (r1, acc ++ evs)
        | Some f => destroy_loop fuel' r1 f (acc ++ evs)
        end
      end
    end
  end.

Fixpoint iters_get (l : list (nat * iter)) (h : nat) : option iter :=
  match l with [] => None | (h', it) :: l' => if h' =? h then Some it else iters_get l' h end.
Fixpoint iters_del (l : list (nat * iter)) (h : nat) : list (nat * iter) :=
  match l with [] => [] | (h', it) :: l' => if h' =? h then l' else (h', it) :: iters_del l' h end.
Definition iters_set (l : list (nat * iter)) (h : nat) (it : iter) := (h, it) :: iters_del l h.

Definition step (fx : fixes) (t : trie) (o : op) : res (trie * out * list ev) :=
  match o with
  | OPut k v => let '(t', evs) := do_put fx t k v in Ok (t', RUnit, evs)
  | OGet k => Ok (t, RVal (do_get t k), [])
  | ORm k => let '(t', z, evs) := do_rm fx t k in Ok (t', RInt z, evs)
  | OCount => Ok (t, RInt (do_count t), [])
  | OForeach stop =>
    match foreach_loop fx (S (size_t (t_root t))) (t_root t) (new_iter None) stop 0 [] with
    | Ok (r, evs) => Ok (set_root t r, RUnit, evs)
    | Err e => Err e
    end
  | OIterCreate h pre =>
    Ok ({| t_root := t_root t; t_len := t_len t; t_next := t_next t; t_iters := iters_set (t_iters t) h (new_iter pre) |},
        RUnit, [])
  | OIterNext h =>
    match iters_get (t_iters t) h with
    | None => Err BadHandle
    | Some it =>
      match iter_next fx (t_root t) it with
      | Err e => Err e
      | Ok (r, it', kv, evs) =>
        Ok ({| t_root := r; t_len := t_len t; t_next := t_next t; t_iters := iters_set (t_iters t) h it' |}, RKV kv, evs)
      end
    end
  | OIterFree h =>
    match iters_get (t_iters t) h with
    | None => Err BadHandle
    | Some it =>
      match iter_free (t_root t) it with
      | Err e => Err e
      | Ok (r, evs) =>
        Ok ({| t_root := r; t_len := t_len t; t_next := t_next t; t_iters := iters_del (t_iters t) h |}, RUnit, evs)
      end
    end
  | ONotifyAdd k fn events ud => let '(t', z) := do_notify_add fx t k fn events ud in Ok (t', RInt z, [])
  | ONotifyDel k fn events => let '(t', z) := do_notify_del t k fn events false 0 in Ok (t', RInt z, [])
  | ONotifyDel2 k fn events ud => let '(t', z) := do_notify_del t k fn events true ud in Ok (t', RInt z, [])
  | ODestroy =>
    match destroy_loop (S (size_t (t_root t))) (t_root t) 0 [] with
    | Ok (r, evs) => Ok (set_root t r, RUnit, evs)
    | Err e => Err e
    end
  end.

(* ---------- guard of the known finding C18-trie-split-parked ----------
   id of the node trie_insert(key) would split (trie_node_split), if any *)
Fixpoint spl_t (n : tnode) (k : key) {struct n} : option nat :=
  match n with
  | TN i seg f =>
    match strip seg k 0 with
    | SKeyEnd sc => if sc <? length seg then Some (n_id i) else None
    | SMismatch _ _ _ => Some (n_id i)
    | SSegEnd c k' => spl_f f (c2i c) k'
    end
  end
with spl_f (f : forest) (j : nat) (k : key) {struct f} : option nat :=
  match f with
  | FNil => None
  | FCons c f' =>
    match j with
    | 0 => match c with Some t => spl_t t k | None => None end
    | S j' => spl_f f' j' k
    end
  end.

Definition parked_on (its : list (nat * iter)) (id : nat) : bool :=
  existsb (fun hi => match it_n (snd hi) with Some x => x =? id | None => false end) its.

(* true = the operation does not split a node an iterator is parked on *)
Definition guard_split (t : trie) (o : op) : bool :=
  match (match o with OPut k _ => Some k | ONotifyAdd (Some k) _ _ _ => Some k | _ => None end) with
  | Some k => match spl_t (t_root t) k with Some id => negb (parked_on (t_iters t) id) | None => true end
  | None => true
  end.

(* a history: the outputs and callback events of every operation, in order; the first error stops the run *)
Fixpoint run (fx : fixes) (t : trie) (ops : list op) : list (out * list ev) * res trie :=
  match ops with
  | [] => ([], Ok t)
  | o :: ops' =>
    match step fx t o with
    | Err e => ([], Err e)
    | Ok (t', r, evs) => let '(outs, fin) := run fx t' ops' in ((r, evs) :: outs, fin)
    end
  end.
