(* C18 trie part, coverage (3): the explicit form of what trie_iter_next / trie_iter_free compute. *)
From Coq Require Import List ZArith Bool Arith Lia.
Import ListNotations.
Require Import Verif.gen.Consts_trie Verif.MapTrieModel Verif.MapTrieProofs Verif.MapTrieProofs2 Verif.MapTrieIter
               Verif.MapTrieIds Verif.MapTrieIter3 Verif.MapTrieIter4 Verif.MapTrieSafe1 Verif.MapTrieSafe2
               Verif.MapTrieSafe3 Verif.MapTrieSafe4 Verif.MapTrieSafe5.

(* the position of an iterator without prefix: path and node *)
Definition at_pos (r : tnode) (it : iter) (pp : path) (tnp : tnode) : Prop :=
  exists pid, it_n it = Some pid /\ find_t r pid = Some pp /\ get_at r pp = Some tnp /\ n_id (t_info tnp) = pid.

Lemma iter_pos : forall t h it pid, SafT t -> iters_get (t_iters t) h = Some it -> it_n it = Some pid ->
  exists pp tnp, at_pos (t_root t) it pp tnp /\ (pid = 0 <-> pp = []) /\ (pid <> 0 -> 1 <= parked (t_iters t) pid).
Proof.
  intros t h it pid HS G N. unfold SafT in HS. destruct (sf_ids _ _ _ HS) as [U [_ [H0 _]]].
  assert (FR : find_t (t_root t) 0 = Some []) by (pose proof (find_root (t_root t)) as X; rewrite H0 in X; exact X).
  assert (P1 : pid <> 0 -> 1 <= parked (t_iters t) pid).
  { intros _. pose proof (parked_del _ _ _ pid G) as X. unfold on_id in X. simpl in X. rewrite N, Nat.eqb_refl in X. lia. }
  destruct (Nat.eq_dec pid 0) as [e|e].
  - subst pid. exists [], (t_root t). split; [exists 0; auto|]. split; [tauto|auto].
  - destruct (find_some _ _ U (sf_ex _ _ _ HS pid (P1 e) e)) as [pp [tn [F [Gp Ei]]]].
    exists pp, tn. split; [exists pid; auto|]. split; auto. split; [contradiction|].
    intro Z. subst pp. simpl in Gp. inversion Gp; subst tn. congruence.
Qed.

(* trie_iter_next of a plain iterator standing on the node at pp: the successor is computed, the reference moves *)
Lemma iter_next_form : forall r it pp tnp, (forall x, cnt_t r x <= 1) -> n_id (t_info r) = 0 ->
  it_prefix it = None -> it_root it = 0 -> at_pos r it pp tnp ->
  iter_next FX_ALL r it =
  match next_t r pp with
  | None => Ok (fst (node_deref r pp), {| it_prefix := None; it_n := None; it_root := 0 |}, None, snd (node_deref r pp))
  | Some pn =>
    let r2 := fst (node_deref (node_ref r pn) pp) in
    match find_t r2 (id_at r pn) with
    | None => Err (UseAfterFree (id_at r pn))
    | Some pn' => match get_at r2 pn' with
                  | Some nn => Ok (r2, {| it_prefix := None; it_n := Some (id_at r pn); it_root := 0 |},
                                   Some (n_key (t_info nn), n_val (t_info nn)), snd (node_deref (node_ref r pn) pp))
                  | None => Err Stray
                  end
    end
  end.
Proof.
  intros r it pp tnp U H0 PN PR [pid [N [F [Gp Ei]]]].
  assert (FR : find_t r 0 = Some []) by (pose proof (find_root r) as X; rewrite H0 in X; exact X).
  unfold iter_next. rewrite N, F, PN, PR.
  replace (match pp with [] => false | _ :: _ => false end) with false by (destruct pp; reflexivity).
  unfold node_next. rewrite F, FR. cbn [strip_prefix get_at].
  destruct (next_t r pp) as [pn|]; cbn [app].
  - destruct (node_deref (node_ref r pn) pp) as [r2 evs]. simpl. reflexivity.
  - destruct (node_deref r pp) as [r1 evs]. reflexivity.
Qed.

Lemma iter_free_form : forall r it pp tnp, at_pos r it pp tnp -> iter_free r it = Ok (node_deref r pp).
Proof. intros r it pp tnp [pid [N [F _]]]. unfold iter_free. rewrite N, F. reflexivity. Qed.
