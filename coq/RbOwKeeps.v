(* C11, part 2: the overwrite ring always accepts and keeps the newest chunks (RbOwSpec.Keeps), for every
   sequence of writes, at every prefix, and interleaved with the owner's reads / peeks / reclaims;
   reading the contents back (drain of the live ring or of a dump) returns exactly the kept chunks. *)
From Coq Require Import ZArith List Bool Lia ZifyBool.
Import ListNotations.
Require Import Verif.gen.Consts_rb Verif.RbModel Verif.RbSpec Verif.RbMem Verif.RbProofs Verif.RbRefine
               Verif.RbOwSpec Verif.RbOwProofs.
Local Open Scope Z_scope.

Ltac Zify.zify_post_hook ::= Z.div_mod_to_equations.

(* ------------------------------------------------------------------ suffixes *)
Lemma suffix_refl : forall A (l : list A), suffix l l.
Proof. intros; exists []; reflexivity. Qed.
Lemma suffix_nil : forall A (m : list A), suffix [] m.
Proof. intros A m; exists m; symmetry; apply app_nil_r. Qed.
Lemma suffix_trans : forall A (a b c : list A), suffix a b -> suffix b c -> suffix a c.
Proof. intros A a b c (p & ->) (p' & ->). exists (p' ++ p). apply app_assoc. Qed.
Lemma suffix_app_r : forall A (l m t : list A), suffix l m -> suffix (l ++ t) (m ++ t).
Proof. intros A l m t (p & ->). exists p. symmetry; apply app_assoc. Qed.
Lemma suffix_map : forall A B (f : A -> B) l m, suffix l m -> suffix (map f l) (map f m).
Proof. intros A B f l m (p & ->). exists (map f p). apply map_app. Qed.
Lemma suffix_length : forall A (l m : list A), suffix l m -> (length l <= length m)%nat.
Proof. intros A l m (p & ->). rewrite app_length. lia. Qed.

Lemma suffix_snoc_inv : forall A (L m : list A) x, suffix L (m ++ [x]) ->
  L = [] \/ exists l, L = l ++ [x] /\ suffix l m.
Proof.
  intros A L m x (p & Hp). destruct L as [|y L'] eqn:EL; [left; reflexivity|right].
  destruct (exists_last (l := y :: L') ltac:(discriminate)) as (l & z & Hl). rewrite Hl in *.
  rewrite app_assoc in Hp. apply app_inj_tail in Hp. destruct Hp as (-> & ->).
  exists l. split; [reflexivity | exists p; reflexivity].
Qed.

(* two suffixes of the same list: the shorter is a suffix of the longer *)
Lemma suffix_of_suffix : forall A (l k m : list A), suffix l m -> suffix k m -> (length l <= length k)%nat -> suffix l k.
Proof.
  intros A l k m (p1 & H1) (p2 & H2) Hlen. rewrite H1 in H2.
  apply app_eq_app in H2. destruct H2 as (z & [(_ & Hk) | (_ & Hl)]).
  - exists z. exact Hk.
  - subst l. rewrite app_length in Hlen. destruct z; [apply suffix_refl | cbn in Hlen; lia].
Qed.

Lemma lastn_app_length : forall A (p l : list A), lastn (length l) (p ++ l) = l.
Proof.
  intros A p l. unfold lastn. rewrite app_length.
  replace (length p + length l - length l)%nat with (length p) by lia.
  rewrite skipn_app, skipn_all, Nat.sub_diag. reflexivity.
Qed.

Lemma lastn_suffix : forall A n (l : list A), suffix (lastn n l) l.
Proof. intros A n l. unfold lastn. exists (firstn (length l - n) l). symmetry; apply firstn_skipn. Qed.

Lemma lastn_map : forall A B (f : A -> B) n l, map f (lastn n l) = lastn n (map f l).
Proof. intros A B f n l. unfold lastn. rewrite map_length, skipn_map. reflexivity. Qed.

Lemma suffix_lastn : forall A (l m : list A), suffix l m -> l = lastn (length l) m.
Proof. intros A l m (p & ->). symmetry; apply lastn_app_length. Qed.

(* ------------------------------------------------------------------ "fits" *)
Lemma cost_nonneg : forall q, 0 <= cost q.
Proof. induction q as [|c t IH]; cbn [cost]; [lia|]. pose proof (zlen_nonneg c). lia. Qed.

Lemma rfits_from_snoc : forall S l acc r d,
  rfits_from S acc (l ++ [(r, d)]) = rfits_from S acc l && (acc + cost (map snd l) + r + 16 <=? S).
Proof.
  intros S. induction l as [|(r0, d0) t IH]; intros acc r d; cbn [app rfits_from map snd cost].
  - rewrite andb_true_r, Z.add_0_r. reflexivity.
  - rewrite IH. rewrite <- andb_assoc. do 2 f_equal. lia.
Qed.

(* for plain writes (reservation = length) "fits" is  sum (len + 16) <= S *)
Lemma rfits_from_plain : forall S l acc, acc + cost l <= S -> rfits_from S acc (map plain l) = true.
Proof.
  intros S. induction l as [|c t IH]; intros acc H; cbn [map rfits_from plain cost] in *; [reflexivity|].
  pose proof (cost_nonneg t). rewrite IH by lia.
  destruct (acc + zlen c + 16 <=? S) eqn:E; [reflexivity | lia].
Qed.
Lemma rfits_plain : forall S l, cost l <= S -> rfits S (map plain l) = true.
Proof. intros S l H. apply rfits_from_plain. lia. Qed.

(* with reservations of at most R, any n newest chunks with n * (R + 16) <= S fit *)
Lemma rfits_from_uniform : forall S R l acc, Forall (fun w => 0 <= zlen (snd w) <= fst w /\ fst w <= R) l ->
  acc + Z.of_nat (length l) * (R + 16) <= S -> rfits_from S acc l = true.
Proof.
  intros S R. induction l as [|(r, d) t IH]; intros acc HF H; cbn [rfits_from length] in *; [reflexivity|].
  inversion HF as [|? ? Hw Ht]; subst. cbn [fst snd] in Hw.
  assert (HR0 : 0 <= R) by lia.
  assert (0 <= Z.of_nat (length t) * (R + 16)) by (apply Z.mul_nonneg_nonneg; lia).
  rewrite IH; [|assumption|lia].
  destruct (acc + r + 16 <=? S) eqn:E; [reflexivity | lia].
Qed.

(* ------------------------------------------------------------------ one write keeps the newest *)
Lemma ow_write_keeps : forall W S pend q rlen d, S + RB_CHUNK_MARGIN + RB_SIZE_EXTRA <= 4 * W -> rlen <= S ->
  Keeps S pend q ->
  has_room W (drop_until W q rlen) rlen = true /\ Keeps S (pend ++ [(rlen, d)]) (drop_until W q rlen ++ [d]).
Proof.
  intros W S pend q rlen d HS Hr (Hsuf & Hne & Hfit).
  split.
  - destruct (drop_until_room W rlen q) as [H | (_ & H)]; [exact H|].
    rewrite (has_room_single_max W S rlen HS Hr) in H. discriminate.
  - split; [|split].
    + rewrite map_app. cbn [map snd]. apply suffix_app_r.
      apply suffix_trans with (b := q); [apply drop_until_suffix | exact Hsuf].
    + intros _ H. destruct (drop_until W q rlen); discriminate.
    + intros L HL HfL.
      destruct (suffix_snoc_inv _ _ _ _ HL) as [-> | (l & -> & Hl)]; [apply suffix_nil|].
      unfold rfits in HfL. rewrite rfits_from_snoc in HfL. apply andb_prop in HfL. destruct HfL as (Hf1 & Hf2).
      rewrite map_app. cbn [map snd]. apply suffix_app_r.
      apply drop_until_keeps.
      * apply Hfit; assumption.
      * apply Z.leb_le in Hf2. apply has_room_of_fits with (S := S); [assumption | exact Hf2].
Qed.

(* ------------------------------------------------------------------ the owner's operations *)
Lemma spec_step_queue : forall W s o, is_write o = false ->
  sq (fst (spec_step W s o)) = sq s \/ exists c, sq s = c :: sq (fst (spec_step W s o)).
Proof.
  intros W s o Hw. destruct o as [d | rlen d | n | | | | ]; try discriminate; cbn [spec_step].
  - destruct (negb (has_token s)); [left; reflexivity|].
    destruct (sq s) as [|c t] eqn:E; [left; cbn; congruence|].
    destruct (n <? zlen c); [left; cbn; congruence | right; exists c; reflexivity].
  - destruct (negb (has_token s)); [left; reflexivity|].
    destruct (sq s) as [|c t] eqn:E; left; cbn; congruence.
  - destruct (sq s) as [|c t] eqn:E; [left | right; exists c]; reflexivity.
  - left; reflexivity.
  - left; reflexivity.
Qed.

Lemma reader_keeps : forall W S s pend o, is_write o = false -> Keeps S pend (sq s) ->
  Keeps S (ghost_step W s pend o) (sq (fst (ow_spec_step W s o))).
Proof.
  intros W S s pend o Hw HK.
  assert (Heq : ow_spec_step W s o = spec_step W s o) by (destruct o; try discriminate; reflexivity).
  assert (Hg : ghost_step W s pend o =
               if (length (sq (fst (ow_spec_step W s o))) <? length (sq s))%nat
               then lastn (length (sq (fst (ow_spec_step W s o)))) pend else pend)
    by (destruct o; try discriminate; reflexivity).
  rewrite Hg, Heq. clear Hg Heq.
  destruct (spec_step_queue W s o Hw) as [-> | (c & Hc)].
  - rewrite Nat.ltb_irrefl. exact HK.
  - set (t := sq (fst (spec_step W s o))) in *. clearbody t. rewrite Hc. cbn [length].
    replace (length t <? Datatypes.S (length t))%nat with true by (symmetry; apply Nat.ltb_lt; lia).
    rewrite Hc in HK. destruct HK as ((p & Hp) & Hne & _).
    assert (Hm : map snd (lastn (length t) pend) = t).
    { rewrite lastn_map. unfold wchunk in *. rewrite Hp. replace (p ++ c :: t) with ((p ++ [c]) ++ t) by (rewrite <- app_assoc; reflexivity).
      apply lastn_app_length. }
    split; [|split].
    + rewrite Hm. apply suffix_refl.
    + intros Hpn Ht. apply Hpn. destruct (lastn (length t) pend) eqn:E; [reflexivity|].
      rewrite Ht in Hm. discriminate Hm.
    + intros l Hl _. rewrite <- Hm. apply suffix_map. exact Hl.
Qed.

Lemma wf_ow_wf_op : forall S o, wf_ow S o -> wf_op o.
Proof. intros S o; destruct o; cbn; tauto. Qed.

(* one operation of the abstract overwrite ring: Keeps is preserved, a write reports success *)
Lemma ow_spec_step_keeps : forall W S s pend o, S + RB_CHUNK_MARGIN + RB_SIZE_EXTRA <= 4 * W -> wf_ow S o ->
  Keeps S pend (sq s) ->
  Keeps S (ghost_step W s pend o) (sq (fst (ow_spec_step W s o))) /\ write_ok o (snd (ow_spec_step W s o)).
Proof.
  intros W S s pend o HS Hwf HK.
  destruct o as [d | rlen d | n | | | | ];
    try (split; [apply reader_keeps; [reflexivity | exact HK] | exact I]).
  - cbn [wf_ow] in Hwf. cbn [ow_spec_step ghost_step write_ok]. unfold ow_spec_write, plain.
    destruct (ow_write_keeps W S pend (sq s) (zlen d) d HS Hwf HK) as (Hroom & HK').
    rewrite Hroom. cbn [fst snd sq]. split; [exact HK' | reflexivity].
  - cbn [wf_ow] in Hwf. cbn [ow_spec_step ghost_step write_ok]. unfold ow_spec_write.
    destruct (ow_write_keeps W S pend (sq s) rlen d HS ltac:(lia) HK) as (Hroom & HK').
    rewrite Hroom. cbn [fst snd sq]. split; [exact HK' | reflexivity].
Qed.

(* every operation list *)
Theorem ow_spec_run_keeps : forall ops W S s pend, S + RB_CHUNK_MARGIN + RB_SIZE_EXTRA <= 4 * W ->
  Forall (wf_ow S) ops -> Keeps S pend (sq s) ->
  fst (ghost_run W s pend ops) = fst (ow_spec_run W s ops) /\
  Keeps S (snd (ghost_run W s pend ops)) (sq (fst (ow_spec_run W s ops))) /\
  Forall2 write_ok ops (snd (ow_spec_run W s ops)).
Proof.
  induction ops as [|o t IH]; intros W S s pend HS Hwf HK; cbn [ghost_run ow_spec_run].
  - cbn [fst snd]. splits; try assumption; try reflexivity. constructor.
  - inversion Hwf as [|? ? Hwo Hwt]; subst.
    destruct (ow_spec_step_keeps W S s pend o HS Hwo HK) as (HK1 & Hok).
    destruct (ow_spec_step W s o) as (s1, y) eqn:Hss. cbn [fst snd] in *.
    destruct (IH W S s1 (ghost_step W s pend o) HS Hwt HK1) as (H1 & H2 & H3).
    destruct (ow_spec_run W s1 t) as (s2, ys) eqn:Hsr. cbn [fst snd] in *.
    splits; try assumption. constructor; assumption.
Qed.

Lemma keeps_nil : forall S, Keeps S [] [].
Proof.
  intros S. split; [apply suffix_refl | split; [congruence|]].
  intros l (p & Hp) _. destruct p; destruct l; cbn in Hp; try discriminate. apply suffix_refl.
Qed.

(* ------------------------------------------------------------------ the model, every operation list *)
Definition size_ok (S : Z) : Prop := 0 <= S /\ S + RB_CHUNK_MARGIN + RB_SIZE_EXTRA + RB_PAGE_SIZE <= two32.

Theorem ow_general : forall S ns ops, size_ok S -> Forall (wf_ow S) ops ->
  let b0 := rb_open S ns true in
  exists b xs s pend,
    run b0 ops = (b, xs) /\ ~ In OFuel xs /\ Forall2 write_ok ops (map obs_of xs) /\
    ow_spec_run (rW b0) (spec0 ns) ops = (s, map obs_of xs) /\
    ghost_run (rW b0) (spec0 ns) [] ops = (s, pend) /\
    Inv b s /\ Keeps S pend (sq s).
Proof.
  intros S ns ops (HS & Hmax) Hwf b0.
  destruct (open_inv S ns true HS Hmax) as (HI & Ho & _).
  pose proof (rb_open_W S ns true) as (_ & HW). fold b0 in HI, Ho, HW.
  destruct (ow_spec_run (rW b0) (spec0 ns) ops) as (s, ys) eqn:Hsp.
  assert (Hwf' : Forall wf_op ops) by (eapply Forall_impl; [apply wf_ow_wf_op | exact Hwf]).
  destruct (ow_run_refines ops b0 _ HI Ho Hwf' _ _ Hsp) as (b & xs & Hrun & HI' & Hys & Hnf & _).
  destruct (ow_spec_run_keeps ops (rW b0) S (spec0 ns) [] HW Hwf (keeps_nil S)) as (H1 & H2 & H3).
  rewrite Hsp in H1, H2, H3. cbn [fst snd] in *.
  destruct (ghost_run (rW b0) (spec0 ns) [] ops) as (s1, pend) eqn:Hg. cbn [fst snd] in *. subst s1.
  exists b, xs, s, pend. rewrite Hys. splits; try assumption; reflexivity.
Qed.

(* ------------------------------------------------------------------ sequences of writes, directly on the model *)
Definition wf_w (S : Z) (w : wchunk) : Prop := 0 <= zlen (snd w) <= fst w /\ fst w <= S.

Lemma ow_writes_keeps : forall S ws b s pend, S + RB_CHUNK_MARGIN + RB_SIZE_EXTRA <= 4 * rW b ->
  Inv b s -> ovw b = true -> Keeps S pend (sq s) -> Forall (wf_w S) ws ->
  exists b' s', ow_writes b ws = Some b' /\ Inv b' s' /\ Keeps S (pend ++ ws) (sq s') /\
                rW b' = rW b /\ ovw b' = true /\
                stok s' = match stok s with Some c => Some (c + Z.of_nat (length ws)) | None => None end.
Proof.
  intros S. induction ws as [|(rlen, d) t IH]; intros b s pend HS HI Ho HK Hwf; cbn [ow_writes].
  - exists b, s. rewrite app_nil_r. splits; try assumption; try reflexivity.
    destruct (stok s); [f_equal; cbn; lia | reflexivity].
  - inversion Hwf as [|? ? (Hd & Hr) Hwt]; subst. cbn [fst snd] in Hd, Hr.
    destruct (ow_write_keeps (rW b) S pend (sq s) rlen d HS Hr HK) as (Hroom & HK1).
    destruct (ow_spec_write (rW b) s rlen d 0) as (s1, y) eqn:Hsp.
    destruct (ow_alloc_commit_refines b s rlen d 0 HI Ho Hd _ _ Hsp) as (b1 & r & Hac & HI1 & Hy & Hr01 & HW1 & Ho1).
    unfold ow_spec_write in Hsp. rewrite Hroom in Hsp.
    assert (Hs1 : s1 = {| sq := drop_until (rW b) (sq s) rlen ++ [d]; stok := tok_add s 1 |}) by congruence.
    assert (Hy0 : y = Some (0, [])) by congruence. clear Hsp. subst s1.
    assert (r = 0).
    { destruct Hr01 as [-> | ->]; [reflexivity|]. rewrite einval_nz in Hy. rewrite Hy0 in Hy.
      destruct neg_errno_lt0 as (_ & _ & _ & _ & LtI). inversion Hy; lia. }
    subst r. rewrite Hac. change (0 =? 0) with true. cbv iota.
    rewrite <- HW1 in HS.
    destruct (IH b1 _ (pend ++ [(rlen, d)]) HS HI1 Ho1 HK1 Hwt) as (b2 & s2 & Hws & HI2 & HK2 & HW2 & Ho2 & Ht2).
    exists b2, s2. rewrite <- app_assoc in HK2. cbn [app] in HK2.
    splits; try assumption; try congruence.
    rewrite Ht2. cbn [stok tok_add length]. unfold tok_add. destruct (stok s); [f_equal; lia | reflexivity].
Qed.

(* ------------------------------------------------------------------ reading back *)
Definition enough_tokens (s : spec) : Prop :=
  match stok s with None => True | Some k => Z.of_nat (length (sq s)) <= k end.

Lemma drain_all : forall q fuel b s n, Inv b s -> sq s = q -> enough_tokens s -> (length q < fuel)%nat ->
  Forall (fun c => zlen c <= n) q -> drain fuel b n = q.
Proof.
  induction q as [|c t IH]; intros fuel b s n HI Hq Htok Hfuel Hn;
    (destruct fuel as [|f]; [cbn in Hfuel; lia|]); cbn [drain].
  - destruct (read_empty_fails b s n HI Hq) as (b' & r & Hr & Hneg & _). rewrite Hr.
    destruct (r <? 0) eqn:E; [reflexivity | lia].
  - inversion Hn as [|? ? Hc Ht]; subst.
    assert (Hht : has_token s = true).
    { unfold enough_tokens in Htok. unfold has_token. rewrite Hq in Htok. cbn [length] in Htok.
      destruct (stok s); [lia | reflexivity]. }
    destruct (read_delivers_head b s n c t HI Hq Hht) as (b' & Hr & HI').
    destruct (n <? zlen c) eqn:E; [lia|]. rewrite Hr.
    pose proof (zlen_nonneg c). destruct (zlen c <? 0) eqn:E2; [lia|].
    f_equal. eapply IH; [exact HI' | reflexivity | | cbn [length] in Hfuel; lia | exact Ht].
    unfold enough_tokens in *. cbn [stok sq]. unfold tok_add. rewrite Hq in Htok. cbn [length] in Htok.
    destruct (stok s); lia.
Qed.

Lemma readback_repr : forall b q n, Repr b q -> Forall (fun c => zlen c <= n) q -> readback b n = q.
Proof.
  intros b q n HR Hn. unfold readback.
  apply drain_all with (s := {| sq := q; stok := None |}).
  - split; [exact HR | reflexivity].
  - reflexivity.
  - exact I.
  - exact (fuel_enough _ _ HR).
  - exact Hn.
Qed.

(* ------------------------------------------------------------------ C11_suffix *)
Theorem ow_suffix : forall S ns ws n, size_ok S -> Forall (wf_w S) ws -> Forall (fun w => zlen (snd w) <= n) ws ->
  exists b kept,
    ow_writes (rb_open S ns true) ws = Some b /\
    suffix kept ws /\ (ws <> [] -> kept <> []) /\
    (forall l, suffix l ws -> rfits S l = true -> suffix l kept) /\
    Repr b (map snd kept) /\
    readback b n = map snd kept /\
    drain (Datatypes.S (length kept)) b n = map snd kept.
Proof.
  intros S ns ws n (HS & Hmax) Hwf Hn.
  destruct (open_inv S ns true HS Hmax) as (HI & Ho & _).
  pose proof (rb_open_W S ns true) as (_ & HW).
  destruct (ow_writes_keeps S ws _ _ [] HW HI Ho (keeps_nil S) Hwf) as (b & s & Hws & HI' & HK & _ & _ & Htok).
  cbn [app] in HK. destruct HK as (Hsuf & Hne & Hfit).
  set (kept := lastn (length (sq s)) ws).
  assert (Hkept : map snd kept = sq s).
  { subst kept. rewrite lastn_map. destruct Hsuf as (p & Hp). unfold wchunk in *. rewrite Hp.
    apply lastn_app_length. }
  assert (Hlen : length kept = length (sq s)) by (rewrite <- Hkept, map_length; reflexivity).
  assert (Hksuf : suffix kept ws) by apply lastn_suffix.
  assert (Hnk : Forall (fun c => zlen c <= n) (sq s)).
  { rewrite <- Hkept. apply Forall_forall. intros c Hc. apply in_map_iff in Hc. destruct Hc as (w & <- & Hw).
    destruct Hksuf as (p & Hp). rewrite Forall_forall in Hn. apply Hn. rewrite Hp. apply in_or_app. right; exact Hw. }
  exists b, kept. rewrite Hkept. splits; try assumption.
  - intros Hw Hk. subst kept. rewrite Hk in Hkept. cbn in Hkept. apply (Hne Hw). congruence.
  - intros l Hl Hf. apply suffix_of_suffix with (m := ws); try assumption.
    pose proof (suffix_length _ _ _ (Hfit l Hl Hf)) as Hll. rewrite map_length in Hll. rewrite Hlen. exact Hll.
  - apply HI'.
  - apply readback_repr; [apply HI' | exact Hnk].
  - apply drain_all with (s := s); try assumption; try reflexivity; [|lia].
    unfold enough_tokens. rewrite Htok. cbn [spec0 stok]. destruct ns; [exact I|].
    pose proof (suffix_length _ _ _ Hksuf). lia.
Qed.

(* qb_rb_chunk_write sequences: the kept chunks include every run of newest chunks with sum(len+16) <= S *)
Corollary ow_suffix_writes : forall S ns ds n, size_ok S -> Forall (fun d => zlen d <= S) ds ->
  Forall (fun d => zlen d <= n) ds ->
  exists b kept,
    ow_writes (rb_open S ns true) (map plain ds) = Some b /\
    suffix kept ds /\ (ds <> [] -> kept <> []) /\
    (forall l, suffix l ds -> cost l <= S -> suffix l kept) /\
    Repr b kept /\ readback b n = kept.
Proof.
  intros S ns ds n Hs Hle Hn.
  assert (Hwf : Forall (wf_w S) (map plain ds)).
  { apply Forall_forall. intros w Hw. apply in_map_iff in Hw. destruct Hw as (d & <- & Hd).
    rewrite Forall_forall in Hle. specialize (Hle d Hd). unfold wf_w, plain; cbn [fst snd].
    pose proof (zlen_nonneg d). lia. }
  assert (Hn' : Forall (fun w => zlen (snd w) <= n) (map plain ds)).
  { apply Forall_forall. intros w Hw. apply in_map_iff in Hw. destruct Hw as (d & <- & Hd).
    rewrite Forall_forall in Hn. exact (Hn d Hd). }
  destruct (ow_suffix S ns (map plain ds) n Hs Hwf Hn') as (b & kept & Hws & Hsuf & Hne & Hfit & HR & Hrb & _).
  assert (Hms : forall l : list chunk, map snd (map plain l) = l).
  { induction l as [|x t IH]; cbn; [reflexivity | f_equal; exact IH]. }
  exists b, (map snd kept). splits; try assumption.
  - rewrite <- (Hms ds). apply suffix_map. exact Hsuf.
  - intros Hd Hk. apply Hne; [destruct ds; [congruence | discriminate] | destruct kept; [reflexivity | discriminate]].
  - intros l Hl Hc. rewrite <- (Hms l). apply suffix_map. apply Hfit.
    + apply suffix_map. exact Hl.
    + apply rfits_plain. exact Hc.
Qed.
