(* C07: the ring-buffer transcription (RbModel.v) refines the FIFO specification (RbSpec.v).
   Representation invariant `Repr', preservation by every operation, capacity arithmetic. *)
From Coq Require Import ZArith List Bool Lia ZifyBool.
Import ListNotations.
Require Import Verif.gen.Consts_rb Verif.RbModel Verif.RbSpec Verif.RbMem.
Local Open Scope Z_scope.

Ltac Zify.zify_post_hook ::= Z.div_mod_to_equations.

(* The structural constants regenerated from the working tree, as the proofs use them.  A change of
   any of them in lib/ringbuffer.c makes this lemma (and hence everything below) fail to check. *)
Lemma consts_ok :
  RB_CHUNK_HEADER_WORDS = 2 /\ RB_CHUNK_MARGIN = 4 * (RB_CHUNK_HEADER_WORDS + 1) /\ RB_WORD_ALIGN = 1 /\
  RB_CACHE_LINE_WORDS = 0 /\ RB_SIZEOF_WORD = 4 /\ RB_SIZE_EXTRA = 1 /\
  0 < RB_PAGE_SIZE /\ RB_PAGE_SIZE mod 4 = 0 /\
  0 <= RB_CHUNK_MAGIC < two32 /\ 0 <= RB_CHUNK_MAGIC_DEAD < two32 /\ 0 <= RB_CHUNK_MAGIC_ALLOC < two32 /\
  RB_CHUNK_MAGIC <> RB_CHUNK_MAGIC_DEAD /\ RB_CHUNK_MAGIC <> RB_CHUNK_MAGIC_ALLOC /\
  0 < RB_EAGAIN /\ 0 < RB_ETIMEDOUT /\ 0 < RB_EBADMSG /\ 0 < RB_ENOBUFS /\ 0 < RB_EINVAL.
Proof. vm_compute. repeat split; congruence. Qed.

Ltac rbc := unfold RB_CHUNK_HEADER_WORDS, RB_CHUNK_MARGIN, RB_WORD_ALIGN, RB_SIZEOF_WORD, RB_SIZE_EXTRA in *.

(* ------------------------------------------------------------------ sizes *)
Lemma cw_ge2 : forall n, 0 <= n -> 2 <= cw n.
Proof. intros; unfold cw; lia. Qed.
Lemma cw_bytes : forall n, 0 <= n -> n + 8 <= 4 * cw n <= n + 11.
Proof. intros; unfold cw; lia. Qed.
Lemma cw_mono : forall a b, 0 <= a <= b -> cw a <= cw b.
Proof. intros; unfold cw; lia. Qed.
Lemma used_nonneg : forall q, 0 <= used q.
Proof.
  induction q as [|c t IH]; cbn [used]; [lia|].
  pose proof (cw_ge2 (zlen c) (zlen_nonneg c)); lia.
Qed.
Lemma used_app : forall q d, used (q ++ [d]) = used q + cw (zlen d).
Proof. induction q as [|c t IH]; intros d; cbn [used app]; [lia | rewrite IH; lia]. Qed.
Lemma used_cons_ge2 : forall c t, 2 <= used (c :: t).
Proof.
  intros; cbn [used]. pose proof (cw_ge2 (zlen c) (zlen_nonneg c)). pose proof (used_nonneg t). lia.
Qed.

Lemma chunk_step_eq : forall W p n, 0 < W -> 0 <= p -> 0 <= n -> chunk_step W p n = (p + cw n) mod W.
Proof.
  intros W p n HW Hp Hn; unfold chunk_step, cw; rbc.
  replace (p + 2 + n / 4 + (if n mod (4 * 1) =? 0 then 0 else 1)) with (p + (2 + (n + 3) / 4))
    by (destruct (n mod (4 * 1) =? 0) eqn:E; lia).
  set (p1 := p + (2 + (n + 3) / 4)).
  destruct (W - 1 <? p1) eqn:E; [reflexivity|].
  symmetry; apply Z.mod_small. subst p1; lia.
Qed.

(* ------------------------------------------------------------------ layout of the queue in memory *)
(* P is a LOGICAL word position (it may run past W; physical index = P mod W, physical byte = . mod 4W) *)
Fixpoint chunks_at (m : mem) (W P : Z) (q : list chunk) : Prop :=
  match q with
  | [] => True
  | c :: t =>
      ldw m (P mod W) = zlen c /\
      ldw m ((P + 1) mod W) = RB_CHUNK_MAGIC /\
      (forall k, 0 <= k < zlen c -> ld m ((4 * (P + 2) + k) mod (4 * W)) = nth (Z.to_nat k) c 0) /\
      chunks_at m W (P + cw (zlen c)) t
  end.

Definition same_on (m m' : mem) (W4 lo hi : Z) : Prop :=
  forall A, lo <= A < hi -> ld m' (A mod W4) = ld m (A mod W4).

Lemma chunks_at_frame : forall q m m' W P, 0 < W ->
  chunks_at m W P q -> same_on m m' (4 * W) (4 * P) (4 * (P + used q)) -> chunks_at m' W P q.
Proof.
  induction q as [|c t IH]; intros m m' W P HW Hc Hs; cbn [chunks_at] in *; [exact I|].
  destruct Hc as (Hsz & Hmg & Hpay & Htl).
  cbn [used] in Hs.
  pose proof (cw_bytes (zlen c) (zlen_nonneg c)) as Hcw.
  pose proof (zlen_nonneg c) as Hzc.
  pose proof (used_nonneg t) as Hut.
  repeat split.
  - rewrite <- Hsz. apply ldw_ext; intros j Hj.
    rewrite byte_addr_small by lia. apply Hs; lia.
  - rewrite <- Hmg. apply ldw_ext; intros j Hj.
    rewrite byte_addr_small by lia. apply Hs; lia.
  - intros k Hk. rewrite <- Hpay by assumption. apply Hs; lia.
  - apply IH with (m := m); try assumption.
    intros A HA. apply Hs; lia.
Qed.

Lemma chunks_at_shift : forall q m W P t, 0 < W -> chunks_at m W P q -> chunks_at m W (P + W * t) q.
Proof.
  induction q as [|c tl IH]; intros m W P t HW Hc; cbn [chunks_at] in *; [exact I|].
  destruct Hc as (Hsz & Hmg & Hpay & Htl).
  repeat split.
  - rewrite mod_shift by lia; assumption.
  - replace (P + W * t + 1) with (P + 1 + W * t) by lia. rewrite mod_shift by lia; assumption.
  - intros k Hk.
    replace (4 * (P + W * t + 2) + k) with (4 * (P + 2) + k + (4 * W) * t) by lia.
    rewrite mod_shift by lia. apply Hpay; assumption.
  - replace (P + W * t + cw (zlen c)) with (P + cw (zlen c) + W * t) by lia.
    apply IH; assumption.
Qed.

Lemma chunks_at_mod : forall q m W P, 0 < W -> chunks_at m W P q -> chunks_at m W (P mod W) q.
Proof.
  intros q m W P HW H.
  replace (P mod W) with (P + W * (- (P / W))) by (rewrite Z.mod_eq by lia; lia).
  apply chunks_at_shift; assumption.
Qed.

Lemma chunks_at_app : forall q m W P d,
  chunks_at m W P (q ++ [d]) <-> chunks_at m W P q /\ chunks_at m W (P + used q) [d].
Proof.
  induction q as [|c t IH]; intros m W P d; cbn [app used].
  - rewrite Z.add_0_r. cbn [chunks_at]. tauto.
  - cbn [chunks_at]. rewrite IH.
    replace (P + cw (zlen c) + used t) with (P + (cw (zlen c) + used t)) by lia.
    cbn [chunks_at]. tauto.
Qed.

(* ------------------------------------------------------------------ stores, in logical coordinates *)
Lemma ld_stw_logical : forall m W Y v A, 0 < W ->
  (A < 4 * Y \/ 4 * Y + 4 <= A) -> 4 * Y + 4 - 4 * W <= A < 4 * Y + 4 * W ->
  ld (stw m (Y mod W) v) (A mod (4 * W)) = ld m (A mod (4 * W)).
Proof.
  intros m W Y v A HW Hout Hwin.
  pose proof (Z.mod_pos_bound Y W HW) as Hy.
  pose proof (Z.mod_pos_bound A (4 * W) ltac:(lia)) as Ha.
  apply ld_stw_other; try lia.
  destruct (Z_lt_dec (A mod (4 * W)) (4 * (Y mod W))) as [|Hge]; [left; assumption|].
  destruct (Z_le_dec (4 * (Y mod W) + 4) (A mod (4 * W))) as [|Hlt]; [right; assumption|].
  exfalso.
  set (j := A mod (4 * W) - 4 * (Y mod W)).
  assert (Hj : 0 <= j < 4) by (subst j; lia).
  assert (Heq : A mod (4 * W) = (4 * Y + j) mod (4 * W)).
  { rewrite <- byte_addr_small by lia. subst j; lia. }
  apply mod_inj_window in Heq; lia.
Qed.

Lemma ld_write_bytes_logical : forall d m W X A, 0 < W ->
  (A < 4 * X \/ 4 * X + zlen d <= A) -> 4 * X + zlen d - 4 * W <= A < 4 * X + 4 * W ->
  ld (write_bytes m (4 * W) (4 * (X mod W)) d) (A mod (4 * W)) = ld m (A mod (4 * W)).
Proof.
  intros d m W X A HW Hout Hwin.
  apply ld_write_bytes_other; [lia | apply Z.mod_pos_bound; lia |].
  intros k Hk Heq. rewrite byte_addr in Heq by lia.
  apply mod_inj_window in Heq; lia.
Qed.

Lemma ld_write_bytes_logical_in : forall d m W X k, 0 < W -> zlen d <= 4 * W -> 0 <= k < zlen d ->
  ld (write_bytes m (4 * W) (4 * (X mod W)) d) ((4 * X + k) mod (4 * W)) = nth (Z.to_nat k) d 0.
Proof.
  intros d m W X k HW Hlen Hk.
  rewrite <- byte_addr by lia.
  apply ld_write_bytes_in; lia.
Qed.

Lemma succ_mod_neq : forall W P, 2 <= W -> (P + 1) mod W <> P mod W.
Proof. intros W P HW H. apply mod_inj_window in H; lia. Qed.

(* ------------------------------------------------------------------ representation invariant *)
Definition Repr (b : rb) (q : list chunk) : Prop :=
  2 <= rW b /\ 4 * rW b <= two32 /\ 0 <= rpt b < rW b /\ used q <= rW b - 1 /\
  wpt b = (rpt b + used q) mod rW b /\ chunks_at (data b) (rW b) (rpt b) q.

Lemma Repr_set_sem : forall b q s, Repr b q -> Repr (set_sem b s) q.
Proof. intros b q s H; exact H. Qed.
Lemma Repr_sem_post : forall b q, Repr b q -> Repr (sem_post b) q.
Proof. intros b q H; unfold sem_post; destruct (sem b); [apply Repr_set_sem|]; exact H. Qed.

Lemma wpt_cases : forall b q, Repr b q ->
  wpt b = if rpt b + used q <? rW b then rpt b + used q else rpt b + used q - rW b.
Proof.
  intros b q (HW & _ & Hr & Hu & Hw & _). pose proof (used_nonneg q).
  rewrite Hw. apply mod_small_or_wrap; lia.
Qed.

Lemma space_free_repr : forall b q, Repr b q -> space_free b = free_bytes (rW b) q.
Proof.
  intros b q HR. pose proof (wpt_cases b q HR) as Hw.
  destruct HR as (HW & _ & Hr & Hu & _ & _). pose proof (used_nonneg q) as Hq.
  unfold space_free, free_words, free_bytes; rbc.
  destruct (rpt b + used q <? rW b) eqn:E1; destruct (used q =? 0) eqn:E2;
    destruct (rpt b <? wpt b) eqn:E3; destruct (wpt b <? rpt b) eqn:E4; lia.
Qed.

Lemma wpt_neq_rpt : forall b c t, Repr b (c :: t) -> rpt b <> wpt b.
Proof.
  intros b c t HR. pose proof (wpt_cases _ _ HR) as Hw.
  destruct HR as (HW & _ & Hr & Hu & _ & _). pose proof (used_cons_ge2 c t).
  destruct (rpt b + used (c :: t) <? rW b) eqn:E; lia.
Qed.

Lemma wpt_eq_rpt : forall b, Repr b [] -> wpt b = rpt b.
Proof.
  intros b (HW & _ & Hr & _ & Hw & _). cbn [used] in Hw. rewrite Z.add_0_r in Hw.
  rewrite Hw. apply Z.mod_small; lia.
Qed.

(* ------------------------------------------------------------------ the reader side on a non-empty queue *)
Lemma head_marker : forall b c t, Repr b (c :: t) ->
  ldw (data b) ((rpt b + 1) mod rW b) = RB_CHUNK_MAGIC.
Proof. intros b c t (_ & _ & _ & _ & _ & Hc). cbn [chunks_at] in Hc. tauto. Qed.

Lemma head_size : forall b c t, Repr b (c :: t) -> ldw (data b) (rpt b) = zlen c.
Proof.
  intros b c t (HW & _ & Hr & _ & _ & Hc). cbn [chunks_at] in Hc.
  destruct Hc as (Hsz & _). rewrite Z.mod_small in Hsz by lia. exact Hsz.
Qed.

Lemma chunk_ready_head : forall b c t, Repr b (c :: t) -> chunk_ready b = true.
Proof.
  intros b c t HR. unfold chunk_ready.
  rewrite (head_marker _ _ _ HR). pose proof (wpt_neq_rpt _ _ _ HR).
  rewrite Z.eqb_refl. destruct (rpt b =? wpt b) eqn:E; [lia | reflexivity].
Qed.

Lemma chunk_ready_empty : forall b, Repr b [] -> chunk_ready b = false.
Proof.
  intros b HR. unfold chunk_ready. rewrite (wpt_eq_rpt _ HR), Z.eqb_refl. reflexivity.
Qed.

Lemma head_bytes : forall b c t, Repr b (c :: t) -> chunk_bytes b (zlen c) = c.
Proof.
  intros b c t (HW & _ & Hr & _ & _ & Hc). cbn [chunks_at] in Hc.
  destruct Hc as (_ & _ & Hpay & _).
  unfold chunk_bytes; rbc. rewrite to_nat_zlen.
  apply read_bytes_spec. intros k Hk.
  rewrite byte_addr by lia. apply Hpay; assumption.
Qed.

Lemma reclaim_head : forall b c t, Repr b (c :: t) ->
  exists b', reclaim b = (b', 0) /\ Repr b' t /\
             rW b' = rW b /\ sem b' = sem b /\ ovw b' = ovw b /\ wpt b' = wpt b.
Proof.
  intros b c t HR.
  pose proof (head_marker _ _ _ HR) as Hmg. pose proof (head_size _ _ _ HR) as Hsz.
  pose proof (wpt_neq_rpt _ _ _ HR) as Hne.
  unfold reclaim. rewrite Hmg, Hsz, Z.eqb_refl.
  destruct (rpt b =? wpt b) eqn:E; [lia|]. cbn [orb negb].
  eexists; split; [reflexivity|].
  destruct HR as (HW & HW32 & Hr & Hu & Hw & Hc).
  cbn [used] in Hu, Hw. cbn [chunks_at] in Hc. destruct Hc as (_ & _ & _ & Htl).
  pose proof (cw_ge2 (zlen c) (zlen_nonneg c)) as Hcw. pose proof (used_nonneg t) as Hut.
  pose proof (zlen_nonneg c) as Hzc.
  rewrite chunk_step_eq by lia.
  set (r' := (rpt b + cw (zlen c)) mod rW b).
  assert (G1 : 0 <= r' < rW b) by (apply Z.mod_pos_bound; lia).
  assert (G2 : wpt b = (r' + used t) mod rW b).
  { subst r'. rewrite Zplus_mod_idemp_l. rewrite Hw. f_equal; lia. }
  assert (G3 : chunks_at (stw (stw (data b) (rpt b) 0) ((rpt b + 1) mod rW b) RB_CHUNK_MAGIC_DEAD) (rW b) r' t).
  { subst r'. apply chunks_at_mod; [lia|].
    apply chunks_at_frame with (m := data b); [lia | assumption |].
    intros A HA.
    rewrite <- (Z.mod_small (rpt b) (rW b)) at 1 by lia.
    rewrite !ld_stw_logical by lia. reflexivity. }
  unfold Repr; cbn [rW rpt wpt data sem ovw].
  repeat split; try assumption; lia.
Qed.

Lemma reclaim_empty : forall b, Repr b [] -> reclaim b = (b, - RB_EINVAL).
Proof.
  intros b HR. unfold reclaim. rewrite (wpt_eq_rpt _ HR), Z.eqb_refl. reflexivity.
Qed.

(* ------------------------------------------------------------------ the writer side *)
(* alloc_header; memcpy; commit  when there is room for the chunk: the queue grows at its tail *)
Definition put_result (b : rb) (d : chunk) : rb * Z :=
  match alloc_header b with
  | AOk b1 p => commit (set_data b1 (write_bytes (data b1) (4 * rW b1) (4 * p) d)) (zlen d)
  | _ => (b, -1)
  end.

Lemma put_chunk_repr : forall b q d, Repr b q -> used q + cw (zlen d) <= rW b - 1 ->
  exists b', put_result b d = (b', 0) /\ Repr b' (q ++ [d]) /\
             rW b' = rW b /\ ovw b' = ovw b /\ rpt b' = rpt b /\
             sem b' = match sem b with Some c => Some (c + 1) | None => None end.
Proof.
  intros b q d HR Hroom.
  destruct HR as (HW & HW32 & Hr & Hu & Hw & Hc).
  pose proof (used_nonneg q) as Huq. pose proof (zlen_nonneg d) as Hzd.
  pose proof (cw_bytes (zlen d) Hzd) as Hcw.
  set (W := rW b) in *. set (WP := rpt b + used q) in *.
  assert (Hw1 : (wpt b + 1) mod W = (WP + 1) mod W) by (rewrite Hw; apply Zplus_mod_idemp_l).
  assert (Hw2 : (wpt b + 2) mod W = (WP + 2) mod W) by (rewrite Hw; apply Zplus_mod_idemp_l).
  unfold put_result, alloc_header, commit. rbc. cbn [rW wpt rpt data sem ovw set_data].
  fold W. rewrite Hw1, Hw2. rewrite Hw.
  set (m2 := stw (stw (data b) (WP mod W) 0) ((WP + 1) mod W) RB_CHUNK_MAGIC_ALLOC).
  set (m3 := write_bytes m2 (4 * W) (4 * ((WP + 2) mod W)) d).
  set (m4 := stw m3 (WP mod W) (zlen d)).
  set (m5 := stw m4 ((WP + 1) mod W) RB_CHUNK_MAGIC).
  assert (Hpos : 0 <= WP mod W < W) by (apply Z.mod_pos_bound; lia).
  assert (Hpos1 : 0 <= (WP + 1) mod W < W) by (apply Z.mod_pos_bound; lia).
  assert (Hsz4 : ldw m4 (WP mod W) = zlen d).
  { subst m4. rewrite ldw_stw_same by lia. apply Z.mod_small. unfold two32 in *; lia. }
  rewrite Hsz4.
  rewrite chunk_step_eq by lia.
  assert (Hsame : same_on (data b) m5 (4 * W) (4 * rpt b) (4 * WP)).
  { intros A HA. subst m5 m4 m3 m2.
    rewrite ld_stw_logical by lia. rewrite ld_stw_logical by lia.
    rewrite ld_write_bytes_logical by lia.
    rewrite ld_stw_logical by lia. rewrite ld_stw_logical by lia. reflexivity. }
  assert (Hnew : chunks_at m5 W WP [d]).
  { cbn [chunks_at]. repeat split.
    - subst m5. rewrite ldw_stw_other; [exact Hsz4 | lia | lia |]. apply succ_mod_neq; lia.
    - subst m5. rewrite ldw_stw_same by lia. apply Z.mod_small.
      pose proof consts_ok; tauto.
    - intros k Hk. subst m5 m4.
      rewrite ld_stw_logical by lia. rewrite ld_stw_logical by lia.
      subst m3. apply ld_write_bytes_logical_in; lia. }
  eexists; split; [reflexivity|].
  assert (G : Repr {| rW := W; wpt := (WP mod W + cw (zlen d)) mod W; rpt := rpt b; data := m5;
                      sem := sem b; ovw := ovw b |} (q ++ [d])).
  { unfold Repr; cbn [rW rpt wpt data sem ovw]. rewrite used_app.
    repeat split; try lia.
    - rewrite Zplus_mod_idemp_l. f_equal. subst WP; lia.
    - apply chunks_at_app. split; [|exact Hnew].
      apply chunks_at_frame with (m := data b); [lia | exact Hc | exact Hsame]. }
  split; [apply Repr_sem_post; exact G|].
  unfold sem_post; cbn [sem]. destruct (sem b); cbn; repeat split; reflexivity.
Qed.

(* ------------------------------------------------------------------ capacity arithmetic *)
Lemma has_room_used : forall W q rlen n, 0 <= n <= rlen -> has_room W q rlen = true ->
  used q + cw n <= W - 1.
Proof.
  intros W q rlen n Hn Ha. unfold has_room, free_bytes in Ha; rbc.
  pose proof (used_nonneg q). pose proof (cw_bytes n ltac:(lia)).
  destruct (used q =? 0) eqn:E; lia.
Qed.

Lemma used_le_cost : forall q, 4 * used q <= cost q - 5 * Z.of_nat (length q).
Proof.
  induction q as [|c t IH]; cbn [used cost length]; [lia|].
  pose proof (cw_bytes (zlen c) (zlen_nonneg c)). lia.
Qed.

(* the contract of the requested size S: 4*W >= S + margin + 1 *)
Lemma has_room_of_fits : forall W S q rlen, S + RB_CHUNK_MARGIN + RB_SIZE_EXTRA <= 4 * W ->
  cost q + rlen + 16 <= S -> has_room W q rlen = true.
Proof.
  intros W S q rlen HS Hfit. unfold has_room, free_bytes; rbc.
  pose proof (used_le_cost q). pose proof (used_nonneg q).
  destruct (used q =? 0) eqn:E; lia.
Qed.

Lemma has_room_single_max : forall W S rlen, S + RB_CHUNK_MARGIN + RB_SIZE_EXTRA <= 4 * W ->
  rlen <= S -> has_room W [] rlen = true.
Proof. intros W S rlen HS Hr. unfold has_room, free_bytes; rbc; cbn [used Z.eqb]. lia. Qed.

Lemma roundup_ge : forall x y, 0 < y -> x <= roundup x y /\ roundup x y mod y = 0.
Proof. intros x y Hy; unfold roundup. split; [lia | apply Z_mod_mult]. Qed.

Lemma rb_open_W : forall S ns ow, 4 * rW (rb_open S ns ow) = roundup (S + RB_CHUNK_MARGIN + RB_SIZE_EXTRA) RB_PAGE_SIZE /\
                                  S + RB_CHUNK_MARGIN + RB_SIZE_EXTRA <= 4 * rW (rb_open S ns ow).
Proof.
  intros S ns ow. cbn [rb_open rW].
  set (x := S + RB_CHUNK_MARGIN + RB_SIZE_EXTRA).
  destruct consts_ok as (_ & _ & _ & _ & Hw & _ & Hp & Hp4 & _).
  pose proof (roundup_ge x RB_PAGE_SIZE Hp) as (Hge & Hmod).
  rewrite Hw.
  assert (roundup x RB_PAGE_SIZE mod 4 = 0).
  { unfold roundup. set (k := (x + (RB_PAGE_SIZE - 1)) / RB_PAGE_SIZE).
    rewrite Z.mul_mod by lia. rewrite Hp4. rewrite Z.mul_0_r. reflexivity. }
  lia.
Qed.

Lemma rb_open_repr : forall S ns ow, 0 <= S -> S + RB_CHUNK_MARGIN + RB_SIZE_EXTRA + RB_PAGE_SIZE <= two32 ->
  Repr (rb_open S ns ow) [].
Proof.
  intros S ns ow HS Hmax.
  pose proof (rb_open_W S ns ow) as (HW & Hge).
  destruct consts_ok as (_ & _ & _ & _ & _ & _ & Hp & _).
  assert (Hle : roundup (S + RB_CHUNK_MARGIN + RB_SIZE_EXTRA) RB_PAGE_SIZE <= S + RB_CHUNK_MARGIN + RB_SIZE_EXTRA + RB_PAGE_SIZE).
  { unfold roundup. set (x := S + RB_CHUNK_MARGIN + RB_SIZE_EXTRA) in *. set (y := RB_PAGE_SIZE) in *.
    clearbody x y. clear - Hp. nia. }
  set (b := rb_open S ns ow) in *.
  unfold Repr. cbn [used chunks_at].
  assert (wpt b = 0) by reflexivity. assert (rpt b = 0) by reflexivity.
  rbc. repeat split; lia.
Qed.

