(* C19, concurrent part: proofs about the interleaving model ArrayConcModel.v. *)
From Coq Require Import ZArith List Bool NArith Lia ZifyBool.
Import ListNotations.
Require Import Verif.gen.Consts_array Verif.ArrayModel Verif.ArrayProofs Verif.ArrayConcModel.
Local Open Scope Z_scope.

Ltac splits := repeat match goal with |- _ /\ _ => split end.

(* ------------------------------------------------------------------------------------------
   The code as found (fixed = false): a schedule of 13 steps makes thread 0 read a freed table. *)
Definition refute_progs : list (list call) := [[CIndex 17]; [CGrow 100]].
Definition refute_sched : list nat := [0; 0; 0; 0; 0; 0; 0; 1; 1; 1; 1; 1; 0]%nat.
Definition refute_run (fixed : bool) : option cstate :=
  match create 20 8 0 false with
  | Some w0 => Some (exec fixed refute_sched (cinit w0 refute_progs))
  | None => None
  end.

Lemma unfixed_uaf : exists s, refute_run false = Some s /\ c_err s = true /\
  In (EUaf 0 1) (c_log s).
Proof. eexists. split; [reflexivity|]. split; [vm_compute; reflexivity|]. vm_compute. auto. Qed.

(* the same programs and schedule on the repaired code: no error *)
Lemma fixed_same_schedule_ok : exists s, refute_run true = Some s /\ c_err s = false.
Proof. eexists. split; [reflexivity|]. vm_compute. reflexivity. Qed.

(* ------------------------------------------------------------------------------------------
   The repaired code (fixed = true): invariant for every schedule. *)

Definition thread_ok (w : world) (t : thread) : Prop :=
  match t_pc t with
  | PStart | PCall | PDone => True
  | IRdLock1 | ILock1 => exists i rest, t_prog t = CIndex i :: rest /\ 0 <= i
  | IUnlockFail rc => (exists i rest, t_prog t = CIndex i :: rest) /\ rc < 0
  | IUnlockGrow => exists i rest, t_prog t = CIndex i :: rest /\ 0 <= i
  | IGRdLock | IGLock | IRdLock2 | ILock2 =>
      exists i rest, t_prog t = CIndex i :: rest /\ 0 <= i /\ i + 1 <= ARRAY_MAX_ELEMENTS
  | IGUnlock rc =>
      (exists i rest, t_prog t = CIndex i :: rest /\ 0 <= i /\ i + 1 <= ARRAY_MAX_ELEMENTS) /\ rc <= 0
  | IUnlockOk _ bin | IRdCb bin | IRdEsize bin =>
      exists i rest blk, t_prog t = CIndex i :: rest /\ 0 <= i < ARRAY_MAX_ELEMENTS /\
                         bin = Some blk /\ bin_get w (bin_of i) = Some blk
  | IRdBin | IRdTbl _ => False                 (* unreachable in the repaired code *)
  | GRdLock | GLock => exists n rest, t_prog t = CGrow n :: rest /\ n <= ARRAY_MAX_ELEMENTS
  | GUnlock rc => (exists n rest, t_prog t = CGrow n :: rest /\ n <= ARRAY_MAX_ELEMENTS) /\ rc = 0
  end.

Definition ret_ok (w : world) (e : event) : Prop :=
  match e with
  | ERet _ _ (CIndex i) rc addr =>
      (rc = 0 /\ 0 <= i < ARRAY_MAX_ELEMENTS /\ exists a, addr = Some a /\ addr_of w i = Some a) \/
      (rc < 0 /\ addr = None)
  | ERet _ _ (CGrow n) rc addr =>
      addr = None /\ ((rc = 0 /\ n <= ARRAY_MAX_ELEMENTS) \/ (rc = - ARRAY_EINVAL /\ ARRAY_MAX_ELEMENTS < n))
  | EStep _ _ => True
  | EUaf _ _ => False
  end.

Lemma thread_ok_ext : forall w w' t, ext w w' -> thread_ok w t -> thread_ok w' t.
Proof.
  intros w w' t [_ X] H. unfold thread_ok in *. destruct (t_pc t); auto;
  destruct H as (i & rest & blk & H1 & H2 & H3 & H4); exists i, rest, blk;
  (split; [exact H1|split; [exact H2|split; [exact H3|]]]);
  rewrite bin_get_slot in *; apply X; exact H4.
Qed.

Lemma ret_ok_ext : forall w w' e, ext w w' -> ret_ok w e -> ret_ok w' e.
Proof.
  intros w w' e X H. destruct e as [tid l|tid k c rc addr|tid b]; auto.
  destruct c as [i|n]; auto. cbn [ret_ok] in *.
  destruct H as [(H1 & H2 & a & H3 & H4)|H]; [left|right; exact H].
  split; [exact H1|split; [exact H2|]]. exists a. split; auto. eapply ext_addr_of; eassumption.
Qed.

Definition quiet (e : event) : bool := negb (is_step_racy e).

Ltac simple_case :=
  splits; auto using ext_refl; try (repeat constructor; fail); try (unfold thread_ok; cbn; eauto; fail).

Lemma micro_ok : forall tid w lk t r, Inv w -> thread_ok w t -> micro true tid w lk t = Some r ->
  Inv (m_w r) /\ ext w (m_w r) /\ thread_ok (m_w r) (m_t r) /\ Forall (ret_ok (m_w r)) (m_ev r) /\
  m_err r = false /\ forallb quiet (m_ev r) = true.
Proof.
  intros tid w lk t r I T H. unfold micro in H. unfold thread_ok in T.
  destruct (t_pc t) eqn:Epc.
  - (* PStart *) inversion H; subst r; cbn. simple_case.
  - (* PCall *)
    destruct (t_prog t) as [|[i|n] rest] eqn:Ep; [discriminate| |].
    + destruct (i <? 0) eqn:E0; inversion H; subst r; cbn; simple_case.
      all: try (unfold thread_ok; cbn; exists i, rest; split; [assumption|lia]).
      all: repeat constructor; cbn; unfold cur_call; rewrite Ep; right; unfold ARRAY_ERANGE; split; [lia|reflexivity].
    + destruct (ARRAY_MAX_ELEMENTS <? n) eqn:E0; inversion H; subst r; cbn; simple_case.
      all: try (unfold thread_ok; cbn; exists n, rest; split; [assumption|lia]).
      all: repeat constructor; cbn; unfold cur_call; rewrite Ep; split; [reflexivity|]; right; split; [reflexivity|lia].
  - (* IRdLock1 *) inversion H; subst r; cbn. simple_case.
  - (* ILock1 *)
    destruct T as (i & rest & Ep & Hi). unfold cur_idx in H. rewrite Ep in H.
    destruct (lock_free lk); [|discriminate].
    unfold index_check in H. destruct (maxel w <=? i) eqn:E1.
    + destruct (autog w =? 0) eqn:E2; inversion H; subst r; cbn; simple_case.
    + unfold bin_section in H. destruct (body_bin w i) as [w2 al] eqn:Eb.
      destruct (body_bin_spec _ _ _ _ I Hi Eb) as (I2 & X2 & _ & _ & _ & _ & _ & blk & Hg & _).
      inversion H; subst r; cbn. simple_case.
      all: unfold thread_ok; cbn; exists i, rest, blk; pose proof (inv_max _ I); splits; auto; lia.
  - (* IUnlockFail *)
    destruct T as [(i & rest & Ep) Hrc]. inversion H; subst r; cbn. simple_case.
    all: repeat constructor; cbn; unfold cur_call; rewrite Ep; right; auto.
  - (* IUnlockGrow *)
    destruct T as (i & rest & Ep & Hi). unfold cur_idx in H. rewrite Ep in H.
    destruct (ARRAY_MAX_ELEMENTS <? i + 1) eqn:E1; inversion H; subst r; cbn; simple_case.
    all: try (unfold thread_ok; cbn; exists i, rest; splits; auto; lia).
    all: repeat constructor; cbn; unfold cur_call; rewrite Ep; right; unfold ARRAY_EINVAL; split; [lia|reflexivity].
  - (* IGRdLock *) inversion H; subst r; cbn. simple_case.
  - (* IGLock *)
    destruct T as (i & rest & Ep & Hi & Hm). unfold cur_idx in H. rewrite Ep in H.
    destruct (lock_free lk); [|discriminate].
    destruct (do_grow w (i + 1)) as [w1 rc] eqn:Eg. inversion H; subst r; cbn.
    destruct (do_grow_spec _ _ _ _ I Eg) as (_ & _ & _ & _ & _ & _ & _ & D).
    simple_case.
    all: try (eapply do_grow_inv; eassumption).
    all: try (eapply do_grow_ext; eassumption).
    all: destruct D as [(_ & -> & _)|(_ & -> & _)]; unfold ARRAY_EINVAL; lia.
  - (* IGUnlock *)
    destruct T as [(i & rest & Ep & Hi & Hm) Hrc].
    destruct (rc =? 0) eqn:E1; inversion H; subst r; cbn; simple_case.
    all: repeat constructor; cbn; unfold cur_call; rewrite Ep; right; split; [lia|reflexivity].
  - (* IRdLock2 *) inversion H; subst r; cbn. simple_case.
  - (* ILock2 *)
    destruct T as (i & rest & Ep & Hi & Hm). unfold cur_idx in H. rewrite Ep in H.
    destruct (lock_free lk); [|discriminate].
    unfold bin_section in H. destruct (body_bin w i) as [w2 al] eqn:Eb.
    destruct (body_bin_spec _ _ _ _ I Hi Eb) as (I2 & X2 & _ & _ & _ & _ & _ & blk & Hg & _).
    inversion H; subst r; cbn. simple_case.
    all: unfold thread_ok; cbn; exists i, rest, blk; splits; auto; lia.
  - (* IUnlockOk *)
    destruct T as (i & rest & blk & Ep & Hi & -> & Hb).
    inversion H; subst r; cbn. simple_case.
    all: unfold thread_ok; destruct alloced; cbn; exists i, rest, blk; auto.
  - (* IRdCb *)
    destruct T as (i & rest & blk & Ep & Hi & -> & Hb).
    inversion H; subst r; cbn. simple_case.
    all: unfold thread_ok; cbn; exists i, rest, blk; auto.
  - (* IRdBin *) contradiction.
  - (* IRdTbl *) contradiction.
  - (* IRdEsize *)
    destruct T as (i & rest & blk & Ep & Hi & -> & Hb).
    inversion H; subst r; cbn. simple_case.
    all: repeat constructor; cbn; unfold cur_call, cur_idx; rewrite Ep; left; splits; auto; try lia.
    all: eexists; split; [reflexivity|]; unfold addr_of; rewrite Hb; reflexivity.
  - (* GRdLock *) inversion H; subst r; cbn. simple_case.
  - (* GLock *)
    destruct T as (n & rest & Ep & Hn). rewrite Ep in H.
    destruct (lock_free lk); [|discriminate].
    destruct (do_grow w n) as [w1 rc] eqn:Eg. inversion H; subst r; cbn.
    destruct (do_grow_spec _ _ _ _ I Eg) as (_ & _ & _ & _ & _ & _ & _ & D).
    simple_case.
    all: try (eapply do_grow_inv; eassumption).
    all: try (eapply do_grow_ext; eassumption).
    all: destruct D as [(Hx & _ & _)|(_ & -> & _)]; [lia|reflexivity].
  - (* GUnlock *)
    destruct T as [(n & rest & Ep & Hn) ->]. inversion H; subst r; cbn. simple_case.
    all: repeat constructor; cbn; unfold cur_call; rewrite Ep; split; [reflexivity|]; left; auto.
  - (* PDone *) discriminate.
Qed.

Record CInv (s : cstate) : Prop := {
  ci_inv : Inv (c_w s);
  ci_thr : Forall (thread_ok (c_w s)) (c_thr s);
  ci_log : Forall (ret_ok (c_w s)) (c_log s);
  ci_err : c_err s = false;
  ci_quiet : forallb quiet (c_log s) = true
}.

Lemma Forall_upd_thr : forall (P : thread -> Prop) l n x, Forall P l -> P x -> Forall P (upd_thr l n x).
Proof.
  intros P l. induction l as [|a l IH]; intros [|n] x H Hx; cbn; auto.
  - inversion H; subst. constructor; assumption.
  - inversion H; subst. constructor; auto.
Qed.

Lemma cstep_inv : forall s tid, CInv s -> CInv (cstep true s tid) /\ ext (c_w s) (c_w (cstep true s tid)).
Proof.
  intros s tid [I T L E Q]. unfold cstep.
  destruct (nth_error (c_thr s) tid) as [t|] eqn:Et; [|split; [constructor; assumption|apply ext_refl]].
  destruct (micro true (Z.of_nat tid) (c_w s) (c_lock s) t) as [r|] eqn:Em;
    [|split; [constructor; assumption|apply ext_refl]].
  assert (Tt : thread_ok (c_w s) t).
  { rewrite Forall_forall in T. apply T. eapply nth_error_In; eassumption. }
  destruct (micro_ok _ _ _ _ _ I Tt Em) as (I' & X & T' & L' & E' & Q').
  split; [|exact X]. constructor; cbn [c_w c_thr c_log c_err].
  - exact I'.
  - apply Forall_upd_thr; [|exact T'].
    eapply Forall_impl; [|exact T]. intros a Ha. eapply thread_ok_ext; eassumption.
  - apply Forall_app. split.
    + apply Forall_rev. exact L'.
    + eapply Forall_impl; [|exact L]. intros a Ha. eapply ret_ok_ext; eassumption.
  - rewrite E, E'. reflexivity.
  - rewrite forallb_app. rewrite Q. rewrite andb_true_r.
    rewrite forallb_forall in *. intros e He. apply Q'. apply in_rev. exact He.
Qed.

Lemma exec_inv : forall sched s, CInv s -> CInv (exec true sched s) /\ ext (c_w s) (c_w (exec true sched s)).
Proof.
  induction sched as [|tid sched IH]; intros s C; cbn [exec fold_left].
  - split; [exact C|apply ext_refl].
  - destruct (cstep_inv s tid C) as [C1 X1]. destruct (IH _ C1) as [C2 X2].
    split; [exact C2|]. eapply ext_trans; eassumption.
Qed.

Lemma cinit_inv : forall w progs, Inv w -> CInv (cinit w progs).
Proof.
  intros w progs I. constructor; cbn; auto.
  apply Forall_forall. intros t Ht. apply in_map_iff in Ht. destruct Ht as (p & <- & _). exact Logic.I.
Qed.

(* ---- the theorems ---- *)
Theorem conc_safe : forall max es auto w0 progs sched, 0 <= max -> create max es auto false = Some w0 ->
  let s := exec true sched (cinit w0 progs) in
  c_err s = false /\ Inv (c_w s) /\ (forall e, In e (c_log s) -> ret_ok (c_w s) e) /\
  forallb quiet (c_log s) = true.
Proof.
  intros max es auto w0 progs sched Hm Hc s.
  destruct (create_inv _ _ _ _ _ Hm Hc) as [I0 _].
  destruct (exec_inv sched _ (cinit_inv w0 progs I0)) as [[I T L E Q] _]. fold s in I, T, L, E, Q.
  splits; auto. apply Forall_forall. exact L.
Qed.

Theorem conc_addresses : forall max es auto w0 progs sched, 0 <= max -> create max es auto false = Some w0 ->
  let s := exec true sched (cinit w0 progs) in
  (* stability across threads and time *)
  (forall t1 k1 t2 k2 i rc1 rc2 a1 a2,
     In (ERet t1 k1 (CIndex i) rc1 (Some a1)) (c_log s) -> In (ERet t2 k2 (CIndex i) rc2 (Some a2)) (c_log s) ->
     a1 = a2) /\
  (* disjointness *)
  (forall t1 k1 t2 k2 i j rc1 rc2 a b,
     In (ERet t1 k1 (CIndex i) rc1 (Some a)) (c_log s) -> In (ERet t2 k2 (CIndex j) rc2 (Some b)) (c_log s) ->
     i <> j -> disjoint_ranges es a b) /\
  (* every returned address lies inside a live block of the final heap *)
  (forall t k i rc blk off, In (ERet t k (CIndex i) rc (Some (blk, off))) (c_log s) ->
     exists bl, nth_error (heap (c_w s)) (Z.to_nat blk) = Some bl /\ 0 <= off /\ off + es <= b_size bl) /\
  (* range: an index outside [0, 65536) never succeeds; a failed call returns no address *)
  (forall t k i rc addr, In (ERet t k (CIndex i) rc addr) (c_log s) ->
     (i < 0 \/ ARRAY_MAX_ELEMENTS <= i -> rc < 0) /\ (rc <> 0 -> rc < 0 /\ addr = None) /\ (rc = 0 -> addr <> None)).
Proof.
  intros max es auto w0 progs sched Hm Hc s.
  destruct (conc_safe max es auto w0 progs sched Hm Hc) as (_ & I & L & _). fold s in I, L.
  destruct (create_inv _ _ _ _ _ Hm Hc) as (I0 & _ & E0 & _).
  destruct (exec_inv sched _ (cinit_inv w0 progs I0)) as [_ [Ees _]]. fold s in Ees. cbn [cinit c_w] in Ees.
  assert (Hes : esize (c_w s) = es) by congruence.
  assert (Hret : forall t k i rc a, In (ERet t k (CIndex i) rc (Some a)) (c_log s) ->
                 0 <= i < ARRAY_MAX_ELEMENTS /\ addr_of (c_w s) i = Some a).
  { intros t k i rc a Hin. specialize (L _ Hin). cbn [ret_ok] in L.
    destruct L as [(_ & Hi & a' & Ha & Hw)|(_ & Hn)]; [|discriminate]. inversion Ha; subst a'. auto. }
  splits.
  - intros t1 k1 t2 k2 i rc1 rc2 a1 a2 H1 H2.
    destruct (Hret _ _ _ _ _ H1) as [_ A1]. destruct (Hret _ _ _ _ _ H2) as [_ A2]. congruence.
  - intros t1 k1 t2 k2 i j rc1 rc2 a b H1 H2 Hne.
    destruct (Hret _ _ _ _ _ H1) as [R1 A1]. destruct (Hret _ _ _ _ _ H2) as [R2 A2].
    rewrite <- Hes. apply (addr_disjoint_state (c_w s) i j a b I); auto; lia.
  - intros t k i rc blk off H1. destruct (Hret _ _ _ _ _ H1) as [R1 A1].
    destruct (addr_in_block _ _ _ _ I (proj1 R1) A1) as (bl & P & _ & Q & R). exists bl. rewrite <- Hes. auto.
  - intros t k i rc addr H1. specialize (L _ H1). cbn [ret_ok] in L.
    destruct L as [(-> & Hi & a & -> & _)|(Hn & ->)]; splits; intros; try lia; try discriminate; auto.
Qed.

(* data-race freedom of the repaired code, as far as the model's granularity goes: no step taken outside
   a critical section touches a location that any critical section writes *)
Theorem conc_race_free : forall max es auto w0 progs sched, 0 <= max -> create max es auto false = Some w0 ->
  forall t l, In (EStep t l) (c_log (exec true sched (cinit w0 progs))) -> racy_label l = false.
Proof.
  intros max es auto w0 progs sched Hm Hc t l Hin.
  destruct (conc_safe max es auto w0 progs sched Hm Hc) as (_ & _ & _ & Q).
  rewrite forallb_forall in Q. specialize (Q _ Hin). unfold quiet in Q. cbn [is_step_racy] in Q.
  destruct (racy_label l); [discriminate|reflexivity].
Qed.

(* the code as found does make racy steps: the witness run contains the unlocked reads of a->bin and a->bin[b] *)
Lemma unfixed_racy : exists s, refute_run false = Some s /\ existsb is_step_racy (c_log s) = true.
Proof. eexists. split; [reflexivity|]. vm_compute. reflexivity. Qed.
