(* C04 - IPC server: callback order accept, created, msg*, closed+, destroyed; no use after free.
   Statements only; each is closed by `exact`.

   Model: coq/IpcLifeModel.v transcribes qb_ipcs_connection_ref/unref, qb_ipcs_disconnect (+ the re-run job),
   qb_ipcs_dispatch_connection_request/_process_request_, _sock_connection_liveliness, handle_new_connection,
   qb_ipcs_destroy, qb_ipcs_request_rate_limit, qb_ipcs_connection_first_get/next_get, event/response send.
   Connections and the service are heap objects; every C access is a [chk]/[chks] that yields the error state
   UseAfterFree; the callback order is a ghost automaton ([phase_step]) whose violation is the error state
   OrderViolation; destroyed with an application reference outstanding is DestroyedWhileHeld.
   [fixed = false] is lib/ as found, [fixed = true] is lib/ with fixes/C04-connection-lifecycle.patch.

   What is proved, and what is not:
   * the code as found violates the property (five witnesses, replayed on the real library under ASan);
   * for the repaired code, every library entry point that runs application callbacks
     (unref, disconnect, the re-run job, event/response send, request dispatch incl. the msg_process loop, the
     liveliness callback) preserves the life-cycle invariant GI - from EVERY state satisfying it, under EVERY
     context of enclosing frames, for EVERY application whose callbacks satisfy the contract [cb_ok]
     (they may do anything that itself preserves GI) - and never reaches an error state about a connection;
     the contract holds of applications whose callbacks do not re-enter the library ([invoke ... 0]).
   * NOT proved (hence the suffix _partial): that [invoke] at nesting depth n+1 satisfies [cb_ok] (which needs the
     same lemma for handle_new_connection, the list walks of qb_ipcs_destroy / iteration and
     qb_ipcs_request_rate_limit), and therefore the closed statement over [run] for all histories; errors about the
     SERVICE object (ServiceUseAfterFree) are let through by [safe].  Those parts are covered by the
     correspondence run and the monitor only. *)
From Coq Require Import ZArith List Bool.
Require Import Verif.gen.Consts_ipclife.
Require Import Verif.IpcLifeModel Verif.IpcLifeProofs Verif.IpcLifeProofs2 Verif.IpcLifeProofs3 Verif.IpcLifeProofs4
               Verif.IpcLifeProofs5 Verif.IpcLifeProofs6 Verif.IpcLifeProofs7.
Import ListNotations.
Local Open Scope Z_scope.

(* the encodings the model and its driver use are the ones of the working tree *)
Theorem C04_consts_ok :
  (LIFE_ST_INACTIVE, LIFE_ST_ACTIVE, LIFE_ST_ESTABLISHED, LIFE_ST_SHUTTING_DOWN) = (0, 1, 2, 3) /\
  (LIFE_RATE_FAST, LIFE_RATE_NORMAL, LIFE_RATE_SLOW, LIFE_RATE_OFF, LIFE_RATE_OFF_2) = (0, 1, 2, 3, 4) /\
  LIFE_MAX_RECV_MSGS = 50 /\ (LIFE_LOOP_LOW, LIFE_LOOP_MED, LIFE_LOOP_HIGH) = (0, 1, 2).
Proof. exact consts_ok. Qed.
Print Assumptions C04_consts_ok.

(* the code as found: disconnect inside msg_process; second disconnect of a lingering connection; closed re-run
   pending across qb_ipcs_destroy; the destroy walk; rate limit over a released connection - both transports *)
Theorem C04_lifecycle_orig_refuted :
  (forall shm, err_of (run shm false 6 wit_msg_disconnect world0) = Some (UseAfterFree 0)) /\
  (forall shm, err_of (run shm false 6 wit_second_disconnect world0) = Some (OrderViolation KClosed 0)) /\
  (forall shm, err_of (run shm false 6 wit_rerun_destroy world0) = Some (UseAfterFree 0)) /\
  (forall shm, err_of (run shm false 6 wit_destroy_walk world0) = Some (UseAfterFree 0)) /\
  (forall shm, err_of (run shm false 6 wit_rate_released world0) = Some (TransportGone 0)).
Proof. exact orig_refuted. Qed.
Print Assumptions C04_lifecycle_orig_refuted.

(* the same histories on the repaired code: no error state, callbacks in the order the property demands *)
Example C04_fixed_on_witnesses :
  (forall shm, cbs_of (run shm true 6 wit_msg_disconnect world0) =
               [(KAccept, 0%nat, 0); (KCreated, 0%nat, 0); (KMsg, 0%nat, 0); (KClosed, 0%nat, 0); (KDestroyed, 0%nat, 0)]) /\
  (forall shm, cbs_of (run shm true 6 wit_second_disconnect world0) =
               [(KAccept, 0%nat, 0); (KCreated, 0%nat, 0); (KClosed, 0%nat, 0); (KDestroyed, 0%nat, 0)]) /\
  (forall shm, cbs_of (run shm true 6 wit_rerun_destroy world0) =
               [(KAccept, 0%nat, 0); (KCreated, 0%nat, 0); (KClosed, 0%nat, 1); (KClosed, 0%nat, 0); (KDestroyed, 0%nat, 0)]) /\
  (forall shm, cbs_of (run shm true 6 wit_destroy_walk world0) =
               [(KAccept, 0%nat, 0); (KCreated, 0%nat, 0); (KAccept, 1%nat, 0); (KCreated, 1%nat, 0);
                (KClosed, 1%nat, 0); (KClosed, 0%nat, 0); (KDestroyed, 0%nat, 0); (KDestroyed, 1%nat, 0)]) /\
  (forall shm, err_of (run shm true 6 wit_rate_released world0) = None) /\
  (forall shm, err_of (run shm true 6 wit_msg_disconnect world0) = None) /\
  (forall shm, err_of (run shm true 6 wit_second_disconnect world0) = None) /\
  (forall shm, err_of (run shm true 6 wit_rerun_destroy world0) = None) /\
  (forall shm, err_of (run shm true 6 wit_destroy_walk world0) = None).
Proof. exact fixed_on_witnesses. Qed.
Print Assumptions C04_fixed_on_witnesses.

(* the invariant is met by the initial state (non-vacuity of the hypotheses below) and the callback contract by
   every application whose callbacks do not re-enter the library *)
Example C04_example_initial_state : GI (fun _ => 0) (fun _ => 0) (fun _ => false) world0.
Proof. exact GI_world0. Qed.
Print Assumptions C04_example_initial_state.
Example C04_example_contract_met : forall shm, cb_ok (invoke shm true 0).
Proof. exact invoke0_ok. Qed.
Print Assumptions C04_example_contract_met.

(* qb_ipcs_connection_unref of a reference the calling frame holds: refcount accounting is kept; when the count
   reaches zero the destroyed callback is legal (not after destroyed, not while a closed re-run is owed, no
   application reference left), the object is unlinked first and freed last *)
Theorem C04_unref_partial : forall cb, cb_ok cb -> forall H J D c w,
  GI (addf H c 1) J D w -> 0 <= H c -> safe (fun w' _ => GI H J D w') (conn_unref cb c w).
Proof. exact unref_held_ok. Qed.
Print Assumptions C04_unref_partial.

(* qb_ipcs_disconnect from any state of a live connection, from inside or outside any callback *)
Theorem C04_disconnect_partial : forall cb, cb_ok cb -> forall H J D c w,
  GI H J D w -> live (conns w c) -> safe (fun w' _ => GI H J D w') (disconnect true cb c w).
Proof. exact disconnect_ok. Qed.
Print Assumptions C04_disconnect_partial.

(* the queued re-run of connection_closed *)
Theorem C04_closed_rerun_partial : forall cb, cb_ok cb -> forall H J D c t w,
  GI H J D w -> jobs w = c :: t -> safe (fun w' _ => GI H J D w') (job_run true cb c (set_jobs t w)).
Proof. exact job_run_ok. Qed.
Print Assumptions C04_closed_rerun_partial.

(* qb_ipcs_event_send / qb_ipcs_response_send on a live connection *)
Theorem C04_send_partial : forall cb, cb_ok cb -> forall H J D c w,
  GI H J D w -> live (conns w c) -> safe (fun w' _ => GI H J D w') (srv_send cb c w).
Proof. exact srv_send_ok. Qed.
Print Assumptions C04_send_partial.

(* qb_ipcs_dispatch_connection_request: HUP, flow control, the msg_process loop with callbacks that disconnect,
   destroy, take and drop references; both transports *)
Theorem C04_dispatch_partial : forall cb, cb_ok cb -> forall shm H J D c hup w,
  GI H J D w -> live (conns w c) -> c_st (conns w c) = ESTABLISHED ->
  safe (fun w' _ => GI H J D w') (dispatch shm true cb c hup w).
Proof. exact dispatch_ok. Qed.
Print Assumptions C04_dispatch_partial.

Theorem C04_liveliness_partial : forall cb, cb_ok cb -> forall H J D c w,
  GI H J D w -> live (conns w c) -> safe (fun w' _ => GI H J D w') (liveliness true cb c w).
Proof. exact liveliness_ok. Qed.
Print Assumptions C04_liveliness_partial.

(* ---------------------------------------------------------------------------------------------------------------
   The closing induction (increment 1).  The callback interpreter satisfies the contract at EVERY nesting depth
   (induction on the depth; the nested library calls made by a callback's actions are the recursive case) ... *)
Theorem C04_callback_contract_all_depths : forall shm n, cb_ok (invoke shm true n).
Proof. exact invoke_ok. Qed.
Print Assumptions C04_callback_contract_all_depths.

(* ... hence, for ALL histories (connects incl. refusals and clients that vanish during the handshake, requests, client
   disconnects/deaths, main-loop turns, queued jobs, application actions outside and - through ALL behaviour tables -
   inside every callback, to every nesting depth), on both transports: no error state about a connection is reachable
   (UseAfterFree, RefUnderflow, OrderViolation = a callback out of the order accept created msg* closed+ destroyed,
   DestroyedWhileHeld, TransportGone, OutOfFuel) and the invariant holds at the end.
   Still let through by [safe]: errors about the SERVICE object. *)
Theorem C04_lifecycle_all_histories_partial : forall shm depth ops,
  safe (fun w _ => GI0 w) (run shm true depth ops world0).
Proof. intros. apply run_ok. exact GI_world0. Qed.
Print Assumptions C04_lifecycle_all_histories_partial.

(* what the invariant says of every connection between operations: allocated <=> not destroyed; refcount = (1 while
   connected) + application references + queued closed re-runs, at least 1; destroyed => freed, no application
   reference, unregistered, off the list, no job queued *)
Theorem C04_final_state_facts : forall w c, GI0 w ->
  let x := conns w c in
  (c_alloc x = true -> live x /\ c_rc x = init_of (c_st x) + c_uref x + cnt c (jobs w) /\ 1 <= c_rc x /\ c_st x <> ACTIVE) /\
  (c_alloc x = false -> c_ph x = PNone \/ c_ph x = PDead) /\
  (c_ph x = PDead -> c_alloc x = false /\ c_uref x = 0 /\ c_reg x = false /\ mem_id c (s_list w) = false /\ cnt c (jobs w) = 0).
Proof. intros w c G. exact (CI_top_facts _ _ _ (proj1 G c)). Qed.
Print Assumptions C04_final_state_facts.
