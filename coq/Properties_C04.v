(* C04 - IPC server: callback order accept, created, msg*, closed+, destroyed; no use after free.
   Statements only; each is closed by `exact`.

   Model: coq/IpcLifeModel.v transcribes qb_ipcs_connection_ref/unref, qb_ipcs_disconnect (+ the re-run job),
   qb_ipcs_dispatch_connection_request/_process_request_, _sock_connection_liveliness, handle_new_connection,
   qb_ipcs_destroy, qb_ipcs_request_rate_limit, qb_ipcs_connection_first_get/next_get, event/response send.
   Connections and the service are heap objects; every C access is a [chk]/[chks] that yields the error state
   UseAfterFree; the callback order is a ghost automaton ([phase_step]) whose violation is the error state
   OrderViolation; destroyed with an application reference outstanding is DestroyedWhileHeld.
   [fixed = false] is lib/ as found, [fixed = true] is lib/ with fixes/C04-connection-lifecycle.patch.

   What is proved:
   * the code as found violates the property (five witnesses, replayed on the real library under ASan);
   * for the repaired code: every library entry point preserves the life-cycle invariant GI (connections AND the
     service object) from every state satisfying it, under every context of enclosing frames, for every application
     whose callbacks satisfy the contract [cb_ok]; the callback interpreter [invoke] satisfies the contract at every
     nesting depth (induction on the depth); hence for ALL histories no error state is reachable - [safe] admits no
     Fail at all: no use after free of a connection or of the service, no refcount underflow, no callback out of
     order, no destroyed while the application holds a reference - and GI holds at the end ([C04_lifecycle]).
   The entry-point theorems keep their earlier names (suffix _partial: each is one part of the whole); the whole is
   C04_lifecycle (incl. the trace invariant TI) / C04_final_state_facts / C04_service_facts. *)
From Coq Require Import ZArith List Bool.
Require Import Verif.gen.Consts_ipclife.
Require Import Verif.IpcLifeModel Verif.IpcLifeProofs Verif.IpcLifeProofs2 Verif.IpcLifeProofs3 Verif.IpcLifeProofs4
               Verif.IpcLifeProofs5 Verif.IpcLifeProofs6 Verif.IpcLifeProofs7 Verif.IpcLifeTrace.
Import ListNotations.
Local Open Scope Z_scope.

(* the encodings the model and its driver use are the ones of the working tree *)
Theorem C04_consts_ok :
  (LIFE_ST_INACTIVE, LIFE_ST_ACTIVE, LIFE_ST_ESTABLISHED, LIFE_ST_SHUTTING_DOWN) = (0, 1, 2, 3) /\
  (LIFE_RATE_FAST, LIFE_RATE_NORMAL, LIFE_RATE_SLOW, LIFE_RATE_OFF, LIFE_RATE_OFF_2) = (0, 1, 2, 3, 4) /\
  LIFE_MAX_RECV_MSGS = 50 /\ (LIFE_LOOP_LOW, LIFE_LOOP_MED, LIFE_LOOP_HIGH) = (0, 1, 2).
Proof. exact consts_ok. Qed.
Print Assumptions C04_consts_ok.

(* the code as found: disconnect inside msg_process; second disconnect of a lingering connection; closed re-run
   pending across qb_ipcs_destroy; the destroy walk; rate limit over a released connection - both transports *)
Theorem C04_lifecycle_orig_refuted :
  (forall shm, err_of (run shm false 6 wit_msg_disconnect world0) = Some (UseAfterFree 0)) /\
  (forall shm, err_of (run shm false 6 wit_second_disconnect world0) = Some (OrderViolation KClosed 0)) /\
  (forall shm, err_of (run shm false 6 wit_rerun_destroy world0) = Some (UseAfterFree 0)) /\
  (forall shm, err_of (run shm false 6 wit_destroy_walk world0) = Some (UseAfterFree 0)) /\
  (forall shm, err_of (run shm false 6 wit_rate_released world0) = Some (TransportGone 0)).
Proof. exact orig_refuted. Qed.
Print Assumptions C04_lifecycle_orig_refuted.

(* the same histories on the repaired code: no error state, callbacks in the order the property demands *)
Example C04_fixed_on_witnesses :
  (forall shm, cbs_of (run shm true 6 wit_msg_disconnect world0) =
               [(KAccept, 0%nat, 0); (KCreated, 0%nat, 0); (KMsg, 0%nat, 0); (KClosed, 0%nat, 0); (KDestroyed, 0%nat, 0)]) /\
  (forall shm, cbs_of (run shm true 6 wit_second_disconnect world0) =
               [(KAccept, 0%nat, 0); (KCreated, 0%nat, 0); (KClosed, 0%nat, 0); (KDestroyed, 0%nat, 0)]) /\
  (forall shm, cbs_of (run shm true 6 wit_rerun_destroy world0) =
               [(KAccept, 0%nat, 0); (KCreated, 0%nat, 0); (KClosed, 0%nat, 1); (KClosed, 0%nat, 0); (KDestroyed, 0%nat, 0)]) /\
  (forall shm, cbs_of (run shm true 6 wit_destroy_walk world0) =
               [(KAccept, 0%nat, 0); (KCreated, 0%nat, 0); (KAccept, 1%nat, 0); (KCreated, 1%nat, 0);
                (KClosed, 1%nat, 0); (KClosed, 0%nat, 0); (KDestroyed, 0%nat, 0); (KDestroyed, 1%nat, 0)]) /\
  (forall shm, err_of (run shm true 6 wit_rate_released world0) = None) /\
  (forall shm, err_of (run shm true 6 wit_msg_disconnect world0) = None) /\
  (forall shm, err_of (run shm true 6 wit_second_disconnect world0) = None) /\
  (forall shm, err_of (run shm true 6 wit_rerun_destroy world0) = None) /\
  (forall shm, err_of (run shm true 6 wit_destroy_walk world0) = None).
Proof. exact fixed_on_witnesses. Qed.
Print Assumptions C04_fixed_on_witnesses.

(* the invariant is met by the initial state (non-vacuity of the hypotheses below) and the callback contract by
   every application whose callbacks do not re-enter the library *)
Example C04_example_initial_state : GI Z0f Z0f Ff world0.
Proof. exact GI_world0. Qed.
Print Assumptions C04_example_initial_state.
Example C04_example_contract_met : forall shm, cb_ok (invoke shm true 0).
Proof. exact invoke0_ok. Qed.
Print Assumptions C04_example_contract_met.

(* qb_ipcs_connection_unref of a reference the calling frame holds: refcount accounting is kept; when the count
   reaches zero the destroyed callback is legal (not after destroyed, not while a closed re-run is owed, no
   application reference left), the object is unlinked first and freed last *)
Theorem C04_unref_partial : forall cb, cb_ok cb -> forall H J (D : dctx) c w,
  GI (addf H c 1) J D w -> 0 <= H c -> safe (fun w' _ => GI H J D w') (conn_unref cb c w).
Proof. exact unref_held_ok. Qed.
Print Assumptions C04_unref_partial.

(* qb_ipcs_disconnect from any state of a live connection, from inside or outside any callback *)
Theorem C04_disconnect_partial : forall cb, cb_ok cb -> forall H J (D : dctx) c w,
  GI H J D w -> live (conns w c) -> safe (fun w' _ => GI H J D w') (disconnect true cb c w).
Proof. exact disconnect_ok. Qed.
Print Assumptions C04_disconnect_partial.

(* the queued re-run of connection_closed *)
Theorem C04_closed_rerun_partial : forall cb, cb_ok cb -> forall H J (D : dctx) c t w,
  GI H J D w -> jobs w = c :: t -> safe (fun w' _ => GI H J D w') (job_run true cb c (set_jobs t w)).
Proof. exact job_run_ok. Qed.
Print Assumptions C04_closed_rerun_partial.

(* qb_ipcs_event_send / qb_ipcs_response_send on a live connection *)
Theorem C04_send_partial : forall cb, cb_ok cb -> forall H J (D : dctx) c w,
  GI H J D w -> live (conns w c) -> safe (fun w' _ => GI H J D w') (srv_send cb c w).
Proof. exact srv_send_ok. Qed.
Print Assumptions C04_send_partial.

(* qb_ipcs_dispatch_connection_request: HUP, flow control, the msg_process loop with callbacks that disconnect,
   destroy, take and drop references; both transports *)
Theorem C04_dispatch_partial : forall cb, cb_ok cb -> forall shm H J (D : dctx) c hup w,
  GI H J D w -> live (conns w c) -> c_st (conns w c) = ESTABLISHED ->
  safe (fun w' _ => GI H J D w') (dispatch shm true cb c hup w).
Proof. exact dispatch_ok. Qed.
Print Assumptions C04_dispatch_partial.

Theorem C04_liveliness_partial : forall cb, cb_ok cb -> forall H J (D : dctx) c w,
  GI H J D w -> live (conns w c) -> safe (fun w' _ => GI H J D w') (liveliness true cb c w).
Proof. exact liveliness_ok. Qed.
Print Assumptions C04_liveliness_partial.

(* ---------------------------------------------------------------------------------------------------------------
   The closing induction (increment 1).  The callback interpreter satisfies the contract at EVERY nesting depth
   (induction on the depth; the nested library calls made by a callback's actions are the recursive case) ... *)
Theorem C04_callback_contract_all_depths : forall shm n, cb_ok (invoke shm true n).
Proof. exact invoke_ok. Qed.
Print Assumptions C04_callback_contract_all_depths.

(* ... hence, for ALL histories (connects incl. refusals and clients that vanish during the handshake, requests, client
   disconnects/deaths, main-loop turns, queued jobs, application actions outside and - through ALL behaviour tables -
   inside every callback, to every nesting depth), on both transports: the run ends in NO error state
   (UseAfterFree of a connection, ServiceUseAfterFree, RefUnderflow, ServiceRefUnderflow, OrderViolation = a callback out
   of the order accept created msg* closed+ destroyed, DestroyedWhileHeld, TransportGone, OutOfFuel) and the invariant
   holds at the end. *)
Theorem C04_lifecycle : forall shm depth ops,
  exists w z, run shm true depth ops world0 = Ok w z /\ GI0 w /\ TI w.
Proof. exact lifecycle_all. Qed.
Print Assumptions C04_lifecycle.

(* TI w: for every connection c, running the order automaton [phase_step] (accept created msg* closed(<>0)* closed(0)
   destroyed, tail optional; no destroyed while a closed re-run is owed; nothing after destroyed) over ALL callback
   events logged for c, oldest first from its allocation, never gets stuck and ends in c's current phase:
   [tphs (log w) c = Some (c_ph (conns w c))].  Together with C04_final_state_facts (phase PDead <=> freed, refcount of
   a live connection = connected + application references + queued re-runs >= 1) this is "destroyed exactly once, exactly
   when the last reference is dropped, nothing afterwards".  Example: what the automaton accepts and rejects. *)
Example C04_trace_automaton_example :
  tphs [ECb KDestroyed 0%nat 0; ECb KClosed 0%nat 0; ECb KClosed 0%nat 1; ECb KMsg 0%nat 0; ECb KCreated 0%nat 0;
        ECb KAccept 0%nat 0; ENew 0%nat] 0%nat = Some PDead /\
  tphs [ECb KMsg 0%nat 0; ECb KClosed 0%nat 0; ECb KCreated 0%nat 0; ECb KAccept 0%nat 0; ENew 0%nat] 0%nat = None /\
  tphs [ECb KDestroyed 0%nat 0; ECb KClosed 0%nat 1; ECb KCreated 0%nat 0; ECb KAccept 0%nat 0; ENew 0%nat] 0%nat = None /\
  tphs [ECb KClosed 0%nat 0; ECb KAccept 0%nat 0; ENew 0%nat] 0%nat = None.
Proof. exact trace_example. Qed.
Print Assumptions C04_trace_automaton_example.

(* log and ghost phases stay consistent in the code as found as well (so the refutation witnesses are statements about
   callback traces, not about a ghost variable) *)
Theorem C04_trace_consistent_any_variant : forall shm fixed depth ops,
  match run shm fixed depth ops world0 with Ok w _ => TI w | Fail _ _ => True end.
Proof. exact trace_consistent_any_variant. Qed.
Print Assumptions C04_trace_consistent_any_variant.

(* what the invariant says of every connection between operations: allocated <=> not destroyed; refcount = (1 while
   connected) + application references + queued closed re-runs, at least 1; destroyed => freed, no application
   reference, unregistered, off the list, no job queued *)
Theorem C04_final_state_facts : forall w c, GI0 w ->
  let x := conns w c in
  (c_alloc x = true -> live x /\ c_rc x = init_of (c_st x) + c_uref x + cnt c (jobs w) /\ 1 <= c_rc x /\ c_st x <> ACTIVE) /\
  (c_alloc x = false -> c_ph x = PNone \/ c_ph x = PDead) /\
  (c_ph x = PDead -> c_alloc x = false /\ c_uref x = 0 /\ c_reg x = false /\ mem_id c (s_list w) = false /\ cnt c (jobs w) = 0).
Proof. intros w c G. exact (CI_top_facts _ _ _ (proj1 G c)). Qed.
Print Assumptions C04_final_state_facts.

(* the service object: freed only when the creator's reference is gone AND no connection object is left; while it is
   allocated its count covers the creator's reference and one per allocated connection *)
Theorem C04_service_facts : forall w, GI0 w ->
  (s_alloc w = false -> s_creator w = false /\ forall c, c_alloc (conns w c) = false) /\
  (s_alloc w = true -> 1 <= s_rc w /\ (if s_creator w then 1 else 0) + nalloc w <= s_rc w) /\
  (destroy_called w = false -> s_creator w = true /\ s_alloc w = true).
Proof. exact service_facts. Qed.
Print Assumptions C04_service_facts.
