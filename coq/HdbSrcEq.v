(* The hand-written handle-database model (HdbModel.v) equals, function by function, the Gallina text that
   tools/c2coq.py regenerates from lib/hdb.c on every run (gen/Src_hdb.v) - for all handles and all states in
   the stated ranges.  A change to one of these C functions changes Src_hdb.v and these proofs are re-checked.

   Correspondence of states: the translated functions see the handle array through the four function-valued
   paths `hdb_handles_state/check/ref_count/instance' (field f of element i) and the scalar `hdb_handle_count';
   `fields d n st ck rc ins' says that these agree with the slot list of the model state d.
   qb_array_index is an oracle stream in the translation; the hypothesis `index_ok' states what lib/array.c
   guarantees (C19): the lookup of index i succeeds when 0 <= i (and i is below the array's size, which
   handle_count never exceeds) and fails for a negative index. *)
From Coq Require Import ZArith List Bool Lia.
Import ListNotations.
Require Import Verif.gen.Consts_hdb Verif.gen.Src_hdb Verif.C2CoqPrelude Verif.HdbModel Verif.HdbProofs.
Local Open Scope Z_scope.
Ltac Zify.zify_post_hook ::= Z.div_mod_to_equations.

Ltac unwrap := unfold u8, s8, u16, s16, u32, s32, u64, s64, uwrap, swrap in *;
  change (2 ^ 32) with 4294967296 in *; change (2 ^ 64) with 18446744073709551616 in *;
  change (2 ^ (32 - 1)) with 2147483648 in *; change (2 ^ (64 - 1)) with 9223372036854775808 in *.

(* ---------------------------------------------------------------- the two halves of a handle *)
Lemma s32_to_i32 x : s32 x = to_i32 x.
Proof.
  unfold to_i32, two32, two31. unwrap.
  destruct (x mod 4294967296 <? 2147483648) eqn:E; lia.
Qed.

Lemma s32_idem x : s32 (s32 x) = s32 x.
Proof. unwrap. lia. Qed.

Lemma src_check_of h : 0 <= h < 2 ^ 64 -> s32 (s32 (Z.shiftr h 32)) = check_of h.
Proof.
  intros H. rewrite s32_idem, Z.shiftr_div_pow2 by lia. unfold check_of, two32.
  change (2 ^ 32) with 4294967296. apply s32_to_i32.
Qed.

Lemma src_idx_of h : 0 <= h < 2 ^ 64 -> s32 (s32 (Z.land h (u64 4294967295))) = idx_of h.
Proof.
  intros H. rewrite s32_idem. unfold idx_of, two32.
  replace (u64 4294967295) with (Z.ones 32) by reflexivity.
  rewrite Z.land_ones by lia. change (2 ^ 32) with 4294967296.
  rewrite s32_to_i32. unfold to_i32, two32. rewrite Z.mod_mod by lia. reflexivity.
Qed.

Lemma src_nocheck : s32 4294967295 = NOCHECK.
Proof. reflexivity. Qed.

(* ---------------------------------------------------------------- state correspondence *)
Definition fields (d : hdb) (n : Z) (st ck rc ins : Z -> Z) : Prop :=
  n = handle_count d /\
  forall i s, nth_slot d i = Some s ->
    st i = s_state s /\ ck i = s_check s /\ rc i = s_ref s /\ ins i = s_inst s.

(* ranges of the C types: int32_t state/check/ref_count, a pointer-sized instance, int32_t handle_count *)
Definition in_range (d : hdb) : Prop :=
  handle_count d < 2 ^ 31 /\
  forall i s, nth_slot d i = Some s ->
    - 2 ^ 31 <= s_state s < 2 ^ 31 /\ - 2 ^ 31 <= s_check s < 2 ^ 31 /\
    - 2 ^ 31 < s_ref s < 2 ^ 31 - 1 /\ 0 <= s_inst s < 2 ^ 64.

(* what qb_array_index answers for the slot of handle h (k-th call of the stream) *)
Definition index_ok (orc : Z -> Z) (k : Z) (i : Z) : Prop :=
  (0 <= i -> orc k = 0) /\ (i < 0 -> s32 (orc k) <> 0).

Lemma nth_slot_in d i : 0 <= i < handle_count d -> exists s, nth_slot d i = Some s.
Proof.
  intros [H0 H1]. unfold nth_slot, handle_count in *.
  destruct (i <? 0) eqn:E; [lia|].
  destruct (nth_error (slots d) (Z.to_nat i)) eqn:N; [eauto|].
  apply nth_error_None in N. lia.
Qed.

Lemma nth_slot_neg d i : i < 0 -> nth_slot d i = None.
Proof. intros H. unfold nth_slot. destruct (i <? 0) eqn:E; [reflexivity|lia]. Qed.

Lemma nth_slot_set d i s j : 0 <= i < handle_count d ->
  nth_slot (set_slot d i s) j = if j =? i then Some s else nth_slot d j.
Proof.
  intros [H0 H1]. unfold nth_slot, set_slot, handle_count in *. cbn [slots].
  destruct (j <? 0) eqn:E.
  - destruct (j =? i) eqn:E2; [lia|reflexivity].
  - destruct (j =? i) eqn:E2.
    + apply Z.eqb_eq in E2. subst j. apply nth_upd_same. lia.
    + apply nth_upd_other. lia.
Qed.

Lemma handle_count_set d i s : handle_count (set_slot d i s) = handle_count d.
Proof. unfold handle_count, set_slot. cbn [slots]. rewrite upd_length. reflexivity. Qed.

Lemma fields_set d n st ck rc ins i s :
  fields d n st ck rc ins -> 0 <= i < handle_count d ->
  fields (set_slot d i s) n
         (C2CoqPrelude.upd st i (s_state s)) (C2CoqPrelude.upd ck i (s_check s))
         (C2CoqPrelude.upd rc i (s_ref s)) (C2CoqPrelude.upd ins i (s_inst s)).
Proof.
  intros [Hn F] Hi. split; [rewrite handle_count_set; exact Hn|].
  intros j t Hj. rewrite nth_slot_set in Hj by exact Hi.
  unfold C2CoqPrelude.upd. destruct (j =? i) eqn:E.
  - injection Hj as <-. repeat split; reflexivity.
  - apply F. exact Hj.
Qed.

(* updating a path with the value it already has is the identity on the correspondence *)
Lemma fields_ext d n st ck rc ins st' ck' rc' ins' :
  fields d n st ck rc ins ->
  (forall i, st' i = st i) -> (forall i, ck' i = ck i) -> (forall i, rc' i = rc i) -> (forall i, ins' i = ins i) ->
  fields d n st' ck' rc' ins'.
Proof.
  intros [Hn F] H1 H2 H3 H4. split; [exact Hn|]. intros i s Hs. rewrite H1, H2, H3, H4. apply F. exact Hs.
Qed.

Lemma upd_id (m : Z -> Z) i v : m i = v -> forall j, C2CoqPrelude.upd m i v j = m j.
Proof. intros H j. unfold C2CoqPrelude.upd. destruct (j =? i) eqn:E; [apply Z.eqb_eq in E; subst; auto|reflexivity]. Qed.

(* ---------------------------------------------------------------- qb_hdb_handle_get *)
Ltac get_fails :=
  split; [reflexivity| split; [split; assumption| split; [reflexivity|
  split; [intros j Hj; apply upd_other; exact Hj| first [left; reflexivity | right; reflexivity]]]]].

Theorem src_get : forall d h hdbp instp k n st ck rc ins ip orc,
  0 <= h < 2 ^ 64 -> fields d n st ck rc ins -> in_range d -> index_ok orc k (idx_of h) ->
  match qb_hdb_handle_get hdbp h instp k n ck ins rc st ip orc, do_get d h with
  | (res, k', rc', ip'), (d', res0, inst0) =>
      res = res0 /\ fields d' n st ck rc' ins /\ ip' 0 = inst0 /\ (forall j, j <> 0 -> ip' j = ip j) /\
      (k' = k \/ k' = k + 1)
  end.
Proof.
  intros d h hdbp instp k n st ck rc ins ip orc Hh [Hn F] [Rn R] [O1 O2].
  unfold qb_hdb_handle_get, do_get. cbv zeta.
  rewrite src_check_of, src_idx_of, src_nocheck by exact Hh.
  set (i := idx_of h) in *. set (c := check_of h).
  assert (Hcnt : s32 (s32 n) = handle_count d).
  { rewrite s32_idem, Hn. apply s32_small. unfold handle_count in *. lia. }
  rewrite Hcnt.
  destruct (i >=? handle_count d) eqn:E1; destruct (handle_count d <=? i) eqn:E1'; try lia.
  { get_fails. }
  destruct (Z_lt_dec i 0) as [Hneg|Hpos].
  - (* negative index: the array lookup fails *)
    rewrite (nth_slot_neg d i Hneg).
    assert (Ho : (s32 (orc k) =? 0) = false) by (apply Z.eqb_neq; apply O2; exact Hneg).
    rewrite Ho. cbn [negb orb]. get_fails.
  - destruct (nth_slot_in d i) as [s Hs]; [lia|]. rewrite Hs.
    destruct (F i s Hs) as (Fst & Fck & Frc & Fin). destruct (R i s Hs) as (Rst & Rck & Rrc & Rin).
    rewrite O1 by lia. change (s32 0 =? 0) with true. cbn [negb orb].
    rewrite Fst, Fck. unfold HDB_STATE_ACTIVE.
    destruct (s_state s =? 2) eqn:E2; cbn [negb]; [|get_fails].
    unfold check_ok. fold c.
    destruct (c =? NOCHECK) eqn:E3; destruct (c =? s_check s) eqn:E4; cbn [negb andb orb]; try (get_fails).
    all: (split; [reflexivity|]; split;
      [ | split; [rewrite upd_same, Fin; apply u64_small; lia|
                  split; [intros j Hj; rewrite !upd_other by exact Hj; reflexivity| right; reflexivity]]]).
    all: rewrite Frc; rewrite s32_small by lia.
    all: eapply fields_ext;
      [apply (fields_set d n st ck rc ins i
               {| s_state := s_state s; s_check := s_check s; s_ref := s_ref s + 1; s_inst := s_inst s |});
         [split; assumption|lia]| | | |]; cbn [s_state s_check s_ref s_inst]; intros j; try reflexivity.
    all: try (symmetry; apply upd_id; assumption).
Qed.

(* ---------------------------------------------------------------- qb_hdb_handle_put *)
Lemma fields_slots d1 d2 n st ck rc ins : slots d1 = slots d2 -> fields d1 n st ck rc ins -> fields d2 n st ck rc ins.
Proof.
  intros E [Hn F]. split.
  - rewrite Hn. unfold handle_count. rewrite E. reflexivity.
  - intros i s Hs. apply (F i s). unfold nth_slot in *. rewrite E. exact Hs.
Qed.

Lemma in_range_slots d1 d2 : slots d1 = slots d2 -> in_range d1 -> in_range d2.
Proof.
  intros E [Hn R]. split.
  - unfold handle_count in *. rewrite <- E. exact Hn.
  - intros i s Hs. apply (R i s). unfold nth_slot in *. rewrite E. exact Hs.
Qed.

Lemma in_range_set d i s : in_range d -> 0 <= i < handle_count d ->
  (- 2 ^ 31 <= s_state s < 2 ^ 31 /\ - 2 ^ 31 <= s_check s < 2 ^ 31 /\
   - 2 ^ 31 < s_ref s < 2 ^ 31 - 1 /\ 0 <= s_inst s < 2 ^ 64) ->
  in_range (set_slot d i s).
Proof.
  intros [Hn R] Hi Hs. split; [rewrite handle_count_set; exact Hn|].
  intros j t Hj. rewrite nth_slot_set in Hj by exact Hi.
  destruct (j =? i); [injection Hj as <-; exact Hs|apply (R j t); exact Hj].
Qed.

(* the validation shared by put / destroy / refcount_get, as the translated code computes it *)
Lemma src_lookup d h n st ck rc ins orc k :
  0 <= h < 2 ^ 64 -> fields d n st ck rc ins -> in_range d -> index_ok orc k (idx_of h) ->
  (idx_of h >=? handle_count d) = false ->
  (negb (s32 (orc k) =? 0) || (st (idx_of h) =? 0)
     || negb (check_of h =? NOCHECK) && negb (check_of h =? ck (idx_of h))) =
  match lookup d h with None => true | Some _ => false end /\
  match lookup d h with
  | None => True
  | Some (i, s) => i = idx_of h /\ 0 <= i < handle_count d /\ nth_slot d i = Some s
  end.
Proof.
  intros Hh [Hn F] [Rn R] [O1 O2] E1. unfold lookup.
  set (i := idx_of h) in *. set (c := check_of h).
  destruct (handle_count d <=? i) eqn:E1'; [lia|].
  destruct (Z_lt_dec i 0) as [Hneg|Hpos].
  - rewrite (nth_slot_neg d i Hneg).
    assert (Ho : (s32 (orc k) =? 0) = false) by (apply Z.eqb_neq; apply O2; exact Hneg).
    rewrite Ho. split; [reflexivity|exact I].
  - destruct (nth_slot_in d i) as [s Hs]; [lia|]. rewrite Hs.
    destruct (F i s Hs) as (Fst & Fck & Frc & Fin).
    rewrite O1 by lia. change (s32 0 =? 0) with true. cbn [negb orb].
    rewrite Fst, Fck. unfold HDB_STATE_EMPTY, check_ok. fold c.
    destruct (s_state s =? 0); cbn [orb]; [split; [reflexivity|exact I]|].
    destruct (c =? NOCHECK); destruct (c =? s_check s); cbn [negb andb orb];
      (split; [reflexivity|]); try exact I; (split; [reflexivity|split; [lia|exact Hs]]).
Qed.

Theorem src_put : forall d h hdbp kd k dtor n st ck rc ins orcd orc,
  0 <= h < 2 ^ 64 -> fields d n st ck rc ins -> in_range d -> index_ok orc k (idx_of h) ->
  match qb_hdb_handle_put hdbp h kd k dtor n ck ins rc st orcd orc, do_put d h with
  | (res, kd', k', ck', ins', rc', st'), (d', res0) =>
      res = res0 /\ fields d' n st' ck' rc' ins' /\ (k' = k \/ k' = k + 1) /\
      (* the destructor is called exactly when the model logs a destructor call *)
      (dtor <> 0 -> kd' - kd = Z.of_nat (length (dlog d')) - Z.of_nat (length (dlog d))) /\
      (dtor = 0 -> kd' = kd)
  end.
Proof.
  intros d h hdbp kd k dtor n st ck rc ins orcd orc Hh HF HR HO.
  pose proof HF as [Hn F]. pose proof HR as [Rn R].
  unfold qb_hdb_handle_put, do_put. cbv zeta.
  rewrite src_check_of, src_idx_of, src_nocheck by exact Hh.
  assert (Hcnt : s32 (s32 n) = handle_count d).
  { rewrite s32_idem, Hn. apply s32_small. unfold handle_count in *. lia. }
  rewrite Hcnt.
  destruct (idx_of h >=? handle_count d) eqn:E1.
  { unfold lookup. destruct (handle_count d <=? idx_of h) eqn:E1'; [|lia].
    split; [reflexivity|]. split; [exact HF|]. split; [left; reflexivity|]. split; intros; lia. }
  destruct (src_lookup d h n st ck rc ins orc k Hh HF HR HO E1) as [Hc Hl].
  rewrite Hc. destruct (lookup d h) as [[i s]|].
  2:{ split; [reflexivity|]. split; [exact HF|]. split; [right; reflexivity|]. split; intros; lia. }
  destruct Hl as (-> & Hi & Hs).
  destruct (F _ s Hs) as (Fst & Fck & Frc & Fin). destruct (R _ s Hs) as (Rst & Rck & Rrc & Rin).
  set (i := idx_of h) in *.
  rewrite Frc. unfold drop_ref.
  destruct (s_ref s =? 1) eqn:E2; destruct (s_ref s - 1 =? 0) eqn:E2'; try lia.
  - (* last reference: destructor, entry zeroed *)
    split; [reflexivity|]. split.
    + apply (fields_slots (set_slot d i zero_slot)); [reflexivity|].
      eapply fields_ext; [apply (fields_set d n st ck rc ins i zero_slot); [exact HF|exact Hi]| | | |];
        cbn [zero_slot s_state s_check s_ref s_inst]; intros j; try reflexivity.
      unfold C2CoqPrelude.upd. destruct (j =? i); reflexivity.
    + split; [right; reflexivity|]. cbn [dlog length].
      destruct (dtor =? 0) eqn:E3; cbn [negb]; split; intros; lia.
  - split; [reflexivity|]. split.
    + eapply fields_ext;
        [apply (fields_set d n st ck rc ins i
                  {| s_state := s_state s; s_check := s_check s; s_ref := s_ref s - 1; s_inst := s_inst s |});
           [exact HF|exact Hi]| | | |]; cbn [s_state s_check s_ref s_inst]; intros j; try reflexivity;
        try (symmetry; apply upd_id; assumption).
      change (s32 (- 1)) with (- 1). rewrite s32_small by lia. replace (s_ref s + - 1) with (s_ref s - 1) by lia.
      reflexivity.
    + split; [right; reflexivity|]. unfold set_slot. cbn [dlog]. split; intros; lia.
Qed.

(* ---------------------------------------------------------------- qb_hdb_handle_destroy *)
Theorem src_destroy : forall d h hdbp kd k dtor n st ck rc ins orcd orc,
  0 <= h < 2 ^ 64 -> fields d n st ck rc ins -> in_range d ->
  index_ok orc k (idx_of h) -> index_ok orc (k + 1) (idx_of h) ->
  match qb_hdb_handle_destroy hdbp h kd k dtor n ck ins rc st orcd orc, do_destroy d h with
  | (res, kd', k', ck', ins', rc', st'), (d', res0) =>
      res = res0 /\ fields d' n st' ck' rc' ins' /\
      (dtor <> 0 -> kd' - kd = Z.of_nat (length (dlog d')) - Z.of_nat (length (dlog d))) /\
      (dtor = 0 -> kd' = kd)
  end.
Proof.
  intros d h hdbp kd k dtor n st ck rc ins orcd orc Hh HF HR HO HO2.
  pose proof HF as [Hn F]. pose proof HR as [Rn R].
  unfold qb_hdb_handle_destroy, do_destroy. cbv zeta.
  rewrite src_check_of, src_idx_of, src_nocheck by exact Hh.
  assert (Hcnt : s32 (s32 n) = handle_count d).
  { rewrite s32_idem, Hn. apply s32_small. unfold handle_count in *. lia. }
  rewrite Hcnt.
  destruct (idx_of h >=? handle_count d) eqn:E1.
  { unfold lookup. destruct (handle_count d <=? idx_of h) eqn:E1'; [|lia].
    split; [reflexivity|]. split; [exact HF|]. split; intros; lia. }
  destruct (src_lookup d h n st ck rc ins orc k Hh HF HR HO E1) as [Hc Hl].
  rewrite Hc. destruct (lookup d h) as [[i s]|].
  2:{ split; [reflexivity|]. split; [exact HF|]. split; intros; lia. }
  destruct Hl as (-> & Hi & Hs).
  destruct (F _ s Hs) as (Fst & Fck & Frc & Fin). destruct (R _ s Hs) as (Rst & Rck & Rrc & Rin).
  set (i := idx_of h) in *.
  set (s' := {| s_state := HDB_STATE_PENDINGREMOVAL; s_check := s_check s; s_ref := s_ref s; s_inst := s_inst s |}).
  assert (HF1 : fields (set_slot d i s') n (C2CoqPrelude.upd st i (s32 1)) ck rc ins).
  { eapply fields_ext; [apply (fields_set d n st ck rc ins i s'); [exact HF|exact Hi]| | | |];
      cbn [s' s_state s_check s_ref s_inst]; intros j; try reflexivity; symmetry; apply upd_id; assumption. }
  assert (HR1 : in_range (set_slot d i s')).
  { apply in_range_set; [exact HR|exact Hi|]. cbn [s' s_state s_check s_ref s_inst].
    unfold HDB_STATE_PENDINGREMOVAL. lia. }
  pose proof (src_put (set_slot d i s') h hdbp kd (k + 1) dtor n (C2CoqPrelude.upd st i (s32 1)) ck rc ins orcd orc
                Hh HF1 HR1 HO2) as P.
  destruct (qb_hdb_handle_put hdbp h kd (k + 1) dtor n ck ins rc (C2CoqPrelude.upd st i (s32 1)) orcd orc)
    as [[[[[[res kd'] k'] ck'] ins'] rc'] st'].
  destruct (do_put (set_slot d i s') h) as [d' res0] eqn:EP.
  destruct P as (P1 & P2 & _ & P4 & P5).
  assert (Hlen : length (dlog (set_slot d i s')) = length (dlog d)) by reflexivity.
  rewrite Hlen in P4.
  split; [rewrite P1; apply s32_small|split; [exact P2|split; assumption]].
  (* the result of put is 0 or -EBADF *)
  unfold do_put in EP. destruct (lookup (set_slot d i s') h) as [[? ?]|]; injection EP as _ <-;
    unfold HDB_EBADF; lia.
Qed.

(* ---------------------------------------------------------------- qb_hdb_handle_refcount_get *)
Theorem src_refcount : forall d h hdbp k n st ck rc ins orc,
  0 <= h < 2 ^ 64 -> fields d n st ck rc ins -> in_range d -> index_ok orc k (idx_of h) ->
  fst (qb_hdb_handle_refcount_get hdbp h k n ck rc st orc) = do_refcount d h.
Proof.
  intros d h hdbp k n st ck rc ins orc Hh HF HR HO.
  pose proof HF as [Hn F]. pose proof HR as [Rn R].
  unfold qb_hdb_handle_refcount_get, do_refcount. cbv zeta.
  rewrite src_check_of, src_idx_of, src_nocheck by exact Hh.
  assert (Hcnt : s32 (s32 n) = handle_count d).
  { rewrite s32_idem, Hn. apply s32_small. unfold handle_count in *. lia. }
  rewrite Hcnt.
  destruct (idx_of h >=? handle_count d) eqn:E1.
  { unfold lookup. destruct (handle_count d <=? idx_of h) eqn:E1'; [|lia]. reflexivity. }
  destruct (src_lookup d h n st ck rc ins orc k Hh HF HR HO E1) as [Hc Hl].
  rewrite Hc. destruct (lookup d h) as [[i s]|]; [|reflexivity].
  destruct Hl as (-> & Hi & Hs).
  destruct (F _ s Hs) as (Fst & Fck & Frc & Fin). destruct (R _ s Hs) as (Rst & Rck & Rrc & Rin).
  cbn [fst]. rewrite Frc. rewrite s32_idem, s32_small by lia. reflexivity.
Qed.

(* ---------------------------------------------------------------- non-vacuity *)
Lemma src_example :
  let d := {| slots := [ {| s_state := 2; s_check := 77; s_ref := 2; s_inst := 5 |}; zero_slot ];
              iter := 0; next_inst := 6; dlog := [] |} in
  let st := fun i => if i =? 0 then 2 else 0 in
  let ck := fun i => if i =? 0 then 77 else 0 in
  let rc := fun i => if i =? 0 then 2 else 0 in
  let ins := fun i => if i =? 0 then 5 else 0 in
  fields d 2 st ck rc ins /\ in_range d /\
  fst (qb_hdb_handle_refcount_get 1 (mk_handle 77 0) 0 2 ck rc st (fun _ => 0)) = 2 /\
  fst (qb_hdb_handle_refcount_get 1 (mk_handle 78 0) 0 2 ck rc st (fun _ => 0)) = - HDB_EBADF /\
  fst (qb_hdb_handle_refcount_get 1 (mk_handle 0 1) 0 2 ck rc st (fun _ => 0)) = - HDB_EBADF.
Proof.
  cbv zeta. split; [|split; [|vm_compute; repeat split]].
  - split; [reflexivity|]. intros i s H. unfold nth_slot in H. cbn [slots] in H.
    destruct (i <? 0) eqn:E; [discriminate|].
    destruct (Z.to_nat i) as [|[|m]] eqn:En; cbn in H.
    + injection H as <-. assert (i = 0) by lia. subst. repeat split.
    + injection H as <-. assert (i = 1) by lia. subst. repeat split.
    + destruct m; discriminate.
  - split; [vm_compute; reflexivity|]. intros i s H. unfold nth_slot in H. cbn [slots] in H.
    destruct (i <? 0) eqn:E; [discriminate|].
    destruct (Z.to_nat i) as [|[|m]] eqn:En; cbn in H.
    + injection H as <-. cbn. lia.
    + injection H as <-. cbn. lia.
    + destruct m; discriminate.
Qed.

(* ---------------------------------------------------------------- handle arithmetic: convert functions, mk_handle *)
Lemma land_shift_low a b : 0 <= b < 2 ^ 32 -> Z.land (Z.shiftl a 32) b = 0.
Proof.
  intros Hb. apply Z.bits_inj'. intros n Hn. rewrite Z.land_spec, Z.bits_0.
  destruct (Z_lt_dec n 32) as [L|G].
  - rewrite Z.shiftl_spec_low by lia. reflexivity.
  - destruct (Z.eq_dec b 0) as [->|Hz]; [rewrite Z.bits_0; apply andb_false_r|].
    rewrite (Z.bits_above_log2 b n); [apply andb_false_r|lia|].
    assert (Z.log2 b < 32) by (apply Z.log2_lt_pow2; lia). lia.
Qed.

Lemma lor_shift a b : 0 <= b < 2 ^ 32 -> Z.lor (Z.shiftl a 32) b = a * 2 ^ 32 + b.
Proof.
  intros Hb. rewrite <- Z.lxor_lor by (apply land_shift_low; exact Hb).
  rewrite <- Z.add_nocarry_lxor by (apply land_shift_low; exact Hb).
  rewrite Z.shiftl_mul_pow2 by lia. reflexivity.
Qed.

Lemma src_mk_handle c i : - 2 ^ 31 <= c < 2 ^ 31 -> 0 <= i < 2 ^ 32 ->
  u64 (Z.lor (u64 (Z.shiftl (u64 (u64 c)) 32)) (u64 i)) = mk_handle c i.
Proof.
  intros Hc Hi. rewrite (u64_small i) by (change (2 ^ 64) with 18446744073709551616; lia).
  rewrite Z.shiftl_mul_pow2 by lia.
  assert (E : u64 (u64 (u64 c) * 2 ^ 32) = (c mod two32) * 2 ^ 32).
  { unfold two32. unwrap. change (2 ^ 31) with 2147483648 in Hc. lia. }
  rewrite E. rewrite <- (Z.shiftl_mul_pow2 (c mod two32) 32) by lia.
  rewrite lor_shift by exact Hi. unfold mk_handle, two32.
  change (2 ^ 32) with 4294967296 in *. change (2 ^ 31) with 2147483648 in Hc.
  apply u64_small. change (2 ^ 64) with 18446744073709551616. lia.
Qed.

Theorem src_base_convert h : 0 <= h < 2 ^ 64 -> qb_hdb_base_convert h = base_convert h.
Proof.
  intros H. unfold qb_hdb_base_convert, base_convert, two32.
  replace (u64 4294967295) with (Z.ones 32) by reflexivity. rewrite Z.land_ones by lia.
  change (2 ^ 32) with 4294967296. apply u32_small. change (2 ^ 32) with 4294967296. lia.
Qed.

Theorem src_nocheck_convert i : 0 <= i < 2 ^ 32 -> qb_hdb_nocheck_convert i = nocheck_convert i.
Proof.
  intros H. unfold qb_hdb_nocheck_convert, nocheck_convert, two32. cbv zeta.
  rewrite (u64_small 4294967295) by (change (2 ^ 64) with 18446744073709551616; lia).
  rewrite (u64_small i) by (change (2 ^ 64) with 18446744073709551616; change (2 ^ 32) with 4294967296 in H; lia).
  rewrite (u64_small (Z.shiftl 4294967295 32)) by (vm_compute; split; [discriminate|reflexivity]).
  rewrite lor_shift by exact H. change (2 ^ 32) with 4294967296 in *.
  rewrite Z.mod_small by lia. apply u64_small. change (2 ^ 64) with 18446744073709551616. lia.
Qed.
