(* C05 - IPC admission.  Model only, no proofs.

   The admission path of libqb's IPC server as an op list over an ABSTRACT FILE SYSTEM.
   What is transcribed (Linux branch, abstract-namespace sockets):
     lib/ipc_setup.c  qb_ipc_auth_creds (SCM_CREDENTIALS of the handshake message), handle_new_connection
                      (mkdtemp of /dev/shm/qb-<spid>-<cpid>-<fd>-XXXXXX, chmod, chown, connection_accept callback,
                      funcs.connect, list add, response, connection_created; refusal path: response, unref ->
                      connection_destroyed -> funcs.disconnect -> remove_tempdir), remove_tempdir
     lib/ipcs.c       qb_ipcs_connection_auth_set, qb_ipcs_disconnect / qb_ipcs_connection_unref (teardown order)
     lib/ipc_shm.c    qb_ipcs_shm_connect (chown of the directory, three rings), qb_ipcs_shm_rb_open
                      (qb_rb_open, qb_rb_chown, qb_rb_chmod), qb_ipcs_shm_disconnect
     lib/ipc_socket.c qb_ipcs_us_connect (control file: qb_sys_mmap_file_open, chown, chmod), qb_ipcs_us_disconnect
     lib/ringbuffer.c qb_rb_open_2 (header file then data file), qb_rb_chown / qb_rb_chmod (data then header),
                      qb_rb_close -> qb_rb_close_helper (unlink data then header)
     lib/unix.c       open_mmap_file (open(path, O_CREAT|O_EXCL.., 0600) under the process umask)
   Two variants: [AsFound] = the tree as found, [Fixed] = with fixes/C05-private-until-handed-over.patch.

   One connecting peer = one connection ordinal k (= ordinal of its mkdtemp call; mkdtemp's uniqueness is the
   oracle that distinct peers get distinct directories).  A peer's objects are addressed by a tag; the state of peer k
   is an [lstate]; the world is [nat -> lstate].  Every op belongs to one peer and reads / writes only that peer's
   state, the process umask and the server's credentials.  Several peers interleave at op granularity.

   Kernel oracle: [scm_creds] = what the kernel puts into the auto-filled SCM_CREDENTIALS message for a sender with the
   given real and effective ids.  On Linux these are the REAL uid and gid (net/unix/af_unix.c: maybe_add_creds ->
   current_uid_gid); the harness checks this on every run with clients whose effective ids differ from the real ones.
   Only success paths of the file-system calls are modelled together with the failures that really occur (rmdir of a
   non-empty directory, chown by a non-root server); ENOSPC, EMFILE, ENOMEM ... are out of scope. *)
From Coq Require Import ZArith NArith List Bool.
Import ListNotations.
Require Import Verif.gen.Consts_ipcadmit.
Local Open Scope Z_scope.

Inductive transport := Shm | Sock.
Inductive variant := AsFound | Fixed.
Inductive ftag := TDir | TReqH | TReqD | TRspH | TRspD | TEvtH | TEvtD | TCtl.

Definition tag_ix (t : ftag) : nat :=
  match t with TDir => 0 | TReqH => 1 | TReqD => 2 | TRspH => 3 | TRspD => 4 | TEvtH => 5 | TEvtD => 6 | TCtl => 7 end%nat.
Definition ftag_eqb (a b : ftag) : bool := Nat.eqb (tag_ix a) (tag_ix b).
Definition all_tags : list ftag := [TDir; TReqH; TReqD; TRspH; TRspD; TEvtH; TEvtD; TCtl].
Definition child_tags : list ftag := [TReqH; TReqD; TRspH; TRspD; TEvtH; TEvtD; TCtl].

Record cred := mkC { c_uid : Z; c_gid : Z }.
Record auth := mkA { a_uid : Z; a_gid : Z; a_mode : N }.
Record entry := mkE { e_uid : Z; e_gid : Z; e_mode : N; e_isdir : bool }.

(* permission bits, octal in comments *)
Definition m600 : N := 384%N.
Definition m700 : N := 448%N.
Definition m770 : N := 504%N.
Definition m444 : N := 292%N.
Definition m222 : N := 146%N.

(* ------------------------------------------------------------------ one peer's file system *)
Definition lfs := list (ftag * entry).
Fixpoint lookup (t : ftag) (f : lfs) : option entry :=
  match f with
  | [] => None
  | (q, e) :: r => if ftag_eqb t q then Some e else lookup t r
  end.
Fixpoint remove (t : ftag) (f : lfs) : lfs :=
  match f with
  | [] => []
  | (q, e) :: r => if ftag_eqb t q then remove t r else (q, e) :: remove t r
  end.
Definition set (t : ftag) (e : entry) (f : lfs) : lfs := (t, e) :: remove t f.
Definition is_some {A} (o : option A) : bool := match o with Some _ => true | None => false end.
Definition has_children (f : lfs) : bool := existsb (fun t => is_some (lookup t f)) child_tags.

(* ------------------------------------------------------------------ ops *)
Inductive cbkind := CbCreated | CbClosed | CbDestroyed.
Inductive lop :=
| LMkdtemp                              (* mkdtemp: mkdir(0700) under the umask, owned by the server *)
| LOpen (t : ftag) (mode : N)           (* open(O_CREAT|O_EXCL, mode) under the umask, owned by the server *)
| LChmod (t : ftag) (mode : N)
| LChown (t : ftag) (uid gid : Z)       (* -1 = leave unchanged *)
| LUnlink (t : ftag)
| LRmdir
| LAccept (uid gid : Z)                 (* serv_fns.connection_accept(c, uid, gid) is invoked *)
| LRespond (err : Z)                    (* the handshake response carries hdr.error = err *)
| LChanAdd                              (* qb_list_add(&c->list, &s->connections): the channel exists *)
| LChanDel
| LPeerSend                             (* the peer sends a request on whatever it has; the server looks *)
| LForeign (tr : transport) (filt : bool)
    (* a process that is NOT the connection's peer sends a well-formed request to the connection's request address; the
       server looks.  shm: there is no such address (the ring files are protected by their permissions).  socket: the
       address is an abstract-namespace datagram socket anybody can send to; [filt] = the tree carries
       fixes/C05-sock-request-sender-check.patch (qb_ipc_us_recv_at_most drops datagrams whose SCM_CREDENTIALS pid is not
       the peer's) *)
| LCb (c : cbkind).
Definition op := (nat * lop)%type.

Inductive levent :=
| EvAccept (uid gid : Z) | EvRespond (err : Z) | EvMsg | EvCb (c : cbkind)
| EvMsgForeign.                         (* msg_process invoked for a request the connection's peer did not send *)

Record lstate := mkL { l_fs : lfs; l_chan : bool; l_log : list levent }.
Definition l_empty : lstate := mkL [] false [].

Record env := mkEnv { umask : N; srv : cred }.

Definition keep (new old : Z) : Z := if new =? -1 then old else new.

(* may the server change owner / mode of e?  root may; otherwise only the owner may chmod, and chown succeeds only
   when it changes nothing (simplification of "owner may pass the file to one of its groups") *)
Definition srv_root (en : env) : bool := c_uid (srv en) =? 0.
Definition srv_may_chmod (en : env) (e : entry) : bool := srv_root en || (e_uid e =? c_uid (srv en)).
Definition srv_may_chown (en : env) (e : entry) (u g : Z) : bool :=
  srv_root en || ((keep u (e_uid e) =? e_uid e) && (keep g (e_gid e) =? e_gid e) && (e_uid e =? c_uid (srv en))).

Definition with_fs (s : lstate) (f : lfs) : lstate := mkL f (l_chan s) (l_log s).
Definition with_log (s : lstate) (ev : levent) : lstate := mkL (l_fs s) (l_chan s) (l_log s ++ [ev]).

(* one op of one peer: new state and the call's result (0 or an errno) *)
Definition lexec (en : env) (s : lstate) (o : lop) : lstate * Z :=
  match o with
  | LMkdtemp =>
      match lookup TDir (l_fs s) with
      | Some _ => (s, ADM_EEXIST)
      | None => (with_fs s (set TDir (mkE (c_uid (srv en)) (c_gid (srv en)) (N.ldiff m700 (umask en)) true) (l_fs s)), 0)
      end
  | LOpen t m =>
      match lookup TDir (l_fs s) with
      | None => (s, ADM_ENOENT)
      | Some _ =>
          match lookup t (l_fs s) with
          | Some _ => (s, ADM_EEXIST)
          | None => (with_fs s (set t (mkE (c_uid (srv en)) (c_gid (srv en)) (N.ldiff m (umask en)) false) (l_fs s)), 0)
          end
      end
  | LChmod t m =>
      match lookup t (l_fs s) with
      | None => (s, ADM_ENOENT)
      | Some e => if srv_may_chmod en e
                  then (with_fs s (set t (mkE (e_uid e) (e_gid e) m (e_isdir e)) (l_fs s)), 0)
                  else (s, ADM_EPERM)
      end
  | LChown t u g =>
      match lookup t (l_fs s) with
      | None => (s, ADM_ENOENT)
      | Some e => if srv_may_chown en e u g
                  then (with_fs s (set t (mkE (keep u (e_uid e)) (keep g (e_gid e)) (e_mode e) (e_isdir e)) (l_fs s)), 0)
                  else (s, ADM_EPERM)
      end
  | LUnlink t =>
      match lookup t (l_fs s) with
      | None => (s, ADM_ENOENT)
      | Some _ => (with_fs s (remove t (l_fs s)), 0)
      end
  | LRmdir =>
      match lookup TDir (l_fs s) with
      | None => (s, ADM_ENOENT)
      | Some _ => if has_children (l_fs s) then (s, ADM_ENOTEMPTY) else (with_fs s (remove TDir (l_fs s)), 0)
      end
  | LAccept u g => (with_log s (EvAccept u g), 0)
  | LRespond e => (with_log s (EvRespond e), 0)
  | LChanAdd => (mkL (l_fs s) true (l_log s), 0)
  | LChanDel => (mkL (l_fs s) false (l_log s), 0)
  | LPeerSend => if l_chan s then (with_log s EvMsg, 0) else (s, 0)     (* msg_process only through a channel *)
  | LForeign tr filt =>
      match tr with
      | Shm => (s, 0)
      | Sock => if l_chan s && negb filt then (with_log s EvMsgForeign, 0) else (s, 0)
      end
  | LCb c => (with_log s (EvCb c), 0)
  end.

Fixpoint lrun (en : env) (s : lstate) (l : list lop) : lstate :=
  match l with [] => s | o :: r => lrun en (fst (lexec en s o)) r end.

(* ------------------------------------------------------------------ the world: all peers *)
Definition world := nat -> lstate.
Definition w_empty : world := fun _ => l_empty.
Definition upd (k : nat) (v : lstate) (w : world) : world := fun j => if Nat.eqb j k then v else w j.
Definition exec (en : env) (w : world) (o : op) : world * Z :=
  let '(s', r) := lexec en (w (fst o)) (snd o) in (upd (fst o) s' w, r).
Fixpoint run (en : env) (w : world) (l : list op) : world :=
  match l with [] => w | o :: r => run en (fst (exec en w o)) r end.
Fixpoint proj (k : nat) (l : list op) : list lop :=
  match l with [] => [] | (j, o) :: r => if Nat.eqb j k then o :: proj k r else proj k r end.

(* ------------------------------------------------------------------ a connecting peer *)
Record peer := mkP {
  p_real : cred;              (* real uid / gid of the connecting process *)
  p_eff : cred;               (* effective uid / gid *)
  p_decision : Z;             (* what the accept callback returns *)
  p_auth : option auth;       (* its qb_ipcs_connection_auth_set(uid, gid, mode), if it calls it *)
  p_raw : bool                (* a peer that does the handshake by hand and opens nothing *)
}.

(* the kernel oracle (see header) *)
Definition scm_creds (real eff : cred) : cred := real.
Definition ugp_of (p : peer) : cred := scm_creds (p_real p) (p_eff p).

(* handle_new_connection: c->auth.uid = c->euid = ugp->uid; c->auth.gid = ...; c->auth.mode = 0600 *)
Definition default_auth (ugp : cred) : auth := mkA (c_uid ugp) (c_gid ugp) m600.
Definition eff_auth (p : peer) : auth :=
  match p_auth p with Some a => a | None => default_auth (ugp_of p) end.

(* [Fixed]: the directory's mode follows the authorised file mode: whoever may read or write the files may search the
   directory (0600 -> 0700, 0660 -> 0770, 0400 -> 0500) *)
Definition dirmode (m : N) : N :=
  N.lor m (N.lor (N.shiftr (N.land m m444) 2) (N.shiftr (N.land m m222) 1)).

(* qb_ipcs_shm_rb_open: qb_rb_open (creates <name>-header, then <name>-data), qb_rb_chown (data, header),
   qb_rb_chmod (data, header) *)
Definition ring_ops (v : variant) (h d : ftag) (a : auth) : list lop :=
  [LOpen h m600; LOpen d m600] ++
  (match v with
   | AsFound => []
   | Fixed => [LChmod d (N.land (a_mode a) m600); LChmod h (N.land (a_mode a) m600)]
   end) ++
  [LChown d (a_uid a) (a_gid a); LChown h (a_uid a) (a_gid a); LChmod d (a_mode a); LChmod h (a_mode a)].

(* qb_ipcs_us_connect: the control file *)
Definition ctl_ops (v : variant) (a : auth) : list lop :=
  [LOpen TCtl m600] ++
  (match v with AsFound => [] | Fixed => [LChmod TCtl (N.land (a_mode a) m600)] end) ++
  [LChown TCtl (a_uid a) (a_gid a); LChmod TCtl (a_mode a)].

(* funcs.connect *)
Definition connect_ops (v : variant) (tr : transport) (a : auth) : list lop :=
  match tr with
  | Shm =>
      (match v with AsFound => [LChown TDir (a_uid a) (a_gid a)] | Fixed => [] end) ++
      ring_ops v TReqH TReqD a ++ ring_ops v TRspH TRspD a ++ ring_ops v TEvtH TEvtD a
  | Sock => ctl_ops v a
  end.

(* handle_new_connection for one peer: the exact sequence the library performs *)
Definition admission_ops (v : variant) (tr : transport) (p : peer) : list lop :=
  let ugp := ugp_of p in
  let a := eff_auth p in
  (match v with
   | AsFound => [LMkdtemp; LChmod TDir m770; LChown TDir (c_uid ugp) (c_gid ugp)]
   | Fixed => [LMkdtemp]
   end) ++
  [LAccept (c_uid ugp) (c_gid ugp)] ++
  (if p_decision p =? 0
   then (match v with
         | AsFound => []
         | Fixed => [LChmod TDir (N.land (dirmode (a_mode a)) m700); LChown TDir (a_uid a) (a_gid a);
                     LChmod TDir (dirmode (a_mode a))]
         end) ++
        connect_ops v tr a ++ [LChanAdd; LRespond 0; LCb CbCreated]
   else [LRespond (p_decision p); LCb CbDestroyed; LRmdir]).

(* the server notices the peer's death: qb_ipcs_disconnect of an ESTABLISHED connection, then the last unref *)
Definition teardown_ops (tr : transport) : list lop :=
  [LRmdir; LCb CbClosed; LRmdir; LChanDel; LCb CbDestroyed] ++
  (match tr with
   | Shm => [LUnlink TRspD; LUnlink TRspH; LUnlink TEvtD; LUnlink TEvtH; LUnlink TReqD; LUnlink TReqH]
   | Sock => [LUnlink TCtl]
   end) ++ [LRmdir].

(* everything the server ever does for one peer *)
Definition peer_script (v : variant) (tr : transport) (p : peer) : list lop :=
  admission_ops v tr p ++ (if p_decision p =? 0 then teardown_ops tr else []).

(* ------------------------------------------------------------------ the client's view *)
(* classic owner / group / other check for a process without supplementary groups; bits: r=4 w=2 x=1 *)
Definition may (c : cred) (e : entry) (bits : N) : bool :=
  if c_uid c =? 0 then true
  else let cls := if c_uid c =? e_uid e then N.shiftr (e_mode e) 6
                  else if c_gid c =? e_gid e then N.shiftr (e_mode e) 3 else e_mode e in
       N.eqb (N.land (N.land cls 7) bits) bits.
Definition may_open (c : cred) (f : lfs) (t : ftag) : bool :=
  match lookup TDir f, lookup t f with
  | Some d, Some e => may c d 1 && may c e 6
  | _, _ => false
  end.
Definition client_files (tr : transport) : list ftag :=
  match tr with Shm => [TReqH; TReqD; TRspH; TRspD; TEvtH; TEvtD] | Sock => [TCtl] end.

(* result of the client's connect call, given the peer's state when it reads the response *)
Definition connect_result (tr : transport) (p : peer) (s : lstate) : Z :=
  if negb (p_decision p =? 0) then p_decision p
  else if p_raw p then 0
  else if forallb (may_open (p_eff p) (l_fs s)) (client_files tr) then 0 else - ADM_EACCES.

(* ------------------------------------------------------------------ the property's predicates *)
Definition submode (a b : N) : Prop := N.ldiff a b = 0%N.
Definition submodeb (a b : N) : bool := N.eqb (N.ldiff a b) 0%N.
Definition allowed (a : auth) (isdir : bool) : N := if isdir then dirmode (a_mode a) else a_mode a.

(* not handed over yet: still the server's own, nobody but the server's user has any access *)
Definition private_to (sv : cred) (e : entry) : Prop := e_uid e = c_uid sv /\ submode (e_mode e) m700.
(* handed over: owner and group are the authorised ones (-1 = "leave the server's"), mode within the chosen one *)
Definition handed_over (sv : cred) (a : auth) (e : entry) : Prop :=
  e_uid e = keep (a_uid a) (c_uid sv) /\ e_gid e = keep (a_gid a) (c_gid sv) /\
  submode (e_mode e) (allowed a (e_isdir e)).
(* [oa] = what the accept callback authorised: None for a refused peer *)
Definition permitted (sv : cred) (oa : option auth) (e : entry) : Prop :=
  private_to sv e \/ exists a, oa = Some a /\ handed_over sv a e.
Definition permittedb (sv : cred) (oa : option auth) (e : entry) : bool :=
  ((e_uid e =? c_uid sv) && submodeb (e_mode e) m700) ||
  match oa with
  | None => false
  | Some a => (e_uid e =? keep (a_uid a) (c_uid sv)) && (e_gid e =? keep (a_gid a) (c_gid sv)) &&
              submodeb (e_mode e) (allowed a (e_isdir e))
  end.
Definition authorised (p : peer) : option auth := if p_decision p =? 0 then Some (eff_auth p) else None.

(* what the tree as found guarantees instead (weaker): files never beyond 0600 | chosen mode, directory never beyond
   0770 *)
Definition weak_ok (a : auth) (e : entry) : Prop :=
  if e_isdir e then submode (e_mode e) m770 else submode (e_mode e) (N.lor m600 (a_mode a)).

Definition no_msg (l : list levent) : Prop := ~ In EvMsg l.
Fixpoint accepts (l : list levent) : list (Z * Z) :=
  match l with [] => [] | EvAccept u g :: r => (u, g) :: accepts r | _ :: r => accepts r end.
Fixpoint responses (l : list levent) : list Z :=
  match l with [] => [] | EvRespond e :: r => e :: responses r | _ :: r => responses r end.
Definition is_send (o : lop) : bool := match o with LPeerSend => true | LForeign _ _ => true | _ => false end.
(* a foreign datagram that cannot get through: no address (shm) or the sender check is in place *)
Definition foreign_blocked (o : lop) : bool :=
  match o with LForeign Sock false => false | _ => true end.
