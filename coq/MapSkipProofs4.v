(* MapSkipProofs4 - C18 for the pointer-level skiplist model, continued: once every iterator has been freed the list
   behaves exactly like a dictionary of the surviving entries.  Proofs about the model only. *)
From Coq Require Import List NArith ZArith Bool Arith Lia Sorted.
Require Import Verif.MapSpec Verif.MapHashModel Verif.MapSkipModel Verif.MapRefModel Verif.MapRefProofs Verif.MapHashProofs2
  Verif.MapHashProofs4 Verif.MapSkipProofs2 Verif.MapSkipProofs Verif.MapSkipProofs3.
Import ListNotations.

Lemma ktop_after : forall ops s s', KTop s -> k_state_after kv_fixed s ops = Ok s' -> KTop s'.
Proof.
  induction ops as [|[o orc] ops]; cbn [k_state_after]; intros s s' T E. inversion E; subst; auto.
  destruct (skip_step_safe rc_consts s o orc T) as [s1 [x [ns [E1 E2]]]]. rewrite E1 in E. eapply IHops; eauto.
Qed.

Lemma nodup_keys_sorted : forall s l, StronglySorted (klt s) l -> NoDup (map (nkey s) l).
Proof.
  intros s l SS. induction SS; simpl; constructor; auto.
  intro Q. apply in_map_iff in Q. destruct Q as [y [Q1 Q2]]. eapply Forall_forall in H; eauto. unfold klt in H.
  rewrite Q1 in H. rewrite key_ltb_irrefl in H. discriminate.
Qed.

Lemma inv17_kabs : forall RP ZP Zs s C0, SGood RP ZP Zs s C0 -> Inv17 (kabs s C0) (spec_of (kabs s C0)).
Proof.
  intros RP ZP Zs s C0 G. apply inv17_spec_of; simpl; auto.
  - apply forallb_forall. intros e He. apply in_map_iff in He. destruct He as [x [E1 E2]]. subst e. apply sent_live.
  - intros e He. apply in_map_iff in He. destruct He as [x [E1 E2]]. subst e.
    destruct (sg_node _ _ _ _ _ G x E2) as [m [k [M1 [_ [_ [_ M5]]]]]]. unfold sent. rewrite M1. simpl. apply dnode_lt in M1. unfold HEADER in *. lia.
  - rewrite map_map. assert (ND : NoDup C0) by (eapply sgood_nodup; eauto).
    assert (POS : forall x, In x C0 -> 1 <= x).
    { intros x Hx. destruct (sg_node _ _ _ _ _ G x Hx) as [_ [_ [_ [_ [_ [_ M5]]]]]]. unfold HEADER in *. lia. }
    assert (RID : forall z, re_id (sent s z) = z - 1) by (intros; unfold sent; destruct (dnode s z); auto).
    clear G. induction C0; simpl; constructor.
    + intro Q. apply in_map_iff in Q. destruct Q as [y [Q1 Q2]]. rewrite !RID in Q1. inversion ND; subst.
      assert (1 <= y) by (apply POS; right; auto). assert (1 <= a) by (apply POS; left; auto). assert (y = a) by lia. subst. contradiction.
    + inversion ND; subst. apply IHC0; auto. intros. apply POS. right; auto.
  - rewrite map_map. erewrite map_ext. 2:{ intros. apply sent_key. } apply nodup_keys_sorted. apply (sg_sorted _ _ _ _ _ G).
Qed.

(* after ANY history from the empty list - iterators created, advanced, abandoned mid-way, entries removed and added under
   them - once all iterators are freed, the list is a well-formed skiplist with all reference counts 1 and nothing kept
   aside, and every further iterator-free history runs in lock step with the dictionary specification started from
   exactly the surviving entries *)
Theorem skip_c18_survivors : forall ops1 s,
  k_state_after kv_fixed k_create ops1 = Ok s -> k_iters s = [] -> k_alive s = true ->
  exists C0, s_dict (spec_of (kabs s C0)) = live_kv (kabs s C0) /\
    StronglySorted (fun a b => key_ltb (fst a) (fst b) = true) (live_kv (kabs s C0)) /\
    forall rc ops2, no_iter_ops_k ops2 = true -> ks_lockstep rc s C0 (spec_of (kabs s C0)) ops2.
Proof.
  intros ops1 s E IT AL. assert (T : KTop s) by (eapply ktop_after; eauto; apply ktop_create).
  destruct T as [D|[C0 [Zs [cnt [zk [K [CNT [ND US]]]]]]]]. congruence.
  assert (C0' : forall id, cnt id = 0) by (intros; rewrite CNT, IT; reflexivity).
  generalize (ki_good _ _ _ _ _ K). intro G. exists C0. split; [|split].
  - unfold live_kv. rewrite live_kabs. reflexivity.
  - eapply skip_traversal_ascending_g; eauto.
  - intros rc ops2 NI. apply (skip_c17_from_g (RPP cnt) (ZPP cnt zk) Zs (rpp_pos cnt) rc ops2 s C0); auto.
    + intros id r. unfold RPP. rewrite C0'. tauto.
    + eapply inv17_kabs; eauto.
Qed.

(* and nothing is kept aside then: no removed node is still allocated on behalf of an iterator *)
Theorem skip_c18_survivors_invariant : forall ops1 s,
  k_state_after kv_fixed k_create ops1 = Ok s -> k_iters s = [] -> k_alive s = true -> exists C0, SGood17 s C0.
Proof.
  intros ops1 s E IT AL. assert (T : KTop s) by (eapply ktop_after; eauto; apply ktop_create).
  destruct T as [D|[C0 [Zs [cnt [zk [K [CNT [ND US]]]]]]]]. congruence.
  assert (C0' : forall id, cnt id = 0) by (intros; rewrite CNT, IT; reflexivity).
  generalize (ki_good _ _ _ _ _ K). intro G. exists C0.
  assert (ZE : Zs = []).
  { destruct Zs as [|z Zs]; auto. destruct (sg_z _ _ _ _ _ G z (or_introl eq_refl)) as [[m [_ [_ [_ [_ Q]]]]] _]. rewrite C0' in Q. lia. }
  subst Zs. unfold SGood17.
  eapply (sgood_transfer (RPP cnt) RP1 (ZPP cnt zk) ZPT [] [] s s); eauto.
  - intros id r _. unfold RPP, RP1. rewrite C0'. auto.
  - intros z m [].
Qed.
