(* C04 - request dispatch preserves the invariant (fixed variant). *)
Require Import ZArith List Bool Lia.
Require Import Verif.IpcLifeModel Verif.IpcLifeProofs Verif.IpcLifeProofs2.
Import ListNotations.
Open Scope Z_scope.

Lemma CI_nreq : forall h j d nj inl x v, CI h j d nj inl x -> CI h j d nj inl (w_nreq v x).
Proof. intros. ci x. Qed.
Lemma CI_hup : forall h j d nj inl x v, CI h j d nj inl x -> CI h j d nj inl (w_hup v x).
Proof. intros. ci x. Qed.
Lemma CI_setph_same : forall h j d nj inl x, CI h j d nj inl x -> CI h j d nj inl (w_ph (c_ph x) x).
Proof. intros. ci x. Qed.
Lemma st_eqb_true : forall a b, st_eqb a b = true -> a = b.
Proof. destruct a, b; simpl; congruence. Qed.

Lemma GI_put_same : forall H J (D : dctx) w c x',
  GI H J D w -> CI (H c) (J c) (D c) (cnt c (jobs w)) (mem_id c (s_list w)) x' ->
  (c_ph x' = PNone <-> c_ph (conns w c) = PNone) -> c_alloc x' = c_alloc (conns w c) -> GI H J D (put c x' w).
Proof. intros. eapply GI_put; eauto. Qed.

Section Dispatch.
  Variable cb : kind -> nat -> world -> R.
  Hypothesis Hcb : cb_ok cb.

  Lemma req_loop_ok : forall n H J (D : dctx) c avail w,
    GI H J D w -> 1 <= H c -> c_st (conns w c) = ESTABLISHED ->
    safe (fun w' _ => GI H J D w') (req_loop true cb n c avail w).
  Proof.
    induction n; intros H J D c avail w G Hh S; simpl; auto.
    pose proof G as (A & _ & _). pose proof (A c) as Ac.
    assert (L : live (conns w c)) by (eapply CI_h_live; eauto).
    assert (Al : c_alloc (conns w c) = true) by (eapply CI_live_alloc; eauto).
    apply safe_chk; auto.
    apply safe_chks; [apply (GI_svc_alive _ _ _ _ c G Al)|].
    destruct (c_nreq (conns w c) <=? 0); simpl; auto.
    set (w1 := put c _ w).
    assert (G1 : GI H J D w1).
    { unfold w1. apply GI_put_same; [exact G | apply CI_nreq; exact Ac | simpl; tauto | reflexivity]. }
    destruct (CI_est_facts _ _ _ _ _ _ Ac L S) as (F1 & _).
    assert (P1 : c_ph (conns w1 c) = PCre) by (unfold w1; simpl; rewrite updf_same; simpl; auto).
    apply safe_bind.
    destruct (Hcb KMsg c w1) as (ret & p' & S1 & S2).
    { rewrite P1; simpl; congruence. }
    { intros; discriminate. }
    rewrite P1 in S1. simpl in S1. inversion S1; subst p'. clear S1.
    eapply safe_mono; [| apply (S2 H J D)].
    - intros w2 r (-> & G2). cbv beta.
      pose proof G2 as (A2 & _ & _). pose proof (A2 c) as Ac2.
      assert (L2 : live (conns w2 c)) by (eapply CI_h_live; eauto).
      assert (Al2 : c_alloc (conns w2 c) = true) by (eapply CI_live_alloc; eauto).
      apply safe_chk; auto.
      apply safe_chks; [apply (GI_svc_alive _ _ _ _ c G2 Al2)|]. cbn [andb].
      destruct (st_eqb (c_st (conns w2 c)) ESTABLISHED) eqn:E; simpl; auto.
      apply st_eqb_true in E.
      destruct (ret <? 0); simpl; auto.
      destruct ((avail - 1 >? 0) && (c_fc (conns w2 c) =? 0)); simpl; auto.
    - pose proof G1 as (A1 & _ & _). specialize (A1 c).
      apply GI_put_same; [exact G1 | rewrite <- P1; apply CI_setph_same; exact A1 | rewrite P1; simpl; split; congruence | reflexivity].
  Qed.

  (* qb_ipcs_dispatch_connection_request on an ESTABLISHED connection *)
  Lemma dispatch_ok : forall shm H J (D : dctx) c hup w,
    GI H J D w -> live (conns w c) -> c_st (conns w c) = ESTABLISHED ->
    safe (fun w' _ => GI H J D w') (dispatch shm true cb c hup w).
  Proof.
    intros shm H J D c hup w G L S. pose proof G as (A & _ & _). pose proof (A c) as Ac.
    assert (H0 : 0 <= H c) by (unfold CI in Ac; lia).
    assert (Al : c_alloc (conns w c) = true) by (eapply CI_live_alloc; eauto).
    set (w0 := put c (w_rc (c_rc (conns w c) + 1) (conns w c)) w).
    assert (G0 : GI (addf H c 1) J D w0).
    { pose proof (ref_ok H J D c w G L) as R. unfold conn_ref, chk in R. rewrite Al in R. exact R. }
    assert (Hh : 1 <= addf H c 1 c) by (rewrite addf_same; lia).
    assert (Fin : forall w res, GI (addf H c 1) J D w ->
              safe (fun w' _ => GI H J D w')
                   (bind (if res =? 0 then Ok w 0 else disconnect true cb c w)
                         (fun w' _ => conn_unref cb c w'))).
    { intros w' res G'. apply safe_bind. destruct (res =? 0).
      - simpl. apply unref_held_ok; auto.
      - eapply safe_mono; [| apply disconnect_ok; eauto].
        + intros w'' z'' G''. apply unref_held_ok; auto.
        + pose proof G' as (A' & _ & _). eapply CI_h_live; [apply (A' c)|]. auto. }
    assert (S0 : c_st (conns w0 c) = ESTABLISHED) by (unfold w0; simpl; rewrite updf_same; simpl; auto).
    assert (Al0 : forall w', GI (addf H c 1) J D w' -> c_alloc (conns w' c) = true).
    { intros w' (A' & _ & _). eapply CI_live_alloc; [apply (A' c)|]. eapply CI_h_live; [apply (A' c)|]. auto. }
    unfold dispatch. apply safe_chk; auto.
    replace (conn_ref c w) with (Ok w0 0) by (unfold conn_ref, chk; rewrite Al; reflexivity). cbn [bind].
    destruct hup.
    - apply Fin; auto.
    - apply safe_chk; auto.
      destruct (negb (c_fc (conns w0 c) =? 0)).
      + apply Fin; auto.
      + apply safe_chks; [apply (GI_svc_alive _ _ _ _ c G0 (Al0 w0 G0))|].
        destruct (shm && (q_len c w0 =? 0)).
        * apply Fin; auto.
        * apply safe_bind. eapply safe_mono; [| apply (req_loop_ok 51 (addf H c 1) J D c (q_len c w0) w0); auto].
          intros w1 z G1. cbv beta. destruct (z =? 1).
          -- apply Fin; auto.
          -- apply safe_chk; auto.
  Qed.

  (* _sock_connection_liveliness *)
  Lemma liveliness_ok : forall H J (D : dctx) c w,
    GI H J D w -> live (conns w c) -> safe (fun w' _ => GI H J D w') (liveliness true cb c w).
  Proof.
    intros. unfold liveliness. apply safe_chk.
    - destruct H0 as (A & _ & _). eapply CI_live_alloc; [apply (A c)|]; auto.
    - apply disconnect_ok; auto.
  Qed.
End Dispatch.
