(* C06 (a): executable model of what a libqb IPC server does with the bytes of a peer that is NOT (yet) an
   accepted client.  No proofs in this file.

   Transcribed from
     lib/ipc_setup.c   qb_ipcs_us_connection_acceptor / qb_ipcs_uc_recv_and_auth (new peer: accept, auth record, service
                       reference, poll-table entry), qb_ipc_us_recv_msghdr (the read loop), process_auth (revents tests,
                       the three ways out: stay registered / close / handle_new_connection), destroy_ipc_auth_data,
                       handle_new_connection (only its resource effects and the size it grants)
     lib/ipc_shm.c     qb_ipcs_shm_connect / _disconnect  } resource effects only: poll-table entries, descriptors,
     lib/ipc_socket.c  qb_ipcs_us_connect / _disconnect   } the connection directory under /dev/shm, service references
     lib/ipcs.c        qb_ipcs_dispatch_connection_request (POLLHUP / EOF on the setup socket of an idle connection),
                       qb_ipcs_disconnect, qb_ipcs_connection_unref (summarised as `teardown')

   C06 (b), (c) - what an ACCEPTED client can do with raw requests - live in IpcDataModel.v (CRaw, xrecv,
   recv_write_extent, process_body with the variant switches); this file only adds the lab state that combines both.

   The kernel is an oracle with this assumed behaviour (DESIGN.md section 7): a stream socket hands out the peer's bytes in
   order, in pieces of any size (`k_chunks': the theorems quantify over every way of cutting the stream into pieces);
   recvmsg on the non-blocking socket returns -EAGAIN when nothing is queued and 0 once the peer has shut down its
   sending side and everything was read; POLLHUP is reported once the peer has closed; POLLNVAL never (the descriptor
   is the server's own); SCM_CREDENTIALS are present (`cred_ok', an input; the lab always sees true). *)
From Coq Require Import ZArith List Bool.
Import ListNotations.
Require Import Verif.gen.Consts_ipcdata Verif.IpcDataModel.
Local Open Scope Z_scope.

(* ---- bytes ---- *)
Definition byte_at (l : list Z) (i : nat) : Z := nth i l 0.
Definition le32 (l : list Z) (off : Z) : Z :=
  let o := Z.to_nat off in
  byte_at l o + 256 * byte_at l (o + 1) + 65536 * byte_at l (o + 2) + 16777216 * byte_at l (o + 3).
Definition to_i32 (x : Z) : Z := if 2147483648 <=? x then x - 4294967296 else x.

(* ---- the server end of one accepted stream socket, as the kernel presents it ---- *)
Record ksock := { k_chunks : list (list Z);   (* unread bytes, in the pieces recvmsg will hand them out *)
                  k_eof : bool;               (* the peer shut down its sending side *)
                  k_hup : bool }.             (* the peer closed its socket *)

Definition k_empty : ksock := {| k_chunks := []; k_eof := false; k_hup := false |}.
Definition k_push (k : ksock) (bytes : list Z) : ksock :=
  match bytes with
  | [] => k
  | _ => {| k_chunks := k_chunks k ++ [bytes]; k_eof := k_eof k; k_hup := k_hup k |}
  end.
Definition k_shut (k : ksock) : ksock := {| k_chunks := k_chunks k; k_eof := true; k_hup := k_hup k |}.
Definition k_close (k : ksock) : ksock := {| k_chunks := k_chunks k; k_eof := true; k_hup := true |}.

Definition pollin (k : ksock) : bool := match k_chunks k with [] => k_eof k | _ => true end.

Inductive rres := RGot (l : list Z) | RAgain | REof.

(* recvmsg(fd, iov of `want' bytes, MSG_WAITALL) on the non-blocking socket *)
Definition krecv (k : ksock) (want : nat) : rres * ksock :=
  match k_chunks k with
  | [] => ((if k_eof k then REof else RAgain), k)
  | c :: rest =>
      let left := skipn want c in
      (RGot (firstn want c),
       {| k_chunks := match left with [] => rest | _ => left :: rest end; k_eof := k_eof k; k_hup := k_hup k |})
  end.

(* ---- qb_ipc_us_recv_msghdr ---- *)
Definition LEN : nat := Z.to_nat IPC_CONNREQ_SIZE.      (* data->len = sizeof(struct qb_ipc_connection_request) *)

Inductive mhres := MhFull | MhAgain | MhErr (e : Z) | MhOutOfFuel.

(* `got' = the first data->processed bytes of data->msg.  Each round receives into &msg[processed] at most
   len - processed bytes; result 0 -> -ENOTCONN; -EAGAIN -> return with `processed' kept for the next call. *)
Fixpoint recv_msghdr (fuel : nat) (got : list Z) (k : ksock) : mhres * list Z * ksock :=
  match fuel with
  | O => (MhOutOfFuel, got, k)
  | S f =>
      let want := (LEN - length got)%nat in
      match krecv k want with
      | (RAgain, k') => (MhAgain, got, k')
      | (REof, k') => (MhErr IPC_ENOTCONN, got, k')
      | (RGot [], k') => (MhErr IPC_ENOTCONN, got, k')          (* result == 0 *)
      | (RGot l, k') =>
          let got' := got ++ l in
          if Nat.eqb (length got') LEN then (MhFull, got', k') else recv_msghdr f got' k'
      end
  end.

(* ---- process_auth ---- *)
Inductive pa_out :=
| PaStay (got : list Z)              (* return 0 / -EAGAIN path: stays registered, waits for more *)
| PaClose (err : Z)                  (* dispatch_del; close(fd); destroy_ipc_auth_data *)
| PaHand (req : list Z).             (* dispatch_del; handle_new_connection(s, 0, fd, req); destroy_ipc_auth_data *)

Definition req_id (req : list Z) : Z := to_i32 (le32 req IPC_HDR_OFF_ID).
Definition req_max (req : list Z) : Z := le32 req IPC_CONNREQ_OFF_MAX.        (* uint32_t max_msg_size *)

Definition process_auth (srv_down cred_ok : bool) (got : list Z) (k : ksock) : pa_out * ksock :=
  if srv_down then (PaClose IPC_ESHUTDOWN, k) else          (* data->s->server_sock == -1 *)
  if k_hup k then (PaClose IPC_ESHUTDOWN, k) else           (* revents & POLLHUP *)
  if negb (pollin k) then (PaStay got, k) else              (* (revents & POLLIN) == 0 *)
  match recv_msghdr (S LEN) got k with
  | (MhAgain, got', k') => (PaStay got', k')
  | (MhFull, got', k') =>
      if negb cred_ok then (PaClose IPC_EINVAL, k')         (* qb_ipc_auth_creds found no SCM_CREDENTIALS *)
      else if req_id got' =? IPC_MSG_AUTHENTICATE then (PaHand got', k')
      else (PaClose 0, k')
  | (_, got', k') => (PaClose IPC_EIO, k')                  (* res != data->len *)
  end.

(* ---- what the service holds ---- *)
Record res := { r_table : Z;     (* descriptors registered with the main loop (dispatch_add / dispatch_del) *)
                r_fds : Z;       (* open descriptors of the server *)
                r_shm : Z;       (* connection directories under /dev/shm *)
                r_refs : Z;      (* references to the service object *)
                r_auths : Z;     (* struct ipc_auth_data records allocated *)
                r_conns : Z }.   (* struct qb_ipcs_connection objects allocated *)

Definition res_add (a : res) (t f m r u c : Z) : res :=
  {| r_table := r_table a + t; r_fds := r_fds a + f; r_shm := r_shm a + m; r_refs := r_refs a + r;
     r_auths := r_auths a + u; r_conns := r_conns a + c |}.

(* an idle service: the listening socket, registered; the creator's reference *)
Definition res_idle : res := {| r_table := 1; r_fds := 1; r_shm := 0; r_refs := 1; r_auths := 0; r_conns := 0 |}.

(* per-connection descriptors beyond the accepted stream socket, and poll-table entries:
   shm: the setup socket itself is registered (rings are mmap'ed, their descriptors closed again);
   socket: two datagram sockets; the request socket and the setup socket (liveness) are registered *)
Definition conn_table (t : transport) : Z := match t with SHM => 1 | SOCK => 2 end.
Definition conn_extra_fds (t : transport) : Z := match t with SHM => 0 | SOCK => 2 end.

Inductive pstat :=
| PArrived                     (* connected, waiting in the listen queue: the acceptor has not run yet *)
| PPending (got : list Z)      (* an auth record is registered, `got' received so far *)
| PClosed                      (* the server closed the descriptor without creating a connection *)
| PConn (mx : Z)               (* handle_new_connection created a connection with this max_msg_size *)
| PGone.                       (* that connection was torn down again *)

Record peer := { p_stat : pstat; p_sock : ksock;
                 p_sent : list Z }.     (* ghost: every byte this peer ever wrote, in order *)

Record hsvc := { h_tr : transport; h_enforced : Z;   (* s->max_buffer_size (qb_ipcs_enforce_buffer_size), 0 if unset *)
                 h_down : bool;                      (* the service was withdrawn (server_sock == -1) *)
                 h_peers : list peer; h_res : res }.

Definition hs_init (t : transport) : hsvc :=
  {| h_tr := t; h_enforced := 0; h_down := false; h_peers := []; h_res := res_idle |}.

(* what one op reports about the peer it concerned *)
Record hout := { ho_k : Z;            (* index of the peer *)
                 ho_sock : Z;         (* what the peer sees on its socket: -1 closed by the server, 1 bytes to read, 0 nothing *)
                 ho_accept : Z;       (* connection_accept callbacks during the op *)
                 ho_msgproc : Z;      (* msg_process callbacks during the op *)
                 ho_created : Z; ho_closed : Z; ho_destroyed : Z }.

(* one look of the main loop at peer p: (new peer, resources, accepts, created, closed, destroyed) *)
Definition peer_turn (t : transport) (enforced : Z) (down cred_ok : bool) (p : peer) (r : res)
  : peer * res * (Z * Z * Z * Z) :=
  match p_stat p with
  | PArrived =>
      (* qb_ipcs_us_connection_acceptor: accept() (+1 descriptor); qb_ipcs_uc_recv_and_auth: init_ipc_auth_data,
         qb_ipcs_ref, dispatch_add(process_auth) *)
      ({| p_stat := PPending []; p_sock := p_sock p; p_sent := p_sent p |}, res_add r 1 1 0 1 1 0, (0, 0, 0, 0))
  | PPending got =>
      match process_auth down cred_ok got (p_sock p) with
      | (PaStay got', k') => ({| p_stat := PPending got'; p_sock := k'; p_sent := p_sent p |}, r, (0, 0, 0, 0))
      | (PaClose _, k') =>
          (* dispatch_del, close, destroy_ipc_auth_data (qb_ipcs_unref + free) *)
          ({| p_stat := PClosed; p_sock := k'; p_sent := p_sent p |}, res_add r (-1) (-1) 0 (-1) (-1) 0, (0, 0, 0, 0))
      | (PaHand req, k') =>
          (* dispatch_del; handle_new_connection: qb_ipcs_connection_alloc (+1 service ref), mkdtemp, accept callback,
             funcs.connect (poll-table entries, datagram sockets), response, created callback; destroy_ipc_auth_data *)
          ({| p_stat := PConn (Z.max (req_max req) enforced); p_sock := k'; p_sent := p_sent p |},
           res_add (res_add r (-1) 0 0 (-1) (-1) 0) (conn_table t) (conn_extra_fds t) 1 1 0 1,
           (1, 1, 0, 0))
      end
  | PConn mx =>
      (* an idle established connection: POLLHUP on its stream socket, or POLLIN + EOF, make
         qb_ipcs_dispatch_connection_request / _sock_connection_liveliness disconnect it; stray bytes are swallowed *)
      if k_hup (p_sock p) || (k_eof (p_sock p) && match k_chunks (p_sock p) with [] => true | _ => false end) then
        ({| p_stat := PGone; p_sock := p_sock p; p_sent := p_sent p |},
         res_add r (- conn_table t) (- (1 + conn_extra_fds t)) (-1) (-1) 0 (-1), (0, 0, 1, 1))
      else
        let k := p_sock p in
        let k' := match t, k_chunks k with
                  | _, [] => k
                  | SHM, c :: rest =>    (* "Nothing in q but got POLLIN": qb_ipc_us_recv(&c->setup, bytes, 1, 0) *)
                      {| k_chunks := match skipn 1 c with [] => rest | l => l :: rest end; k_eof := k_eof k; k_hup := k_hup k |}
                  | SOCK, c :: rest =>   (* _sock_connection_liveliness: recv(fd, buf, 10, MSG_DONTWAIT) *)
                      {| k_chunks := match skipn 10 c with [] => rest | l => l :: rest end; k_eof := k_eof k; k_hup := k_hup k |}
                  end in
        ({| p_stat := PConn mx; p_sock := k'; p_sent := p_sent p |}, r, (0, 0, 0, 0))
  | _ => (p, r, (0, 0, 0, 0))
  end.

Definition add4 (a b : Z * Z * Z * Z) : Z * Z * Z * Z :=
  let '(a1, a2, a3, a4) := a in let '(b1, b2, b3, b4) := b in (a1 + b1, a2 + b2, a3 + b3, a4 + b4).

Fixpoint turns (n : nat) (t : transport) (enforced : Z) (down cred_ok : bool) (p : peer) (r : res) (acc : Z * Z * Z * Z)
  : peer * res * (Z * Z * Z * Z) :=
  match n with
  | O => (p, r, acc)
  | S n' => let '(p', r', c) := peer_turn t enforced down cred_ok p r in turns n' t enforced down cred_ok p' r' (add4 acc c)
  end.

(* what the raw peer sees when it peeks at its socket *)
Definition peer_view (p : peer) : Z :=
  match p_stat p with
  | PArrived => 0
  | PPending _ => 0
  | PClosed => -1
  | PConn _ => 1           (* the connection response is waiting to be read *)
  | PGone => 1             (* still unread, although the server has closed *)
  end.

Fixpoint set_nth {A} (l : list A) (n : nat) (x : A) : list A :=
  match l, n with
  | [], _ => []
  | _ :: t, O => x :: t
  | h :: t, S n' => h :: set_nth t n' x
  end.

Inductive hop :=
| HNew (bytes : list Z)                 (* a new peer connects and writes these bytes (possibly none) *)
| HApp (k : nat) (bytes : list Z)       (* peer k writes more bytes *)
| HShut (k : nat)                       (* peer k shuts down its sending side *)
| HClose (k : nat).                     (* peer k closes its socket *)

(* after every op the lab gives the server turns until no descriptor is ready any more, at most this many; a turn
   in which nothing is ready changes nothing, so the model simply takes them all *)
Definition NTURNS : nat := 200.

Definition mk_hout (k : nat) (p : peer) (c : Z * Z * Z * Z) : hout :=
  let '(a, cr, cl, de) := c in
  {| ho_k := Z.of_nat k; ho_sock := peer_view p; ho_accept := a; ho_msgproc := 0;
     ho_created := cr; ho_closed := cl; ho_destroyed := de |}.

Definition with_peers (s : hsvc) (ps : list peer) (r : res) : hsvc :=
  {| h_tr := h_tr s; h_enforced := h_enforced s; h_down := h_down s; h_peers := ps; h_res := r |}.

(* cred_ok: the kernel attached SCM_CREDENTIALS to what it delivered (oracle) *)
Definition hs_step (cred_ok : bool) (s : hsvc) (o : hop) : hsvc * option hout :=
  let run k p r :=
    let '(p', r', c) := turns NTURNS (h_tr s) (h_enforced s) (h_down s) cred_ok p r (0, 0, 0, 0) in
    (p', r', mk_hout k p' c) in
  match o with
  | HNew bytes =>
      let p := {| p_stat := PArrived; p_sock := k_push k_empty bytes; p_sent := bytes |} in
      let k := length (h_peers s) in
      let '(p', r', x) := run k p (h_res s) in
      (with_peers s (h_peers s ++ [p']) r', Some x)
  | HApp k bytes =>
      match nth_error (h_peers s) k with
      | None => (s, None)
      | Some p =>
          (* a peer whose descriptor the server has closed can no longer deliver anything *)
          let p1 := match p_stat p with
                    | PClosed | PGone => p
                    | _ => {| p_stat := p_stat p; p_sock := k_push (p_sock p) bytes; p_sent := p_sent p ++ bytes |}
                    end in
          let '(p', r', x) := run k p1 (h_res s) in
          (with_peers s (set_nth (h_peers s) k p') r', Some x)
      end
  | HShut k =>
      match nth_error (h_peers s) k with
      | None => (s, None)
      | Some p =>
          let p1 := {| p_stat := p_stat p; p_sock := k_shut (p_sock p); p_sent := p_sent p |} in
          let '(p', r', x) := run k p1 (h_res s) in
          (with_peers s (set_nth (h_peers s) k p') r', Some x)
      end
  | HClose k =>
      match nth_error (h_peers s) k with
      | None => (s, None)
      | Some p =>
          let p1 := {| p_stat := p_stat p; p_sock := k_close (p_sock p); p_sent := p_sent p |} in
          let '(p', r', x) := run k p1 (h_res s) in
          (with_peers s (set_nth (h_peers s) k p') r', Some x)
      end
  end.

Fixpoint hs_run (cred_ok : bool) (s : hsvc) (h : list hop) : hsvc * list (option hout) :=
  match h with
  | [] => (s, [])
  | o :: t => let '(s1, x) := hs_step cred_ok s o in let '(s2, xs) := hs_run cred_ok s1 t in (s2, x :: xs)
  end.

(* ---- the lab: a service with hostile handshake peers AND (optionally) one established, well-connected client whose
   data path is IpcDataModel.st.  An op concerns one or the other. ---- *)
Record lab := { l_hs : hsvc; l_main : option st }.

Inductive lop := LHs (o : hop) | LData (o : op) (env : list kres).

Definition lab_step (vr : variant) (l : lab) (o : lop) : lab * option hout * option out :=
  match o with
  | LHs h => let '(s', x) := hs_step true (l_hs l) h in ({| l_hs := s'; l_main := l_main l |}, x, None)
  | LData d env =>
      match l_main l with
      | None => (l, None, None)
      | Some m => let '(m', x) := step vr m d env in ({| l_hs := l_hs l; l_main := Some m' |}, None, Some x)
      end
  end.

(* resources of the established main connection (server side + the in-process client's descriptors) are constant
   while it lives; the census the lab prints is h_res plus that constant, computed by the driver *)
Definition census (s : hsvc) : Z * Z * Z * Z := (r_table (h_res s), r_fds (h_res s), r_shm (h_res s), r_refs (h_res s)).
