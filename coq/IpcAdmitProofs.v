(* C05 - IPC admission: lemmas about coq/IpcAdmitModel.v.

   Structure:
   1. permission-bit lemmas (submode);
   2. frame: an op of one peer touches only that peer's state, hence for EVERY interleaving l of several peers the
      state of peer k after l is the state after k's own ops in l ([run_proj]);
   3. the file-system part of a step depends only on the file system ([fexec]); sends never change it;
   4. "at any moment": [check_all P f ops] = P holds after every prefix of ops; proved for the whole script of one
      peer (admission + tear-down) by executing the transcription symbolically for all credentials, decisions,
      authorisations and umasks;
   5. credentials handed to accept; refusal leaves nothing. *)
From Coq Require Import ZArith NArith List Bool Lia.
Import ListNotations.
Require Import Verif.gen.Consts_ipcadmit Verif.IpcAdmitModel.
Local Open Scope Z_scope.

(* ------------------------------------------------------------------ 1. permission bits *)
Ltac bitwise :=
  let n := fresh "n" in
  apply N.bits_inj; intro n;
  rewrite ?N.ldiff_spec, ?N.land_spec, ?N.lor_spec, ?N.bits_0;
  repeat match goal with |- context [N.testbit ?x n] => destruct (N.testbit x n) end; reflexivity.

Lemma sub_refl a : submode a a.
Proof. unfold submode. apply N.ldiff_diag. Qed.
Lemma sub_land_l a b : submode (N.land a b) a.
Proof. unfold submode. bitwise. Qed.
Lemma sub_land_r a b : submode (N.land a b) b.
Proof. unfold submode. bitwise. Qed.
Lemma sub_ldiff a u : submode (N.ldiff a u) a.
Proof. unfold submode. bitwise. Qed.
Lemma sub_lor_l a b : submode a (N.lor a b).
Proof. unfold submode. bitwise. Qed.
Lemma sub_lor_r a b : submode b (N.lor a b).
Proof. unfold submode. bitwise. Qed.
Lemma sub_trans a b c : submode a b -> submode b c -> submode a c.
Proof.
  unfold submode; intros H1 H2. apply N.bits_inj; intro n.
  assert (A := f_equal (fun x => N.testbit x n) H1).
  assert (B := f_equal (fun x => N.testbit x n) H2).
  cbn beta in A, B. rewrite N.ldiff_spec, N.bits_0 in *.
  destruct (N.testbit a n), (N.testbit b n), (N.testbit c n); cbn in *; congruence.
Qed.
Lemma sub_600_700 : submode m600 m700.
Proof. reflexivity. Qed.
Lemma sub_700_770 : submode m700 m770.
Proof. reflexivity. Qed.
Lemma sub_ldiff_600_700 u : submode (N.ldiff m600 u) m700.
Proof. eapply sub_trans; [apply sub_ldiff | apply sub_600_700]. Qed.
Lemma sub_land_600_700 a : submode (N.land a m600) m700.
Proof. eapply sub_trans; [apply sub_land_r | apply sub_600_700]. Qed.
Lemma sub_ldiff_600_lor u a : submode (N.ldiff m600 u) (N.lor m600 a).
Proof. eapply sub_trans; [apply sub_ldiff | apply sub_lor_l]. Qed.
Lemma sub_ldiff_700_770 u : submode (N.ldiff m700 u) m770.
Proof. eapply sub_trans; [apply sub_ldiff | apply sub_700_770]. Qed.

Lemma submodeb_spec a b : submodeb a b = true <-> submode a b.
Proof. unfold submodeb, submode. apply N.eqb_eq. Qed.

Lemma permittedb_spec sv oa e : permittedb sv oa e = true <-> permitted sv oa e.
Proof.
  unfold permittedb, permitted, private_to, handed_over. split.
  - intro H. apply orb_true_iff in H as [H | H].
    + apply andb_true_iff in H as [H1 H2]. left. split; [apply Z.eqb_eq, H1 | apply submodeb_spec, H2].
    + destruct oa as [a |]; [| discriminate]. right. exists a. split; [reflexivity |].
      apply andb_true_iff in H as [H H3]. apply andb_true_iff in H as [H1 H2].
      repeat split; [apply Z.eqb_eq, H1 | apply Z.eqb_eq, H2 | apply submodeb_spec, H3].
  - intros [[H1 H2] | [a [-> [H1 [H2 H3]]]]].
    + apply orb_true_iff; left. apply andb_true_iff; split; [apply Z.eqb_eq, H1 | apply submodeb_spec, H2].
    + apply orb_true_iff; right. rewrite !andb_true_iff. repeat split;
        [apply Z.eqb_eq, H1 | apply Z.eqb_eq, H2 | apply submodeb_spec, H3].
Qed.

(* ------------------------------------------------------------------ 2. frame / projection *)
Lemma run_proj : forall en l w k, run en w l k = lrun en (w k) (proj k l).
Proof.
  induction l as [| [j o] r IH]; intros w k; [reflexivity |].
  cbn [run proj]. unfold exec. cbn [fst snd].
  destruct (lexec en (w j) o) as [s' res] eqn:E. cbn [fst].
  rewrite IH. unfold upd. destruct (Nat.eqb j k) eqn:Ejk.
  - apply Nat.eqb_eq in Ejk; subst j. rewrite Nat.eqb_refl. cbn [lrun]. rewrite E. reflexivity.
  - rewrite Nat.eqb_sym, Ejk. reflexivity.
Qed.

(* ------------------------------------------------------------------ 3. the file-system part of a step *)
Definition fexec (en : env) (f : lfs) (o : lop) : lfs := l_fs (fst (lexec en (mkL f false []) o)).
Fixpoint frun (en : env) (f : lfs) (l : list lop) : lfs :=
  match l with [] => f | o :: r => frun en (fexec en f o) r end.
Definition fsops (l : list lop) : list lop := filter (fun o => negb (is_send o)) l.

Lemma lexec_fs en s o : l_fs (fst (lexec en s o)) = fexec en (l_fs s) o.
Proof.
  unfold fexec. destruct s as [f c lg]. destruct o; cbn [lexec l_fs l_chan l_log];
    repeat match goal with
           | |- context [match lookup ?t ?g with _ => _ end] => destruct (lookup t g)
           | |- context [if ?b then _ else _] => destruct b
           end; reflexivity.
Qed.
Lemma fexec_send en f : fexec en f LPeerSend = f.
Proof. reflexivity. Qed.
Lemma fexec_foreign en f tr filt : fexec en f (LForeign tr filt) = f.
Proof. unfold fexec. destruct tr; [reflexivity |]. cbn [lexec l_chan andb]. reflexivity. Qed.
Lemma lrun_fs en : forall l s, l_fs (lrun en s l) = frun en (l_fs s) l.
Proof. induction l as [| o r IH]; intro s; [reflexivity |]. cbn [lrun frun]. rewrite IH, lexec_fs. reflexivity. Qed.
Lemma frun_fsops en : forall l f, frun en f l = frun en f (fsops l).
Proof.
  induction l as [| o r IH]; intro f; [reflexivity |].
  unfold fsops; cbn [filter]. destruct o; cbn [is_send negb frun]; try apply IH.
  rewrite fexec_foreign. apply IH.
Qed.

(* ------------------------------------------------------------------ 4. at any moment *)
Definition is_prefix {A} (a b : list A) : Prop := exists c, b = a ++ c.
Fixpoint check_all (P : lfs -> Prop) (en : env) (f : lfs) (l : list lop) : Prop :=
  P f /\ match l with [] => True | o :: r => check_all P en (fexec en f o) r end.

Lemma check_all_prefix P en : forall l f pre, check_all P en f l -> is_prefix pre l -> P (frun en f pre).
Proof.
  induction l as [| o r IH]; intros f pre H [c Hc].
  - destruct pre; [apply H | discriminate].
  - destruct pre as [| o' pre']; [apply H |].
    cbn in Hc. inversion Hc; subst o' r. cbn [frun]. apply IH; [apply H | exists c; reflexivity].
Qed.

Definition all_entries (Q : entry -> Prop) (f : lfs) : Prop := Forall (fun te => Q (snd te)) f.
Lemma lookup_in : forall f t e, lookup t f = Some e -> exists t', In (t', e) f.
Proof.
  induction f as [| [q e'] r IH]; intros t e H; [discriminate |].
  cbn in H. destruct (ftag_eqb t q).
  - inversion H; subst. exists q. left; reflexivity.
  - destruct (IH _ _ H) as [t' Ht]. exists t'. right; exact Ht.
Qed.
Lemma all_entries_lookup Q f t e : all_entries Q f -> lookup t f = Some e -> Q e.
Proof.
  intros HA HL. destruct (lookup_in _ _ _ HL) as [t' Hin].
  unfold all_entries in HA. rewrite Forall_forall in HA. apply (HA (t', e) Hin).
Qed.

Local Opaque N.land N.ldiff N.lor N.shiftr dirmode m600 m700 m770.

Ltac solve_sub :=
  first [ apply sub_refl | apply sub_ldiff | apply sub_land_l | apply sub_land_r
        | apply sub_ldiff_600_700 | apply sub_land_600_700 | apply sub_ldiff_600_lor | apply sub_ldiff_700_770
        | apply sub_lor_r | apply sub_lor_l
        | (eapply sub_trans; [apply sub_land_r | apply sub_lor_l])
        | (eapply sub_trans; [apply sub_land_r | apply sub_700_770]) ].
Ltac solve_perm :=
  first [ left; split; [reflexivity | solve_sub]
        | right; eexists; split; [reflexivity | split; [reflexivity | split; [reflexivity | solve_sub]]] ].
Ltac solve_all := repeat (first [apply Forall_nil | apply Forall_cons]); cbn [snd]; try solve_perm.

Lemma root_env en : srv_root en = true -> exists um sg, en = mkEnv um (mkC 0 sg).
Proof.
  destruct en as [um [su sg]]. unfold srv_root; cbn. intro H. apply Z.eqb_eq in H. subst. eauto.
Qed.

Ltac eval_fs t :=
  eval lazy beta iota zeta delta
       [fexec lexec l_fs l_chan l_log fst snd lookup set remove ftag_eqb tag_ix Nat.eqb with_fs with_log has_children
        existsb child_tags is_some orb andb negb srv_may_chmod srv_may_chown srv_root srv c_uid c_gid umask Z.eqb
        e_uid e_gid e_mode e_isdir] in t.
Lemma check_all_cons (P : lfs -> Prop) en f o r : P f -> check_all P en (fexec en f o) r -> check_all P en f (o :: r).
Proof. intros; split; assumption. Qed.
Lemma check_all_nil (P : lfs -> Prop) en f : P f -> check_all P en f [].
Proof. intros; split; [assumption | exact I]. Qed.
Ltac walk tac :=
  repeat match goal with
         | |- check_all _ _ _ [] => apply check_all_nil; tac
         | |- check_all _ _ _ (_ :: _) =>
             apply check_all_cons;
             [ tac
             | match goal with
               | |- check_all _ ?en (fexec ?en ?f ?o) _ =>
                   let f' := eval_fs (fexec en f o) in change (fexec en f o) with f'
               end ]
         end.

(* the repaired code, one peer: after EVERY prefix of everything the server does for the peer, each object is
   either still private to the server's user or handed over as authorised *)
Lemma fixed_any_moment_one : forall en tr p, srv_root en = true ->
  check_all (all_entries (permitted (srv en) (authorised p))) en [] (peer_script Fixed tr p).
Proof.
  intros en tr p Hroot. destruct (root_env en Hroot) as [um [sg ->]].
  unfold peer_script, admission_ops, authorised.
  set (a := eff_auth p). destruct (p_decision p =? 0); destruct tr;
    cbn [connect_ops ring_ops ctl_ops teardown_ops app];
    walk ltac:(unfold all_entries, permitted, private_to, handed_over, allowed; cbn [srv c_uid c_gid]; solve_all).
Qed.

(* the tree as found, one peer: what it does guarantee at every moment (weaker: directory within 0770, files within
   0600 | chosen mode) *)
Lemma asfound_bounds_one : forall en tr p, srv_root en = true ->
  check_all (all_entries (weak_ok (eff_auth p))) en [] (peer_script AsFound tr p).
Proof.
  intros en tr p Hroot. destruct (root_env en Hroot) as [um [sg ->]].
  unfold peer_script, admission_ops.
  set (a := eff_auth p). destruct (p_decision p =? 0); destruct tr;
    cbn [connect_ops ring_ops ctl_ops teardown_ops app];
    walk ltac:(unfold all_entries, weak_ok; repeat (first [apply Forall_nil | apply Forall_cons]);
               cbn [snd e_isdir e_mode]; try solve_sub).
Qed.

(* every interleaving of several peers, every moment *)
Lemma any_moment_global (Q : nat -> entry -> Prop) v : forall en tr (ps : nat -> peer),
  (forall k, check_all (all_entries (Q k)) en [] (peer_script v tr (ps k))) ->
  forall l, (forall k, is_prefix (fsops (proj k l)) (peer_script v tr (ps k))) ->
  forall k t e, lookup t (l_fs (run en w_empty l k)) = Some e -> Q k e.
Proof.
  intros en tr ps Hone l Hpre k t e HL.
  rewrite run_proj, lrun_fs, frun_fsops in HL. cbn [w_empty l_empty l_fs] in HL.
  eapply all_entries_lookup; [| exact HL].
  eapply check_all_prefix; [apply Hone | apply Hpre].
Qed.

(* ------------------------------------------------------------------ 5. the log: accept arguments, refusal *)
Definition ev_of (o : lop) : list levent :=
  match o with
  | LAccept u g => [EvAccept u g] | LRespond e => [EvRespond e] | LCb c => [EvCb c] | _ => []
  end.
Lemma lexec_log en s o : is_send o = false -> l_log (fst (lexec en s o)) = l_log s ++ ev_of o.
Proof.
  intro Hs. destruct s as [f c lg]. destruct o; try discriminate; cbn [lexec l_fs l_chan l_log ev_of with_log with_fs fst];
    repeat match goal with
           | |- context [match lookup ?t ?g with _ => _ end] => destruct (lookup t g)
           | |- context [if ?b then _ else _] => destruct b
           end; cbn [l_log fst]; rewrite ?app_nil_r; reflexivity.
Qed.
Lemma lrun_log en : forall l s, forallb (fun o => negb (is_send o)) l = true ->
  l_log (lrun en s l) = l_log s ++ flat_map ev_of l.
Proof.
  induction l as [| o r IH]; intros s H; [cbn; rewrite app_nil_r; reflexivity |].
  cbn in H. apply andb_true_iff in H as [H1 H2]. cbn [lrun flat_map].
  rewrite IH by exact H2. rewrite lexec_log by (destruct (is_send o); [discriminate | reflexivity]).
  rewrite app_assoc. reflexivity.
Qed.

Lemma admission_no_sends v tr p : forallb (fun o => negb (is_send o)) (admission_ops v tr p) = true.
Proof.
  unfold admission_ops. destruct v, tr, (p_decision p =? 0); reflexivity.
Qed.

(* (1) the accept callback is invoked exactly once, with the ids the kernel oracle reports for the peer *)
Lemma accept_args_one v tr p en :
  accepts (l_log (lrun en l_empty (admission_ops v tr p))) = [(c_uid (ugp_of p), c_gid (ugp_of p))].
Proof.
  rewrite lrun_log by apply admission_no_sends. cbn [l_empty l_log app].
  unfold admission_ops. destruct v, tr, (p_decision p =? 0); reflexivity.
Qed.

Lemma sends_without_channel en : forall n s, l_chan s = false -> lrun en s (repeat LPeerSend n) = s.
Proof.
  induction n as [| n IH]; intros s H; [reflexivity |].
  cbn [repeat lrun lexec]. rewrite H. cbn [fst]. apply IH, H.
Qed.

Lemma lexec_chan_false en s o : l_chan s = false -> o <> LChanAdd -> l_chan (fst (lexec en s o)) = false.
Proof.
  intros H Ho. destruct s as [f c lg]. cbn in H. subst c.
  destruct o; try congruence; cbn [lexec l_fs l_chan l_log with_log with_fs fst];
    repeat match goal with
           | |- context [match lookup ?t ?g with _ => _ end] => destruct (lookup t g)
           | |- context [if ?b then _ else _] => destruct b
           end; reflexivity.
Qed.

Lemma lrun_chan_false en : forall l s, Forall (fun o => o <> LChanAdd) l -> l_chan s = false ->
  l_chan (lrun en s l) = false.
Proof.
  induction l as [| o r IH]; intros s HF H; [exact H |].
  inversion HF; subst. cbn [lrun]. apply IH; [assumption | apply lexec_chan_false; assumption].
Qed.

Lemma fexec_chmod_own en e m : e_uid e = c_uid (srv en) ->
  fexec en [(TDir, e)] (LChmod TDir m) = [(TDir, mkE (e_uid e) (e_gid e) m (e_isdir e))].
Proof.
  intro H. unfold fexec. cbn [lexec l_fs lookup ftag_eqb tag_ix Nat.eqb]. unfold srv_may_chmod.
  rewrite H, Z.eqb_refl, orb_true_r. reflexivity.
Qed.
Lemma fexec_chown_dir en e u g : exists e', fexec en [(TDir, e)] (LChown TDir u g) = [(TDir, e')].
Proof.
  unfold fexec. cbn [lexec l_fs lookup ftag_eqb tag_ix Nat.eqb].
  destruct (srv_may_chown en e u g); eexists; reflexivity.
Qed.
Lemma fexec_rmdir_only en e : fexec en [(TDir, e)] LRmdir = [].
Proof. reflexivity. Qed.

Definition refused_ops (v : variant) (p : peer) : list lop :=
  (match v with
   | AsFound => [LMkdtemp; LChmod TDir m770; LChown TDir (c_uid (ugp_of p)) (c_gid (ugp_of p))]
   | Fixed => [LMkdtemp]
   end) ++ [LAccept (c_uid (ugp_of p)) (c_gid (ugp_of p)); LRespond (p_decision p); LCb CbDestroyed; LRmdir].
Lemma admission_refused v tr p : p_decision p <> 0 -> admission_ops v tr p = refused_ops v p.
Proof.
  intro H. unfold admission_ops, refused_ops. apply Z.eqb_neq in H. rewrite H. destruct v; reflexivity.
Qed.

(* (2) refusal, one peer, ANY server credentials and umask: nothing is left, no channel, the response and the client's
   connect carry the callback's value, nothing the peer sends afterwards reaches msg_process *)
Lemma refusal_one v tr p en : p_decision p <> 0 ->
  let s' := lrun en l_empty (admission_ops v tr p) in
  l_fs s' = [] /\ l_chan s' = false /\ responses (l_log s') = [p_decision p] /\
  connect_result tr p s' = p_decision p /\
  no_msg (l_log s') /\ forall n, lrun en s' (repeat LPeerSend n) = s'.
Proof.
  intros Hd s'. subst s'. rewrite (admission_refused v tr p Hd).
  assert (Hfs : l_fs (lrun en l_empty (refused_ops v p)) = [] /\ l_chan (lrun en l_empty (refused_ops v p)) = false).
  { split.
    - rewrite lrun_fs. cbn [l_empty l_fs]. unfold refused_ops. destruct v; cbn [app frun].
      + change (fexec en [] LMkdtemp) with [(TDir, mkE (c_uid (srv en)) (c_gid (srv en)) (N.ldiff m700 (umask en)) true)].
        rewrite fexec_chmod_own by reflexivity. cbn [e_uid e_gid e_isdir].
        destruct (fexec_chown_dir en (mkE (c_uid (srv en)) (c_gid (srv en)) m770 true)
                                  (c_uid (ugp_of p)) (c_gid (ugp_of p))) as [e' ->].
        change (fexec en [(TDir, e')] (LAccept (c_uid (ugp_of p)) (c_gid (ugp_of p)))) with [(TDir, e')].
        change (fexec en [(TDir, e')] (LRespond (p_decision p))) with [(TDir, e')].
        change (fexec en [(TDir, e')] (LCb CbDestroyed)) with [(TDir, e')].
        apply fexec_rmdir_only.
      + reflexivity.
    - apply lrun_chan_false; [| reflexivity].
      unfold refused_ops. destruct v; repeat constructor; discriminate. }
  destruct Hfs as [Hf Hc].
  assert (Hlog : l_log (lrun en l_empty (refused_ops v p)) =
                 [EvAccept (c_uid (ugp_of p)) (c_gid (ugp_of p)); EvRespond (p_decision p); EvCb CbDestroyed]).
  { rewrite lrun_log by (destruct v; reflexivity). destruct v; reflexivity. }
  repeat split.
  - exact Hf.
  - exact Hc.
  - rewrite Hlog. reflexivity.
  - unfold connect_result. apply Z.eqb_neq in Hd. rewrite Hd. reflexivity.
  - rewrite Hlog. unfold no_msg. cbn. intros [H | [H | [H | H]]]; try discriminate; exact H.
  - intro n. apply sends_without_channel, Hc.
Qed.

(* ------------------------------------------------------------------ witnesses against the tree as found *)
Definition root_env_022 : env := mkEnv 18%N (mkC 0 0).
Definition peer_1000 : peer := mkP (mkC 1000 1000) (mkC 1000 1000) 0 None false.
Definition peer_refused : peer := mkP (mkC 1000 1000) (mkC 1000 1000) (-13) None true.
Definition peer_auth_other : peer := mkP (mkC 1000 1000) (mkC 1000 1000) 0 (Some (mkA 1 2 432%N)) false.   (* 0660 *)
Definition peer_auth_strict : peer := mkP (mkC 1000 1000) (mkC 1000 1000) 0 (Some (mkA 1000 1000 256%N)) false. (* 0400 *)

Definition violates (en : env) (v : variant) (tr : transport) (p : peer) (n : nat) (t : ftag) : bool :=
  match lookup t (frun en [] (firstn n (peer_script v tr p))) with
  | Some e => negb (permittedb (srv en) (authorised p) e)
  | None => false
  end.

Lemma firstn_prefix {A} n (l : list A) : is_prefix (firstn n l) l.
Proof. exists (skipn n l). symmetry. apply firstn_skipn. Qed.

Lemma violates_spec en v tr p n t : violates en v tr p n t = true ->
  exists pre e, is_prefix pre (peer_script v tr p) /\ lookup t (frun en [] pre) = Some e /\
                ~ permitted (srv en) (authorised p) e.
Proof.
  unfold violates. intro H. destruct (lookup t (frun en [] (firstn n (peer_script v tr p)))) as [e |] eqn:E; [| discriminate].
  exists (firstn n (peer_script v tr p)), e. split; [apply firstn_prefix | split; [exact E |]].
  intro HP. apply permittedb_spec in HP. rewrite HP in H. discriminate.
Qed.

(* ------------------------------------------------------------------ global statements (any interleaving) *)
Lemma lrun_app en : forall a b s, lrun en s (a ++ b) = lrun en (lrun en s a) b.
Proof. induction a as [| o r IH]; intros b s; [reflexivity |]. cbn [app lrun]. apply IH. Qed.

Theorem accept_credentials_global : forall en v tr p l k,
  proj k l = admission_ops v tr p ->
  accepts (l_log (run en w_empty l k)) = [(c_uid (ugp_of p), c_gid (ugp_of p))].
Proof. intros en v tr p l k H. rewrite run_proj, H. apply accept_args_one. Qed.

Theorem refusal_global : forall en v tr p l k n,
  p_decision p <> 0 ->
  proj k l = admission_ops v tr p ++ repeat LPeerSend n ->
  let s := run en w_empty l k in
  l_fs s = [] /\ l_chan s = false /\ responses (l_log s) = [p_decision p] /\
  connect_result tr p s = p_decision p /\ no_msg (l_log s).
Proof.
  intros en v tr p l k n Hd H s. subst s. rewrite run_proj, H, lrun_app. cbn [w_empty].
  destruct (refusal_one v tr p en Hd) as [H1 [H2 [H3 [H4 [H5 H6]]]]].
  rewrite H6. repeat split; assumption.
Qed.

Theorem fixed_any_moment_global : forall en tr (ps : nat -> peer) l,
  srv_root en = true ->
  (forall k, is_prefix (fsops (proj k l)) (peer_script Fixed tr (ps k))) ->
  forall k t e, lookup t (l_fs (run en w_empty l k)) = Some e -> permitted (srv en) (authorised (ps k)) e.
Proof.
  intros en tr ps l Hroot Hpre. 
  apply (any_moment_global (fun k => permitted (srv en) (authorised (ps k))) Fixed en tr ps); [| exact Hpre].
  intro k. apply fixed_any_moment_one, Hroot.
Qed.

Theorem asfound_bounds_global : forall en tr (ps : nat -> peer) l,
  srv_root en = true ->
  (forall k, is_prefix (fsops (proj k l)) (peer_script AsFound tr (ps k))) ->
  forall k t e, lookup t (l_fs (run en w_empty l k)) = Some e -> weak_ok (eff_auth (ps k)) e.
Proof.
  intros en tr ps l Hroot Hpre.
  apply (any_moment_global (fun k => weak_ok (eff_auth (ps k))) AsFound en tr ps); [| exact Hpre].
  intro k. apply asfound_bounds_one, Hroot.
Qed.

(* the tree as found violates the full statement: three witnesses (each replayed on the real library by the
   corpus of props/C05.py) *)
Theorem asfound_refuted :
  (* (a) default authorisation (peer, 0600): after chmod 0770 + chown the directory is the peer's, group-accessible,
         before the accept callback has even run - also for a peer that is then refused *)
  (exists pre e, is_prefix pre (peer_script AsFound Shm peer_refused) /\
                 lookup TDir (frun root_env_022 [] pre) = Some e /\
                 ~ permitted (srv root_env_022) (authorised peer_refused) e) /\
  (exists pre e, is_prefix pre (peer_script AsFound Shm peer_1000) /\
                 lookup TDir (frun root_env_022 [] pre) = Some e /\
                 ~ permitted (srv root_env_022) (authorised peer_1000) e) /\
  (* (b) socket transport: the directory is never given to the authorised uid/gid *)
  (exists pre e, is_prefix pre (peer_script AsFound Sock peer_auth_other) /\
                 lookup TDir (frun root_env_022 [] pre) = Some e /\
                 (e_uid e <> 1 /\ e_mode e = m770) /\
                 ~ permitted (srv root_env_022) (authorised peer_auth_other) e) /\
  (* (c) authorised mode 0400: the data file is 0600 in the hands of the new owner before the chmod *)
  (exists pre e, is_prefix pre (peer_script AsFound Shm peer_auth_strict) /\
                 lookup TReqD (frun root_env_022 [] pre) = Some e /\
                 ~ permitted (srv root_env_022) (authorised peer_auth_strict) e).
Proof.
  repeat split.
  - apply (violates_spec root_env_022 AsFound Shm peer_refused 3 TDir). vm_compute. reflexivity.
  - apply (violates_spec root_env_022 AsFound Shm peer_1000 3 TDir). vm_compute. reflexivity.
  - exists (firstn 8 (peer_script AsFound Sock peer_auth_other)).
    eexists. split; [apply firstn_prefix |]. split; [vm_compute; reflexivity |]. split.
    + split; [cbn; discriminate | reflexivity].
    + intro HP. apply permittedb_spec in HP. vm_compute in HP. discriminate.
  - apply (violates_spec root_env_022 AsFound Shm peer_auth_strict 8 TReqD). vm_compute. reflexivity.
Qed.

(* the same witnesses on the repaired transcription: permitted at every prefix (instances of the theorem, computed) *)
Definition all_prefixes_ok (en : env) (v : variant) (tr : transport) (p : peer) : bool :=
  forallb (fun n => forallb (fun t => negb (violates en v tr p n t)) all_tags)
          (seq 0 (S (length (peer_script v tr p)))).
Lemma fixed_on_witnesses :
  all_prefixes_ok root_env_022 Fixed Shm peer_refused = true /\
  all_prefixes_ok root_env_022 Fixed Shm peer_1000 = true /\
  all_prefixes_ok root_env_022 Fixed Sock peer_auth_other = true /\
  all_prefixes_ok root_env_022 Fixed Shm peer_auth_strict = true /\
  all_prefixes_ok root_env_022 AsFound Shm peer_1000 = false.
Proof. vm_compute. repeat split. Qed.

(* non-vacuity: two peers (one accepted with auth_set(1, 2, 0660), one refused) interleaved op by op, stopped in the
   middle: the hypotheses of the global theorems hold and the state is not empty *)
Definition ex_ps (k : nat) : peer := match k with O => peer_auth_other | _ => peer_refused end.
Fixpoint interleave (a b : list op) : list op :=
  match a, b with
  | x :: a', y :: b' => x :: y :: interleave a' b'
  | [], _ => b
  | _, [] => a
  end.
Definition ex_trace : list op :=
  interleave (map (fun o => (0%nat, o)) (firstn 12 (peer_script Fixed Shm peer_auth_other)))
             (map (fun o => (1%nat, o)) (firstn 3 (peer_script Fixed Shm peer_refused) ++ [LPeerSend])).
Lemma ex_trace_ok :
  (forall k, is_prefix (fsops (proj k ex_trace)) (peer_script Fixed Shm (ex_ps k))) /\
  length (l_fs (run root_env_022 w_empty ex_trace 0%nat)) = 3%nat /\
  length (l_fs (run root_env_022 w_empty ex_trace 1%nat)) = 1%nat.
Proof.
  split; [| split; reflexivity].
  intros [| [| k]].
  - exists (skipn 12 (peer_script Fixed Shm peer_auth_other)). reflexivity.
  - exists (skipn 3 (peer_script Fixed Shm peer_refused)). reflexivity.
  - exists (peer_script Fixed Shm peer_refused). reflexivity.
Qed.

Lemma consts_ok :
  ADM_S_IRWXU = Z.of_N m700 /\ ADM_S_IRUSR_IWUSR = Z.of_N m600 /\
  Z.of_N m770 = ADM_S_IRWXU + ADM_S_IRWXG /\
  ADM_IPC_SHM <> ADM_IPC_SOCKET /\
  ADM_ENOENT <> 0 /\ ADM_EEXIST <> 0 /\ ADM_ENOTEMPTY <> 0 /\ ADM_EPERM <> 0 /\ ADM_EACCES <> 0 /\
  dirmode m600 = m700 /\ dirmode 432%N = m770 /\ dirmode 256%N = 320%N /\ dirmode 0%N = 0%N.
Proof. vm_compute. repeat split; discriminate. Qed.
