(* C17 / C18 trie part: statements that are FALSE of the code as found (or of the code as it is), each with a
   witness computed by vm_compute; every witness was replayed on the real library (reports/maptrie.md). *)
From Coq Require Import List ZArith Bool Arith Lia.
Import ListNotations.
Require Import Verif.gen.Consts_trie Verif.MapTrieModel Verif.MapTrieSpec Verif.MapTrieGuards.

Definition kabc := [97; 98; 99]. Definition kabd := [97; 98; 100]. Definition kab := [97; 98].

Definition outs_of (fx : fixes) (ops : list op) : list out := map fst (fst (run fx trie_init ops)).

(* D1 (C17), code as found: rm of a key that was never inserted (it names an interior node) reports success and
   the count drops; the dictionary says QB_FALSE and count 2 *)
Definition w_rm_interior := [DPut kabc 1; DPut kabd 2; DRm kab; DCount].
Lemma rm_absent_refuted :
  Forall dop_valid w_rm_interior /\
  outs_of FX_FOUND (map to_op w_rm_interior) = [RUnit; RUnit; RInt TRIE_QB_TRUE; RInt 1] /\
  fst (spec_run [] w_rm_interior) = [RUnit; RUnit; RInt TRIE_QB_FALSE; RInt 2].
Proof.
  split; [|split]; [|vm_compute; reflexivity|vm_compute; reflexivity].
  unfold w_rm_interior, kabc, kabd, kab. repeat (constructor; [simpl; unfold kvalid; try (split; [discriminate | repeat (constructor; [discriminate|]); constructor]); exact I|]). constructor.
Qed.

(* ... and with the fix the same history answers like the dictionary *)
Lemma rm_absent_fixed : outs_of FX_REPO (map to_op w_rm_interior) = fst (spec_run [] w_rm_interior).
Proof. vm_compute. reflexivity. Qed.

(* K1 (C17): iteration order is the signed-char order: 0x80 is visited before 'a' *)
Definition visits (ops : list op) : list (option key) :=
  flat_map (fun oe => flat_map (fun e => match e with EVisit k _ => [k] | _ => [] end) (snd oe)) (fst (run FX_ALL trie_init ops)).
Lemma order_refuted : visits [OPut [97] 1; OPut [128] 2; OForeach 0] = [Some [128]; Some [97]].
Proof. vm_compute. reflexivity. Qed.

(* K2 (C18): a key removed while an iterator is parked on it is still returned by get, a put on it is lost when
   the iterator moves on (count 0, get nothing, although put("abc", 9) came last) *)
Definition w_zombie := [OPut kabc 1; OIterCreate 0 None; OIterNext 0; ORm kabc; OGet kabc; OPut kabc 9;
                        OIterNext 0; OIterFree 0; OGet kabc; OCount].
Lemma removed_parked_refuted :
  outs_of FX_REPO w_zombie = [RUnit; RUnit; RKV (Some (Some kabc, Some 1)); RInt TRIE_QB_TRUE; RVal (Some 1); RUnit;
                           RKV None; RUnit; RVal None; RInt 0].
Proof. vm_compute. reflexivity. Qed.

(* K2 (C18): a second rm of that key succeeds again and frees the node under the iterator: the next iter_next
   reads freed memory (error state UseAfterFree) *)
Lemma removed_parked_uaf_refuted :
  snd (run FX_REPO trie_init [OPut kabc 1; OIterCreate 0 None; OIterNext 0; ORm kabc; ORm kabc; OIterNext 0])
  = Err (UseAfterFree 1).
Proof. vm_compute. reflexivity. Qed.

(* K3 (C18): an insertion that splits the node an iterator is parked on moves the iterator's reference to the
   new lower node; after the iterator is gone rm("abc") succeeds but get still returns the value *)
Definition w_split := [OPut kabc 1; OIterCreate 0 None; OIterNext 0; OPut kabd 2; OIterNext 0; OIterNext 0;
                       OIterNext 0; OIterFree 0; ORm kabc; OGet kabc; OCount].
Lemma split_parked_refuted :
  outs_of FX_REPO w_split = [RUnit; RUnit; RKV (Some (Some kabc, Some 1)); RUnit; RKV (Some (Some kabc, Some 1));
                          RKV (Some (Some kabd, Some 2)); RKV None; RUnit; RInt TRIE_QB_TRUE; RVal (Some 1); RInt 1] /\
  guard_split (match snd (run FX_REPO trie_init [OPut kabc 1; OIterCreate 0 None; OIterNext 0]) with Ok t => t | Err _ => trie_init end)
              (OPut kabd 2) = false.
Proof. split; vm_compute; reflexivity. Qed.

(* K4 (C18 / C17): an insertion that splits the root node of an open prefix iterator above the end of the prefix:
   the iterator for prefix "abc" then returns "abx" *)
Definition w_split_root := [OPut [97;98;99;100] 1; OPut [97;98;99;101] 2; OIterCreate 0 (Some kabc); OIterNext 0;
                            OPut [97;98;120] 3; OIterNext 0; OIterNext 0; OIterNext 0].
Lemma split_prefix_root_refuted :
  outs_of FX_REPO w_split_root = [RUnit; RUnit; RUnit; RKV (Some (Some [97;98;99;100], Some 1)); RUnit;
                               RKV (Some (Some [97;98;99;101], Some 2)); RKV (Some (Some [97;98;120], Some 3)); RKV None] /\
  guard_split_root (match snd (run FX_REPO trie_init (firstn 4 w_split_root)) with Ok t => t | Err _ => trie_init end)
                   (OPut [97;98;120] 3) = false.
Proof. split; vm_compute; reflexivity. Qed.

(* ---------- the same histories on the repaired code (FX_ALL: removed flag + split keeps the node) ---------- *)
(* removed-but-parked: get sees nothing, put makes a new entry that survives the iterator, count is right *)
Lemma removed_parked_repaired :
  outs_of FX_ALL w_zombie = [RUnit; RUnit; RKV (Some (Some kabc, Some 1)); RInt TRIE_QB_TRUE; RVal None; RUnit;
                             RKV None; RUnit; RVal (Some 9); RInt 1].
Proof. vm_compute. reflexivity. Qed.

(* the second rm is refused and the iterator goes on without touching freed memory *)
Lemma removed_parked_uaf_repaired_outs :
  outs_of FX_ALL [OPut kabc 1; OIterCreate 0 None; OIterNext 0; ORm kabc; ORm kabc; OIterNext 0; OIterFree 0; OCount]
  = [RUnit; RUnit; RKV (Some (Some kabc, Some 1)); RInt TRIE_QB_TRUE; RInt TRIE_QB_FALSE; RKV None; RUnit; RInt 0].
Proof. vm_compute. reflexivity. Qed.

(* split of the parked node: "abc" is returned once, and after the iterator is gone rm removes it *)
Lemma split_parked_repaired :
  outs_of FX_ALL w_split = [RUnit; RUnit; RKV (Some (Some kabc, Some 1)); RUnit; RKV (Some (Some kabd, Some 2));
                            RKV None; RKV None; RUnit; RInt TRIE_QB_TRUE; RVal None; RInt 1].
Proof. vm_compute. reflexivity. Qed.

(* split of a prefix iterator's root: "abx" is not returned for the prefix "abc" *)
Lemma split_prefix_root_repaired :
  outs_of FX_ALL w_split_root = [RUnit; RUnit; RUnit; RKV (Some (Some [97;98;99;100], Some 1)); RUnit;
                                 RKV (Some (Some [97;98;99;101], Some 2)); RKV None; RKV None].
Proof. vm_compute. reflexivity. Qed.
