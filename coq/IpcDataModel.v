(* C02 / C06: executable call-level model of the libqb IPC data path for ONE established
   connection, both transports.  No proofs in this file (it must keep building and running
   when a proof breaks).

   Transcribed function by function from
     lib/ipcc.c        qb_ipcc_send / _sendv / _recv / _sendv_recv / _event_recv / _fc_enable_max_set
     lib/ipcs.c        qb_ipcs_response_send(v) / qb_ipcs_event_send(v) / resend_event_notifications /
                       new_event_notification / qb_ipcs_request_rate_limit / qb_ipcs_flowcontrol_set /
                       _process_request_ / _request_q_len_get / qb_ipcs_dispatch_connection_request
     lib/ipc_shm.c     qb_ipc_shm_send(v) / _recv / _peek / _reclaim / _fc_get / _q_len_get
     lib/ipc_socket.c  qb_ipc_socket_send(v) / qb_ipc_us_recv_at_most / qb_ipc_us_q_len_get
     lib/ringbuffer.c  only the space arithmetic of qb_rb_space_free / qb_rb_chunk_alloc / qb_rb_chunk_step
                       (the ring's own FIFO correctness is C07/C01; here a ring is a bounded FIFO).

   Conventions (DESIGN.md section 3, C02):
   * a message is the token (id, real length, header size field, tag); tag stands for the payload
     bytes (the harness regenerates and compares them); "intact" = same token and full length.
   * the three channels are FIFOs: in shm mode bounded by the ring's space rule, in socket mode by the
     kernel (oracle).  In socket mode the shared `sent' counters equal the queue lengths (they are
     incremented/decremented together with every successful send/receive); they are not separate state.
   * kernel outcomes of send()/writev() on the connection's sockets are the ENVIRONMENT: a list of
     `kres' consumed in call order, recorded from the implementation run; when the list is exhausted the
     kernel accepts (KOk).  Partial stream writes of the 1..n notification bytes are not modelled.
   * all timeouts are 0 (single-threaded lab): an empty channel answers at once.
   * `variant' selects the code as found (orig) or with the proposed fixes (fixed); theorems are about
     `fixed', refutations about `orig'.
   * ghost fields (acc_x, dlv_req, rcv_x) record histories for the theorems; no transition reads them. *)
From Coq Require Import ZArith List Bool.
Import ListNotations.
Require Import Verif.gen.Consts_ipcdata.
Local Open Scope Z_scope.

Inductive transport := SHM | SOCK.

Record msg := { m_id : Z; m_len : Z; m_hsize : Z; m_tag : Z }.

Inductive kres := KOk | KAgain | KErr (e : Z).

Record variant := { v_sendchk : bool;     (* fixes/C02-server-send-size-check.patch *)
                    v_recvbound : bool;   (* fixes/C06-recv-at-most-bounds.patch *)
                    v_reqvalid : bool }.  (* fixes/C06-request-size-validate.patch *)
Definition fixed : variant := {| v_sendchk := true; v_recvbound := true; v_reqvalid := true |}.
Definition orig : variant := {| v_sendchk := false; v_recvbound := false; v_reqvalid := false |}.

Record chans := { q_req : list msg; q_resp : list msg; q_evt : list msg }.

Record notif := { c2s : Z;          (* shm: notification bytes client -> server not yet read *)
                  s2c : Z;          (* shm: notification bytes server -> client not yet read *)
                  outst : Z;        (* c->outstanding_notifiers *)
                  pollout : bool }. (* POLLOUT in c->poll_events (= in the main loop's table) *)

Record srv := { fc_en : Z;          (* c->fc_enabled = the shared flow-control word *)
                prio : Z;           (* s->poll_priority *)
                mrets : list Z;     (* harness: return values of the next msg_process calls *)
                n_req : Z; n_resp : Z; n_evt : Z; n_sretry : Z; n_rretry : Z; n_fc : Z }.  (* c->stats *)

Record ghost := { acc_req : list msg; dlv_req : list msg;
                  acc_resp : list msg; rcv_resp : list msg;
                  acc_evt : list msg; rcv_evt : list msg }.

Record st := { tr : transport; maxsz : Z; ch : chans; nt : notif; sv : srv;
               fcmax : Z;            (* c->fc_enable_max (client) *)
               gh : ghost;
               closed : bool;        (* the server disconnected the client *)
               blocked : bool }.     (* a blocking call would never return (single thread) *)

(* the negotiated maximum: the client asks for QB_MAX(max, sizeof(struct qb_ipc_connection_response)), the server
   grants QB_MAX(request, its enforced minimum (0 unless qb_ipcs_enforce_buffer_size was called)) *)
Definition negotiate (requested : Z) : Z := Z.max requested IPC_CONNRESP_SIZE.
(* handle_new_connection: max_buffer_size = QB_MAX(req->max_msg_size, s->max_buffer_size); enforced = 0 when
   qb_ipcs_enforce_buffer_size was never called *)
Definition negotiate_enforced (requested enforced : Z) : Z := Z.max (negotiate requested) enforced.

Definition init (t : transport) (mx : Z) : st :=
  {| tr := t; maxsz := mx;
     ch := {| q_req := []; q_resp := []; q_evt := [] |};
     nt := {| c2s := 0; s2c := 0; outst := 0; pollout := false |};
     sv := {| fc_en := 0; prio := IPC_LOOP_MED; mrets := [];
              n_req := 0; n_resp := 0; n_evt := 0; n_sretry := 0; n_rretry := 0; n_fc := 0 |};
     fcmax := 1;                     (* c->fc_enable_max = 1 in qb_ipcc_connect_continue *)
     gh := {| acc_req := []; dlv_req := []; acc_resp := []; rcv_resp := []; acc_evt := []; rcv_evt := [] |};
     closed := false; blocked := false |}.

(* ---- record plumbing ---- *)
Definition with_ch (s : st) (c : chans) : st :=
  {| tr := tr s; maxsz := maxsz s; ch := c; nt := nt s; sv := sv s; fcmax := fcmax s; gh := gh s;
     closed := closed s; blocked := blocked s |}.
Definition with_nt (s : st) (n : notif) : st :=
  {| tr := tr s; maxsz := maxsz s; ch := ch s; nt := n; sv := sv s; fcmax := fcmax s; gh := gh s;
     closed := closed s; blocked := blocked s |}.
Definition with_sv (s : st) (v : srv) : st :=
  {| tr := tr s; maxsz := maxsz s; ch := ch s; nt := nt s; sv := v; fcmax := fcmax s; gh := gh s;
     closed := closed s; blocked := blocked s |}.
Definition with_gh (s : st) (g : ghost) : st :=
  {| tr := tr s; maxsz := maxsz s; ch := ch s; nt := nt s; sv := sv s; fcmax := fcmax s; gh := g;
     closed := closed s; blocked := blocked s |}.
Definition with_fcmax (s : st) (n : Z) : st :=
  {| tr := tr s; maxsz := maxsz s; ch := ch s; nt := nt s; sv := sv s; fcmax := n; gh := gh s;
     closed := closed s; blocked := blocked s |}.
Definition set_closed (s : st) : st :=
  {| tr := tr s; maxsz := maxsz s; ch := ch s; nt := nt s; sv := sv s; fcmax := fcmax s; gh := gh s;
     closed := true; blocked := blocked s |}.
Definition set_blocked (s : st) : st :=
  {| tr := tr s; maxsz := maxsz s; ch := ch s; nt := nt s; sv := sv s; fcmax := fcmax s; gh := gh s;
     closed := closed s; blocked := true |}.

Definition set_q_req (c : chans) (q : list msg) := {| q_req := q; q_resp := q_resp c; q_evt := q_evt c |}.
Definition set_q_resp (c : chans) (q : list msg) := {| q_req := q_req c; q_resp := q; q_evt := q_evt c |}.
Definition set_q_evt (c : chans) (q : list msg) := {| q_req := q_req c; q_resp := q_resp c; q_evt := q |}.

Definition set_c2s (n : notif) (x : Z) := {| c2s := x; s2c := s2c n; outst := outst n; pollout := pollout n |}.
Definition set_s2c (n : notif) (x : Z) := {| c2s := c2s n; s2c := x; outst := outst n; pollout := pollout n |}.
Definition set_outst (n : notif) (x : Z) := {| c2s := c2s n; s2c := s2c n; outst := x; pollout := pollout n |}.
Definition set_pollout (n : notif) (b : bool) := {| c2s := c2s n; s2c := s2c n; outst := outst n; pollout := b |}.

Definition upd_srv (v : srv) (fc p : Z) (mr : list Z) (a b c d e f : Z) : srv :=
  {| fc_en := fc; prio := p; mrets := mr; n_req := a; n_resp := b; n_evt := c; n_sretry := d; n_rretry := e; n_fc := f |}.
Definition inc_req (v : srv) := upd_srv v (fc_en v) (prio v) (mrets v) (n_req v + 1) (n_resp v) (n_evt v) (n_sretry v) (n_rretry v) (n_fc v).
Definition inc_resp (v : srv) := upd_srv v (fc_en v) (prio v) (mrets v) (n_req v) (n_resp v + 1) (n_evt v) (n_sretry v) (n_rretry v) (n_fc v).
Definition inc_evt (v : srv) := upd_srv v (fc_en v) (prio v) (mrets v) (n_req v) (n_resp v) (n_evt v + 1) (n_sretry v) (n_rretry v) (n_fc v).
Definition inc_sretry (v : srv) := upd_srv v (fc_en v) (prio v) (mrets v) (n_req v) (n_resp v) (n_evt v) (n_sretry v + 1) (n_rretry v) (n_fc v).
Definition inc_rretry (v : srv) := upd_srv v (fc_en v) (prio v) (mrets v) (n_req v) (n_resp v) (n_evt v) (n_sretry v) (n_rretry v + 1) (n_fc v).
Definition set_mrets (v : srv) (l : list Z) := upd_srv v (fc_en v) (prio v) l (n_req v) (n_resp v) (n_evt v) (n_sretry v) (n_rretry v) (n_fc v).
Definition set_prio (v : srv) (p : Z) := upd_srv v (fc_en v) p (mrets v) (n_req v) (n_resp v) (n_evt v) (n_sretry v) (n_rretry v) (n_fc v).
Definition set_fc (v : srv) (fc : Z) := upd_srv v fc (prio v) (mrets v) (n_req v) (n_resp v) (n_evt v) (n_sretry v) (n_rretry v) (n_fc v + 1).

Definition g_acc_req (g : ghost) (m : msg) := {| acc_req := acc_req g ++ [m]; dlv_req := dlv_req g; acc_resp := acc_resp g; rcv_resp := rcv_resp g; acc_evt := acc_evt g; rcv_evt := rcv_evt g |}.
Definition g_dlv_req (g : ghost) (m : msg) := {| acc_req := acc_req g; dlv_req := dlv_req g ++ [m]; acc_resp := acc_resp g; rcv_resp := rcv_resp g; acc_evt := acc_evt g; rcv_evt := rcv_evt g |}.
Definition g_acc_resp (g : ghost) (m : msg) := {| acc_req := acc_req g; dlv_req := dlv_req g; acc_resp := acc_resp g ++ [m]; rcv_resp := rcv_resp g; acc_evt := acc_evt g; rcv_evt := rcv_evt g |}.
Definition g_rcv_resp (g : ghost) (m : msg) := {| acc_req := acc_req g; dlv_req := dlv_req g; acc_resp := acc_resp g; rcv_resp := rcv_resp g ++ [m]; acc_evt := acc_evt g; rcv_evt := rcv_evt g |}.
Definition g_acc_evt (g : ghost) (m : msg) := {| acc_req := acc_req g; dlv_req := dlv_req g; acc_resp := acc_resp g; rcv_resp := rcv_resp g; acc_evt := acc_evt g ++ [m]; rcv_evt := rcv_evt g |}.
Definition g_rcv_evt (g : ghost) (m : msg) := {| acc_req := acc_req g; dlv_req := dlv_req g; acc_resp := acc_resp g; rcv_resp := rcv_resp g; acc_evt := acc_evt g; rcv_evt := rcv_evt g ++ [m] |}.

(* ---- environment ---- *)
Definition pop (env : list kres) : kres * list kres :=
  match env with [] => (KOk, []) | k :: t => (k, t) end.

(* ---- ring space arithmetic (lib/ringbuffer.c) ---- *)
Definition roundup (x a : Z) : Z := ((x + a - 1) / a) * a.
(* qb_rb_open_2: size += MARGIN + 1; real_size = ROUNDUP(size, page); word_size = real_size / 4 *)
Definition ring_words (mx : Z) : Z := roundup (mx + IPC_RB_CHUNK_MARGIN + 1) IPC_PAGE_SIZE / IPC_RB_WORD.
(* qb_rb_chunk_step: header words + len/4 (+1 when len is not a multiple of the word size) *)
Definition chunk_words (len : Z) : Z :=
  IPC_RB_CHUNK_HEADER_WORDS + len / IPC_RB_WORD + (if len mod IPC_RB_WORD =? 0 then 0 else 1).
Fixpoint used_words (q : list msg) : Z :=
  match q with [] => 0 | m :: t => chunk_words (m_len m) + used_words t end.
(* qb_rb_space_free, in bytes: write_pt = read_pt iff nothing is queued (a ring is never completely full) *)
Definition space_free (W : Z) (q : list msg) : Z :=
  if used_words q =? 0 then W * IPC_RB_WORD else (W - used_words q - 1) * IPC_RB_WORD.
(* qb_rb_chunk_alloc: EAGAIN when space_free < len + MARGIN *)
Definition ring_fits (W : Z) (q : list msg) (len : Z) : bool :=
  negb (space_free W q <? len + IPC_RB_CHUNK_MARGIN).

(* ---- one_way send: qb_ipc_shm_send(v) / qb_ipc_socket_send(v) -> (queue, result, env) ---- *)
Definition xsend (t : transport) (W : Z) (q : list msg) (m : msg) (env : list kres)
  : list msg * Z * list kres :=
  match t with
  | SHM => if ring_fits W q (m_len m) then (q ++ [m], m_len m, env) else (q, - IPC_EAGAIN, env)
  | SOCK => let '(k, env') := pop env in
            match k with
            | KOk => (q ++ [m], m_len m, env')
            | KAgain => (q, - IPC_EAGAIN, env')
            | KErr e => (q, - e, env')
            end
  end.

(* `res == msg_len' (send) versus `res > 0' (sendv): "the one_way send succeeded" *)
Definition sent_ok (v : bool) (res len : Z) : bool := if v then 0 <? res else res =? len.

(* ---- one_way receive into a caller buffer of buflen bytes -> (queue, result, received message) ----
   shm:  qb_rb_chunk_read(timeout 0): -ETIMEDOUT when empty, -ENOBUFS (chunk stays) when too small.
   sock: qb_ipc_us_recv_at_most(timeout 0): peek the header, then recv(hdr.size). *)
Definition to_size_t (x : Z) : Z := if x <? 0 then x + 18446744073709551616 else x.

Definition xrecv (vr : variant) (t : transport) (q : list msg) (buflen : Z)
  : list msg * Z * option msg :=
  match q with
  | [] => (q, - IPC_ETIMEDOUT, None)
  | m :: rest =>
      match t with
      | SHM => if buflen <? m_len m then (q, - IPC_ENOBUFS, None) else (rest, m_len m, Some m)
      | SOCK =>
          let to_recv := if IPC_HDR_SIZE <=? m_len m then m_hsize m else 0 in
          if v_recvbound vr && ((to_recv <? 0) || (buflen <? to_recv)) then (q, - IPC_EMSGSIZE, None) else
          let got := Z.min (to_size_t to_recv) (m_len m) in      (* recv() returns one datagram, truncated *)
          if got =? 0 then (rest, - IPC_ENOTCONN, None)          (* "recv == 0 -> ENOTCONN"; the datagram is gone *)
          else (rest, got, Some m)
      end
  end.

(* bytes qb_ipc_us_recv_at_most writes into the caller's buffer (from offset 0): the peek (only in the code
   as found) and the final recv.  Used by C06: the writes stay inside buflen. *)
Definition recv_write_extent (vr : variant) (m : msg) (buflen : Z) : Z :=
  let peeked := if v_recvbound vr then 0 else Z.min IPC_HDR_SIZE (m_len m) in
  let to_recv := if IPC_HDR_SIZE <=? m_len m then m_hsize m else 0 in
  if v_recvbound vr && ((to_recv <? 0) || (buflen <? to_recv)) then 0 else
  Z.max peeked (Z.min (to_size_t to_recv) (m_len m)).

(* ---- client ---- *)
Definition W_of (s : st) : Z := ring_words (maxsz s).

(* fc_get result > 0 && <= fc_enable_max -> EAGAIN *)
Definition fc_blocks (s : st) : bool := (0 <? fc_en (sv s)) && (fc_en (sv s) <=? fcmax s).

(* do { res2 = qb_ipc_us_send(&c->setup, .., 1); } while (res2 == -EAGAIN); EPIPE -> ENOTCONN *)
Fixpoint notify_spin (env : list kres) : Z * list kres :=
  match env with
  | [] => (1, [])
  | KOk :: t => (1, t)
  | KAgain :: t => notify_spin t
  | KErr e :: t => (- e, t)
  end.

(* qb_ipcc_send (v = false) / qb_ipcc_sendv (v = true) *)
Definition c_send (s : st) (v : bool) (m : msg) (env : list kres) : st * Z * list kres :=
  if maxsz s <? m_len m then (s, - IPC_EMSGSIZE, env) else
  if fc_blocks s then (s, - IPC_EAGAIN, env) else
  let '(q', res, env1) := xsend (tr s) (W_of s) (q_req (ch s)) m env in
  let s1 := if 0 <=? res
            then with_gh (with_ch s (set_q_req (ch s) q')) (g_acc_req (gh s) m)
            else s in
  match tr s with
  | SHM =>
      if sent_ok v res (m_len m) then
        let '(r2, env2) := notify_spin env1 in
        if r2 =? 1 then (with_nt s1 (set_c2s (nt s1) (c2s (nt s1) + 1)), res, env2)
        else (s1, r2, env2)
      else (s1, res, env1)
  | SOCK => (s1, res, env1)
  end.

(* raw peer (harness op "rq"): qb_rb_chunk_write on the request ring + one notification byte, or send() of
   a datagram on the request socket; none of qb_ipcc_send's checks *)
Definition c_raw (s : st) (m : msg) (env : list kres) : st * Z * list kres :=
  let '(q', res, env1) := xsend (tr s) (W_of s) (q_req (ch s)) m env in
  let s1 := if 0 <=? res
            then with_gh (with_ch s (set_q_req (ch s) q')) (g_acc_req (gh s) m)
            else s in
  match tr s with
  | SHM => if res =? m_len m then (with_nt s1 (set_c2s (nt s1) (c2s (nt s1) + 1)), res, env1) else (s1, res, env1)
  | SOCK => (s1, res, env1)
  end.

(* qb_ipcc_recv, timeout 0 *)
Definition c_recv (vr : variant) (s : st) (buflen : Z) : st * Z * option msg :=
  let '(q', res, om) := xrecv vr (tr s) (q_resp (ch s)) buflen in
  let s1 := with_ch s (set_q_resp (ch s) q') in
  match om with
  | Some m => (with_gh s1 (g_rcv_resp (gh s1) m), res, om)
  | None => (s1, res, None)
  end.

(* qb_ipcc_event_recv, timeout 0: poll the event descriptor first; shm: one notification byte per event *)
Definition client_fd_readable (s : st) : bool :=
  match tr s with
  | SHM => 0 <? s2c (nt s)
  | SOCK => match q_evt (ch s) with [] => false | _ => true end
  end.

Definition c_evrecv (vr : variant) (s : st) (buflen : Z) : st * Z * option msg :=
  if negb (client_fd_readable s) then (s, - IPC_EAGAIN, None) else
  let '(q', res, om) := xrecv vr (tr s) (q_evt (ch s)) buflen in
  let s1 := with_ch s (set_q_evt (ch s) q') in
  match om with
  | Some m =>
      let s2 := with_gh s1 (g_rcv_evt (gh s1) m) in
      match tr s with
      | SHM => (* size > 0: qb_ipc_us_recv(&c->setup, &one_byte, 1, -1) *)
          if 0 <? res then (with_nt s2 (set_s2c (nt s2) (s2c (nt s2) - 1)), res, om) else (s2, res, om)
      | SOCK => (s2, res, om)
      end
  | None => (s1, res, None)
  end.

(* qb_ipcc_sendv_recv with ms_timeout 0: flow-control test, sendv, then one qb_ipcc_recv *)
Definition c_sendrecv (vr : variant) (s : st) (m : msg) (buflen : Z) (env : list kres)
  : st * Z * option msg * list kres :=
  if fc_blocks s then (s, - IPC_EAGAIN, None, env) else
  let '(s1, res, env1) := c_send s true m env in
  if res <? 0 then (s1, res, None, env1) else
  let '(s2, r2, om) := c_recv vr s1 buflen in (s2, r2, om, env1).

(* ---- server: sending ---- *)
(* resend_event_notifications *)
Definition resend (s : st) (env : list kres) : st * Z * list kres :=
  match tr s with
  | SOCK => (s, 0, env)
  | SHM =>
      let n := nt s in
      let '(n1, res, env1) :=
        if 0 <? outst n then
          let '(k, env') := pop env in
          match k with
          | KOk => (set_s2c n (s2c n + outst n), outst n, env')
          | KAgain => (n, - IPC_EAGAIN, env')
          | KErr e => (n, - e, env')
          end
        else (n, 0, env) in
      let n2 := if 0 <? res then set_outst n1 (outst n1 - res) else n1 in
      let n3 := if outst n2 =? 0 then set_pollout n2 false else n2 in
      (with_nt s n3, res, env1)
  end.

(* new_event_notification *)
Definition new_notification (s : st) (env : list kres) : st * Z * list kres :=
  match tr s with
  | SOCK => (s, 0, env)
  | SHM =>
      let n := nt s in
      if 0 <? outst n then resend (with_nt s (set_outst n (outst n + 1))) env
      else
        let '(k, env') := pop env in
        match k with
        | KOk => (with_nt s (set_s2c n (s2c n + 1)), 1, env')
        | KAgain => (with_nt s (set_pollout (set_outst n (outst n + 1)) true), - IPC_EAGAIN, env')
        | KErr e => (s, - e, env')
        end
  end.

(* qb_ipcs_response_send (v = false) / _sendv (v = true) *)
Definition s_resp (vr : variant) (s : st) (v : bool) (m : msg) (env : list kres) : st * Z * list kres :=
  if v_sendchk vr && (maxsz s <? m_len m) then (s, - IPC_EMSGSIZE, env) else
  let '(q', res, env1) := xsend (tr s) (W_of s) (q_resp (ch s)) m env in
  if sent_ok v res (m_len m) then
    (with_sv (with_gh (with_ch s (set_q_resp (ch s) q')) (g_acc_resp (gh s) m)) (inc_resp (sv s)), res, env1)
  else if (res =? - IPC_EAGAIN) || (res =? - IPC_ETIMEDOUT) then
    (with_sv s (inc_sretry (sv s)), res, env1)
  else (s, res, env1).

(* qb_ipcs_event_send (v = false) / _sendv (v = true) *)
Definition s_evt (vr : variant) (s : st) (v : bool) (m : msg) (env : list kres) : st * Z * list kres :=
  if (negb v || v_sendchk vr) && (maxsz s <? m_len m) then (s, - IPC_EMSGSIZE, env) else
  let '(q', res, env1) := xsend (tr s) (W_of s) (q_evt (ch s)) m env in
  if sent_ok v res (m_len m) then
    let s1 := with_sv (with_gh (with_ch s (set_q_evt (ch s) q')) (g_acc_evt (gh s) m)) (inc_evt (sv s)) in
    let '(s2, resn, env2) := new_notification s1 env1 in
    if (resn <? 0) && negb (resn =? - IPC_EAGAIN) && (v || negb (resn =? - IPC_ENOBUFS))
    then (s2, resn, env2) else (s2, res, env2)
  else if (res =? - IPC_EAGAIN) || (res =? - IPC_ETIMEDOUT) then
    let '(s1, _, env2) := if 0 <? outst (nt s) then resend s env1 else (s, 0, env1) in
    (with_sv s1 (inc_sretry (sv s1)), res, env2)
  else (s, res, env1).

(* qb_ipcs_request_rate_limit + qb_ipcs_flowcontrol_set *)
Definition s_rate (s : st) (rl : Z) : st :=
  let p := if rl =? IPC_RATE_FAST then IPC_LOOP_HIGH
           else if (rl =? IPC_RATE_SLOW) || (rl =? IPC_RATE_OFF) || (rl =? IPC_RATE_OFF_2) then IPC_LOOP_LOW
           else IPC_LOOP_MED in
  let fc := if rl =? IPC_RATE_OFF then 1 else if rl =? IPC_RATE_OFF_2 then 2 else 0 in
  let v1 := set_prio (sv s) p in
  with_sv s (if fc_en v1 =? fc then v1 else set_fc v1 fc).

(* ---- server: receiving ---- *)
(* one invocation of msg_process: the size it is told, and the message *)
Definition cb := (Z * msg)%type.

(* the part of _process_request_ after a message of `size' bytes was obtained; `reclaim' = shm peek mode
   (the chunk is still queued and is removed after the callback) *)
Definition process_body (vr : variant) (s : st) (m : msg) (size : Z) (reclaim : bool) : st * Z * list cb :=
  if (size =? 0) || (m_id m =? IPC_MSG_DISCONNECT) then (s, - IPC_ESHUTDOWN, []) else
  if v_reqvalid vr && ((size <? IPC_HDR_SIZE) || (m_hsize m <? 0) || (size <? m_hsize m) || (maxsz s <? m_hsize m))
  then (s, - IPC_EBADMSG, []) else
  let ret := match mrets (sv s) with [] => 0 | r :: _ => r end in
  let v1 := set_mrets (inc_req (sv s)) (tl (mrets (sv s))) in
  let s1 := with_gh (with_sv s v1) (g_dlv_req (gh s) m) in
  let s2 := if reclaim then with_ch s1 (set_q_req (ch s1) (tl (q_req (ch s1)))) else s1 in
  (s2, (if ret <? 0 then - IPC_ENOBUFS else size), [(to_size_t (m_hsize m), m)]).

(* _process_request_ *)
Definition process_request (vr : variant) (s : st) : st * Z * list cb :=
  match tr s with
  | SHM =>
      match q_req (ch s) with
      | [] => (with_sv s (inc_rretry (sv s)), - IPC_EAGAIN, [])      (* peek: nothing within the timeout *)
      | m :: _ =>
          if m_len m =? 0 then (with_sv s (inc_rretry (sv s)), - IPC_EAGAIN, [])   (* rc == 0 -> -EAGAIN *)
          else process_body vr s m (m_len m) true
      end
  | SOCK =>
      let '(q', res, om) := xrecv vr SOCK (q_req (ch s)) (maxsz s) in
      let s1 := with_ch s (set_q_req (ch s) q') in
      match om with
      | Some m => process_body vr s1 m res false
      | None =>
          if (res =? - IPC_EAGAIN) || (res =? - IPC_ETIMEDOUT)
          then (with_sv s1 (inc_rretry (sv s1)), res, [])
          else (s1, res, [])
      end
  end.

(* _request_q_len_get *)
Definition q_len_limit (s : st) : Z :=
  let n := Z.of_nat (length (q_req (ch s))) in
  if n <=? 0 then n
  else if prio (sv s) =? IPC_LOOP_MED then Z.min n 5
  else if prio (sv s) =? IPC_LOOP_LOW then 1
  else Z.min n IPC_MAX_RECV_MSGS.

(* do { res = _process_request_; ... } while (avail > 0 && res > 0 && !c->fc_enabled)
   n = avail as a nat: the loop continues only while res > 0, and each such round decrements avail *)
Fixpoint disp_loop (vr : variant) (n : nat) (s : st) (recvd : Z) (cbs : list cb)
  : st * Z * Z * list cb :=
  let '(s1, res, c1) := process_request vr s in
  if res =? - IPC_ESHUTDOWN then (s1, res, recvd, cbs ++ c1) else
  let recvd' := if (0 <? res) || (res =? - IPC_ENOBUFS) || (res =? - IPC_EINVAL) then recvd + 1 else recvd in
  match n with
  | S (S n' as m) =>
      if (0 <? res) && (fc_en (sv s1) =? 0) then disp_loop vr m s1 recvd' (cbs ++ c1)
      else (s1, res, recvd', cbs ++ c1)
  | _ => (s1, res, recvd', cbs ++ c1)
  end.

Definition server_fd_pollin (s : st) : bool :=
  match tr s with
  | SHM => 0 <? c2s (nt s)
  | SOCK => match q_req (ch s) with [] => false | _ => true end
  end.

(* revents the main loop hands to qb_ipcs_dispatch_connection_request; wr = the kernel reports the
   descriptor writable (oracle) *)
Definition turn_revents (s : st) (wr : bool) : Z :=
  (if server_fd_pollin s then IPC_POLLIN else 0) + (if pollout (nt s) && wr then IPC_POLLOUT else 0).

(* qb_ipcs_dispatch_connection_request -> (state, dispatch result, callbacks) *)
Definition dispatch (vr : variant) (s : st) (pin pout : bool) (env : list kres) : st * Z * list cb * list kres :=
  let '(s0, env0) := if pout then let '(s', _, e') := resend s env in (s', e') else (s, env) in
  if negb pin then (s0, 0, [], env0) else
  if negb (fc_en (sv s0) =? 0) then (s0, 0, [], env0) else
  let avail := q_len_limit s0 in
  match tr s0 with
  | SHM =>
      if avail =? 0 then
        (* "Nothing in q but got POLLIN": qb_ipc_us_recv(&c->setup, bytes, 1, 0) *)
        ((if 0 <? c2s (nt s0) then with_nt s0 (set_c2s (nt s0) (c2s (nt s0) - 1)) else s0), 0, [], env0)
      else
        let '(s1, res, recvd, cbs) := disp_loop vr (Z.to_nat avail) s0 0 [] in
        if res =? - IPC_ESHUTDOWN then (set_closed s1, res, cbs, env0) else
        (* qb_ipc_us_recv(&c->setup, bytes, recvd, -1): blocks until recvd bytes have arrived *)
        if c2s (nt s1) <? recvd then (set_blocked s1, 0, cbs, env0) else
        let s2 := with_nt s1 (set_c2s (nt s1) (c2s (nt s1) - recvd)) in
        let r := Z.min 0 res in
        let r := if (r =? - IPC_EAGAIN) || (r =? - IPC_ETIMEDOUT) || (r =? - IPC_ENOBUFS) then 0 else r in
        ((if r =? 0 then s2 else set_closed s2), r, cbs, env0)
  | SOCK =>
      let '(s1, res, recvd, cbs) := disp_loop vr (Z.to_nat avail) s0 0 [] in
      if res =? - IPC_ESHUTDOWN then (set_closed s1, res, cbs, env0) else
      let r := Z.min 0 res in
      let r := if (r =? - IPC_EAGAIN) || (r =? - IPC_ETIMEDOUT) || (r =? - IPC_ENOBUFS) then 0 else r in
      ((if r =? 0 then s1 else set_closed s1), r, cbs, env0)
  end.

(* one server turn on the connection's descriptor *)
Definition s_turn (vr : variant) (s : st) (wr : bool) (env : list kres) : st * Z * list cb * list kres :=
  let pin := server_fd_pollin s in
  let pout := pollout (nt s) && wr in
  if negb pin && negb pout then (s, 0, [], env)
  else let '(s1, _, cbs, env1) := dispatch vr s pin pout env in (s1, turn_revents s wr, cbs, env1).

(* ---- operations ---- *)
Inductive op :=
| CSend (v : bool) (m : msg)
| CSendRecv (m : msg) (buflen : Z)
| CRecv (buflen : Z)
| CEvRecv (buflen : Z)
| CFcMax (n : Z)
| STurn (writable : bool)
| SResp (v : bool) (m : msg)
| SEvt (v : bool) (m : msg)
| SRate (rl : Z)
| SMret (l : list Z)
| CRaw (m : msg).    (* a hostile/raw client: the bytes go straight into the request channel, no client-side checks *)

Record out := { o_res : Z;                 (* the call's return value (STurn: revents handed to the dispatch function) *)
                o_msg : option msg;        (* message a receive call returned *)
                o_cbs : list cb;           (* msg_process invocations, in order *)
                o_envleft : Z;             (* kernel outcomes the model did not consume *)
                o_dead : bool }.           (* the connection was already closed / the thread blocked *)

Definition mk_out (r : Z) (om : option msg) (cbs : list cb) (env : list kres) : out :=
  {| o_res := r; o_msg := om; o_cbs := cbs; o_envleft := Z.of_nat (length env); o_dead := false |}.

Definition step (vr : variant) (s : st) (o : op) (env : list kres) : st * out :=
  if closed s || blocked s then
    (s, {| o_res := 0; o_msg := None; o_cbs := []; o_envleft := Z.of_nat (length env); o_dead := true |})
  else
  match o with
  | CSend v m => let '(s', r, e) := c_send s v m env in (s', mk_out r None [] e)
  | CSendRecv m bl => let '(s', r, om, e) := c_sendrecv vr s m bl env in (s', mk_out r om [] e)
  | CRecv bl => let '(s', r, om) := c_recv vr s bl in (s', mk_out r om [] env)
  | CEvRecv bl => let '(s', r, om) := c_evrecv vr s bl in (s', mk_out r om [] env)
  | CFcMax n => if (n <? 0) || (2 <? n) then (s, mk_out (- IPC_EINVAL) None [] env)
                else (with_fcmax s n, mk_out 0 None [] env)
  | STurn wr => let '(s', r, cbs, e) := s_turn vr s wr env in (s', mk_out r None cbs e)
  | SResp v m => let '(s', r, e) := s_resp vr s v m env in (s', mk_out r None [] e)
  | SEvt v m => let '(s', r, e) := s_evt vr s v m env in (s', mk_out r None [] e)
  | SRate rl => (s_rate s rl, mk_out 0 None [] env)
  | SMret l => (with_sv s (set_mrets (sv s) l), mk_out 0 None [] env)
  | CRaw m => let '(s', r, e) := c_raw s m env in (s', mk_out r None [] e)
  end.

Fixpoint run (vr : variant) (s : st) (h : list (op * list kres)) : st * list out :=
  match h with
  | [] => (s, [])
  | (o, env) :: t =>
      let '(s1, x) := step vr s o env in
      let '(s2, xs) := run vr s1 t in (s2, x :: xs)
  end.

(* ---- API-level state digest printed after every call (compared with the implementation) ---- *)
Definition evq_len (s : st) : Z := Z.of_nat (length (q_evt (ch s))).
