(* Extraction of the C16 models.  ExtrOcamlBasic only; Z, positive, nat stay inductive; no Extract Constant. *)
From Coq Require Import ExtrOcamlBasic.
Require Import Verif.gen.Consts_logthr Verif.LogThrModel.
Extraction "model_C16.ml" kinit kstep run_ctl is_error k_err k_lock k_active cinit cstep exec c_error all_done accepted dropped popped written LOGT_EBADF c_gh c_sh c_m c_mprog c_w reported out closes err stopped closed mem drop q m_tid m_seq.
