(* Extraction of the C16 models.  ExtrOcamlBasic only; Z, positive, nat stay inductive; no Extract Constant. *)
From Coq Require Import ExtrOcamlBasic.
Require Import Verif.LogThrModel.
Extraction "model_C16.ml" kinit kstep run_ctl is_error k_err k_lock k_active.
