(* MapSkipProofs2 - the pointer-level skiplist model (MapSkipModel, repaired variant kv_fixed) refines layer A
   (MapRefModel with ascending-key placement) for all iterator-free histories and every level oracle.
   Part 1: frame lemmas for the two heaps (nodes, forward arrays). *)
From Coq Require Import List NArith ZArith Bool Arith Lia Sorted.
Require Import Verif.MapSpec Verif.MapHashModel Verif.MapSkipModel Verif.MapRefModel Verif.MapRefProofs Verif.MapHashProofs2 Verif.MapHashProofs3.
Import ListNotations.

(* ---------- nodes ---------- *)
Lemma dnode_ok : forall s id n, dnode s id = Ok n <-> exists c, nth_error (k_nodes s) id = Some c /\ sc_live c = true /\ sc_node c = n.
Proof.
  unfold dnode. intros. destruct (nth_error (k_nodes s) id) as [c|].
  - destruct (sc_live c) eqn:L; split; intros.
    + inversion H; subst. eauto.
    + destruct H as [c' [H1 [H2 H3]]]. inversion H1; subst. auto.
    + discriminate.
    + destruct H as [c' [H1 [H2 H3]]]. inversion H1; subst. congruence.
  - split; intros. discriminate. destruct H as [c' [H1 _]]. discriminate.
Qed.

Lemma dnode_lt : forall s id n, dnode s id = Ok n -> id < length (k_nodes s).
Proof. intros. apply dnode_ok in H. destruct H as [c [H _]]. apply nth_error_Some. congruence. Qed.

Lemma dnode_put_node : forall s id n x, id < length (k_nodes s) ->
  dnode (put_node s id n) x = if Nat.eqb id x then Ok n else dnode s x.
Proof.
  intros. unfold dnode, put_node. simpl. rewrite nth_error_upd. destruct (Nat.eqb id x); auto.
  apply Nat.ltb_lt in H. rewrite H. reflexivity.
Qed.

Lemma darr_put_node : forall s id n a, darr (put_node s id n) a = darr s a.
Proof. reflexivity. Qed.

Lemma darr_ok : forall s a l, darr s a = Ok l <-> exists c, nth_error (k_arrs s) a = Some c /\ fa_live c = true /\ fa_ptrs c = l.
Proof.
  unfold darr. intros. destruct (nth_error (k_arrs s) a) as [c|].
  - destruct (fa_live c) eqn:L; split; intros.
    + inversion H; subst. eauto.
    + destruct H as [c' [H1 [H2 H3]]]. inversion H1; subst. auto.
    + discriminate.
    + destruct H as [c' [H1 [H2 H3]]]. inversion H1; subst. congruence.
  - split; intros. discriminate. destruct H as [c' [H1 _]]. discriminate.
Qed.

Lemma darr_lt : forall s a l, darr s a = Ok l -> a < length (k_arrs s).
Proof. intros. apply darr_ok in H. destruct H as [c [H _]]. apply nth_error_Some. congruence. Qed.

(* forward pointers only depend on the array a node owns *)
Lemma fwd_put_node : forall s id n n' x l, dnode s id = Ok n -> sn_fwd n' = sn_fwd n ->
  fwd (put_node s id n') x l = fwd s x l.
Proof.
  intros. unfold fwd. rewrite dnode_put_node by (eapply dnode_lt; eauto).
  destruct (Nat.eqb id x) eqn:E.
  - apply Nat.eqb_eq in E. subst. rewrite H. simpl. rewrite H0. reflexivity.
  - reflexivity.
Qed.

(* ---------- set_fwd ---------- *)
Lemma set_fwd_ok : forall s id lvl p n a, dnode s id = Ok n -> darr s (sn_fwd n) = Ok a -> lvl < length a ->
  set_fwd s id lvl p = Ok (set_arrs s (upd (k_arrs s) (sn_fwd n) {| fa_live := true; fa_ptrs := upd a lvl p |})).
Proof. intros. unfold set_fwd. rewrite H. simpl. rewrite H0. simpl. apply Nat.ltb_lt in H1. rewrite H1. reflexivity. Qed.

Lemma dnode_set_arrs : forall s x id, dnode (set_arrs s x) id = dnode s id.
Proof. reflexivity. Qed.

Lemma darr_set_arrs_upd : forall s a0 c b, a0 < length (k_arrs s) ->
  darr (set_arrs s (upd (k_arrs s) a0 c)) b = if Nat.eqb a0 b then (if fa_live c then Ok (fa_ptrs c) else Err (UseAfterFreeArr b)) else darr s b.
Proof.
  intros. unfold darr. simpl. rewrite nth_error_upd. destruct (Nat.eqb a0 b) eqn:E; auto.
  apply Nat.ltb_lt in H. rewrite H. apply Nat.eqb_eq in E. subst. reflexivity.
Qed.

Lemma nth_error_upd_list : forall {A} (l : list A) i x j, i < length l ->
  nth_error (upd l i x) j = if Nat.eqb i j then Some x else nth_error l j.
Proof. intros. rewrite nth_error_upd. apply Nat.ltb_lt in H. rewrite H. reflexivity. Qed.

(* reading after one store: same array & same level -> the stored pointer; otherwise unchanged *)
Lemma fwd_set_fwd : forall s id lvl p n a s' x m l, dnode s id = Ok n -> darr s (sn_fwd n) = Ok a -> lvl < length a ->
  set_fwd s id lvl p = Ok s' -> dnode s x = Ok m ->
  fwd s' x l = if Nat.eqb (sn_fwd m) (sn_fwd n) then (if Nat.eqb lvl l then Ok p else fwd s x l) else fwd s x l.
Proof.
  intros. rewrite (set_fwd_ok s id lvl p n a) in H2 by auto. inversion H2; subst. clear H2.
  unfold fwd. rewrite dnode_set_arrs, H3. simpl.
  rewrite darr_set_arrs_upd by (eapply darr_lt; eauto). simpl.
  rewrite (Nat.eqb_sym (sn_fwd n) (sn_fwd m)). destruct (Nat.eqb (sn_fwd m) (sn_fwd n)) eqn:E.
  - apply Nat.eqb_eq in E. rewrite E, H0. simpl. rewrite nth_error_upd_list by auto. destruct (Nat.eqb lvl l); auto.
  - reflexivity.
Qed.

(* ---------- the key order (strcmp on unsigned bytes) ---------- *)
Lemma key_ltb_irrefl : forall a, key_ltb a a = false.
Proof. induction a; simpl; auto. rewrite N.ltb_irrefl, N.eqb_refl. auto. Qed.

Lemma key_ltb_trans : forall a b c, key_ltb a b = true -> key_ltb b c = true -> key_ltb a c = true.
Proof.
  induction a; destruct b, c; simpl; intros; try discriminate; auto.
  destruct (N.ltb a n) eqn:L1.
  - destruct (N.ltb n n0) eqn:L2.
    + apply N.ltb_lt in L1, L2. assert (N.ltb a n0 = true) by (apply N.ltb_lt; lia). rewrite H1. auto.
    + destruct (N.eqb n n0) eqn:E2; try discriminate. apply N.eqb_eq in E2. subst. rewrite L1. auto.
  - destruct (N.eqb a n) eqn:E1; try discriminate. apply N.eqb_eq in E1. subst.
    destruct (N.ltb n n0) eqn:L2; auto. destruct (N.eqb n n0) eqn:E2; try discriminate. eapply IHa; eauto.
Qed.

Lemma key_ltb_total : forall a b, key_ltb a b = false -> key_eqb a b = false -> key_ltb b a = true.
Proof.
  induction a; destruct b; simpl; intros; try discriminate; auto.
  destruct (N.ltb a n) eqn:L1; try discriminate.
  destruct (N.eqb a n) eqn:E1.
  - apply N.eqb_eq in E1. subst. rewrite N.ltb_irrefl, N.eqb_refl. simpl in H0. apply IHa; auto.
  - apply N.ltb_ge in L1. apply N.eqb_neq in E1. assert (N.ltb n a = true) by (apply N.ltb_lt; lia). rewrite H1. auto.
Qed.

Lemma key_ltb_neq : forall a b, key_ltb a b = true -> key_eqb a b = false.
Proof. intros. apply key_eqb_neq. intro. subst. rewrite key_ltb_irrefl in H. discriminate. Qed.

Lemma key_ltb_asym : forall a b, key_ltb a b = true -> key_ltb b a = false.
Proof.
  intros. destruct (key_ltb b a) eqn:E; auto. generalize (key_ltb_trans _ _ _ H E). rewrite key_ltb_irrefl. discriminate.
Qed.

(* ---------- the structure ---------- *)
Definition nkey (s : kstate) (id : nat) : key :=
  match dnode s id with Ok n => match sn_key n with Some k => k | None => [] end | Err _ => [] end.
Definition nlvl (s : kstate) (id : nat) : nat :=
  match dnode s id with Ok n => Z.to_nat (sn_level n) | Err _ => 0 end.
Definition at_level (s : kstate) (l : nat) (id : nat) : bool := Nat.leb l (nlvl s id).
Definition chain (s : kstate) (C0 : list nat) (l : nat) : list nat := filter (at_level s l) C0.

(* x -> rest follows the level-l forward pointers, and ends with NULL *)
Fixpoint Linked (s : kstate) (l : nat) (x : nat) (rest : list nat) : Prop :=
  match rest with
  | [] => fwd s x l = Ok None
  | y :: t => fwd s x l = Ok (Some y) /\ Linked s l y t
  end.

Definition klt (s : kstate) (a b : nat) : Prop := key_ltb (nkey s a) (nkey s b) = true.

Lemma linked_suffix : forall s l rest x pre y post, Linked s l x rest -> rest = pre ++ y :: post -> Linked s l y post.
Proof.
  induction rest; intros. destruct pre; discriminate.
  destruct pre; simpl in H0; inversion H0; subst.
  - destruct H. auto.
  - destruct H. eapply IHrest; eauto.
Qed.

Lemma linked_head : forall s l x rest, Linked s l x rest -> fwd s x l = Ok (hd_error rest).
Proof. intros. destruct rest; simpl in *; auto. destruct H; auto. Qed.

Lemma linked_ext : forall s s' l rest x, (forall y, (y = x \/ In y rest) -> fwd s' y l = fwd s y l) -> Linked s l x rest -> Linked s' l x rest.
Proof.
  induction rest; simpl; intros.
  - rewrite H; auto.
  - destruct H0. split. rewrite H; auto. apply IHrest; auto. intros. apply H. destruct H2; auto.
Qed.

(* every node of U owns a live forward array of full width, and no two of them share one *)
Record Own (s : kstate) (U : list nat) : Prop := {
  own_arr : forall id n, In id U -> dnode s id = Ok n -> exists a, darr s (sn_fwd n) = Ok a /\ length a = S LEVEL_MAX;
  own_inj : forall x y n m, In x U -> In y U -> dnode s x = Ok n -> dnode s y = Ok m -> sn_fwd n = sn_fwd m -> x = y
}.

(* RP id r : the reference count r allowed for the linked node id (C17: r = 1; C18: 1 + parked iterators).
   Zs : removed nodes that are kept only by parked iterators ("zombies"); ZP z n : what is known about them.
   They own their forward arrays like every other node, are not linked, and are not the header. *)
Record SGood (RP : nat -> nat -> Prop) (ZP : nat -> snode -> Prop) (Zs : list nat) (s : kstate) (C0 : list nat) : Prop := {
  sg_hdr : exists h, dnode s HEADER = Ok h /\ sn_key h = None /\ RP HEADER (sn_ref h);
  sg_node : forall id, In id C0 -> exists n k, dnode s id = Ok n /\ sn_key n = Some k /\ RP id (sn_ref n) /\
                                       (0 <= sn_level n <= k_level s)%Z /\ id <> HEADER;
  sg_own : Own s (HEADER :: C0 ++ Zs);
  sg_z : forall z, In z Zs -> (exists n, dnode s z = Ok n /\ ZP z n) /\ z <> HEADER /\ ~ In z C0;
  sg_sorted : StronglySorted (klt s) C0;
  sg_linked : forall l, l <= LEVEL_MAX -> Linked s l HEADER (chain s C0 l);
  sg_level : (-1 <= k_level s <= 8)%Z;
  sg_length : k_length s = wrap64 (Z.of_nat (length C0));
  sg_alive : k_alive s = true;
  sg_hlvl : forall h, dnode s HEADER = Ok h -> (0 <= sn_level h)%Z
}.

Section RPS.
Variable RP : nat -> nat -> Prop.
Variable ZP : nat -> snode -> Prop.
Variable Zs : list nat.
Hypothesis RP_pos : forall id r, RP id r -> 1 <= r.
Local Notation SG := (SGood RP ZP Zs).

Lemma ref_pos_eqb : forall r, 1 <= r -> Nat.eqb r 0 = false.
Proof. intros. apply Nat.eqb_neq. lia. Qed.

Lemma chain_app : forall s a b l, chain s (a ++ b) l = chain s a l ++ chain s b l.
Proof. intros. unfold chain. apply filter_app. Qed.

Lemma nkey_some : forall s id n k, dnode s id = Ok n -> sn_key n = Some k -> nkey s id = k.
Proof. intros. unfold nkey. rewrite H, H0. auto. Qed.

(* position of a search: everything before T has a smaller key; cur is the last node before T and reaches level l *)
Definition Pos (s : kstate) (C0 : list nat) (k : key) (l : nat) (cur : nat) (T : list nat) : Prop :=
  exists pre, C0 = pre ++ T /\ (forall x, In x pre -> key_ltb (nkey s x) k = true) /\
              ((cur = HEADER /\ pre = []) \/ (exists pre', pre = pre' ++ [cur] /\ at_level s l cur = true)).

Lemma pos_linked : forall s C0 k l cur T, SG s C0 -> l <= LEVEL_MAX -> Pos s C0 k l cur T -> Linked s l cur (chain s T l).
Proof.
  intros s C0 k l cur T G Hl [pre [E [_ [[H1 H2]|[pre' [H1 H2]]]]]].
  - subst. apply (sg_linked _ _ _ _ _ G l Hl).
  - generalize (sg_linked _ _ _ _ _ G l Hl). rewrite E, H1. rewrite !chain_app. simpl. unfold chain at 2. simpl. rewrite H2.
    intro L. eapply linked_suffix. exact L. rewrite <- app_assoc. simpl. reflexivity.
Qed.

Lemma pos_lower : forall s C0 k l cur T, Pos s C0 k (S l) cur T -> Pos s C0 k l cur T.
Proof.
  intros s C0 k l cur T [pre [E [A [B|[pre' [B1 B2]]]]]]; exists pre; split; auto; split; auto.
  right. exists pre'. split; auto. unfold at_level in *. apply Nat.leb_le in B2. apply Nat.leb_le. lia.
Qed.

Lemma last_app_single : forall {A} (l : list A) x d, last (l ++ [x]) d = x.
Proof. induction l; simpl; intros; auto. rewrite IHl. destruct (l ++ [x]) eqn:E; auto. destruct l; discriminate. Qed.

(* what the last node of HEADER :: (chain of the part before T) is *)
Lemma pos_last : forall s C0 k l cur T, Pos s C0 k l cur T ->
  exists pre, C0 = pre ++ T /\ (forall x, In x pre -> key_ltb (nkey s x) k = true) /\ last (HEADER :: chain s pre l) HEADER = cur.
Proof.
  intros s C0 k l cur T [pre [E [A [[B1 B2]|[pre' [B1 B2]]]]]]; exists pre; split; auto; split; auto.
  - subst. reflexivity.
  - subst pre. rewrite chain_app. replace (chain s [cur] l) with [cur] by (unfold chain; simpl; rewrite B2; auto).
    rewrite app_comm_cons. apply last_app_single.
Qed.

(* ---------- the search loop ---------- *)
Lemma filter_cons_split : forall {A} (p : A -> bool) T y rest, filter p T = y :: rest ->
  exists t1 t2, T = t1 ++ y :: t2 /\ filter p t1 = [] /\ filter p t2 = rest /\ p y = true.
Proof.
  induction T; simpl; intros. discriminate. destruct (p a) eqn:E.
  - inversion H; subst. exists [], T. auto.
  - destruct (IHT y rest H) as [t1 [t2 [Q1 [Q2 [Q3 Q4]]]]]. exists (a :: t1), t2. subst. simpl. rewrite E. auto.
Qed.

Lemma uv_get_cons : forall l c u l', uv_get ((l, c) :: u) l' = if Nat.eqb l l' then Some c else uv_get u l'.
Proof. intros. unfold uv_get. simpl. destruct (Nat.eqb l l'); auto. Qed.

Lemma ss_app_r : forall {A} (R : A -> A -> Prop) a b, StronglySorted R (a ++ b) -> StronglySorted R b.
Proof. induction a; simpl; intros; auto. inversion H; subst. auto. Qed.
Lemma ss_app_l : forall {A} (R : A -> A -> Prop) a b, StronglySorted R (a ++ b) -> StronglySorted R a.
Proof.
  induction a; simpl; intros. constructor. inversion H; subst. constructor; eauto.
  apply Forall_forall. intros. eapply Forall_forall in H3; eauto. apply in_or_app; auto.
Qed.
Lemma ss_app_lt : forall {A} (R : A -> A -> Prop) a b x y, StronglySorted R (a ++ b) -> In x a -> In y b -> R x y.
Proof.
  induction a; simpl; intros. contradiction. inversion H; subst. destruct H0.
  - subst. eapply Forall_forall in H5; eauto. apply in_or_app; auto.
  - eapply IHa; eauto.
Qed.
Lemma ss_filter : forall {A} (R : A -> A -> Prop) p l, StronglySorted R l -> StronglySorted R (filter p l).
Proof.
  induction l; simpl; intros; auto. inversion H; subst. destruct (p a); auto. constructor; auto.
  apply Forall_forall. intros. apply filter_In in H0. destruct H0. eapply Forall_forall in H3; eauto.
Qed.

(* what is known about the node recorded for level l' when the search leaves that level *)
Definition LevelFact (s : kstate) (C0 : list nat) (k : key) (l' : nat) (x : nat) : Prop :=
  exists pre T, C0 = pre ++ T /\ (forall y, In y pre -> key_ltb (nkey s y) k = true) /\
                x = last (HEADER :: chain s pre l') HEADER /\
                (forall y, In y (chain s T l') -> key_ltb (nkey s y) k = false).

Definition SearchRes (s : kstate) (C0 : list nat) (k : key) (l : nat) (u : upd_vec) (R : option nat * nat * upd_vec) : Prop :=
  exists c u', R = (None, c, u') /\ LevelFact s C0 k 0 c /\
    (forall l', l' <= l -> exists x, uv_get u' l' = Some x /\ LevelFact s C0 k l' x) /\
    (forall l', l < l' -> uv_get u' l' = uv_get u l').

Lemma chain_level0 : forall s T, chain s T 0 = T.
Proof. intros. unfold chain, at_level. apply filter_all_true. apply forallb_forall. auto. Qed.

Lemma head_ge_all_ge : forall s k y rest, StronglySorted (klt s) (y :: rest) -> key_ltb (nkey s y) k = false ->
  forall z, In z (y :: rest) -> key_ltb (nkey s z) k = false.
Proof.
  intros. destruct H1. subst; auto. inversion H; subst. eapply Forall_forall in H5; eauto. unfold klt in H5.
  destruct (key_ltb (nkey s z) k) eqn:E; auto. rewrite (key_ltb_trans _ _ _ H5 E) in H0. discriminate.
Qed.

Lemma search_ok : forall m fuel s C0 stop k cur T l u,
  SG s C0 -> l <= LEVEL_MAX -> Pos s C0 k l cur T -> length T + l <= m -> m + 2 <= fuel ->
  exists R, search fuel s stop k cur (Z.of_nat l) u = Ok R /\
    ((stop = true /\ exists y, fst (fst R) = Some y /\ In y T /\ nkey s y = k) \/
     (SearchRes s C0 k l u R /\ (stop = true -> forall y, In y C0 -> nkey s y <> k))).
Proof.
  induction m; intros fuel s C0 stop k cur T l u G Hl P Hm Hf.
  - (* T = [], l = 0 *)
    destruct T; simpl in Hm; [|lia]. assert (l = 0) by lia. subst l.
    destruct fuel as [|[|fuel]]; try lia. cbn [search]. simpl Z.ltb. cbn [Z.of_nat Z.to_nat].
    generalize (pos_linked s C0 k 0 cur [] G Hl P). simpl. intro F. rewrite F. simpl.
    eexists. split; [reflexivity|]. right.
    destruct (pos_last _ _ _ _ _ _ P) as [pre [E [A L]]].
    assert (LF : LevelFact s C0 k 0 cur). { exists pre, []. repeat split; auto. intros y []. }
    split.
    { exists cur, ((0, cur) :: u). split; auto. split; auto. split.
      + intros l' Hl'. assert (l' = 0) by lia. subst l'. exists cur. rewrite uv_get_cons. simpl. auto.
      + intros l' Hl'. rewrite uv_get_cons. replace (Nat.eqb 0 l') with false; auto. symmetry. apply Nat.eqb_neq. lia. }
    { intros _ y Hy. rewrite E, app_nil_r in Hy. apply key_eqb_neq. apply key_ltb_neq. auto. }
  - destruct fuel as [|fuel]; try lia. cbn [search].
    replace (Z.ltb (Z.of_nat l) 0) with false by (symmetry; apply Z.ltb_ge; lia). rewrite Nat2Z.id.
    generalize (pos_linked s C0 k l cur T G Hl P). intro LK. rewrite (linked_head _ _ _ _ LK). cbn [bind].
    destruct P as [pre [E [A B]]].
    assert (ST : StronglySorted (klt s) (chain s T l)).
    { apply ss_filter. eapply ss_app_r. rewrite <- E. apply (sg_sorted _ _ _ _ _ G). }
    (* the continuation "next level" *)
    assert (NEXT : (forall y, In y (chain s T l) -> key_ltb (nkey s y) k = false) ->
      (stop = true -> forall y, In y (chain s T l) -> nkey s y <> k) ->
      exists R, search fuel s stop k cur (Z.of_nat l - 1) ((l, cur) :: u) = Ok R /\
        ((stop = true /\ exists y, fst (fst R) = Some y /\ In y T /\ nkey s y = k) \/
         (SearchRes s C0 k l u R /\ (stop = true -> forall y, In y C0 -> nkey s y <> k)))).
    { intros GE NEQ.
      assert (P0 : Pos s C0 k l cur T) by (exists pre; auto).
      destruct (pos_last _ _ _ _ _ _ P0) as [pre2 [E2 [A2 L2]]].
      assert (LF : LevelFact s C0 k l cur). { exists pre2, T. repeat split; auto. }
      destruct l as [|l1].
      - destruct fuel as [|fuel]; try lia. cbn [search]. simpl Z.ltb. cbv iota.
        eexists. split; [reflexivity|]. right. split.
        { exists cur, ((0, cur) :: u). split; auto. split; auto. split.
          + intros l' Hl'. assert (l' = 0) by lia. subst l'. exists cur. rewrite uv_get_cons. simpl. auto.
          + intros l' Hl'. rewrite uv_get_cons. replace (Nat.eqb 0 l') with false; auto. symmetry. apply Nat.eqb_neq. lia. }
        { intros ST1 y Hy. rewrite E2 in Hy. apply in_app_or in Hy. destruct Hy as [Hy|Hy].
          - apply key_eqb_neq. apply key_ltb_neq. auto.
          - apply NEQ; auto. rewrite chain_level0. auto. }
      - replace (Z.of_nat (S l1) - 1)%Z with (Z.of_nat l1) by lia.
        destruct (IHm fuel s C0 stop k cur T l1 ((S l1, cur) :: u) G) as [R [R1 R2]]; try lia.
        { apply pos_lower. exact P0. }
        exists R. split; auto. destruct R2 as [R2|[[c [u' [R3 [R4 [R5 R6]]]]] R7]]; auto.
        right. split; auto. exists c, u'. split; auto. split; auto. split.
        + intros l' Hl'. destruct (Nat.eq_dec l' (S l1)).
          * subst l'. exists cur. rewrite R6 by lia. rewrite uv_get_cons, Nat.eqb_refl. auto.
          * apply R5. lia.
        + intros l' Hl'. rewrite R6 by lia. rewrite uv_get_cons. replace (Nat.eqb (S l1) l') with false; auto. symmetry. apply Nat.eqb_neq. lia. }
    destruct (chain s T l) as [|y rest] eqn:CH; simpl hd_error; cbn [op_search bind].
    + apply NEXT. intros y []. intros _ y [].
    + (* the forward node y *)
      assert (YT : In y T). { assert (In y (chain s T l)) by (rewrite CH; left; auto). unfold chain in H. apply filter_In in H. apply H. }
      assert (YC : In y C0) by (rewrite E; apply in_or_app; auto).
      destruct (sg_node _ _ _ _ _ G y YC) as [n [ky [N1 [N2 _]]]]. rewrite N1. cbn [bind]. rewrite N2.
      assert (KY : nkey s y = ky) by (eapply nkey_some; eauto).
      destruct (key_ltb ky k) eqn:LT.
      * (* advance to y *)
        destruct (filter_cons_split _ _ _ _ CH) as [t1 [t2 [YS [F1 [F2 AY]]]]].
        assert (SST : StronglySorted (klt s) T) by (eapply ss_app_r; rewrite <- E; apply (sg_sorted _ _ _ _ _ G)).
        destruct (IHm fuel s C0 stop k y t2 l ((l, y) :: u) G Hl) as [R [R1 R2]]; try lia.
        { exists (pre ++ t1 ++ [y]). split. rewrite E, YS. rewrite <- !app_assoc. reflexivity. split.
          - intros x Hx. apply in_app_or in Hx. destruct Hx as [Hx|Hx]; auto. apply in_app_or in Hx. destruct Hx as [Hx|[Hx|[]]].
            + rewrite YS in SST. assert (klt s x y) by (eapply ss_app_lt; eauto; left; auto). unfold klt in H. rewrite KY in H.
              eapply key_ltb_trans; eauto.
            + subst x. rewrite KY. auto.
          - right. exists (pre ++ t1). split. rewrite <- app_assoc. reflexivity. exact AY. }
        { rewrite YS in Hm. rewrite app_length in Hm. simpl in Hm. lia. }
        exists R. split; auto. destruct R2 as [[R2 [y' [R3 [R4 R5]]]]|[[c [u' [R3 [R4 [R5 R6]]]]] R7]].
        { left. split; auto. exists y'. split; auto. split; auto. rewrite YS. apply in_or_app. right. right. auto. }
        right. split; auto. exists c, u'. split; auto. split; auto. split; auto.
        intros l' Hl'. rewrite R6 by lia. rewrite uv_get_cons. replace (Nat.eqb l l') with false; auto. symmetry. apply Nat.eqb_neq. lia.
      * destruct (key_eqb ky k) eqn:EQ.
        { destruct stop.
          - eexists. split; [reflexivity|]. left. split; auto. exists y. simpl. split; auto. split; auto. rewrite KY. apply key_eqb_eq. auto.
          - apply NEXT. apply head_ge_all_ge; auto. rewrite KY. auto. intro; discriminate. }
        { apply NEXT. apply head_ge_all_ge; auto. rewrite KY. auto.
          intros _ z Hz. assert (GT : key_ltb k ky = true) by (apply key_ltb_total; auto; rewrite key_eqb_sym; auto).
          destruct Hz as [Hz|Hz]. subst z. rewrite KY. apply key_eqb_neq. auto.
          assert (FA : Forall (klt s y) rest) by (inversion ST; auto).
          assert (H2 : klt s y z) by (eapply Forall_forall in FA; eauto). unfold klt in H2. rewrite KY in H2.
          apply key_eqb_neq. rewrite key_eqb_sym. apply key_ltb_neq. eapply key_ltb_trans; eauto. }
Qed.

(* ---------- one pointer store among nodes that own their arrays ---------- *)
Definition same_rest (s s' : kstate) : Prop :=
  k_nodes s' = k_nodes s /\ k_length s' = k_length s /\ k_level s' = k_level s /\ k_iters s' = k_iters s /\
  k_used s' = k_used s /\ k_alive s' = k_alive s.

Lemma set_fwd_own : forall s U id lvl p, Own s U -> In id U -> (exists n, dnode s id = Ok n) -> lvl <= LEVEL_MAX ->
  exists s', set_fwd s id lvl p = Ok s' /\ same_rest s s' /\ Own s' U /\
    (forall x l, In x U -> (exists m, dnode s x = Ok m) -> fwd s' x l = if Nat.eqb x id && Nat.eqb lvl l then Ok p else fwd s x l).
Proof.
  intros s U id lvl p O Hin [n N] Hl. destruct (own_arr _ _ O id n Hin N) as [a [A1 A2]].
  assert (LT : lvl < length a) by (rewrite A2; unfold LEVEL_MAX in *; lia).
  rewrite (set_fwd_ok s id lvl p n a N A1 LT). eexists. split; [reflexivity|]. split; [repeat split|]. split.
  - constructor.
    + intros x m Hx M. rewrite dnode_set_arrs in M. destruct (own_arr _ _ O x m Hx M) as [b [B1 B2]].
      rewrite darr_set_arrs_upd by (eapply darr_lt; eauto). destruct (Nat.eqb (sn_fwd n) (sn_fwd m)) eqn:E.
      * simpl. eexists. split; [reflexivity|]. rewrite upd_length. auto.
      * exists b. auto.
    + intros x y m1 m2 Hx Hy M1 M2. rewrite dnode_set_arrs in M1, M2. apply (own_inj _ _ O x y m1 m2); auto.
  - intros x l Hx [m M].
    rewrite (fwd_set_fwd s id lvl p n a _ x m l N A1 LT (set_fwd_ok s id lvl p n a N A1 LT) M).
    destruct (Nat.eqb x id) eqn:E.
    + apply Nat.eqb_eq in E. subst x. rewrite N in M. inversion M; subst. rewrite Nat.eqb_refl. simpl. reflexivity.
    + simpl. replace (Nat.eqb (sn_fwd m) (sn_fwd n)) with false; auto. symmetry. apply Nat.eqb_neq. intro Q.
      apply Nat.eqb_neq in E. apply E. eapply (own_inj _ _ O); eauto.
Qed.

(* ---------- the search from the header ---------- *)
Lemma ss_klt_nodup : forall s l, StronglySorted (klt s) l -> NoDup l.
Proof.
  intros s l SS. induction SS; constructor; auto.
  intro Q. eapply Forall_forall in H; eauto. unfold klt in H. rewrite key_ltb_irrefl in H. discriminate.
Qed.
Lemma sgood_nodup : forall s C0, SG s C0 -> NoDup C0.
Proof. intros. eapply ss_klt_nodup. apply (sg_sorted _ _ _ _ _ H). Qed.

Lemma sgood_len : forall s C0, SG s C0 -> length C0 <= length (k_nodes s).
Proof.
  intros. apply nodup_bounded_length. eapply sgood_nodup; eauto.
  intros x Hx. destruct (sg_node _ _ _ _ _ H x Hx) as [n [k [N _]]]. eapply dnode_lt; eauto.
Qed.

Lemma ss_key_inj : forall s C0 x y, StronglySorted (klt s) C0 -> In x C0 -> In y C0 -> nkey s x = nkey s y -> x = y.
Proof.
  intros s C0 x y SS. induction SS; simpl; intros. contradiction.
  destruct H0, H1; subst; auto.
  - eapply Forall_forall in H; eauto. unfold klt in H. rewrite H2, key_ltb_irrefl in H. discriminate.
  - eapply Forall_forall in H; eauto. unfold klt in H. rewrite <- H2, key_ltb_irrefl in H. discriminate.
Qed.
Lemma sgood_key_inj : forall s C0 x y, SG s C0 -> In x C0 -> In y C0 -> nkey s x = nkey s y -> x = y.
Proof. intros. eapply ss_key_inj; eauto. apply (sg_sorted _ _ _ _ _ H). Qed.

Definition TopRes (s : kstate) (C0 : list nat) (k : key) (R : option nat * nat * upd_vec) : Prop :=
  exists c u', R = (None, c, u') /\ LevelFact s C0 k 0 c /\
    (forall l', (Z.of_nat l' <= k_level s)%Z -> exists x, uv_get u' l' = Some x /\ LevelFact s C0 k l' x) /\
    (forall l', (k_level s < Z.of_nat l')%Z -> uv_get u' l' = None).

Lemma search_top : forall s C0 stop k, SG s C0 ->
  exists R, search (search_fuel s) s stop k HEADER (k_level s) [] = Ok R /\
    ((stop = true /\ exists y, fst (fst R) = Some y /\ In y C0 /\ nkey s y = k) \/
     (TopRes s C0 k R /\ (stop = true -> forall y, In y C0 -> nkey s y <> k))).
Proof.
  intros s C0 stop k G. generalize (sg_level _ _ _ _ _ G). intro LV.
  destruct (Z_lt_dec (k_level s) 0) as [NEG|POS].
  - (* empty list, level -1 *)
    assert (C0 = []). { destruct C0; auto. destruct (sg_node _ _ _ _ _ G n) as [m [k0 [_ [_ [_ [Q _]]]]]]. left; auto. lia. }
    subst C0. unfold search_fuel. destruct (12 * (length (k_nodes s) + 2)) eqn:FU; [lia|]. cbn [search]. replace (Z.ltb (k_level s) 0) with true by (symmetry; apply Z.ltb_lt; auto).
    eexists. split; [reflexivity|]. right. split.
    + exists HEADER, []. split; auto. split.
      { exists [], []. split; [reflexivity|]. split; [intros y []|]. split; [reflexivity|intros y []]. }
      split. intros l' Hl'. lia. intros. reflexivity.
    + intros _ y [].
  - set (L := Z.to_nat (k_level s)). assert (EL : k_level s = Z.of_nat L) by (unfold L; lia).
    destruct (search_ok (length C0 + L) (search_fuel s) s C0 stop k HEADER C0 L [] G) as [R [R1 R2]].
    { unfold L, LEVEL_MAX. lia. }
    { exists []. split; [reflexivity|]. split; [intros x []|left; auto]. }
    { lia. }
    { unfold search_fuel. generalize (sgood_len _ _ G). unfold L. lia. }
    rewrite EL. exists R. split; auto. destruct R2 as [R2|[[c [u' [R3 [R4 [R5 R6]]]]] R7]]; auto.
      right. split; auto. exists c, u'. split; auto. split; auto. split.
      + intros l' Hl'. apply R5. lia.
      + intros l' Hl'. rewrite R6 by lia. reflexivity.
Qed.

(* ---------- abstraction to layer A ---------- *)
Definition sent (s : kstate) (id : nat) : rentry :=
  match dnode s id with
  | Ok n => {| re_id := id - 1; re_key := match sn_key n with Some k => k | None => [] end; re_val := sn_val n;
               re_removed := false; re_subs := sn_subs n |}
  | Err _ => {| re_id := id - 1; re_key := []; re_val := 0%N; re_removed := false; re_subs := [] |}
  end.
Definition hsubs (s : kstate) : list nsub := match dnode s HEADER with Ok h => sn_subs h | Err _ => [] end.
Definition kabs (s : kstate) (C0 : list nat) : rstate :=
  {| r_ents := map (sent s) C0; r_next := length (k_nodes s) - 1; r_subs := hsubs s; r_iters := [];
     r_used := k_used s; r_alive := k_alive s |}.

Lemma nkey_put_node : forall s id n n' y, dnode s id = Ok n -> sn_key n' = sn_key n -> nkey (put_node s id n') y = nkey s y.
Proof.
  intros. unfold nkey. rewrite dnode_put_node by (eapply dnode_lt; eauto). destruct (Nat.eqb id y) eqn:E; auto.
  apply Nat.eqb_eq in E. subst. rewrite H, H0. reflexivity.
Qed.

Definition rc4s (rc : Z * Z * Z) : Z * Z * Z * Z := let '(a, b, c) := rc in (a, a, b, c).

Definition kstep_ok (rc : Z * Z * Z) (s : kstate) (C0 : list nat) (o : op) (orc : list Z) : Prop :=
  exists s' C0' x x' ns,
    k_step kv_fixed rc s o orc = Ok (s', x, ns) /\
    a_step skip_before (rc4s rc) (kabs s C0) o = (kabs s' C0', x', ns) /\
    x = out_wrap x' /\
    ((SG s' C0' /\ k_iters s' = k_iters s /\ k_used s' = k_used s /\
      (forall y n, In y C0 -> dnode s y = Ok n -> sn_ref n <> 1 \/ (forall k, o <> Rm k) -> In y C0') /\
      (forall y, In y C0 -> In y C0' -> nkey s' y = nkey s y)) \/ k_alive s' = false).

Lemma sent_key : forall s id, re_key (sent s id) = nkey s id.
Proof. intros. unfold sent, nkey. destruct (dnode s id); auto. Qed.

Lemma sent_live : forall s id, is_live (sent s id) = true.
Proof. intros. unfold sent. destruct (dnode s id); reflexivity. Qed.

Lemma find_unique : forall {A} (p : A -> bool) l y, (forall x, In x l -> p x = true -> x = y) -> In y l -> p y = true -> find p l = Some y.
Proof.
  induction l; simpl; intros. contradiction. destruct (p a) eqn:E.
  - f_equal. apply H; auto.
  - destruct H0. subst. congruence. apply IHl; auto.
Qed.

Lemma find_live_sent : forall s C0 k, SG s C0 ->
  (forall y, In y C0 -> nkey s y = k -> find_live (map (sent s) C0) k = Some (sent s y)) /\
  ((forall y, In y C0 -> nkey s y <> k) -> find_live (map (sent s) C0) k = None).
Proof.
  intros s C0 k G. unfold find_live. split.
  - intros y Hy Ky. rewrite find_map_ent.
    rewrite (find_unique _ C0 y); auto.
    + intros x Hx Px. rewrite sent_live, sent_key in Px. simpl in Px. apply key_eqb_eq in Px. eapply sgood_key_inj; eauto. congruence.
    + rewrite sent_live, sent_key. simpl. apply key_eqb_eq. auto.
  - intros. apply find_all_false. intros e He. apply in_map_iff in He. destruct He as [x [E Hx]]. subst e.
    rewrite sent_live, sent_key. simpl. apply key_eqb_neq. auto.
Qed.

(* ---------- updating one node in place (value, key pointer, notifier list) ---------- *)
Lemma ss_ext : forall {A} (R R' : A -> A -> Prop) l, (forall a b, In a l -> In b l -> R a b -> R' a b) -> StronglySorted R l -> StronglySorted R' l.
Proof.
  induction l; intros; constructor; inversion H0; subst.
  - apply IHl; auto. intros. apply H; auto; right; auto.
  - apply Forall_forall. intros. eapply Forall_forall in H4; eauto. apply H; auto. left; auto. right; auto.
Qed.

Definition same_shape (n n' : snode) : Prop :=
  sn_key n' <> None /\ sn_level n' = sn_level n /\ sn_ref n' = sn_ref n /\ sn_fwd n' = sn_fwd n /\
  (match sn_key n, sn_key n' with Some a, Some b => a = b | None, None => True | _, _ => False end).

Lemma sgood_put_gen : forall (RP' : nat -> nat -> Prop) (ZP' : nat -> snode -> Prop) s C0 id n n', SG s C0 -> In id (HEADER :: C0 ++ Zs) -> dnode s id = Ok n ->
  sn_fwd n' = sn_fwd n -> sn_key n' = sn_key n ->
  (In id (HEADER :: C0) -> sn_level n' = sn_level n /\ RP' id (sn_ref n')) ->
  (In id Zs -> ZP' id n') ->
  (forall x r, x <> id -> RP x r -> RP' x r) -> (forall z m, z <> id -> ZP z m -> ZP' z m) ->
  SGood RP' ZP' Zs (put_node s id n') C0.
Proof.
  intros RP' ZP' s C0 id n n' G Hid N HF HK HC HZ WR WZ.
  assert (LT : id < length (k_nodes s)) by (eapply dnode_lt; eauto).
  assert (KEY : forall x, nkey (put_node s id n') x = nkey s x).
  { intros. unfold nkey. rewrite dnode_put_node by auto. destruct (Nat.eqb id x) eqn:E; auto. apply Nat.eqb_eq in E. subst. rewrite N, HK. auto. }
  assert (LVL : forall x, In x C0 -> nlvl (put_node s id n') x = nlvl s x).
  { intros x Hx. unfold nlvl. rewrite dnode_put_node by auto. destruct (Nat.eqb id x) eqn:E; auto. apply Nat.eqb_eq in E. subst.
    destruct (HC (or_intror Hx)) as [HL _]. rewrite N, HL. auto. }
  assert (CH : forall l, chain (put_node s id n') C0 l = chain s C0 l).
  { intros. unfold chain. apply filter_ext_in'. intros. unfold at_level. rewrite LVL; auto. }
  constructor.
  - destruct (sg_hdr _ _ _ _ _ G) as [h [H1 [H2 H3]]]. rewrite dnode_put_node by auto. destruct (Nat.eqb id HEADER) eqn:E.
    + apply Nat.eqb_eq in E. subst id. rewrite N in H1. inversion H1; subst h. exists n'. rewrite HK. split; auto. split; auto. apply HC. left; auto.
    + exists h. apply Nat.eqb_neq in E. auto.
  - intros x Hx. destruct (sg_node _ _ _ _ _ G x Hx) as [m [k [M1 [M2 [M3 [M4 M5]]]]]]. rewrite dnode_put_node by auto.
    destruct (Nat.eqb id x) eqn:E.
    + apply Nat.eqb_eq in E. subst x. rewrite N in M1. inversion M1; subst m. destruct (HC (or_intror Hx)) as [HL HR].
      exists n', k. rewrite HK, HL. auto.
    + apply Nat.eqb_neq in E. exists m, k. assert (RP' x (sn_ref m)) by (apply WR; auto). repeat split; auto; try lia. apply M4.
  - destruct (sg_own _ _ _ _ _ G) as [OA OI]. constructor.
    + intros x m Hx M. rewrite dnode_put_node in M by auto. rewrite darr_put_node. destruct (Nat.eqb id x) eqn:E.
      * apply Nat.eqb_eq in E. subst x. inversion M; subst m. rewrite HF. eapply OA; eauto.
      * eapply OA; eauto.
    + intros x y m1 m2 Hx Hy M1 M2 Q. rewrite dnode_put_node in M1, M2 by auto.
      destruct (Nat.eqb id x) eqn:E1, (Nat.eqb id y) eqn:E2.
      * apply Nat.eqb_eq in E1, E2. congruence.
      * apply Nat.eqb_eq in E1. subst x. inversion M1; subst m1. rewrite HF in Q. eapply OI; eauto.
      * apply Nat.eqb_eq in E2. subst y. inversion M2; subst m2. rewrite HF in Q. eapply OI; eauto.
      * eapply OI; eauto.
  - intros z Hz. destruct (sg_z _ _ _ _ _ G z Hz) as [[m [M1 M2]] [Z1 Z2]]. split; auto. rewrite dnode_put_node by auto.
    destruct (Nat.eqb id z) eqn:E.
    + apply Nat.eqb_eq in E. subst z. exists n'. auto.
    + apply Nat.eqb_neq in E. exists m. auto.
  - eapply ss_ext. 2: apply (sg_sorted _ _ _ _ _ G). intros a b _ _. unfold klt. rewrite !KEY. auto.
  - intros l Hl. rewrite CH. apply (linked_ext s); [intros; eapply fwd_put_node; eauto | apply (sg_linked _ _ _ _ _ G l Hl)].
  - apply (sg_level _ _ _ _ _ G).
  - apply (sg_length _ _ _ _ _ G).
  - apply (sg_alive _ _ _ _ _ G).
  - intros h0. rewrite dnode_put_node by auto. destruct (Nat.eqb id HEADER) eqn:E0.
    + apply Nat.eqb_eq in E0. subst id. intro Q. inversion Q; subst h0. destruct (HC (or_introl eq_refl)) as [HL _]. rewrite HL. apply (sg_hlvl _ _ _ _ _ G). auto.
    + apply (sg_hlvl _ _ _ _ _ G).
Qed.

Lemma sgood_put_node : forall s C0 id n n', SG s C0 -> (id = HEADER \/ In id C0) -> dnode s id = Ok n ->
  sn_level n' = sn_level n -> sn_ref n' = sn_ref n -> sn_fwd n' = sn_fwd n -> sn_key n' = sn_key n ->
  SG (put_node s id n') C0.
Proof.
  intros s C0 id n n' G Hid N HL HR HF HK.
  assert (NZ : ~ In id Zs).
  { intro Q. destruct (sg_z _ _ _ _ _ G id Q) as [_ [Z1 Z2]]. destruct Hid; auto. }
  eapply sgood_put_gen; eauto.
  - destruct Hid. left; auto. right. apply in_or_app; auto.
  - intros _. split; auto. rewrite HR. destruct Hid as [Hid|Hid].
    + subst id. destruct (sg_hdr _ _ _ _ _ G) as [h [H1 [H2 H3]]]. rewrite N in H1. inversion H1; subst. auto.
    + destruct (sg_node _ _ _ _ _ G id Hid) as [m [k [M1 [M2 [M3 _]]]]]. rewrite N in M1. inversion M1; subst. auto.
  - intros; contradiction.
Qed.

Lemma sent_put_node : forall s id n' x, id < length (k_nodes s) ->
  sent (put_node s id n') x = if Nat.eqb id x then
     {| re_id := x - 1; re_key := match sn_key n' with Some k => k | None => [] end; re_val := sn_val n'; re_removed := false; re_subs := sn_subs n' |}
  else sent s x.
Proof. intros. unfold sent. rewrite dnode_put_node by auto. destruct (Nat.eqb id x) eqn:E; auto. Qed.

Lemma kabs_put_node : forall s C0 id n n' f, SG s C0 -> In id C0 -> dnode s id = Ok n -> sn_key n' <> None ->
  f (sent s id) = sent (put_node s id n') id ->
  kabs (put_node s id n') C0 = set_ents (kabs s C0) (upd_entry (r_ents (kabs s C0)) (re_id (sent s id)) f).
Proof.
  intros s C0 id n n' f G Hid N HK Hf. assert (LT : id < length (k_nodes s)) by (eapply dnode_lt; eauto).
  unfold kabs, set_ents. simpl. f_equal.
  - unfold upd_entry. rewrite map_map. apply map_ext_in. intros x Hx.
    assert (RID : forall y, re_id (sent s y) = y - 1) by (intros; unfold sent; destruct (dnode s y); auto).
    rewrite !RID. destruct (Nat.eqb (x - 1) (id - 1)) eqn:E.
    + apply Nat.eqb_eq in E. destruct (sg_node _ _ _ _ _ G x Hx) as [_ [_ [_ [_ [_ [_ X0]]]]]]. destruct (sg_node _ _ _ _ _ G id Hid) as [_ [_ [_ [_ [_ [_ I0]]]]]].
      unfold HEADER in *. assert (x = id) by lia. subst x. auto.
    + rewrite sent_put_node by auto. replace (Nat.eqb id x) with false; auto. symmetry. apply Nat.eqb_neq. intro; subst. rewrite Nat.eqb_refl in E. discriminate.
  - unfold put_node. simpl. rewrite upd_length. auto.
  - unfold hsubs. rewrite dnode_put_node by auto. destruct (sg_node _ _ _ _ _ G id Hid) as [_ [_ [_ [_ [_ [_ I0]]]]]].
    replace (Nat.eqb id HEADER) with false; auto. symmetry. apply Nat.eqb_neq. auto.
Qed.

(* ---------- lookup, get, count, notifier bookkeeping, replacement ---------- *)
Lemma lookup_k : forall s C0 k, SG s C0 ->
  exists m, k_lookup s k = Ok m /\
    match m with Some y => In y C0 /\ nkey s y = k | None => forall y, In y C0 -> nkey s y <> k end.
Proof.
  intros. unfold k_lookup. destruct (search_top s C0 true k H) as [R [R1 R2]]. rewrite R1. simpl.
  destruct R as [[m c] u]. simpl. exists m. split; auto.
  destruct R2 as [[_ [y [Y1 [Y2 Y3]]]]|[[c' [u' [T1 _]]] AB]].
  - simpl in Y1. subst m. auto.
  - inversion T1; subst. apply AB; auto.
Qed.

Lemma live_kabs : forall s C0, live (kabs s C0) = r_ents (kabs s C0).
Proof. intros. unfold live. apply filter_all_true. apply forallb_forall. intros e He. simpl in He. apply in_map_iff in He. destruct He as [x [E _]]. subst. apply sent_live. Qed.

Lemma sent_node : forall s id n k, dnode s id = Ok n -> sn_key n = Some k ->
  sent s id = {| re_id := id - 1; re_key := k; re_val := sn_val n; re_removed := false; re_subs := sn_subs n |}.
Proof. intros. unfold sent. rewrite H, H0. reflexivity. Qed.

Lemma kstep_get : forall rc s C0 k, SG s C0 -> kstep_ok rc s C0 (Get k) [].
Proof.
  intros. destruct rc as [[e1 e2] e3]. unfold kstep_ok, k_step, a_step. simpl. rewrite (sg_alive _ _ _ _ _ H). simpl.
  unfold k_get, a_get. destruct (lookup_k s C0 k H) as [m [L1 L2]]. rewrite L1. simpl.
  destruct (find_live_sent s C0 k H) as [F1 F2]. destruct m as [y|].
  - destruct L2 as [Y1 Y2]. destruct (sg_node _ _ _ _ _ H y Y1) as [n [ky [N1 [N2 _]]]]. rewrite N1. simpl.
    rewrite (F1 y Y1 Y2). rewrite (sent_node _ _ _ _ N1 N2). simpl.
    exists s, C0, (OVal (sn_val n)), (OVal (sn_val n)), []. split; auto. split; auto. split; auto. left. split; auto. all: repeat split; auto.
  - rewrite (F2 L2). exists s, C0, (OVal 0%N), (OVal 0%N), []. split; auto. split; auto. split; auto. left. split; auto. all: repeat split; auto.
Qed.

Lemma kstep_count : forall rc s C0, SG s C0 -> kstep_ok rc s C0 Count [].
Proof.
  intros. destruct rc as [[e1 e2] e3]. unfold kstep_ok, k_step, a_step. simpl. rewrite (sg_alive _ _ _ _ _ H). simpl.
  exists s, C0, (OCount (Z.to_N (k_length s))), (OCount (N.of_nat (length (live (kabs s C0))))), []. split; auto. split; auto. split.
  { simpl. rewrite (sg_length _ _ _ _ _ H), wrap_count, live_kabs. simpl. rewrite map_length. auto. }
  left. split; auto. all: repeat split; auto.
Qed.

Lemma hsubs_put_node_other : forall s id n', id <> HEADER -> id < length (k_nodes s) -> hsubs (put_node s id n') = hsubs s.
Proof. intros. unfold hsubs. rewrite dnode_put_node by auto. replace (Nat.eqb id HEADER) with false; auto. symmetry. apply Nat.eqb_neq. auto. Qed.

Lemma kabs_put_header : forall s C0 h h', SG s C0 -> dnode s HEADER = Ok h ->
  kabs (put_node s HEADER h') C0 = set_rsubs (kabs s C0) (sn_subs h').
Proof.
  intros s C0 h h' G Hh. assert (LT : HEADER < length (k_nodes s)) by (eapply dnode_lt; eauto).
  unfold kabs, set_rsubs. simpl. f_equal.
  - apply map_ext_in. intros x Hx. rewrite sent_put_node by auto. destruct (sg_node _ _ _ _ _ G x Hx) as [_ [_ [_ [_ [_ [_ X0]]]]]].
    replace (Nat.eqb HEADER x) with false; auto. symmetry. apply Nat.eqb_neq. auto.
  - unfold put_node. simpl. rewrite upd_length. auto.
  - unfold hsubs. rewrite dnode_put_node by auto. rewrite Nat.eqb_refl. auto.
Qed.

Lemma kstep_notify_add : forall rc s C0 k fn ev ud, SG s C0 -> kstep_ok rc s C0 (NotifyAdd k fn ev ud) [].
Proof.
  intros rc s C0 k fn ev ud G. destruct rc as [[e1 e2] e3]. unfold kstep_ok, k_step, a_step. simpl. rewrite (sg_alive _ _ _ _ _ G). simpl.
  unfold k_notify_add, a_notify_add. destruct k as [kk|].
  - destruct (has_bit ev EV_FREE). { exists s, C0, (ORc e1), (ORc e1), []. split; auto. split; auto. split; auto. left. split; auto. all: repeat split; auto. }
    destruct (lookup_k s C0 kk G) as [m [L1 L2]]. rewrite L1. simpl.
    destruct (find_live_sent s C0 kk G) as [F1 F2]. destruct m as [y|].
    + destruct L2 as [Y1 Y2]. destruct (sg_node _ _ _ _ _ G y Y1) as [n [ky [N1 [N2 [N3 [N4 N5]]]]]]. rewrite N1. simpl.
      rewrite (F1 y Y1 Y2). rewrite (sent_node _ _ _ _ N1 N2). simpl.
      destruct (nsub_conflict (sn_subs n) fn ev ud). { exists s, C0, (ORc e3), (ORc e3), []. split; auto. split; auto. split; auto. left. split; auto. all: repeat split; auto. }
      eexists _, C0, (ORc 0), (ORc 0), []. split; [reflexivity|]. split; [|split; [reflexivity|]].
      * f_equal. f_equal. symmetry.
        match goal with |- _ = set_ents _ (upd_entry _ _ ?f) => rewrite (kabs_put_node s C0 y n _ f G Y1 N1) end.
        { rewrite (sent_node _ _ _ _ N1 N2). reflexivity. }
        { simpl. rewrite N2. discriminate. }
        { rewrite sent_put_node by (eapply dnode_lt; eauto). rewrite Nat.eqb_refl. rewrite (sent_node _ _ _ _ N1 N2). simpl. rewrite N2. reflexivity. }
      * left. split; [eapply sgood_put_node; eauto|split; [reflexivity|split; [reflexivity|split; [auto|intros; eapply nkey_put_node; eauto]]]].
    + rewrite (F2 L2). exists s, C0, (ORc e1), (ORc e1), []. split; auto. split; auto. split; auto. left. split; auto. all: repeat split; auto.
  - destruct (sg_hdr _ _ _ _ _ G) as [h [H1 [H2 H3]]]. change (r_subs (kabs s C0)) with (hsubs s). unfold hsubs. unfold HEADER in *. rewrite H1. simpl. rewrite ?H1. simpl.
    destruct (nsub_conflict (sn_subs h) fn ev ud). { exists s, C0, (ORc e3), (ORc e3), []. split; auto. split; auto. split; auto. left. split; auto. all: repeat split; auto. }
    eexists _, C0, (ORc 0), (ORc 0), []. split; [reflexivity|]. split; [|split; [reflexivity|]].
    + f_equal. f_equal. symmetry. erewrite kabs_put_header; eauto.
    + left. split; [eapply sgood_put_node; eauto|split; [reflexivity|split; [reflexivity|split; [auto|intros; eapply nkey_put_node; eauto]]]].
Qed.

Lemma kstep_notify_del : forall rc s C0 k fn ev ud, SG s C0 -> kstep_ok rc s C0 (NotifyDel k fn ev ud) [].
Proof.
  intros rc s C0 k fn ev ud G. destruct rc as [[e1 e2] e3]. unfold kstep_ok, k_step, a_step. simpl. rewrite (sg_alive _ _ _ _ _ G). simpl.
  unfold k_notify_del, a_notify_del. destruct k as [kk|].
  - destruct (lookup_k s C0 kk G) as [m [L1 L2]]. rewrite L1. simpl.
    destruct (find_live_sent s C0 kk G) as [F1 F2]. destruct m as [y|].
    + destruct L2 as [Y1 Y2]. destruct (sg_node _ _ _ _ _ G y Y1) as [n [ky [N1 [N2 [N3 [N4 N5]]]]]]. rewrite N1. simpl.
      rewrite (F1 y Y1 Y2). rewrite (sent_node _ _ _ _ N1 N2). simpl.
      destruct (existsb (nsub_match fn ev ud) (sn_subs n)). 2:{ exists s, C0, (ORc e2), (ORc e2), []. split; auto. split; auto. split; auto. left. split; auto. all: repeat split; auto. }
      eexists _, C0, (ORc 0), (ORc 0), []. split; [reflexivity|]. split; [|split; [reflexivity|]].
      * f_equal. f_equal. symmetry.
        match goal with |- _ = set_ents _ (upd_entry _ _ ?f) => rewrite (kabs_put_node s C0 y n _ f G Y1 N1) end.
        { rewrite (sent_node _ _ _ _ N1 N2). reflexivity. }
        { simpl. rewrite N2. discriminate. }
        { rewrite sent_put_node by (eapply dnode_lt; eauto). rewrite Nat.eqb_refl. rewrite (sent_node _ _ _ _ N1 N2). simpl. rewrite N2. reflexivity. }
      * left. split; [eapply sgood_put_node; eauto|split; [reflexivity|split; [reflexivity|split; [auto|intros; eapply nkey_put_node; eauto]]]].
    + rewrite (F2 L2). exists s, C0, (ORc e2), (ORc e2), []. split; auto. split; auto. split; auto. left. split; auto. all: repeat split; auto.
  - destruct (sg_hdr _ _ _ _ _ G) as [h [H1 [H2 H3]]]. change (r_subs (kabs s C0)) with (hsubs s). unfold hsubs. unfold HEADER in *. rewrite H1. simpl. rewrite ?H1. simpl.
    destruct (existsb (nsub_match fn ev ud) (sn_subs h)). 2:{ exists s, C0, (ORc e2), (ORc e2), []. split; auto. split; auto. split; auto. left. split; auto. all: repeat split; auto. }
    eexists _, C0, (ORc 0), (ORc 0), []. split; [reflexivity|]. split; [|split; [reflexivity|]].
    + f_equal. f_equal. symmetry. erewrite kabs_put_header; eauto.
    + left. split; [eapply sgood_put_node; eauto|split; [reflexivity|split; [reflexivity|split; [auto|intros; eapply nkey_put_node; eauto]]]].
Qed.

(* ---------- canonical position of a key ---------- *)
Lemma levelfact_canon : forall s C0 k lo hi l' x, C0 = lo ++ hi ->
  (forall y, In y lo -> key_ltb (nkey s y) k = true) -> (forall y, In y hi -> key_ltb (nkey s y) k = false) ->
  LevelFact s C0 k l' x -> x = last (HEADER :: chain s lo l') HEADER.
Proof.
  intros s C0 k lo hi l' x E LO HI [pre [T [E2 [PRE [X GE]]]]]. subst x. f_equal. f_equal.
  rewrite E in E2. apply app_eq_app in E2. destruct E2 as [z [[Z1 Z2]|[Z1 Z2]]].
  - (* lo = pre ++ z, T = z ++ hi *)
    subst lo. rewrite chain_app. replace (chain s z l') with (@nil nat). rewrite app_nil_r. auto.
    symmetry. destruct (chain s z l') eqn:C; auto. exfalso.
    assert (In n (chain s z l')) by (rewrite C; left; auto).
    assert (In n z) by (unfold chain in H; apply filter_In in H; apply H).
    assert (key_ltb (nkey s n) k = true) by (apply LO; apply in_or_app; auto).
    assert (key_ltb (nkey s n) k = false). { apply GE. rewrite Z2, chain_app. apply in_or_app. auto. }
    congruence.
  - (* pre = lo ++ z, hi = z ++ T *)
    destruct z. rewrite app_nil_r in Z1. subst; auto. exfalso.
    assert (key_ltb (nkey s n) k = true) by (apply PRE; rewrite Z1; apply in_or_app; right; left; auto).
    assert (key_ltb (nkey s n) k = false) by (apply HI; rewrite Z2; left; auto). congruence.
Qed.

(* ---------- paths: a linked chain split at a node ---------- *)
Fixpoint Path (s : kstate) (l : nat) (x : nat) (rest : list nat) : Prop :=
  match rest with
  | [] => True
  | y :: t => fwd s x l = Ok (Some y) /\ Path s l y t
  end.

Lemma last_cons' : forall {A} (X : list A) a d, last (a :: X) d = last X a.
Proof. induction X; simpl; intros; auto. destruct X; auto. simpl in IHX. apply IHX. Qed.

Lemma last_in : forall {A} (X : list A) a, In (last X a) (a :: X).
Proof. induction X; intros. left; auto. rewrite last_cons'. right. apply IHX. Qed.

Lemma linked_split : forall s l X h Y, Linked s l h (X ++ Y) <-> Path s l h X /\ Linked s l (last X h) Y.
Proof.
  induction X; intros.
  - simpl. tauto.
  - rewrite last_cons'. cbn [app Linked Path]. rewrite IHX. tauto.
Qed.

Lemma path_ext : forall s s' l X h, NoDup (h :: X) ->
  (forall x, In x (h :: X) -> x <> last X h -> fwd s' x l = fwd s x l) -> Path s l h X -> Path s' l h X.
Proof.
  induction X; intros h ND FR P. exact I.
  cbn [Path] in *. destruct P as [P1 P2]. inversion ND; subst. rewrite last_cons' in FR. split.
  - rewrite FR; auto. left; auto. intro Q. apply H1. rewrite Q. apply last_in.
  - apply IHX; auto. intros x Hx Nx. apply FR; auto. right; auto.
Qed.

(* inserting [new] after the last node of X at level l *)
Lemma linked_insert : forall s s' l X h Y new, NoDup (h :: X ++ Y) ->
  Linked s l h (X ++ Y) ->
  (forall x, In x (h :: X ++ Y) -> x <> last X h -> fwd s' x l = fwd s x l) ->
  fwd s' (last X h) l = Ok (Some new) -> fwd s' new l = Ok (hd_error Y) ->
  Linked s' l h (X ++ new :: Y).
Proof.
  intros s s' l X h Y new ND L FR P N. apply linked_split in L. destruct L as [L1 L2]. apply linked_split. split.
  - eapply path_ext. 3: exact L1.
    + rewrite app_comm_cons in ND. eapply nodup_app_l; eauto.
    + intros x Hx Nx. apply FR; auto. rewrite app_comm_cons. apply in_or_app; auto.
  - cbn [Linked]. split; auto. destruct Y; cbn [Linked hd_error] in *; auto. destruct L2 as [L2 L3]. split; auto.
    assert (NL : ~ In (last X h) (n :: Y)).
    { intro Q. rewrite app_comm_cons in ND. eapply nodup_app_disj; eauto. apply last_in. }
    eapply linked_ext. 2: exact L3. intros y Hy. apply FR.
    + rewrite app_comm_cons. apply in_or_app. right. destruct Hy; subst; [left|right]; auto.
    + intro Q. apply NL. rewrite <- Q. destruct Hy; subst; [left|right]; auto.
Qed.

(* removing the node y that follows the last node of X at level l *)
Lemma linked_remove : forall s s' l X h y Y, NoDup (h :: X ++ y :: Y) ->
  Linked s l h (X ++ y :: Y) ->
  (forall x, In x (h :: X ++ Y) -> x <> last X h -> fwd s' x l = fwd s x l) ->
  fwd s' (last X h) l = fwd s y l ->
  Linked s' l h (X ++ Y).
Proof.
  intros s s' l X h y Y ND L FR P. apply linked_split in L. destruct L as [L1 L2]. apply linked_split. split.
  - eapply path_ext. 3: exact L1.
    + rewrite app_comm_cons in ND. eapply nodup_app_l; eauto.
    + intros x Hx Nx. apply FR; auto. rewrite app_comm_cons. apply in_or_app; auto.
  - cbn [Linked] in L2. destruct L2 as [L2 L3].
    assert (NL : ~ In (last X h) Y).
    { intro Q. rewrite app_comm_cons in ND. eapply nodup_app_disj; eauto. apply last_in. right; auto. }
    destruct Y; cbn [Linked] in *.
    + rewrite P. auto.
    + destruct L3 as [L3 L4]. split. rewrite P. auto. eapply linked_ext. 2: exact L4. intros z Hz. apply FR.
      * rewrite app_comm_cons. apply in_or_app. right. destruct Hz; subst; [left|right]; auto.
      * intro Q. apply NL. rewrite <- Q. destruct Hz; subst; [left|right]; auto.
Qed.

(* ---------- node_new ---------- *)
Lemma node_new_spec : forall s level k x s' id, node_new s level k x = (s', id) ->
  id = length (k_nodes s) /\
  k_nodes s' = k_nodes s ++ [{| sc_live := true; sc_node := {| sn_key := k; sn_val := x; sn_level := level; sn_ref := 1; sn_subs := []; sn_fwd := length (k_arrs s) |} |}] /\
  k_arrs s' = k_arrs s ++ [{| fa_live := true; fa_ptrs := repeat None (S LEVEL_MAX) |}] /\
  k_length s' = k_length s /\ k_level s' = k_level s /\ k_iters s' = k_iters s /\ k_used s' = k_used s /\ k_alive s' = k_alive s.
Proof. unfold node_new. intros. inversion H; subst. simpl. repeat split; auto. Qed.

Lemma dnode_app_old : forall s s' c x, k_nodes s' = k_nodes s ++ [c] -> x < length (k_nodes s) -> dnode s' x = dnode s x.
Proof. intros. unfold dnode. rewrite H, nth_error_app1; auto. Qed.
Lemma dnode_app_new : forall s s' n, k_nodes s' = k_nodes s ++ [{| sc_live := true; sc_node := n |}] -> dnode s' (length (k_nodes s)) = Ok n.
Proof. intros. unfold dnode. rewrite H, nth_error_app2 by lia. rewrite Nat.sub_diag. reflexivity. Qed.
Lemma darr_app_old : forall s s' c a, k_arrs s' = k_arrs s ++ [c] -> a < length (k_arrs s) -> darr s' a = darr s a.
Proof. intros. unfold darr. rewrite H, nth_error_app1; auto. Qed.
Lemma darr_app_new : forall s s' l, k_arrs s' = k_arrs s ++ [{| fa_live := true; fa_ptrs := l |}] -> darr s' (length (k_arrs s)) = Ok l.
Proof. intros. unfold darr. rewrite H, nth_error_app2 by lia. rewrite Nat.sub_diag. reflexivity. Qed.

Lemma fwd_app_old : forall s s' c1 c2 x m l, k_nodes s' = k_nodes s ++ [c1] -> k_arrs s' = k_arrs s ++ [c2] ->
  dnode s x = Ok m -> sn_fwd m < length (k_arrs s) -> fwd s' x l = fwd s x l.
Proof.
  intros. unfold fwd. rewrite (dnode_app_old s s' c1 x H) by (eapply dnode_lt; eauto). rewrite H1. simpl.
  rewrite (darr_app_old s s' c2 _ H0); auto.
Qed.

Lemma same_rest_trans : forall a b c, same_rest a b -> same_rest b c -> same_rest a c.
Proof. unfold same_rest. intros a b c [A1 [A2 [A3 [A4 [A5 A6]]]]] [B1 [B2 [B3 [B4 [B5 B6]]]]]. repeat split; congruence. Qed.

(* ---------- the linking loop of skiplist_put ---------- *)
Definition sub_universe (U : list nat) (s : kstate) : Prop := forall x, In x U -> exists m, dnode s x = Ok m.

Lemma link_ok : forall cnt i s u U new lo hi,
  i + cnt <= S LEVEL_MAX -> Own s U -> sub_universe U s -> In new U -> In HEADER U -> (forall x, In x (lo ++ hi) -> In x U) ->
  NoDup (new :: HEADER :: lo ++ hi) ->
  (forall l, i <= l -> l <= LEVEL_MAX -> Linked s l HEADER (chain s lo l ++ chain s hi l)) ->
  (forall l, i <= l -> l < i + cnt -> uv_get u l = Some (last (chain s lo l) HEADER)) ->
  exists s', link_levels s u new (seq i cnt) = Ok s' /\ same_rest s s' /\ Own s' U /\
    (forall l x, l < i \/ i + cnt <= l -> In x U -> fwd s' x l = fwd s x l) /\
    (forall l, i <= l -> l < i + cnt -> Linked s' l HEADER (chain s lo l ++ new :: chain s hi l)).
Proof.
  induction cnt; intros i s u U new lo hi Hc O SU Hn Hh HU ND LK UV.
  - simpl. exists s. split; auto. split. repeat split. split; auto. split; auto. intros. lia.
  - cbn [seq link_levels]. rewrite (UV i) by lia.
    set (p := last (chain s lo i) HEADER).
    assert (PU : In p U).
    { pose proof (last_in (chain s lo i) HEADER) as Q0. fold p in Q0. destruct Q0 as [Q|Q]. rewrite <- Q. auto.
      apply HU. apply in_or_app. left. unfold chain in Q. apply filter_In in Q. apply Q. }
    assert (Li : i <= LEVEL_MAX) by (unfold LEVEL_MAX in *; lia).
    generalize (LK i (le_n i) Li). intro L0. apply linked_split in L0. destruct L0 as [L1 L2]. fold p in L2.
    rewrite (linked_head _ _ _ _ L2). cbn [bind].
    destruct (set_fwd_own s U new i (hd_error (chain s hi i)) O Hn (SU new Hn) Li) as [sa [A1 [A2 [A3 A4]]]]. rewrite A1. cbn [bind].
    assert (SUa : sub_universe U sa). { intros x Hx. destruct A2 as [A2 _]. unfold dnode. rewrite A2. apply SU; auto. }
    destruct (set_fwd_own sa U p i (Some new) A3 PU (SUa p PU) Li) as [sb [B1 [B2 [B3 B4]]]]. rewrite B1. cbn [bind].
    assert (SUb : sub_universe U sb). { intros x Hx. destruct B2 as [B2 _]. unfold dnode. rewrite B2. apply SUa; auto. }
    assert (NE : p <> new).
    { intro Q. assert (NN : ~ In new (HEADER :: lo ++ hi)) by (inversion ND; auto). apply NN. rewrite <- Q.
      pose proof (last_in (chain s lo i) HEADER) as Q0. fold p in Q0. destruct Q0 as [Q2|Q2]. left; auto.
      right. apply in_or_app. left. unfold chain in Q2. apply filter_In in Q2. apply Q2. }
    (* reading after the two stores *)
    assert (RD : forall x l, In x U -> fwd sb x l =
              if Nat.eqb x p && Nat.eqb i l then Ok (Some new)
              else if Nat.eqb x new && Nat.eqb i l then Ok (hd_error (chain s hi i)) else fwd s x l).
    { intros x l Hx. rewrite (B4 x l Hx (SUa x Hx)). destruct (Nat.eqb x p && Nat.eqb i l); auto. }
    assert (CHb : forall X l, chain sb X l = chain s X l).
    { intros. unfold chain. apply filter_ext_in'. intros. unfold at_level, nlvl, dnode. destruct A2 as [A2 _]. destruct B2 as [B2 _]. rewrite B2, A2. auto. }
    destruct (IHcnt (S i) sb u U new lo hi) as [s' [E1 [E2 [E3 [E4 E5]]]]]; auto; try lia.
    { intros l Hl1 Hl2. rewrite !CHb. apply (linked_ext s). 2: apply LK; lia.
      intros y Hy. rewrite RD. replace (Nat.eqb i l) with false by (symmetry; apply Nat.eqb_neq; lia). rewrite !andb_false_r. auto.
      destruct Hy as [Hy|Hy]. subst. auto. apply HU. apply in_app_or in Hy. apply in_or_app.
      destruct Hy as [Hy|Hy]; [left|right]; unfold chain in Hy; apply filter_In in Hy; apply Hy. }
    { intros l Hl1 Hl2. rewrite CHb. apply UV; lia. }
    assert (NDU : NoDup (HEADER :: chain s lo i ++ chain s hi i)).
    { assert (N1 : NoDup (HEADER :: lo ++ hi)) by (inversion ND; auto). inversion N1; subst. constructor.
      - intro Q. apply H1. unfold chain in Q. rewrite <- filter_app in Q. apply filter_In in Q. apply Q.
      - unfold chain. rewrite <- filter_app. apply NoDup_filter. auto. }
    assert (INU : forall x, In x (HEADER :: chain s lo i ++ chain s hi i) -> In x U /\ x <> new).
    { intros x Hx. assert (In x (HEADER :: lo ++ hi)).
      { destruct Hx as [Hx|Hx]. left; auto. right. unfold chain in Hx. rewrite <- filter_app in Hx. apply filter_In in Hx. apply Hx. }
      split. destruct H; subst; auto. intro Q. subst x. inversion ND; subst. contradiction. }
    assert (LKi : Linked sb i HEADER (chain s lo i ++ new :: chain s hi i)).
    { apply (linked_insert s sb i (chain s lo i) HEADER (chain s hi i) new NDU (LK i (le_n i) Li)).
      - intros x Hx Nx. destruct (INU x Hx) as [I1 I2]. rewrite RD by auto. fold p in Nx.
        replace (Nat.eqb x p) with false by (symmetry; apply Nat.eqb_neq; auto).
        replace (Nat.eqb x new) with false by (symmetry; apply Nat.eqb_neq; auto). reflexivity.
      - fold p. rewrite RD by auto. rewrite !Nat.eqb_refl. reflexivity.
      - rewrite RD by auto. replace (Nat.eqb new p) with false by (symmetry; apply Nat.eqb_neq; auto). rewrite !Nat.eqb_refl. reflexivity. }
    exists s'. split; auto. split.
    { eapply same_rest_trans. exact A2. eapply same_rest_trans. exact B2. exact E2. }
    split; auto. split.
    { intros l x Hl Hx. rewrite E4 by (auto; lia). rewrite RD by auto.
      replace (Nat.eqb i l) with false by (symmetry; apply Nat.eqb_neq; lia). rewrite !andb_false_r. reflexivity. }
    intros l Hl1 Hl2. destruct (Nat.eq_dec l i).
    { subst l. apply (linked_ext sb). 2: exact LKi. intros y Hy. apply E4. left; lia.
      destruct Hy as [Hy|Hy]. subst; auto. apply in_app_or in Hy. destruct Hy as [Hy|[Hy|Hy]].
      - apply INU. right. apply in_or_app; auto.
      - subst; auto.
      - apply INU. right. apply in_or_app; auto. }
    { generalize (E5 l). rewrite !CHb. intro Q. apply Q; lia. }
Qed.

(* ---------- helpers for put ---------- *)
Lemma own_incl : forall s U V, Own s U -> (forall x, In x V -> In x U) -> Own s V.
Proof. intros s U V [A B] H. constructor; intros; eauto. Qed.

Lemma ss_insert : forall {A} (R : A -> A -> Prop) lo hi x, StronglySorted R (lo ++ hi) ->
  (forall a, In a lo -> R a x) -> (forall b, In b hi -> R x b) -> StronglySorted R (lo ++ x :: hi).
Proof.
  induction lo; simpl; intros.
  - constructor; auto. apply Forall_forall. auto.
  - inversion H; subst. constructor.
    + apply IHlo; auto.
    + apply Forall_forall. intros y Hy. apply in_app_or in Hy. destruct Hy as [Hy|[Hy|Hy]].
      * eapply Forall_forall in H5; eauto. apply in_or_app; auto.
      * subst. auto.
      * eapply Forall_forall in H5; eauto. apply in_or_app; auto.
Qed.

Lemma uv_get_app_hdr_in : forall n a u l h, a <= l -> l < a + n ->
  uv_get (map (fun l0 => (l0, h)) (seq a n) ++ u) l = Some h.
Proof.
  induction n; intros; simpl. lia. rewrite uv_get_cons. destruct (Nat.eqb a l) eqn:E; auto.
  apply Nat.eqb_neq in E. apply IHn; lia.
Qed.
Lemma uv_get_app_hdr_out : forall n a u l h, (l < a \/ a + n <= l) ->
  uv_get (map (fun l0 => (l0, h)) (seq a n) ++ u) l = uv_get u l.
Proof.
  induction n; intros; simpl; auto. rewrite uv_get_cons. replace (Nat.eqb a l) with false by (symmetry; apply Nat.eqb_neq; lia).
  apply IHn. lia.
Qed.

Lemma new_level_le : forall o, new_level o <= LEVEL_MAX.
Proof. intros. unfold new_level. apply Nat.le_min_r. Qed.

(* two states with the same heaps read the same *)
Lemma same_heaps_fwd : forall s s1 x l, k_nodes s1 = k_nodes s -> k_arrs s1 = k_arrs s -> fwd s1 x l = fwd s x l.
Proof. intros. unfold fwd, dnode, darr. rewrite H, H0. reflexivity. Qed.
Lemma same_nodes_dnode : forall s s1 x, k_nodes s1 = k_nodes s -> dnode s1 x = dnode s x.
Proof. intros. unfold dnode. rewrite H. reflexivity. Qed.

(* the tail of skiplist_put once the position is known *)
Lemma put_new_tail : forall s C0 s1 u1 k x nl lo hi,
  SG s C0 -> RP (length (k_nodes s)) 1 -> C0 = lo ++ hi ->
  (forall y, In y lo -> key_ltb (nkey s y) k = true) -> (forall y, In y hi -> key_ltb k (nkey s y) = true) ->
  nl <= LEVEL_MAX ->
  k_nodes s1 = k_nodes s -> k_arrs s1 = k_arrs s -> k_length s1 = k_length s -> k_iters s1 = k_iters s ->
  k_used s1 = k_used s -> k_alive s1 = k_alive s -> k_level s1 = Z.max (k_level s) (Z.of_nat nl) ->
  (forall l, l <= nl -> uv_get u1 l = Some (last (chain s lo l) HEADER)) ->
  let new := length (k_nodes s) in
  exists s' ns,
    (let '(s2, id) := node_new s1 (Z.of_nat nl) (Some k) x in
     do n <- dnode s2 id; do ns <- k_notify s2 n EV_INSERTED k 0%N x;
     do s3 <- link_levels s2 u1 id (seq 0 (S nl)); Ok (set_length s3 (wrap64 (k_length s3 + 1)), ns)) = Ok (s', ns) /\
    SG s' (lo ++ new :: hi) /\
    ns = notify_global (hsubs s) EV_INSERTED k 0%N x /\
    (forall y, In y C0 -> sent s' y = sent s y) /\
    sent s' new = {| re_id := new - 1; re_key := k; re_val := x; re_removed := false; re_subs := [] |} /\
    length (k_nodes s') = S new /\ hsubs s' = hsubs s /\ k_used s' = k_used s /\ k_iters s' = k_iters s.
Proof.
  intros s C0 s1 u1 k x nl lo hi G RPN E LO HI Hnl N1 A1 LEN1 IT1 US1 AL1 LV1 UV new.
  destruct (node_new s1 (Z.of_nat nl) (Some k) x) as [s2 id] eqn:NN.
  destruct (node_new_spec _ _ _ _ _ _ NN) as [ID [N2 [A2 [LEN2 [LV2 [IT2 [US2 AL2]]]]]]].
  rewrite N1 in ID, N2. rewrite A1 in N2, A2. fold new in ID. subst id.
  set (nn := {| sn_key := Some k; sn_val := x; sn_level := Z.of_nat nl; sn_ref := 1; sn_subs := []; sn_fwd := length (k_arrs s) |}) in *.
  assert (DN : dnode s2 new = Ok nn) by (apply (dnode_app_new s s2 nn N2)).
  assert (OLDN : forall y, y < new -> dnode s2 y = dnode s y) by (intros; eapply dnode_app_old; eauto).
  destruct (sg_hdr _ _ _ _ _ G) as [h [H1 [H2 H3]]].
  assert (HLT : HEADER < new) by (eapply dnode_lt; eauto).
  assert (CLT : forall y, In y C0 -> y < new). { intros y Hy. destruct (sg_node _ _ _ _ _ G y Hy) as [m [ky [M1 _]]]. eapply dnode_lt; eauto. }
  assert (CLTZ : forall y, In y Zs -> y < new). { intros y Hy. destruct (sg_z _ _ _ _ _ G y Hy) as [[m [M1 _]] _]. eapply dnode_lt; eauto. }
  assert (CLTU : forall y, In y (C0 ++ Zs) -> y < new). { intros y Hy. apply in_app_or in Hy. destruct Hy; auto. }
  destruct (sg_own _ _ _ _ _ G) as [OA OI].
  assert (ARR : forall y m, In y (HEADER :: C0 ++ Zs) -> dnode s y = Ok m -> sn_fwd m < length (k_arrs s)).
  { intros y m Hy M. destruct (OA y m Hy M) as [a [Q _]]. eapply darr_lt; eauto. }
  assert (OLDF : forall y l, (y = HEADER \/ In y C0) -> fwd s2 y l = fwd s y l).
  { intros y l Hy. assert (exists m, dnode s y = Ok m). { destruct Hy. subst; eauto. destruct (sg_node _ _ _ _ _ G y H) as [m [ky [M1 _]]]; eauto. }
    destruct H as [m M]. eapply fwd_app_old; eauto. apply (ARR y m); auto. destruct Hy; [left|right]; auto. apply in_or_app; auto. }
  assert (NEWF : forall l, l <= LEVEL_MAX -> fwd s2 new l = Ok None).
  { intros. unfold fwd. rewrite DN. cbn [bind]. change (sn_fwd nn) with (length (k_arrs s)). rewrite (darr_app_new s s2 _ A2). cbn [bind].
    rewrite nth_error_repeat by (unfold LEVEL_MAX in *; lia). reflexivity. }
  rewrite DN. cbn [bind]. unfold k_notify. rewrite (OLDN HEADER HLT), H1. cbn [bind]. simpl sn_subs. cbn [notify_node flat_map app].
  (* universe *)
  set (U := new :: HEADER :: C0 ++ Zs).
  assert (OWN2 : Own s2 U).
  { constructor.
    - intros y m Hy M. destruct Hy as [Hy|Hy].
      + subst y. rewrite DN in M. inversion M; subst m. simpl. rewrite (darr_app_new s s2 _ A2). eexists. split; [reflexivity|]. apply repeat_length.
      + assert (y < new) by (destruct Hy; [subst; auto | apply CLTU; auto]). rewrite OLDN in M by auto.
        destruct (OA y m Hy M) as [a [Q1 Q2]]. exists a. split; auto. rewrite (darr_app_old s s2 _ _ A2); auto. eapply darr_lt; eauto.
    - intros y z m1 m2 Hy Hz M1 M2 Q. destruct Hy as [Hy|Hy], Hz as [Hz|Hz]; try congruence.
      + subst y. rewrite DN in M1. inversion M1; subst m1. simpl in Q.
        assert (z < new) by (destruct Hz; [subst; auto | apply CLTU; auto]). rewrite OLDN in M2 by auto.
        assert (sn_fwd m2 < length (k_arrs s)) by (apply (ARR z m2 Hz M2)). lia.
      + subst z. rewrite DN in M2. inversion M2; subst m2. simpl in Q.
        assert (y < new) by (destruct Hy; [subst; auto | apply CLTU; auto]). rewrite OLDN in M1 by auto.
        assert (sn_fwd m1 < length (k_arrs s)) by (apply (ARR y m1 Hy M1)). lia.
      + assert (y < new) by (destruct Hy; [subst; auto | apply CLTU; auto]).
        assert (z < new) by (destruct Hz; [subst; auto | apply CLTU; auto]). rewrite OLDN in M1, M2 by auto. eapply OI; eauto. }
  assert (SU2 : sub_universe U s2).
  { intros y [Hy|[Hy|Hy]]. subst; eauto. subst. rewrite OLDN by auto. eauto.
    rewrite OLDN by (apply CLTU; auto). apply in_app_or in Hy. destruct Hy as [Hy|Hy].
    destruct (sg_node _ _ _ _ _ G y Hy) as [m [ky [M1 _]]]; eauto. destruct (sg_z _ _ _ _ _ G y Hy) as [[m [M1 _]] _]; eauto. }
  assert (CH2 : forall X l, (forall y, In y X -> In y C0) -> chain s2 X l = chain s X l).
  { intros. unfold chain. apply filter_ext_in'. intros y Hy. unfold at_level, nlvl. rewrite OLDN by (apply CLT; auto). auto. }
  assert (LOC : forall y, In y lo -> In y C0) by (intros; rewrite E; apply in_or_app; auto).
  assert (HIC : forall y, In y hi -> In y C0) by (intros; rewrite E; apply in_or_app; auto).
  assert (NDC : NoDup C0) by (eapply sgood_nodup; eauto).
  assert (HNC : ~ In HEADER C0). { intro Q. destruct (sg_node _ _ _ _ _ G HEADER Q) as [_ [_ [_ [_ [_ [_ Q2]]]]]]. congruence. }
  destruct (link_ok (S nl) 0 s2 u1 U new lo hi) as [s3 [K1 [K2 [K3 [K4 K5]]]]]; auto.
  { unfold LEVEL_MAX in *. lia. }
  { left; auto. }
  { right; left; auto. }
  { intros y Hy. right. right. apply in_or_app. left. rewrite E. auto. }
  { constructor. intros [Q|Q]. unfold new, HEADER in *. lia. rewrite <- E in Q. apply CLT in Q. unfold new in Q. lia.
    constructor. rewrite <- E. auto. rewrite <- E. auto. }
  { intros l _ Hl. rewrite !CH2 by auto. generalize (sg_linked _ _ _ _ _ G l Hl). rewrite E, chain_app. intro Q.
    apply (linked_ext s). 2: exact Q. intros y Hy. apply OLDF. destruct Hy as [Hy|Hy]; auto. right. rewrite E.
    apply in_app_or in Hy. apply in_or_app. destruct Hy as [Hy|Hy]; [left|right]; unfold chain in Hy; apply filter_In in Hy; apply Hy. }
  { intros l _ Hl. rewrite CH2 by auto. apply UV. lia. }
  rewrite K1. cbn [bind]. destruct K2 as [KN [KL [KV [KI [KU KA]]]]].
  eexists _, _. split; [reflexivity|]. 
  assert (OLD3 : forall y, y < new -> dnode (set_length s3 (wrap64 (k_length s3 + 1))) y = dnode s y).
  { intros. unfold dnode. simpl. rewrite KN. apply OLDN; auto. }
  assert (NEW3 : dnode (set_length s3 (wrap64 (k_length s3 + 1))) new = Ok nn) by (unfold dnode; simpl; rewrite KN; exact DN).
  set (s' := set_length s3 (wrap64 (k_length s3 + 1))) in *.
  assert (FW3 : forall y l, fwd s' y l = fwd s3 y l) by reflexivity.
  assert (KEYO : forall y, y < new -> nkey s' y = nkey s y) by (intros; unfold nkey; rewrite OLD3; auto).
  assert (KEYN : nkey s' new = k) by (unfold nkey; rewrite NEW3; reflexivity).
  assert (LVO : forall y, y < new -> nlvl s' y = nlvl s y) by (intros; unfold nlvl; rewrite OLD3; auto).
  assert (LVN : nlvl s' new = nl) by (unfold nlvl; rewrite NEW3; simpl; apply Nat2Z.id).
  assert (CH3 : forall X l, (forall y, In y X -> In y C0) -> chain s' X l = chain s X l).
  { intros. unfold chain. apply filter_ext_in'. intros y Hy. unfold at_level. rewrite LVO by (apply CLT; auto). auto. }
  assert (CHN : forall l, chain s' (lo ++ new :: hi) l = chain s lo l ++ (if Nat.leb l nl then [new] else []) ++ chain s hi l).
  { intros. rewrite chain_app. rewrite CH3 by auto. f_equal. unfold chain at 1. cbn [filter]. unfold at_level at 1. rewrite LVN.
    fold (chain s' hi l). rewrite CH3 by auto. destruct (Nat.leb l nl); reflexivity. }
  assert (LVMAX : k_level s' = Z.max (k_level s) (Z.of_nat nl)). { unfold s'. simpl. rewrite KV, LV2. exact LV1. }
  split.
  { constructor.
    - exists h. rewrite OLD3 by auto. auto.
    - intros y Hy. apply in_app_or in Hy. destruct Hy as [Hy|[Hy|Hy]].
      + destruct (sg_node _ _ _ _ _ G y (LOC y Hy)) as [m [ky [M1 [M2 [M3 [M4 M5]]]]]]. exists m, ky. rewrite OLD3 by (apply CLT; auto). rewrite LVMAX. repeat split; auto; lia.
      + subst y. exists nn, k. rewrite NEW3, LVMAX. simpl. repeat split; auto; try lia; unfold new, HEADER in *; lia.
      + destruct (sg_node _ _ _ _ _ G y (HIC y Hy)) as [m [ky [M1 [M2 [M3 [M4 M5]]]]]]. exists m, ky. rewrite OLD3 by (apply CLT; auto). rewrite LVMAX. repeat split; auto; lia.
    - apply (own_incl s' U).
      + destruct K3 as [KA1 KA2]. constructor.
        * intros y m Hy M. apply (KA1 y m Hy). exact M.
        * intros y z m1 m2 Hy Hz M1 M2. apply (KA2 y z m1 m2 Hy Hz M1 M2).
      + intros y [Hy|Hy]. subst. right; left; auto. apply in_app_or in Hy. destruct Hy as [Hy|Hy].
        apply in_app_or in Hy. destruct Hy as [Hy|[Hy|Hy]].
        right; right; apply in_or_app; auto. subst; left; auto. right; right; apply in_or_app; auto.
        right; right; apply in_or_app; auto.
    - intros z Hz. destruct (sg_z _ _ _ _ _ G z Hz) as [[m [M1 M2]] [Z1 Z2]]. split; [|split; auto].
      + exists m. rewrite OLD3 by auto. auto.
      + intro Q. apply in_app_or in Q. destruct Q as [Q|[Q|Q]]. apply Z2; auto. apply CLTZ in Hz. lia. apply Z2; auto.
    - apply ss_insert.
      + eapply ss_ext. 2:{ rewrite <- E. apply (sg_sorted _ _ _ _ _ G). } intros a b Ha Hb. unfold klt. rewrite <- E in Ha, Hb.
        rewrite !KEYO by (apply CLT; auto). auto.
      + intros a Ha. unfold klt. rewrite KEYN, KEYO by (apply CLT; auto). auto.
      + intros b Hb. unfold klt. rewrite KEYN, KEYO by (apply CLT; auto). auto.
    - intros l Hl. rewrite CHN. destruct (Nat.leb l nl) eqn:LE.
      + apply Nat.leb_le in LE. generalize (K5 l (Nat.le_0_l l)). rewrite !CH2 by auto. intro Q. cbn [app]. apply (linked_ext s3); [intros; apply FW3|]. apply Q. lia.
      + apply Nat.leb_gt in LE. cbn [app]. generalize (sg_linked _ _ _ _ _ G l Hl). rewrite E, chain_app. intro Q.
        apply (linked_ext s). 2: exact Q. intros y Hy. rewrite FW3. rewrite K4.
        * apply OLDF. destruct Hy as [Hy|Hy]; auto. right. rewrite E. apply in_app_or in Hy. apply in_or_app.
          destruct Hy as [Hy|Hy]; [left|right]; unfold chain in Hy; apply filter_In in Hy; apply Hy.
        * right. lia.
        * destruct Hy as [Hy|Hy]. subst. right; left; auto. right; right. apply in_or_app. left. rewrite E. apply in_app_or in Hy. apply in_or_app.
          destruct Hy as [Hy|Hy]; [left|right]; unfold chain in Hy; apply filter_In in Hy; apply Hy.
    - rewrite LVMAX. generalize (sg_level _ _ _ _ _ G). unfold LEVEL_MAX in *. lia.
    - unfold s'. simpl. rewrite KL, LEN2, LEN1, (sg_length _ _ _ _ _ G), wrap64_succ. f_equal. rewrite E, !app_length. simpl. lia.
    - unfold s'. simpl. rewrite KA, AL2, AL1. apply (sg_alive _ _ _ _ _ G).
    - intros h0. rewrite OLD3 by auto. apply (sg_hlvl _ _ _ _ _ G). }
  split. { unfold hsubs. rewrite H1. reflexivity. }
  split. { intros y Hy. unfold sent. rewrite OLD3 by (apply CLT; auto). auto. }
  split. { unfold sent. rewrite NEW3. reflexivity. }
  split. { unfold s'. simpl. rewrite KN, N2, app_length. simpl. unfold new. lia. }
  split. { unfold hsubs. rewrite OLD3 by auto. auto. }
  split. { unfold s'. simpl. rewrite KU, US2, US1. auto. }
  unfold s'. simpl. rewrite KI, IT2, IT1. auto.
Qed.

Lemma chain_empty_above : forall s C0 X l, SG s C0 -> (forall y, In y X -> In y C0) -> (k_level s < Z.of_nat l)%Z -> chain s X l = [].
Proof.
  intros. unfold chain. destruct (filter (at_level s l) X) eqn:F; auto. exfalso.
  assert (In n (filter (at_level s l) X)) by (rewrite F; left; auto). apply filter_In in H2. destruct H2 as [I1 I2].
  destruct (sg_node _ _ _ _ _ H n (H0 n I1)) as [m [ky [M1 [_ [_ [M4 _]]]]]]. unfold at_level, nlvl in I2. rewrite M1 in I2. apply Nat.leb_le in I2. lia.
Qed.

Lemma kstep_put : forall rc s C0 k x orc, SG s C0 -> RP (length (k_nodes s)) 1 -> kstep_ok rc s C0 (Put k x) orc.
Proof.
  intros rc s C0 k x orc G RPN. destruct rc as [[e1 e2] e3]. unfold kstep_ok, k_step, a_step. simpl. rewrite (sg_alive _ _ _ _ _ G). simpl.
  unfold k_put, a_put. destruct (search_top s C0 true k G) as [R [R1 R2]]. rewrite R1. cbn [bind].
  destruct (find_live_sent s C0 k G) as [F1 F2].
  destruct R2 as [[_ [y [Y0 [Y1 Y2]]]]|[[c [u [T1 [T2 [T3 T4]]]]] AB]].
  - (* replacement *)
    destruct R as [[m c] u]. simpl in Y0. subst m. cbn beta iota.
    destruct (sg_node _ _ _ _ _ G y Y1) as [n [ky [N1 [N2 [N3 [N4 N5]]]]]]. rewrite N1. cbn [bind]. rewrite N2.
    assert (KY : ky = k) by (rewrite <- Y2; symmetry; eapply nkey_some; eauto). subst ky.
    assert (LT : y < length (k_nodes s)) by (eapply dnode_lt; eauto).
    unfold k_notify. rewrite dnode_put_node by auto. replace (Nat.eqb y HEADER) with false by (symmetry; apply Nat.eqb_neq; auto).
    destruct (sg_hdr _ _ _ _ _ G) as [h [H1 _]]. rewrite H1. cbn [bind].
    change (r_ents (kabs s C0)) with (map (sent s) C0). rewrite (F1 y Y1 Y2). rewrite (sent_node _ _ _ _ N1 N2). simpl.
    eexists _, C0, ONone, ONone, _. split; [reflexivity|]. split; [|split; [reflexivity|]].
    + f_equal. f_equal.
      * symmetry. match goal with |- _ = set_ents _ (upd_entry _ _ ?f) => rewrite (kabs_put_node s C0 y n _ f G Y1 N1) end.
        { rewrite (sent_node _ _ _ _ N1 N2). reflexivity. }
        { simpl. discriminate. }
        { rewrite sent_put_node by auto. rewrite Nat.eqb_refl. simpl. reflexivity. }
      * unfold r_notify. simpl. unfold hsubs. rewrite H1. reflexivity.
    + left. split; [eapply sgood_put_node; eauto|split; [reflexivity|split; [reflexivity|split; [auto|intros; eapply nkey_put_node; eauto]]]].
  - (* insertion *)
    subst R. cbn beta iota.
    change (find_live (r_ents (kabs s C0)) k) with (find_live (map (sent s) C0) k). rewrite (F2 (AB eq_refl)).
    destruct T2 as [lo [hi [E [LO [_ HI0]]]]]. rewrite chain_level0 in HI0.
    assert (HI : forall y, In y hi -> key_ltb k (nkey s y) = true).
    { intros y Hy. apply key_ltb_total; [apply HI0; auto | apply key_eqb_neq; apply (AB eq_refl); rewrite E; apply in_or_app; auto]. }
    assert (LOC : forall y, In y lo -> In y C0) by (intros; rewrite E; apply in_or_app; auto).
    set (nl := new_level orc). assert (Hnl : nl <= LEVEL_MAX) by apply new_level_le.
    (* the update vector, whatever the branch *)
    assert (UVB : forall l, (Z.of_nat l <= k_level s)%Z -> uv_get u l = Some (last (chain s lo l) HEADER)).
    { intros l Hl. destruct (T3 l Hl) as [xx [X1 X2]]. rewrite X1. f_equal.
      rewrite (levelfact_canon s C0 k lo hi l xx E LO HI0 X2). apply last_cons'. }
    assert (TAIL : forall s1 u1,
      k_nodes s1 = k_nodes s -> k_arrs s1 = k_arrs s -> k_length s1 = k_length s -> k_iters s1 = k_iters s ->
      k_used s1 = k_used s -> k_alive s1 = k_alive s -> k_level s1 = Z.max (k_level s) (Z.of_nat nl) ->
      (forall l, l <= nl -> uv_get u1 l = Some (last (chain s lo l) HEADER)) ->
      exists s' C0' x0 x' ns,
        (do ' (s'0, ns0) <- (let '(s2, id) := node_new s1 (Z.of_nat nl) (Some k) x in
           do n <- dnode s2 id; do ns1 <- k_notify s2 n EV_INSERTED k 0%N x;
           do s3 <- link_levels s2 u1 id (seq 0 (S nl)); Ok (set_length s3 (wrap64 (k_length s3 + 1)), ns1)); Ok (s'0, ONone, ns0)) = Ok (s', x0, ns) /\
        (let '(r', ns0) :=
           ({| r_ents := ins_before (fun y => skip_before k (re_key y))
                           {| re_id := r_next (kabs s C0); re_key := k; re_val := x; re_removed := false; re_subs := [] |} (r_ents (kabs s C0));
               r_next := S (r_next (kabs s C0)); r_subs := r_subs (kabs s C0); r_iters := r_iters (kabs s C0);
               r_used := r_used (kabs s C0); r_alive := r_alive (kabs s C0) |},
            r_notify (kabs s C0) {| re_id := r_next (kabs s C0); re_key := k; re_val := x; re_removed := false; re_subs := [] |} EV_INSERTED k 0%N x) in
         (r', ONone, ns0)) = (kabs s' C0', x', ns) /\ x0 = out_wrap x' /\
        ((SG s' C0' /\ k_iters s' = k_iters s /\ k_used s' = k_used s /\
          (forall y n, In y C0 -> dnode s y = Ok n -> sn_ref n <> 1 \/ (forall k0, Put k x <> Rm k0) -> In y C0') /\
          (forall y, In y C0 -> In y C0' -> nkey s' y = nkey s y)) \/ k_alive s' = false)).
    { intros s1 u1 N1 A1 LEN1 IT1 US1 AL1 LV1 UV1.
      destruct (put_new_tail s C0 s1 u1 k x nl lo hi G RPN E LO HI Hnl N1 A1 LEN1 IT1 US1 AL1 LV1 UV1)
        as [s' [ns [P1 [P2 [P3 [P4 [P5 [P6 [P7 [P8 P9]]]]]]]]]].
      rewrite P1. cbn [bind].
      exists s', (lo ++ length (k_nodes s) :: hi), ONone, ONone, ns. split; [reflexivity|]. split; [|split; [reflexivity|left; split; auto; split; auto; split; auto; split;
        [intros y0 n0 Hy0 _ _; rewrite E in Hy0; apply in_app_or in Hy0; apply in_or_app; destruct Hy0; auto; right; right; auto
        |intros y0 Hy0 _; rewrite <- !sent_key; rewrite P4; auto]]].
      f_equal. f_equal.
      - unfold kabs. simpl. f_equal.
        + rewrite E. rewrite !map_app. simpl. rewrite ins_before_app.
          * f_equal. symmetry. apply map_ext_in. intros y Hy. apply P4. rewrite E. apply in_or_app; auto.
            f_equal. rewrite P5. reflexivity. symmetry. apply map_ext_in. intros y Hy. apply P4. rewrite E. apply in_or_app; auto.
          * intros e He. apply in_map_iff in He. destruct He as [y [Q1 Q2]]. subst e. rewrite sent_key. unfold skip_before. rewrite LO; auto.
          * intros e He. apply in_map_iff in He. destruct He as [y [Q1 Q2]]. subst e. rewrite sent_key. unfold skip_before. rewrite HI0; auto.
        + rewrite P6. destruct (sg_hdr _ _ _ _ _ G) as [h [H1 _]]. apply dnode_lt in H1. unfold HEADER in H1. lia.
        + auto.
        + auto.
        + first [symmetry; apply (sg_alive _ _ _ _ _ P2) | rewrite (sg_alive _ _ _ _ _ P2); rewrite ?(sg_alive _ _ _ _ _ G); reflexivity].
      - rewrite P3. unfold r_notify. simpl. reflexivity. }
    destruct (Z.ltb (k_level s) (Z.of_nat nl)) eqn:LT.
    + apply Z.ltb_lt in LT. apply TAIL; auto.
      * simpl. lia.
      * intros l Hl. generalize (sg_level _ _ _ _ _ G). intro LVB.
        destruct (Z_le_dec (Z.of_nat l) (k_level s)).
        { rewrite uv_get_app_hdr_out. apply UVB; auto. left. lia. }
        { rewrite uv_get_app_hdr_in by lia. rewrite (chain_empty_above s C0 lo l G LOC) by lia. reflexivity. }
    + apply Z.ltb_ge in LT. apply TAIL; auto.
      * lia.
      * intros l Hl. apply UVB. lia.
Qed.

(* ---------- the splice loop of skiplist_rm ---------- *)
Lemma splice_ok : forall cnt i s u U y lo hi',
  i + cnt <= S LEVEL_MAX -> Own s U -> sub_universe U s -> In y U -> In HEADER U -> (forall x, In x (lo ++ y :: hi') -> In x U) ->
  NoDup (HEADER :: lo ++ y :: hi') ->
  (forall l, i <= l -> l <= LEVEL_MAX -> Linked s l HEADER (chain s lo l ++ chain s (y :: hi') l)) ->
  (forall l, i <= l -> l < i + cnt -> uv_get u l = Some (last (chain s lo l) HEADER)) ->
  exists s', splice_levels s u y (seq i cnt) = Ok s' /\ same_rest s s' /\ Own s' U /\
    (forall l x, l < i \/ i + cnt <= l -> In x U -> fwd s' x l = fwd s x l) /\
    (forall l, i <= l -> l < i + cnt -> Linked s' l HEADER (chain s lo l ++ chain s hi' l)).
Proof.
  induction cnt; intros i s u U y lo hi' Hc O SU Hy Hh HU ND LK UV.
  - simpl. exists s. split; auto. split. repeat split. split; auto. split; auto. intros. lia.
  - cbn [seq splice_levels]. rewrite (UV i) by lia.
    set (p := last (chain s lo i) HEADER).
    assert (PIN : In p (HEADER :: lo)).
    { pose proof (last_in (chain s lo i) HEADER) as Q0. fold p in Q0. destruct Q0 as [Q|Q]. left; auto.
      right. unfold chain in Q. apply filter_In in Q. apply Q. }
    assert (PU : In p U). { destruct PIN as [Q|Q]. rewrite <- Q. auto. apply HU. apply in_or_app. auto. }
    assert (Li : i <= LEVEL_MAX) by (unfold LEVEL_MAX in *; lia).
    assert (NDL : NoDup (HEADER :: chain s lo i ++ chain s (y :: hi') i)).
    { inversion ND; subst. constructor.
      - intro Q. apply H1. unfold chain in Q. rewrite <- filter_app in Q. apply filter_In in Q. apply Q.
      - unfold chain. rewrite <- filter_app. apply NoDup_filter. auto. }
    generalize (LK i (le_n i) Li). intro L0.
    assert (L0' := L0). apply linked_split in L0'. destruct L0' as [L1 L2]. fold p in L2.
    rewrite (linked_head _ _ _ _ L2). cbn [bind].
    assert (CHs : forall sx, same_rest s sx -> forall X l, chain sx X l = chain s X l).
    { intros sx [SX _] X l. unfold chain. apply filter_ext_in'. intros. unfold at_level, nlvl, dnode. rewrite SX. auto. }
    (* one level *)
    assert (STEP : exists sa,
      (if match hd_error (chain s (y :: hi') i) with Some x => Nat.eqb x y | None => false end
       then do g <- fwd s y i; set_fwd s p i g else Ok s) = Ok sa /\ same_rest s sa /\ Own sa U /\
      (forall l x, l <> i -> In x U -> fwd sa x l = fwd s x l) /\
      Linked sa i HEADER (chain s lo i ++ chain s hi' i)).
    { unfold chain at 1. cbn [filter]. fold (chain s hi' i). destruct (at_level s i y) eqn:AL.
      - cbn [hd_error]. rewrite Nat.eqb_refl.
        assert (LY : Linked s i y (chain s hi' i)).
        { unfold chain in L2. cbn [filter] in L2. rewrite AL in L2. fold (chain s hi' i) in L2. destruct L2. auto. }
        rewrite (linked_head _ _ _ _ LY). cbn [bind].
        destruct (set_fwd_own s U p i (hd_error (chain s hi' i)) O PU (SU p PU) Li) as [sa [A1 [A2 [A3 A4]]]].
        exists sa. split; auto. split; auto. split; auto. split.
        + intros l x Hl Hx. rewrite A4 by auto. replace (Nat.eqb i l) with false by (symmetry; apply Nat.eqb_neq; lia). rewrite andb_false_r. auto.
        + assert (L0y : Linked s i HEADER (chain s lo i ++ y :: chain s hi' i)).
          { unfold chain at 2 in L0. cbn [filter] in L0. rewrite AL in L0. exact L0. }
          assert (NDy : NoDup (HEADER :: chain s lo i ++ y :: chain s hi' i)).
          { unfold chain at 2 in NDL. cbn [filter] in NDL. rewrite AL in NDL. exact NDL. }
          apply (linked_remove s sa i (chain s lo i) HEADER y (chain s hi' i) NDy L0y).
          * intros x Hx Nx. fold p in Nx. rewrite A4.
            { replace (Nat.eqb x p) with false by (symmetry; apply Nat.eqb_neq; auto). reflexivity. }
            { destruct Hx as [Hx|Hx]. subst; auto. apply HU. apply in_app_or in Hx. apply in_or_app.
              destruct Hx as [Hx|Hx]; [left|right; right]; unfold chain in Hx; apply filter_In in Hx; apply Hx. }
            { apply SU. destruct Hx as [Hx|Hx]. subst; auto. apply HU. apply in_app_or in Hx. apply in_or_app.
              destruct Hx as [Hx|Hx]; [left|right; right]; unfold chain in Hx; apply filter_In in Hx; apply Hx. }
          * fold p. rewrite A4 by auto. rewrite !Nat.eqb_refl. simpl. rewrite (linked_head _ _ _ _ LY). reflexivity.
      - assert (NY : match hd_error (chain s hi' i) with Some x => Nat.eqb x y | None => false end = false).
        { destruct (chain s hi' i) eqn:CH; auto. simpl. apply Nat.eqb_neq. intro; subst n.
          assert (In y hi'). { assert (In y (chain s hi' i)) by (rewrite CH; left; auto). unfold chain in H. apply filter_In in H. apply H. }
          inversion ND; subst. apply NoDup_remove_2 in H3. apply H3. apply in_or_app. auto. }
        rewrite NY. exists s. split; auto. split. repeat split. split; auto. split; auto.
        unfold chain at 2 in L0. cbn [filter] in L0. rewrite AL in L0. exact L0. }
    destruct STEP as [sa [S1 [S2 [S3 [S4 S5]]]]]. rewrite S1. cbn [bind].
    assert (SUa : sub_universe U sa). { intros x Hx. destruct S2 as [S2 _]. unfold dnode. rewrite S2. apply SU; auto. }
    destruct (IHcnt (S i) sa u U y lo hi') as [s' [E1 [E2 [E3 [E4 E5]]]]]; auto; try lia.
    { intros l Hl1 Hl2. rewrite !(CHs sa S2). apply (linked_ext s). 2: apply LK; lia.
      intros z Hz. apply S4. lia. destruct Hz as [Hz|Hz]. subst; auto. apply HU. apply in_app_or in Hz. apply in_or_app.
      destruct Hz as [Hz|Hz]; [left|right]; unfold chain in Hz; apply filter_In in Hz; apply Hz. }
    { intros l Hl1 Hl2. rewrite (CHs sa S2). apply UV; lia. }
    exists s'. split; auto. split. { eapply same_rest_trans; eauto. } split; auto. split.
    { intros l x Hl Hx. rewrite E4 by (auto; lia). apply S4; auto. lia. }
    intros l Hl1 Hl2. destruct (Nat.eq_dec l i).
    { subst l. apply (linked_ext sa). 2: exact S5. intros z Hz. apply E4. left; lia.
      destruct Hz as [Hz|Hz]. subst; auto. apply HU. apply in_app_or in Hz. apply in_or_app.
      destruct Hz as [Hz|Hz]; [left|right; right]; unfold chain in Hz; apply filter_In in Hz; apply Hz. }
    { generalize (E5 l). rewrite !(CHs sa S2). intro Q. apply Q; lia. }
Qed.

(* ---------- "remove unused levels" ---------- *)
Lemma shrink_ok : forall L s, k_level s = Z.of_nat L -> (forall l, l <= L -> exists r, fwd s HEADER l = Ok r) ->
  exists s', shrink_levels s (rev (seq 0 (S L))) = Ok s' /\
    k_nodes s' = k_nodes s /\ k_arrs s' = k_arrs s /\ k_length s' = k_length s /\ k_iters s' = k_iters s /\
    k_used s' = k_used s /\ k_alive s' = k_alive s /\
    (-1 <= k_level s' <= Z.of_nat L)%Z /\
    (forall l, (k_level s' < Z.of_nat l)%Z -> l <= L -> fwd s HEADER l = Ok None).
Proof.
  induction L; intros s LV FW.
  - simpl. destruct (FW 0 (le_n 0)) as [r R]. rewrite R. simpl. destruct r.
    + exists s. repeat split; auto; try lia; intros; lia.
    + eexists. split; [reflexivity|]. simpl. repeat split; auto; try lia. intros. assert (l = 0) by lia. subst. auto.
  - rewrite seq_S. rewrite rev_app_distr. cbn [rev app shrink_levels]. cbn [plus].
    destruct (FW (S L) (le_n _)) as [r R]. rewrite R. cbn [bind]. destruct r.
    + exists s. repeat split; auto; try lia; intros; lia.
    + destruct (IHL (set_level s (k_level s - 1))) as [s' [E1 [E2 [E3 [E4 [E5 [E6 [E7 [E8 E9]]]]]]]]].
      * simpl. lia.
      * intros l Hl. destruct (FW l) as [r Q]. lia. exists r. exact Q.
      * exists s'. split; auto. repeat split; auto; try lia. intros l Hl1 Hl2. destruct (Nat.eq_dec l (S L)). subst; auto. apply E9; auto. lia.
Qed.

(* ---------- dropping the last reference of a node that is already unlinked ---------- *)
Lemma deref_destroy_ok : forall s y ny ky a h,
  dnode s y = Ok ny -> sn_ref ny = 1 -> sn_key ny = Some ky -> y <> HEADER -> darr s (sn_fwd ny) = Ok a -> dnode s HEADER = Ok h ->
  exists s', k_node_deref kv_fixed s y = Ok (s', notify_node (sn_subs ny) EV_DELETED ky (sn_val ny) 0%N ++ notify_global (sn_subs h) EV_DELETED ky (sn_val ny) 0%N) /\
    (forall x, x <> y -> dnode s' x = dnode s x) /\
    (forall b, b <> sn_fwd ny -> darr s' b = darr s b) /\
    length (k_nodes s') = length (k_nodes s) /\ k_length s' = k_length s /\ k_level s' = k_level s /\ k_iters s' = k_iters s /\
    k_used s' = k_used s /\ k_alive s' = k_alive s.
Proof.
  intros s y ny ky a h N R K NH A H.
  assert (LT : y < length (k_nodes s)) by (eapply dnode_lt; eauto).
  unfold k_node_deref. rewrite N. cbn [bind]. rewrite R.
  set (n0 := {| sn_key := sn_key ny; sn_val := sn_val ny; sn_level := sn_level ny; sn_ref := 0; sn_subs := sn_subs ny; sn_fwd := sn_fwd ny |}).
  unfold k_node_destroy. rewrite dnode_put_node by auto. rewrite Nat.eqb_refl. cbn [bind].
  simpl kx_hdr_notify. replace (Nat.eqb y HEADER) with false by (symmetry; apply Nat.eqb_neq; auto). cbn [andb].
  change (sn_key n0) with (sn_key ny). rewrite K. unfold k_notify. rewrite dnode_put_node by auto.
  replace (Nat.eqb y HEADER) with false by (symmetry; apply Nat.eqb_neq; auto). rewrite H. cbn [bind].
  simpl kx_removed. cbv iota. unfold free_arr. rewrite darr_put_node. change (sn_fwd n0) with (sn_fwd ny). rewrite A. cbn [bind].
  unfold free_node. unfold dnode at 1. cbn [k_nodes set_arrs put_node set_nodes]. rewrite nth_error_upd_list by auto. rewrite Nat.eqb_refl. cbn [sc_live sc_node bind].
  eexists. split; [reflexivity|]. split; [|split].
  - intros x Hx. unfold dnode. cbn [k_nodes set_nodes set_arrs put_node]. rewrite !nth_error_upd_list by (rewrite ?upd_length; auto).
    replace (Nat.eqb y x) with false by (symmetry; apply Nat.eqb_neq; auto). reflexivity.
  - intros b Hb. unfold darr. cbn [k_arrs set_nodes set_arrs put_node]. rewrite nth_error_upd_list by (eapply darr_lt; eauto).
    replace (Nat.eqb (sn_fwd ny) b) with false by (symmetry; apply Nat.eqb_neq; auto). reflexivity.
  - cbn [k_nodes set_nodes set_arrs put_node k_length k_level k_iters k_used k_alive]. rewrite !upd_length. repeat split; auto.
Qed.

Lemma ss_remove : forall {A} (R : A -> A -> Prop) lo y hi, StronglySorted R (lo ++ y :: hi) -> StronglySorted R (lo ++ hi).
Proof.
  induction lo; simpl; intros. inversion H; auto. inversion H; subst. constructor. eauto.
  apply Forall_forall. intros z Hz. eapply Forall_forall in H3; eauto. apply in_app_or in Hz. apply in_or_app. destruct Hz; auto. right; right; auto.
Qed.

Lemma node_next_ok : forall s C0 c T, SG s C0 -> Linked s 0 c T -> (forall x, In x T -> In x C0) ->
  node_next (search_fuel s) s c = Ok (hd_error T).
Proof.
  intros. unfold search_fuel. destruct (12 * (length (k_nodes s) + 2)) eqn:F; [lia|]. cbn [node_next].
  rewrite (linked_head _ _ _ _ H0). cbn [bind]. destruct T; auto. cbn [hd_error].
  destruct (sg_node _ _ _ _ _ H n0 (H1 n0 (or_introl eq_refl))) as [m [ky [M1 [_ [M3 _]]]]]. rewrite M1. cbn [bind]. rewrite (ref_pos_eqb _ (RP_pos _ _ M3)). reflexivity.
Qed.

Lemma linked_nil_inv : forall s l x rest, Linked s l x rest -> fwd s x l = Ok None -> rest = [].
Proof. intros. destruct rest; auto. destruct H. congruence. Qed.

Definition lower_ref (n : snode) : snode :=
  {| sn_key := sn_key n; sn_val := sn_val n; sn_level := sn_level n; sn_ref := pred (sn_ref n); sn_subs := sn_subs n; sn_fwd := sn_fwd n |}.

Lemma deref_store_ok : forall s y ny, dnode s y = Ok ny -> 1 < sn_ref ny ->
  k_node_deref kv_fixed s y = Ok (put_node s y (lower_ref ny), []).
Proof.
  intros. unfold k_node_deref. rewrite H. cbn [bind]. unfold lower_ref. destruct (sn_ref ny) as [|[|r]]; try lia. reflexivity.
Qed.

(* skiplist_rm on the pointer structure: either the key is absent, or its node y is unlinked from every level, marked
   removed and loses the list's reference - it is destroyed when that was the last one and stays allocated (with its
   forward array) otherwise *)
Lemma rm_found : forall s C0 k, SG s C0 ->
  (k_rm kv_fixed s k = Ok (s, false, []) /\ (forall z, In z C0 -> nkey s z <> k)) \/
  (exists lo y hi' ny h s' ns, C0 = lo ++ y :: hi' /\ dnode s y = Ok ny /\ sn_key ny = Some k /\ dnode s HEADER = Ok h /\
     k_rm kv_fixed s k = Ok (s', true, ns) /\
     SG s' (lo ++ hi') /\
     (forall z, z <> y -> dnode s' z = dnode s z) /\
     length (k_nodes s') = length (k_nodes s) /\ k_used s' = k_used s /\ k_alive s' = k_alive s /\ k_iters s' = k_iters s /\
     ((sn_ref ny = 1 /\ ns = notify_node (sn_subs ny) EV_DELETED k (sn_val ny) 0%N ++ notify_global (sn_subs h) EV_DELETED k (sn_val ny) 0%N) \/
      (1 < sn_ref ny /\ ns = [] /\
       dnode s' y = Ok {| sn_key := sn_key ny; sn_val := sn_val ny; sn_level := -1; sn_ref := pred (sn_ref ny); sn_subs := sn_subs ny; sn_fwd := sn_fwd ny |} /\
       (exists a, darr s' (sn_fwd ny) = Ok a /\ length a = S LEVEL_MAX) /\
       (forall z m, In z (HEADER :: (lo ++ hi') ++ Zs) -> dnode s' z = Ok m -> sn_fwd m <> sn_fwd ny)))).
Proof.
  intros s C0 k G. unfold k_rm. destruct (search_top s C0 false k G) as [R [R1 R2]]. rewrite R1. cbn [bind].
  destruct R2 as [[Q _]|[[c [u [T1 [T2 [T3 T4]]]]] _]]; [discriminate|]. subst R. cbn beta iota.
  destruct T2 as [lo [hi [E [LO [CQ HI0]]]]]. rewrite chain_level0 in HI0, CQ. rewrite last_cons' in CQ.
  assert (LOC : forall y, In y lo -> In y C0) by (intros; rewrite E; apply in_or_app; auto).
  assert (HIC : forall y, In y hi -> In y C0) by (intros; rewrite E; apply in_or_app; auto).
  assert (L00 : Linked s 0 c hi).
  { generalize (sg_linked _ _ _ _ _ G 0 (Nat.le_0_l _)). rewrite chain_level0, E. intro Q. apply linked_split in Q. rewrite <- CQ in Q. apply Q. }
  rewrite (node_next_ok s C0 c hi G L00 HIC). cbn [bind].
  destruct hi as [|y hi']; cbn [hd_error].
  { (* nothing at or after the key *)
    left. split; auto.
    intros z Hz. rewrite E, app_nil_r in Hz. apply key_eqb_neq. apply key_ltb_neq. auto. }
  assert (YC : In y C0) by (apply HIC; left; auto).
  destruct (sg_node _ _ _ _ _ G y YC) as [ny [ky [N1 [N2 [N3 [N4 N5]]]]]]. rewrite N1. cbn [bind]. rewrite N2.
  assert (KY : nkey s y = ky) by (eapply nkey_some; eauto).
  assert (SSH : StronglySorted (klt s) (y :: hi')) by (eapply ss_app_r; rewrite <- E; apply (sg_sorted _ _ _ _ _ G)).
  destruct (key_eqb ky k) eqn:EQ; cbn [negb].
  2:{ (* the next key is larger: absent *)
    left. split; auto.
    intros z Hz. rewrite E in Hz. apply in_app_or in Hz. destruct Hz as [Hz|Hz].
    - apply key_eqb_neq. apply key_ltb_neq. auto.
    - assert (GT : key_ltb k ky = true).
      { apply key_ltb_total; [rewrite <- KY; apply HI0; left; auto | exact EQ]. }
      destruct Hz as [Hz|Hz]. subst z. rewrite KY. apply key_eqb_neq. auto.
      assert (FA : Forall (klt s y) hi') by (inversion SSH; auto).
      assert (H2 : klt s y z) by (eapply Forall_forall in FA; eauto). unfold klt in H2. rewrite KY in H2.
      apply key_eqb_neq. rewrite key_eqb_sym. apply key_ltb_neq. eapply key_ltb_trans; eauto. }
  apply key_eqb_eq in EQ. rewrite EQ in N2, KY. clear EQ.
  right.
  (* the list level is not negative: y lives on it *)
  set (L := Z.to_nat (k_level s)). assert (EL : k_level s = Z.of_nat L) by (unfold L; lia).
  generalize (sg_level _ _ _ _ _ G). intro LVB.
  assert (UV : forall l, l < 0 + S L -> uv_get u l = Some (last (chain s lo l) HEADER)).
  { intros l Hl. destruct (T3 l) as [xx [X1 X2]]. lia. rewrite X1. f_equal.
    rewrite (levelfact_canon s C0 k lo (y :: hi') l xx E LO HI0 X2). apply last_cons'. }
  set (U := HEADER :: C0 ++ Zs).
  assert (NDC : NoDup C0) by (eapply sgood_nodup; eauto).
  assert (HNC : ~ In HEADER C0). { intro Q. destruct (sg_node _ _ _ _ _ G HEADER Q) as [_ [_ [_ [_ [_ [_ Q2]]]]]]. congruence. }
  assert (SU : sub_universe U s).
  { intros z [Hz|Hz]. subst. destruct (sg_hdr _ _ _ _ _ G) as [h [H1 _]]. eauto. apply in_app_or in Hz. destruct Hz as [Hz|Hz].
    destruct (sg_node _ _ _ _ _ G z Hz) as [m [kz [M1 _]]]. eauto. destruct (sg_z _ _ _ _ _ G z Hz) as [[m [M1 _]] _]. eauto. }
  assert (YU : In y U) by (right; apply in_or_app; auto).
  destruct (splice_ok (S L) 0 s u U y lo hi') as [s1 [S1 [S2 [S3 [S4 S5]]]]].
  { unfold L, LEVEL_MAX. lia. }
  { apply (sg_own _ _ _ _ _ G). }
  { exact SU. }
  { exact YU. }
  { left; auto. }
  { intros z Hz. right. apply in_or_app. left. rewrite E. auto. }
  { constructor. rewrite <- E. auto. rewrite <- E. auto. }
  { intros l _ Hl. generalize (sg_linked _ _ _ _ _ G l Hl). rewrite E, chain_app. auto. }
  { intros l _ Hl. apply UV. auto. }
  fold L. rewrite S1. cbn [bind]. simpl kx_removed. cbv iota.
  destruct S2 as [SN [SLEN [SLV [SIT [SUS SAL]]]]].
  assert (D1 : forall z, dnode s1 z = dnode s z) by (intros; unfold dnode; rewrite SN; auto).
  rewrite D1, N1. cbn [bind].
  set (ny' := {| sn_key := sn_key ny; sn_val := sn_val ny; sn_level := -1; sn_ref := sn_ref ny; sn_subs := sn_subs ny; sn_fwd := sn_fwd ny |}).
  set (s2 := put_node s1 y ny').
  assert (LT1 : y < length (k_nodes s1)) by (rewrite SN; eapply dnode_lt; eauto).
  destruct (sg_hdr _ _ _ _ _ G) as [h [H1 [H2 H3]]].
  destruct (own_arr _ _ S3 y ny) as [ay [AY1 AY2]]. exact YU. rewrite D1; auto.
  assert (DY2 : dnode s2 y = Ok ny') by (unfold s2; rewrite dnode_put_node by auto; rewrite Nat.eqb_refl; auto).
  assert (DR : exists s3 ns, k_node_deref kv_fixed s2 y = Ok (s3, ns) /\
     (forall x, x <> y -> dnode s3 x = dnode s2 x) /\
     (forall b, b <> sn_fwd ny' -> darr s3 b = darr s2 b) /\
     length (k_nodes s3) = length (k_nodes s2) /\ k_length s3 = k_length s2 /\ k_level s3 = k_level s2 /\ k_iters s3 = k_iters s2 /\
     k_used s3 = k_used s2 /\ k_alive s3 = k_alive s2 /\
     ((sn_ref ny = 1 /\ ns = notify_node (sn_subs ny) EV_DELETED k (sn_val ny) 0%N ++ notify_global (sn_subs h) EV_DELETED k (sn_val ny) 0%N) \/
      (1 < sn_ref ny /\ ns = [] /\ dnode s3 y = Ok (lower_ref ny') /\ darr s3 (sn_fwd ny) = darr s2 (sn_fwd ny)))).
  { assert (RPOS : 1 <= sn_ref ny) by (eapply RP_pos; eauto).
    destruct (Nat.eq_dec (sn_ref ny) 1) as [R1'|R1'].
    - destruct (deref_destroy_ok s2 y ny' k ay h) as [s3 [P1 [P2 [P3 [P4 [P5 [P6 [P7 [P8 P9]]]]]]]]]; auto.
      { unfold s2. rewrite dnode_put_node by auto. replace (Nat.eqb y HEADER) with false by (symmetry; apply Nat.eqb_neq; auto). rewrite D1. auto. }
      exists s3, (notify_node (sn_subs ny) EV_DELETED k (sn_val ny) 0%N ++ notify_global (sn_subs h) EV_DELETED k (sn_val ny) 0%N).
      split; [exact P1|]. repeat split; auto. 
    - rewrite (deref_store_ok s2 y ny' DY2) by (simpl; lia).
      assert (LT2 : y < length (k_nodes s2)) by (unfold s2, put_node; simpl; rewrite upd_length; auto).
      eexists _, []. split; [reflexivity|]. split.
      { intros x Hx. rewrite dnode_put_node by auto. replace (Nat.eqb y x) with false by (symmetry; apply Nat.eqb_neq; auto). reflexivity. }
      split. { intros. apply darr_put_node. }
      split. { unfold put_node. simpl. rewrite !upd_length. reflexivity. }
      repeat split; auto. right. split. lia. split; auto. split. rewrite dnode_put_node by auto. rewrite Nat.eqb_refl. reflexivity. apply darr_put_node. }
  destruct DR as [s3 [ns [P1 [P2 [P3 [P4 [P5 [P6 [P7 [P8 [P9 PC]]]]]]]]]]].
  rewrite P1. cbn [bind].
  (* reading s3 on the surviving nodes *)
  assert (D3 : forall z, z <> y -> dnode s3 z = dnode s z).
  { intros. rewrite P2 by auto. unfold s2. rewrite dnode_put_node by auto. replace (Nat.eqb y z) with false by (symmetry; apply Nat.eqb_neq; auto). apply D1. }
  assert (SURV : forall z, In z (HEADER :: (lo ++ hi') ++ Zs) -> z <> y /\ In z U).
  { intros z Hz. split.
    - intro; subst z. destruct Hz as [Hz|Hz]. congruence. apply in_app_or in Hz. destruct Hz as [Hz|Hz].
      rewrite E in NDC. apply NoDup_remove_2 in NDC. contradiction.
      destruct (sg_z _ _ _ _ _ G y Hz) as [_ [_ Q]]. contradiction.
    - destruct Hz as [Hz|Hz]. left; auto. right. apply in_app_or in Hz. apply in_or_app. destruct Hz as [Hz|Hz]; auto. left.
      rewrite E. apply in_app_or in Hz. apply in_or_app. destruct Hz; auto. right; right; auto. }
  assert (SURV0 : forall z, In z (HEADER :: lo ++ hi') -> z <> y /\ In z U).
  { intros z Hz. apply SURV. destruct Hz; [left|right]; auto. apply in_or_app; auto. }
  assert (F3 : forall z l, In z (HEADER :: lo ++ hi') -> fwd s3 z l = fwd s1 z l).
  { intros z l Hz. destruct (SURV0 z Hz) as [NZ UZ]. destruct (SU z UZ) as [m M].
    unfold fwd. rewrite D3, <- D1 by auto. rewrite D1, M. cbn [bind]. rewrite P3.
    - unfold s2. rewrite darr_put_node. reflexivity.
    - simpl. intro Q. apply NZ. apply (own_inj _ _ S3 z y m ny); auto. rewrite D1; auto. rewrite D1; auto. }
  assert (CH3 : forall X l, (forall z, In z X -> z <> y) -> chain s3 X l = chain s X l).
  { intros. unfold chain. apply filter_ext_in'. intros z Hz. unfold at_level, nlvl. rewrite D3; auto. }
  assert (CHX : forall X l, chain s1 X l = chain s X l).
  { intros. unfold chain. apply filter_ext_in'. intros. unfold at_level, nlvl. rewrite D1. auto. }
  assert (LK3 : forall l, l <= LEVEL_MAX -> Linked s3 l HEADER (chain s (lo ++ hi') l)).
  { intros l Hl. rewrite chain_app. apply (linked_ext s1).
    - intros z Hz. apply F3. destruct Hz as [Hz|Hz]. left; auto. right. apply in_app_or in Hz. apply in_or_app.
      destruct Hz as [Hz|Hz]; [left|right]; unfold chain in Hz; apply filter_In in Hz; apply Hz.
    - destruct (le_lt_dec l L).
      + apply S5; lia.
      + (* above the list level every chain is empty *)
        assert (EMP : forall X, (forall z, In z X -> In z C0) -> chain s X l = []) by (intros; eapply chain_empty_above; eauto; lia).
        rewrite (EMP lo LOC), (EMP hi'). 2:{ intros; apply HIC; right; auto. } simpl.
        rewrite S4. 2:{ right. lia. } 2:{ left; auto. }
        generalize (sg_linked _ _ _ _ _ G l Hl). rewrite (EMP C0) by auto. simpl. auto. }
  (* shrink *)
  assert (LV3 : k_level s3 = Z.of_nat L). { rewrite P6. unfold s2. simpl. rewrite SLV. exact EL. }
  replace (Z.ltb (k_level s3) 0) with false by (symmetry; apply Z.ltb_ge; lia). rewrite LV3, Nat2Z.id.
  destruct (shrink_ok L s3 LV3) as [s4 [W1 [W2 [W3 [W4 [W5 [W6 [W7 [W8 W9]]]]]]]]].
  { intros l Hl. eexists. apply linked_head. apply LK3. unfold L, LEVEL_MAX. lia. }
  rewrite W1. cbn [bind].
  assert (D4 : forall c0 z, dnode (set_length s4 c0) z = dnode s3 z) by (intros; unfold dnode; cbn [k_nodes set_length]; rewrite W2; reflexivity).
  set (s' := set_length s4 (wrap64 (k_length s4 - 1))).
  assert (DS : forall z, z <> y -> dnode s' z = dnode s z). { intros. unfold s'. rewrite D4. apply D3; auto. }
  assert (FS : forall z l, fwd s' z l = fwd s3 z l). { intros. unfold fwd, dnode, darr. simpl. rewrite W2, W3. reflexivity. }
  assert (AS : forall b, darr s' b = darr s3 b). { intros. unfold darr. simpl. rewrite W3. reflexivity. }
  assert (NY : forall z, In z (lo ++ hi') -> z <> y /\ In z C0).
  { intros z Hz. destruct (SURV0 z (or_intror Hz)) as [Z1 _]. split; auto.
    rewrite E. apply in_app_or in Hz. apply in_or_app. destruct Hz; auto. right; right; auto. }
  assert (CHS : forall l, chain s' (lo ++ hi') l = chain s (lo ++ hi') l).
  { intros. unfold chain. apply filter_ext_in'. intros z Hz. unfold at_level, nlvl. rewrite DS; auto. apply NY; auto. }
  exists lo, y, hi', ny, h, s', ns. split; [exact E|]. split; [exact N1|]. split; [exact N2|]. split; [exact H1|]. split; [reflexivity|].
  split.
  { constructor.
    + exists h. rewrite DS by auto. auto.
    + intros z Hz. destruct (NY z Hz) as [Z1 Z2]. destruct (sg_node _ _ _ _ _ G z Z2) as [m [kz [M1 [M2 [M3 [M4 M5]]]]]].
      exists m, kz. rewrite DS by auto. repeat split; auto; try lia.
      (* its level is still within the list level *)
      unfold s'. simpl. destruct (Z_le_dec (sn_level m) (k_level s4)); auto. exfalso.
      set (lz := Z.to_nat (sn_level m)).
      assert (fwd s3 HEADER lz = Ok None) by (apply W9; unfold lz; lia).
      assert (chain s (lo ++ hi') lz = []). { eapply linked_nil_inv. apply LK3. unfold lz, LEVEL_MAX. lia. auto. }
      assert (In z (chain s (lo ++ hi') lz)). { unfold chain. apply filter_In. split; auto. unfold at_level, nlvl. rewrite M1. apply Nat.leb_le. unfold lz. lia. }
      rewrite H0 in H4. contradiction.
    + constructor.
      * intros z m Hz M. destruct (SURV z Hz) as [Z1 Z2]. rewrite DS in M by auto.
        destruct (own_arr _ _ S3 z m Z2) as [a [A1 A2]]. rewrite D1; auto. exists a. split; auto.
        rewrite AS. rewrite P3. unfold s2. rewrite darr_put_node. auto.
        simpl. intro Q. apply Z1. apply (own_inj _ _ S3 z y m ny); auto. rewrite D1; auto. rewrite D1; auto.
      * intros z1 z2 m1 m2 Hz1 Hz2 M1 M2 Q. destruct (SURV z1 Hz1) as [A1 A2]. destruct (SURV z2 Hz2) as [B1 B2].
        rewrite DS in M1, M2 by auto. apply (own_inj _ _ (sg_own _ _ _ _ _ G) z1 z2 m1 m2); auto.
    + intros z Hz. destruct (sg_z _ _ _ _ _ G z Hz) as [[m [M1 M2]] [Z1 Z2]].
      assert (z <> y) by (intro; subst; contradiction). split; [|split; auto].
      * exists m. rewrite DS by auto. auto.
      * intro Q. apply Z2. apply NY; auto.
    + eapply ss_ext. 2:{ eapply ss_remove. rewrite <- E. apply (sg_sorted _ _ _ _ _ G). }
      intros a b Ha Hb. unfold klt, nkey. rewrite !DS; auto. apply NY; auto. apply NY; auto.
    + intros l Hl. rewrite CHS. apply (linked_ext s3). intros; apply FS. apply LK3; auto.
    + unfold s'. simpl. unfold LEVEL_MAX in *. lia.
    + unfold s'. simpl. rewrite W4, P5. unfold s2. simpl. rewrite SLEN, (sg_length _ _ _ _ _ G), wrap64_pred. f_equal.
      rewrite E, !app_length. simpl. lia.
    + unfold s'. simpl. rewrite W7, P9. unfold s2. simpl. rewrite SAL. apply (sg_alive _ _ _ _ _ G).
    + intros h0. rewrite DS by auto. apply (sg_hlvl _ _ _ _ _ G). }
  split. { exact DS. }
  split. { unfold s'. simpl. rewrite W2, P4. unfold s2, put_node. simpl. rewrite upd_length, SN. reflexivity. }
  split. { unfold s'. simpl. rewrite W6, P8. unfold s2. simpl. rewrite SUS. reflexivity. }
  split. { unfold s'. simpl. rewrite W7, P9. unfold s2. simpl. rewrite SAL. reflexivity. }
  split. { unfold s'. simpl. rewrite W5, P7. unfold s2. simpl. rewrite SIT. reflexivity. }
  destruct PC as [[PC1 PC2]|[PC1 [PC2 [PC3 PC4]]]].
  - left. auto.
  - right. split; auto. split; auto. split.
    { unfold s'. rewrite D4. rewrite PC3. reflexivity. }
    split.
    { exists ay. split; auto. rewrite AS, PC4. unfold s2. rewrite darr_put_node. exact AY1. }
    intros z m Hz M Q. destruct (SURV z Hz) as [Z1 Z2]. rewrite DS in M by auto.
    apply Z1. apply (own_inj _ _ (sg_own _ _ _ _ _ G) z y m ny); auto.
Qed.

Lemma kstep_rm : forall rc s C0 k, SG s C0 -> (forall id r, RP id r -> r = 1) -> kstep_ok rc s C0 (Rm k) [].
Proof.
  intros rc s C0 k G RONE. destruct rc as [[e1 e2] e3]. unfold kstep_ok, k_step, a_step. simpl. rewrite (sg_alive _ _ _ _ _ G). simpl.
  unfold a_rm. destruct (find_live_sent s C0 k G) as [F1 F2].
  change (find_live (r_ents (kabs s C0)) k) with (find_live (map (sent s) C0) k).
  destruct (rm_found s C0 k G) as [[A1 A2]|[lo [y [hi' [ny [h [s' [ns [E [N1 [N2 [H1 [A1 [G' [DS [LN [US [AL [IT CS]]]]]]]]]]]]]]]]]]].
  { rewrite A1. cbn [bind]. rewrite (F2 A2). exists s, C0, (OBool false), (OBool false), []. split; auto. split; auto. split; auto. left. split; auto. all: repeat split; auto. }
  rewrite A1. cbn [bind].
  assert (YC : In y C0) by (rewrite E; apply in_or_app; right; left; auto).
  assert (KY : nkey s y = k) by (eapply nkey_some; eauto).
  assert (NDC : NoDup C0) by (eapply sgood_nodup; eauto).
  destruct (sg_node _ _ _ _ _ G y YC) as [ny0 [ky0 [N1' [_ [N3 [_ N5]]]]]]. rewrite N1 in N1'. inversion N1'; subst ny0.
  apply RONE in N3.
  destruct CS as [[_ NS]|[Q _]]; [|lia].
  rewrite (F1 y YC KY). rewrite (sent_node _ _ _ _ N1 N2). cbn [parked existsb r_iters kabs re_id].
  eexists s', (lo ++ hi'), (OBool true), (OBool true), ns. split; [reflexivity|]. split; [|split; [reflexivity|]].
  - unfold a_destroy_entry. cbn beta iota zeta. f_equal. f_equal.
    + unfold kabs, set_ents. simpl. f_equal.
      * rewrite E. unfold del_entry. rewrite !map_app. simpl. rewrite filter_app. simpl.
        replace (y - 1 - 0) with (y - 1) by lia.
        assert (RID : forall z, re_id (sent s z) = z - 1) by (intros; unfold sent; destruct (dnode s z); auto).
        rewrite (sent_node _ _ _ _ N1 N2). simpl. rewrite Nat.eqb_refl. simpl.
        assert (KEEP : forall X, (forall z, In z X -> In z C0 /\ z <> y) ->
                  filter (fun e => negb (Nat.eqb (re_id e) (y - 1))) (map (sent s) X) = map (sent s') X).
        { intros X HX. rewrite filter_all_true.
          - apply map_ext_in. intros z Hz. destruct (HX z Hz) as [Z1 Z2]. unfold sent. rewrite DS; auto.
          - apply forallb_forall. intros e He. apply in_map_iff in He. destruct He as [z [Z1 Z2]]. subst e. rewrite RID. apply negb_true_iff. apply Nat.eqb_neq.
            destruct (HX z Z2) as [Z3 Z4]. destruct (sg_node _ _ _ _ _ G z Z3) as [_ [_ [_ [_ [_ [_ Z0]]]]]]. unfold HEADER in *. lia. }
        rewrite <- (KEEP lo), <- (KEEP hi'). reflexivity.
        { intros z Hz. split. rewrite E. apply in_or_app. right; right; auto. intro Q; subst z. rewrite E in NDC. apply NoDup_remove_2 in NDC. apply NDC. apply in_or_app; auto. }
        { intros z Hz. split. rewrite E. apply in_or_app; auto. intro Q; subst z. rewrite E in NDC. apply NoDup_remove_2 in NDC. apply NDC. apply in_or_app; auto. }
      * rewrite LN. reflexivity.
      * unfold hsubs. rewrite DS by auto. reflexivity.
      * auto.
      * auto.
    + rewrite NS. unfold r_notify. simpl. unfold hsubs. rewrite H1. reflexivity.
  - left. split; auto. split; auto. split; auto. split.
    + intros z nz Hz NZ [RZ|RZ]; [|exfalso; eapply RZ; eauto]. exfalso. apply RZ.
      destruct (sg_node _ _ _ _ _ G z Hz) as [m [kz [M1 [_ [M3 _]]]]]. rewrite NZ in M1. inversion M1; subst. eapply RONE; eauto.
    + intros z _ Hz. unfold nkey. rewrite DS; auto. intro; subst z. rewrite E in NDC. apply NoDup_remove_2 in NDC. contradiction.
Qed.

(* ---------- destroy ---------- *)
(* the nodes still to be destroyed: intact, chained at level 0 *)
Record Rest (s : kstate) (hsub : list nsub) (T : list nat) : Prop := {
  rs_hdr : exists h, dnode s HEADER = Ok h /\ sn_subs h = hsub;
  rs_nodup : NoDup (HEADER :: T);
  rs_node : forall x, In x T -> exists n k a, dnode s x = Ok n /\ sn_key n = Some k /\ 1 <= sn_ref n /\ darr s (sn_fwd n) = Ok a;
  rs_own : forall x y n m, In x (HEADER :: T) -> In y (HEADER :: T) -> dnode s x = Ok n -> dnode s y = Ok m -> sn_fwd n = sn_fwd m -> x = y;
  rs_link : match T with [] => True | x :: T' => Linked s 0 x T' end
}.

Definition del_notifs_k (s : kstate) (hsub : list nsub) (x : nat) : list notif :=
  match dnode s x with
  | Ok n => notify_node (sn_subs n) EV_DELETED (match sn_key n with Some k => k | None => [] end) (sn_val n) 0%N ++
            notify_global hsub EV_DELETED (match sn_key n with Some k => k | None => [] end) (sn_val n) 0%N
  | Err _ => []
  end.

Lemma node_destroy_ok : forall s x n k a h, dnode s x = Ok n -> sn_key n = Some k -> x <> HEADER -> darr s (sn_fwd n) = Ok a ->
  dnode s HEADER = Ok h ->
  exists s', k_node_destroy kv_fixed s x = Ok (s', notify_node (sn_subs n) EV_DELETED k (sn_val n) 0%N ++ notify_global (sn_subs h) EV_DELETED k (sn_val n) 0%N) /\
    (forall z, z <> x -> dnode s' z = dnode s z) /\ (forall b, b <> sn_fwd n -> darr s' b = darr s b) /\
    length (k_nodes s') = length (k_nodes s) /\ k_used s' = k_used s.
Proof.
  intros s x n k a h N K NH A H. assert (LT : x < length (k_nodes s)) by (eapply dnode_lt; eauto).
  unfold k_node_destroy. rewrite N. cbn [bind]. simpl kx_hdr_notify.
  replace (Nat.eqb x HEADER) with false by (symmetry; apply Nat.eqb_neq; auto). cbn [andb]. rewrite K.
  unfold k_notify. rewrite H. cbn [bind]. simpl kx_removed. cbv iota. unfold free_arr. rewrite A. cbn [bind].
  unfold free_node. unfold dnode at 1. cbn [k_nodes set_arrs]. fold (dnode s x). rewrite N. cbn [bind].
  eexists. split; [reflexivity|]. split; [|split].
  - intros z Hz. unfold dnode. cbn [k_nodes set_nodes set_arrs]. rewrite nth_error_upd_list by auto.
    replace (Nat.eqb x z) with false by (symmetry; apply Nat.eqb_neq; auto). reflexivity.
  - intros b Hb. unfold darr. cbn [k_arrs set_nodes set_arrs]. rewrite nth_error_upd_list by (eapply darr_lt; eauto).
    replace (Nat.eqb (sn_fwd n) b) with false by (symmetry; apply Nat.eqb_neq; auto). reflexivity.
  - cbn [k_nodes set_nodes set_arrs k_used]. rewrite upd_length. auto.
Qed.

Lemma destroy_loop_ok : forall T fuel s hsub, length T < fuel -> Rest s hsub T ->
  exists s', k_destroy_loop kv_fixed fuel s (hd_error T) = Ok (s', flat_map (del_notifs_k s hsub) T) /\
    (exists h, dnode s' HEADER = Ok h /\ sn_subs h = hsub /\ dnode s HEADER = Ok h) /\
    (forall h, dnode s HEADER = Ok h -> darr s' (sn_fwd h) = darr s (sn_fwd h)) /\
    length (k_nodes s') = length (k_nodes s) /\ k_used s' = k_used s.
Proof.
  induction T; intros fuel s hsub Hf R.
  - destruct fuel; [simpl in Hf; lia|]. simpl. exists s. split; auto. destruct (rs_hdr _ _ _ R) as [h [H1 H2]]. split; eauto.
  - destruct fuel; [simpl in Hf; lia|]. cbn [hd_error k_destroy_loop].
    destruct (rs_hdr _ _ _ R) as [h [H1 H2]].
    destruct (rs_node _ _ _ R a (or_introl eq_refl)) as [n [k [ar [N1 [N2 [N3 N4]]]]]].
    assert (NH : a <> HEADER). { intro Q0. generalize (rs_nodup _ _ _ R). intro Q. inversion Q as [|? ? Q1 Q2]. apply Q1. left; auto. }
    (* the successor *)
    assert (NX : node_next (search_fuel s) s a = Ok (hd_error T)).
    { unfold search_fuel. destruct (12 * (length (k_nodes s) + 2)) eqn:F; [lia|]. cbn [node_next].
      generalize (rs_link _ _ _ R). intro L. rewrite (linked_head _ _ _ _ L). cbn [bind]. destruct T; auto. cbn [hd_error].
      destruct (rs_node _ _ _ R n1) as [m [km [am [M1 [M2 [M3 M4]]]]]]. right; left; auto. rewrite M1. cbn [bind]. rewrite (ref_pos_eqb _ M3). reflexivity. }
    rewrite NX. cbn [bind].
    destruct (node_destroy_ok s a n k ar h N1 N2 NH N4 H1) as [s1 [D1 [D2 [D3 [D4 D5]]]]]. rewrite D1. cbn [bind].
    assert (NDT : NoDup (HEADER :: a :: T)) by apply (rs_nodup _ _ _ R).
    assert (AT : ~ In a T). { inversion NDT; subst. inversion H4; auto. }
    assert (FR : forall z m, In z (HEADER :: T) -> dnode s z = Ok m -> sn_fwd m <> sn_fwd n).
    { intros z m Hz M Q. assert (z = a). { eapply (rs_own _ _ _ R z a); eauto. destruct Hz; [left|right; right]; auto. right; left; auto. }
      subst z. destruct Hz as [Hz|Hz]. congruence. contradiction. }
    assert (R1 : Rest s1 hsub T).
    { constructor.
      - exists h. rewrite D2 by auto. auto.
      - inversion NDT; subst. inversion H4; subst. constructor; auto. intro Q. apply H3. right; auto.
      - intros z Hz. destruct (rs_node _ _ _ R z (or_intror Hz)) as [m [km [am [M1 [M2 [M3 M4]]]]]].
        exists m, km, am. rewrite D2 by (intro; subst; contradiction). repeat split; auto. rewrite D3; auto. apply (FR z m); auto. right; auto.
      - intros z1 z2 m1 m2 Hz1 Hz2 M1 M2 Q.
        assert (z1 <> a) by (intro; subst; destruct Hz1 as [Hz1|Hz1]; [congruence|contradiction]).
        assert (z2 <> a) by (intro; subst; destruct Hz2 as [Hz2|Hz2]; [congruence|contradiction]).
        rewrite D2 in M1, M2 by auto. eapply (rs_own _ _ _ R z1 z2); eauto. destruct Hz1; [left|right; right]; auto. destruct Hz2; [left|right; right]; auto.
      - destruct T as [|t T']; auto. generalize (rs_link _ _ _ R). cbn [Linked]. intros [_ L].
        apply (linked_ext s). 2: exact L. intros z Hz.
        assert (ZT : In z (t :: T')) by (destruct Hz; [subst; left|right]; auto).
        destruct (rs_node _ _ _ R z (or_intror ZT)) as [m [km [am [M1 [M2 [M3 M4]]]]]].
        unfold fwd. rewrite D2 by (intro; subst; contradiction). rewrite M1. cbn [bind]. rewrite D3; auto. apply (FR z m); auto. right; auto. }
    destruct (IHT fuel s1 hsub) as [s' [E1 [E2 [E3 [E4 E5]]]]]; auto. simpl in Hf. lia.
    rewrite E1. cbn [bind]. exists s'. split.
    + f_equal. f_equal. cbn [flat_map]. f_equal.
      * unfold del_notifs_k. rewrite N1, N2, H2. reflexivity.
      * apply flat_map_ext'. intros z Hz. unfold del_notifs_k. rewrite D2. auto. intro; subst; contradiction.
    + split. { destruct E2 as [h' [Q1 [Q2 Q3]]]. rewrite D2 in Q3 by auto. exists h'. auto. }
      split. { intros h0 Hh. rewrite H1 in Hh. inversion Hh; subst h0. rewrite (E3 h). rewrite D3; auto. apply (FR HEADER h); auto. left; auto. rewrite D2; auto. }
      split. lia. congruence.
Qed.

Lemma kstep_destroy : forall rc s C0, SG s C0 -> kstep_ok rc s C0 Destroy [].
Proof.
  intros rc s C0 G. destruct rc as [[e1 e2] e3]. unfold kstep_ok, k_step, a_step. simpl. rewrite (sg_alive _ _ _ _ _ G). simpl.
  unfold k_destroy. simpl kx_removed. cbv iota.
  assert (L0 : Linked s 0 HEADER C0). { generalize (sg_linked _ _ _ _ _ G 0 (Nat.le_0_l _)). rewrite chain_level0. auto. }
  rewrite (node_next_ok s C0 HEADER C0 G L0) by auto. cbn [bind].
  destruct (sg_hdr _ _ _ _ _ G) as [h [H1 [H2 H3]]].
  assert (NDC : NoDup C0) by (eapply sgood_nodup; eauto).
  assert (HNC : ~ In HEADER C0). { intro Q. destruct (sg_node _ _ _ _ _ G HEADER Q) as [_ [_ [_ [_ [_ [_ Q2]]]]]]. congruence. }
  assert (RS : Rest s (sn_subs h) C0).
  { constructor.
    - exists h. auto.
    - constructor; auto.
    - intros x Hx. destruct (sg_node _ _ _ _ _ G x Hx) as [n [k [N1 [N2 [N3 _]]]]].
      destruct (own_arr _ _ (sg_own _ _ _ _ _ G) x n) as [a [A1 _]]. right; apply in_or_app; auto. auto.
      assert (1 <= sn_ref n) by (eapply RP_pos; eauto). exists n, k, a. auto.
    - intros x y n m Hx Hy. apply (own_inj _ _ (sg_own _ _ _ _ _ G)).
      destruct Hx; [left|right; apply in_or_app]; auto. destruct Hy; [left|right; apply in_or_app]; auto.
    - destruct C0; auto. cbn [Linked] in L0. apply L0. }
  destruct (destroy_loop_ok C0 (S (length (k_nodes s))) s (sn_subs h)) as [s1 [D1 [[h1 [D2 [D3 D4]]] [D5 [D6 D7]]]]]; auto.
  { generalize (sgood_len _ _ G). lia. }
  rewrite D1. cbn [bind]. rewrite H1 in D4. inversion D4; subst h1.
  (* finally the header *)
  destruct (own_arr _ _ (sg_own _ _ _ _ _ G) HEADER h) as [a [A1 _]]. left; auto. auto.
  unfold k_node_destroy. rewrite D2. cbn [bind]. simpl kx_hdr_notify. rewrite Nat.eqb_refl. cbn [andb bind]. simpl kx_removed. cbv iota.
  unfold free_arr. rewrite (D5 h H1), A1. cbn [bind]. unfold free_node. unfold dnode at 1. cbn [k_nodes set_arrs]. fold (dnode s1 HEADER). rewrite D2. cbn [bind].
  eexists _, [], ONone, ONone, _. split; [reflexivity|]. split; [|split; [reflexivity|right; reflexivity]].
  f_equal. f_equal.
  - unfold kabs. simpl. f_equal.
    + rewrite upd_length. lia.
    + unfold hsubs, dnode. simpl. assert (LT : HEADER < length (k_nodes s1)) by (eapply dnode_lt; eauto).
      unfold HEADER in *. destruct (k_nodes s1); simpl in *. lia. reflexivity.
    + auto.
  - rewrite app_nil_r. rewrite live_kabs. simpl. rewrite flat_map_map. apply flat_map_ext'. intros x Hx.
    destruct (sg_node _ _ _ _ _ G x Hx) as [n [k [N1 [N2 _]]]]. unfold del_notifs_k. rewrite N1, N2.
    rewrite (sent_node _ _ _ _ N1 N2). unfold r_notify. simpl. unfold hsubs. rewrite H1. reflexivity.
Qed.

(* ---------- traversal ---------- *)
Definition bumpk (n : snode) : snode :=
  {| sn_key := sn_key n; sn_val := sn_val n; sn_level := sn_level n; sn_ref := S (sn_ref n); sn_subs := sn_subs n; sn_fwd := sn_fwd n |}.

Lemma put_node_same : forall s p n, dnode s p = Ok n -> put_node s p n = s.
Proof.
  intros. apply dnode_ok in H. destruct H as [c [C1 [C2 C3]]]. destruct s. unfold put_node, set_nodes. simpl in *. f_equal.
  apply list_ext. intros i. rewrite nth_error_upd. destruct (Nat.eqb p i) eqn:E; auto. apply Nat.eqb_eq in E. subst i.
  assert (p < length k_nodes) by (apply nth_error_Some; congruence). apply Nat.ltb_lt in H. rewrite H, C1. destruct c; simpl in *; subst; auto.
Qed.

Lemma put_node_twice : forall s p a b, put_node (put_node s p a) p b = put_node s p b.
Proof.
  intros. unfold put_node, set_nodes. simpl. f_equal. apply list_ext. intros i. rewrite !nth_error_upd, upd_length. destruct (Nat.eqb p i); auto.
Qed.

Lemma put_node_comm : forall s p x a b, p <> x -> put_node (put_node s p a) x b = put_node (put_node s x b) p a.
Proof.
  intros. unfold put_node, set_nodes. simpl. f_equal. apply list_ext. intros i. rewrite !nth_error_upd, !upd_length.
  destruct (Nat.eqb p i) eqn:E1, (Nat.eqb x i) eqn:E2; auto. apply Nat.eqb_eq in E1, E2. subst. contradiction.
Qed.

Lemma node_deref_bumped_k : forall s p n, dnode s p = Ok (bumpk n) -> 1 <= sn_ref n ->
  k_node_deref kv_fixed s p = Ok (put_node s p n, []).
Proof.
  intros. unfold k_node_deref. rewrite H. cbn [bind]. simpl sn_ref. destruct n; simpl in *. destruct sn_ref; [lia|]. reflexivity.
Qed.

(* one skiplist_iter_next of a traversal over an untouched list: p is the current position (header or an entry) *)
Lemma iter_next_k : forall s C0 pre p T n, SG s C0 -> HEADER :: C0 = pre ++ p :: T -> dnode s p = Ok n ->
  k_iter_next kv_fixed (put_node s p (bumpk n)) (Some p) =
  match T with
  | [] => Ok (s, None, None, [])
  | x :: _ => match dnode s x with
              | Ok nx => Ok (put_node s x (bumpk nx), Some x, Some (nkey s x, sn_val nx), [])
              | Err e => Err e
              end
  end.
Proof.
  intros s C0 pre p T n G E N.
  assert (PIN : In p (HEADER :: C0)) by (rewrite E; apply in_or_app; right; left; auto).
  assert (LT : p < length (k_nodes s)) by (eapply dnode_lt; eauto).
  assert (R1 : 1 <= sn_ref n /\ (0 <= sn_level n)%Z).
  { destruct PIN as [Q|Q]. subst p. destruct (sg_hdr _ _ _ _ _ G) as [h [H1 [H2 H3]]]. rewrite H1 in N. inversion N; subst. split; [eapply RP_pos; eauto|]. apply (sg_hlvl _ _ _ _ _ G); auto.
    destruct (sg_node _ _ _ _ _ G p Q) as [m [k [M1 [M2 [M3 [M4 M5]]]]]]. rewrite M1 in N. inversion N; subst. split; [eapply RP_pos; eauto|]. lia. }
  destruct R1 as [R1 R2].
  assert (NDH : NoDup (HEADER :: C0)).
  { constructor. intro Q. destruct (sg_node _ _ _ _ _ G HEADER Q) as [_ [_ [_ [_ [_ [_ Q2]]]]]]. congruence. eapply sgood_nodup; eauto. }
  assert (LKT : Linked s 0 p T).
  { generalize (sg_linked _ _ _ _ _ G 0 (Nat.le_0_l _)). rewrite chain_level0. intro L.
    destruct pre as [|q pre'].
    - simpl in E. inversion E; subst. auto.
    - simpl in E. inversion E; subst q. eapply linked_suffix. exact L. exact H1. }
  assert (TC : forall x, In x T -> In x C0 /\ x <> p).
  { intros x Hx. split.
    - destruct pre as [|q pre']; simpl in E; inversion E; subst; auto. apply in_or_app. right; right; auto.
    - intro; subst x. rewrite E in NDH. apply NoDup_remove_2 in NDH. apply NDH. apply in_or_app; auto. }
  unfold k_iter_next. rewrite dnode_put_node by auto. rewrite Nat.eqb_refl. cbn [bind].
  simpl kx_removed. simpl sn_level. replace (Z.ltb (sn_level n) 0) with false by (symmetry; apply Z.ltb_ge; auto). cbn [andb].
  (* node_next *)
  assert (NX : node_next (search_fuel (put_node s p (bumpk n))) (put_node s p (bumpk n)) p = Ok (hd_error T)).
  { unfold search_fuel. destruct (12 * (length (k_nodes (put_node s p (bumpk n))) + 2)) eqn:F; [lia|]. cbn [node_next].
    rewrite (fwd_put_node s p n (bumpk n)) by auto. rewrite (linked_head _ _ _ _ LKT). cbn [bind]. destruct T as [|x T']; auto. cbn [hd_error].
    destruct (TC x (or_introl eq_refl)) as [XC XP].
    destruct (sg_node _ _ _ _ _ G x XC) as [m [k [M1 [M2 [M3 _]]]]].
    rewrite dnode_put_node by auto. replace (Nat.eqb p x) with false by (symmetry; apply Nat.eqb_neq; auto). rewrite M1. cbn [bind]. rewrite (ref_pos_eqb _ (RP_pos _ _ M3)). reflexivity. }
  rewrite NX. destruct T as [|x T']; cbn [hd_error bind].
  - rewrite (node_deref_bumped_k _ p n); auto.
    + cbn [bind]. rewrite put_node_twice, put_node_same by auto. reflexivity.
    + rewrite dnode_put_node by auto. rewrite Nat.eqb_refl. reflexivity.
  - destruct (TC x (or_introl eq_refl)) as [XC XP].
    destruct (sg_node _ _ _ _ _ G x XC) as [m [k [M1 [M2 [M3 _]]]]]. rewrite M1.
    assert (LTX : x < length (k_nodes s)) by (eapply dnode_lt; eauto).
    rewrite dnode_put_node by auto. replace (Nat.eqb p x) with false by (symmetry; apply Nat.eqb_neq; auto). rewrite M1. cbn [bind].
    fold (bumpk m).
    rewrite (node_deref_bumped_k _ p n); auto.
    + cbn [bind].
      assert (ST : put_node (put_node (put_node s p (bumpk n)) x (bumpk m)) p n = put_node s x (bumpk m)).
      { rewrite (put_node_comm _ p x) by auto. rewrite put_node_twice. rewrite (put_node_comm _ x p) by auto. rewrite (put_node_same s p n); auto. }
      rewrite ST. rewrite dnode_put_node by auto. rewrite Nat.eqb_refl. cbn [bind]. simpl sn_key. rewrite M2.
      rewrite (nkey_some s x m k M1 M2). reflexivity.
    + rewrite dnode_put_node by (unfold put_node; simpl; rewrite upd_length; auto).
      replace (Nat.eqb x p) with false by (symmetry; apply Nat.eqb_neq; auto). rewrite dnode_put_node by auto. rewrite Nat.eqb_refl. reflexivity.
Qed.

Definition kvk (s : kstate) (x : nat) : key * val := kv (sent s x).

Lemma kforeach_loop_ok : forall T s C0 pre p n fuel stop calls acc nacc,
  SG s C0 -> HEADER :: C0 = pre ++ p :: T -> dnode s p = Ok n -> length T < fuel ->
  exists st' pos',
    k_foreach_loop kv_fixed fuel (put_node s p (bumpk n)) (Some p) stop calls acc nacc =
      Ok (st', pos', rev acc ++ map (kvk s) (takeL stop calls T), nacc) /\
    k_iter_free kv_fixed st' pos' = Ok (s, []).
Proof.
  induction T; intros s C0 pre p n fuel stop calls acc nacc G E N Hf.
  - destruct fuel; [simpl in Hf; lia|]. cbn [k_foreach_loop]. rewrite (iter_next_k s C0 pre p [] n G E N). cbn [bind].
    exists s, None. rewrite !app_nil_r. split; auto.
  - destruct fuel; [simpl in Hf; lia|]. cbn [k_foreach_loop]. rewrite (iter_next_k s C0 pre p (a :: T) n G E N).
    assert (AC : In a C0).
    { destruct pre as [|q pre']; simpl in E; inversion E; subst. left; auto. apply in_or_app. right. right. left. auto. }
    destruct (sg_node _ _ _ _ _ G a AC) as [m [k [M1 [M2 [M3 _]]]]]. rewrite M1. cbn [bind takeL].
    assert (KV : kvk s a = (nkey s a, sn_val m)). { unfold kvk. rewrite (sent_node _ _ _ _ M1 M2). rewrite (nkey_some _ _ _ _ M1 M2). reflexivity. }
    destruct (negb (Nat.eqb stop 0) && Nat.leb stop (S calls)) eqn:ST.
    + exists (put_node s a (bumpk m)), (Some a). split.
      * rewrite app_nil_r. simpl. rewrite KV. reflexivity.
      * unfold k_iter_free. simpl kx_iter_free. cbv iota. rewrite (node_deref_bumped_k _ a m); auto.
        rewrite put_node_twice, put_node_same by auto. reflexivity.
        rewrite dnode_put_node by (eapply dnode_lt; eauto). rewrite Nat.eqb_refl. reflexivity.
        eapply RP_pos; eauto.
    + destruct (IHT s C0 (pre ++ [p]) a m fuel stop (S calls) ((nkey s a, sn_val m) :: acc) (nacc ++ [])) as [st' [pos' [F1 F2]]]; auto.
      rewrite <- app_assoc. exact E. simpl in Hf. lia.
      exists st', pos'. split; auto. rewrite F1. rewrite app_nil_r. simpl. rewrite KV. rewrite <- app_assoc. reflexivity.
Qed.

Lemma kstep_foreach : forall rc s C0 stop, SG s C0 -> kstep_ok rc s C0 (Foreach stop) [].
Proof.
  intros rc s C0 stop G. destruct rc as [[e1 e2] e3]. unfold kstep_ok, k_step, a_step. simpl. rewrite (sg_alive _ _ _ _ _ G). simpl.
  unfold k_foreach, k_iter_create. destruct (sg_hdr _ _ _ _ _ G) as [h [H1 [H2 H3]]]. unfold HEADER in *. rewrite H1. cbn [bind].
  fold (bumpk h).
  destruct (kforeach_loop_ok C0 s C0 [] 0 h (S (S (length (k_nodes s)))) stop 0 [] [] G eq_refl H1) as [st' [pos' [F1 F2]]].
  { generalize (sgood_len _ _ G). lia. }
  replace (length (k_nodes s)) with (length (k_nodes s)) in F1 by auto.
  rewrite F1. cbn [bind]. rewrite F2. cbn [bind].
  eexists s, C0, _, (OEntries (take_stop stop (live_kv (kabs s C0)))), _. split; [reflexivity|]. split; [reflexivity|]. split; [|left; auto].
  simpl. f_equal. rewrite takeL_spec by (destruct stop; [left; auto | right; lia]).
  unfold live_kv. rewrite live_kabs. simpl. unfold kvk. rewrite <- map_map.
  destruct stop; simpl; auto. destruct C0; simpl; auto. rewrite !firstn_map. reflexivity.
Qed.

(* ---------- any operation that is not an iterator operation; whole histories ---------- *)
Theorem skip_step_ok_g : forall rc s C0 o orc, (forall id r, RP id r <-> r = 1) ->
  SG s C0 -> is_iter_op o = false -> kstep_ok rc s C0 o orc.
Proof.
  intros rc s C0 o orc R1 G H. destruct o; try discriminate.
  - apply kstep_put; auto. apply (R1 (length (k_nodes s)) 1); auto.
  - apply (kstep_get rc s C0 k G).
  - apply (kstep_rm rc s C0 k G). intros id r Q. apply (R1 id r); auto.
  - apply (kstep_count rc s C0 G).
  - apply (kstep_foreach rc s C0 stop G).
  - apply (kstep_notify_add rc s C0 k fn ev ud G).
  - apply (kstep_notify_del rc s C0 k fn ev ud G).
  - apply (kstep_destroy rc s C0 G).
Qed.

Lemma kdead_step : forall rc s C0 o orc, k_alive s = false ->
  k_step kv_fixed rc s o orc = Ok (s, OIgnored, []) /\ a_step skip_before (rc4s rc) (kabs s C0) o = (kabs s C0, OIgnored, []).
Proof. intros. destruct rc as [[e1 e2] e3]. unfold k_step, a_step. simpl. rewrite H. simpl. auto. Qed.

Fixpoint ks_lockstep (rc : Z * Z * Z) (s : kstate) (C0 : list nat) (sp : sstate) (ops : list (op * list Z)) : Prop :=
  match ops with
  | [] => True
  | (o, orc) :: t =>
    match k_step kv_fixed rc s o orc with
    | Err _ => False
    | Ok (s', x, ns) =>
      let '(sp', x', ns') := spec_step (fl_of (rc4s rc) (kabs s C0)) sp o in
      x = out_wrap x' /\ ns = ns' /\ exists C0', ks_lockstep rc s' C0' sp' t
    end
  end.

Definition no_iter_ops_k (ops : list (op * list Z)) : bool := forallb (fun p => negb (is_iter_op (fst p))) ops.

Theorem skip_c17_from_g : forall rc ops s C0 sp, (forall id r, RP id r <-> r = 1) ->
  (SG s C0 \/ k_alive s = false) -> Inv17 (kabs s C0) sp -> no_iter_ops_k ops = true -> ks_lockstep rc s C0 sp ops.
Proof.
  induction ops as [|[o orc] ops]; simpl; intros s C0 sp R1 HG HI HN; auto.
  apply andb_true_iff in HN. destruct HN as [HN1 HN2]. apply negb_true_iff in HN1. simpl in HN1.
  destruct HG as [HG|HD].
  - destruct (skip_step_ok_g rc s C0 o orc R1 HG HN1) as [s' [C0' [x [x' [ns [E1 [E2 [E3 E4]]]]]]]]. rewrite E1.
    generalize (step17 skip_before (rc4s rc) (kabs s C0) sp o HI HN1). rewrite E2.
    destruct (spec_step (fl_of (rc4s rc) (kabs s C0)) sp o) as [[sp' x''] ns'']. intros [Q1 [Q2 Q3]]. subst.
    split; auto. split; auto. exists C0'. apply IHops; auto. destruct E4 as [[E4 _]|E4]; auto.
  - destruct (kdead_step rc s C0 o orc HD) as [E1 E2]. rewrite E1.
    generalize (step17 skip_before (rc4s rc) (kabs s C0) sp o HI HN1). rewrite E2.
    destruct (spec_step (fl_of (rc4s rc) (kabs s C0)) sp o) as [[sp' x''] ns'']. intros [Q1 [Q2 Q3]]. subst.
    split; auto. split; auto. exists C0. apply IHops; auto.
Qed.

(* the traversal order used as the specification's order is ascending by key *)
Lemma ss_kv : forall s l, StronglySorted (klt s) l ->
  StronglySorted (fun a b : key * val => key_ltb (fst a) (fst b) = true) (map kv (map (sent s) l)).
Proof.
  intros s l SS. induction SS; simpl; constructor; auto.
  apply Forall_forall. intros e He. apply in_map_iff in He. destruct He as [e0 [E1 E2]]. apply in_map_iff in E2. destruct E2 as [x [E3 E4]]. subst.
  eapply Forall_forall in H; eauto. unfold klt in H. unfold kv. simpl. rewrite !sent_key. auto.
Qed.

Theorem skip_traversal_ascending_g : forall s C0, SG s C0 ->
  StronglySorted (fun a b => key_ltb (fst a) (fst b) = true) (live_kv (kabs s C0)).
Proof. intros. unfold live_kv. rewrite live_kabs. simpl. apply ss_kv. apply (sg_sorted _ _ _ _ _ H). Qed.

End RPS.

(* ---------- the C17 instance: no iterator is open, every reference count is 1, nothing is kept after removal ---------- *)
Definition RP1 : nat -> nat -> Prop := fun _ r => r = 1.
Definition ZPT : nat -> snode -> Prop := fun _ _ => True.
Definition SGood17 (s : kstate) (C0 : list nat) : Prop := SGood RP1 ZPT [] s C0.
Definition kstep_ok17 := kstep_ok RP1 ZPT [].

Lemma rp1_one : forall id r, RP1 id r <-> r = 1.
Proof. intros. unfold RP1. tauto. Qed.
Lemma rp1_pos : forall id r, RP1 id r -> 1 <= r.
Proof. unfold RP1. intros. lia. Qed.

Theorem skip_step_ok : forall rc s C0 o orc, SGood17 s C0 -> is_iter_op o = false -> kstep_ok17 rc s C0 o orc.
Proof. intros. apply skip_step_ok_g; auto. apply rp1_pos. apply rp1_one. Qed.

Lemma sgood_create_g : forall (RP : nat -> nat -> Prop) (ZP : nat -> snode -> Prop), RP HEADER 1 -> SGood RP ZP [] k_create [].
Proof.
  intros RP ZP R. constructor.
  + eexists. split; [reflexivity|]. simpl. auto.
  + intros id [].
  + constructor.
    * intros id n [Hid|[]] N. subst id. inversion N; subst. simpl. eexists. split; [reflexivity|]. reflexivity.
    * intros x y n m [Hx|[]] [Hy|[]]. congruence.
  + intros z [].
  + constructor.
  + intros l Hl. simpl. unfold fwd. simpl. unfold LEVEL_MAX in Hl.
    do 9 (destruct l as [|l]; [reflexivity|]). lia.
  + simpl. lia.
  + reflexivity.
  + reflexivity.
  + intros h Q. inversion Q; subst. simpl. lia.
Qed.

Lemma sgood_create : SGood17 k_create [] /\ kabs k_create [] = r_init.
Proof. split. apply sgood_create_g. reflexivity. reflexivity. Qed.

(* C17 for the pointer-level skiplist model: for every history of put/get/rm/count/foreach/notify/destroy and EVERY
   sequence of random() answers, no operation fails and outputs and notifier calls equal the specification's *)
Theorem skip_c17 : forall rc ops, no_iter_ops_k ops = true -> ks_lockstep rc k_create [] s_init ops.
Proof.
  intros. destruct sgood_create as [G A]. apply (skip_c17_from_g RP1 ZPT [] rp1_pos rc ops k_create [] s_init rp1_one); auto. rewrite A. apply inv17_init.
Qed.

Theorem skip_traversal_ascending : forall s C0, SGood17 s C0 ->
  StronglySorted (fun a b => key_ltb (fst a) (fst b) = true) (live_kv (kabs s C0)).
Proof. intros. eapply skip_traversal_ascending_g; eauto. Qed.

Require Import Verif.MapSkipProofs.

Lemma ks_lockstep_no_error : forall ops s C0 sp, ks_lockstep rc_consts s C0 sp ops -> snd (k_run kv_fixed s ops) = None.
Proof.
  induction ops as [|[o orc] ops]; intros; auto. cbn [ks_lockstep k_run] in *.
  destruct (k_step kv_fixed rc_consts s o orc) as [[[s' x] ns]|e]; try contradiction.
  destruct (spec_step (fl_of (rc4s rc_consts) (kabs s C0)) sp o) as [[sp' x'] ns']. destruct H as [_ [_ [C0' H]]].
  apply IHops in H. destruct (k_run kv_fixed s' ops). simpl in *. auto.
Qed.

Theorem skip_c17_no_error : forall ops, no_iter_ops_k ops = true -> snd (k_run kv_fixed k_create ops) = None.
Proof. intros. eapply ks_lockstep_no_error. apply skip_c17; auto. Qed.
