(* Extraction of the C03 model.  ExtrOcamlBasic only; Z, positive, nat stay inductive; no Extract Constant. *)
From Coq Require Import ExtrOcamlBasic.
Require Import Verif.IpcDeathModel.
Extraction "model_C03.ml" init predict reach client_dies_at scenario fds_of entries_of files_of dirs_of held_count
  log svc_ref active closedn held ph listening
  dead_env_shm ipcc_recv ipcc_sendv_recv ipcc_event_recv ipcc_send ipcc_disconnect_forces.
