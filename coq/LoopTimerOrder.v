(* C09: timers of one priority are dispatched in the order of their expiry times - for every history of the
   repaired loop.  Built on the consistency invariant (LoopTimerStrong.v: heap invariant, so timerlist_expire
   pops everything that is due, in order) and on the ghost data of LoopTimerProofs.v (expire_time = add + duration
   without wrap-around; a queued timer's expiry lies before the clock). *)
From Coq Require Import ZArith List Bool Lia Sorted.
Import ListNotations.
Require Import Verif.gen.Consts_looptimer Verif.HeapModel Verif.HeapProofs Verif.HeapSubset Verif.LoopTimerModel
               Verif.LoopTimerArith Verif.LoopTimerProofs Verif.LoopTimerStrong.
Local Open Scope Z_scope.

Ltac fields := cbn [heap next_tid slots lv0 lv1 lv2 hz clk cstep stop issued out err].

(* ---------------------------------------------------------------- subsequences *)
Inductive subl {A : Type} : list A -> list A -> Prop :=
| subl_nil : subl [] []
| subl_skip : forall x a b, subl a b -> subl a (x :: b)
| subl_keep : forall x a b, subl a b -> subl (x :: a) (x :: b).

Lemma subl_refl : forall (A : Type) (l : list A), subl l l.
Proof. induction l; constructor; assumption. Qed.

Lemma subl_in : forall (A : Type) (a b : list A) x, subl a b -> In x a -> In x b.
Proof. induction 1; intros H'; simpl in *; auto. destruct H'; auto. Qed.

Lemma subl_app : forall (A : Type) (a b c d : list A), subl a b -> subl c d -> subl (a ++ c) (b ++ d).
Proof.
  induction 1; intros Hcd; simpl; [assumption|apply subl_skip; auto|apply subl_keep; auto].
Qed.

Lemma subl_sorted : forall (a b : list Z), subl a b -> StronglySorted Z.le b -> StronglySorted Z.le a.
Proof.
  induction 1; intros S0; auto.
  - inversion S0; subst. auto.
  - inversion S0; subst. constructor; [auto|]. apply Forall_forall. intros y Hy.
    rewrite Forall_forall in H3. apply H3. eapply subl_in; eauto.
Qed.

Lemma subl_remove_first : forall it l, subl (remove_first it l) l.
Proof. induction l; simpl; [constructor|]. destruct (item_eqb a it); [constructor; apply subl_refl|constructor; assumption]. Qed.

Lemma ssorted_snocZ : forall l x, StronglySorted Z.le l -> (forall y, In y l -> y <= x) -> StronglySorted Z.le (l ++ [x]).
Proof.
  induction l; intros x S0 F; simpl; [constructor; constructor|].
  inversion S0; subst. constructor; [apply IHl; auto; intros; apply F; right; assumption|].
  apply Forall_app. split; [assumption|constructor; [apply F; left; reflexivity|constructor]].
Qed.

(* ---------------------------------------------------------------- the sequences *)
Definition gexp (s : slot) : Z := g_add s + g_dur s.

(* expiry times (add + duration) of the timer callbacks of priority p, in the order they ran *)
Fixpoint ev_exps (p : Z) (l : list ev) : list Z :=
  match l with
  | [] => []
  | EFire _ pr a d _ _ :: t => (if pr =? p then [a + d] else []) ++ ev_exps p t
  | _ :: t => ev_exps p t
  end.

Lemma ev_exps_app : forall p a b, ev_exps p (a ++ b) = ev_exps p a ++ ev_exps p b.
Proof. induction a as [|e a]; intros b; simpl; [reflexivity|]. destruct e; auto. rewrite IHa, app_assoc. reflexivity. Qed.

Definition not_fire (e : ev) : Prop := match e with EFire _ _ _ _ _ _ => False | _ => True end.

Lemma ev_exps_nofire : forall p l, Forall not_fire l -> ev_exps p l = [].
Proof. induction l as [|e l]; intros F; [reflexivity|]. inversion F; subst. destruct e; simpl in *; auto. contradiction. Qed.

(* expiry times of the timers queued at a level, in queue order *)
Fixpoint qexps (st : lp) (l : list item) : list Z :=
  match l with
  | [] => []
  | ITimer i :: t => match nth_slot st i with Some s => gexp s :: qexps st t | None => qexps st t end
  | IJob _ :: t => qexps st t
  end.

Lemma qexps_subl : forall st st' l' l, subl l' l -> (forall i, In (ITimer i) l' -> nth_slot st' i = nth_slot st i) ->
  subl (qexps st' l') (qexps st l).
Proof.
  induction 1; intros E; simpl.
  - constructor.
  - destruct x as [i|d]; [destruct (nth_slot st i); [constructor|]|]; auto.
  - destruct x as [i|d].
    + rewrite (E i (or_introl eq_refl)). destruct (nth_slot st i); [constructor|]; apply IHsubl; intros; apply E; right; assumption.
    + apply IHsubl. intros. apply E. right. assumption.
Qed.

Lemma qexps_app : forall st a b, qexps st (a ++ b) = qexps st a ++ qexps st b.
Proof. induction a as [|[i|d] a]; intros b; simpl; auto. destruct (nth_slot st i); simpl; rewrite IHa; reflexivity. Qed.

Lemma qexps_jobs : forall st w, qexps st (map IJob w) = [].
Proof. induction w; simpl; auto. Qed.

Definition seq_p (st : lp) (p : Z) : list Z := ev_exps p (rev (out st)) ++ qexps st (job_head (get_lv st p)).

Record Oo (st : lp) : Prop := mkOo {
  o_sorted : forall p, vp p -> StronglySorted Z.le (seq_p st p);
  o_heap : forall p x tm, vp p -> In x (seq_p st p) -> In tm (ents (heap st)) -> x < t_exp tm;
  o_clk : forall p x, vp p -> In x (seq_p st p) -> x < clk st }.

(* a step that fires nothing, only removes queue entries, and only adds heap entries that expire at or after now *)
Lemma Oo_step : forall st st', Oo st ->
  clk st <= clk st' ->
  (forall tm, In tm (ents (heap st')) -> In tm (ents (heap st)) \/ clk st <= t_exp tm) ->
  (forall p, vp p -> subl (seq_p st' p) (seq_p st p)) ->
  Oo st'.
Proof.
  intros st st' [A B C] Ec Eh Es. constructor.
  - intros p Hp. eapply subl_sorted; [apply Es|apply A]; assumption.
  - intros p x tm Hp Hx Htm. pose proof (subl_in _ _ _ x (Es p Hp) Hx) as Hx'.
    destruct (Eh tm Htm) as [X|X]; [eapply B; eauto|]. pose proof (C p x Hp Hx'). lia.
  - intros p x Hp Hx. pose proof (C p x Hp (subl_in _ _ _ x (Es p Hp) Hx)). lia.
Qed.

(* summary of what an API call may do to the parts of the state the order invariant reads *)
Record eff (st st' : lp) : Prop := mkEff {
  e_clk : clk st <= clk st';
  e_heap : forall tm, In tm (ents (heap st')) -> In tm (ents (heap st)) \/ clk st <= t_exp tm;
  e_out : exists l, out st' = l ++ out st /\ Forall not_fire l;
  e_q : forall p, vp p -> subl (job_head (get_lv st' p)) (job_head (get_lv st p));
  e_slots : forall i, in_q st' i -> nth_slot st' i = nth_slot st i }.

Lemma Oo_eff : forall st st', Oo st -> eff st st' -> Oo st'.
Proof.
  intros st st' H [A B [l [C1 C2]] D E]. apply (Oo_step st); auto.
  intros p Hp. unfold seq_p. rewrite C1, rev_app_distr, ev_exps_app.
  rewrite (ev_exps_nofire p (rev l)) by (apply Forall_rev; assumption). rewrite app_nil_r.
  apply subl_app; [apply subl_refl|]. apply qexps_subl; [apply D; assumption|].
  intros i Hi. apply E. exists p. split; assumption.
Qed.

Lemma eff_refl : forall st, eff st st.
Proof.
  intros st. constructor; auto; [lia| |intros; apply subl_refl]. exists []. split; [reflexivity|constructor].
Qed.

(* same heap / slots / queues, clock not earlier, only non-EFire events added *)
Lemma eff_same : forall st st' l, clk st <= clk st' -> heap st' = heap st -> slots st' = slots st ->
  (forall p, vp p -> job_head (get_lv st' p) = job_head (get_lv st p)) -> out st' = l ++ out st -> Forall not_fire l -> eff st st'.
Proof.
  intros st st' l Ec Eh Es Eq Eo Fl. constructor; auto.
  - intros tm Htm. left. rewrite <- Eh. assumption.
  - exists l. split; assumption.
  - intros p Hp. rewrite (Eq p Hp). apply subl_refl.
  - intros i _. apply nth_slot_ext. assumption.
Qed.

Lemma subl_trans : forall (A : Type) (b c : list A), subl b c -> forall a, subl a b -> subl a c.
Proof.
  induction 1; intros a0 H0.
  - assumption.
  - constructor. auto.
  - inversion H0; subst; [apply subl_skip; auto|apply subl_keep; auto].
Qed.

Lemma eff_trans : forall a b c, eff a b -> eff b c -> eff a c.
Proof.
  intros a b c [A1 B1 [l1 [C1 C1']] D1 E1] [A2 B2 [l2 [C2 C2']] D2 E2]. constructor.
  - lia.
  - intros tm H. destruct (B2 tm H) as [X|X]; [auto|right; lia].
  - exists (l2 ++ l1). split; [rewrite C2, C1, app_assoc; reflexivity|apply Forall_app; split; assumption].
  - intros p Hp. eapply subl_trans; [apply D1|apply D2]; assumption.
  - intros i Hi. rewrite (E2 i Hi). apply E1. destruct Hi as [p [Hp X]]. exists p. split; [assumption|].
    eapply subl_in; [apply D2; assumption|assumption].
Qed.

Ltac eff_trivial l :=
  constructor; [fields; lia | intros tm Htm; left; exact Htm | exists l; split; [reflexivity|repeat constructor; auto]
               | intros; apply subl_refl | intros; apply nth_slot_ext; reflexivity].

Lemma eff_emit : forall st e, not_fire e -> eff st (emit st e).
Proof. intros st e H. unfold emit. eff_trivial [e]. Qed.

Lemma eff_set_err : forall st, eff st (set_err st).
Proof. intros st. unfold set_err. eff_trivial [ENote 1]. Qed.

Lemma eff_advance : forall st n, W st -> eff st (advance st n).
Proof.
  intros st n H. destruct (W_advance st n H) as [_ X].
  constructor; [exact X | intros tm Htm; left; exact Htm | exists []; split; [reflexivity|constructor]
               | intros; apply subl_refl | intros; apply nth_slot_ext; reflexivity].
Qed.

Lemma eff_set_stop : forall st b, eff st (set_stop st b).
Proof. intros. unfold set_stop. eff_trivial (@nil ev). Qed.
Lemma eff_push_issued : forall st h, eff st (push_issued st h).
Proof. intros. unfold push_issued. eff_trivial (@nil ev). Qed.
Lemma eff_bump : forall st, eff st (bump_tid st).
Proof. intros. unfold bump_tid. eff_trivial (@nil ev). Qed.

Lemma eff_set_lv : forall st p l, vp p -> subl (job_head l) (job_head (get_lv st p)) -> eff st (set_lv st p l).
Proof.
  intros st p l Hp Hs. destruct (set_lv_fields st p l) as [Eh [Es [Ec [_ [Eo _]]]]]. constructor.
  - lia.
  - intros tm H. left. rewrite <- Eh. assumption.
  - exists []. split; [assumption|constructor].
  - intros q Hq. rewrite get_set_lv by assumption. destruct (q =? p) eqn:Y; [apply Z.eqb_eq in Y; subst; assumption|apply subl_refl].
  - intros i _. apply nth_slot_ext. assumption.
Qed.

Lemma eff_set_heap : forall st h, (forall tm, In tm (ents h) -> In tm (ents (heap st)) \/ clk st <= t_exp tm) -> eff st (set_heap st h).
Proof.
  intros st h H. unfold set_heap.
  constructor; [fields; lia | exact H | exists []; split; [reflexivity|constructor]
               | intros; apply subl_refl | intros; apply nth_slot_ext; reflexivity].
Qed.

Lemma eff_put_slot : forall st i s, 0 <= i < Z.of_nat (length (slots st)) -> ~ in_q st i -> eff st (put_slot st i s).
Proof.
  intros st i s Li Q.
  constructor; [unfold put_slot, set_slots; fields; lia | intros tm Htm; left; exact Htm | exists []; split; [reflexivity|constructor]
               | intros; apply subl_refl | ].
  intros j Hj. rewrite nth_slot_put by assumption. destruct (j =? i) eqn:Y; [|reflexivity].
  apply Z.eqb_eq in Y. subst j. exfalso. apply Q. exact (proj1 (in_q_put_slot st i s i) Hj).
Qed.

Lemma in_q_slot : forall st i, S st -> in_q st i -> exists s, nth_slot st i = Some s /\ s_state s = LT_ENTRY_JOBLIST.
Proof. intros st i H [p [Hp X]]. destruct (s_q _ _ H p Hp) as [G _]. destruct (G i X) as [s [A [B _]]]. eauto. Qed.

Lemma eff_append_slot : forall st z, S st -> eff st (set_slots st (slots st ++ [z])).
Proof.
  intros st z H.
  constructor; [unfold set_slots; fields; lia | intros tm Htm; left; exact Htm | exists []; split; [reflexivity|constructor]
               | intros; apply subl_refl | ].
  intros i Hi. rewrite nth_slot_app.
  destruct (in_q_slot st i H Hi) as [s [N _]]. pose proof (nth_slot_lt _ _ _ N).
  replace (i =? Z.of_nat (length (slots st))) with false by (symmetry; apply Z.eqb_neq; lia). reflexivity.
Qed.

(* ---------------------------------------------------------------- API calls *)
Lemma eff_timer_add : forall st p dur data chk, S st -> W st -> u64 dur -> eff st (timer_add fixed st p dur data chk).
Proof.
  intros st p dur data chk H HW Hd. unfold timer_add.
  destruct (add_slot_ready st H) as [H1 [[s0 [N0 E0]] [Eh [En [Ek Eq]]]]].
  set (k := first_empty (slots st) 0) in *.
  assert (E01 : eff st (if k >=? Z.of_nat (length (slots st)) then set_slots st (slots st ++ [zero_slot]) else st))
    by (destruct (k >=? _); [apply eff_append_slot; assumption|apply eff_refl]).
  assert (W1 : W (if k >=? Z.of_nat (length (slots st)) then set_slots st (slots st ++ [zero_slot]) else st)).
  { destruct (k >=? _); [|assumption]. apply (W_slots st); unfold set_slots; fields; auto.
    intros s Hs. apply in_app_or in Hs. destruct Hs as [Hs|[<-|[]]]; [left; assumption|]. right. left. vm_compute. congruence. }
  set (st1 := if k >=? Z.of_nat (length (slots st)) then set_slots st (slots st ++ [zero_slot]) else st) in *.
  eapply eff_trans; [exact E01|]. clear E01.
  assert (R : read_clock st1 = (clk st1, advance st1 (cstep st1))) by reflexivity. rewrite R.
  destruct (W_advance st1 (cstep st1) W1) as [W2 Ec].
  set (st2 := advance st1 (cstep st1)) in *.
  assert (N2 : nth_slot st2 k = Some s0) by (rewrite (nth_slot_ext st1); [assumption|reflexivity]).
  destruct (heap_add (heap (bump_tid st2)) _) as [hp|] eqn:A.
  - set (ns := mkS LT_ENTRY_ACTIVE (to_i32 chk) p data (Some (mkT (expire_of fixed (clk st1) dur) (next_tid st2) k (clk st1) dur)) (clk st1) dur 0).
    pose proof (nth_slot_lt _ _ _ N2) as Lk.
    constructor.
    + exact Ec.
    + intros tm Htm. change (In tm (ents hp)) in Htm. destruct (heap_add_in _ _ _ A tm Htm) as [X| ->]; [left; assumption|].
      right. cbn [t_exp]. destruct (w_clk st1 W1) as [C1 C2].
      destruct (expire_of_fixed (clk st1) dur) as [X _]; [unfold u64; lia|assumption|]. rewrite X. unfold u64 in Hd. lia.
    + exists [ERet 0 (mk_handle (to_i32 chk) k)]. split; [reflexivity|constructor; [exact I|constructor]].
    + intros q Hq. apply subl_refl.
    + intros i Hi. assert (Hi1 : in_q st1 i) by exact Hi.
      destruct (in_q_slot st1 i H1 Hi1) as [s [N J]].
      assert (i <> k) by (intros ->; rewrite N0 in N; inversion N; subst s0; destruct consts_states as [_ [? _]]; congruence).
      rewrite (nth_slot_ext (put_slot (set_heap (bump_tid st2) hp) k ns)); [|reflexivity].
      rewrite nth_slot_put by exact Lk. replace (i =? k) with false by (symmetry; apply Z.eqb_neq; assumption).
      apply nth_slot_ext. reflexivity.
  - eapply eff_trans; [apply (eff_advance st1 (cstep st1) W1)|]. eapply eff_trans; [apply eff_bump|apply eff_set_err].
Qed.

Lemma eff_level_item_del : forall st p it, vp p -> eff st (level_item_del st p it).
Proof.
  intros. unfold level_item_del. destruct (existsb _ _); [|apply eff_refl]. apply eff_set_lv; [assumption|].
  cbn [job_head]. apply subl_remove_first.
Qed.

Lemma eff_timer_del : forall st h, S st -> eff st (timer_del fixed st h).
Proof.
  intros st h H. unfold timer_del. destruct (timer_from_handle fixed st h) as [e|j t] eqn:L; [apply eff_emit; exact I|].
  destruct (lookup_fixed _ _ _ _ L) as [Nj Cj].
  replace (s_check t =? 0) with false by (symmetry; apply Z.eqb_neq; assumption).
  destruct (s_state t =? LT_ENTRY_DELETED); [apply eff_emit; exact I|].
  destruct (negb (s_state t =? LT_ENTRY_ACTIVE) && negb (s_state t =? LT_ENTRY_JOBLIST)) eqn:B; [apply eff_emit; exact I|].
  pose proof (s_prio_ok _ _ H j t Nj) as Hp.
  destruct (lid_spec [] st j t H Nj) as [H1 [Q1 [Es [Eh Sub]]]].
  set (st1 := if s_state t =? LT_ENTRY_JOBLIST then level_item_del st (s_prio t) (ITimer j) else st).
  assert (E01 : eff st st1) by (unfold st1; destruct (s_state t =? LT_ENTRY_JOBLIST); [apply eff_level_item_del; assumption|apply eff_refl]).
  assert (Ls : slots st1 = slots st) by (unfold st1; destruct (s_state t =? LT_ENTRY_JOBLIST); [assumption|reflexivity]).
  assert (Eh1 : heap st1 = heap st) by (unfold st1; destruct (s_state t =? LT_ENTRY_JOBLIST); [assumption|reflexivity]).
  assert (Q : ~ in_q st1 j).
  { unfold st1. destruct (s_state t =? LT_ENTRY_JOBLIST) eqn:J; [assumption|]. apply Z.eqb_neq in J.
    intros X. destruct (in_q_slot st j H X) as [s [N' J']]. rewrite Nj in N'. inversion N'; subst s. congruence. }
  pose proof (nth_slot_lt _ _ _ Nj) as Lj.
  eapply eff_trans; [exact E01|].
  destruct (s_th t) as [tm|].
  - destruct (heap_delete (heap st1) tm) as [hp|] eqn:D; [|apply eff_set_err].
    eapply eff_trans; [apply (eff_set_heap st1 hp); intros x Hx; left; eapply heap_delete_in; eauto|].
    eapply eff_trans; [apply eff_put_slot; [unfold set_heap; cbn [slots]; rewrite Ls; exact Lj|exact Q]|apply eff_emit; exact I].
  - eapply eff_trans; [apply eff_put_slot; [rewrite Ls; exact Lj|exact Q]|apply eff_emit; exact I].
Qed.

Lemma eff_exec_cbop : forall st c, S st -> W st -> wf2_cbop c -> eff st (exec_cbop fixed st c).
Proof.
  intros st c H HW Hc. unfold exec_cbop. destruct (err st); [apply eff_refl|]. destruct c.
  - destruct Hc. apply eff_timer_add; assumption.
  - apply eff_timer_del; assumption.
  - apply eff_emit; exact I.
  - unfold time_remaining. destruct (timer_from_handle fixed st (resolve st r)); [apply eff_emit; exact I|].
    destruct (negb _); [apply eff_emit; exact I|]. unfold read_clock.
    destruct (_ <? _); (eapply eff_trans; [apply eff_advance; assumption|apply eff_emit; exact I]).
  - apply eff_emit; exact I.
  - unfold msec_to_expire, tl_msec_to_expire. destruct (size (heap st) =? 0); [apply eff_emit; exact I|].
    destruct (entry_get (heap st) 0); [|eapply eff_trans; [apply eff_set_err|apply eff_emit; exact I]]. unfold read_clock.
    destruct (_ <? _); (eapply eff_trans; [apply eff_advance; assumption|apply eff_emit; exact I]).
  - unfold job_add. destruct ((p <? LT_LOOP_LOW) || (p >? LT_LOOP_HIGH)) eqn:E; [apply eff_emit; exact I|].
    apply orb_false_iff in E. destruct E as [E1 E2]. apply Z.ltb_ge in E1. rewrite Z.gtb_ltb in E2. apply Z.ltb_ge in E2.
    eapply eff_trans; [|apply eff_emit; exact I].
    apply eff_set_lv; [unfold vp, LT_LOOP_LOW, LT_LOOP_HIGH in *; lia|cbn [job_head]; apply subl_refl].
  - apply eff_set_stop.
  - apply eff_advance. assumption.
Qed.

(* the three invariants together *)
Definition Inv (st : lp) : Prop := S st /\ W st /\ Oo st.

Lemma wf2_wf : forall c, wf2_cbop c -> wf_cbop c.
Proof. destruct c; simpl; tauto. Qed.

Lemma Inv_exec_cbop : forall st c, Inv st -> wf2_cbop c -> Inv (exec_cbop fixed st c).
Proof.
  intros st c [H [HW HO]] Hc. split; [apply S_exec_cbop; assumption|]. split; [apply W_exec_cbop; [assumption|apply wf2_wf; assumption]|].
  apply (Oo_eff st); [assumption|]. apply eff_exec_cbop; assumption.
Qed.

Lemma Inv_exec_cbops : forall l st, Inv st -> Forall wf2_cbop l -> Inv (fold_left (exec_cbop fixed) l st).
Proof. induction l; intros st H F; simpl; [assumption|]. inversion F; subst. apply IHl; [apply Inv_exec_cbop|]; assumption. Qed.

(* ---------------------------------------------------------------- steps that keep the sequences *)
Lemma Oo_same_seq : forall st st', Oo st -> heap st' = heap st -> clk st <= clk st' ->
  (forall p, vp p -> seq_p st' p = seq_p st p) -> Oo st'.
Proof.
  intros st st' H Eh Ec Es. apply (Oo_step st); auto.
  - intros tm Htm. left. rewrite <- Eh. assumption.
  - intros p Hp. rewrite (Es p Hp). apply subl_refl.
Qed.

Lemma qexps_ext : forall st st' l, (forall i, In (ITimer i) l -> nth_slot st' i = nth_slot st i) -> qexps st' l = qexps st l.
Proof.
  induction l as [|[i|d] l]; intros E; simpl; auto.
  - rewrite (E i (or_introl eq_refl)). rewrite IHl by (intros; apply E; right; assumption). reflexivity.
  - apply IHl. intros. apply E. right. assumption.
Qed.

Lemma Inv_get_more_jobs : forall st, Inv st -> Inv (snd (get_more_jobs st)).
Proof.
  intros st [H [HW HO]]. split; [apply S_get_more_jobs; assumption|]. split; [apply W_get_more_jobs; assumption|].
  unfold get_more_jobs.
  assert (G : forall l acc, Forall vp l -> Oo (snd acc) -> Oo (snd (fold_left more_jobs_level l acc))).
  { induction l; intros acc Fl Ha; simpl; [assumption|]. inversion Fl; subst. apply IHl; [assumption|].
    unfold more_jobs_level. destruct acc as [n s]. cbn [snd] in *.
    destruct (wait_head (get_lv s a)) eqn:Wh; [assumption|]. cbn [snd].
    set (l' := mkL (job_head (get_lv s a) ++ map IJob (z :: l0)) [] (todo (get_lv s a) + Z.of_nat (length (z :: l0)))).
    destruct (set_lv_fields s a l') as [Eh [Es [Ec [_ [Eo _]]]]].
    apply (Oo_same_seq s); auto; [lia|].
    intros p Hp. unfold seq_p. rewrite Eo. f_equal. rewrite get_set_lv by assumption.
    rewrite (qexps_ext s (set_lv s a l')) by (intros; apply nth_slot_ext; assumption).
    destruct (p =? a) eqn:Y; [|reflexivity]. apply Z.eqb_eq in Y. subst p. unfold l'. cbn [job_head].
    rewrite qexps_app, qexps_jobs, app_nil_r. reflexivity. }
  apply G; [|assumption].
  constructor; [vm_compute; split; congruence|]. constructor; [vm_compute; split; congruence|].
  constructor; [vm_compute; split; congruence|]. constructor.
Qed.

(* ---------------------------------------------------------------- expiry *)
Lemma make_job_seq : forall now pend st tm, Sp (tm :: pend) st ->
  let st' := make_job_from_tmo now st tm in
  heap st' = heap st /\ clk st' = clk st /\
  exists p0, vp p0 /\ forall p, vp p -> seq_p st' p = seq_p st p ++ (if p =? p0 then [t_add tm + t_dur tm] else []).
Proof.
  intros now pend st tm H st'. unfold st', make_job_from_tmo.
  destruct (s_mem _ _ H tm (or_intror (or_introl eq_refl))) as [Hid [t [N [A T]]]].
  rewrite N. replace (s_state t =? LT_ENTRY_ACTIVE) with true by (symmetry; apply Z.eqb_eq; assumption). cbn [negb].
  set (d := t_data tm) in *. pose proof (s_prio_ok _ _ H d t N) as Hp.
  set (ns := mkS LT_ENTRY_JOBLIST (s_check t) (s_prio t) (s_data t) None (t_add tm) (t_dur tm) now).
  set (st1 := level_item_add st (s_prio t) (ITimer d)).
  assert (NotIn : forall q, vp q -> ~ In (ITimer d) (job_head (get_lv st q))).
  { intros q Hq X. destruct (s_q _ _ H q Hq) as [G1 _]. destruct (G1 d X) as [s [Y1 [Y2 _]]]. rewrite N in Y1. inversion Y1; subst s.
    destruct consts_states as [_ [_ [? _]]]. congruence. }
  destruct (set_lv_fields st (s_prio t) (mkL (job_head (get_lv st (s_prio t)) ++ [ITimer d]) (wait_head (get_lv st (s_prio t))) (todo (get_lv st (s_prio t)) + 1)))
    as [Eh [Es [Ec [_ [Eo _]]]]]. fold (level_item_add st (s_prio t) (ITimer d)) in Eh, Es, Ec, Eo. fold st1 in Eh, Es, Ec, Eo.
  split; [rewrite <- Eh; reflexivity|]. split; [rewrite <- Ec; reflexivity|].
  exists (s_prio t). split; [assumption|]. intros p Hp'.
  pose proof (nth_slot_lt _ _ _ N) as Li.
  assert (NS : forall j, nth_slot (put_slot st1 d ns) j = if j =? d then Some ns else nth_slot st j).
  { intros j. rewrite nth_slot_put; [|rewrite Es; exact Li]. destruct (j =? d); [reflexivity|]. apply nth_slot_ext. assumption. }
  unfold seq_p. change (out (put_slot st1 d ns)) with (out st1). rewrite Eo. rewrite <- app_assoc. f_equal.
  change (get_lv (put_slot st1 d ns) p) with (get_lv st1 p). unfold st1, level_item_add. rewrite get_set_lv by assumption.
  fold (level_item_add st (s_prio t) (ITimer d)). fold st1.
  assert (Old : qexps (put_slot st1 d ns) (job_head (get_lv st p)) = qexps st (job_head (get_lv st p))).
  { apply qexps_ext. intros i Hi. rewrite NS. destruct (i =? d) eqn:Y; [|reflexivity]. apply Z.eqb_eq in Y. subst i.
    exfalso. exact (NotIn p Hp' Hi). }
  destruct (p =? s_prio t) eqn:Y.
  - apply Z.eqb_eq in Y. subst p. cbn [job_head]. rewrite qexps_app, Old. f_equal. cbn [qexps]. rewrite NS, Z.eqb_refl. reflexivity.
  - rewrite Old, app_nil_r. reflexivity.
Qed.

Record OoP (now : Z) (pend : list tmr) (st : lp) : Prop := mkOoP {
  p_sorted : forall p, vp p -> StronglySorted Z.le (seq_p st p);
  p_heap : forall p x tm, vp p -> In x (seq_p st p) -> In tm (ents (heap st)) -> x < t_exp tm;
  p_clk : forall p x, vp p -> In x (seq_p st p) -> x < clk st;
  p_pend : forall p x tm, vp p -> In x (seq_p st p) -> In tm pend -> x <= t_exp tm;
  p_psorted : StronglySorted le_exp pend;
  p_due : forall tm, In tm pend -> tm_ok tm /\ t_exp tm < now /\ forall u, In u (ents (heap st)) -> t_exp tm < t_exp u;
  p_now : now <= clk st <= LT_UINT64_MAX }.

Lemma OoP_make_job : forall now pend st tm, Sp (tm :: pend) st -> OoP now (tm :: pend) st -> OoP now pend (make_job_from_tmo now st tm).
Proof.
  intros now pend st tm H [A B C D E F G].
  destruct (make_job_seq now pend st tm H) as [Eh [Ec [p0 [Hp0 Es]]]].
  destruct (F tm (or_introl eq_refl)) as [[T1 [T2 [T3 _]]] [Lt Lu]].
  assert (X : t_add tm + t_dur tm = t_exp tm).
  { destruct (expire_of_fixed _ _ T2 T3) as [Q _]. rewrite T1, Q. unfold u64 in *. lia. }
  assert (Cases : forall p x, vp p -> In x (seq_p (make_job_from_tmo now st tm) p) -> In x (seq_p st p) \/ (p = p0 /\ x = t_exp tm)).
  { intros p x Hp Hx. rewrite (Es p Hp) in Hx. apply in_app_or in Hx. destruct Hx as [Hx|Hx]; [left; assumption|].
    destruct (p =? p0) eqn:Y; [|destruct Hx]. apply Z.eqb_eq in Y. destruct Hx as [<-|[]]. right. split; [assumption|exact X]. }
  inversion E as [|? ? E1 E2]; subst.
  constructor.
  - intros p Hp. rewrite (Es p Hp). destruct (p =? p0); [|rewrite app_nil_r; apply A; assumption].
    apply ssorted_snocZ; [apply A; assumption|]. intros y Hy. rewrite X. apply (D p y tm Hp Hy). left. reflexivity.
  - intros p x u Hp Hx Hu. rewrite Eh in Hu. destruct (Cases p x Hp Hx) as [Y|[_ ->]]; [eapply B; eauto|apply Lu; assumption].
  - intros p x Hp Hx. rewrite Ec. destruct (Cases p x Hp Hx) as [Y|[_ ->]]; [eapply C; eauto|lia].
  - intros p x u Hp Hx Hu. destruct (Cases p x Hp Hx) as [Y|[_ ->]]; [apply (D p x u Hp Y); right; assumption|].
    rewrite Forall_forall in E2. apply E2. assumption.
  - assumption.
  - intros u Hu. rewrite Eh. apply F. right. assumption.
  - rewrite Ec. assumption.
Qed.

Lemma OoP_make_jobs : forall now l st, Sp l st -> OoP now l st -> Oo (fold_left (make_job_from_tmo now) l st).
Proof.
  induction l; intros st H HO; simpl.
  - destruct HO as [A B C _ _ _ _]. constructor; assumption.
  - apply IHl; [apply Sp_make_job; assumption|apply OoP_make_job; assumption].
Qed.

Lemma Inv_expire_timers : forall st, Inv st -> Inv (snd (expire_timers st)).
Proof.
  intros st [H [HW HO]]. split; [apply S_expire_timers; assumption|]. split; [apply W_expire_timers; assumption|].
  unfold expire_timers.
  pose proof (Sp_read_clock [] st H) as H2. destruct (W_read_clock st HW) as [W2 [Ec [Em [Eh _]]]].
  destruct (read_clock st) as [now st2] eqn:RC. cbn [fst snd] in *. subst now.
  assert (Es2 : slots st2 = slots st /\ out st2 = out st /\ forall p, get_lv st2 p = get_lv st p)
    by (unfold read_clock in RC; inversion RC; subst st2; repeat split).
  destruct Es2 as [Es2 [Eo2 Eq2]].
  destruct (heap_expire_ok (heap st2) (clk st) (s_hinv _ _ H2)) as [hp [l [E [I [Sl [P1 [P2 [P3 [ND _]]]]]]]]].
  rewrite E. cbn [snd].
  assert (SpL : Sp l (set_heap st2 hp)).
  { destruct H2 as [A2 B2 C2 D2 E2 F2 G2 I2].
    assert (OldMem : forall u, mem (ents hp) u \/ In u l -> mem (ents (heap st2)) u).
    { intros u [Hu|Hu]; [apply P2 in Hu; apply Hu|apply (P1 u Hu)]. }
    constructor; unfold set_heap; fields; auto.
    - intros u Hu. exact (C2 u (or_introl (OldMem u Hu))).
    - intros j s u Hs Hu. destruct (D2 j s u Hs Hu) as [X1 [[X2|[]] X3]]. split; [assumption|]. split; [|assumption].
      destruct (in_dec Z.eq_dec (t_id u) (map t_id l)) as [Y|Y].
      + right. apply in_map_iff in Y. destruct Y as [v [Y1 Y2]].
        assert (v = u) by (exact (mem_same_id (heap st2) v u B2 (proj2 (P1 v Y2)) X2 Y1)). subst v. assumption.
      + left. apply P2. split; [assumption|]. intros v Hv Q. apply Y. rewrite <- Q. apply in_map. assumption.
    - split; [exact ND|]. intros u Hu Mu. apply P2 in Mu. destruct Mu as [_ Mu]. exact (Mu u Hu eq_refl). }
  apply OoP_make_jobs; [assumption|].
  assert (Seq : forall p, seq_p (set_heap st2 hp) p = seq_p st p).
  { intros p. unfold seq_p. change (out (set_heap st2 hp)) with (out st2). rewrite Eo2.
    change (get_lv (set_heap st2 hp) p) with (get_lv st2 p). rewrite Eq2. f_equal.
    apply qexps_ext. intros. apply nth_slot_ext. assumption. }
  destruct HO as [OA OB OC]. destruct (w_clk st2 W2) as [_ Cmax].
  constructor.
  - intros p Hp. rewrite Seq. apply OA. assumption.
  - intros p x u Hp Hx Hu. rewrite Seq in Hx. apply (OB p x u Hp Hx). rewrite <- Eh.
    apply mem_In. apply P2. apply mem_In. exact Hu.
  - intros p x Hp Hx. rewrite Seq in Hx. pose proof (OC p x Hp Hx). change (clk (set_heap st2 hp)) with (clk st2). lia.
  - intros p x u Hp Hx Hu. rewrite Seq in Hx. apply Z.lt_le_incl. apply (OB p x u Hp Hx). rewrite <- Eh.
    apply mem_In. apply (P1 u Hu).
  - exact Sl.
  - intros u Hu. destruct (P1 u Hu) as [Lt Mu]. split; [apply (w_heap _ W2); apply mem_In; assumption|]. split; [assumption|].
    intros v Hv. change (heap (set_heap st2 hp)) with hp in Hv. apply mem_In in Hv. pose proof (P3 v Hv). lia.
  - change (clk (set_heap st2 hp)) with (clk st2). lia.
Qed.

(* ---------------------------------------------------------------- dispatch *)
Lemma Inv_framed_cbops : forall l st i s, Inv st -> Forall wf2_cbop l -> s_state s = LT_ENTRY_JOBLIST -> s_check s = 0 ->
  framed st i s -> Inv (fold_left (exec_cbop fixed) l st) /\ framed (fold_left (exec_cbop fixed) l st) i s.
Proof.
  induction l; intros st i s H F J C Fr; simpl; [split; assumption|]. inversion F; subst.
  apply IHl; auto; [apply Inv_exec_cbop|apply framed_exec_cbop]; auto. apply H.
Qed.

Lemma Inv_emit : forall st e, Inv st -> not_fire e -> ev_ok e -> Inv (emit st e).
Proof.
  intros st e [H [HW HO]] N K. split; [apply Sp_emit; assumption|]. split; [apply W_emit; assumption|].
  apply (Oo_eff st); [assumption|apply eff_emit; assumption].
Qed.

Lemma Inv_set_lv_sub : forall st p l, Inv st -> vp p -> subl (job_head l) (job_head (get_lv st p)) -> Inv (set_lv st p l).
Proof.
  intros st p l [H [HW HO]] Hp Hs. split; [|split; [apply W_set_lv; assumption|apply (Oo_eff st); [assumption|apply eff_set_lv; assumption]]].
  apply Sp_set_lv_sub; auto.
  - intros j Hj. eapply subl_in; eauto.
  - intros j. clear - Hs. induction Hs; simpl; [lia| |]; destruct x; simpl; lia.
Qed.

(* one job taken from the head of level p and dispatched (the body of qb_loop_run_level's loop) *)
Lemma Inv_level_step : forall beh st p job rest, Inv st -> wf2_beh beh -> vp p -> job_head (get_lv st p) = job :: rest ->
  Inv (let st := set_lv st p (mkL rest (wait_head (get_lv st p)) (todo (get_lv st p))) in
       let st := dispatch fixed beh st job in
       let l' := get_lv st p in set_lv st p (mkL (job_head l') (wait_head l') (todo l' - 1))).
Proof.
  intros beh st p job rest HI Hb Hp E. cbv zeta.
  apply Inv_set_lv_sub; [|assumption|apply subl_refl].
  destruct HI as [H [HW HO]].
  destruct (pop_spec st p job rest (wait_head (get_lv st p)) (todo (get_lv st p)) H Hp E) as [H1 X].
  set (st1 := set_lv st p (mkL rest (wait_head (get_lv st p)) (todo (get_lv st p)))) in *.
  assert (W1 : W st1) by (apply W_set_lv; assumption).
  destruct (set_lv_fields st p (mkL rest (wait_head (get_lv st p)) (todo (get_lv st p)))) as [Eh [Es [Ec [_ [Eo _]]]]]. fold st1 in Eh, Es, Ec, Eo.
  destruct job as [i|d].
  - (* a timer: its expiry moves from the head of the queue to the end of the dispatched sequence *)
    destruct (X i eq_refl) as [t [N [J Q]]].
    assert (N0 : nth_slot st i = Some t) by (rewrite <- (nth_slot_ext st st1 _ Es); assumption).
    assert (Pt : s_prio t = p).
    { destruct (s_q _ _ H p Hp) as [G1 _]. rewrite E in G1. destruct (G1 i (or_introl eq_refl)) as [t' [N' [_ P']]].
      rewrite N0 in N'. inversion N'; subst t'. assumption. }
    unfold dispatch. rewrite N. replace (s_state t =? LT_ENTRY_JOBLIST) with true by (symmetry; apply Z.eqb_eq; assumption). cbn [negb].
    assert (T : s_th t = None).
    { destruct (s_th t) as [tm|] eqn:T; [|reflexivity]. destruct (s_thm _ _ H1 i t tm N T) as [Y _].
      destruct consts_states as [_ [_ [? _]]]. congruence. }
    pose proof (s_prio_ok _ _ H1 i t N) as Hpt.
    destruct (w_job st1 W1 i t N J) as [J1 J2].
    set (s1 := with_check t 0).
    pose proof (nth_slot_lt _ _ _ N) as Li.
    set (st2 := put_slot st1 i s1).
    assert (H2 : S st2).
    { apply (Sp_put_idle [] st1 i t); auto; cbn [s1 with_check s_th s_state s_prio]; auto.
      rewrite J. destruct consts_states as [_ [_ [? _]]]. congruence. }
    assert (W2 : W st2) by (apply W_put_slot; [assumption|]; right; split; assumption).
    assert (F2 : framed st2 i s1).
    { split; [unfold st2; rewrite nth_slot_put, Z.eqb_refl by assumption; reflexivity|]. unfold st2. rewrite in_q_put_slot. assumption. }
    set (e1 := EFire (s_data t) (s_prio t) (g_add t) (g_dur t) (g_fire t) (clk st2)).
    set (st3 := emit st2 e1).
    assert (H3 : S st3) by (apply Sp_emit; assumption).
    assert (W3 : W st3) by (apply W_emit; [assumption|]; cbn [e1 ev_ok]; split; assumption).
    assert (O3 : Oo st3).
    { apply (Oo_same_seq st); auto; [unfold st3, st2, emit, put_slot, set_slots; fields; lia|].
      intros q Hq. unfold seq_p. change (out st3) with (e1 :: out st1). rewrite Eo. cbn [rev]. rewrite ev_exps_app.
      change (get_lv st3 q) with (get_lv st1 q). unfold st1 at 1. rewrite get_set_lv by assumption.
      assert (Qx : forall l, ~ In (ITimer i) l -> qexps st3 l = qexps st l).
      { intros l Hl. apply qexps_ext. intros j Hj. unfold st3, emit. rewrite (nth_slot_ext st2); [|reflexivity].
        unfold st2. rewrite nth_slot_put by assumption. destruct (j =? i) eqn:Y; [apply Z.eqb_eq in Y; subst j; contradiction|].
        apply nth_slot_ext. assumption. }
      destruct (q =? p) eqn:Y.
      - apply Z.eqb_eq in Y. subst q. cbn [job_head]. rewrite E. cbn [qexps]. rewrite N0.
        cbn [e1 ev_exps]. rewrite Pt, Z.eqb_refl. cbn [app]. rewrite <- app_assoc. cbn [app]. f_equal. f_equal.
        apply Qx. intros Hin. apply Q. exists p. split; [assumption|]. unfold st1. rewrite get_set_lv, Z.eqb_refl by assumption. assumption.
      - apply Z.eqb_neq in Y. cbn [e1 ev_exps]. rewrite Pt. replace (p =? q) with false by (symmetry; apply Z.eqb_neq; congruence).
        cbn [app]. rewrite app_nil_r. f_equal. apply Qx. intros Hin. apply Q. exists q. split; [assumption|].
        unfold st1. rewrite get_set_lv by assumption. replace (q =? p) with false by (symmetry; apply Z.eqb_neq; assumption). assumption. }
    assert (I4 : Inv (emit st3 (ECb 0 (s_data t) (clk st3)))) by (apply Inv_emit; [split; [|split]; assumption|exact I|exact I]).
    assert (F4 : framed (emit st3 (ECb 0 (s_data t) (clk st3))) i s1) by (apply (framed_same st2); auto).
    destruct (Inv_framed_cbops (beh_of beh (s_data t)) _ i s1 I4 (wf2_beh_of beh _ Hb) J eq_refl F4) as [[H5 [W5 O5]] [N5 Q5]].
    change (clk st2) with (clk st1) in *. 
    fold st2. fold e1. fold st3. rewrite N5.
    pose proof (nth_slot_lt _ _ _ N5) as L5.
    split; [|split].
    + apply (Sp_put_idle [] _ i s1); auto; cbn [s1 with_state with_check s_th s_state s_prio]; auto.
      destruct consts_states as [? _]. assumption.
    + apply W_put_slot; [assumption|]. left. cbn [with_state s_state]. apply (proj2 consts_neq).
    + eapply Oo_eff; [exact O5|]. apply eff_put_slot; assumption.
  - (* a job *)
    unfold dispatch.
    apply Inv_exec_cbops; [|apply wf2_beh_of; assumption].
    apply Inv_emit; [|exact I|exact I].
    apply Inv_set_lv_sub; [split; [|split]; assumption|assumption|]. cbn [job_head]. rewrite E. constructor. apply subl_refl.
Qed.

Lemma Inv_run_level : forall beh n st p, Inv st -> wf2_beh beh -> vp p -> Inv (run_level fixed beh n st p).
Proof.
  induction n; intros st p H Hb Hp; cbn [run_level].
  - destruct (err st); [assumption|]. destruct (job_head (get_lv st p)) as [|job rest] eqn:E; [assumption|].
    pose proof (Inv_level_step beh st p job rest H Hb Hp E) as X. cbv zeta in X. destruct (stop _); assumption.
  - destruct (err st); [assumption|]. destruct (job_head (get_lv st p)) as [|job rest] eqn:E; [assumption|].
    pose proof (Inv_level_step beh st p job rest H Hb Hp E) as X. cbv zeta in X. destruct (stop _); [assumption|].
    destruct n; [assumption|]. apply IHn; assumption.
Qed.

Lemma Inv_run_levels : forall beh ps st p_stop rem, Inv st -> wf2_beh beh -> Forall vp ps ->
  Inv (fst (fst (run_levels fixed beh ps st p_stop rem))).
Proof.
  induction ps; intros st p_stop rem H Hb F; cbn [run_levels]; [assumption|]. inversion F; subst.
  destruct (a >=? p_stop).
  - pose proof (Inv_run_level beh (Z.to_nat LT_TO_PROCESS) st a H Hb H2) as X.
    destruct (stop _); [assumption|]. apply IHps; assumption.
  - apply IHps; assumption.
Qed.

Lemma wf2_beh_wf : forall b, wf2_beh b -> wf_beh b.
Proof. intros b H d l Hin. specialize (H d l Hin). eapply Forall_impl; [|exact H]. apply wf2_wf. Qed.

Lemma Inv_choose : forall st rem tt jt, Inv st -> Inv (snd (choose_timeout fixed st rem tt jt)).
Proof.
  intros st rem tt jt [H [HW HO]]. split; [apply S_choose; assumption|]. split; [apply W_choose; assumption|].
  unfold choose_timeout. destruct (_ || _); [assumption|]. destruct (jt >? 0); [assumption|].
  apply (Oo_eff st); [assumption|].
  unfold msec_to_expire, tl_msec_to_expire. destruct (size (heap st) =? 0); [apply eff_refl|].
  destruct (entry_get (heap st) 0); [|apply eff_set_err]. unfold read_clock. destruct (_ <? _); apply eff_advance; assumption.
Qed.

Lemma Inv_advance : forall st n, Inv st -> Inv (advance st n).
Proof.
  intros st n [H [HW HO]]. split; [apply Sp_advance; assumption|]. split; [apply W_advance; assumption|].
  apply (Oo_eff st); [assumption|apply eff_advance; assumption].
Qed.

Lemma Inv_set_stop : forall st b, Inv st -> Inv (set_stop st b).
Proof.
  intros st b [H [HW HO]]. split; [apply Sp_set_stop; assumption|]. split; [apply W_set_stop; assumption|].
  apply (Oo_eff st); [assumption|apply eff_set_stop].
Qed.

Lemma Inv_run_turns : forall beh dirs st p_stop rem, Inv st -> wf2_beh beh -> Inv (run_turns fixed beh dirs st p_stop rem).
Proof.
  induction dirs; intros st p_stop rem H Hb; cbn [run_turns]; [assumption|].
  destruct (err st); [assumption|].
  pose proof (Inv_get_more_jobs st H) as H1. destruct (get_more_jobs st) as [jt st1]. cbn [snd] in H1.
  pose proof (Inv_expire_timers st1 H1) as H2. destruct (expire_timers st1) as [tt st2]. cbn [snd] in H2.
  pose proof (decide_ok st2 rem tt jt (proj1 (proj2 H2))) as D.
  pose proof (Inv_choose st2 rem tt jt H2) as H3.
  destruct (W_choose st2 rem tt jt (proj1 (proj2 H2))) as [_ Ez].
  destruct (choose_timeout fixed st2 rem tt jt) as [ms st3]. cbn [fst snd] in *.
  rewrite <- Ez in D.
  match goal with |- context [run_levels _ _ _ ?s _ _] => assert (Inv s) as H4 end.
  { destruct dirs; [apply Inv_set_stop|]; apply Inv_advance; (apply Inv_emit; [apply Inv_emit; [assumption|exact I|exact D]|exact I|exact I]). }
  match goal with |- context [run_levels ?f ?b ?ps ?s ?q ?r] =>
    pose proof (Inv_run_levels b ps s q r H4 Hb prios_vp) as H5; destruct (run_levels f b ps s q r) as [[st5 rem5] ret5] end.
  cbn [fst] in H5. destruct ret5; [assumption|]. destruct (stop st5); [assumption|]. apply IHdirs; assumption.
Qed.

Lemma Inv_step : forall beh st o, Inv st -> wf2_beh beh -> wf2_op o -> Inv (step fixed beh st o).
Proof.
  intros beh st o H Hb Ho. unfold step. destruct (err st); [assumption|]. destruct o.
  - apply Inv_exec_cbop; assumption.
  - unfold loop_run. destruct dirs; [assumption|]. apply Inv_run_turns; [apply Inv_set_stop|]; assumption.
Qed.

Lemma Inv_run : forall beh ops st, Inv st -> wf2_beh beh -> Forall wf2_op ops -> Inv (run fixed beh st ops).
Proof.
  intros beh ops. unfold run. induction ops; intros st H Hb F; simpl; [assumption|].
  inversion F; subst. apply IHops; [apply Inv_step|assumption|]; assumption.
Qed.

Lemma Inv_init : forall hz0 clk0 cstep0, 0 < hz0 -> 0 < clk0 <= LT_UINT64_MAX -> Inv (lp_init hz0 clk0 cstep0).
Proof.
  intros. split; [apply S_init|]. split; [apply W_init; assumption|].
  constructor.
  - intros p Hp. destruct (vp_cases p Hp) as [->|[->| ->]]; constructor.
  - intros p x tm Hp Hx. destruct (vp_cases p Hp) as [->|[->| ->]]; destruct Hx.
  - intros p x Hp Hx. destruct (vp_cases p Hp) as [->|[->| ->]]; destruct Hx.
Qed.

(* ---------------------------------------------------------------- end to end *)
(* the expiry times (add + duration) of the timer callbacks of one priority, in the order the callbacks ran,
   are non-decreasing - in every history of the repaired loop *)
Theorem expiry_order_all_histories : forall beh ops hz0 clk0 cstep0 p,
  0 < hz0 -> 0 < clk0 <= LT_UINT64_MAX -> wf2_beh beh -> Forall wf2_op ops -> vp p ->
  StronglySorted Z.le (ev_exps p (rev (out (run fixed beh (lp_init hz0 clk0 cstep0) ops)))).
Proof.
  intros beh ops hz0 clk0 cstep0 p Hz Hc Hb Ho Hp.
  destruct (Inv_run beh ops _ (Inv_init hz0 clk0 cstep0 Hz Hc) Hb Ho) as [_ [_ HO]].
  pose proof (o_sorted _ HO p Hp) as X. unfold seq_p in X.
  eapply subl_sorted; [|exact X]. rewrite <- (app_nil_r (ev_exps p _)) at 1. apply subl_app; [apply subl_refl|].
  clear. induction (qexps _ _); constructor; assumption.
Qed.

(* ---------------------------------------------------------------- the queries, end to end *)
(* in every state of every history of the repaired loop, for every handle value:
   is_running is 1 exactly when the handle resolves to a slot whose timer is still in the heap (ACTIVE);
   then expire_time_get is that timer's expiry = min (add + duration, 2^64 - 1) > 0 and the time remaining is
   max 0 (expiry - clock); otherwise (stale or never-issued handle, timer deleted, expired and queued, dispatched)
   all three queries answer 0.  In particular time remaining > 0 implies running. *)
Theorem queries_all_histories : forall beh ops hz0 clk0 cstep0 h,
  0 < hz0 -> 0 < clk0 <= LT_UINT64_MAX -> wf2_beh beh -> Forall wf2_op ops ->
  let st := run fixed beh (lp_init hz0 clk0 cstep0) ops in
  (is_running fixed st h = 1 \/ is_running fixed st h = 0) /\
  (is_running fixed st h = 1 <->
     exists i s, timer_from_handle fixed st h = LOk i s /\ s_state s = LT_ENTRY_ACTIVE) /\
  (is_running fixed st h = 1 ->
     exists tm, mem (ents (heap st)) tm /\ t_exp tm = Z.min (t_add tm + t_dur tm) LT_UINT64_MAX /\ 0 < t_exp tm /\
                expire_time_get fixed st h = t_exp tm /\
                fst (time_remaining fixed st h) = Z.max 0 (t_exp tm - clk st)) /\
  (is_running fixed st h = 0 -> expire_time_get fixed st h = 0 /\ fst (time_remaining fixed st h) = 0) /\
  (fst (time_remaining fixed st h) > 0 -> is_running fixed st h = 1).
Proof.
  intros beh ops hz0 clk0 cstep0 h Hz Hc Hb Ho st.
  destruct (Inv_run beh ops _ (Inv_init hz0 clk0 cstep0 Hz Hc) Hb Ho) as [H [HW _]]. fold st in H, HW.
  destruct (queries_agree fixed st h) as [Q1 [Q2 [Q3 [Q4 Q5]]]].
  assert (Act : forall i s, timer_from_handle fixed st h = LOk i s -> s_state s = LT_ENTRY_ACTIVE ->
            exists tm, s_th s = Some tm /\ mem (ents (heap st)) tm /\ t_exp tm = Z.min (t_add tm + t_dur tm) LT_UINT64_MAX /\ 0 < t_exp tm).
  { intros i s L A. destruct (lookup_fixed _ _ _ _ L) as [N _].
    destruct (s_th s) as [tm|] eqn:T; [|exfalso; exact (s_act _ _ H i s N A T)].
    destruct (s_thm _ _ H i s tm N T) as [_ [[M|[]] _]]. exists tm. split; [reflexivity|]. split; [assumption|].
    destruct (w_heap _ HW tm (proj1 (mem_In _ _) M)) as [T1 [T2 [T3 T4]]].
    destruct (expire_of_fixed _ _ T2 T3) as [X _]. rewrite T1, X. split; [reflexivity|]. unfold u64, LT_UINT64_MAX in *. lia. }
  assert (Dec : is_running fixed st h = 1 \/ is_running fixed st h = 0) by (unfold is_running; destruct (_ >? 0); auto).
  destruct (timer_from_handle fixed st h) as [e|i s] eqn:L.
  - destruct (Q5 e eq_refl) as [X1 [X2 X3]]. split; [assumption|]. split; [|split; [|split]].
    + split; [rewrite X2; discriminate|intros [i [s [Y _]]]; discriminate].
    + rewrite X2. discriminate.
    + intros _. split; assumption.
    + rewrite X3. lia.
  - destruct (Z.eq_dec (s_state s) LT_ENTRY_ACTIVE) as [A|A].
    + destruct (Act i s eq_refl A) as [tm [T [M [E P]]]].
      destruct (Q4 i s tm eq_refl A T P) as [X1 [X2 X3]].
      split; [assumption|]. split; [|split; [|split]].
      * split; [intros _; exists i, s; split; [reflexivity|assumption]|intros _; assumption].
      * intros _. exists tm. repeat split; assumption.
      * rewrite X2. discriminate.
      * intros _. assumption.
    + destruct (Q3 i s eq_refl A) as [X1 [X2 X3]]. split; [assumption|]. split; [|split; [|split]].
      * split; [rewrite X2; discriminate|intros [i' [s' [Y Y']]]; inversion Y; subst; contradiction].
      * rewrite X2. discriminate.
      * intros _. split; assumption.
      * rewrite X3. lia.
Qed.
