(* C09 - source tie: model functions = the Gallina text regenerated from lib/loop_timerlist.c + include/tlist.h
   by tools/c2coq.py on every run (gen/Src_tlist.v).  Statements only. *)
From Coq Require Import ZArith List Bool.
Require Import Verif.gen.Consts_looptimer Verif.gen.Src_tlist Verif.C2CoqPrelude Verif.HeapModel Verif.HeapProofs
               Verif.LoopTimerModel Verif.HeapSrcEq.
Local Open Scope Z_scope.

Theorem C09_src_index_left : forall i, 0 <= i < 2 ^ 62 -> timerlist_heap_index_left i = index_left i.
Proof. exact src_index_left. Qed.
Print Assumptions C09_src_index_left.

Theorem C09_src_index_right : forall i, 0 <= i < 2 ^ 62 -> timerlist_heap_index_right i = index_right i.
Proof. exact src_index_right. Qed.
Print Assumptions C09_src_index_right.

Theorem C09_src_index_parent : forall i, 0 < i < 2 ^ 62 -> timerlist_heap_index_parent i = index_parent i.
Proof. exact src_index_parent. Qed.
Print Assumptions C09_src_index_parent.

Theorem C09_src_entry_cmp : forall p1 p2 a b, timerlist_entry_cmp p1 p2 (t_exp a) (t_exp b) = entry_cmp a b.
Proof. exact src_entry_cmp. Qed.
Print Assumptions C09_src_entry_cmp.

(* timerlist_msec_duration_to_expire: mutex free, relative timer at the root, clock oracle = clk, hertz = hz *)
Theorem C09_src_msec_to_expire : forall st tlp c1 c2 c3 c4 olock onow oepoch oget r,
  olock c1 = 0 -> onow c2 = clk st -> at_ (ents (heap st)) 0 r ->
  0 <= clk st < 2 ^ 64 -> 0 <= t_exp r < 2 ^ 64 -> 0 < hz st < 2 ^ 63 ->
  fst (fst (fst (fst (timerlist_msec_duration_to_expire tlp c1 c2 c3 c4 (hz st) olock onow oepoch oget (t_exp r) 0 (size (heap st))))))
  = fst (tl_msec_to_expire st).
Proof. exact src_msec_to_expire. Qed.
Print Assumptions C09_src_msec_to_expire.

Theorem C09_src_msec_to_expire_empty : forall st tlp c1 c2 c3 c4 olock onow oepoch oget e a,
  olock c1 = 0 -> ents (heap st) = nil ->
  fst (fst (fst (fst (timerlist_msec_duration_to_expire tlp c1 c2 c3 c4 (hz st) olock onow oepoch oget e a (size (heap st))))))
  = fst (tl_msec_to_expire st).
Proof. exact src_msec_to_expire_empty. Qed.
Print Assumptions C09_src_msec_to_expire_empty.

(* append to coq/PropertiesSrc_C09.v after tools/c2coq.py has c2coq.diff applied and
   HeapSrcEq_addendum.v is appended to coq/HeapSrcEq.v (which additionally needs `Require Verif.LoopTimerArith.') *)
(* qb_loop_timer_msec_duration_to_expire, including the uint64_t -> int32_t narrowing with the INT32_MAX clamp *)
Theorem C09_src_loop_msec_to_expire : forall st ts c1 c2 c3 c4 olock onow oepoch oget r tp,
  olock c1 = 0 -> onow c2 = clk st -> at_ (ents (heap st)) 0 r ->
  0 <= clk st < 2 ^ 64 -> 0 <= t_exp r < 2 ^ 64 -> 0 < hz st < 2 ^ 63 ->
  fst (fst (fst (fst (qb_loop_timer_msec_duration_to_expire ts c1 c2 c3 c4 (hz st) olock onow oepoch oget (t_exp r) 0 tp (size (heap st))))))
  = fst (msec_to_expire fixed st).
Proof. exact src_loop_msec_to_expire. Qed.
Print Assumptions C09_src_loop_msec_to_expire.
