(* MapSpec - the abstract specification shared by the three qb_map containers (C17 / C18).
   Self-contained, stdlib only, no proofs that depend on a container.

   keys   = C strings = list of bytes (N < 256, no 0 byte); the order is strcmp's (unsigned bytes)
   values = N (the harness uses small integers cast to void*; 0 = NULL = "nothing")
   dict   = association list WITHOUT duplicate keys, in insertion order (put of a new key appends,
            put of a present key replaces in place, rm deletes).  A container's iteration order is a
            function [ord : dict -> dict] of that list (a permutation of it): ascending by key for
            skiplist / trie, bucket-major for the hashtable.
   subs   = notifier subscriptions, newest first except that subscriptions carrying the FREE bit go last
            (qb_list_add vs qb_list_add_tail in *_notify_add); per-key subscriptions die with their key.
   The spec is a function  spec_step : flavour -> sstate -> op -> sstate * out * list notif ;
   C17 = "the container's outputs and notifier calls equal the spec's, for every history".
   C18 = predicates over traces (list of (op,out)) at the end of this file.                          *)
From Coq Require Import List NArith ZArith Bool Arith.
Import ListNotations.

Definition key := list N.
Definition val := N.

(* ---------- keys: strcmp order on unsigned bytes ---------- *)
Fixpoint key_eqb (a b : key) : bool :=
  match a, b with
  | [], [] => true
  | x :: a', y :: b' => N.eqb x y && key_eqb a' b'
  | _, _ => false
  end.

(* strcmp(a,b) < 0 *)
Fixpoint key_ltb (a b : key) : bool :=
  match a, b with
  | [], [] => false
  | [], _ :: _ => true
  | _ :: _, [] => false
  | x :: a', y :: b' => if N.ltb x y then true else if N.eqb x y then key_ltb a' b' else false
  end.

Fixpoint is_prefix (p k : key) : bool :=
  match p, k with
  | [], _ => true
  | x :: p', y :: k' => N.eqb x y && is_prefix p' k'
  | _ :: _, [] => false
  end.

Lemma key_eqb_refl : forall a, key_eqb a a = true.
Proof. induction a; simpl; auto. rewrite N.eqb_refl; auto. Qed.

Lemma key_eqb_eq : forall a b, key_eqb a b = true <-> a = b.
Proof.
  induction a; destruct b; simpl; split; intros H; try discriminate; auto.
  - apply andb_true_iff in H. destruct H as [H1 H2]. apply N.eqb_eq in H1. apply IHa in H2. congruence.
  - inversion H; subst. rewrite N.eqb_refl. simpl. apply key_eqb_refl.
Qed.

Lemma key_eqb_neq : forall a b, key_eqb a b = false <-> a <> b.
Proof.
  intros. split; intros H.
  - intro E. apply key_eqb_eq in E. congruence.
  - destruct (key_eqb a b) eqn:E; auto. apply key_eqb_eq in E. contradiction.
Qed.

Lemma key_eqb_sym : forall a b, key_eqb a b = key_eqb b a.
Proof.
  intros. destruct (key_eqb a b) eqn:E.
  - apply key_eqb_eq in E. subst. symmetry. apply key_eqb_refl.
  - symmetry. apply key_eqb_neq. apply key_eqb_neq in E. congruence.
Qed.

(* ---------- dictionary ---------- *)
Definition dict := list (key * val).

Fixpoint d_get (d : dict) (k : key) : option val :=
  match d with
  | [] => None
  | (k', v) :: t => if key_eqb k' k then Some v else d_get t k
  end.

Definition d_mem (d : dict) (k : key) : bool := match d_get d k with Some _ => true | None => false end.

Fixpoint d_remove (d : dict) (k : key) : dict :=
  match d with
  | [] => []
  | (k', v) :: t => if key_eqb k' k then t else (k', v) :: d_remove t k
  end.

Fixpoint d_replace (d : dict) (k : key) (v : val) : dict :=
  match d with
  | [] => []
  | (k', v') :: t => if key_eqb k' k then (k, v) :: t else (k', v') :: d_replace t k v
  end.

Definition d_put (d : dict) (k : key) (v : val) : dict :=
  if d_mem d k then d_replace d k v else d ++ [(k, v)].

Definition d_count (d : dict) : N := N.of_nat (length d).

(* ascending iteration order (skiplist, trie): insertion sort by key *)
Fixpoint ins_sorted (e : key * val) (l : dict) : dict :=
  match l with
  | [] => [e]
  | e' :: t => if key_ltb (fst e) (fst e') then e :: l else e' :: ins_sorted e t
  end.
Definition ord_sorted (d : dict) : dict := fold_right ins_sorted [] d.

(* ---------- notifiers ---------- *)
Definition EV_DELETED : N := 1.
Definition EV_REPLACED : N := 2.
Definition EV_INSERTED : N := 4.
Definition EV_RECURSIVE : N := 8.
Definition EV_FREE : N := 16.
Definition has_bit (events bit : N) : bool := negb (N.eqb (N.land events bit) 0).

(* a subscription: target key (None = the whole map), callback id, event mask, user data *)
Record sub := { sub_key : option key; sub_fn : N; sub_events : N; sub_ud : N }.
(* one callback invocation: callback id, user data, event, key, old value, new value *)
Record notif := { n_fn : N; n_ud : N; n_event : N; n_key : key; n_old : val; n_new : val }.

Definition okey_eqb (a b : option key) : bool :=
  match a, b with
  | None, None => true
  | Some x, Some y => key_eqb x y
  | _, _ => false
  end.

Definition mk_notif (s : sub) (ev : N) (k : key) (old new : val) : notif :=
  {| n_fn := sub_fn s; n_ud := sub_ud s; n_event := ev; n_key := k; n_old := old; n_new := new |}.

(* calls made for event [ev] on key [k]: the key's own subscriptions first, then the global ones; a global
   subscription with the FREE bit is additionally called with FREE after DELETED / REPLACED (the old value leaves) *)
Definition notify_key_subs (subs : list sub) (ev : N) (k : key) (old new : val) : list notif :=
  flat_map (fun s => if okey_eqb (sub_key s) (Some k) && has_bit (sub_events s) ev
                     then [mk_notif s ev k old new] else []) subs.
Definition notify_global_subs (subs : list sub) (ev : N) (k : key) (old new : val) : list notif :=
  flat_map (fun s => match sub_key s with
                     | Some _ => []
                     | None =>
                       (if has_bit (sub_events s) ev then [mk_notif s ev k old new] else []) ++
                       (if (N.eqb ev EV_DELETED || N.eqb ev EV_REPLACED) && has_bit (sub_events s) EV_FREE
                        then [mk_notif s EV_FREE k old new] else [])
                     end) subs.
Definition notify_spec (subs : list sub) (ev : N) (k : key) (old new : val) : list notif :=
  notify_key_subs subs ev k old new ++ notify_global_subs subs ev k old new.

Definition drop_key_subs (subs : list sub) (k : key) : list sub :=
  filter (fun s => negb (okey_eqb (sub_key s) (Some k))) subs.

(* ---------- operations and outputs ---------- *)
Inductive op :=
| Put (k : key) (v : val)
| Get (k : key)
| Rm (k : key)
| Count
| Foreach (stop : nat)                 (* qb_map_foreach; the callback returns non-zero at its stop-th call (0 = never) *)
| NotifyAdd (k : option key) (fn ev ud : N)
| NotifyDel (k : option key) (fn ev : N) (ud : option N)   (* Some ud = qb_map_notify_del_2 *)
| Destroy
| IterCreate (it : nat) (prefix : option key)   (* prefix is ignored by hashtable and skiplist *)
| IterNext (it : nat)
| IterFree (it : nat).

Inductive out :=
| ONone                                 (* put, destroy, iter_create, iter_free *)
| OVal (v : val)                        (* get: 0 = nothing *)
| OBool (b : bool)                      (* rm *)
| OCount (n : N)
| OEntries (l : list (key * val))       (* foreach: the entries handed to the callback, in order *)
| ORc (rc : Z)                          (* notify_add / notify_del *)
| ONext (r : option (key * val))        (* iter_next *)
| OIgnored.                             (* operation not applicable (unknown iterator id, map destroyed) *)

(* what differs between containers *)
Record flavour := {
  fl_ord : dict -> dict;               (* iteration order as a function of the insertion-ordered dictionary *)
  fl_rc_add_nokey : Z;                 (* notify_add on an absent key: -ENOENT (hashtable) / -EINVAL (skiplist) *)
  fl_rc_del_nokey : Z;                 (* notify_del on an absent key / nothing matched: -ENOENT *)
  fl_rc_exist : Z;                     (* -EEXIST *)
  fl_rc_einval : Z                     (* -EINVAL: qb_map_notify_add(key != NULL, FREE) *)
}.

Record sstate := { s_dict : dict; s_subs : list sub; s_alive : bool }.
Definition s_init : sstate := {| s_dict := []; s_subs := []; s_alive := true |}.

Definition take_stop (stop : nat) (l : dict) : dict :=
  match stop with O => l | _ => firstn stop l end.

(* *_notify_add: duplicate rules of the list walk *)
Definition sub_conflict (subs : list sub) (k : option key) (fn ev ud : N) : bool :=
  existsb (fun s => okey_eqb (sub_key s) k &&
                    ((has_bit ev EV_FREE && N.eqb (sub_events s) ev) ||
                     (N.eqb (sub_events s) ev && N.eqb (sub_ud s) ud && N.eqb (sub_fn s) fn))) subs.
Definition sub_match (k : option key) (fn ev : N) (ud : option N) (s : sub) : bool :=
  okey_eqb (sub_key s) k && N.eqb (sub_events s) ev && N.eqb (sub_fn s) fn &&
  match ud with None => true | Some u => N.eqb (sub_ud s) u end.

(* insert a subscription: newest first within its target, FREE-carrying ones last within their target.
   The relative order of subscriptions of different targets is irrelevant (notify_spec filters by target). *)
Definition sub_insert (subs : list sub) (s : sub) : list sub :=
  if has_bit (sub_events s) EV_FREE then subs ++ [s] else s :: subs.

Definition spec_step (fl : flavour) (s : sstate) (o : op) : sstate * out * list notif :=
  if negb (s_alive s) then (s, OIgnored, []) else
  match o with
  | Put k v =>
    match d_get (s_dict s) k with
    | Some old => ({| s_dict := d_replace (s_dict s) k v; s_subs := s_subs s; s_alive := true |}, ONone,
                   notify_spec (s_subs s) EV_REPLACED k old v)
    | None => ({| s_dict := s_dict s ++ [(k, v)]; s_subs := s_subs s; s_alive := true |}, ONone,
               notify_spec (s_subs s) EV_INSERTED k 0%N v)
    end
  | Get k => (s, OVal (match d_get (s_dict s) k with Some v => v | None => 0%N end), [])
  | Rm k =>
    match d_get (s_dict s) k with
    | Some old => ({| s_dict := d_remove (s_dict s) k; s_subs := drop_key_subs (s_subs s) k; s_alive := true |},
                   OBool true, notify_spec (s_subs s) EV_DELETED k old 0%N)
    | None => (s, OBool false, [])
    end
  | Count => (s, OCount (d_count (s_dict s)), [])
  | Foreach stop => (s, OEntries (take_stop stop (fl_ord fl (s_dict s))), [])
  | NotifyAdd k fn ev ud =>
    match k with
    | Some kk =>
      if has_bit ev EV_FREE then (s, ORc (fl_rc_einval fl), [])
      else if negb (d_mem (s_dict s) kk) then (s, ORc (fl_rc_add_nokey fl), [])
      else if sub_conflict (s_subs s) k fn ev ud then (s, ORc (fl_rc_exist fl), [])
      else ({| s_dict := s_dict s;
               s_subs := sub_insert (s_subs s) {| sub_key := k; sub_fn := fn; sub_events := ev; sub_ud := ud |};
               s_alive := true |}, ORc 0%Z, [])
    | None =>
      if sub_conflict (s_subs s) k fn ev ud then (s, ORc (fl_rc_exist fl), [])
      else ({| s_dict := s_dict s;
               s_subs := sub_insert (s_subs s) {| sub_key := k; sub_fn := fn; sub_events := ev; sub_ud := ud |};
               s_alive := true |}, ORc 0%Z, [])
    end
  | NotifyDel k fn ev ud =>
    if match k with Some kk => negb (d_mem (s_dict s) kk) | None => false end then (s, ORc (fl_rc_del_nokey fl), [])
    else if existsb (sub_match k fn ev ud) (s_subs s)
    then ({| s_dict := s_dict s; s_subs := filter (fun x => negb (sub_match k fn ev ud x)) (s_subs s); s_alive := true |},
          ORc 0%Z, [])
    else (s, ORc (fl_rc_del_nokey fl), [])
  | Destroy =>
    (* every remaining entry leaves the map: DELETED (+FREE) per entry, in iteration order *)
    ({| s_dict := []; s_subs := []; s_alive := false |}, ONone,
     flat_map (fun e => notify_spec (s_subs s) EV_DELETED (fst e) (snd e) 0%N) (fl_ord fl (s_dict s)))
  | IterCreate _ _ | IterNext _ | IterFree _ => (s, OIgnored, [])     (* iterators: see the trace predicates below *)
  end.

Fixpoint spec_run (fl : flavour) (s : sstate) (ops : list op) : list (out * list notif) :=
  match ops with
  | [] => []
  | o :: t => let '(s', r, n) := spec_step fl s o in (r, n) :: spec_run fl s' t
  end.

Fixpoint spec_state_after (fl : flavour) (s : sstate) (ops : list op) : sstate :=
  match ops with
  | [] => s
  | o :: t => spec_state_after fl (fst (fst (spec_step fl s o))) t
  end.

Definition is_iter_op (o : op) : bool :=
  match o with IterCreate _ _ | IterNext _ | IterFree _ => true | _ => false end.
Definition no_iter_ops (ops : list op) : bool := forallb (fun o => negb (is_iter_op o)) ops.

(* value-release ("FREE") accounting: the values that left the map during one step *)
Definition released (fl : flavour) (s : sstate) (o : op) : list (key * val) :=
  if negb (s_alive s) then [] else
  match o with
  | Put k _ => match d_get (s_dict s) k with Some old => [(k, old)] | None => [] end
  | Rm k => match d_get (s_dict s) k with Some old => [(k, old)] | None => [] end
  | Destroy => fl_ord fl (s_dict s)
  | _ => []
  end.
(* the FREE calls among a step's notifications, as (key, old value) pairs per FREE subscription *)
Definition free_calls (fn ud : N) (ns : list notif) : list (key * val) :=
  flat_map (fun n => if N.eqb (n_event n) EV_FREE && N.eqb (n_fn n) fn && N.eqb (n_ud n) ud
                     then [(n_key n, n_old n)] else []) ns.

(* ---------- C18: statements over traces ----------
   A trace is the list of (operation, output) pairs of a run.  The dictionary at each point is the spec's
   (iterator operations do not change it).  Iterator ids are used once (IterCreate of a used id is OIgnored).  *)
Definition trace := list (op * out).

Definition dict_after (fl : flavour) (s : sstate) (ops : list op) : dict :=
  s_dict (spec_state_after fl s ops).

(* keys returned by iterator [it] in a trace *)
Fixpoint returned_by (it : nat) (tr : trace) : list key :=
  match tr with
  | [] => []
  | (IterNext i, ONext (Some (k, _))) :: t => if Nat.eqb i it then k :: returned_by it t else returned_by it t
  | _ :: t => returned_by it t
  end.

(* the window of iterator [it]: the operations strictly after its IterCreate up to and including the
   IterNext that returned nothing (complete = true) or its IterFree / the end of the trace (complete = false) *)
Fixpoint window_from (it : nat) (tr : trace) : trace * bool :=
  match tr with
  | [] => ([], false)
  | (IterNext i, ONext None) as e :: t =>
    if Nat.eqb i it then ([e], true) else let '(w, c) := window_from it t in (e :: w, c)
  | (IterFree i, ONone) as e :: t =>
    if Nat.eqb i it then ([e], false) else let '(w, c) := window_from it t in (e :: w, c)
  | e :: t => let '(w, c) := window_from it t in (e :: w, c)
  end.

(* split a trace at the (first, accepted) creation of [it]: operations before it, and the rest *)
Fixpoint split_at_create (it : nat) (tr : trace) : option (trace * trace) :=
  match tr with
  | [] => None
  | (IterCreate i p, ONone) as e :: t =>
    if Nat.eqb i it then Some ([], t)
    else match split_at_create it t with Some (a, b) => Some (e :: a, b) | None => None end
  | e :: t => match split_at_create it t with Some (a, b) => Some (e :: a, b) | None => None end
  end.

Definition removes (k : key) (w : trace) : bool :=
  existsb (fun e => match fst e with Rm k' => key_eqb k' k | Destroy => true | _ => false end) w.
(* an insertion = a put of a key that is absent at that moment; [d] is the dictionary before the window *)
Fixpoint has_insertion (d : dict) (w : list op) : bool :=
  match w with
  | [] => false
  | Put k v :: t => if d_mem d k then has_insertion (d_replace d k v) t else true
  | Rm k :: t => has_insertion (d_remove d k) t
  | _ :: t => has_insertion d t
  end.
