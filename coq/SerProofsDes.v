(* C14 - bounds theorem about the repaired decoder of SerModel.v ([fx = true]): for ANY record bytes, any
   record length, any buffer size >= 1, any prior buffer content and any oracle that writes at most n bytes:
   no OutOfBounds, 1 <= ret <= n, NUL at ret-1, no read of the record at or beyond buf_len. *)
From Coq Require Import List ZArith Bool Lia.
Require Import Verif.gen.Consts_logfmt Verif.SerModel Verif.SerProofs.
Import ListNotations.
Open Scope Z_scope.

Definition des_good (blen n : Z) (o : outcome) : Prop :=
  exists ret buf hw, o = Done ret buf hw /\ 1 <= ret <= n /\ zlen buf = n /\ rd buf (ret - 1) = 0 /\ hw <= blen.

Definition dinv (blen n : Z) (st : dst) : Prop :=
  zlen (d_buf st) = n /\ 0 <= d_loc st < n /\ d_hw st <= blen /\ 0 <= d_pos st.

(* state right after a conversion: location may have run past the buffer *)
Definition dinv_loose (blen n : Z) (st : dst) : Prop :=
  zlen (d_buf st) = n /\ 0 <= d_loc st /\ d_hw st <= blen /\ 0 <= d_pos st.

Lemma MINI_val : LF_MINI_FORMAT_STR_LEN = 20.
Proof. reflexivity. Qed.

Lemma des_stop_good : forall blen n st, dinv blen n st -> des_good blen n (des_stop st).
Proof.
  intros blen n st [Hb [Hl [Hh Hp]]]. unfold des_stop.
  destruct (store_some (d_buf st) (d_loc st) 0) as [b [E L]]; [lia|].
  rewrite E. exists (d_loc st + 1), b, (d_hw st). repeat split; try lia.
  replace (d_loc st + 1 - 1) with (d_loc st) by lia. eapply rd_store_same; eauto.
Qed.

Lemma des_finish_good : forall blen n lit st, n < SIZE_MOD -> dinv blen n st -> des_good blen n (des_finish true n lit st).
Proof.
  intros blen n lit st Hn [Hb [Hl [Hh Hp]]]. unfold des_finish.
  rewrite wrapsz_small by lia.
  destruct (my_strlcpy_ok 2 (d_buf st) (d_loc st) lit (n - d_loc st)) as [b [k [Ek [Lb [Hk0 [_ [Hpz Hks]]]]]]]; try lia.
  rewrite Ek. destruct Hpz as [Hkm H0]; [lia|].
  exists (d_loc st + k + 1), b, (d_hw st). repeat split; try lia.
  replace (d_loc st + k + 1 - 1) with (d_loc st + k) by lia. exact H0.
Qed.

Lemma des_top_good : forall blen n st k, 1 <= n ->
  dinv_loose blen n st -> (forall st', dinv blen n st' -> des_good blen n (k st')) ->
  des_good blen n (des_top true n st k).
Proof.
  intros blen n st k Hn [Hb [Hl [Hh Hp]]] Hk. unfold des_top. cbn [andb].
  destruct (n <=? d_loc st) eqn:E.
  - destruct (store_some (d_buf st) (n - 1) 0) as [b [Eb L]]; [lia|].
    rewrite Eb. exists n, b, (d_hw st). repeat split; try lia. eapply rd_store_same; eauto.
  - apply Z.leb_gt in E. apply Hk. repeat split; auto; lia.
Qed.

Lemma zlen_rd_bytes : forall l i k, zlen (rd_bytes l i k) = Z.of_nat k.
Proof. intros l i k. revert i. induction k; intros; cbn [rd_bytes]; [reflexivity|]. rewrite zlen_cons, IHk. lia. Qed.

Lemma des_conv_good : forall snp rec blen n mini fpos c kind size adv st k,
  1 <= n < SIZE_MOD -> snp_writes_at_most_n snp ->
  zlen mini = LF_MINI_FORMAT_STR_LEN -> 0 <= fpos -> fpos + 2 <= LF_MINI_FORMAT_STR_LEN ->
  0 <= size -> 0 <= adv ->
  dinv blen n st -> (forall st', dinv blen n st' -> des_good blen n (k st')) ->
  des_good blen n (des_conv true snp rec blen n mini fpos c kind size adv st k).
Proof.
  intros snp rec blen n mini fpos c kind size adv st k Hn Hsnp Hm Hf0 Hf2 Hsz Hadv Hinv Hk.
  unfold des_conv. cbn [andb].
  destruct (blen <? d_pos st + size) eqn:E.
  - apply des_stop_good. exact Hinv.
  - apply Z.ltb_ge in E. destruct Hinv as [Hb [Hl [Hh Hp]]].
    destruct (store_some mini fpos c) as [m1 [E1 L1]]; [lia|]. rewrite E1.
    destruct (store_some m1 (fpos + 1) 0) as [m2 [E2 L2]]; [lia|]. rewrite E2.
    rewrite wrapsz_small by lia.
    pose proof (Hsnp (cstr m2) kind (rd_bytes rec (d_pos st) (Z.to_nat size)) (n - d_loc st) ltac:(lia)) as Hw.
    destruct (snp (cstr m2) kind (rd_bytes rec (d_pos st) (Z.to_nat size)) (n - d_loc st)) as [r w].
    cbn [snd] in Hw.
    destruct (store_bytes_some w (d_buf st) (d_loc st)) as [b [Eb Lb]]; [lia | lia |].
    rewrite Eb. apply des_top_good; [lia | | exact Hk].
    pose proof (wrap32_nonneg (d_loc st + r)). pose proof (wrap32_nonneg (d_pos st + adv)).
    repeat split; cbn; lia.
Qed.

Lemma des_put_good : forall blen n mini fpos c k,
  zlen mini = LF_MINI_FORMAT_STR_LEN -> 0 <= fpos -> fpos + 2 <= LF_MINI_FORMAT_STR_LEN ->
  (forall m1, zlen m1 = LF_MINI_FORMAT_STR_LEN -> des_good blen n (k m1 (fpos + 1))) ->
  des_good blen n (des_put mini fpos c k).
Proof.
  intros blen n mini fpos c k Hm H0 H2 Hk. unfold des_put.
  destruct (store_some mini fpos c) as [m1 [E1 L1]]; [lia|]. rewrite E1. apply Hk. lia.
Qed.

Lemma zlen_cstr_at_nonneg : forall l i, 0 <= zlen (cstr_at l i).
Proof. intros. apply zlen_nonneg. Qed.

Definition minv (m : dmode) : Prop :=
  match m with
  | DScan _ => True
  | DDir mini fpos _ _ => zlen mini = LF_MINI_FORMAT_STR_LEN /\ 0 <= fpos
  end.

Lemma des_go_good : forall snp rec blen n, 1 <= n < SIZE_MOD -> snp_writes_at_most_n snp ->
  forall k f m st, (length f <= k)%nat -> minv m -> dinv blen n st ->
  des_good blen n (des_go true snp rec blen n f m st).
Proof.
  intros snp rec blen n Hn Hsnp.
  assert (Hnil : forall m st, minv m -> dinv blen n st -> des_good blen n (des_go true snp rec blen n [] m st)).
  { intros m st Hm Hinv. destruct m as [lit|mini fpos tl tll]; cbn [des_go].
    - apply des_finish_good; [lia | exact Hinv].
    - cbn [andb]. destruct (LF_MINI_FORMAT_STR_LEN <? fpos + 2); [apply des_stop_good; exact Hinv|].
      apply des_top_good; [lia | | intros; apply des_finish_good; [lia | assumption]].
      destruct Hinv as [? [? [? ?]]]. repeat split; auto; lia. }
  induction k as [|k IH]; intros f m st Hlen Hm Hinv.
  { destruct f; [|cbn in Hlen; lia]. apply Hnil; assumption. }
  pose proof sizes_nonneg as [Hz1 [Hz2 [Hz3 [Hz4 [Hz5 [Hz6 Hz7]]]]]].
  assert (Hloose : dinv_loose blen n st).
  { destruct Hinv as [? [? [? ?]]]. repeat split; auto; lia. }
  destruct f as [|c f']; [apply Hnil; assumption|].
  cbn [length] in Hlen. assert (Hlen' : (length f' <= k)%nat) by lia.
  destruct m as [lit|mini fpos tl tll]; cbn [des_go].
  - (* DScan *)
    destruct (classify c) eqn:EC; try (apply IH; [exact Hlen' | exact I | exact Hinv]).
    + apply des_finish_good; [lia | exact Hinv].
    + (* CPct *) cbn [andb]. destruct Hinv as [Hb [Hl [Hh Hp]]].
      rewrite wrapsz_small by lia.
      destruct (n - d_loc st <=? zlen (rev lit)) eqn:E.
      * apply Z.leb_le in E.
        assert (Ht : zlen (takeZ (n - d_loc st - 1) (rev lit)) = n - d_loc st - 1) by (rewrite zlen_takeZ; lia).
        destruct (store_bytes_some (takeZ (n - d_loc st - 1) (rev lit) ++ [0]) (d_buf st) (d_loc st)) as [b [Eb Lb]]; [lia | |].
        { rewrite zlen_app, Ht. change (zlen [0]) with 1. lia. }
        rewrite Eb. exists n, b, (d_hw st). repeat split; try lia.
        replace (n - 1) with (d_loc st + zlen (takeZ (n - d_loc st - 1) (rev lit))) by lia.
        eapply store_bytes_last0; eauto. lia.
      * apply Z.leb_gt in E. pose proof (zlen_nonneg _ (rev lit)).
        destruct (store_bytes_some (rev lit) (d_buf st) (d_loc st)) as [b [Eb Lb]]; [lia | lia |].
        rewrite Eb.
        destruct (store_some blank_mini 0 37) as [m0 [E0 L0]]; [vm_compute; split; [discriminate | reflexivity]|].
        rewrite E0. apply IH; [exact Hlen' | | ].
        -- split; [rewrite L0; reflexivity | lia].
        -- pose proof (wrap32_bounds (d_loc st + zlen (rev lit))). repeat split; cbn; lia.
  - (* DDir *)
    destruct Hm as [Hmini Hfpos]. cbn [andb]. pose proof MINI_val as HMV.
    destruct (LF_MINI_FORMAT_STR_LEN <? fpos + 2) eqn:EM; [apply des_stop_good; exact Hinv|].
    apply Z.ltb_ge in EM.
    assert (Hfin : des_good blen n (des_top true n st (fun st' => des_finish true n [] st'))).
    { apply des_top_good; [lia | exact Hloose | intros; apply des_finish_good; [lia | assumption]]. }
    assert (Hnext : forall st', dinv blen n st' -> des_good blen n (des_go true snp rec blen n f' (DScan []) st')).
    { intros. apply IH; [exact Hlen' | exact I | assumption]. }
    assert (Hput : forall tl' tll', des_good blen n
              (des_put mini fpos c (fun m1 p1 => des_go true snp rec blen n f' (DDir m1 p1 tl' tll') st))).
    { intros. apply des_put_good; auto. intros. apply IH; [exact Hlen' | split; [assumption | lia] | exact Hinv]. }
    destruct (classify c) eqn:EC.
    + exact Hfin.
    + apply Hput.
    + apply Hput.
    + apply Hput.
    + (* CStar *)
      destruct (blen <? d_pos st + LF_SIZEOF_INT) eqn:E; [apply des_stop_good; exact Hinv|].
      apply Z.ltb_ge in E.
      rewrite wrapsz_small by (rewrite SIZE_MOD_val; lia).
      set (digits := dec (to_signed (8 * LF_SIZEOF_INT) (le_val (rd_bytes rec (d_pos st) (Z.to_nat LF_SIZEOF_INT))))).
      replace (LF_MINI_FORMAT_STR_LEN - fpos =? 0) with false by (symmetry; apply Z.eqb_neq; lia).
      pose proof (zlen_nonneg _ digits) as Hd.
      destruct (store_bytes_some (takeZ (LF_MINI_FORMAT_STR_LEN - fpos - 1) digits ++ [0]) mini fpos) as [m1 [E1 L1]]; [lia | |].
      { rewrite zlen_app, zlen_takeZ. change (zlen [0]) with 1. lia. }
      rewrite E1. destruct Hinv as [Hb [Hl [Hh Hp]]].
      apply IH; [exact Hlen' | split; [lia | lia] | ].
      pose proof (wrap32_nonneg (d_pos st + LF_SIZEOF_INT)). repeat split; cbn; lia.
    + (* CEll *)
      apply des_put_good; auto. intros m1 Hm1.
      destruct f' as [|c2 f'']; [apply IH; [exact Hlen' | split; [assumption | lia] | exact Hinv]|].
      destruct c2 as [|p|p]; try (apply IH; [exact Hlen' | split; [assumption | lia] | exact Hinv]).
      do 7 (destruct p as [p|p|]; try (apply IH; [exact Hlen' | split; [assumption | lia] | exact Hinv])).
    + (* CZee *)
      apply des_put_good; auto. intros m1 Hm1.
      destruct (LF_SIZEOF_SIZE_T =? LF_SIZEOF_LLONG); apply IH; try exact Hlen'; try exact Hinv; split; try assumption; lia.
    + apply des_put_good; auto. intros m1 Hm1.
      destruct (LF_SIZEOF_PTRDIFF =? LF_SIZEOF_LLONG); apply IH; try exact Hlen'; try exact Hinv; split; try assumption; lia.
    + apply des_put_good; auto. intros m1 Hm1.
      destruct (LF_SIZEOF_INTMAX =? LF_SIZEOF_LLONG); apply IH; try exact Hlen'; try exact Hinv; split; try assumption; lia.
    + (* CInt *)
      destruct tl; [|destruct tll]; apply des_conv_good; auto; lia.
    + apply des_conv_good; auto; lia.
    + apply des_conv_good; auto; lia.
    + (* CStr *)
      pose proof (zlen_cstr_at_nonneg rec (d_pos st)) as Hs.
      destruct ((blen <? d_pos st + 1) || (blen - d_pos st <=? zlen (cstr_at rec (d_pos st)))) eqn:E.
      * apply des_stop_good. destruct Hinv as [Hb [Hl [Hh Hp]]].
        split; [exact Hb|]. split; [exact Hl|]. split; [|exact Hp]. cbn.
        destruct (blen <? d_pos st + 1); lia.
      * apply orb_false_iff in E. destruct E as [Ea Eb]. apply Z.ltb_ge in Ea. apply Z.leb_gt in Eb.
        destruct Hinv as [Hb [Hl [Hh Hp]]].
        destruct (store_some mini fpos c) as [m1 [E1 L1]]; [lia|]. rewrite E1.
        destruct (store_some m1 (fpos + 1) 0) as [m2 [E2 L2]]; [lia|]. rewrite E2.
        rewrite wrapsz_small by lia.
        pose proof (Hsnp (cstr m2) 6 (cstr_at rec (d_pos st)) (n - d_loc st) ltac:(lia)) as Hw.
        destruct (snp (cstr m2) 6 (cstr_at rec (d_pos st)) (n - d_loc st)) as [r w]. cbn [snd] in Hw.
        destruct (store_bytes_some w (d_buf st) (d_loc st)) as [b [Ebb Lb]]; [lia | lia |].
        rewrite Ebb. apply des_top_good; [lia | | exact Hnext].
        pose proof (wrap32_nonneg (d_loc st + r)). pose proof (wrap32_nonneg (d_pos st + zlen (cstr_at rec (d_pos st)) + 1)).
        repeat split; cbn; lia.
    + apply des_conv_good; auto; lia.
    + (* CPct *)
      destruct Hinv as [Hb [Hl [Hh Hp]]].
      destruct (store_some (d_buf st) (d_loc st) 37) as [b [Eb Lb]]; [lia|]. rewrite Eb.
      apply des_top_good; [lia | | exact Hnext].
      pose proof (wrap32_nonneg (d_loc st + 1)). repeat split; cbn; lia.
    + (* COther *)
      apply des_top_good; [lia | exact Hloose |].
      intros. apply IH; [exact Hlen' | exact I | assumption].
Qed.

Theorem deserialize_bounds : forall snp rec blen n garbage,
  1 <= n < SIZE_MOD -> zlen garbage = n -> snp_writes_at_most_n snp ->
  des_good blen n (deserialize true snp rec blen n garbage).
Proof.
  intros snp rec blen n garbage Hn Hg Hsnp. unfold deserialize.
  destruct (store_some garbage 0 0) as [b0 [E0 L0]]; [lia|]. rewrite E0. cbn [andb].
  destruct (blen <=? zlen (cstr rec)) eqn:E.
  - exists 1, b0, blen. split; [reflexivity|]. split; [lia|]. split; [lia|]. split; [|lia].
    replace (1 - 1) with 0 by lia. eapply rd_store_same; eauto.
  - apply Z.leb_gt in E. pose proof (zlen_nonneg _ (cstr rec)).
    apply des_top_good; [lia | | ].
    + pose proof (wrap32_nonneg (zlen (cstr rec) + 1)). repeat split; cbn; lia.
    + intros. apply des_go_good with (k := length (cstr rec)); auto.
      exact I.
Qed.
