(* Extraction of the C01 interleaving model.  ExtrOcamlBasic only: bool/option/unit/list/prod/sumbool/sum
   map to the OCaml types of the same shape; Z, N, positive, nat stay inductive; no Extract Constant. *)
From Coq Require Import ExtrOcamlBasic.
Require Import Verif.gen.Consts_rbconc Verif.RbModel Verif.RbConcModel.
Extraction "model_C01.ml" open_shared init load step set_hsem quiescent ldw ld
  hW hwpt hrpt hmem hsem g_sh g_w g_r g_pub g_got g_err w_prog r_prog w_k r_k RBC_HDR_WPT_IDX RBC_HDR_RPT_IDX.
