(* C01: concrete runs of the interleaving model (non-vacuity of the hypotheses of the property theorems). *)
From Coq Require Import ZArith List Bool Lia.
Import ListNotations.
Require Import Verif.gen.Consts_rb Verif.gen.Consts_rbconc Verif.RbModel Verif.RbSpec Verif.RbProofs
  Verif.RbConcModel Verif.RbConcProofs Verif.RbConcProofsInv Verif.RbConcProofsTok Verif.RbConcProofsTok2.
Local Open Scope Z_scope.

Fixpoint times {A} (n : nat) (x : A) : list A := match n with O => [] | S k => x :: times k x end.

(* a 16-word ring with a semaphore, both pointers at word 13, stale memory: the marker word everywhere *)
Definition ex_ring : shared :=
  {| hW := 16; hwpt := 13; hrpt := 13;
     hmem := fold_left (fun m i => stw m (Z.of_nat i) RB_CHUNK_MAGIC) (seq 0 16) mem0; hsem := Some 0 |}.

(* writer: [1..5] (4 words: header at 13,14, payload at 15 and - wrapped - 0), then [a1 a1 a1 a1], then a
   chunk that is refused; reader: blocking read, blocking peek.
   The two threads alternate step by step. *)
Definition ex_sched : list tid := flat_map (fun _ => [TW; TR]) (seq 0 60).

Definition ex_state : state :=
  exec ex_sched (init ex_ring
                      [WWrite [1; 2; 3; 4; 5]; WWrite [161; 161; 161; 161]; WWrite (repeat 7 40)]
                      [RRead 64 true; RPeek true]).

Lemma ex_ring_wf : wf_ring ex_ring.
Proof. unfold wf_ring, sem_ok; cbn [ex_ring hW hwpt hrpt hsem]. vm_compute. repeat split; congruence. Qed.

Lemma ex_run_ok :
  wf_ring ex_ring /\
  g_pub ex_state = [[1; 2; 3; 4; 5]; [161; 161; 161; 161]] /\
  g_got ex_state = [Some [1; 2; 3; 4; 5]] /\
  r_have (g_r ex_state) = true /\ r_buf (g_r ex_state) = [161; 161; 161; 161] /\
  hwpt (g_sh ex_state) = 4 /\ hrpt (g_sh ex_state) = 1 /\ g_err ex_state = false /\
  w_prog (g_w ex_state) = [].
Proof. split; [exact ex_ring_wf|]. vm_compute. repeat split; reflexivity. Qed.

(* the same run continued (new reader program: reclaim) until the ring is empty and both threads are idle *)
Definition ex_drained : state := exec (times 20 TR) (load ex_state [] [RReclaim]).

Lemma ex_drained_ok :
  quiescent ex_drained = true /\ hrpt (g_sh ex_drained) = hwpt (g_sh ex_drained) /\
  g_got ex_drained = [Some [1; 2; 3; 4; 5]; Some [161; 161; 161; 161]].
Proof. vm_compute. repeat split; reflexivity. Qed.

(* a reader blocked in qb_rb_chunk_read(timeout -1) until the writer has published and posted; the state just before
   the reader's read_pt store, and the idle state after it (one chunk consumed, one unread, one token) *)
Definition ex2_init : state := init ex_ring [WWrite [1; 2; 3; 4; 5]; WWrite [9; 9]] [RRead 64 true].
Definition ex2_before : state := exec (times 60 TW ++ times 18 TR) ex2_init.
Definition ex2_after : state := exec (times 60 TW ++ times 40 TR) ex2_init.

Lemma ex2_read_return :
  Inv ex2_before /\ is_read (rcur (g_r ex2_before)) = true /\
  exists s' lab, step TR ex2_before = Some (s', (lab, Some (5, [1; 2; 3; 4; 5]))).
Proof.
  split; [apply all_inv; exact ex_ring_wf|]. split; [vm_compute; reflexivity|].
  destruct (step TR ex2_before) as [[s' [lab r]]|] eqn:E.
  - assert (r = Some (5, [1; 2; 3; 4; 5])).
    { assert (H : match step TR ex2_before with Some (_, (_, x)) => x | None => None end = Some (5, [1; 2; 3; 4; 5]))
        by (vm_compute; reflexivity).
      rewrite E in H. exact H. }
    subst r. exists s', lab. reflexivity.
  - exfalso. assert (H : match step TR ex2_before with Some _ => true | None => false end = true) by (vm_compute; reflexivity).
    rewrite E in H. discriminate.
Qed.

Lemma ex2_tokens :
  Forall (fun c => is_peek c = false) [RRead 64 true] /\ quiescent ex2_after = true /\ hsem (g_sh ex2_after) = Some 1 /\
  length (g_pub ex2_after) = 2%nat /\ length (g_got ex2_after) = 1%nat.
Proof. split; [repeat constructor|]. vm_compute. repeat split; reflexivity. Qed.

(* the IPC server pattern: peek, then reclaim.  After the successful peek the reader is between calls holding the
   peeked chunk: 2 chunks unread, 1 token in the semaphore, 1 token held - the bound of C01_tokens_peek_reclaim is tight *)
Definition ex3_state : state :=
  exec (times 60 TW ++ times 11 TR)
       (init ex_ring [WWrite [1; 2; 3; 4; 5]; WWrite [9; 9]] [RPeek true; RReclaim; RRead 64 true]).

Lemma ex3_ok :
  wf_ring ex_ring /\ hsem ex_ring = Some 0 /\
  r_pc (g_r ex3_state) = RCall /\ r_have (g_r ex3_state) = true /\ hsem (g_sh ex3_state) = Some 1 /\
  length (g_pub ex3_state) = 2%nat /\ length (g_got ex3_state) = 0%nat.
Proof. split; [exact ex_ring_wf|]. vm_compute. repeat split; reflexivity. Qed.

(* a run in which a peek fails (empty ring), the next ones succeed and are each followed by a reclaim: the run condition
   of C01_tokens_when_peeks_are_reclaimed holds although the program is not of the static peek-reclaim shape *)
Definition ex4_init : state :=
  init ex_ring [WWrite [1; 2; 3; 4; 5]; WWrite [9; 9]]
       [RPeek false; RPeek true; RReclaim; RPeek true; RReclaim; RPeek false].
Definition ex4_sched : list tid := times 3 TR ++ times 60 TW ++ times 22 TR.

Lemma ex4_ok :
  every_prefix (fun x => next_is_reclaim (g_r x)) ex4_sched ex4_init /\
  let s := exec ex4_sched ex4_init in
  hsem (g_sh s) = Some 0 /\ length (g_pub s) = 2%nat /\ length (g_got s) = 1%nat /\ held (g_r s) = 1.
Proof. split; [apply every_prefixb_sound; vm_compute; reflexivity|]. vm_compute. repeat split; reflexivity. Qed.
