(* The two defects of the unrepaired lib/ringbuffer.c, exhibited on the faithful transcription of the
   unrepaired code (RbModel.v: *_unfixed) by computation.  The same scripts are replayed on the real
   library by props/C07.py and props/C11.py (corpus). *)
From Coq Require Import ZArith List Bool.
Import ListNotations.
Require Import Verif.gen.Consts_rb Verif.RbModel.
Local Open Scope Z_scope.

Fixpoint repeat_pat (pat : list Z) (n : nat) : list Z :=
  match n with O => [] | S k => pat ++ repeat_pat pat k end.

(* 3000 bytes of the little-endian words 8, QB_RB_CHUNK_MAGIC alternating *)
Definition marker_payload : list Z := repeat_pat [8; 0; 0; 0; 161; 161; 161; 161] 375.
Definition filler (n : nat) : list Z := repeat 7 n.

(* NO_SEMAPHORE ring of size 100: write 3000 B; read; write 1096 B; read; read again.
   Result: the return values of the three reads. *)
Definition phantom_demo : option (Z * Z * Z * list Z) :=
  let b0 := rb_open 100 true false in
  match write_unfixed b0 marker_payload with
  | WRet b1 _ =>
      let '(b2, r2, _) := read_unfixed b1 70000 in
      match write_unfixed b2 (filler 1096) with
      | WRet b3 _ =>
          let '(b4, r4, _) := read_unfixed b3 70000 in
          let '(b5, r5, bytes5) := read_unfixed b4 70000 in
          Some (r2, r4, r5, bytes5)
      | WFuel => None
      end
  | WFuel => None
  end.

(* two chunks were written and both were read; the third read, on the now empty ring, returns an
   8-byte chunk that nobody wrote *)
Lemma phantom_chunk_unfixed : phantom_demo = Some (3000, 1096, 8, [8; 0; 0; 0; 161; 161; 161; 161]).
Proof. vm_compute. reflexivity. Qed.

(* the same script on the repaired transcription: the third read fails *)
Definition phantom_demo_fixed : option (Z * Z * Z) :=
  let b0 := rb_open 100 true false in
  match write b0 marker_payload with
  | WRet b1 _ =>
      let '(b2, r2, _) := read b1 70000 in
      match write b2 (filler 1096) with
      | WRet b3 _ =>
          let '(b4, r4, _) := read b3 70000 in
          let '(b5, r5, _) := read b4 70000 in
          Some (r2, r4, r5)
      | WFuel => None
      end
  | WFuel => None
  end.
Lemma phantom_chunk_fixed : phantom_demo_fixed = Some (3000, 1096, - RB_ETIMEDOUT).
Proof. vm_compute. reflexivity. Qed.

(* semaphore ring, "write; reclaim" leaves the count at 1 on an empty ring: the unrepaired
   qb_rb_space_free reports 0 bytes free and the empty ring refuses a 4-byte chunk *)
Definition stuck_demo : option (Z * Z) :=
  let b0 := rb_open 100 false false in
  match write_unfixed b0 [1; 2; 3; 4] with
  | WRet b1 r1 =>
      let '(b2, _) := reclaim_unfixed b1 in
      match write_unfixed b2 [5; 6; 7; 8] with
      | WRet _ r3 => Some (r1, r3)
      | WFuel => None
      end
  | WFuel => None
  end.
Lemma empty_ring_refuses_unfixed : stuck_demo = Some (4, - RB_EAGAIN).
Proof. vm_compute. reflexivity. Qed.

(* overwrite ring with the default (semaphore) notifier, size 3000: the second 3000-byte write
   reclaims the first chunk, then sees "0 bytes free" and fails with EINVAL; so does every later write *)
Definition ow_stuck_demo : option (Z * Z * Z) :=
  let b0 := rb_open 3000 false true in
  match write_unfixed b0 (filler 3000) with
  | WRet b1 r1 =>
      match write_unfixed b1 (filler 3000) with
      | WRet b2 r2 =>
          match write_unfixed b2 (filler 10) with
          | WRet _ r3 => Some (r1, r2, r3)
          | WFuel => None
          end
      | WFuel => None
      end
  | WFuel => None
  end.
Lemma overwrite_ring_dies_unfixed : ow_stuck_demo = Some (3000, - RB_EINVAL, - RB_EINVAL).
Proof. vm_compute. reflexivity. Qed.
