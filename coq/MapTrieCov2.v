(* C18 trie part, coverage (2): the key stored in the node with a given id survives the primitive tree operations. *)
From Coq Require Import List ZArith Bool Arith Lia.
Import ListNotations.
Require Import Verif.gen.Consts_trie Verif.MapTrieModel Verif.MapTrieProofs Verif.MapTrieProofs2 Verif.MapTrieProofs3
               Verif.MapTrieIter Verif.MapTrieIter2 Verif.MapTrieIds Verif.MapTrieIter3 Verif.MapTrieIter4
               Verif.MapTrieSafe1 Verif.MapTrieSafe2 Verif.MapTrieCov1.

(* the node with id x exists and stores key k *)
Definition kof (r : tnode) (x : nat) (k : key) : Prop :=
  exists p tn, get_at r p = Some tn /\ n_id (t_info tn) = x /\ n_key (t_info tn) = Some k.

Lemma get_at_upd_other' : forall p q n g tn, p <> q -> get_at n q = Some tn ->
  exists tn', get_at (upd_t n p g) q = Some tn' /\ t_info tn' = t_info tn.
Proof.
  intros p q n g tn H G. pose proof (info_at_upd_other p q n g H) as I. unfold info_at in I. rewrite G in I.
  destruct (get_at (upd_t n p g) q) as [tn'|]; [|discriminate]. inversion I. eauto.
Qed.

(* an info update that keeps ids, and keeps the key of the node with id x *)
Lemma kof_upd : forall r p g x k, kof r x k -> (forall i, n_id (g i) = n_id i) ->
  (forall tn, get_at r p = Some tn -> n_id (t_info tn) = x -> n_key (g (t_info tn)) = n_key (t_info tn)) ->
  kof (upd_t r p g) x k.
Proof.
  intros r p g x k [q [tq [G [E K]]]] Hid Hk. destruct (list_eq_dec Nat.eq_dec p q) as [e|e].
  - subst q. destruct tq as [i sg fc]. exists p, (TN (g i) sg fc). split; [apply get_at_upd; exact G|].
    pose proof (Hk _ G E) as X. simpl in *. rewrite Hid. split; auto. rewrite X. exact K.
  - destruct (get_at_upd_other' p q r g tq e G) as [tq' [G' T]]. exists q, tq'. rewrite T. auto.
Qed.

Lemma kof_release : forall r p x k, kof r x k -> kof (release r p) x k.
Proof.
  intros r p x k [q [tq [G [E K]]]]. unfold release.
  pose proof (rel_survive p r true q tq G) as SV. rewrite K in SV. specialize (SV ltac:(discriminate)).
  destruct (rel_t r p true) as [r'|]; [|contradiction]. destruct SV as [tq' [G' T]].
  exists q, tq'. rewrite T. auto.
Qed.

(* trie_node_deref: fine unless x is the node itself and this was its last reference *)
Lemma kof_deref : forall r p x k, kof r x k ->
  (forall tn, get_at r p = Some tn -> n_id (t_info tn) = x -> 2 <= n_rc (t_info tn)) ->
  kof (fst (node_deref r p)) x k.
Proof.
  intros r p x k H Hrc. unfold node_deref. destruct (get_at r p) as [[i sg fc]|] eqn:G; [|exact H].
  destruct (alive_i i); [|exact H].
  assert (H1 : kof (upd_t r p (fun i0 => set_rc (n_rc i0 - 1) i0)) x k).
  { apply kof_upd; auto. }
  destruct (0 <? n_rc i - 1) eqn:Z; simpl; [exact H1|].
  apply Nat.ltb_ge in Z.
  unfold node_destroy. rewrite (get_at_upd _ _ _ _ _ _ G). cbn [set_rc n_val].
  destruct (n_val i); simpl; [|exact H1].
  apply kof_release. apply kof_upd; auto.
  intros tn Gt Et. exfalso. rewrite (get_at_upd _ _ _ _ _ _ G) in Gt. inversion Gt; subst tn. simpl in Et.
  specialize (Hrc _ eq_refl Et). simpl in Hrc. lia.
Qed.

Lemma kof_ref : forall r p x k, kof r x k -> kof (node_ref r p) x k.
Proof. intros. destruct p; auto. unfold node_ref. apply kof_upd; auto. Qed.

(* repaired trie_insert *)
Lemma kof_ins : forall fx r k0 nid r1 p nid' x k, f_split fx = true -> (forall y, cnt_t r y <= 1) ->
  (forall y, nid <= y -> cnt_t r y = 0) -> all_t wfi r -> ins_t fx r k0 true nid = (r1, p, nid') ->
  kof r x k -> kof r1 x k.
Proof.
  intros fx r k0 nid r1 p nid' x k Hfx U B W I [q [tq [G [E K]]]].
  destruct (ins_cnt fx _ _ (le_n _) _ _ _ _ _ _ W I) as [_ C].
  assert (C1 : 1 <= cnt_t r1 x). { rewrite C. pose proof (cnt_get _ _ _ G). rewrite E in H. lia. }
  destruct (proj1 cnt_path r1 x C1) as [q1 [tq1 [G1 E1]]].
  exists q1, tq1. split; auto. split; auto.
  rewrite (ins_info_by_id fx r k0 nid r1 p nid' q tq Hfx U B W I G q1 tq1 G1); [exact K|congruence].
Qed.
