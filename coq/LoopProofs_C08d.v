(* C08 - every API call, every callback, every dispatch, every turn and every run preserves the invariant. *)
Require Import ZArith List Bool Lia.
Require Import Verif.gen.Consts_loop Verif.LoopModel Verif.LoopProofs_C08a Verif.LoopProofs_C08b Verif.LoopProofs_C08c.
Import ListNotations.
Open Scope Z_scope.

Definition ok (st st' : state) : Prop := inv st' /\ opframe st st'.
Lemma ok_trans : forall a b c, ok a b -> ok b c -> ok a c.
Proof. intros a b c [_ F1] [I2 F2]. split; [exact I2|eapply opframe_trans; eauto]. Qed.
Lemma ok_emit_neutral : forall e st, neutral e -> inv st -> ok st (emit e st).
Proof. intros. split; [apply inv_emit_neutral; auto|apply opframe_emit]. Qed.
Lemma ok_same_core : forall st st', same_core st st' -> stop st' = stop st -> inv st -> ok st st'.
Proof. intros. split; [eapply inv_same_core; eauto|apply opframe_same_core; auto]. Qed.

(* ------------------------------------------------------------------ one API call *)
Lemma exec_op_ok : forall o st, inv st -> ok st (exec_op o st).
Proof.
  intros o st I. unfold exec_op.
  assert (E : ok st (emit (EvOp o) st)) by (apply ok_emit_neutral; [exact Logic.I|exact I]).
  destruct E as [I0 F0]. set (s0 := emit (EvOp o) st) in *.
  assert (R : forall tag (r : Z * state), ok s0 (snd r) -> ok st (ret tag r)).
  { intros tag r [A B]. unfold ret. apply (ok_trans st s0); [split; assumption|]. apply (ok_trans s0 (snd r)); [split; assumption|].
    apply ok_emit_neutral; [exact Logic.I|exact A]. }
  destruct o.
  - apply R. apply job_add_ok. exact I0.
  - apply R. apply job_del_ok. exact I0.
  - apply R. apply timer_add_ok. exact I0.
  - apply R. apply timer_del_ok; [exact I0|]. apply inv_r_assoc. destruct I0 as (_ & _ & _ & _ & _ & _ & X & _). exact X.
  - apply R. cbn [snd]. split; [exact I0|apply opframe_refl].
  - apply R. apply poll_add_gen_ok. exact I0.
  - apply R. apply poll_mod_ok. exact I0.
  - apply R. apply poll_del_ok. exact I0.
  - apply R. apply signal_add_ok. exact I0.
  - apply R. apply signal_mod_ok. exact I0.
  - apply R. apply signal_del_ok. exact I0.
  - (* stop *) apply (ok_trans st s0); [split; assumption|]. split.
    + eapply inv_same_core; [|exact I0]. constructor; reflexivity.
    + constructor.
      * intros; apply Z.le_refl.
      * intros i H; exact H.
      * intros i u H; exact H.
      * intros _; reflexivity.
      * cbn; lia.
      * exists []. reflexivity.
  - (* close *) apply (ok_trans st s0); [split; assumption|]. apply ok_same_core; [constructor; reflexivity|reflexivity|exact I0].
  - (* raise *) apply (ok_trans st s0); [split; assumption|]. unfold raise_signal. destruct (existsb _ _).
    + apply ok_same_core; [constructor; reflexivity|reflexivity|exact I0].
    + split; [exact I0|apply opframe_refl].
Qed.
Lemma exec_ops_ok : forall ops st, inv st -> ok st (exec_ops ops st).
Proof.
  induction ops as [|o ops IH]; intros st I; [split; [exact I|apply opframe_refl]|].
  unfold exec_ops. cbn [fold_left]. destruct (exec_op_ok o st I) as [I1 F1].
  apply (ok_trans st (exec_op o st)); [split; assumption|]. apply IH. exact I1.
Qed.
Lemma callback_ok : forall beh kind key a b st, inv st -> ok st (snd (callback beh kind key a b st)).
Proof.
  intros beh kind key a b st I. unfold callback.
  set (s1 := set_cnt _ (emit (EvCb kind key a b) st)).
  assert (O1 : ok st s1).
  { apply (ok_trans st (emit (EvCb kind key a b) st)); [apply ok_emit_neutral; [exact Logic.I|exact I]|].
    apply ok_same_core; [constructor; reflexivity|reflexivity|apply inv_emit_neutral; [exact Logic.I|exact I]]. }
  destruct (beh key (assoc key (cnt st))) as [ops r]. cbn [snd].
  apply (ok_trans st s1); [exact O1|]. apply exec_ops_ok. destruct O1; assumption.
Qed.

(* ------------------------------------------------------------------ items going onto a job list *)
Lemma inv_item_add : forall p it st, inv st -> occ_all it st = 0 ->
  match it with
  | QJob _ _ => False
  | QTimer i => exists t, nth_error (timers st) i = Some t /\ t_state t = Joblist /\ ~ gone (out st) 1 (t_uid t)
  | QFd i => exists e, nth_error (polls st) i = Some e /\ p_state e = Joblist
  | QSig u f _ _ => u < next_uid st /\ live_sig st f
  end ->
  inv (item_add p it st).
Proof.
  intros p it st (I0 & IT & IP & IS & IQ & IG & IR & IRA & IF) Z K.
  set (st' := item_add p it st). unfold inv.
  change (timers st') with (timers st). change (polls st') with (polls st). change (sigs st') with (sigs st).
  change (next_uid st') with (next_uid st). change (regs st') with (regs st). change (fx st') with (fx st).
  split; [exact I0|]. split; [exact IT|]. split; [exact IP|]. split; [exact IS|].
  split; [|split; [|split; [exact IR|split; [exact IRA|exact IF]]]].
  - destruct IQ as (Q1 & Q2 & Q3 & Q4 & Q5 & Q6 & Q7). unfold inv_q.
    change (timers st') with (timers st). change (polls st') with (polls st). change (next_uid st') with (next_uid st).
    assert (LS : forall f, live_sig st' f <-> live_sig st f) by (intros; reflexivity).
    split; [|split; [|split; [|split; [|split; [|split]]]]].
    + intros x. unfold st'. rewrite occ_all_item_add. destruct (qitem_eqb x it) eqn:E.
      * unfold occ_all in *. rewrite (occ_eqb x it (all_items st) E). lia.
      * specialize (Q1 x). lia.
    + intros i H. apply in_all_item_add in H. destruct H as [H|H]; [auto|]. subst it. destruct K as (t & A & B & _). eauto.
    + intros i H. apply in_all_item_add in H. destruct H as [H|H]; [auto|]. subst it. exact K.
    + intros a f g k H. apply in_all_item_add in H. destruct H as [H|H]; [exact (Q4 a f g k H)|]. subst it. apply K.
    + intros a k H. apply in_all_item_add in H. destruct H as [H|H]; [eauto|]. subst it. destruct K.
    + intros a f g k H. apply in_all_item_add in H. destruct H as [H|H]; [eauto|]. subst it. apply K.
    + intros q x H. unfold st', item_add, upd_level, set_lv in H. cbn in H. destruct (prio_eqb q p); cbn in H; eauto.
  - destruct IG as (G1 & G2 & G3). unfold inv_g. change (out st') with (out st). change (next_uid st') with (next_uid st).
    split; [exact G1|]. split; [|exact G3].
    intros k a Hg Hl. destruct Hl as [[Kk (key' & H)]|[[Kk (i & t & A & B & C)]|[[Kk H]|[Kk H]]]].
    + apply in_all_item_add in H. destruct H as [H|H].
      * apply (G2 k a Hg). left. split; [exact Kk|]. exists key'. exact H.
      * subst it. destruct K.
    + destruct C as [C|[C D]].
      * apply (G2 k a Hg). right; left. split; [exact Kk|]. exists i, t. auto.
      * apply in_all_item_add in D. destruct D as [D|D].
        -- apply (G2 k a Hg). right; left. split; [exact Kk|]. exists i, t. auto.
        -- subst it. destruct K as (t' & A' & _ & NG). change (timers st') with (timers st) in A. rewrite A in A'. inversion A'; subst t'.
           subst k a. exact (NG Hg).
    + apply (G2 k a Hg). right; right; left. auto.
    + apply (G2 k a Hg). right; right; right. auto.
Qed.

(* ------------------------------------------------------------------ get_more_jobs *)
Lemma more_jobs_level_inv : forall p n st, inv st -> inv (snd (more_jobs_level p (n, st))).
Proof.
  intros p n st I. unfold more_jobs_level. destruct (wait (lv st p)) as [|w ws] eqn:W; [exact I|]. cbn [snd].
  eapply inv_shrinks; [|exact I]. constructor; try reflexivity.
  - intros x. rewrite occ_all_upd_level. cbn [jobq wait]. rewrite occ_app, W. cbn [occ]. lia.
  - intros it H. apply in_all_upd_level in H. cbn [jobq wait] in H. destruct H as [H|[H|[]]]; [exact H|].
    apply in_app_or in H. apply in_all_items. exists p. rewrite W. tauto.
  - intros q it H. unfold upd_level, set_lv in H. cbn in H. destruct (prio_eqb q p); [destruct H|exact H].
Qed.
Lemma get_more_jobs_inv : forall st, inv st -> inv (snd (get_more_jobs st)).
Proof.
  intros st I. unfold get_more_jobs.
  pose proof (more_jobs_level_inv Low 0 st I) as I1. destruct (more_jobs_level Low (0, st)) as [n1 s1]. cbn [snd] in *.
  pose proof (more_jobs_level_inv Med n1 s1 I1) as I2. destruct (more_jobs_level Med (n1, s1)) as [n2 s2]. cbn [snd] in *.
  apply more_jobs_level_inv. exact I2.
Qed.

(* ------------------------------------------------------------------ expire_the_timers *)
Lemma heap_min_from_spec : forall l k best i e, heap_min_from k l best = Some (i, e) ->
  best = Some (i, e) \/ (exists t, (k <= i)%nat /\ nth_error l (i - k) = Some t /\ t_exp t = Some e).
Proof.
  induction l as [|t l IH]; intros k best i e; cbn [heap_min_from]; [auto|].
  intros H. apply IH in H. destruct H as [H|(t' & A & B & C)].
  - destruct (t_exp t) as [e0|] eqn:E; [|auto].
    destruct best as [[bi be]|].
    + destruct (e0 <? be); [|auto]. inversion H; subst. right. exists t. split; [lia|]. rewrite Nat.sub_diag. auto.
    + inversion H; subst. right. exists t. split; [lia|]. rewrite Nat.sub_diag. auto.
  - right. exists t'. split; [lia|]. replace (i - k)%nat with (S (i - S k)) by lia. auto.
Qed.
Lemma heap_min_spec : forall st i e, heap_min st = Some (i, e) -> exists t, nth_error (timers st) i = Some t /\ t_exp t = Some e.
Proof.
  intros st i e H. unfold heap_min in H. apply heap_min_from_spec in H. destruct H as [H|(t & _ & A & B)]; [discriminate|].
  rewrite Nat.sub_0_r in A. eauto.
Qed.

Lemma inv_timer_tojoblist : forall i g st t, inv st -> nth_error (timers st) i = Some t -> t_state t = Active ->
  (forall t, t_state (g t) = Joblist /\ t_uid (g t) = t_uid t /\ t_exp (g t) = None) ->
  inv (set_timers (upd_nth i g (timers st)) st).
Proof.
  intros i g st t I Hn Ha G. pose proof I as (I0 & (T1 & T2 & T3) & _ & _ & (_ & Q2 & _) & _).
  assert (N : forall j t', nth_error (upd_nth i g (timers st)) j = Some t' ->
              (j <> i /\ nth_error (timers st) j = Some t') \/ (j = i /\ t' = g t)).
  { intros j t' H. rewrite nth_upd_nth in H. destruct (Nat.eqb i j) eqn:E.
    - apply Nat.eqb_eq in E; subst. rewrite Hn in H. cbn in H. inversion H; subst. right. auto.
    - apply Nat.eqb_neq in E. left. split; [congruence|exact H]. }
  assert (Z : ~ In (QTimer i) (all_items st)).
  { intros H. destruct (Q2 i H) as (t' & A & B). rewrite Hn in A. inversion A; subst. congruence. }
  destruct (G t) as (G1 & G2 & G3).
  apply inv_set_timers; [exact I| | |].
  - split; [|split].
    + intros j t' H. destruct (N j t' H) as [[_ A]|[_ ->]]; [apply (T1 _ _ A)|rewrite G1, G3; split; congruence].
    + intros j t' H. destruct (N j t' H) as [[_ A]|[_ ->]]; [eauto|]. rewrite G2. eauto.
    + intros a b ta tb Ha' Hb Sa Sb E.
      destruct (N a ta Ha') as [[Na A]|[-> ->]]; destruct (N b tb Hb) as [[Nb B]|[-> ->]]; auto.
      * eauto.
      * rewrite G2 in E. apply (T3 a i ta t A Hn Sa); [congruence|exact E].
      * rewrite G2 in E. apply (T3 i b t tb Hn B); [congruence|exact Sb|exact E].
  - intros j H. destruct (Q2 j H) as (t' & A & B). assert (j <> i) by (intros ->; contradiction).
    exists t'. split; [|exact B]. rewrite nth_upd_nth_other; auto.
  - intros a (j & t' & A & B & C). left. cbn in A. destruct (N j t' A) as [[_ A1]|[-> ->]].
    + exists j, t'. auto.
    + destruct C as [C|[_ C]]; [congruence|contradiction].
Qed.

Lemma expire_go_inv : forall fuel n st, inv st -> inv (snd (expire_go fuel n st)).
Proof.
  induction fuel as [|f IH]; intros n st I; cbn [expire_go]; [exact I|].
  destruct (heap_min st) as [[i e]|] eqn:H; [|exact I].
  destruct (e <? now st); [|exact I].
  destruct (heap_min_spec st i e H) as (t & N & E). rewrite N.
  assert (A : t_state t = Active) by (destruct I as (_ & (T1 & _) & _); apply (proj1 (T1 i t N)); congruence).
  apply IH.
  match goal with |- inv (item_add _ _ ?s) => set (s1 := s) end.
  assert (I1 : inv s1) by (apply (inv_timer_tojoblist i _ st t I N A); intros; cbn; auto).
  assert (NG : ~ gone (out st) 1 (t_uid t)).
  { intros Hg. destruct I as (_ & _ & _ & _ & _ & (_ & G2 & _) & _). apply (G2 1 (t_uid t) Hg). right; left. split; [reflexivity|].
    exists i, t. auto. }
  apply inv_item_add; [exact I1| |].
  - change (occ_all (QTimer i) s1) with (occ_all (QTimer i) st).
    pose proof (occ_all_nonneg (QTimer i) st). destruct (Z.eq_dec (occ_all (QTimer i) st) 0) as [|NZ]; [auto|].
    destruct (occ_all_in (QTimer i) st ltac:(lia)) as (it & X & Y). destruct it; cbn in Y; try discriminate.
    apply Nat.eqb_eq in Y; subst. destruct I as (_ & _ & _ & _ & (_ & Q2 & _) & _). destruct (Q2 _ X) as (t' & A' & B').
    rewrite N in A'. inversion A'; subst. congruence.
  - eexists. split; [cbn; apply nth_upd_nth_same; exact N|]. cbn. split; [reflexivity|exact NG].
Qed.

(* ------------------------------------------------------------------ the poll source *)
Lemma usage_check_inv : forall st, inv st -> inv (usage_check st).
Proof.
  intros st I. unfold usage_check.
  match goal with |- inv (set_polls (map ?g _) st) => set (g0 := g) end.
  assert (TR : ptrans st (map g0 (polls st))).
  { pose proof I as (I0 & _ & (P1 & P2 & P3) & _). split.
    - intros j e' H. rewrite nth_error_map in H. destruct (nth_error (polls st) j) as [e|] eqn:N; [|discriminate]. cbn in H. inversion H; subst.
      exists e. split; [reflexivity|]. unfold g0. destruct (est_eqb (p_state e) Deleted) eqn:D; cbn.
      + split; [lia|]. split; [intros [X|X]; discriminate X|]. discriminate.
      + split; [eauto|]. split; [auto|]. eauto.
    - intros j e N S _. rewrite nth_error_map, N. cbn. exists (g0 e). split; [reflexivity|]. unfold g0. rewrite S. cbn. exact S. }
  apply (inv_ptrans _ _ I TR).
Qed.

Lemma fresh_clone_absent : forall st f g k, inv st -> occ_all (QSig (next_uid st) f g k) st = 0.
Proof.
  intros st f g k (_ & _ & _ & _ & (_ & _ & _ & _ & _ & Q6 & _) & _).
  pose proof (occ_all_nonneg (QSig (next_uid st) f g k) st).
  destruct (Z.eq_dec (occ_all (QSig (next_uid st) f g k) st) 0); [auto|].
  destruct (occ_all_in (QSig (next_uid st) f g k) st ltac:(lia)) as (it & A & B).
  destruct it; cbn in B; try discriminate. apply Z.eqb_eq in B. subst. specialize (Q6 _ _ _ _ A). lia.
Qed.
Lemma clone_all_inv : forall signo l n st, inv st -> (forall s, In s l -> In s (sigs st)) -> inv (snd (clone_all signo l n st)).
Proof.
  induction l as [|s l IH]; intros n st I Sub; cbn [clone_all]; [exact I|].
  destruct (s_signo s =? signo); [|apply IH; [exact I|intros; apply Sub; cbn; auto]].
  unfold fresh_uid. apply IH.
  - apply inv_item_add.
    + apply inv_bump_uid. exact I.
    + change (occ_all ?x (set_next_uid _ st)) with (occ_all x st). apply fresh_clone_absent. exact I.
    + cbn. split; [lia|]. exists s. split; [apply Sub; cbn; auto|reflexivity].
  - intros s0 H. apply Sub. cbn. auto.
Qed.
Lemma poll_touch_inv : forall i g st, inv st -> (forall e, p_state (g e) = p_state e /\ p_uid (g e) = p_uid e /\ p_fn (g e) = p_fn e) ->
  inv (set_polls (upd_nth i g (polls st)) st).
Proof.
  intros i g st I G. apply (inv_ptrans _ _ I). apply ptrans_upd; [exact I|]. intros e N. destruct (G e) as (A & B & C).
  destruct I as (_ & _ & (P1 & _ & P3) & _). split; [rewrite B; eauto|]. split.
  - unfold plive. rewrite A, B. auto.
  - split; [rewrite C, A; eauto|]. right. congruence.
Qed.
Lemma signal_add_to_jobs_inv : forall i st, inv st -> inv (snd (signal_add_to_jobs i st)).
Proof.
  intros i st I. unfold signal_add_to_jobs. destruct (sigpipe st) as [|g rest]; [exact I|].
  apply clone_all_inv; [|intros s H; exact H].
  apply poll_touch_inv; [|intros; cbn; auto]. eapply inv_same_core; [|exact I]. constructor; reflexivity.
Qed.

Lemma poll_event_inv : forall evt n st, inv st -> inv (snd (poll_event evt (n, st))).
Proof.
  intros [data bits] n st I. unfold poll_event.
  set (pos := Z.to_nat (data mod TWO32)).
  destruct (nth_error (polls st) pos) as [e|] eqn:N; [|apply inv_emit_neutral; [exact Logic.I|exact I]].
  destruct (negb _); [apply inv_emit_neutral; [exact Logic.I|exact I]|].
  destruct (_ || est_eqb (p_state e) Deleted) eqn:D; [exact I|].
  set (s1 := set_polls _ st).
  assert (I1 : inv s1) by (apply poll_touch_inv; [exact I|intros; cbn; auto]).
  destruct (est_eqb (p_state e) Joblist) eqn:J; [exact I1|].
  destruct (negb (p_fn e)) eqn:F; [apply flag_uaf_ok; exact I1|].
  destruct (p_sig e).
  - pose proof (signal_add_to_jobs_inv pos s1 I1). destruct (signal_add_to_jobs pos s1). exact H.
  - cbn [snd].
    assert (ST : p_state e = Active).
    { apply orb_false_iff in D. destruct D as [_ D]. apply negb_false_iff in F.
      destruct I as (_ & _ & (_ & _ & P3) & _). specialize (P3 pos e N F). destruct (p_state e); cbn in *; congruence. }
    assert (N1 : nth_error (polls s1) pos = Some (set_prevents (Z.lor (p_revents e) (epoll_to_poll bits)) e))
      by (exact (nth_upd_nth_same _ (fun e0 => set_prevents (Z.lor (p_revents e0) (epoll_to_poll bits)) e0) _ _ _ N)).
    change (set_polls (upd_nth pos (set_pstate Joblist) (polls (item_add (p_p e) (QFd pos) s1))) (item_add (p_p e) (QFd pos) s1))
      with (item_add (p_p e) (QFd pos) (set_polls (upd_nth pos (set_pstate Joblist) (polls s1)) s1)).
    set (s2 := set_polls (upd_nth pos (set_pstate Joblist) (polls s1)) s1).
    assert (I2 : inv s2).
    { apply (inv_ptrans _ _ I1). apply ptrans_upd; [exact I1|]. intros e' H. rewrite N1 in H. inversion H; subst e'. cbn.
      destruct I as (_ & _ & (P1 & _) & _). split; [eauto|]. split; [intros _; split; [left; exact ST|reflexivity]|].
      split; [discriminate|]. right. auto. }
    apply inv_item_add; [exact I2| |].
    + change (occ_all (QFd pos) s2) with (occ_all (QFd pos) st). apply (qfd_absent_if_active pos e st I N). congruence.
    + eexists. split; [cbn; apply nth_upd_nth_same; exact N1|reflexivity].
Qed.

Lemma fold_poll_event_inv : forall evs n st, inv st -> inv (snd (fold_left (fun acc evt => poll_event evt acc) evs (n, st))).
Proof.
  induction evs as [|evt evs IH]; intros n st I; cbn [fold_left]; [exact I|].
  pose proof (poll_event_inv evt n st I). destruct (poll_event evt (n, st)) as [n1 s1]. apply IH. exact H.
Qed.
Lemma fold_raise_inv : forall gs st, inv st -> inv (fold_left (fun s g => raise_signal g s) gs st).
Proof.
  induction gs as [|g gs IH]; intros st I; cbn [fold_left]; [exact I|]. apply IH. unfold raise_signal.
  destruct (existsb _ _); [|exact I]. eapply inv_same_core; [|exact I]. constructor; reflexivity.
Qed.
Lemma poll_and_add_inv : forall e t st, inv st -> inv (snd (poll_and_add_to_jobs e t st)).
Proof.
  intros e t st I. unfold poll_and_add_to_jobs. apply fold_poll_event_inv. apply inv_emit_neutral; [exact Logic.I|].
  assert (I1 : inv (fold_left (fun s g => raise_signal g s) (e_sigs e) (set_now (now (usage_check st) + e_adv e) (usage_check st)))).
  { apply fold_raise_inv. eapply inv_same_core; [|apply usage_check_inv; exact I]. constructor; reflexivity. }
  destruct (e_stop e); [|exact I1]. eapply inv_same_core; [|exact I1]. constructor; reflexivity.
Qed.

(* ------------------------------------------------------------------ dispatch_and_take_back *)
(* an item that has just been taken off its job list *)
Definition ready (st : state) (it : qitem) : Prop :=
  occ_all it st = 0 /\
  match it with
  | QJob u _ => u < next_uid st /\ ~ gone (out st) 0 u
  | QTimer i => exists t, nth_error (timers st) i = Some t /\ t_state t = Joblist /\ ~ gone (out st) 1 (t_uid t)
  | QFd i => exists e, nth_error (polls st) i = Some e /\ p_state e = Joblist
  | QSig u f _ _ => live_sig st f
  end.

Lemma live_not_gone : forall st k u, inv st -> live st k u -> ~ gone (out st) k u.
Proof. intros st k u (_ & _ & _ & _ & _ & (_ & G2 & _) & _) L G. exact (G2 k u G L). Qed.

Lemma dispatch_inv : forall beh it st, inv st -> ready st it -> inv (dispatch beh it st).
Proof.
  intros beh it st I [Z K]. destruct it as [u key|i|i|u f g k]; cbn [dispatch].
  - (* job *) destruct K as [U NG]. apply callback_ok. apply inv_emit_inv; auto. intros _. eapply job_not_live. rewrite Z. lia.
  - (* timer *) destruct K as (t & N & S & NG). rewrite N.
    set (g0 := fun t0 => {| t_state := t_state t0; t_check := 0; t_p := t_p t0; t_key := t_key t0; t_uid := t_uid t0; t_exp := t_exp t0 |}).
    set (s1 := set_timers (upd_nth i g0 (timers st)) st).
    assert (I1 : inv s1) by (apply inv_timer_touch; [exact I|intros; cbn; auto]).
    assert (N1 : nth_error (timers s1) i = Some (g0 t)) by (cbn; apply nth_upd_nth_same; exact N).
    assert (EX : t_exp t = None).
    { destruct (t_exp t) eqn:E; [|reflexivity]. destruct I as (_ & (T1 & _) & _). assert (t_state t = Active) by (apply (proj1 (T1 i t N)); congruence). congruence. }
    assert (U : t_uid t < next_uid st) by (destruct I as (_ & (_ & T2 & _) & _); eauto).
    assert (NL : ~ live s1 1 (t_uid t)).
    { intros [[X _]|[[_ (j & t' & A & B & C)]|[[X _]|[X _]]]]; try discriminate X.
      assert (j = i).
      { destruct I1 as (_ & (_ & _ & T3) & _). apply (T3 j i t' (g0 t) A N1); [destruct C as [C|[C _]]; congruence|cbn; congruence|exact B]. }
      subst j. rewrite N1 in A. inversion A; subst t'. destruct C as [C|[_ C]]; [cbn in C; congruence|].
      apply in_occ_all in C. change (occ_all (QTimer i) s1) with (occ_all (QTimer i) st) in C. lia. }
    set (s2 := emit (EvInv 1 (t_uid t)) s1).
    assert (I2 : inv s2) by (apply inv_emit_inv; [exact I1|exact U|exact NG|intros _; exact NL]).
    assert (TP : tparked s2 i).
    { split; [|exact Z]. exists (g0 t). split; [exact N1|]. cbn. auto. }
    destruct (callback_ok beh 1 (t_key t) 0 0 s2 I2) as [I3 F3]. destruct (callback beh 1 (t_key t) 0 0 s2) as [r s3]. cbn [snd] in *.
    destruct (of_tparked _ _ F3 i TP) as [(t3 & N3 & S3 & C3 & E3) Z3].
    apply (inv_timer_clear i _ s3 I3 Z3). intros t' H. rewrite N3 in H. inversion H; subst t'. cbn. auto.
  - (* descriptor *) destruct K as (e & N & S). rewrite N.
    assert (U : p_uid e < next_uid st) by (destruct I as (_ & _ & (P1 & _) & _); eauto).
    assert (LV : live st 2 (p_uid e)) by (right; right; left; split; [reflexivity|]; exists i, e; split; [exact N|split; [reflexivity|right; exact S]]).
    set (s2 := emit (EvInv 2 (p_uid e)) st).
    assert (I2 : inv s2) by (apply inv_emit_inv; [exact I|exact U|apply live_not_gone; assumption|intros [X|X]; discriminate X]).
    assert (PP : pparked s2 i (p_uid e)) by (split; [exists e; auto|exact Z]).
    destruct (callback_ok beh 2 (p_key e) (p_fd e) (p_revents e) s2 I2) as [I3 F3].
    destruct (callback beh 2 (p_key e) (p_fd e) (p_revents e) s2) as [r s3]. cbn [snd] in *.
    destruct (of_pparked _ _ F3 i _ PP) as [(e3 & N3 & U3 & S3) Z3].
    assert (U3' : p_uid e < next_uid s3) by (pose proof (of_uid _ _ F3); cbn in *; lia).
    destruct (r <? 0).
    + rewrite N3. destruct (est_eqb (p_state e3) Deleted) eqn:D.
      * apply (inv_ptrans _ _ I3). apply mark_deleted_ptrans; assumption.
      * change (set_polls (upd_nth i mark_deleted (polls (emit (EvDel 2 (p_uid e)) s3))) (emit (EvDel 2 (p_uid e)) s3))
          with (emit (EvDel 2 (p_uid e)) (set_polls (upd_nth i mark_deleted (polls s3)) s3)).
        pose proof (mark_deleted_ptrans i s3 I3 Z3) as TR.
        apply inv_emit_del; [apply (inv_ptrans _ _ I3 TR)|exact U3'|].
        rewrite <- U3. apply (fd_not_live_after i mark_deleted s3 e3 I3 TR N3).
        -- destruct S3 as [S3|S3]; [right; exact S3|rewrite S3 in D; discriminate].
        -- cbn. intros [X|X]; discriminate X.
    + apply (inv_ptrans _ _ I3). apply ptrans_upd; [exact I3|]. intros e' H. rewrite N3 in H. inversion H; subst e'.
      destruct I3 as (_ & _ & (P1 & _ & P3) & _).
      destruct (est_eqb (p_state e3) Deleted) eqn:D.
      * split; [eauto|]. split; [auto|]. split; [eauto|]. left. exact Z3.
      * cbn. split; [eauto|]. split; [|split; [discriminate|left; exact Z3]].
        intros _. split; [|reflexivity]. destruct S3 as [S3|S3]; [right; exact S3|rewrite S3 in D; discriminate].
  - (* signal clone *)
    assert (U : f < next_uid st) by (destruct K as (s & A & B); destruct I as (_ & _ & _ & (_ & S2) & _); rewrite <- B; auto).
    assert (LV : live st 3 f) by (right; right; right; auto).
    set (s2 := emit (EvInv 3 f) st).
    assert (I2 : inv s2) by (apply inv_emit_inv; [exact I|exact U|apply live_not_gone; assumption|intros [X|X]; discriminate X]).
    destruct (callback_ok beh 3 k g 0 s2 I2) as [I3 F3]. destruct (callback beh 3 k g 0 s2) as [r s3]. cbn [snd] in *.
    destruct (r =? 0); [exact I3|]. destruct (sig_find f s3); [apply signal_del_ok; exact I3|apply flag_uaf_ok; exact I3].
Qed.

(* ------------------------------------------------------------------ qb_loop_run_level *)
Lemma shrinks_dec_todo : forall p st, shrinks st (dec_todo p st).
Proof.
  intros p st. constructor; try reflexivity.
  - intros x. unfold occ_all. rewrite all_items_dec_todo. lia.
  - intros it. rewrite all_items_dec_todo. auto.
  - intros q it H. unfold dec_todo, upd_level, set_lv in H. cbn in H. destruct (prio_eqb q p) eqn:E; [|exact H].
    apply prio_eqb_eq in E; subst. exact H.
Qed.

Lemma run_level_go_inv : forall beh p fuel processed st, inv st -> inv (fst (run_level_go beh p fuel processed st)).
Proof.
  intros beh p. induction fuel as [|fu IH]; intros processed st I; cbn [run_level_go]; [exact I|].
  destruct (jobq (lv st p)) as [|it rest] eqn:Q; [exact I|].
  set (s1 := upd_level p (fun l => {| wait := wait l; jobq := rest; todo := todo l |}) st).
  assert (Hin : In it (all_items st)) by (apply in_all_items; exists p; left; rewrite Q; cbn; auto).
  assert (OC : forall x, occ_all x s1 = occ_all x st - (if qitem_eqb x it then 1 else 0)).
  { intros x. unfold s1. rewrite occ_all_upd_level. cbn [jobq wait]. rewrite Q. cbn [occ]. lia. }
  assert (SH : shrinks st s1).
  { constructor; try reflexivity.
    - intros x. rewrite OC. destruct (qitem_eqb x it); lia.
    - intros y H. unfold s1 in H. apply in_all_upd_level in H. cbn [jobq wait] in H.
      destruct H as [H|[H|H]]; [exact H| |]; apply in_all_items; exists p; [left; rewrite Q; cbn; auto|right; exact H].
    - intros q y H. unfold s1, upd_level, set_lv in H. cbn in H. destruct (prio_eqb q p) eqn:E; [|exact H].
      apply prio_eqb_eq in E; subst. exact H. }
  assert (I1 : inv s1) by (eapply inv_shrinks; eauto).
  assert (RD : ready s1 it).
  { split.
    - rewrite OC, qitem_eqb_refl. destruct I as (_ & _ & _ & _ & (Q1 & _) & _). specialize (Q1 it). pose proof (in_occ_all it st Hin). lia.
    - pose proof I as (_ & _ & _ & _ & (_ & Q2 & Q3 & Q4 & Q5 & _) & _).
      destruct it as [u key|i|i|u f g k].
      + split; [exact (Q5 u key Hin)|]. change (out s1) with (out st). apply live_not_gone; [exact I|]. left. split; [reflexivity|]. exists key. exact Hin.
      + destruct (Q2 i Hin) as (t & A & B). exists t. split; [exact A|]. split; [exact B|]. change (out s1) with (out st).
        apply live_not_gone; [exact I|]. right; left. split; [reflexivity|]. exists i, t. auto.
      + exact (Q3 i Hin).
      + exact (Q4 u f g k Hin). }
  pose proof (dispatch_inv beh it s1 I1 RD) as I2.
  assert (I3 : inv (dec_todo p (dispatch beh it s1))) by (eapply inv_shrinks; [apply shrinks_dec_todo|exact I2]).
  fold s1. destruct (stop (dec_todo p (dispatch beh it s1))); [exact I3|].
  destruct (processed + 1 <? LOOP_TO_PROCESS); [apply IH; exact I3|exact I3].
Qed.

Lemma serve_inv : forall beh c p st, inv st -> inv (fst (serve beh c p st)).
Proof.
  intros beh c p st I. unfold serve. destruct (prio_geb p c); [|exact I].
  pose proof (run_level_go_inv beh p (S (Z.to_nat LOOP_TO_PROCESS)) 0 st I) as H. unfold run_level.
  destruct (run_level_go beh p (S (Z.to_nat LOOP_TO_PROCESS)) 0 st). exact H.
Qed.

Lemma iteration_inv : forall beh e rs st, inv st -> inv (fst (fst (iteration beh e rs st))).
Proof.
  intros beh e rs st I. unfold iteration.
  pose proof (get_more_jobs_inv st I) as I1. destruct (get_more_jobs st) as [jt s1]. cbn [snd] in I1.
  pose proof (expire_go_inv (length (timers s1)) 0 s1 I1) as I2. unfold expire_the_timers. destruct (expire_go _ 0 s1) as [tt s2]. cbn [snd] in I2.
  match goal with |- context [poll_and_add_to_jobs e ?t s2] => pose proof (poll_and_add_inv e t s2 I2) as I3; destruct (poll_and_add_to_jobs e t s2) as [x s3] end.
  cbn [snd] in I3.
  pose proof (serve_inv beh (next_pstop (r_pstop rs)) High s3 I3) as I4. destruct (serve beh _ High s3) as [s4 ih]. cbn [fst] in I4.
  destruct (li_admitted ih && stop s4); [exact I4|].
  pose proof (serve_inv beh (next_pstop (r_pstop rs)) Med s4 I4) as I5. destruct (serve beh _ Med s4) as [s5 im]. cbn [fst] in I5.
  destruct (li_admitted im && stop s5); [exact I5|].
  pose proof (serve_inv beh (next_pstop (r_pstop rs)) Low s5 I5) as I6. destruct (serve beh _ Low s5) as [s6 il]. cbn [fst] in I6.
  destruct (li_admitted il && stop s6); exact I6.
Qed.

Lemma run_go_inv : forall beh envs rs st, inv st -> inv (fst (run_go beh envs rs st)).
Proof.
  intros beh. induction envs as [|e es IH]; intros rs st I; cbn [run_go].
  - pose proof (iteration_inv beh env_end rs st I). destruct (iteration beh env_end rs st) as [[s r] t]. exact H.
  - pose proof (iteration_inv beh e rs st I). destruct (iteration beh e rs st) as [[s r] t]. cbn [fst] in H.
    destruct (ti_returned t || stop s); [exact H|]. specialize (IH r s H). destruct (run_go beh es r s). exact IH.
Qed.
Lemma loop_run_inv : forall beh envs st, inv st -> inv (fst (loop_run beh envs st)).
Proof.
  intros beh envs st I. unfold loop_run.
  assert (I0 : inv (set_stop false st)) by (eapply inv_same_core; [|exact I]; constructor; reflexivity).
  pose proof (run_go_inv beh envs (run_start_of st) (set_stop false st) I0).
  destruct (run_go beh envs (run_start_of st) (set_stop false st)) as [s tis]. cbn [fst] in *.
  apply inv_emit_neutral; [exact Logic.I|exact H].
Qed.
Lemma exec_cmd_inv : forall beh c st, inv st -> inv (exec_cmd beh c st).
Proof. intros beh [o|envs] st I; cbn [exec_cmd]; [apply exec_op_ok; exact I|apply loop_run_inv; exact I]. Qed.

(* ------------------------------------------------------------------ qb_loop_create and whole histories *)
Definition good_rand (rnd : list Z) : Prop := Forall (fun x => 0 < x) rnd.
Lemma state_zero_inv : forall f rnd, fx_sigdel f = true -> good_rand rnd -> inv (state_zero f rnd).
Proof.
  intros f rnd F G. unfold inv, state_zero. cbn.
  split; [lia|]. split; [|split; [|split; [|split; [|split; [|split; [|split; [|exact F]]]]]]].
  - split; [|split]; intros [|i]; cbn; intros; discriminate.
  - split; [|split]; intros [|i]; cbn; intros; discriminate.
  - split; [constructor|intros s []].
  - unfold inv_q, occ_all, all_items. cbn. split; [intros; lia|]. repeat split; intros; try contradiction.
  - unfold inv_g. cbn. split; [intros k u [[]|[]]|]. split; [intros k u [[]|[_ []]]|exact Logic.I].
  - intros r h [].
  - split; [exact G|cbn; lia].
Qed.
Lemma loop_create_inv : forall f rnd, fx_sigdel f = true -> good_rand rnd -> inv (loop_create_fx f rnd).
Proof. intros. unfold loop_create_fx. apply poll_add_gen_ok. apply state_zero_inv; assumption. Qed.

Lemma run_history_inv : forall f beh h rnd, fx_sigdel f = true -> good_rand rnd -> inv (run_history_fx f beh h rnd).
Proof.
  intros f beh h rnd F G. unfold run_history_fx.
  assert (forall st, inv st -> inv (fold_left (fun s c => exec_cmd beh c s) h st)).
  { induction h as [|c h IH]; intros st I; cbn [fold_left]; [exact I|]. apply IH. apply exec_cmd_inv. exact I. }
  apply H. apply loop_create_inv; assumption.
Qed.
