(* C01: step-local facts of the interleaving model RbConcModel.v (constants, purity of the read-only steps,
   the refused write).  The invariant and the schedule-quantified theorems are in RbConcProofsInv.v. *)
From Coq Require Import ZArith List Bool Lia ZifyBool.
Import ListNotations.
Require Import Verif.gen.Consts_rb Verif.gen.Consts_rbconc Verif.RbModel Verif.RbMem Verif.RbSpec Verif.RbProofs
  Verif.RbConcModel.
Local Open Scope Z_scope.

(* side conditions on the constants regenerated from the working tree *)
Lemma conc_consts_ok :
  RB_CHUNK_MAGIC <> RB_CHUNK_MAGIC_ALLOC /\ RB_CHUNK_MAGIC <> RB_CHUNK_MAGIC_DEAD /\
  RB_CHUNK_MAGIC_ALLOC <> RB_CHUNK_MAGIC_DEAD /\
  0 < RB_CHUNK_MAGIC < two32 /\ 0 < RB_CHUNK_MAGIC_ALLOC < two32 /\ 0 < RB_CHUNK_MAGIC_DEAD < two32 /\
  RB_CHUNK_MARGIN = RB_SIZEOF_WORD * (RB_CHUNK_HEADER_WORDS + 1) /\ RB_CHUNK_HEADER_WORDS = 2 /\
  RBC_MO_ACQUIRE <> RBC_MO_RELAXED /\ RBC_MO_RELEASE <> RBC_MO_RELAXED /\ RBC_MO_ACQUIRE <> RBC_MO_RELEASE /\
  RBC_HDR_WPT_IDX <> RBC_HDR_RPT_IDX.
Proof. vm_compute. repeat split; congruence. Qed.

(* the steps of the writer that only load *)
Definition w_loads (p : wpc) : bool :=
  match p with WStart | WCall | WRdRpt _ | WRdWpt2 | WRdWpt3 | WRdSize _ => true | _ => false end.

Lemma wstep_loads_pure : forall h t r, wstep h t = Some r -> w_loads (w_pc t) = true -> s_sh r = h /\ s_gh r = GNone.
Proof.
  intros h t r H Hl. unfold wstep in H.
  destruct (w_pc t) eqn:E; cbn in Hl; try discriminate.
  - inversion H; subst; auto.
  - destruct (w_prog t); [discriminate|]. inversion H; subst; auto.
  - destruct (_ <? _); inversion H; subst; auto.
  - inversion H; subst; auto.
  - inversion H; subst; auto.
  - inversion H; subst; auto.
Qed.

(* A write returns -EAGAIN only from the free-space test; the call then consisted of exactly two steps of the
   writer (load write_pt, load read_pt), neither of which stores to the shared state or touches the ghost logs. *)
Lemma refusal_from_test : forall h t r l, wstep h t = Some r -> s_ret r = Some (- RB_EAGAIN, l) ->
  (exists w1, w_pc t = WRdRpt w1) /\ s_sh r = h /\ s_gh r = GNone /\ s_err r = false.
Proof.
  intros h t r l H Hr. unfold wstep in H.
  pose proof (zlen_nonneg (wdata t)) as Hz.
  assert (Hne : forall x, Some (zlen (wdata t), @nil Z) = Some (- RB_EAGAIN, x) -> False).
  { intros x Hx. inversion Hx. unfold RB_EAGAIN in *. lia. }
  destruct (w_pc t) eqn:E.
  all: try (inversion H; subst; cbn in Hr; discriminate).
  - destruct (w_prog t); [discriminate|]. inversion H; subst; cbn in Hr; discriminate.
  - destruct (_ <? _); inversion H; subst; cbn in *; [|discriminate].
    split; [eexists; reflexivity|auto].
  - destruct rest; [discriminate|]. destruct rest; inversion H; subst; cbn in Hr; discriminate.
  - destruct (hsem h); inversion H; subst; cbn in Hr; [discriminate|]. exfalso; eapply Hne; eassumption.
  - inversion H; subst; cbn in Hr. exfalso; eapply Hne; eassumption.
Qed.

Lemma call_first_step : forall h t r, wstep h t = Some r -> w_pc t = WCall ->
  s_sh r = h /\ s_ret r = None /\ exists w1, w_pc (s_t r) = WRdRpt w1.
Proof.
  intros h t r H Hp. unfold wstep in H. rewrite Hp in H.
  destruct (w_prog t); [discriminate|]. inversion H; subst; cbn. split; [reflexivity|]. split; [reflexivity|].
  eexists; reflexivity.
Qed.

(* the steps of the reader that only load *)
Definition r_stores (p : rpc) : bool :=
  match p with RFailPost | RNoBufPost | RcSt0 _ _ | RcStDead _ _ | RcStRpt _ _ => true | _ => false end.

(* a write reports success (returns its length) only in the step that publishes the chunk (no semaphore) or in
   the sem_post step that directly follows that step (WPost is entered only from WStMagic, same call) *)
Lemma success_published : forall h t r v l, wstep h t = Some r -> s_ret r = Some (v, l) -> 0 <= v ->
  v = zlen (wdata t) /\ (s_gh r = GPub (wdata t) \/ w_pc t = WPost).
Proof.
  intros h t r v l H Hr Hv. unfold wstep in H.
  destruct (w_pc t) eqn:E.
  all: try (inversion H; subst; cbn in Hr; discriminate).
  - destruct (w_prog t); [discriminate|]. inversion H; subst; cbn in Hr; discriminate.
  - destruct (_ <? _); inversion H; subst; cbn in Hr; [|discriminate].
    inversion Hr; subst. unfold RB_EAGAIN in Hv. lia.
  - destruct rest; [discriminate|]. destruct rest; inversion H; subst; cbn in Hr; discriminate.
  - destruct (hsem h); inversion H; subst; cbn in Hr; [discriminate|]. inversion Hr; subst. cbn. auto.
  - inversion H; subst; cbn in Hr. inversion Hr; subst. auto.
Qed.

Lemma post_only_after_publish : forall h t r, wstep h t = Some r -> w_pc (s_t r) = WPost ->
  s_gh r = GPub (wdata t) /\ wdata (s_t r) = wdata t.
Proof.
  intros h t r H Hp. unfold wstep in H.
  destruct (w_pc t) eqn:E.
  all: try (inversion H; subst; cbn in Hp; discriminate).
  - destruct (w_prog t); [discriminate|]. inversion H; subst; cbn in Hp; discriminate.
  - destruct (_ <? _); inversion H; subst; cbn in Hp; discriminate.
  - destruct (wdata t); inversion H; subst; cbn in Hp; discriminate.
  - destruct rest; [discriminate|]. destruct rest; inversion H; subst; cbn in Hp; discriminate.
  - destruct (hsem h); inversion H; subst; cbn in Hp; [|discriminate]. cbn. auto.
Qed.
