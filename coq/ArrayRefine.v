(* C19: the concrete model of lib/array.c (bins, table, blocks, cached caller pointers) refines the
   abstract specification `spec' of ArrayModel.v: an unbounded zero-initialised array of elements
   with a current size.  Zero initialisation, persistence of written data across any growth,
   non-interference between different indices and the range errors are all read off this theorem. *)
From Coq Require Import ZArith List Bool NArith Lia ZifyBool.
Import ListNotations.
Require Import Verif.gen.Consts_array Verif.ArrayModel Verif.ArrayProofs.
Local Open Scope Z_scope.

Ltac splits := repeat match goal with |- _ /\ _ => split end.

Record Sim (w : world) (s : spec) : Prop := {
  sim_max : sp_max s = maxel w;
  sim_seen : forall i, sp_seen s i = true <-> cache_get (cache w) i <> None;
  sim_mem : forall i k blk, 0 <= i -> 0 <= k < esize w -> bin_get w (bin_of i) = Some blk ->
            heap_load (heap w) blk (esize w * elem_of i + k) = Some (sp_mem s i k);
  sim_zero : forall i k, 0 <= i -> bin_get w (bin_of i) = None -> sp_mem s i k = 0%N
}.

Lemma heap_load_app1 : forall h x blk off bl, nth_error h (Z.to_nat blk) = Some bl ->
  heap_load (h ++ x) blk off = heap_load h blk off.
Proof.
  intros h x blk off bl H. unfold heap_load. rewrite nth_error_app1; [reflexivity|].
  apply nth_error_Some. congruence.
Qed.

Lemma heap_load_new_zero : forall h n off, 0 <= off < n ->
  heap_load (h ++ [zero_block n]) (Z.of_nat (length h)) off = Some 0%N.
Proof.
  intros h n off H. unfold heap_load. rewrite Nat2Z.id. rewrite nth_error_app2 by lia.
  rewrite Nat.sub_diag. cbn [nth_error zero_block b_size b_data].
  assert ((0 <=? Z.of_nat (length h)) && (0 <=? off) && (off <? n) = true) as -> by lia. reflexivity.
Qed.

Lemma same_bin_same_index : forall i j k k' es, 0 <= i -> 0 <= j -> 1 <= es -> 0 <= k < es -> 0 <= k' < es ->
  bin_of i = bin_of j -> es * elem_of i + k = es * elem_of j + k' -> i = j /\ k = k'.
Proof.
  intros i j k k' es Hi Hj He Hk Hk' Hb Ho.
  destruct (bin_slot i) as [Si Ri]. destruct (bin_slot j) as [Sj Rj].
  assert (elem_of i = elem_of j) by nia. split; [|nia]. rewrite Si, Sj. congruence.
Qed.

(* Index *)
Lemma sim_index : forall w s idx w' x, Inv w -> Sim w s -> do_index w idx = (w', x) ->
  Sim w' (fst (spec_step (esize w) (autog w) s (Index idx))) /\
  abs_out (Index idx) x = snd (spec_step (esize w) (autog w) s (Index idx)).
Proof.
  intros w s idx w' x I S H.
  destruct (do_index_spec _ _ _ _ I H) as
    [(rc & -> & -> & Hf) | (blk & cbs & -> & Hsuc & I' & X & He & Ha & _ & Hm & Hg & Hst & Hc)].
  - (* failure: the state is unchanged and the specification reports the same error *)
    pose proof (sim_max _ _ S) as Sm. cbn [spec_step abs_out]. rewrite Sm.
    destruct Hf as [(H1 & ->) | [(H1 & H2 & H3 & ->) | (H1 & H2 & H3 & H4 & ->)]].
    + assert ((idx <? 0) = true) as -> by lia. cbn. split; [exact S|reflexivity].
    + assert ((idx <? 0) = false) as -> by lia. assert ((maxel w <=? idx) = true) as -> by lia.
      assert ((autog w =? 0) = true) as -> by lia. cbn. split; [exact S|reflexivity].
    + assert ((idx <? 0) = false) as -> by lia. assert ((maxel w <=? idx) = true) as -> by lia.
      assert ((autog w =? 0) = false) as -> by lia.
      assert ((ARRAY_MAX_ELEMENTS <? idx + 1) = true) as -> by lia. cbn. split; [exact S|reflexivity].
  - (* success *)
    pose proof (sim_max _ _ S) as Sm. destruct Hsuc as [Hi Hr].
    set (s' := {| sp_max := Z.max (maxel w) (idx + 1); sp_mem := sp_mem s;
                  sp_seen := fun j => if j =? idx then true else sp_seen s j |}).
    assert (Hspec : spec_step (esize w) (autog w) s (Index idx) = (s', SRc 0)).
    { unfold s'. cbn [spec_step]. rewrite Sm. assert ((idx <? 0) = false) as -> by lia.
      destruct (maxel w <=? idx) eqn:E1.
      - destruct Hr as [Hr|[Hr1 Hr2]]; [lia|].
        assert ((autog w =? 0) = false) as -> by lia.
        assert ((ARRAY_MAX_ELEMENTS <? idx + 1) = false) as -> by lia.
        replace (Z.max (maxel w) (idx + 1)) with (idx + 1) by lia. reflexivity.
      - replace (Z.max (maxel w) (idx + 1)) with (maxel w) by lia. reflexivity. }
    rewrite Hspec. cbn [fst snd abs_out]. split; [|reflexivity].
    unfold s'. constructor; cbn [sp_max sp_mem sp_seen].
    + symmetry; exact Hm.
    + (* seen <-> cached *)
      intros j. rewrite Hc. destruct (j =? idx) eqn:Ej.
      * assert (j = idx) by lia. subst j. split; [|reflexivity]. intros _.
        destruct (cache_get (cache w) idx) eqn:Ec; [congruence|]. cbn [cache_get]. rewrite Z.eqb_refl. discriminate.
      * rewrite (sim_seen _ _ S j). destruct (cache_get (cache w) idx) eqn:Ec; [reflexivity|].
        cbn [cache_get]. assert ((idx =? j) = false) as -> by lia. reflexivity.
    + (* memory *)
      intros i k b Hi0 Hk Hb. rewrite He in *.
      destruct Hst as [(Hh & Hb0 & Hs) | (Hh & Hb0 & Hblk & Hs)].
      * rewrite Hh. apply (sim_mem _ _ S); auto. rewrite bin_get_slot in *. rewrite <- Hs. exact Hb.
      * destruct (Z.eq_dec (bin_of i) (bin_of idx)) as [Eb|Nb].
        -- rewrite Eb, Hg in Hb. inversion Hb; subst b. rewrite Hh, Hblk.
           rewrite heap_load_new_zero.
           ++ f_equal. symmetry. apply (sim_zero _ _ S); auto. rewrite Eb. exact Hb0.
           ++ apply slot_offset_bound; auto. apply (inv_es _ I). apply bin_slot.
        -- assert (Hbw : bin_get w (bin_of i) = Some b).
           { rewrite bin_get_slot in *. rewrite <- Hs; [exact Hb|].
             pose proof (bin_of_nonneg _ Hi0). pose proof (bin_of_nonneg _ Hi). lia. }
           rewrite Hh. rewrite bin_get_slot in Hbw. destruct (inv_blk _ I _ _ Hbw) as [_ (bl & Q & _)].
           rewrite (heap_load_app1 _ _ _ _ _ Q). apply (sim_mem _ _ S); auto.
    + (* untouched bins are still zero in the specification *)
      intros i k Hi0 Hb. apply (sim_zero _ _ S); auto.
      destruct (bin_get w (bin_of i)) as [b0|] eqn:E0; [|reflexivity].
      rewrite bin_get_slot in *. destruct X as [_ X]. rewrite (X _ _ E0) in Hb. discriminate.
Qed.

Lemma sim_transfer : forall w w' s, Sim w s ->
  (forall k, slot (bins w') k = slot (bins w) k) -> esize w' = esize w -> heap w' = heap w ->
  cache w' = cache w -> maxel w' = maxel w -> Sim w' s.
Proof.
  intros w w' s S Hs He Hh Hc Hm. destruct S as [S1 S2 S3 S4]. constructor.
  - congruence.
  - intros i. rewrite Hc. apply S2.
  - intros i k blk Hi Hk Hb. rewrite He in *. rewrite Hh. apply S3; auto.
    rewrite bin_get_slot in *. rewrite <- Hs. exact Hb.
  - intros i k Hi Hb. apply S4; auto. rewrite bin_get_slot in *. rewrite <- Hs. exact Hb.
Qed.

Lemma step_sim : forall w s o, Inv w -> Sim w s ->
  Sim (fst (step w o)) (fst (spec_step (esize w) (autog w) s o)) /\
  abs_out o (snd (step w o)) = snd (spec_step (esize w) (autog w) s o).
Proof.
  intros w s o I S. destruct o as [idx|n| |idx k v|idx k].
  - (* Index *)
    cbn [step]. destruct (do_index w idx) as [w' x] eqn:E. cbn [fst snd]. eapply sim_index; eassumption.
  - (* Grow *)
    cbn [step]. destruct (do_grow w n) as [w' rc] eqn:E. cbn [fst snd abs_out spec_step].
    destruct (do_grow_spec _ _ _ _ I E) as (Hs & He & _ & _ & Hh & Hc & _ & D).
    destruct D as [(Hn & -> & ->) | (Hn & -> & Hm & _)].
    + assert ((ARRAY_MAX_ELEMENTS <? n) = true) as -> by lia. cbn. split; [exact S|reflexivity].
    + assert ((ARRAY_MAX_ELEMENTS <? n) = false) as -> by lia. cbn [fst snd]. split; [|reflexivity].
      destruct S as [S1 S2 S3 S4]. constructor; cbn [sp_max sp_mem sp_seen].
      * rewrite S1. symmetry. exact Hm.
      * intros i. rewrite Hc. apply S2.
      * intros i k blk Hi Hk Hb. rewrite He in *. rewrite Hh. apply S3; auto.
        rewrite bin_get_slot in *. rewrite <- Hs. exact Hb.
      * intros i k Hi Hb. apply S4; auto. rewrite bin_get_slot in *. rewrite <- Hs. exact Hb.
  - (* NumBins *)
    cbn. split; [exact S|reflexivity].
  - (* Store *)
    cbn [step spec_step].
    destruct (cache_get (cache w) idx) as [[blk off]|] eqn:Ec.
    2:{ assert (sp_seen s idx = false) as ->.
        { destruct (sp_seen s idx) eqn:Es; [|reflexivity]. apply (sim_seen _ _ S) in Es. congruence. }
        cbn. split; [exact S|reflexivity]. }
    assert (sp_seen s idx = true) as -> by (apply (sim_seen _ _ S); congruence).
    cbn [andb]. destruct ((0 <=? k) && (k <? esize w)) eqn:Ek; [|cbn; split; [exact S|reflexivity]].
    assert (Hk : 0 <= k < esize w) by lia.
    destruct (store_in_bounds _ _ _ _ _ I Ec Hk) as (Hi & Hb & Hoff & bl & Hn & Hblk & Hrange).
    destruct (heap_store (heap w) blk (off + k) v) as [h|] eqn:Es.
    2:{ exfalso. unfold heap_store in Es. rewrite Hn in Es.
        assert ((0 <=? blk) && (0 <=? off + k) && (off + k <? b_size bl) = true) as E by lia.
        rewrite E in Es. discriminate. }
    cbn [fst snd abs_out]. split; [|reflexivity].
    destruct (heap_store_spec _ _ _ _ _ Es) as (_ & _ & Hload).
    destruct S as [S1 S2 S3 S4]. constructor; cbn [sp_max sp_mem sp_seen].
    + exact S1.
    + exact S2.
    + intros i k' b Hi0 Hk' Hb'. change (esize (set_heap w h)) with (esize w) in *.
      change (bin_get (set_heap w h) (bin_of i)) with (bin_get w (bin_of i)) in Hb'.
      cbn [heap set_heap]. rewrite Hload.
      destruct ((i =? idx) && (k' =? k)) eqn:Eik.
      * assert (i = idx /\ k' = k) as [-> ->] by lia. assert (b = blk) by congruence. subst b.
        rewrite Hoff. rewrite !Z.eqb_refl. reflexivity.
      * destruct ((b =? blk) && (esize w * elem_of i + k' =? off + k)) eqn:Eaddr.
        -- exfalso. assert (b = blk) by lia. subst b.
           assert (Hbin : bin_of i = bin_of idx).
           { rewrite bin_get_slot in *. pose proof (inv_inj _ I _ _ _ Hb' Hb).
             pose proof (bin_of_nonneg _ Hi0). pose proof (bin_of_nonneg _ Hi). lia. }
           assert (Ho : esize w * elem_of i + k' = esize w * elem_of idx + k) by lia.
           destruct (same_bin_same_index i idx k' k (esize w) Hi0 Hi (inv_es _ I) Hk' Hk Hbin Ho). lia.
        -- apply S3; auto.
    + intros i k' Hi0 Hb'. change (bin_get (set_heap w h) (bin_of i)) with (bin_get w (bin_of i)) in Hb'.
      destruct ((i =? idx) && (k' =? k)) eqn:Eik; [|apply S4; auto].
      assert (i = idx) by lia. subst i. congruence.
  - (* Load *)
    cbn [step spec_step].
    destruct (cache_get (cache w) idx) as [[blk off]|] eqn:Ec.
    2:{ assert (sp_seen s idx = false) as ->.
        { destruct (sp_seen s idx) eqn:Es; [|reflexivity]. apply (sim_seen _ _ S) in Es. congruence. }
        cbn. split; [exact S|reflexivity]. }
    assert (sp_seen s idx = true) as -> by (apply (sim_seen _ _ S); congruence).
    cbn [andb]. destruct ((0 <=? k) && (k <? esize w)) eqn:Ek; [|cbn; split; [exact S|reflexivity]].
    assert (Hk : 0 <= k < esize w) by lia.
    destruct (store_in_bounds _ _ _ _ _ I Ec Hk) as (Hi & Hb & Hoff & _).
    cbn [fst snd abs_out]. split; [exact S|]. rewrite Hoff. rewrite (sim_mem _ _ S idx k blk Hi Hk Hb). reflexivity.
Qed.

Fixpoint abs_outs (ops : list op) (xs : list out) : list sout :=
  match ops, xs with
  | o :: ops', x :: xs' => abs_out o x :: abs_outs ops' xs'
  | _, _ => []
  end.

Lemma step_autog : forall w o, Inv w -> autog (fst (step w o)) = autog w.
Proof.
  intros w o I. destruct o as [idx|n| |idx k v|idx k]; cbn [step].
  - destruct (do_index w idx) as [w' x] eqn:E. cbn [fst].
    destruct (do_index_spec _ _ _ _ I E) as [(rc & _ & -> & _) | (blk & cbs & _ & _ & _ & _ & _ & Ha & _)]; auto.
  - destruct (do_grow w n) as [w' rc] eqn:E. cbn [fst]. destruct (do_grow_spec _ _ _ _ I E) as (_ & _ & Ha & _). exact Ha.
  - reflexivity.
  - destruct (cache_get (cache w) idx) as [[blk off]|]; [|reflexivity].
    destruct ((0 <=? k) && (k <? esize w)); [|reflexivity].
    destruct (heap_store (heap w) blk (off + k) v); reflexivity.
  - destruct (cache_get (cache w) idx) as [[blk off]|]; [|reflexivity].
    destruct ((0 <=? k) && (k <? esize w)); reflexivity.
Qed.

Lemma run_autog : forall ops w, Inv w -> autog (fst (run w ops)) = autog w.
Proof.
  induction ops as [|o ops IH]; intros w I; cbn [run]; [reflexivity|].
  pose proof (step_autog w o I) as Ha. destruct (step_inv_ext w o I) as [I1 _].
  destruct (step w o) as [w1 x]. cbn [fst] in *. specialize (IH w1 I1).
  destruct (run w1 ops) as [w2 xs]. cbn [fst] in *. congruence.
Qed.

Lemma run_sim : forall ops w s, Inv w -> Sim w s ->
  abs_outs ops (snd (run w ops)) = snd (spec_run (esize w) (autog w) s ops).
Proof.
  induction ops as [|o ops IH]; intros w s I S; cbn [run spec_run].
  - reflexivity.
  - destruct (step_sim w s o I S) as [S1 E1]. destruct (step_inv_ext w o I) as [I1 [X1 _]].
    pose proof (step_autog w o I) as Ha.
    destruct (step w o) as [w1 x] eqn:E. destruct (spec_step (esize w) (autog w) s o) as [s1 y] eqn:Es.
    cbn [fst snd] in *. specialize (IH w1 s1 I1 S1). rewrite X1, Ha in IH.
    destruct (run w1 ops) as [w2 xs]. destruct (spec_run (esize w) (autog w) s1 ops) as [s2 ys].
    cbn [fst snd abs_outs] in *. congruence.
Qed.

Lemma create_sim : forall max es auto cb w, 0 <= max -> create max es auto cb = Some w -> Sim w (spec_init max).
Proof.
  intros max es auto cb w Hm H. destruct (create_inv _ _ _ _ _ Hm H) as (_ & E1 & _ & _ & _ & _ & Ec & _).
  unfold create in H.
  destruct ((ARRAY_MAX_ELEMENTS <? max) || (es <? 1) || (ARRAY_ELEMS_PER_BIN <? auto)); [discriminate|].
  inversion H; subst w; clear H. constructor.
  - reflexivity.
  - intros i. cbn. split; [discriminate|congruence].
  - intros i k blk _ _ Hb. rewrite bin_get_slot in Hb. cbn [bins] in Hb.
    rewrite slot_repeat_none in Hb. discriminate.
  - reflexivity.
Qed.

(* the refinement theorem: every history of index / grow / store / load calls on any valid array
   produces exactly the results the abstract specification produces *)
Theorem refines_spec : forall max es auto cb w0 ops, 0 <= max -> create max es auto cb = Some w0 ->
  abs_outs ops (snd (run w0 ops)) = snd (spec_run es auto (spec_init max) ops).
Proof.
  intros max es auto cb w0 ops Hm H. destruct (create_inv _ _ _ _ _ Hm H) as (I & _ & E2 & E3 & _).
  rewrite <- E2, <- E3. apply run_sim; [exact I|]. eapply create_sim; eassumption.
Qed.

(* ======================================================================================== *)
(* what the specification says about content (so that the reading of refines_spec is explicit) *)

Definition no_store_to (i k : Z) (ops : list op) : Prop :=
  Forall (fun o => match o with Store i' k' _ => i' <> i \/ k' <> k | _ => True end) ops.

Lemma spec_mem_frame : forall es auto ops s i k, no_store_to i k ops ->
  sp_mem (fst (spec_run es auto s ops)) i k = sp_mem s i k.
Proof.
  induction ops as [|o ops IH]; intros s i k H; cbn [spec_run]; [reflexivity|].
  inversion H as [|o' ops' Ho Hops]; subst.
  destruct (spec_step es auto s o) as [s1 y] eqn:E.
  specialize (IH s1 i k Hops). destruct (spec_run es auto s1 ops) as [s2 ys]. cbn [fst] in *. rewrite IH.
  destruct o as [idx|n| |idx k' v|idx k']; cbn [spec_step] in E.
  - destruct (idx <? 0); [inversion E; reflexivity|].
    destruct (sp_max s <=? idx).
    + destruct (auto =? 0); [inversion E; reflexivity|].
      destruct (ARRAY_MAX_ELEMENTS <? idx + 1); inversion E; reflexivity.
    + inversion E; reflexivity.
  - destruct (ARRAY_MAX_ELEMENTS <? n); inversion E; reflexivity.
  - inversion E; reflexivity.
  - destruct (sp_seen s idx && (0 <=? k') && (k' <? es)); inversion E; [|reflexivity].
    cbn [sp_mem]. destruct ((i =? idx) && (k =? k')) eqn:Eik; [|reflexivity]. exfalso. lia.
  - destruct (sp_seen s idx && (0 <=? k') && (k' <? es)); inversion E; reflexivity.
Qed.

Lemma spec_zero_init : forall max i k, sp_mem (spec_init max) i k = 0%N.
Proof. reflexivity. Qed.

Lemma spec_store_load : forall es auto s idx k v s1 y,
  spec_step es auto s (Store idx k v) = (s1, y) -> y = SRc 0 ->
  sp_mem s1 idx k = v /\ sp_seen s1 idx = true /\ 0 <= k < es /\
  snd (spec_step es auto s1 (Load idx k)) = SVal (Some v).
Proof.
  intros es auto s idx k v s1 y H Hy. cbn [spec_step] in *.
  destruct (sp_seen s idx && (0 <=? k) && (k <? es)) eqn:E; inversion H; subst; [|discriminate].
  cbn [sp_mem sp_seen]. rewrite !Z.eqb_refl. cbn [andb]. splits; try reflexivity; try lia.
  assert (sp_seen s idx = true) as -> by lia. assert ((0 <=? k) && (k <? es) = true) as E2 by lia.
  cbn [andb]. rewrite E2. reflexivity.
Qed.

(* a Load the caller is entitled to make returns the specification's content *)
Lemma spec_load : forall es auto s idx k, sp_seen s idx = true -> 0 <= k < es ->
  spec_step es auto s (Load idx k) = (s, SVal (Some (sp_mem s idx k))).
Proof.
  intros es auto s idx k Hs Hk. cbn [spec_step]. rewrite Hs.
  assert ((0 <=? k) && (k <? es) = true) as E by lia. cbn [andb]. rewrite E. reflexivity.
Qed.

(* ======================================================================================== *)
(* range errors, on every reachable state of the concrete model *)

Lemma index_range_state : forall w idx, Inv w ->
  (idx < 0 \/ ARRAY_MAX_ELEMENTS <= idx ->
     exists rc, step w (Index idx) = (w, OIndex rc None []) /\ rc < 0) /\
  (maxel w <= idx -> autog w = 0 -> step w (Index idx) = (w, OIndex (- ARRAY_ERANGE) None [])) /\
  (0 <= idx -> idx < maxel w \/ (autog w <> 0 /\ idx < ARRAY_MAX_ELEMENTS) ->
     exists w' a cbs, step w (Index idx) = (w', OIndex 0 (Some a) cbs) /\ maxel w' = Z.max (maxel w) (idx + 1)).
Proof.
  intros w idx I. cbn [step]. destruct (do_index w idx) as [w' x] eqn:E.
  pose proof (inv_max _ I) as Hmax.
  destruct (do_index_spec _ _ _ _ I E) as
    [(rc & -> & -> & Hf) | (blk & cbs & -> & [Hi Hr] & _ & _ & _ & _ & _ & Hm & _)].
  - assert (Hneg : rc < 0).
    { destruct Hf as [(_ & ->) | [(_ & _ & _ & ->) | (_ & _ & _ & _ & ->)]]; unfold ARRAY_ERANGE, ARRAY_EINVAL; lia. }
    splits.
    + intros _. exists rc. split; [reflexivity|exact Hneg].
    + intros H1 H2. destruct Hf as [(_ & ->) | [(_ & _ & _ & ->) | (_ & _ & H3 & _)]]; try reflexivity. lia.
    + intros H0 H1. exfalso. destruct Hf as [(H2 & _) | [(_ & H2 & H3 & _) | (_ & H2 & H3 & H4 & _)]]; lia.
  - splits.
    + intros H. exfalso. lia.
    + intros H1 H2. exfalso. lia.
    + intros _ _. eexists. eexists. eexists. split; [reflexivity|exact Hm].
Qed.

Theorem index_range_reachable : forall max es auto cb w0 ops idx, 0 <= max -> create max es auto cb = Some w0 ->
  let w := fst (run w0 ops) in
  autog w = auto /\
  (idx < 0 \/ ARRAY_MAX_ELEMENTS <= idx ->
     exists rc, step w (Index idx) = (w, OIndex rc None []) /\ rc < 0) /\
  (maxel w <= idx -> auto = 0 -> step w (Index idx) = (w, OIndex (- ARRAY_ERANGE) None [])) /\
  (0 <= idx -> idx < maxel w \/ (auto <> 0 /\ idx < ARRAY_MAX_ELEMENTS) ->
     exists w' a cbs, step w (Index idx) = (w', OIndex 0 (Some a) cbs) /\ maxel w' = Z.max (maxel w) (idx + 1)).
Proof.
  intros max es auto cb w0 ops idx Hm Hc w.
  destruct (create_inv _ _ _ _ _ Hm Hc) as (I0 & _ & _ & Ea & _).
  destruct (run_inv_ext ops w0 I0) as [I _]. fold w in I.
  assert (Ha : autog w = auto) by (unfold w; rewrite run_autog by exact I0; exact Ea).
  split; [exact Ha|]. rewrite <- Ha. apply index_range_state. exact I.
Qed.

(* table growth inside qb_array_index is dead code in every reachable state: the bin of an
   in-range index is always inside the table (the table is only ever reallocated by qb_array_grow) *)
Lemma bin_in_table : forall w idx, Inv w -> 0 <= idx < maxel w -> bin_of idx < num_bins w.
Proof.
  intros w idx I H. pose proof (inv_nb _ I) as Hn. pose proof (inv_max _ I) as Hm.
  rewrite bin_of_div. unfold bins_for in Hn.
  unfold ARRAY_MAX_ELEMENTS, ARRAY_ELEMS_PER_BIN, ARRAY_MAX_BINS in *.
  assert (idx / 16 <= maxel w / 16) by (apply Z.div_le_mono; lia).
  assert (idx / 16 < 4096) by (apply Z.div_lt_upper_bound; lia). lia.
Qed.
