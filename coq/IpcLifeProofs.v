(* C04 - invariant of the connection life cycle (fixed variant of coq/IpcLifeModel.v): definitions and basic lemmas. *)
Require Import ZArith List Bool Lia.
Require Import Verif.IpcLifeModel.
Import ListNotations.
Open Scope Z_scope.

(* [safe P r]: the run did not end in an error state (about a connection OR about the service object) and P holds *)
Definition safe (P : world -> Z -> Prop) (r : R) : Prop :=
  match r with Ok w z => P w z | Fail e _ => False end.

Lemma safe_bind : forall P r f, safe (fun w z => safe P (f w z)) r -> safe P (bind r f).
Proof. intros P [w z|e w] f; simpl; auto. Qed.
Lemma safe_mono : forall (P Q : world -> Z -> Prop) r, (forall w z, P w z -> Q w z) -> safe P r -> safe Q r.
Proof. intros P Q [w z|e w]; simpl; auto. Qed.
Lemma safe_chks : forall P w k, s_alloc w = true -> safe P k -> safe P (chks w k).
Proof. intros; unfold chks; rewrite H; auto. Qed.
Lemma safe_chk : forall P c w k, c_alloc (conns w c) = true -> safe P k -> safe P (chk c w k).
Proof. intros; unfold chk; rewrite H; auto. Qed.

Lemma updf_same : forall A (f : nat -> A) c x, updf f c x c = x.
Proof. intros; unfold updf; rewrite Nat.eqb_refl; auto. Qed.
Lemma updf_other : forall A (f : nat -> A) c x i, i <> c -> updf f c x i = f i.
Proof. intros; unfold updf; destruct (Nat.eqb_spec i c); congruence. Qed.

(* number of allocated connection objects among the ids handed out so far *)
Fixpoint nalloc_upto (f : nat -> conn) (n : nat) : Z :=
  match n with O => 0 | S m => nalloc_upto f m + (if c_alloc (f m) then 1 else 0) end.
Definition nalloc (w : world) : Z := nalloc_upto (conns w) (next w).

Lemma nalloc_upto_ext : forall f g n, (forall i, (i < n)%nat -> c_alloc (f i) = c_alloc (g i)) ->
  nalloc_upto f n = nalloc_upto g n.
Proof. induction n; simpl; intros; auto. rewrite IHn, H; auto. Qed.
Lemma nalloc_upto_nonneg : forall f n, 0 <= nalloc_upto f n.
Proof. induction n; simpl; try lia. destruct (c_alloc (f n)); lia. Qed.
Lemma nalloc_upto_upd_out : forall f c x n, (n <= c)%nat -> nalloc_upto (updf f c x) n = nalloc_upto f n.
Proof. intros. apply nalloc_upto_ext. intros i Hi. rewrite updf_other; auto. lia. Qed.
Lemma nalloc_upto_upd_in : forall f c x n, (c < n)%nat ->
  nalloc_upto (updf f c x) n = nalloc_upto f n - (if c_alloc (f c) then 1 else 0) + (if c_alloc x then 1 else 0).
Proof.
  induction n; intros; [lia|]. simpl. destruct (Nat.eq_dec c n).
  - subst. rewrite updf_same. rewrite nalloc_upto_upd_out by lia. lia.
  - rewrite updf_other by auto. rewrite IHn by lia. lia.
Qed.
Lemma nalloc_upto_pos : forall f c n, (c < n)%nat -> c_alloc (f c) = true -> 1 <= nalloc_upto f n.
Proof.
  induction n; intros; [lia|]. simpl. destruct (Nat.eq_dec c n).
  - subst. rewrite H0. pose proof (nalloc_upto_nonneg f n). lia.
  - assert (1 <= nalloc_upto f n) by (apply IHn; auto; lia). destruct (c_alloc (f n)); lia.
Qed.

Definition init_of (s : cstate) : Z := match s with ACTIVE | ESTABLISHED => 1 | _ => 0 end.
Definition jw (j : Z) : Z := Z.min j 1.
Fixpoint cnt (c : nat) (l : list nat) : Z :=
  match l with [] => 0 | a :: t => (if Nat.eqb a c then 1 else 0) + cnt c t end.

(* per-connection invariant.  Context of the enclosing library frames: h = temporary references they hold,
   j = ownership of a reference by a frame that relies on more than the object being there
       (1: qb_ipcs_disconnect after connection_closed asked for a re-run, 2: after it accepted,
        3: handle_new_connection before the transport is connected, 4: its reference around connection_created),
   d = a qb_ipcs_connection_unref frame is running the destroyed callback;
   nj = queued re-run jobs, inl = on the service's list *)
Definition CI (h j : Z) (d : bool) (nj : Z) (inl : bool) (x : conn) : Prop :=
  0 <= h /\ 0 <= j <= 4 /\ 0 <= nj /\ 0 <= c_uref x /\ jw j + nj <= 1 /\
  (d = true -> c_ph x = PDead /\ c_alloc x = true) /\
  match c_ph x with
  | PNone => c_alloc x = false /\ c_uref x = 0 /\ h = 0 /\ j = 0 /\ nj = 0 /\ inl = false /\ c_reg x = false
  | P0 => False
  | PDead => c_uref x = 0 /\ h = 0 /\ j = 0 /\ nj = 0 /\ inl = false /\ c_reg x = false /\ (c_alloc x = true -> c_rc x = 0) /\
             (d = false -> c_alloc x = false)
  | p => c_alloc x = true /\ c_rc x = init_of (c_st x) + c_uref x + h + jw j + nj /\ 1 <= c_rc x /\
         (c_reg x = true -> c_st x = ACTIVE \/ c_st x = ESTABLISHED) /\
         (j = 3 -> p = PAcc /\ c_st x = INACTIVE /\ c_reg x = false) /\
         (j = 4 -> p = PCre /\ (c_st x = ACTIVE \/ c_st x = INACTIVE)) /\
         match c_st x with
         | INACTIVE => (p = PAcc \/ p = PCre) /\ (j = 0 \/ j = 3 \/ j = 4) /\ nj = 0 /\ c_notified x = false
         | ACTIVE => p = PCre /\ j = 4 /\ nj = 0 /\ c_notified x = false
         | ESTABLISHED => p = PCre /\ j = 0 /\ nj = 0 /\ c_notified x = false
         | SHUTTING_DOWN => c_notified x = true /\
                            ((p = PRetry /\ jw j + nj = 1 /\ (j = 0 \/ j = 1)) \/ (p = PDone /\ nj = 0 /\ (j = 0 \/ j = 2)))
         end
  end.

Fixpoint desc (l : list nat) : Prop :=
  match l with [] => True | a :: t => (forall b, In b t -> (b < a)%nat) /\ desc t end.

(* the list: strictly descending ids (list_add puts the newest connection at the head); while
   handle_new_connection has not linked its connection yet (j = 3) everything on the list is older *)
Definition LI (J : nat -> Z) (l : list nat) : Prop :=
  desc l /\ forall c b, J c = 3 -> In b l -> (b < c)%nat.

(* context of the frames, third component: which connections are inside their destroyed callback, and whether a
   qb_ipcs_destroy frame (which still holds the creator's reference) is running *)
Record dctx := mkD { dying :> nat -> bool; dframe : bool }.

(* the service object: one reference for the creator (until qb_ipcs_destroy drops it) and one per allocated
   connection; freed exactly when none of them is left *)
Definition SI (df : bool) (w : world) : Prop :=
  (s_alloc w = true -> 1 <= s_rc w /\ (if s_creator w then 1 else 0) + nalloc w <= s_rc w) /\
  (s_alloc w = false -> s_creator w = false /\ nalloc w = 0) /\
  (destroy_called w = false -> s_creator w = true) /\
  (df = true -> s_creator w = true /\ destroy_called w = true).

Definition GI (H J : nat -> Z) (D : dctx) (w : world) : Prop :=
  (forall c, CI (H c) (J c) (D c) (cnt c (jobs w)) (mem_id c (s_list w)) (conns w c)) /\
  LI J (s_list w) /\
  (forall c, (next w <= c)%nat -> c_ph (conns w c) = PNone) /\
  SI (dframe D) w.

(* two worlds that differ only in fields the invariant does not look at *)
Definition same_frame (w' w : world) : Prop :=
  (forall c, conns w' c = conns w c) /\ jobs w' = jobs w /\ s_list w' = s_list w /\ next w' = next w /\
  s_alloc w' = s_alloc w /\ s_rc w' = s_rc w /\ s_creator w' = s_creator w /\ destroy_called w' = destroy_called w.

Definition addf (f : nat -> Z) (c : nat) (d : Z) : nat -> Z := fun i => if Nat.eqb i c then f i + d else f i.
Definition setf (f : nat -> Z) (c : nat) (v : Z) : nat -> Z := fun i => if Nat.eqb i c then v else f i.

Definition live (x : conn) : Prop := match c_ph x with PNone | P0 | PDead => False | _ => True end.

Lemma CI_live_alloc : forall h j d nj inl x, CI h j d nj inl x -> live x -> c_alloc x = true.
Proof. unfold CI, live; intros; destruct (c_ph x); intuition. Qed.
Lemma CI_h_live : forall h j d nj inl x, CI h j d nj inl x -> 1 <= h -> live x.
Proof. unfold CI, live; intros; destruct (c_ph x); intuition; lia. Qed.
Lemma CI_j_live : forall h j d nj inl x, CI h j d nj inl x -> j <> 0 -> live x.
Proof. unfold CI, live; intros; destruct (c_ph x); intuition. Qed.
Lemma CI_nj_live : forall h j d nj inl x, CI h j d nj inl x -> nj <> 0 -> live x.
Proof. unfold CI, live; intros; destruct (c_ph x); intuition. Qed.
Lemma CI_inl_live : forall h j d nj x, CI h j d nj true x -> live x.
Proof. unfold CI, live; intros; destruct (c_ph x); intuition; discriminate. Qed.
Lemma CI_d_alloc : forall h j nj inl x, CI h j true nj inl x -> c_alloc x = true.
Proof. unfold CI; intros; intuition. Qed.
Lemma CI_live_d : forall h j d nj inl x, CI h j d nj inl x -> live x -> d = false.
Proof. unfold CI, live; intros. destruct d; auto. destruct H as (_ & _ & _ & _ & _ & A & _). destruct (A eq_refl) as [E _]. rewrite E in H0. tauto. Qed.

Lemma SI_frame : forall df w w',
  (forall c, c_alloc (conns w' c) = c_alloc (conns w c)) -> next w' = next w ->
  s_alloc w' = s_alloc w -> s_rc w' = s_rc w -> s_creator w' = s_creator w -> destroy_called w' = destroy_called w ->
  SI df w -> SI df w'.
Proof.
  unfold SI, nalloc; intros df w w' E1 E2 E3 E4 E5 E6 S.
  rewrite E2, E3, E4, E5, E6. rewrite (nalloc_upto_ext (conns w') (conns w)); auto.
Qed.

(* GI only looks at conns, jobs, s_list, next and the service fields *)
Lemma GI_ext : forall H J D w w', same_frame w' w -> GI H J D w -> GI H J D w'.
Proof.
  unfold GI, same_frame; intros H J D w w' (E1 & E2 & E3 & E4 & E5 & E6 & E7 & E8) (A & B & C & S).
  rewrite E2, E3, E4. split; [|split; [|split]].
  - intros; rewrite E1; auto.
  - auto.
  - intros; rewrite E1; auto.
  - eapply SI_frame; [| | | | | | exact S]; auto. intros; rewrite E1; auto.
Qed.

(* replacing one connection record (jobs, list, next, allocation status unchanged) *)
Lemma GI_put : forall H J (D : dctx) H' J' (D' : dctx) w c x',
  GI H J D w ->
  (forall i, i <> c -> H' i = H i /\ J' i = J i /\ D' i = D i) ->
  CI (H' c) (J' c) (D' c) (cnt c (jobs w)) (mem_id c (s_list w)) x' ->
  (c_ph x' = PNone <-> c_ph (conns w c) = PNone) ->
  (J' c = 3 -> J c = 3) ->
  c_alloc x' = c_alloc (conns w c) -> dframe D' = dframe D ->
  GI H' J' D' (put c x' w).
Proof.
  unfold GI; intros H J D H' J' D' w c x' (A & B & C & S) E Hc Hp Hj3 Hal Hdf; simpl.
  split; [|split; [|split]]; auto.
  - intros i. unfold updf. destruct (Nat.eqb_spec i c).
    + subst; auto.
    + destruct (E i n) as (-> & -> & ->). apply A.
  - destruct B as [B1 B2]. split; auto. intros c0 b E0 Hb. destruct (Nat.eq_dec c0 c).
    + subst. apply (B2 c b); auto.
    + destruct (E c0 n) as (_ & E1 & _). rewrite E1 in E0. apply (B2 c0 b); auto.
  - intros i Hi. unfold updf. destruct (Nat.eqb_spec i c).
    + subst. apply Hp. apply C; auto.
    + apply C; auto.
  - rewrite Hdf. eapply SI_frame; [| | | | | | exact S]; try reflexivity.
    intros i. simpl. unfold updf. destruct (Nat.eqb_spec i c); subst; auto.
Qed.
(* the context only matters pointwise *)
Lemma GI_ctx : forall H J (D : dctx) H' J' (D' : dctx) w,
  (forall i, H' i = H i /\ J' i = J i /\ D' i = D i) -> dframe D' = dframe D -> GI H J D w -> GI H' J' D' w.
Proof.
  unfold GI; intros H J D H' J' D' w E Ed (A & B & C & S). split; [|split; [|split]]; auto.
  - intros c. destruct (E c) as (-> & -> & ->). apply A.
  - destruct B as [B1 B2]. split; auto. intros c b E0 Hb. destruct (E c) as (_ & E1 & _). rewrite E1 in E0. eauto.
  - rewrite Ed; auto.
Qed.

Lemma addf_same : forall f c d, addf f c d c = f c + d.
Proof. intros; unfold addf; rewrite Nat.eqb_refl; auto. Qed.
Lemma addf_other : forall f c d i, i <> c -> addf f c d i = f i.
Proof. intros; unfold addf; destruct (Nat.eqb_spec i c); congruence. Qed.
Lemma setf_same : forall f c d, setf f c d c = d.
Proof. intros; unfold setf; rewrite Nat.eqb_refl; auto. Qed.
Lemma setf_other : forall f c d i, i <> c -> setf f c d i = f i.
Proof. intros; unfold setf; destruct (Nat.eqb_spec i c); congruence. Qed.

Lemma mem_remove_same : forall c l, mem_id c (remove_id c l) = false.
Proof.
  induction l; simpl; auto. destruct (Nat.eqb_spec a c); simpl; auto.
  destruct (Nat.eqb_spec c a); try congruence. auto.
Qed.
Lemma mem_remove_other : forall c i l, i <> c -> mem_id i (remove_id c l) = mem_id i l.
Proof.
  induction l; simpl; auto; intros. destruct (Nat.eqb_spec a c); simpl.
  - subst. destruct (Nat.eqb_spec i c); try congruence. auto.
  - rewrite IHl; auto.
Qed.
Lemma In_remove : forall c b l, In b (remove_id c l) -> In b l.
Proof. unfold remove_id; intros. apply filter_In in H. tauto. Qed.
Lemma desc_remove : forall c l, desc l -> desc (remove_id c l).
Proof.
  induction l; simpl; auto. intros [A B]. destruct (Nat.eqb a c); simpl; auto.
  split; auto. intros b Hb. apply A. eapply In_remove; eauto.
Qed.
Lemma mem_In : forall c l, mem_id c l = true <-> In c l.
Proof.
  unfold mem_id; intros; rewrite existsb_exists. split.
  - intros (x & A & B). apply Nat.eqb_eq in B. subst; auto.
  - intros; exists c; split; auto. apply Nat.eqb_refl.
Qed.
Lemma succ_of_lt : forall c l n, desc l -> succ_of c l = Some n -> (n < c)%nat /\ In n l.
Proof.
  induction l; simpl; intros; try discriminate.
  destruct H as [A B]. destruct (Nat.eqb_spec a c).
  - subst. destruct l; try discriminate. inversion H0; subst. split; [apply A|]; simpl; auto.
  - destruct (IHl n B H0); auto.
Qed.
Lemma cnt_app : forall c l1 l2, cnt c (l1 ++ l2) = cnt c l1 + cnt c l2.
Proof. induction l1; simpl; intros; auto. rewrite IHl1; lia. Qed.
Lemma cnt_nonneg : forall c l, 0 <= cnt c l.
Proof. induction l; simpl; try lia. destruct (Nat.eqb a c); lia. Qed.

Definition setb (D : dctx) (c : nat) (v : bool) : dctx :=
  mkD (fun i => if Nat.eqb i c then v else D i) (dframe D).
Lemma setb_same : forall (D : dctx) c d, setb D c d c = d.
Proof. intros; unfold setb; simpl; rewrite Nat.eqb_refl; auto. Qed.
Lemma setb_other : forall (D : dctx) c d i, i <> c -> setb D c d i = D i.
Proof. intros; unfold setb; simpl; destruct (Nat.eqb_spec i c); congruence. Qed.
Lemma setb_frame : forall (D : dctx) c d, dframe (setb D c d) = dframe D.
Proof. reflexivity. Qed.
Definition setdf (D : dctx) (v : bool) : dctx := mkD (dying D) v.

(* what the library may assume of the application's callbacks (proved of [invoke] in IpcLifeProofs2) *)
Definition cb_ok (cb : kind -> nat -> world -> R) : Prop :=
  forall k c w,
    phase_step k 0 (c_ph (conns w c)) <> None ->
    (k = KDestroyed -> c_uref (conns w c) = 0) ->
    exists ret p', phase_step k ret (c_ph (conns w c)) = Some p' /\
      forall H J D, GI H J D (put c (w_ph p' (conns w c)) w) ->
        safe (fun w' r => r = ret /\ GI H J D w') (cb k c w).

Lemma LI_remove : forall J c l, LI J l -> LI J (remove_id c l).
Proof. intros J c l [A B]. split. apply desc_remove; auto. intros c0 b E Hb. apply (B c0 b); auto. eapply In_remove; eauto. Qed.
Lemma LI_setf_in : forall J c v l, v <> 3 -> LI J l -> LI (setf J c v) l.
Proof.
  intros J c v l Hv [A B]. split; auto. intros c0 b E Hb. unfold setf in E.
  destruct (Nat.eqb c0 c); [congruence | eauto].
Qed.
Lemma LI_setf_out : forall J c v l, J c <> 3 -> LI (setf J c v) l -> LI J l.
Proof.
  intros J c v l Hv [A B]. split; auto. intros c0 b E Hb. apply (B c0 b); auto.
  unfold setf. destruct (Nat.eqb_spec c0 c); [subst; congruence | auto].
Qed.

(* ---- the service object is there while a connection or the creator references it *)
Lemma GI_alloc_below : forall H J D w c, GI H J D w -> c_alloc (conns w c) = true -> (c < next w)%nat.
Proof.
  intros H J D w c (A & _ & C & _) Ha. destruct (Nat.lt_ge_cases c (next w)); auto.
  specialize (C c H0). specialize (A c). unfold CI in A. rewrite C in A. intuition congruence.
Qed.
Lemma GI_svc_alive : forall H J D w c, GI H J D w -> c_alloc (conns w c) = true -> s_alloc w = true.
Proof.
  intros H J D w c G Ha. pose proof (GI_alloc_below _ _ _ _ _ G Ha) as Lt.
  destruct G as (_ & _ & _ & S). destruct S as (_ & S2 & _).
  destruct (s_alloc w) eqn:E; auto. destruct (S2 eq_refl) as [_ N].
  unfold nalloc in N. pose proof (nalloc_upto_pos (conns w) c (next w) Lt Ha). lia.
Qed.
Lemma GI_svc_creator : forall H J D w, GI H J D w -> s_creator w = true -> s_alloc w = true.
Proof.
  intros H J D w (_ & _ & _ & S) Hc. destruct S as (_ & S2 & _).
  destruct (s_alloc w) eqn:E; auto. destruct (S2 eq_refl) as [N _]. congruence.
Qed.

Ltac ext := intros; unfold put, updf, set_list, set_jobs, set_svc, set_slots, set_withdrawn, logit, set_log, set_behs, set_prio,
              set_destroy_called, set_next, set_creator; simpl;
            repeat match goal with |- context [Nat.eqb ?a ?b] => destruct (Nat.eqb_spec a b); subst end; try congruence; auto.
Ltac frame := unfold same_frame; repeat split; try reflexivity; try solve [ext].
