(* C18 trie part, safety (4): put, rm, iterator create / free keep the accounting invariant (repaired code). *)
From Coq Require Import List ZArith Bool Arith Lia.
Import ListNotations.
Require Import Verif.gen.Consts_trie Verif.MapTrieModel Verif.MapTrieSpec Verif.MapTrieProofs Verif.MapTrieProofs2
               Verif.MapTrieIter Verif.MapTrieIds Verif.MapTrieIter3 Verif.MapTrieIter4 Verif.MapTrieIter6
               Verif.MapTrieSafe1 Verif.MapTrieSafe2 Verif.MapTrieSafe3 Verif.MapTrieView.

(* ---------- the iterator table ---------- *)
Lemma parked_cons : forall hi l id, parked (hi :: l) id = (if on_id id hi then 1 else 0) + parked l id.
Proof. intros. unfold parked. simpl. destruct (on_id id hi); reflexivity. Qed.

Lemma parked_del : forall its h it id, iters_get its h = Some it ->
  parked (iters_del its h) id + (if on_id id (h, it) then 1 else 0) = parked its id.
Proof.
  induction its as [|[h' it'] its]; simpl; intros h it id G; [discriminate|].
  destruct (h' =? h) eqn:E.
  - inversion G; subst. apply Nat.eqb_eq in E. subst h'. rewrite parked_cons. lia.
  - rewrite !parked_cons. specialize (IHits h it id G). lia.
Qed.

Lemma del_in : forall its h x, In x (iters_del its h) -> In x its.
Proof.
  induction its as [|[h' it'] its]; simpl; intros; auto. destruct (h' =? h); simpl in *; auto.
  destruct H; auto. right. eapply IHits; eauto.
Qed.

Lemma del_nodup : forall its h, NoDup (map fst its) -> NoDup (map fst (iters_del its h)) /\ ~ In h (map fst (iters_del its h)).
Proof.
  induction its as [|[h' it'] its]; simpl; intros h ND; [split; [constructor|auto]|].
  inversion ND; subst. destruct (Nat.eqb_spec h' h).
  - subst. auto.
  - destruct (IHits h H2) as [A B]. simpl. split.
    + constructor; auto. intro X. apply H1. apply in_map_iff in X. destruct X as [x [E Hx]].
      apply in_map_iff. exists x. split; auto. eapply del_in; eauto.
    + intros [X|X]; auto.
Qed.

Lemma get_in : forall its h it, iters_get its h = Some it -> In (h, it) its.
Proof.
  induction its as [|[h' it'] its]; simpl; intros; [discriminate|]. destruct (Nat.eqb_spec h' h).
  - inversion H; subst. auto.
  - right. auto.
Qed.

Definition plain (it : iter) : Prop := it_prefix it = None /\ it_root it = 0.

Lemma set_plain : forall its h it, (forall h' it', In (h', it') its -> plain it') -> plain it ->
  forall h' it', In (h', it') (iters_set its h it) -> plain it'.
Proof.
  intros its h it HP Hi h' it' [X|X]; [inversion X; subst; auto|]. apply del_in in X. eapply HP; eauto.
Qed.

Lemma set_nodup : forall its h it, NoDup (map fst its) -> NoDup (map fst (iters_set its h it)).
Proof. intros. unfold iters_set. simpl. destruct (del_nodup its h H). constructor; auto. Qed.

(* ---------- states ---------- *)
Definition SafT (t : trie) : Prop := Saf (t_root t) (t_iters t) (t_next t).

Lemma saf_put : forall t k v, SafT t -> kvalid k -> SafT (fst (do_put FX_ALL t k v)).
Proof.
  intros t k v HS [Hne Hnz]. unfold SafT in *. unfold do_put.
  destruct (ins_t FX_ALL (t_root t) k true (t_next t)) as [[r1 p] nid] eqn:I0.
  pose proof (saf_ins FX_ALL _ _ _ _ _ _ _ HS eq_refl Hne Hnz I0) as S1.
  destruct (ins_ok FX_ALL _ _ (le_n _) _ _ _ _ _ _ (sf_wf _ _ _ HS) Hnz I0) as [O1 [L1 W1]].
  assert (Hp : p <> []).
  { pose proof (sf_seg _ _ _ S1) as Sg. destruct r1 as [i1 s1 f1]. simpl in Sg. subst s1. eapply hdr_look; eauto. }
  destruct (upd_ok _ _ (le_n _) _ _ L1) as [tn [G1 _]]. rewrite G1. destruct tn as [i sg fc].
  destruct (pa_real _ _ _ _ _ S1 G1 Hp) as [PAi _]. simpl in PAi.
  pose proof (all_get_at _ _ _ _ W1 G1) as Wi. simpl in Wi. destruct Wi as [Wa [Wb Wc]].
  set (g1 := fun i0 : ninfo => set_removed false (set_kv (Some k) (Some v) i0)).
  assert (INS : Saf (upd_t r1 p (fun i0 => set_rc (S (n_rc (g1 i0))) (g1 i0))) (t_iters t) nid).
  { apply saf_upd with (tn := TN i sg fc); auto.
    - unfold wfi, g1, set_rc, set_removed, set_kv. simpl. repeat split; auto; congruence.
    - right. unfold pres, g1, set_rc, set_removed, set_kv in *. simpl. lia. }
  destruct (n_removed i) eqn:Rm.
  - (* removed but held: completed, then a new entry *)
    simpl. unfold node_ref. destruct p as [|j p']; [congruence|]. rewrite upd_upd. exact INS.
  - destruct (n_val i) eqn:V.
    + simpl. apply saf_upd with (tn := TN i sg fc); auto.
      * unfold wfi. simpl. repeat split; auto; congruence.
      * right. unfold pres in *. simpl. rewrite V, Rm in PAi. simpl. lia.
    + simpl. unfold node_ref. destruct p as [|j p']; [congruence|]. rewrite upd_upd. exact INS.
Qed.

Lemma saf_rm : forall t k, SafT t -> kvalid k -> SafT (fst (fst (do_rm FX_ALL t k))).
Proof.
  intros t k HS [Hne Hnz]. unfold SafT in *. unfold do_rm, lookup.
  destruct k as [|b k0] eqn:Ek; [congruence|]. rewrite <- Ek in *. clear Ek b k0.
  destruct (look_t (t_root t) k true) as [p|] eqn:L; [|exact HS].
  destruct (upd_ok _ _ (le_n _) _ _ L) as [tn [G1 _]]. rewrite G1. destruct tn as [i sg fc].
  assert (Hp : p <> []).
  { pose proof (sf_seg _ _ _ HS) as Sg. destruct (t_root t) as [i1 s1 f1]. simpl in Sg. subst s1. eapply hdr_look; eauto. }
  simpl f_rm. simpl f_removed. unfold alive. simpl t_info.
  destruct (present_i i) eqn:Pr; simpl; [|exact HS].
  destruct (pa_real _ _ _ _ _ HS G1 Hp) as [PAi _]. simpl in PAi.
  pose proof (all_get_at _ _ _ _ (sf_wf _ _ _ HS) G1) as Wi. simpl in Wi. destruct Wi as [Wa [Wb Wc]].
  unfold present_i, alive_i in Pr. destruct (n_val i) as [v|] eqn:V; [|discriminate].
  apply andb_true_iff in Pr. destruct Pr as [Pr1 Pr2]. apply negb_true_iff in Pr2.
  assert (S0 : Saf (upd_t (t_root t) p (set_removed true)) (t_iters t) (t_next t)).
  { apply saf_upd with (tn := TN i sg fc); auto.
    - unfold wfi, set_removed. simpl. rewrite V. repeat split; auto; congruence.
    - right. unfold pres, set_removed in *. simpl. rewrite V in *. rewrite Pr2 in PAi. simpl in *. lia. }
  pose proof (saf_deref _ _ _ p (TN (set_removed true i) sg fc) S0 Hp) as D.
  destruct (node_deref (upd_t (t_root t) p (set_removed true)) p) as [r1 evs]. simpl in *. apply D.
  - exact (get_at_upd _ _ (set_removed true) _ _ _ G1).
  - rewrite V. congruence.
  - unfold pres in *. simpl. rewrite V in *. rewrite Pr2 in PAi. simpl in *. rewrite Nat.add_1_r. exact PAi.
Qed.

Lemma saf_iter_create : forall t h, SafT t ->
  Saf (t_root t) (iters_set (t_iters t) h (new_iter None)) (t_next t).
Proof.
  intros t h HS. unfold SafT in HS. apply saf_weaken with (its := t_iters t); auto.
  - intros id Hid. unfold iters_set. rewrite parked_cons.
    replace (on_id id (h, new_iter None)) with false.
    2:{ unfold on_id, new_iter. simpl. destruct id; [congruence|reflexivity]. }
    destruct (iters_get (t_iters t) h) as [it|] eqn:G.
    + pose proof (parked_del _ _ _ id G). lia.
    + assert (X : iters_del (t_iters t) h = t_iters t).
      { clear -G. induction (t_iters t) as [|[h' it'] l]; simpl in *; auto. destruct (h' =? h); [discriminate|]. f_equal. auto. }
      rewrite X. lia.
  - apply set_plain; [apply (sf_plain _ _ _ HS)|]. split; reflexivity.
  - apply set_nodup. apply (sf_handles _ _ _ HS).
Qed.

(* trie_iter_free of an open iterator *)
Lemma saf_iter_free : forall t h it, SafT t -> iters_get (t_iters t) h = Some it ->
  exists r evs, iter_free (t_root t) it = Ok (r, evs) /\ Saf r (iters_del (t_iters t) h) (t_next t) /\
                forall q, dview (obs_t r q) = dview (obs_t (t_root t) q).
Proof.
  intros t h it HS G. unfold SafT in HS. pose proof (get_in _ _ _ G) as Hin.
  pose proof (del_nodup _ h (sf_handles _ _ _ HS)) as [ND _].
  assert (PL : forall h' it', In (h', it') (iters_del (t_iters t) h) -> it_prefix it' = None /\ it_root it' = 0).
  { intros. apply del_in in H. eapply (sf_plain _ _ _ HS); eauto. }
  assert (WK : Saf (t_root t) (iters_del (t_iters t) h) (t_next t)).
  { apply saf_weaken with (its := t_iters t); auto. intros id _. pose proof (parked_del _ _ _ id G). lia. }
  unfold iter_free. destruct (it_n it) as [pid|] eqn:N; [|eauto 6].
  destruct (Nat.eq_dec pid 0) as [e|e].
  - subst pid. destruct (sf_ids _ _ _ HS) as [_ [_ [H0 _]]]. rewrite <- H0, find_root.
    unfold node_deref. simpl. destruct (t_root t) as [i0 s0 f0] eqn:R. simpl in *.
    pose proof (sf_hval _ _ _ HS) as HV. simpl in HV. unfold alive_i. rewrite HV. eauto 6.
  - assert (P1 : 1 <= parked (t_iters t) pid).
    { pose proof (parked_del _ _ _ pid G) as X. unfold on_id in X. simpl in X. rewrite N, Nat.eqb_refl in X. lia. }
    destruct (sf_ids _ _ _ HS) as [U [_ [H0 _]]].
    destruct (find_some _ _ U (sf_ex _ _ _ HS pid P1 e)) as [pp [tn [F [Gp Ei]]]]. rewrite F.
    assert (Hpp : pp <> []). { intro Z. subst pp. simpl in Gp. inversion Gp; subst tn. congruence. }
    destruct (pa_real _ _ _ _ _ HS Gp Hpp) as [PAi _]. rewrite Ei in PAi.
    pose proof (all_get_at _ _ _ _ (sf_wf _ _ _ HS) Gp) as [Wa _].
    pose proof (saf_deref _ _ _ pp tn WK Hpp Gp) as D.
    pose proof (fun q => deref_view (t_root t) pp tn q (sf_wf _ _ _ HS) Gp Hpp) as DV.
    destruct (node_deref (t_root t) pp) as [r1 evs]. exists r1, evs. split; auto. simpl in D, DV. split.
    + apply D.
      * intro Z. destruct (Wa Z) as [_ [R0 _]]. lia.
      * rewrite Ei. pose proof (parked_del _ _ _ pid G) as X. unfold on_id in X. simpl in X. rewrite N, Nat.eqb_refl in X. lia.
    + intro q. apply DV. intro R1. lia.
Qed.
