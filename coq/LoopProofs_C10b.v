(* C10 - bounded wait for the workloads the property names: the items a level dispatches are taken from the head of
   its job list in order, an admitted level dispatches min(to_process, length) items per full turn, so over m full turns
   at least min(length of the list at the start, to_process * number of admitted turns) of the items that were on the
   list at the start have been dispatched; a level is admitted at least once in any three consecutive turns. *)
Require Import ZArith List Bool Lia.
Require Import Verif.gen.Consts_loop Verif.LoopModel Verif.LoopProofs_C10 Verif.LoopProofs_C10w.
Import ListNotations.
Open Scope Z_scope.

Lemma run_level_go_count : forall beh p, workload beh -> forall fuel processed st st' n,
  nosig st -> run_level_go beh p fuel processed st = (st', n) ->
  nosig st' /\ (forall q, q <> p -> jq st' q = jq st q) /\ (exists pre, jq st p = pre ++ jq st' p /\ zlen pre = n - processed).
Proof.
  intros beh p W. induction fuel as [|f IH]; intros processed st st' n N; cbn [run_level_go].
  - intros H; inversion H; subst. split; [auto|]. split; [auto|]. exists []. split; [reflexivity|unfold zlen; cbn; lia].
  - destruct (jobq (lv st p)) as [|it rest] eqn:Q.
    + intros H; inversion H; subst. split; [auto|]. split; [auto|]. exists []. split; [reflexivity|unfold zlen; cbn; lia].
    + set (s1 := upd_level p (fun l => {| wait := wait l; jobq := rest; todo := todo l |}) st).
      assert (J1 : forall q, jq s1 q = if prio_eqb q p then rest else jq st q).
      { intros q. unfold s1. rewrite jq_upd_level. reflexivity. }
      destruct N as (NA & NB & NC).
      assert (Sit : is_sig it = false) by (apply (NB p); unfold jq; rewrite Q; cbn; auto).
      assert (N1 : nosig s1).
      { split; [exact NA|]. split.
        - intros q x. rewrite J1. destruct (prio_eqb q p) eqn:E; [|apply NB].
          intros Hin. apply (NB p). unfold jq. rewrite Q. cbn; auto.
        - intros q x. unfold s1. rewrite wait_upd_level. destruct (prio_eqb q p) eqn:E; [|apply NC].
          apply prio_eqb_eq in E; subst. cbn. apply NC. }
      destruct (dispatch_workload beh it s1 W N1 Sit) as [N2 J2].
      set (s2 := dispatch beh it s1) in *.
      set (s3 := dec_todo p s2).
      assert (J3 : forall q, jq s3 q = jq s2 q).
      { intros q. unfold s3, dec_todo. rewrite jq_upd_level. destruct (prio_eqb q p) eqn:E; [|reflexivity].
        apply prio_eqb_eq in E; subst. reflexivity. }
      assert (N3 : nosig s3).
      { destruct N2 as (A & B & C). split; [exact A|]. split.
        - intros q x. rewrite J3. apply B.
        - intros q x. unfold s3, dec_todo. rewrite wait_upd_level. destruct (prio_eqb q p) eqn:E; [|apply C].
          apply prio_eqb_eq in E; subst. cbn. apply C. }
      assert (R : (forall q, q <> p -> jq s3 q = jq st q) /\ jq st p = [it] ++ jq s3 p).
      { split.
        - intros q Hq. rewrite J3, J2, J1. destruct (prio_eqb q p) eqn:E; [apply prio_eqb_eq in E; contradiction|reflexivity].
        - rewrite J3, J2, J1, prio_eqb_refl. unfold jq. rewrite Q. reflexivity. }
      destruct R as [R1 R2].
      fold s1. fold s2. fold s3.
      destruct (stop s3).
      * intros H; inversion H; subst. split; [exact N3|]. split; [exact R1|]. exists [it]. split; [exact R2|unfold zlen; cbn; lia].
      * destruct (processed + 1 <? LOOP_TO_PROCESS).
        -- intros H. apply IH in H; [|exact N3]. destruct H as (N4 & O4 & (pre & P4 & L4)).
           split; [exact N4|]. split.
           ++ intros q Hq. rewrite O4 by auto. apply R1; auto.
           ++ exists ([it] ++ pre). split; [rewrite R2, P4; now rewrite app_assoc|]. unfold zlen in *. rewrite app_length, Nat2Z.inj_add. change (Z.of_nat (length [it])) with 1. lia.
        -- intros H; inversion H; subst. split; [exact N3|]. split; [exact R1|]. exists [it]. split; [exact R2|unfold zlen; cbn; lia].
Qed.


Lemma zlen_app : forall A (a b : list A), zlen (a ++ b) = zlen a + zlen b.
Proof. intros. unfold zlen. rewrite app_length, Nat2Z.inj_add. reflexivity. Qed.
Lemma zlen_nonneg : forall A (l : list A), 0 <= zlen l.
Proof. intros. unfold zlen. lia. Qed.

(* one level's service in a full turn *)
Lemma serve_count : forall beh c p st st' i, workload beh -> nosig st -> serve beh c p st = (st', i) ->
  nosig st' /\ (forall q, q <> p -> jq st' q = jq st q) /\
  (exists pre, jq st p = pre ++ jq st' p /\ zlen pre = li_disp i) /\
  (li_admitted i = true -> stop st' = false -> Z.min LOOP_TO_PROCESS (zlen (jq st p)) <= li_disp i).
Proof.
  intros beh c p st st' i W N. unfold serve. destruct (prio_geb p c).
  - destruct (run_level beh p st) as [s n] eqn:R. intros H; inversion H; subst. cbn [li_admitted li_disp].
    pose proof (run_level_spec _ _ _ _ _ R) as (A & _ & _ & D).
    unfold run_level in R. apply run_level_go_count in R; auto. destruct R as (N1 & O1 & (pre & P1 & L1)).
    split; [exact N1|]. split; [exact O1|]. split; [exists pre; split; [exact P1|lia]|].
    intros _ S. destruct D as [D|[D|D]]; [congruence| |lia].
    fold (jq st' p) in D. rewrite D, app_nil_r in P1. rewrite P1. lia.
  - intros H; inversion H; subst. cbn. split; [exact N|]. split; [auto|]. split; [exists []; split; [reflexivity|unfold zlen; cbn; lia]|discriminate].
Qed.

(* one full turn, seen from level p *)
Lemma turn_queue : forall beh e rs st st' rs' ti p,
  workload beh -> nosig st -> iteration beh e rs st = (st', rs', ti) -> ti_returned ti = false ->
  nosig st' /\ exists l pre, jq st p ++ l = pre ++ jq st' p /\ zlen pre = li_disp (ti_lv ti p) /\
    (li_admitted (ti_lv ti p) = true -> Z.min LOOP_TO_PROCESS (zlen (jq st p)) <= li_disp (ti_lv ti p)).
Proof.
  intros beh e rs st st' rs' ti p W N. unfold iteration.
  destruct (get_more_jobs_nosig st N) as [N1 G1]. destruct (get_more_jobs st) as [jt s1]. cbn [snd] in *.
  unfold expire_the_timers.
  destruct (expire_go_nosig (length (timers s1)) 0 s1 N1) as [N2 G2]. destruct (expire_go _ 0 s1) as [tt s2]. cbn [snd] in *.
  match goal with |- context [poll_and_add_to_jobs e ?t s2] =>
    destruct (poll_and_add_nosig e t s2 N2) as [N3 G3]; destruct (poll_and_add_to_jobs e t s2) as [x s3] end.
  cbn [snd] in *.
  assert (G : grows st s3) by (eapply grows_trans; [exact G1|]; eapply grows_trans; eauto).
  destruct (G p) as [l EL]. clear G G1 G2 G3 N N1 N2.
  intros H Hret.
  destruct (serve beh (next_pstop (r_pstop rs)) High s3) as [s4 ih] eqn:SH.
  destruct (serve_count _ _ _ _ _ _ W N3 SH) as (N4 & O4 & (preH & PH & LH) & QH).
  destruct (li_admitted ih && stop s4) eqn:EH; [inversion H; subst; discriminate Hret|].
  destruct (serve beh (next_pstop (r_pstop rs)) Med s4) as [s5 im] eqn:SM.
  destruct (serve_count _ _ _ _ _ _ W N4 SM) as (N5 & O5 & (preM & PM & LM) & QM).
  destruct (li_admitted im && stop s5) eqn:EM; [inversion H; subst; discriminate Hret|].
  destruct (serve beh (next_pstop (r_pstop rs)) Low s5) as [s6 il] eqn:SL.
  destruct (serve_count _ _ _ _ _ _ W N5 SL) as (N6 & O6 & (preL & PL & LL) & QL).
  destruct (li_admitted il && stop s6) eqn:EL6; [inversion H; subst; discriminate Hret|].
  inversion H; subst. split; [exact N6|]. cbn [ti_lv ti_high ti_med ti_low].
  assert (MONO : forall a b c, 0 <= b -> Z.min a c <= Z.min a (c + b)) by (intros; lia).
  destruct p; cbn [ti_lv ti_high ti_med ti_low].
  - (* Low *)
    exists l, preL. rewrite <- EL. rewrite <- (O4 Low) by discriminate. rewrite <- (O5 Low) by discriminate.
    split; [exact PL|]. split; [exact LL|]. intros A. rewrite A in EL6; cbn in EL6.
    specialize (QL A EL6). rewrite (O5 Low), (O4 Low), EL in QL by discriminate. rewrite zlen_app in QL.
    pose proof (zlen_nonneg _ l). pose proof (zlen_nonneg _ (jq st Low)). lia.
  - (* Med *)
    exists l, preM. rewrite (O6 Med) by discriminate. rewrite <- EL. rewrite <- (O4 Med) by discriminate.
    split; [exact PM|]. split; [exact LM|]. intros A. rewrite A in EM; cbn in EM.
    specialize (QM A EM). rewrite (O4 Med), EL in QM by discriminate. rewrite zlen_app in QM.
    pose proof (zlen_nonneg _ l). pose proof (zlen_nonneg _ (jq st Med)). lia.
  - (* High *)
    exists l, preH. rewrite (O6 High), (O5 High) by discriminate. rewrite <- EL.
    split; [exact PH|]. split; [exact LH|]. intros A. rewrite A in EH; cbn in EH.
    specialize (QH A EH). rewrite EL in QH. rewrite zlen_app in QH.
    pose proof (zlen_nonneg _ l). pose proof (zlen_nonneg _ (jq st High)). lia.
Qed.

(* m consecutive full turns *)
Fixpoint turns (beh : behaviour) (envs : list env) (rs : runstate) (st : state) : state * runstate * list turninfo :=
  match envs with
  | [] => (st, rs, [])
  | e :: es => let '(st1, rs1, t) := iteration beh e rs st in
               let '(st2, rs2, ts) := turns beh es rs1 st1 in (st2, rs2, t :: ts)
  end.

Lemma turns_drain : forall beh envs rs st st' rs' ts p,
  workload beh -> nosig st -> turns beh envs rs st = (st', rs', ts) -> (forall t, In t ts -> ti_returned t = false) ->
  exists l pre, jq st p ++ l = pre ++ jq st' p /\ zlen pre = total_disp ts p /\
    Z.min (zlen (jq st p)) (LOOP_TO_PROCESS * admitted_count ts p) <= total_disp ts p.
Proof.
  intros beh. induction envs as [|e es IH]; intros rs st st' rs' ts p W N; cbn [turns].
  - intros H _; inversion H; subst. exists [], []. cbn. rewrite app_nil_r. unfold zlen; cbn.
    pose proof (zlen_nonneg _ (jq st' p)). repeat split; try lia.
  - destruct (iteration beh e rs st) as [[s1 r1] t] eqn:I1. destruct (turns beh es r1 s1) as [[s2 r2] ts'] eqn:T2.
    intros H Hret; inversion H; subst.
    destruct (turn_queue _ _ _ _ _ _ _ p W N I1 (Hret t (or_introl eq_refl))) as (N1 & l1 & pre1 & E1 & L1 & Q1).
    destruct (IH r1 s1 st' rs' ts' p W N1 T2 (fun x hx => Hret x (or_intror hx))) as (l2 & pre2 & E2 & L2 & Q2).
    exists (l1 ++ l2), (pre1 ++ pre2). cbn [total_disp admitted_count fold_right].
    fold (total_disp ts' p). fold (admitted_count ts' p).
    split; [rewrite app_assoc, E1, <- !app_assoc, E2; reflexivity|]. split; [rewrite zlen_app; lia|].
    pose proof to_process_pos. pose proof (zlen_nonneg _ (jq st p)). pose proof (zlen_nonneg _ (jq s1 p)).
    pose proof (zlen_nonneg _ l1). pose proof (zlen_nonneg _ pre1).
    assert (LEN : zlen (jq st p) + zlen l1 = zlen pre1 + zlen (jq s1 p)) by (rewrite <- !zlen_app, E1; reflexivity).
    assert (AC : 0 <= admitted_count ts' p).
    { clear. induction ts'; cbn; [lia|]. destruct (li_admitted (ti_lv a p)); unfold admitted_count in *; lia. }
    destruct (li_admitted (ti_lv t p)) eqn:A.
    + specialize (Q1 eq_refl). nia.
    + nia.
Qed.

(* a level is admitted at least once in any three consecutive full turns *)
Lemma admitted_every_three : forall beh e1 e2 e3 es rs st st' rs' ts p,
  turns beh (e1 :: e2 :: e3 :: es) rs st = (st', rs', ts) -> (forall t, In t ts -> ti_returned t = false) ->
  exists t1 t2 t3 rest, ts = t1 :: t2 :: t3 :: rest /\ 1 <= admitted_count [t1; t2; t3] p.
Proof.
  intros beh e1 e2 e3 es rs st st' rs' ts p. cbn [turns].
  destruct (iteration beh e1 rs st) as [[s1 r1] t1] eqn:I1.
  destruct (iteration beh e2 r1 s1) as [[s2 r2] t2] eqn:I2.
  destruct (iteration beh e3 r2 s2) as [[s3 r3] t3] eqn:I3.
  destruct (turns beh es r3 s3) as [[s4 r4] rest]. intros H Hret; inversion H; subst.
  exists t1, t2, t3, rest. split; [reflexivity|].
  assert (T : three_turns beh e1 e2 e3 rs st = (s3, r3, [t1; t2; t3])) by (unfold three_turns; rewrite I1, I2, I3; reflexivity).
  assert (R : forall t, In t [t1; t2; t3] -> ti_returned t = false) by (intros t Ht; apply Hret; cbn in *; tauto).
  destruct (opportunities_321 _ _ _ _ _ _ _ _ _ T R) as (AH & AM & AL). destruct p; lia.
Qed.

(* ------------------------------------------------------------------ the item at position k *)
Lemma nth_error_zlen : forall A (l : list A) k x, nth_error l k = Some x -> Z.of_nat k < zlen l.
Proof. intros A l k x H. unfold zlen. assert (k < length l)%nat by (apply nth_error_Some; congruence). lia. Qed.

(* whatever sits at position k of level p's job list has been handed to its dispatch function once the level was
   admitted in enough full turns: to_process * admitted turns > k *)
Lemma item_served_within : forall beh envs rs st st' rs' ts p k it,
  workload beh -> nosig st -> turns beh envs rs st = (st', rs', ts) -> (forall t, In t ts -> ti_returned t = false) ->
  nth_error (jq st p) k = Some it -> Z.of_nat k < LOOP_TO_PROCESS * admitted_count ts p ->
  exists l pre, jq st p ++ l = pre ++ jq st' p /\ zlen pre = total_disp ts p /\ nth_error pre k = Some it.
Proof.
  intros beh envs rs st st' rs' ts p k it W N T R Hk Hb.
  destruct (turns_drain _ _ _ _ _ _ _ p W N T R) as (l & pre & E & L & Q).
  exists l, pre. split; [exact E|]. split; [exact L|].
  pose proof (nth_error_zlen _ _ _ _ Hk) as K1.
  assert (K2 : Z.of_nat k < zlen pre) by lia.
  assert (H1 : nth_error (jq st p ++ l) k = Some it) by (rewrite nth_error_app1; [exact Hk|apply nth_error_Some; congruence]).
  rewrite E in H1. rewrite nth_error_app1 in H1; [exact H1|]. unfold zlen in K2. lia.
Qed.

(* turns compose *)
Lemma turns_app : forall beh e1 e2 rs st,
  turns beh (e1 ++ e2) rs st =
  (let '(s1, r1, t1) := turns beh e1 rs st in let '(s2, r2, t2) := turns beh e2 r1 s1 in (s2, r2, t1 ++ t2)).
Proof.
  intros beh. induction e1 as [|e es IH]; intros e2 rs st; cbn [turns app].
  - destruct (turns beh e2 rs st) as [[s r] t]. reflexivity.
  - destruct (iteration beh e rs st) as [[s1 r1] t]. rewrite IH.
    destruct (turns beh es r1 s1) as [[s2 r2] ts]. destruct (turns beh e2 r2 s2) as [[s3 r3] ts2]. reflexivity.
Qed.
Lemma admitted_count_app : forall a b p, admitted_count (a ++ b) p = admitted_count a p + admitted_count b p.
Proof. induction a; intros; cbn; [reflexivity|]. unfold admitted_count in *. rewrite IHa. lia. Qed.
Lemma admitted_count_nonneg : forall ts p, 0 <= admitted_count ts p.
Proof. induction ts; intros; cbn; [lia|]. specialize (IHts p). unfold admitted_count in *. destruct (li_admitted (ti_lv a p)); lia. Qed.
Lemma turns_length : forall beh envs rs st, length (snd (turns beh envs rs st)) = length envs.
Proof.
  intros beh. induction envs as [|e es IH]; intros rs st; cbn [turns]; [reflexivity|].
  destruct (iteration beh e rs st) as [[s1 r1] t]. specialize (IH r1 s1). destruct (turns beh es r1 s1) as [[s2 r2] ts]. cbn in *. lia.
Qed.

(* in 3 * n consecutive full turns every level is admitted at least n times *)
Lemma admitted_3n : forall beh n envs rs st st' rs' ts p, length envs = (3 * n)%nat ->
  turns beh envs rs st = (st', rs', ts) -> (forall t, In t ts -> ti_returned t = false) -> Z.of_nat n <= admitted_count ts p.
Proof.
  intros beh. induction n as [|n IH]; intros envs rs st st' rs' ts p L T R.
  - apply admitted_count_nonneg.
  - destruct envs as [|e1 [|e2 [|e3 es]]]; cbn in L; try lia.
    change (e1 :: e2 :: e3 :: es) with ([e1; e2; e3] ++ es) in T. rewrite turns_app in T.
    destruct (turns beh [e1; e2; e3] rs st) as [[s1 r1] t1] eqn:T1. destruct (turns beh es r1 s1) as [[s2 r2] t2] eqn:T2.
    inversion T; subst.
    assert (R1 : forall t, In t t1 -> ti_returned t = false) by (intros; apply R; apply in_or_app; auto).
    assert (R2 : forall t, In t t2 -> ti_returned t = false) by (intros; apply R; apply in_or_app; auto).
    destruct (admitted_every_three beh e1 e2 e3 [] rs st s1 r1 t1 p T1 R1) as (a & b & c & rest & E & A).
    assert (rest = []).
    { pose proof (turns_length beh [e1; e2; e3] rs st) as X. rewrite T1 in X. cbn in X. subst t1. cbn in X. destruct rest; [reflexivity|cbn in X; lia]. }
    subst rest t1. rewrite admitted_count_app.
    assert (length es = (3 * n)%nat) by lia. specialize (IH es r1 s1 st' rs' t2 p H T2 R2). lia.
Qed.

(* bounded wait, closed form: after 3 * (k / to_process + 1) full turns the item at position k has been dispatched *)
Lemma item_served_bound : forall beh envs rs st st' rs' ts p k it,
  workload beh -> nosig st -> length envs = (3 * (Z.to_nat (Z.of_nat k / LOOP_TO_PROCESS) + 1))%nat ->
  turns beh envs rs st = (st', rs', ts) -> (forall t, In t ts -> ti_returned t = false) ->
  nth_error (jq st p) k = Some it ->
  exists l pre, jq st p ++ l = pre ++ jq st' p /\ zlen pre = total_disp ts p /\ nth_error pre k = Some it.
Proof.
  intros beh envs rs st st' rs' ts p k it W N L T R Hk.
  apply (item_served_within beh envs rs st st' rs' ts p k it W N T R Hk).
  pose proof (admitted_3n beh _ envs rs st st' rs' ts p L T R) as A. pose proof to_process_pos.
  set (q := Z.of_nat k / LOOP_TO_PROCESS) in *. assert (0 <= q) by (apply Z.div_pos; lia).
  rewrite Nat2Z.inj_add, Z2Nat.id in A by lia.
  assert (Z.of_nat k < LOOP_TO_PROCESS * (q + 1)).
  { pose proof (Z.mod_pos_bound (Z.of_nat k) LOOP_TO_PROCESS ltac:(lia)). pose proof (Z.div_mod (Z.of_nat k) LOOP_TO_PROCESS ltac:(lia)). unfold q. nia. }
  nia.
Qed.
