(* C15, first half: printing the dump of a blackbox reproduces every retained entry (round trip), for the repaired
   code.  Part 1: decoding one entry from the chunk buffer. *)
From Coq Require Import ZArith List Bool Lia ZifyBool.
Import ListNotations.
Require Import Verif.gen.Consts_rb Verif.gen.Consts_bbfile Verif.RbModel Verif.RbSpec Verif.RbMem Verif.RbProofs
        Verif.BbFileModel Verif.BbFileProofs.
Local Open Scope Z_scope.

Ltac Zify.zify_post_hook ::= Z.div_mod_to_equations.

(* ------------------------------------------------------------------ list / byte helpers *)
Lemma nth_app_off : forall (pre l : list Z) j, 0 <= j ->
  nth (Z.to_nat (zlen pre + j)) (pre ++ l) 0 = nth (Z.to_nat j) l 0.
Proof.
  intros pre l j Hj. rewrite app_nth2 by (unfold zlen; lia). f_equal. unfold zlen. lia.
Qed.

Lemma cget_app : forall pre l post j, 0 <= j < zlen l ->
  cget (pre ++ l ++ post) (zlen pre + j) = Ok (nth (Z.to_nat j) l 0).
Proof.
  intros pre l post j Hj. pose proof (zlen_nonneg pre). pose proof (zlen_nonneg post).
  rewrite cget_in by (rewrite !zlen_app; lia).
  rewrite nth_app_off by lia. rewrite app_nth1 by (unfold zlen in Hj; lia). reflexivity.
Qed.

Lemma zlen_word_bytes : forall w, zlen (BbFileModel.word_bytes w) = 4.
Proof. reflexivity. Qed.

Lemma c32_app : forall pre w post, 0 <= w < two32 ->
  c32 (pre ++ BbFileModel.word_bytes w ++ post) (zlen pre) = Ok w.
Proof.
  intros pre w post Hw. unfold c32.
  rewrite <- (Z.add_0_r (zlen pre)) at 1.
  rewrite !Z.add_assoc || idtac.
  rewrite (cget_app pre (BbFileModel.word_bytes w) post 0) by (rewrite zlen_word_bytes; lia).
  rewrite (cget_app pre (BbFileModel.word_bytes w) post 1) by (rewrite zlen_word_bytes; lia).
  rewrite (cget_app pre (BbFileModel.word_bytes w) post 2) by (rewrite zlen_word_bytes; lia).
  rewrite (cget_app pre (BbFileModel.word_bytes w) post 3) by (rewrite zlen_word_bytes; lia).
  cbn [bind BbFileModel.word_bytes nth Z.to_nat Pos.to_nat Pos.iter_op Init.Nat.add].
  f_equal. apply RbMem.word_bytes. exact Hw.
Qed.

Definition two64 : Z := 2 * two63.

Lemma zlen_w64 : forall v, zlen (w64 v) = 8.
Proof. reflexivity. Qed.

Lemma c64_app : forall pre v post, 0 <= v < two64 ->
  c64 (pre ++ w64 v ++ post) (zlen pre) = Ok v.
Proof.
  intros pre v post Hv. unfold c64, w64, two64, two63 in *.
  assert (H1 : 0 <= v mod two32 < two32) by (apply Z.mod_pos_bound; unfold two32; lia).
  assert (H2 : 0 <= (v / two32) mod two32 < two32) by (apply Z.mod_pos_bound; unfold two32; lia).
  rewrite <- app_assoc. rewrite c32_app by assumption. cbn [bind].
  replace (zlen pre + 4) with (zlen (pre ++ BbFileModel.word_bytes (v mod two32)))
    by (rewrite zlen_app, zlen_word_bytes; reflexivity).
  rewrite (app_assoc pre). rewrite c32_app by assumption. cbn [bind].
  f_equal. unfold two32 in *. lia.
Qed.

(* a NUL-free string followed by NUL is read back by the %s scan *)
Lemma cstr_app : forall fn pre post fuel, Forall (fun x => 1 <= x < 256) fn -> (length fn < fuel)%nat ->
  cstr fuel (pre ++ fn ++ 0 :: post) (zlen pre) = Ok fn.
Proof.
  induction fn as [|x t IH]; intros pre post fuel Hfn Hf.
  - destruct fuel; [cbn in Hf; lia|]. cbn [cstr app].
    change (0 :: post) with ([0] ++ post).
    rewrite <- (Z.add_0_r (zlen pre)).
    rewrite (cget_app pre [0] post 0) by (cbn; lia). cbn. reflexivity.
  - destruct fuel; [cbn in Hf; lia|]. cbn [cstr]. inversion Hfn as [|? ? Hx Ht]; subst.
    assert (Hc : cget (pre ++ (x :: t) ++ 0 :: post) (zlen pre) = Ok x).
    { rewrite <- (Z.add_0_r (zlen pre)).
      rewrite (cget_app pre (x :: t) (0 :: post) 0) by (rewrite zlen_cons; pose proof (zlen_nonneg t); lia).
      reflexivity. }
    rewrite Hc. cbn [bind]. replace (x =? 0) with false by lia.
    assert (Hl : pre ++ (x :: t) ++ 0 :: post = (pre ++ [x]) ++ t ++ 0 :: post)
      by (rewrite <- app_assoc; reflexivity).
    rewrite Hl.
    replace (zlen pre + 1) with (zlen (pre ++ [x])) by (rewrite zlen_app; cbn; lia).
    rewrite IH; [reflexivity | assumption | cbn in Hf; lia].
Qed.

(* ------------------------------------------------------------------ well-formed entries *)
Definition wf_rec (r : brec) : Prop :=
  0 <= b_line r < two32 /\ 0 <= b_tags r < two32 /\ 0 <= b_prio r < 256 /\
  Forall (fun x => 1 <= x < 256) (b_fn r) /\ - two63 <= b_sec r < two63 /\ 0 <= b_nsec r < two64 /\
  1 <= zlen (b_msg r) <= BBF_LOG_MAX_LEN /\ zlen (enc r) <= BBF_CHUNK_BUF.

(* the text the printer shows for decoder answer buf *)
Definition post_text (buf stk : list Z) : list Z :=
  match msg_post true buf stk with Ok t => t | Flt _ => [] end.

Lemma zlen_enc : forall r, zlen (enc r) = zlen (b_fn r) + 34 + zlen (b_msg r).
Proof.
  intros r. unfold enc. rewrite !zlen_app, !zlen_word_bytes, !zlen_w64. unfold zlen. cbn [length]. lia.
Qed.

Lemma to_s64_mod : forall s, - two63 <= s < two63 -> to_s64 (s mod (2 * two63)) = s.
Proof.
  intros s Hs. unfold to_s64, two63 in *. destruct (s mod (2 * 9223372036854775808) <? 9223372036854775808) eqn:E; lia.
Qed.

(* decoding the entry that starts the chunk buffer *)
Section Decode.
Variable r : brec.
Variable tail : list Z.
Hypothesis Hwf : wf_rec r.
Let C := enc r ++ tail.
Let fs := zlen (b_fn r) + 1.
Let L := BbFileModel.word_bytes (b_line r).
Let T := BbFileModel.word_bytes (b_tags r).
Let F := BbFileModel.word_bytes fs.
Let S8 := w64 (b_sec r mod (2 * two63)).
Let N8 := w64 (b_nsec r).
Let M := BbFileModel.word_bytes (zlen (b_msg r)).

Lemma C_shape : C = L ++ T ++ [b_prio r] ++ F ++ b_fn r ++ [0] ++ S8 ++ N8 ++ M ++ b_msg r ++ tail.
Proof. unfold C, enc, L, T, F, S8, N8, M, fs. rewrite <- !app_assoc. reflexivity. Qed.

Lemma U4 : BBF_SIZEOF_U32 = 4.
Proof. pose proof bbf_consts_ok as K. lia. Qed.

Lemma dec_line : c32 C 0 = Ok (b_line r).
Proof.
  rewrite C_shape. destruct Hwf as (Hl & _).
  change (c32 (L ++ T ++ [b_prio r] ++ F ++ b_fn r ++ [0] ++ S8 ++ N8 ++ M ++ b_msg r ++ tail) 0)
    with (c32 ([] ++ L ++ T ++ [b_prio r] ++ F ++ b_fn r ++ [0] ++ S8 ++ N8 ++ M ++ b_msg r ++ tail) (zlen [])).
  unfold L. apply c32_app. assumption.
Qed.

Lemma dec_tags : c32 C BBF_SIZEOF_U32 = Ok (b_tags r).
Proof.
  rewrite C_shape. destruct Hwf as (_ & Ht & _).
  replace BBF_SIZEOF_U32 with (zlen L) by (rewrite U4; reflexivity).
  unfold T. apply c32_app. assumption.
Qed.

Lemma dec_prio : cget C (2 * BBF_SIZEOF_U32) = Ok (b_prio r).
Proof.
  rewrite C_shape. rewrite (app_assoc L T).
  replace (2 * BBF_SIZEOF_U32) with (zlen (L ++ T) + 0) by (rewrite U4; reflexivity).
  rewrite (cget_app (L ++ T) [b_prio r] _ 0) by (cbn; lia). reflexivity.
Qed.

Lemma dec_fs : c32 C (2 * BBF_SIZEOF_U32 + 1) = Ok fs.
Proof.
  rewrite C_shape. rewrite (app_assoc L T). rewrite (app_assoc (L ++ T) [b_prio r]).
  replace (2 * BBF_SIZEOF_U32 + 1) with (zlen ((L ++ T) ++ [b_prio r])) by (rewrite U4; reflexivity).
  unfold F. apply c32_app.
  destruct Hwf as (_ & _ & _ & _ & _ & _ & _ & Hsz). rewrite zlen_enc in Hsz.
  pose proof bbf_consts_ok as K. pose proof (zlen_nonneg (b_fn r)). pose proof (zlen_nonneg (b_msg r)).
  unfold fs, two32. bbc. lia.
Qed.

Let P4 := ((L ++ T) ++ [b_prio r]) ++ F.
Lemma C_shape4 : C = P4 ++ b_fn r ++ [0] ++ S8 ++ N8 ++ M ++ b_msg r ++ tail.
Proof. rewrite C_shape. unfold P4. rewrite <- !app_assoc. reflexivity. Qed.
Lemma zlen_P4 : zlen P4 = 3 * BBF_SIZEOF_U32 + 1.
Proof. rewrite U4. reflexivity. Qed.

Lemma dec_fn_last : cget C (3 * BBF_SIZEOF_U32 + 1 + fs - 1) = Ok 0.
Proof.
  rewrite C_shape4. rewrite (app_assoc P4 (b_fn r)).
  replace (3 * BBF_SIZEOF_U32 + 1 + fs - 1) with (zlen (P4 ++ b_fn r) + 0)
    by (rewrite zlen_app, zlen_P4; unfold fs; lia).
  rewrite (cget_app (P4 ++ b_fn r) [0] _ 0) by (cbn; lia). reflexivity.
Qed.

Let P5 := (P4 ++ b_fn r) ++ [0].
Lemma C_shape5 : C = P5 ++ S8 ++ N8 ++ M ++ b_msg r ++ tail.
Proof. rewrite C_shape4. unfold P5. rewrite <- !app_assoc. reflexivity. Qed.
Lemma zlen_P5 : zlen P5 = 3 * BBF_SIZEOF_U32 + 1 + fs.
Proof. unfold P5. rewrite !zlen_app, zlen_P4. change (zlen [0]) with 1. unfold fs. lia. Qed.

Lemma dec_sec : c64 C (3 * BBF_SIZEOF_U32 + 1 + fs) = Ok (b_sec r mod (2 * two63)).
Proof.
  rewrite C_shape5. rewrite <- zlen_P5. unfold S8. apply c64_app.
  unfold two64. apply Z.mod_pos_bound. unfold two63. lia.
Qed.

Lemma dec_nsec : c64 C (3 * BBF_SIZEOF_U32 + 1 + fs + 8) = Ok (b_nsec r).
Proof.
  rewrite C_shape5. rewrite (app_assoc P5 S8).
  replace (3 * BBF_SIZEOF_U32 + 1 + fs + 8) with (zlen (P5 ++ S8))
    by (rewrite zlen_app, zlen_P5; unfold S8; rewrite zlen_w64; lia).
  unfold N8. apply c64_app. destruct Hwf as (_ & _ & _ & _ & _ & Hn & _). exact Hn.
Qed.

Let P7 := (P5 ++ S8) ++ N8.
Lemma C_shape7 : C = P7 ++ M ++ b_msg r ++ tail.
Proof. rewrite C_shape5. unfold P7. rewrite <- !app_assoc. reflexivity. Qed.
Lemma zlen_P7 : zlen P7 = 3 * BBF_SIZEOF_U32 + 1 + fs + BBF_SIZEOF_TIMESPEC.
Proof.
  unfold P7. rewrite !zlen_app, zlen_P5. unfold S8, N8. rewrite !zlen_w64.
  pose proof bbf_consts_ok as K. lia.
Qed.

Lemma dec_mlen : c32 C (3 * BBF_SIZEOF_U32 + 1 + fs + BBF_SIZEOF_TIMESPEC) = Ok (zlen (b_msg r)).
Proof.
  rewrite C_shape7. rewrite <- zlen_P7. unfold M. apply c32_app.
  destruct Hwf as (_ & _ & _ & _ & _ & _ & Hm & _). unfold two32. bbc. lia.
Qed.

Lemma dec_fn : cstr (S (length C)) C (3 * BBF_SIZEOF_U32 + 1) = Ok (b_fn r).
Proof.
  rewrite <- zlen_P4. rewrite C_shape4 at 2.
  change ([0] ++ S8 ++ N8 ++ M ++ b_msg r ++ tail) with (0 :: S8 ++ N8 ++ M ++ b_msg r ++ tail).
  apply cstr_app.
  - destruct Hwf as (_ & _ & _ & Hfn & _). exact Hfn.
  - rewrite C_shape4. rewrite !app_length. lia.
Qed.

Lemma entry_decode : forall orc stk,
  zlen C = BBF_CHUNK_BUF -> buf_ok (match orc with [] => [0] | x :: _ => x end) ->
  entry true true C (zlen (enc r)) orc stk =
  ECont [EDec (zlen (b_fn r) + 34) (zlen (b_msg r));
         ERec (b_prio r) (b_sec r) (b_nsec r) (b_fn r) (b_line r) (b_tags r)
              (post_text (match orc with [] => [0] | x :: _ => x end) stk)] (tl orc).
Proof.
  intros orc stk Hlen Hbuf.
  pose proof bbf_consts_ok as K. pose proof (zlen_enc r) as Hze.
  pose proof (zlen_nonneg (b_fn r)) as Hfn0.
  destruct Hwf as (Hl & Ht & Hp & Hfn & Hs & Hn & Hm & Hsz).
  unfold entry. cbv zeta.
  rewrite dec_line. cbn [lift]. rewrite dec_tags. cbn [lift]. rewrite dec_prio. cbn [lift].
  rewrite dec_fs. cbn [lift].
  replace (zlen (enc r) <? fs + BBF_MIN_ENTRY_SIZE) with false by (unfold fs; bbc; lia).
  replace (fs <=? 0) with false by (unfold fs; bbc; lia).
  cbn [andb].
  rewrite dec_fn_last. cbn [lift].
  replace (negb (0 =? 0)) with false by reflexivity. cbn [orb].
  unfold ts_size.
  replace (zlen (enc r) <? 3 * BBF_SIZEOF_U32 + 1 + fs + BBF_SIZEOF_TIMESPEC + BBF_SIZEOF_U32)
    with false by (unfold fs; bbc; lia).
  rewrite dec_sec. cbn [lift]. rewrite dec_nsec. cbn [lift]. rewrite dec_mlen. cbn [lift].
  cbn [lift].
  destruct (msg_post_ok _ stk Hbuf) as (text & Htext).
  unfold post_text. rewrite Htext. cbn [lift].
  rewrite dec_fn. cbn [lift].
  replace (3 * BBF_SIZEOF_U32 + 1 + fs + BBF_SIZEOF_TIMESPEC + BBF_SIZEOF_U32) with (zlen (b_fn r) + 34)
    by (unfold fs; bbc; lia).
  rewrite to_s64_mod by assumption.
  destruct ((BBF_LOG_MAX_LEN <? zlen (b_msg r)) || (zlen (b_msg r) <=? 0)
            || (zlen (enc r) <? zlen (b_fn r) + 34 + zlen (b_msg r))) eqn:E; [bbc; lia|].
  reflexivity.
Qed.
End Decode.
