(* C15, first half: printing the dump of a blackbox reproduces every retained entry (round trip), for the repaired
   code.  Part 1: decoding one entry from the chunk buffer. *)
From Coq Require Import ZArith List Bool Lia ZifyBool.
Import ListNotations.
Require Import Verif.gen.Consts_rb Verif.gen.Consts_bbfile Verif.RbModel Verif.RbSpec Verif.RbMem Verif.RbProofs
        Verif.BbFileModel Verif.BbFileProofs.
Local Open Scope Z_scope.

Ltac Zify.zify_post_hook ::= Z.div_mod_to_equations.

(* ------------------------------------------------------------------ list / byte helpers *)
Lemma nth_app_off : forall (pre l : list Z) j, 0 <= j ->
  nth (Z.to_nat (zlen pre + j)) (pre ++ l) 0 = nth (Z.to_nat j) l 0.
Proof.
  intros pre l j Hj. rewrite app_nth2 by (unfold zlen; lia). f_equal. unfold zlen. lia.
Qed.

Lemma cget_app : forall pre l post j, 0 <= j < zlen l ->
  cget (pre ++ l ++ post) (zlen pre + j) = Ok (nth (Z.to_nat j) l 0).
Proof.
  intros pre l post j Hj. pose proof (zlen_nonneg pre). pose proof (zlen_nonneg post).
  rewrite cget_in by (rewrite !zlen_app; lia).
  rewrite nth_app_off by lia. rewrite app_nth1 by (unfold zlen in Hj; lia). reflexivity.
Qed.

Lemma zlen_word_bytes : forall w, zlen (BbFileModel.word_bytes w) = 4.
Proof. reflexivity. Qed.

Lemma c32_app : forall pre w post, 0 <= w < two32 ->
  c32 (pre ++ BbFileModel.word_bytes w ++ post) (zlen pre) = Ok w.
Proof.
  intros pre w post Hw. unfold c32.
  rewrite <- (Z.add_0_r (zlen pre)) at 1.
  rewrite !Z.add_assoc || idtac.
  rewrite (cget_app pre (BbFileModel.word_bytes w) post 0) by (rewrite zlen_word_bytes; lia).
  rewrite (cget_app pre (BbFileModel.word_bytes w) post 1) by (rewrite zlen_word_bytes; lia).
  rewrite (cget_app pre (BbFileModel.word_bytes w) post 2) by (rewrite zlen_word_bytes; lia).
  rewrite (cget_app pre (BbFileModel.word_bytes w) post 3) by (rewrite zlen_word_bytes; lia).
  cbn [bind BbFileModel.word_bytes nth Z.to_nat Pos.to_nat Pos.iter_op Init.Nat.add].
  f_equal. apply RbMem.word_bytes. exact Hw.
Qed.

Definition two64 : Z := 2 * two63.

Lemma zlen_w64 : forall v, zlen (w64 v) = 8.
Proof. reflexivity. Qed.

Lemma c64_app : forall pre v post, 0 <= v < two64 ->
  c64 (pre ++ w64 v ++ post) (zlen pre) = Ok v.
Proof.
  intros pre v post Hv. unfold c64, w64, two64, two63 in *.
  assert (H1 : 0 <= v mod two32 < two32) by (apply Z.mod_pos_bound; unfold two32; lia).
  assert (H2 : 0 <= (v / two32) mod two32 < two32) by (apply Z.mod_pos_bound; unfold two32; lia).
  rewrite <- app_assoc. rewrite c32_app by assumption. cbn [bind].
  replace (zlen pre + 4) with (zlen (pre ++ BbFileModel.word_bytes (v mod two32)))
    by (rewrite zlen_app, zlen_word_bytes; reflexivity).
  rewrite (app_assoc pre). rewrite c32_app by assumption. cbn [bind].
  f_equal. unfold two32 in *. lia.
Qed.

(* a NUL-free string followed by NUL is read back by the %s scan *)
Lemma cstr_app : forall fn pre post fuel, Forall (fun x => 1 <= x < 256) fn -> (length fn < fuel)%nat ->
  cstr fuel (pre ++ fn ++ 0 :: post) (zlen pre) = Ok fn.
Proof.
  induction fn as [|x t IH]; intros pre post fuel Hfn Hf.
  - destruct fuel; [cbn in Hf; lia|]. cbn [cstr app].
    change (0 :: post) with ([0] ++ post).
    rewrite <- (Z.add_0_r (zlen pre)).
    rewrite (cget_app pre [0] post 0) by (cbn; lia). cbn. reflexivity.
  - destruct fuel; [cbn in Hf; lia|]. cbn [cstr]. inversion Hfn as [|? ? Hx Ht]; subst.
    assert (Hc : cget (pre ++ (x :: t) ++ 0 :: post) (zlen pre) = Ok x).
    { rewrite <- (Z.add_0_r (zlen pre)).
      rewrite (cget_app pre (x :: t) (0 :: post) 0) by (rewrite zlen_cons; pose proof (zlen_nonneg t); lia).
      reflexivity. }
    rewrite Hc. cbn [bind]. replace (x =? 0) with false by lia.
    assert (Hl : pre ++ (x :: t) ++ 0 :: post = (pre ++ [x]) ++ t ++ 0 :: post)
      by (rewrite <- app_assoc; reflexivity).
    rewrite Hl.
    replace (zlen pre + 1) with (zlen (pre ++ [x])) by (rewrite zlen_app; cbn; lia).
    rewrite IH; [reflexivity | assumption | cbn in Hf; lia].
Qed.

(* ------------------------------------------------------------------ well-formed entries *)
Definition wf_rec (r : brec) : Prop :=
  0 <= b_line r < two32 /\ 0 <= b_tags r < two32 /\ 0 <= b_prio r < 256 /\
  Forall (fun x => 1 <= x < 256) (b_fn r) /\ - two63 <= b_sec r < two63 /\ 0 <= b_nsec r < two64 /\
  1 <= zlen (b_msg r) <= BBF_LOG_MAX_LEN /\ zlen (enc r) <= BBF_CHUNK_BUF.

(* the text the printer shows for decoder answer buf *)
Definition post_text (buf stk : list Z) : list Z :=
  match msg_post true buf stk with Ok t => t | Flt _ => [] end.

Lemma zlen_enc : forall r, zlen (enc r) = zlen (b_fn r) + 34 + zlen (b_msg r).
Proof.
  intros r. unfold enc. rewrite !zlen_app, !zlen_word_bytes, !zlen_w64. unfold zlen. cbn [length]. lia.
Qed.

Lemma to_s64_mod : forall s, - two63 <= s < two63 -> to_s64 (s mod (2 * two63)) = s.
Proof.
  intros s Hs. unfold to_s64, two63 in *. destruct (s mod (2 * 9223372036854775808) <? 9223372036854775808) eqn:E; lia.
Qed.

(* decoding the entry that starts the chunk buffer *)
Section Decode.
Variable r : brec.
Variable tail : list Z.
Hypothesis Hwf : wf_rec r.
Let C := enc r ++ tail.
Let fs := zlen (b_fn r) + 1.
Let L := BbFileModel.word_bytes (b_line r).
Let T := BbFileModel.word_bytes (b_tags r).
Let F := BbFileModel.word_bytes fs.
Let S8 := w64 (b_sec r mod (2 * two63)).
Let N8 := w64 (b_nsec r).
Let M := BbFileModel.word_bytes (zlen (b_msg r)).

Lemma C_shape : C = L ++ T ++ [b_prio r] ++ F ++ b_fn r ++ [0] ++ S8 ++ N8 ++ M ++ b_msg r ++ tail.
Proof. unfold C, enc, L, T, F, S8, N8, M, fs. rewrite <- !app_assoc. reflexivity. Qed.

Lemma U4 : BBF_SIZEOF_U32 = 4.
Proof. pose proof bbf_consts_ok as K. lia. Qed.

Lemma dec_line : c32 C 0 = Ok (b_line r).
Proof.
  rewrite C_shape. destruct Hwf as (Hl & _).
  change (c32 (L ++ T ++ [b_prio r] ++ F ++ b_fn r ++ [0] ++ S8 ++ N8 ++ M ++ b_msg r ++ tail) 0)
    with (c32 ([] ++ L ++ T ++ [b_prio r] ++ F ++ b_fn r ++ [0] ++ S8 ++ N8 ++ M ++ b_msg r ++ tail) (zlen [])).
  unfold L. apply c32_app. assumption.
Qed.

Lemma dec_tags : c32 C BBF_SIZEOF_U32 = Ok (b_tags r).
Proof.
  rewrite C_shape. destruct Hwf as (_ & Ht & _).
  replace BBF_SIZEOF_U32 with (zlen L) by (rewrite U4; reflexivity).
  unfold T. apply c32_app. assumption.
Qed.

Lemma dec_prio : cget C (2 * BBF_SIZEOF_U32) = Ok (b_prio r).
Proof.
  rewrite C_shape. rewrite (app_assoc L T).
  replace (2 * BBF_SIZEOF_U32) with (zlen (L ++ T) + 0) by (rewrite U4; reflexivity).
  rewrite (cget_app (L ++ T) [b_prio r] _ 0) by (cbn; lia). reflexivity.
Qed.

Lemma dec_fs : c32 C (2 * BBF_SIZEOF_U32 + 1) = Ok fs.
Proof.
  rewrite C_shape. rewrite (app_assoc L T). rewrite (app_assoc (L ++ T) [b_prio r]).
  replace (2 * BBF_SIZEOF_U32 + 1) with (zlen ((L ++ T) ++ [b_prio r])) by (rewrite U4; reflexivity).
  unfold F. apply c32_app.
  destruct Hwf as (_ & _ & _ & _ & _ & _ & _ & Hsz). rewrite zlen_enc in Hsz.
  pose proof bbf_consts_ok as K. pose proof (zlen_nonneg (b_fn r)). pose proof (zlen_nonneg (b_msg r)).
  unfold fs, two32. bbc. lia.
Qed.

Let P4 := ((L ++ T) ++ [b_prio r]) ++ F.
Lemma C_shape4 : C = P4 ++ b_fn r ++ [0] ++ S8 ++ N8 ++ M ++ b_msg r ++ tail.
Proof. rewrite C_shape. unfold P4. rewrite <- !app_assoc. reflexivity. Qed.
Lemma zlen_P4 : zlen P4 = 3 * BBF_SIZEOF_U32 + 1.
Proof. rewrite U4. reflexivity. Qed.

Lemma dec_fn_last : cget C (3 * BBF_SIZEOF_U32 + 1 + fs - 1) = Ok 0.
Proof.
  rewrite C_shape4. rewrite (app_assoc P4 (b_fn r)).
  replace (3 * BBF_SIZEOF_U32 + 1 + fs - 1) with (zlen (P4 ++ b_fn r) + 0)
    by (rewrite zlen_app, zlen_P4; unfold fs; lia).
  rewrite (cget_app (P4 ++ b_fn r) [0] _ 0) by (cbn; lia). reflexivity.
Qed.

Let P5 := (P4 ++ b_fn r) ++ [0].
Lemma C_shape5 : C = P5 ++ S8 ++ N8 ++ M ++ b_msg r ++ tail.
Proof. rewrite C_shape4. unfold P5. rewrite <- !app_assoc. reflexivity. Qed.
Lemma zlen_P5 : zlen P5 = 3 * BBF_SIZEOF_U32 + 1 + fs.
Proof. unfold P5. rewrite !zlen_app, zlen_P4. change (zlen [0]) with 1. unfold fs. lia. Qed.

Lemma dec_sec : c64 C (3 * BBF_SIZEOF_U32 + 1 + fs) = Ok (b_sec r mod (2 * two63)).
Proof.
  rewrite C_shape5. rewrite <- zlen_P5. unfold S8. apply c64_app.
  unfold two64. apply Z.mod_pos_bound. unfold two63. lia.
Qed.

Lemma dec_nsec : c64 C (3 * BBF_SIZEOF_U32 + 1 + fs + 8) = Ok (b_nsec r).
Proof.
  rewrite C_shape5. rewrite (app_assoc P5 S8).
  replace (3 * BBF_SIZEOF_U32 + 1 + fs + 8) with (zlen (P5 ++ S8))
    by (rewrite zlen_app, zlen_P5; unfold S8; rewrite zlen_w64; lia).
  unfold N8. apply c64_app. destruct Hwf as (_ & _ & _ & _ & _ & Hn & _). exact Hn.
Qed.

Let P7 := (P5 ++ S8) ++ N8.
Lemma C_shape7 : C = P7 ++ M ++ b_msg r ++ tail.
Proof. rewrite C_shape5. unfold P7. rewrite <- !app_assoc. reflexivity. Qed.
Lemma zlen_P7 : zlen P7 = 3 * BBF_SIZEOF_U32 + 1 + fs + BBF_SIZEOF_TIMESPEC.
Proof.
  unfold P7. rewrite !zlen_app, zlen_P5. unfold S8, N8. rewrite !zlen_w64.
  pose proof bbf_consts_ok as K. lia.
Qed.

Lemma dec_mlen : c32 C (3 * BBF_SIZEOF_U32 + 1 + fs + BBF_SIZEOF_TIMESPEC) = Ok (zlen (b_msg r)).
Proof.
  rewrite C_shape7. rewrite <- zlen_P7. unfold M. apply c32_app.
  destruct Hwf as (_ & _ & _ & _ & _ & _ & Hm & _). unfold two32. bbc. lia.
Qed.

Lemma dec_fn : cstr (S (length C)) C (3 * BBF_SIZEOF_U32 + 1) = Ok (b_fn r).
Proof.
  rewrite <- zlen_P4. rewrite C_shape4 at 2.
  change ([0] ++ S8 ++ N8 ++ M ++ b_msg r ++ tail) with (0 :: S8 ++ N8 ++ M ++ b_msg r ++ tail).
  apply cstr_app.
  - destruct Hwf as (_ & _ & _ & Hfn & _). exact Hfn.
  - rewrite C_shape4. rewrite !app_length. lia.
Qed.

Lemma entry_decode : forall orc stk,
  zlen C = BBF_CHUNK_BUF -> buf_ok (match orc with [] => [0] | x :: _ => x end) ->
  entry true true C (zlen (enc r)) orc stk =
  ECont [EDec (zlen (b_fn r) + 34) (zlen (b_msg r));
         ERec (b_prio r) (b_sec r) (b_nsec r) (b_fn r) (b_line r) (b_tags r)
              (post_text (match orc with [] => [0] | x :: _ => x end) stk)] (tl orc).
Proof.
  intros orc stk Hlen Hbuf.
  pose proof bbf_consts_ok as K. pose proof (zlen_enc r) as Hze.
  pose proof (zlen_nonneg (b_fn r)) as Hfn0.
  destruct Hwf as (Hl & Ht & Hp & Hfn & Hs & Hn & Hm & Hsz).
  unfold entry. cbv zeta.
  rewrite dec_line. cbn [lift]. rewrite dec_tags. cbn [lift]. rewrite dec_prio. cbn [lift].
  rewrite dec_fs. cbn [lift].
  replace (zlen (enc r) <? fs + BBF_MIN_ENTRY_SIZE) with false by (unfold fs; bbc; lia).
  replace (fs <=? 0) with false by (unfold fs; bbc; lia).
  cbn [andb].
  rewrite dec_fn_last. cbn [lift].
  replace (negb (0 =? 0)) with false by reflexivity. cbn [orb].
  unfold ts_size.
  replace (zlen (enc r) <? 3 * BBF_SIZEOF_U32 + 1 + fs + BBF_SIZEOF_TIMESPEC + BBF_SIZEOF_U32)
    with false by (unfold fs; bbc; lia).
  rewrite dec_sec. cbn [lift]. rewrite dec_nsec. cbn [lift]. rewrite dec_mlen. cbn [lift].
  cbn [lift].
  destruct (msg_post_ok _ stk Hbuf) as (text & Htext).
  unfold post_text. rewrite Htext. cbn [lift].
  rewrite dec_fn. cbn [lift].
  replace (3 * BBF_SIZEOF_U32 + 1 + fs + BBF_SIZEOF_TIMESPEC + BBF_SIZEOF_U32) with (zlen (b_fn r) + 34)
    by (unfold fs; bbc; lia).
  rewrite to_s64_mod by assumption.
  destruct ((BBF_LOG_MAX_LEN <? zlen (b_msg r)) || (zlen (b_msg r) <=? 0)
            || (zlen (enc r) <? zlen (b_fn r) + 34 + zlen (b_msg r))) eqn:E; [bbc; lia|].
  reflexivity.
Qed.
End Decode.

(* ------------------------------------------------------------------ Part 2: the loop over a ring that represents a queue *)
Lemma bread_head : forall b c t, Repr b (c :: t) -> zlen c <= BBF_CHUNK_BUF -> BBF_CHUNK_BUF <= 4 * rW b ->
  exists b', bread b BBF_CHUNK_BUF = RdOk b' (zlen c) c /\ Repr b' t /\ rW b' = rW b.
Proof.
  intros b c t HR Hc HW4.
  pose proof (head_marker _ _ _ HR) as Hmg. pose proof (head_size _ _ _ HR) as Hsz.
  pose proof (wpt_neq_rpt _ _ _ HR) as Hne. pose proof (head_bytes _ _ _ HR) as Hby.
  destruct (reclaim_head _ _ _ HR) as (b' & Hrec & HR' & HW' & _).
  pose proof HR as (HW & _ & Hr & _).
  exists b'. split; [|split; assumption].
  unfold bread. destruct (rpt b =? wpt b) eqn:E1; [lia|].
  rewrite Hmg, Z.eqb_refl. cbn [negb].
  unfold rword. replace ((0 <=? rpt b) && (rpt b <? 2 * rW b)) with true by lia.
  rewrite (Z.mod_small (rpt b) (rW b)) by lia. rewrite Hsz.
  replace (BBF_CHUNK_BUF <? zlen c) with false by lia.
  assert (Hdp : 0 <= (rpt b + RB_CHUNK_HEADER_WORDS) mod rW b < rW b) by (apply Z.mod_pos_bound; lia).
  replace (8 * rW b <? 4 * ((rpt b + RB_CHUNK_HEADER_WORDS) mod rW b) + zlen c) with false by lia.
  unfold rword_set. replace ((0 <=? rpt b) && (rpt b <? 2 * rW b)) with true by lia.
  rewrite (Z.mod_small (rpt b) (rW b)) by lia.
  unfold chunk_bytes in Hby. rewrite Hby.
  unfold reclaim in Hrec. rewrite Hmg, Hsz, Z.eqb_refl, E1 in Hrec. cbn [orb negb] in Hrec.
  inversion Hrec. cbn [data set_data rW wpt sem ovw]. reflexivity.
Qed.

Lemma bread_empty : forall b, Repr b [] -> bread b BBF_CHUNK_BUF = RdOk b (- RB_ETIMEDOUT) [].
Proof. intros b HR. unfold bread. rewrite (wpt_eq_rpt _ HR), Z.eqb_refl. reflexivity. Qed.

Fixpoint rec_events (rs : list brec) (orc : list (list Z)) (stk : list Z) : list ev :=
  match rs with
  | [] => []
  | r :: t =>
      ERead (zlen (enc r)) :: EDec (zlen (b_fn r) + 34) (zlen (b_msg r)) ::
      ERec (b_prio r) (b_sec r) (b_nsec r) (b_fn r) (b_line r) (b_tags r)
           (post_text (match orc with [] => [0] | x :: _ => x end) stk) :: rec_events t (tl orc) stk
  end.

Lemma ploop_repr : forall rs fuel b chunk orc stk acc,
  Repr b (map enc rs) -> Forall wf_rec rs -> BBF_CHUNK_BUF <= 4 * rW b -> zlen chunk = BBF_CHUNK_BUF ->
  dec_ok orc -> (length rs < fuel)%nat ->
  ploop fuel true true b chunk orc stk acc =
  {| evs := acc ++ rec_events rs orc stk ++ [ERead (- RB_ETIMEDOUT); EErr 2 RB_ETIMEDOUT];
     out := Ret (- BBF_EIO); shm_left := [] |}.
Proof.
  induction rs as [|r t IH]; intros fuel b chunk orc stk acc HR Hwf HW4 Hlen Horc Hfuel.
  - destruct fuel; [cbn in Hfuel; lia|]. cbn [ploop map] in *. rewrite (bread_empty b HR).
    pose proof bbf_consts_ok as K.
    replace ((0 <=? - RB_ETIMEDOUT) && (- RB_ETIMEDOUT <? BBF_MIN_ENTRY_SIZE)) with false by (bbc; lia).
    replace (- RB_ETIMEDOUT <? 0) with true by (bbc; lia).
    rewrite Z.opp_involutive. cbn [rec_events app]. rewrite <- app_assoc. reflexivity.
  - destruct fuel; [cbn in Hfuel; lia|]. cbn [ploop map] in *.
    inversion Hwf as [|? ? Hr Ht]; subst.
    pose proof Hr as (_ & _ & _ & _ & _ & _ & Hm & Hsz).
    destruct (bread_head b (enc r) (map enc t) HR Hsz HW4) as (b' & -> & HR' & HW').
    pose proof bbf_consts_ok as K. pose proof (zlen_enc r) as Hze. pose proof (zlen_nonneg (b_fn r)).
    replace ((0 <=? zlen (enc r)) && (zlen (enc r) <? BBF_MIN_ENTRY_SIZE)) with false by (bbc; lia).
    replace (zlen (enc r) <? 0) with false by lia.
    unfold chunk_store.
    assert (Hl1 : zlen (enc r ++ skipn (length (enc r)) chunk) = BBF_CHUNK_BUF).
    { fold (chunk_store chunk (enc r)). rewrite chunk_store_len; [exact Hlen|]. unfold zlen in *. lia. }
    rewrite (entry_decode r _ Hr orc stk Hl1 (dec_ok_hd orc Horc)).
    replace (BBF_MIN_ENTRY_SIZE <? zlen (enc r)) with true by (bbc; lia).
    rewrite (IH fuel b' _ (tl orc) stk); try assumption.
    + cbn [rec_events]. f_equal. rewrite <- !app_assoc. reflexivity.
    + rewrite HW'. exact HW4.
    + apply dec_ok_tl; assumption.
    + cbn in Hfuel. lia.
Qed.

(* ------------------------------------------------------------------ Part 3: parsing what the writer wrote *)
Definition in32 (w : Z) : Prop := 0 <= w < two32.

Lemma fbyte_app_off : forall pre l i, 0 <= i -> fbyte (pre ++ l) (zlen pre + i) = fbyte l i.
Proof. intros. unfold fbyte. rewrite nth_app_off by assumption. reflexivity. Qed.

Lemma le32_skip : forall pre l i, 0 <= i -> le32 (pre ++ l) (zlen pre + i) = le32 l i.
Proof.
  intros pre l i Hi. unfold le32.
  rewrite <- !Z.add_assoc. rewrite !fbyte_app_off by lia. reflexivity.
Qed.

Lemma le32_head : forall w rest, in32 w -> le32 (BbFileModel.word_bytes w ++ rest) 0 = w.
Proof.
  intros w rest Hw. unfold le32, fbyte, byte, BbFileModel.word_bytes.
  change (Z.to_nat 0) with 0%nat. change (Z.to_nat (0 + 1)) with 1%nat.
  change (Z.to_nat (0 + 2)) with 2%nat. change (Z.to_nat (0 + 3)) with 3%nat.
  cbn [app nth].
  rewrite !Z.mod_mod by lia. apply RbMem.word_bytes. exact Hw.
Qed.

Lemma le32_flat : forall ws k post, Forall in32 ws -> (k < length ws)%nat ->
  le32 (flat_map BbFileModel.word_bytes ws ++ post) (4 * Z.of_nat k) = nth k ws 0.
Proof.
  induction ws as [|a t IH]; intros k post Hws Hk; [cbn in Hk; lia|].
  inversion Hws as [|? ? Ha Ht]; subst. cbn [flat_map]. rewrite <- app_assoc.
  destruct k as [|k'].
  - cbn [nth Z.of_nat Z.mul]. apply le32_head. exact Ha.
  - replace (4 * Z.of_nat (S k')) with (zlen (BbFileModel.word_bytes a) + 4 * Z.of_nat k')
      by (rewrite zlen_word_bytes; lia).
    rewrite le32_skip by lia. cbn [nth]. apply IH; [assumption | cbn in Hk; lia].
Qed.

Lemma zlen_flat_words : forall ws, zlen (flat_map BbFileModel.word_bytes ws) = 4 * zlen ws.
Proof.
  induction ws as [|a t IH]; [reflexivity|]. cbn [flat_map]. rewrite zlen_app, zlen_word_bytes, IH, zlen_cons. lia.
Qed.

Lemma words_from_length : forall n m i, length (words_from m i n) = n.
Proof. induction n; intros; cbn [words_from length]; [reflexivity|]. rewrite IHn. reflexivity. Qed.

Lemma words_from_in32 : forall n m i, bytes_ok m -> 0 <= i -> Forall in32 (words_from m i n).
Proof.
  induction n; intros m i Hm Hi; cbn [words_from]; constructor.
  - apply ldw_range; assumption.
  - apply IHn; [assumption | lia].
Qed.

(* byte a of the dumped data words is byte a of the memory *)
Lemma word_bytes_nth : forall m i j, bytes_ok m -> 0 <= i -> 0 <= j < 4 ->
  nth (Z.to_nat j) (BbFileModel.word_bytes (ldw m i)) 0 = ld m (4 * i + j).
Proof.
  intros m i j Hm Hi Hj. unfold ldw, BbFileModel.word_bytes.
  pose proof (Hm (4 * i) ltac:(lia)). pose proof (Hm (4 * i + 1) ltac:(lia)).
  pose proof (Hm (4 * i + 2) ltac:(lia)). pose proof (Hm (4 * i + 3) ltac:(lia)).
  assert (j = 0 \/ j = 1 \/ j = 2 \/ j = 3) as [-> | [-> | [-> | ->]]] by lia.
  - change (Z.to_nat 0) with 0%nat. cbn [nth]. rewrite Z.add_0_r. lia.
  - change (Z.to_nat 1) with 1%nat. cbn [nth]. lia.
  - change (Z.to_nat 2) with 2%nat. cbn [nth]. lia.
  - change (Z.to_nat 3) with 3%nat. cbn [nth]. lia.
Qed.

Lemma flat_words_nth : forall n m s a, bytes_ok m -> 0 <= s -> 0 <= a < 4 * Z.of_nat n ->
  nth (Z.to_nat a) (flat_map BbFileModel.word_bytes (words_from m s n)) 0 = ld m (4 * s + a).
Proof.
  induction n as [|n IH]; intros m s a Hm Hs Ha; [lia|].
  cbn [words_from flat_map].
  destruct (Z_lt_dec a 4) as [Hlt|Hge].
  - rewrite app_nth1 by (change (length (BbFileModel.word_bytes (ldw m s))) with 4%nat; lia).
    apply word_bytes_nth; try assumption; lia.
  - rewrite app_nth2 by (change (length (BbFileModel.word_bytes (ldw m s))) with 4%nat; lia).
    change (length (BbFileModel.word_bytes (ldw m s))) with 4%nat.
    replace (Z.to_nat a - 4)%nat with (Z.to_nat (a - 4)) by lia.
    rewrite IH by (try assumption; lia). f_equal. lia.
Qed.

Lemma map_byte_id : forall l, Forall (fun x => 0 <= x < 256) l -> map byte l = l.
Proof.
  induction l as [|x t IH]; intros H; [reflexivity|]. inversion H; subst. cbn [map]. rewrite IH by assumption.
  f_equal. unfold byte. apply Z.mod_small. assumption.
Qed.

Lemma flat_words_bytes : forall ws, Forall (fun x => 0 <= x < 256) (flat_map BbFileModel.word_bytes ws).
Proof.
  induction ws as [|a t IH]; [constructor|]. cbn [flat_map]. apply Forall_app. split; [|exact IH].
  unfold BbFileModel.word_bytes. repeat constructor; apply Z.mod_pos_bound; lia.
Qed.

Definition MK : list Z := [BBF_HDR_WORDSIZE; BBF_HDR_READPT; BBF_HDR_WRITEPT; BBF_HDR_VERSION; BBF_HDR_HASH].
Definition all_words (b : rb) : list Z := MK ++ dump b.

Lemma bb_dump_flat : forall b, bb_dump b = flat_map BbFileModel.word_bytes (all_words b) ++ [].
Proof. intros. unfold bb_dump, all_words, bb_marker, MK. rewrite flat_map_app, app_nil_r. reflexivity. Qed.

Lemma MK_in32 : Forall in32 MK.
Proof. unfold MK, in32. repeat constructor; vm_compute; congruence. Qed.

Section Parse.
Variable b : rb.
Variable q : list chunk.
Hypothesis HR : Repr b q.
Hypothesis Hm : bytes_ok (data b).
Hypothesis Hpage : (4 * rW b) mod RB_PAGE_SIZE = 0.

Let W := rW b.
Let HASH := (rW b + wpt b + rpt b + RB_FILE_HEADER_VERSION) mod two32.

Lemma W_facts : 2 <= W /\ 4 * W <= two32 /\ 0 <= rpt b < W /\ 0 <= wpt b < W.
Proof.
  destruct HR as (H2 & H32 & Hr & _ & Hw & _). unfold W.
  assert (0 <= wpt b < rW b) by (rewrite Hw; apply Z.mod_pos_bound; lia).
  lia.
Qed.

Lemma all_in32 : Forall in32 (all_words b).
Proof.
  pose proof W_facts as (H2 & H32 & Hr & Hw). unfold W in *.
  unfold all_words, dump. apply Forall_app. split; [apply MK_in32|].
  constructor; [unfold in32, two32 in *; lia|].
  constructor; [unfold in32, two32 in *; lia|].
  constructor; [unfold in32, two32 in *; lia|].
  constructor; [vm_compute; split; congruence|].
  constructor; [unfold in32; apply Z.mod_pos_bound; unfold two32; lia|].
  apply words_from_in32; [assumption | lia].
Qed.

Lemma all_len : length (all_words b) = (10 + Z.to_nat W)%nat.
Proof. unfold all_words, dump, MK. rewrite app_length. cbn [length]. rewrite words_from_length. unfold W. lia. Qed.

Lemma dump_len : zlen (bb_dump b) = 40 + 4 * W.
Proof.
  pose proof W_facts. rewrite bb_dump_flat, app_nil_r, zlen_flat_words. unfold zlen. rewrite all_len. lia.
Qed.

Lemma hdr_word : forall k, (k < 10)%nat -> le32 (bb_dump b) (4 * Z.of_nat k) = nth k (all_words b) 0.
Proof.
  intros k Hk. rewrite bb_dump_flat. apply le32_flat; [apply all_in32 | rewrite all_len; lia].
Qed.

Lemma marker_ok : is_marker (bb_dump b) = true.
Proof.
  unfold is_marker, bb_marker_words. cbn [forallb fst snd].
  change BBF_OFF_WORD_SIZE with (4 * Z.of_nat 0). change BBF_OFF_READ_PT with (4 * Z.of_nat 1).
  change BBF_OFF_WRITE_PT with (4 * Z.of_nat 2). change BBF_OFF_VERSION with (4 * Z.of_nat 3).
  change BBF_OFF_HASH with (4 * Z.of_nat 4).
  rewrite !hdr_word by lia. unfold all_words, MK. cbn [app nth]. rewrite !Z.eqb_refl. reflexivity.
Qed.

(* the bytes read into the ring *)
Lemma data_slice : fslice (bb_dump b) 40 (4 * W) = flat_map BbFileModel.word_bytes (words_from (data b) 0 (Z.to_nat W)).
Proof.
  pose proof W_facts as (H2 & _).
  unfold fslice, bb_dump, dump. fold W.
  cbn [flat_map]. rewrite !app_assoc.
  match goal with |- context [skipn _ (?p ++ flat_map BbFileModel.word_bytes (words_from (data b) 0 (Z.to_nat W)))] =>
    set (pre := p) end.
  assert (Hpre : length pre = Z.to_nat 40) by reflexivity.
  rewrite <- Hpre. rewrite skipn_app, skipn_all, Nat.sub_diag. cbn [skipn app].
  set (D := flat_map BbFileModel.word_bytes (words_from (data b) 0 (Z.to_nat W))).
  assert (HD : length D = Z.to_nat (4 * W)).
  { pose proof (zlen_flat_words (words_from (data b) 0 (Z.to_nat W))) as Hz. fold D in Hz.
    unfold zlen in Hz. rewrite words_from_length in Hz. lia. }
  rewrite <- HD, firstn_all. apply map_byte_id. apply flat_words_bytes.
Qed.

Definition loaded : rb :=
  {| rW := W; wpt := wpt b; rpt := rpt b;
     data := load_data W (flat_map BbFileModel.word_bytes (words_from (data b) 0 (Z.to_nat W)));
     sem := None; ovw := false |}.

Lemma loaded_ld : forall a, 0 <= a < 4 * W -> ld (data loaded) a = ld (data b) a.
Proof.
  intros a Ha. pose proof W_facts as (H2 & _).
  cbn [data loaded]. unfold load_data.
  set (D := flat_map BbFileModel.word_bytes (words_from (data b) 0 (Z.to_nat W))).
  assert (HD : zlen D = 4 * W).
  { unfold D. rewrite zlen_flat_words. unfold zlen. rewrite words_from_length. lia. }
  replace a with ((0 + a) mod (4 * W)) at 1 by (rewrite Z.mod_small; lia).
  rewrite ld_write_bytes_in by lia.
  unfold D. rewrite flat_words_nth by (try assumption; lia). f_equal; lia.
Qed.

Lemma loaded_repr : Repr loaded q.
Proof.
  pose proof W_facts as (H2 & H32 & Hr & Hw).
  destruct HR as (R1 & R2 & R3 & R4 & R5 & R6).
  unfold Repr. cbn [rW wpt rpt loaded]. fold W in R1, R2, R3, R4, R5, R6 |- *.
  repeat split; try assumption; try lia.
  apply chunks_at_frame with (m := data b); [lia | exact R6 |].
  intros A HA. apply loaded_ld. apply Z.mod_pos_bound. lia.
Qed.

Lemma parse_dump :
  create_from_file true (bb_dump b) BBF_FILE_HDR_SIZE =
  CffRing loaded (EHdr W (wpt b) (rpt b) (free32 W (wpt b) (rpt b)) (used32 W (wpt b) (rpt b))).
Proof.
  pose proof W_facts as (H2 & H32 & Hr & Hw). pose proof dump_len as Hlen. pose proof bbf_consts_ok as K.
  unfold create_from_file. rewrite Hlen.
  change BBF_FILE_HDR_SIZE with (4 * Z.of_nat 5). change (4 * Z.of_nat 5 + 4) with (4 * Z.of_nat 6).
  change (4 * Z.of_nat 5 + 8) with (4 * Z.of_nat 7). change (4 * Z.of_nat 5 + 12) with (4 * Z.of_nat 8).
  change (4 * Z.of_nat 5 + 16) with (4 * Z.of_nat 9).
  rewrite !hdr_word by lia. unfold all_words, MK, dump. cbn [app nth]. fold W. fold HASH.
  unfold avail. rewrite Hlen.
  replace (Z.max 0 (Z.min 4 (40 + 4 * W - 4 * Z.of_nat 5)) <? 4) with false by lia.
  replace ((40 + 4 * W) / 4 <? W) with false by lia.
  replace (Z.max 0 (Z.min 4 (40 + 4 * W - 4 * Z.of_nat 6)) <? 4) with false by lia.
  replace (Z.max 0 (Z.min 4 (40 + 4 * W - 4 * Z.of_nat 7)) <? 4) with false by lia.
  replace ((W <=? wpt b) || (W <=? rpt b)) with false by lia.
  replace (Z.max 0 (Z.min 4 (40 + 4 * W - 4 * Z.of_nat 8)) <? 4) with false by lia.
  replace (Z.max 0 (Z.min 4 (40 + 4 * W - 4 * Z.of_nat 9)) <? 4) with false by lia.
  rewrite !Z.eqb_refl. cbn [negb].
  replace (W * RB_SIZEOF_WORD =? 0) with false by lia.
  assert (HrW : rW (rb_open (W * RB_SIZEOF_WORD - (RB_CHUNK_MARGIN + RB_SIZE_EXTRA)) true false) = W).
  { unfold rb_open. cbn [rW].
    replace (W * RB_SIZEOF_WORD - (RB_CHUNK_MARGIN + RB_SIZE_EXTRA) + RB_CHUNK_MARGIN + RB_SIZE_EXTRA)
      with (4 * W) by lia.
    unfold roundup. fold W in Hpage. bbc. lia. }
  rewrite HrW.
  replace (4 * Z.of_nat 5 + 20) with 40 by lia.
  replace (Z.max 0 (Z.min (W * RB_SIZEOF_WORD) (40 + 4 * W - 40))) with (4 * W) by lia.
  replace (4 * W =? W * RB_SIZEOF_WORD) with true by lia. cbn [negb].
  rewrite data_slice. reflexivity.
Qed.
End Parse.

(* ------------------------------------------------------------------ the round trip *)
Fixpoint printed_recs (rs : list brec) (orc : list (list Z)) (stk : list Z) : list ev :=
  match rs with
  | [] => []
  | r :: t => ERec (b_prio r) (b_sec r) (b_nsec r) (b_fn r) (b_line r) (b_tags r)
                   (post_text (match orc with [] => [0] | x :: _ => x end) stk) :: printed_recs t (tl orc) stk
  end.

Definition is_rec (e : ev) : bool := match e with ERec _ _ _ _ _ _ _ => true | _ => false end.

Lemma filter_rec_events : forall rs orc stk, filter is_rec (rec_events rs orc stk) = printed_recs rs orc stk.
Proof. induction rs as [|r t IH]; intros; cbn [rec_events printed_recs filter is_rec]; [reflexivity|]. rewrite IH. reflexivity. Qed.

Lemma length_le_used : forall q : list chunk, 2 * Z.of_nat (length q) <= used q.
Proof.
  induction q as [|c t IH]; cbn [used length]; [lia|].
  pose proof (cw_ge2 (zlen c) (zlen_nonneg c)). lia.
Qed.

Theorem roundtrip : forall b rs orc heap0 stk errno0,
  Repr b (map enc rs) -> bytes_ok (data b) -> (4 * rW b) mod RB_PAGE_SIZE = 0 ->
  Forall wf_rec rs -> dec_ok orc ->
  let r := print_from_file true true orc heap0 stk errno0 (bb_dump b) in
  records r = printed_recs rs orc stk /\ out r = Ret (- BBF_EIO) /\ shm_left r = [] /\
  evs r = EHdr (rW b) (wpt b) (rpt b) (free32 (rW b) (wpt b) (rpt b)) (used32 (rW b) (wpt b) (rpt b)) ::
          rec_events rs orc stk ++ [ERead (- RB_ETIMEDOUT); EErr 2 RB_ETIMEDOUT].
Proof.
  intros b rs orc heap0 stk errno0 HR Hm Hpage Hwf Horc.
  pose proof bbf_consts_ok as K.
  pose proof (W_facts b _ HR) as (H2 & H32 & Hr & Hw).
  assert (HW4 : BBF_CHUNK_BUF <= 4 * rW b) by (bbc; lia).
  assert (Hlen : (length rs < S (Z.to_nat (rW b)))%nat).
  { pose proof (length_le_used (map enc rs)) as Hu. rewrite map_length in Hu.
    destruct HR as (_ & _ & _ & Hused & _). lia. }
  assert (E : print_from_file true true orc heap0 stk errno0 (bb_dump b) =
              {| evs := [EHdr (rW b) (wpt b) (rpt b) (free32 (rW b) (wpt b) (rpt b)) (used32 (rW b) (wpt b) (rpt b))] ++
                        rec_events rs orc stk ++ [ERead (- RB_ETIMEDOUT); EErr 2 RB_ETIMEDOUT];
                 out := Ret (- BBF_EIO); shm_left := [] |}).
  { unfold print_from_file. unfold avail. rewrite (dump_len b _ HR).
    replace (Z.max 0 (Z.min BBF_FILE_HDR_SIZE (40 + 4 * rW b - 0)) <? BBF_FILE_HDR_SIZE) with false by (bbc; lia).
    rewrite (marker_ok b _ HR Hm).
    rewrite (parse_dump b _ HR Hm Hpage).
    apply ploop_repr;
      [ apply loaded_repr; assumption | assumption | exact HW4
      | unfold zlen; rewrite firstn_length, app_length, repeat_length; lia | assumption | exact Hlen ].
    all: exact Hpage. }
  cbv zeta. rewrite E. cbn [evs out shm_left]. repeat split.
  unfold records. cbn [evs app filter]. rewrite filter_app, filter_rec_events. cbn [filter]. apply app_nil_r.
Qed.
