(* C09: executable model of the timer heap of include/tlist.h.  No proofs in this file.

   Transcribed statement by statement from include/tlist.h:
     timerlist_heap_index_left / _right / _parent, timerlist_heap_entry_get / _set,
     timerlist_entry_cmp, timerlist_heap_sift_up, timerlist_heap_sift_down,
     timerlist_heap_delete, timerlist_add, timerlist_del (= heap_delete + free),
     timerlist_pre_dispatch, timerlist_expire, timerlist_debug_is_valid_heap.

   Conventions.  A `struct timerlist_timer *' is a record {t_exp, t_id, t_data}: t_id is the
   identity of the malloc'ed object (allocation-order number, never reused), t_exp its
   expire_time (never modified after creation), t_data the `data' pointer (for the loop: the
   qb_loop_timer slot).  The mutable field timer->heap_pos lives in the map `hpos' (by t_id).
   `ents' is heap_entries[0 .. size-1]; `allocated' / realloc are not modelled (malloc success).
   assert() failure, or running out of loop fuel, yields None; HeapProofs.v shows None is
   unreachable from states satisfying the invariant.  Indices are unbounded Z (size_t cannot
   wrap for arrays that fit in memory; the c2coq tie states the range). *)
From Coq Require Import ZArith List Bool.
Import ListNotations.
Local Open Scope Z_scope.

Record tmr := mkT { t_exp : Z; t_id : Z; t_data : Z;
                     t_add : Z; t_dur : Z (* ghost: clock when the timer was created, duration asked *) }.
Record tl := mkTL { ents : list tmr; hpos : Z -> Z }.

Definition SIZE_MAX : Z := 18446744073709551615.          (* ~(size_t)0 *)
Definition size (h : tl) : Z := Z.of_nat (length (ents h)).
Definition fupd (f : Z -> Z) (k v : Z) : Z -> Z := fun x => if x =? k then v else f x.

Fixpoint upd {A} (l : list A) (n : nat) (x : A) : list A :=
  match l, n with
  | [], _ => []
  | _ :: t, O => x :: t
  | a :: t, S n' => a :: upd t n' x
  end.

Definition tl_empty : tl := mkTL [] (fun _ => 0).

(* timerlist_heap_index_left / right / parent *)
Definition index_left (i : Z) : Z := 2 * i + 1.
Definition index_right (i : Z) : Z := 2 * i + 2.
Definition index_parent (i : Z) : Z := (i - 1) / 2.

Definition inb (h : tl) (i : Z) : bool := (0 <=? i) && (i <? size h).      (* assert(item_pos < timerlist->size) *)

(* timerlist_heap_entry_get *)
Definition entry_get (h : tl) (i : Z) : option tmr :=
  if inb h i then nth_error (ents h) (Z.to_nat i) else None.

(* timerlist_heap_entry_set: heap_entries[item_pos] = timer; heap_entries[item_pos]->heap_pos = item_pos *)
Definition entry_set (h : tl) (i : Z) (t : tmr) : option tl :=
  if inb h i then Some (mkTL (upd (ents h) (Z.to_nat i) t) (fupd (hpos h) (t_id t) i)) else None.

(* timerlist_entry_cmp *)
Definition entry_cmp (t1 t2 : tmr) : Z :=
  if t_exp t1 =? t_exp t2 then 0 else if t_exp t1 <? t_exp t2 then -1 else 1.

(* the while loop of timerlist_heap_sift_up; `timer' is the local variable, parent_pos is recomputed *)
Fixpoint sift_up_loop (fuel : nat) (h : tl) (timer : tmr) (item_pos : Z) : option tl :=
  match fuel with
  | O => None
  | S f =>
    if item_pos >? 0 then
      let parent_pos := index_parent item_pos in
      match entry_get h parent_pos with
      | None => None
      | Some parent_timer =>
        if entry_cmp parent_timer timer >? 0 then
          match entry_set h parent_pos timer with
          | None => None
          | Some h1 =>
            match entry_set h1 item_pos parent_timer with
            | None => None
            | Some h2 => sift_up_loop f h2 timer parent_pos
            end
          end
        else Some h
      end
    else Some h
  end.

(* timerlist_heap_sift_up *)
Definition sift_up (h : tl) (item_pos : Z) : option tl :=
  match entry_get h item_pos with
  | None => None
  | Some timer => sift_up_loop (S (length (ents h))) h timer item_pos
  end.

(* one child test of sift_down:
   if (pos < size && (e = entry_get(pos), cmp(e, smallest_entry) < 0)) { smallest_entry = e; smallest_pos = pos; } *)
Definition pick_child (h : tl) (pos : Z) (cur : tmr * Z) : option (tmr * Z) :=
  if pos <? size h then
    match entry_get h pos with
    | None => None
    | Some e => Some (if entry_cmp e (fst cur) <? 0 then (e, pos) else cur)
    end
  else Some cur.

(* the while (cont) loop of timerlist_heap_sift_down *)
Fixpoint sift_down_loop (fuel : nat) (h : tl) (item_pos : Z) : option tl :=
  match fuel with
  | O => None
  | S f =>
    match entry_get h item_pos with
    | None => None
    | Some smallest_entry0 =>
      match pick_child h (index_left item_pos) (smallest_entry0, item_pos) with
      | None => None
      | Some c1 =>
        match pick_child h (index_right item_pos) c1 with
        | None => None
        | Some (smallest_entry, smallest_pos) =>
          if smallest_pos =? item_pos then Some h
          else
            match entry_get h item_pos with
            | None => None
            | Some tmp_entry =>
              match entry_set h item_pos smallest_entry with
              | None => None
              | Some h1 =>
                match entry_set h1 smallest_pos tmp_entry with
                | None => None
                | Some h2 => sift_down_loop f h2 smallest_pos
                end
              end
            end
        end
      end
    end
  end.

Definition sift_down (h : tl) (item_pos : Z) : option tl := sift_down_loop (S (length (ents h))) h item_pos.

(* timerlist_heap_delete(timerlist, entry) *)
Definition heap_delete (h : tl) (entry : tmr) : option tl :=
  let entry_pos := hpos h (t_id entry) in
  let h0 := mkTL (ents h) (fupd (hpos h) (t_id entry) SIZE_MAX) in      (* entry->heap_pos = ~(size_t)0 *)
  match entry_get h0 (size h0 - 1) with                                  (* replacement_entry *)
  | None => None
  | Some replacement =>
    match entry_set h0 entry_pos replacement with
    | None => None
    | Some h1 =>
      let h2 := mkTL (removelast (ents h1)) (hpos h1) in                 (* timerlist->size-- *)
      let c := entry_cmp replacement entry in
      if c <? 0 then sift_up h2 entry_pos
      else if c >? 0 then sift_down h2 entry_pos
      else Some h2
    end
  end.

(* timerlist_add (allocation of the array assumed to succeed):
   size++; entry_set(size - 1, timer); sift_up(size - 1) *)
Definition heap_add (h : tl) (t : tmr) : option tl :=
  let h0 := mkTL (ents h ++ [t]) (hpos h) in      (* the new cell's previous content is irrelevant: overwritten at once *)
  match entry_set h0 (size h0 - 1) t with
  | None => None
  | Some h1 => sift_up h1 (size h1 - 1)
  end.

(* the while loop of timerlist_expire for relative timers: pops the root while expire_time < now;
   returns the popped timers in the order their callbacks ran (oldest first).  timer_fn of the loop
   (make_job_from_tmo) does not touch the heap, so the callbacks are applied by the caller. *)
Fixpoint expire_loop (fuel : nat) (h : tl) (now : Z) (acc : list tmr) : option (tl * list tmr) :=
  match fuel with
  | O => None
  | S f =>
    if size h >? 0 then
      match entry_get h 0 with
      | None => None
      | Some timer =>
        if t_exp timer <? now then
          match heap_delete h timer with            (* timerlist_pre_dispatch *)
          | None => None
          | Some h' => expire_loop f h' now (acc ++ [timer])
          end
        else Some (h, acc)
      end
    else Some (h, acc)
  end.

Definition heap_expire (h : tl) (now : Z) : option (tl * list tmr) :=
  expire_loop (S (length (ents h))) h now [].

(* timerlist_debug_is_valid_heap *)
Definition valid_at (h : tl) (i : Z) : bool :=
  match entry_get h i with
  | None => false
  | Some cur =>
    let ok pos := if pos <? size h then
                    match entry_get h pos with Some e => negb (entry_cmp e cur <? 0) | None => false end
                  else true in
    ok (index_left i) && ok (index_right i)
  end.
Definition is_valid_heap (h : tl) : bool :=
  forallb (fun n => valid_at h (Z.of_nat n)) (seq 0 (length (ents h))).

(* ------------------------------------------------------------------------------------------
   Unit-level operation histories on the bare heap (what harness/h_looptimer.c drives through
   timerlist_add / timerlist_del / timerlist_expire of the real header): *)
Inductive hop :=
| HAdd (exp : Z)          (* a new timer object with this absolute expire_time *)
| HDel (id : Z)           (* timerlist_del of the object with this id; ignored when it is not in the heap
                             (C: undefined behaviour - the loop layer never does it, see LoopTimerProofs) *)
| HExpire (now : Z).

Record hstate := mkHS { hs_tl : tl; hs_next : Z; hs_fired : list tmr; hs_err : bool }.
Definition hs_init : hstate := mkHS tl_empty 1 [] false.

Definition is_member (h : tl) (id : Z) : option tmr :=
  match entry_get h (hpos h id) with
  | Some t => if t_id t =? id then Some t else None
  | None => None
  end.

Definition hstep (s : hstate) (o : hop) : hstate :=
  if hs_err s then s else
  match o with
  | HAdd e =>
    match heap_add (hs_tl s) (mkT e (hs_next s) 0 0 0) with
    | Some h' => mkHS h' (hs_next s + 1) (hs_fired s) false
    | None => mkHS (hs_tl s) (hs_next s) (hs_fired s) true
    end
  | HDel id =>
    match is_member (hs_tl s) id with
    | None => s
    | Some t =>
      match heap_delete (hs_tl s) t with
      | Some h' => mkHS h' (hs_next s) (hs_fired s) false
      | None => mkHS (hs_tl s) (hs_next s) (hs_fired s) true
      end
    end
  | HExpire now =>
    match heap_expire (hs_tl s) now with
    | Some (h', l) => mkHS h' (hs_next s) (hs_fired s ++ l) false
    | None => mkHS (hs_tl s) (hs_next s) (hs_fired s) true
    end
  end.

Definition hrun (ops : list hop) : hstate := fold_left hstep ops hs_init.
