(* C17 trie part, prefix iteration (5): after any history, a complete prefix iteration. *)
From Coq Require Import List ZArith Bool Arith Lia Sorted.
Import ListNotations.
Require Import Verif.gen.Consts_trie Verif.MapTrieModel Verif.MapTrieSpec Verif.MapTrieProofs Verif.MapTrieProofs2
               Verif.MapTrieProofs3 Verif.MapTrieIter Verif.MapTrieIter2 Verif.MapTrieIds Verif.MapTrieIter4
               Verif.MapTrieIter5 Verif.MapTrieIter6 Verif.MapTrieNotify2 Verif.MapTrieNotify3 Verif.MapTrieNotify4
               Verif.MapTrieDestroy3 Verif.MapTriePrefix1 Verif.MapTriePrefix2 Verif.MapTriePrefix3 Verif.MapTriePrefix4.

Lemma pctx_of_inv : forall t d, Inv t d -> ids_ok t -> pctx (t_root t).
Proof.
  intros t d HI IO. constructor.
  - apply (ids_uniq _ IO).
  - apply (ids_hdr _ IO).
  - apply (inv_hval _ _ HI).
  - apply (inv_hdr _ _ HI).
  - intros pr s G Hp. pose proof (obs_qstr _ _ _ G) as O. pose proof (qstr_nonempty pr (t_root t) Hp) as Q.
    destruct (inv_obs _ _ HI _ Q) as [_ [R1 R2]]. rewrite O in R1, R2. unfold core_of in *. simpl in *.
    unfold present_i, alive_i. rewrite R1. destruct (n_val (t_info s)); auto. rewrite R2 by congruence. reflexivity.
Qed.

(* dictionary operations, notifier registrations and qb_map_foreach leave no iterator behind *)
Lemma iters_nil_step : forall fx t o t' r evs, t_iters t = [] -> step fx t (iop_op o) = Ok (t', r, evs) -> t_iters t' = [].
Proof.
  intros fx t o t' r evs IT S. destruct o as [[[k v|k|k|]|k fn e ud|k fn e|k fn e ud]|stop]; cbn [iop_op hop_op to_op step] in S.
  - unfold do_put in S. destruct (ins_t fx (t_root t) k true (t_next t)) as [[r1 p] nid].
    destruct (get_at r1 p) as [[i s f]|]; [|inversion S; subst; auto].
    destruct (if n_removed i then None else n_val i); inversion S; subst; auto.
  - inversion S; subst; auto.
  - unfold do_rm in S. destruct (lookup (t_root t) k true) as [pl|]; [|inversion S; subst; auto].
    destruct (f_rm fx && _); [inversion S; subst; auto|]. destruct (node_deref _ pl). inversion S; subst; auto.
  - inversion S; subst; auto.
  - unfold do_notify_add in S. destruct (_ && has e TRIE_NOTIFY_FREE); [inversion S; subst; auto|].
    destruct (match k with Some kk => _ | None => _ end) as [[r1 p] nid].
    destruct (get_at r1 p) as [[i sg fc]|]; [|inversion S; subst; auto].
    destruct (existsb _ (n_nots i)); inversion S; subst; auto.
  - unfold do_notify_del in S. destruct (match k with Some kk => _ | None => _ end) as [p|]; [|inversion S; subst; auto].
    destruct (get_at (t_root t) p) as [[i sg fc]|]; [|inversion S; subst; auto].
    destruct (existsb _ (n_nots i)); inversion S; subst; auto.
  - unfold do_notify_del in S. destruct (match k with Some kk => _ | None => _ end) as [p|]; [|inversion S; subst; auto].
    destruct (get_at (t_root t) p) as [[i sg fc]|]; [|inversion S; subst; auto].
    destruct (existsb _ (n_nots i)); inversion S; subst; auto.
  - destruct (foreach_loop fx _ (t_root t) (new_iter None) stop 0 []) as [[r0 ev0]|]; inversion S; subst; auto.
Qed.

Lemma iters_nil_run : forall fx hs t outs t', t_iters t = [] -> run fx t (map iop_op hs) = (outs, Ok t') -> t_iters t' = [].
Proof.
  induction hs as [|o hs]; intros t outs t' IT R; simpl in R.
  - inversion R; subst; auto.
  - destruct (step fx t (iop_op o)) as [[[t1 r] evs]|e] eqn:S; [|discriminate].
    destruct (run fx t1 (map iop_op hs)) as [o1 fin] eqn:R1. inversion R; subst.
    eapply IHhs; [eapply iters_nil_step; eauto | exact R1].
Qed.

Lemma prefix_nodes_in_al : forall r pre i, t_seg r = [] -> pre <> [] -> In i (prefix_nodes r pre) -> In i (al_t r).
Proof.
  intros r pre i SG Hpre H. unfold prefix_nodes in H. destruct (look_t r pre false) as [pr|] eqn:L; [|destruct H].
  destruct (get_at r pr) as [sub|] eqn:Gs; [|destruct H].
  assert (Hpr : pr <> []).
  { destruct r as [i0 s0 f0]. simpl in SG. subst s0. cbn [look_t] in L. destruct pre; [congruence|]. simpl in L.
    destruct (look_f f0 (c2i b) pre false); inversion L. discriminate. }
  unfold self_l in H. apply in_app_or in H. destruct H as [H|H].
  - destruct (alive sub) eqn:A; [|destruct H]. destruct H as [H|[]]. subst i. apply in_al with (p := pr); auto.
  - destruct (proj1 al_in _ _ H) as [q [tn [Hq [G [E A]]]]]. subst i.
    apply in_al with (p := pr ++ q); auto.
    + destruct pr; [congruence|discriminate].
    + rewrite get_at_app, Gs. exact G.
Qed.

Definition kvfmt (kv : key * val) : out * list ev := (RKV (Some (Some (fst kv), Some (snd kv))), []).

Definition has_prefix (pre : key) (kv : key * val) : bool := is_prefix pre (fst kv).

(* C17 (trie, prefix iterator), all histories: after any valid history of put / get / rm / count / notifier add /
   del / foreach, a complete prefix iteration - qb_map_pref_iter_create, qb_map_iter_next until NULL, qb_map_iter_free -
   reaches no error state, returns exactly the entries of the enumeration whose key has the prefix, in the same
   (ascending) order, each once, and leaves the map exactly as it was (so the history can go on, with further
   iterations or anything else) *)
Theorem trie_prefix_iteration : forall fx hs h pre, f_rm fx = true -> valid_hist [] [] hs -> pre <> [] ->
  exists outs t' L, run fx trie_init (map iop_op hs) = (outs, Ok t') /\ full_ok [] [] hs outs /\
    enum (fst (spec_final [] [] hs)) L /\
    forall rest, run fx t' (prefix_ops h pre (length (filter (has_prefix pre) L)) ++ rest) =
                 ((RUnit, []) :: map kvfmt (filter (has_prefix pre) L) ++ (RKV None, []) :: (RUnit, []) :: fst (run fx t' rest),
                  snd (run fx t' rest)).
Proof.
  intros fx hs h pre Hfx Hv Hpre.
  destruct (run_full_inv fx hs trie_init [] [] Hfx inv4_init Hv) as [outs [t1 [R [FO FI]]]].
  pose proof (iters_nil_run fx hs trie_init outs t1 eq_refl R) as IT.
  destruct FI as [HI [IO NO]]. destruct (al_enum t1 _ HI IO) as [EN EQ].
  exists outs, t1, (map kv_of (al_t (t_root t1))). split; auto. split; auto. split; auto.
  intro rest.
  pose proof (prefix_nodes_filter t1 _ pre HI Hpre) as PF. unfold has_prefix. rewrite <- PF.
  rewrite map_length.
  rewrite (prefix_run fx t1 h pre rest (pctx_of_inv _ _ HI IO) IT Hpre).
  f_equal. f_equal. f_equal. rewrite map_map. apply map_ext_in. intros i Hi.
  pose proof (prefix_nodes_in_al _ _ _ (inv_hdr _ _ HI) Hpre Hi) as X.
  destruct (al_sound t1 _ i HI X) as [k [v [K [V _]]]].
  unfold kvout, kvfmt, kv_of. rewrite K, V. reflexivity.
Qed.
