(* C18 trie part, coverage (4): positions of iterators in key space; put, rm, create, free keep them. *)
From Coq Require Import List ZArith Bool Arith Lia.
Import ListNotations.
Require Import Verif.gen.Consts_trie Verif.MapTrieModel Verif.MapTrieSpec Verif.MapTrieProofs Verif.MapTrieProofs2
               Verif.MapTrieProofs3 Verif.MapTrieIter Verif.MapTrieIter2 Verif.MapTrieIds Verif.MapTrieIter3
               Verif.MapTrieIter4 Verif.MapTrieIter6 Verif.MapTrieOrder Verif.MapTrieKeys Verif.MapTrieSafe1
               Verif.MapTrieSafe2 Verif.MapTrieSafe3 Verif.MapTrieSafe4 Verif.MapTrieView Verif.MapTrieSafe5
               Verif.MapTrieSafe6 Verif.MapTrieSafe8 Verif.MapTriePos Verif.MapTrieCov1 Verif.MapTrieCov2 Verif.MapTrieCov3.

(* where an iterator stands, in terms of keys: before everything, on the entry with key k (present or removed
   meanwhile), or at the end *)
Inductive ipos := PStart | PAt (k : key) | PEnd.

Definition pos_ok (r : tnode) (it : iter) (pos : ipos) : Prop :=
  match it_n it with
  | None => pos = PEnd
  | Some 0 => pos = PStart
  | Some x => exists k, kof r x k /\ pos = PAt k
  end.

Definition pupd (s : nat -> ipos) (h : nat) (p : ipos) : nat -> ipos := fun h' => if h' =? h then p else s h'.

Record InvS (t : trie) (d : dict) (s : nat -> ipos) : Prop := {
  is_d : InvD t d;
  is_key : keyinv (t_root t);
  is_pos : forall h it, iters_get (t_iters t) h = Some it -> pos_ok (t_root t) it (s h)
}.

Lemma invs_init : forall s, InvS trie_init [] s.
Proof.
  intro s. constructor.
  - apply invd_init.
  - intros q Hq V. destruct q; [congruence|]. simpl in V. congruence.
  - intros h it G. discriminate.
Qed.

Lemma in_parked : forall its h it x, iters_get its h = Some it -> it_n it = Some x -> 1 <= parked its x.
Proof.
  intros its h it x G N. pose proof (parked_del _ _ _ x G) as X. unfold on_id in X. simpl in X. rewrite N, Nat.eqb_refl in X. lia.
Qed.

(* the positions of the iterators survive a change of the tree that keeps the stored key of every node an
   iterator stands on *)
Lemma pos_keep : forall r r' its s, (forall x k, x <> 0 -> 1 <= parked its x -> kof r x k -> kof r' x k) ->
  (forall h it, iters_get its h = Some it -> pos_ok r it (s h)) ->
  forall h it, iters_get its h = Some it -> pos_ok r' it (s h).
Proof.
  intros r r' its s KP HP h it G. specialize (HP h it G). unfold pos_ok in *.
  destruct (it_n it) as [x|] eqn:N; auto. destruct x as [|x']; auto.
  destruct HP as [k [K E]]. exists k. split; auto. apply KP; auto. eapply in_parked; eauto.
Qed.

(* the node an iterator stands on has a value, and its stored key is its string *)
Lemma parked_node : forall t p tn, SafT t -> keyinv (t_root t) -> get_at (t_root t) p = Some tn -> p <> [] ->
  1 <= parked (t_iters t) (n_id (t_info tn)) ->
  n_val (t_info tn) <> None /\ n_key (t_info tn) = Some (qstr (t_root t) p) /\
  pres (t_info tn) + parked (t_iters t) (n_id (t_info tn)) <= n_rc (t_info tn).
Proof.
  intros t p tn HS K G Hp P. unfold SafT in HS. destruct (pa_real _ _ _ _ _ HS G Hp) as [PAi _].
  pose proof (all_get_at _ _ _ _ (sf_wf _ _ _ HS) G) as [Wa _].
  assert (V : n_val (t_info tn) <> None). { intro Z. destruct (Wa Z) as [_ [R _]]. lia. }
  split; auto. split; auto.
  pose proof (obs_qstr _ _ _ G) as O. pose proof (K (qstr (t_root t) p) (qstr_nonempty p (t_root t) Hp)) as X.
  rewrite O in X. apply X. exact V.
Qed.

Lemma put_s : forall t d s k v, InvS t d s -> kvalid k -> InvS (fst (do_put FX_ALL t k v)) (d_put d k v) s.
Proof.
  intros t d s k v [HD HK HP] Hk. pose proof (put_d t d k v HD Hk) as PD. pose proof (iters_put t k v) as IT.
  destruct Hk as [Hne Hnz]. pose proof (id_saf _ _ HD) as HS. unfold SafT in HS.
  unfold do_put in *. destruct (ins_t FX_ALL (t_root t) k true (t_next t)) as [[r1 p] nid] eqn:I0.
  destruct (ins_ok FX_ALL _ _ (le_n _) _ _ _ _ _ _ (sf_wf _ _ _ HS) Hnz I0) as [O1 [L1 W1]].
  pose proof (saf_ins FX_ALL _ _ _ _ _ _ _ HS eq_refl Hne Hnz I0) as S1.
  destruct (upd_ok _ _ (le_n _) _ _ L1) as [tn [G1 [G2 [G3 [G4 G5]]]]]. rewrite G1 in *. destruct tn as [i sg fc]. simpl in G2.
  assert (Hp : p <> []).
  { pose proof (sf_seg _ _ _ S1) as Sg. destruct r1 as [i1 s1 f1]. simpl in Sg. subst s1. eapply hdr_look; eauto. }
  assert (K1 : keyinv r1). { intros q Hq V. rewrite O1 in *. apply HK; auto. }
  destruct (sf_ids _ _ _ HS) as [U [B _]].
  (* both branches end in an update of the node at p that stores key k and value v *)
  assert (FIN : forall G : ninfo -> ninfo, (forall i0, n_id (G i0) = n_id i0) -> n_key (G i) = Some k -> n_val (G i) = Some v ->
            keyinv (upd_t r1 p G) /\
            (forall x kx, x <> 0 -> 1 <= parked (t_iters t) x -> kof (t_root t) x kx -> kof (upd_t r1 p G) x kx)).
  { intros G Gid Gk Gv. split.
    - intros q Hq V. rewrite G4 in *. destruct (list_eq_dec Nat.eq_dec q k) as [e|e].
      + subst q. unfold core_of. simpl. exact Gk.
      + apply K1; auto.
    - intros x kx Hx Px Kx. apply kof_upd; auto.
      + eapply (kof_ins FX_ALL (t_root t) k (t_next t) r1 p nid x kx eq_refl U B (sf_wf _ _ _ HS) I0 Kx).
      + intros tn Gt Et. rewrite G1 in Gt. inversion Gt; subst tn. simpl in *.
        set (t1 := {| t_root := r1; t_len := t_len t; t_next := nid; t_iters := t_iters t |}).
        assert (P1 : 1 <= parked (t_iters t1) (n_id (t_info (TN i sg fc)))) by (simpl; rewrite Et; exact Px).
        destruct (parked_node t1 p (TN i sg fc) S1 K1 G1 Hp P1) as [_ [KK _]]. simpl in KK.
        rewrite KK, Gk. rewrite (look_istr _ _ (le_n _) _ _ L1). reflexivity. }
  destruct (if n_removed i then None else n_val i) as [ov|].
  - simpl in *. destruct (FIN (fun i0 => set_removed false (set_kv (Some k) (Some v) i0))) as [A B']; auto.
    constructor; simpl; auto. eapply pos_keep; eauto.
  - simpl in *. unfold node_ref in *. destruct p as [|j p']; [congruence|]. rewrite upd_upd in *.
    destruct (FIN (fun i0 => set_rc (S (n_rc (set_removed false (set_kv (Some k) (Some v) i0)))) (set_removed false (set_kv (Some k) (Some v) i0)))) as [A B']; auto.
    constructor; simpl; auto. eapply pos_keep; eauto.
Qed.

Lemma rm_s : forall t d s k, InvS t d s -> kvalid k -> InvS (fst (fst (do_rm FX_ALL t k))) (d_rm d k) s.
Proof.
  intros t d s k [HD HK HP] Hk. destruct (rm_d t d k HD Hk) as [_ RD]. pose proof (iters_rm t k) as IT.
  destruct Hk as [Hne Hnz]. pose proof (id_saf _ _ HD) as HS. unfold SafT in HS.
  unfold do_rm, lookup in *. destruct k as [|b k0] eqn:Ek; [congruence|]. rewrite <- Ek in *. clear Ek b k0.
  destruct (look_t (t_root t) k true) as [p|] eqn:L.
  2:{ constructor; auto. }
  destruct (upd_ok _ _ (le_n _) _ _ L) as [tn [G1 _]]. rewrite G1 in *. destruct tn as [i sg fc].
  assert (Hp : p <> []).
  { pose proof (sf_seg _ _ _ HS) as Sg. destruct (t_root t) as [i1 s1 f1]. simpl in Sg. subst s1. eapply hdr_look; eauto. }
  simpl f_rm in *. simpl f_removed in *. unfold alive in *. simpl t_info in *.
  destruct (present_i i) eqn:Pr; simpl in *.
  2:{ constructor; auto. }
  destruct (pa_real _ _ _ _ _ HS G1 Hp) as [PAi _]. simpl in PAi.
  pose proof (all_get_at _ _ _ _ (sf_wf _ _ _ HS) G1) as Wi. simpl in Wi. destruct Wi as [Wa [Wb Wc]].
  unfold present_i, alive_i in Pr. destruct (n_val i) as [v|] eqn:V; [|discriminate].
  apply andb_true_iff in Pr. destruct Pr as [Pr1 Pr2]. apply negb_true_iff in Pr2.
  assert (P1 : pres i = 1) by (unfold pres; rewrite V, Pr2; reflexivity).
  set (r0 := upd_t (t_root t) p (set_removed true)) in *.
  assert (S0 : Saf r0 (t_iters t) (t_next t)).
  { unfold r0. apply saf_upd with (tn := TN i sg fc); auto.
    - unfold wfi, set_removed. simpl. rewrite V. repeat split; auto; congruence.
    - right. unfold pres, set_removed in *. simpl. rewrite V in *. simpl. lia. }
  assert (G0 : get_at r0 p = Some (TN (set_removed true i) sg fc)) by (exact (get_at_upd _ _ (set_removed true) _ _ _ G1)).
  assert (K0 : keyinv r0) by (apply keyinv_upd; auto).
  pose proof (keyinv_deref r0 p _ (sf_wf _ _ _ S0) K0 G0 Hp) as KD.
  assert (KP : forall x kx, x <> 0 -> 1 <= parked (t_iters t) x -> kof (t_root t) x kx -> kof (fst (node_deref r0 p)) x kx).
  { intros x kx Hx Px Kx. apply kof_deref.
    - unfold r0. apply kof_upd; auto.
    - intros tn Gt Et. rewrite G0 in Gt. inversion Gt; subst tn. simpl in *. rewrite Et in PAi. lia. }
  destruct (node_deref r0 p) as [r1 evs]. simpl in *.
  constructor; simpl; auto. eapply pos_keep; eauto.
Qed.

Lemma get_set_same : forall its h it, iters_get (iters_set its h it) h = Some it.
Proof. intros. unfold iters_set. simpl. rewrite Nat.eqb_refl. reflexivity. Qed.

Lemma get_set_other : forall its h it h', h' <> h -> iters_get (iters_set its h it) h' = iters_get its h'.
Proof.
  intros. unfold iters_set. simpl. destruct (Nat.eqb_spec h h'); [congruence|]. apply get_del_other. auto.
Qed.

Lemma create_s : forall t d s h, InvS t d s ->
  InvS {| t_root := t_root t; t_len := t_len t; t_next := t_next t; t_iters := iters_set (t_iters t) h (new_iter None) |}
       d (pupd s h PStart).
Proof.
  intros t d s h [HD HK HP]. constructor; cbn [t_root t_iters t_len t_next]; auto.
  - destruct HD as [A B C D]. constructor; cbn [t_root t_iters t_len t_next]; auto. unfold SafT. cbn [t_root t_iters t_len t_next]. apply saf_iter_create. exact A.
  - intros h' it G. unfold pupd. destruct (Nat.eqb_spec h' h).
    + subst h'. rewrite get_set_same in G. inversion G; subst it. reflexivity.
    + rewrite get_set_other in G by auto. apply HP. exact G.
Qed.
