(* C18 - map iterators stay valid while entries are removed / added under them (hashtable + skiplist; the trie is
   in PropertiesTrie_C18.v).  Statements only; each is closed by `exact`.

   The pointer-level models (layer B: MapHashModel.v, MapSkipModel.v) carry an allocation status on every node
   and forward array; touching a freed one is the error state UseAfterFree / UseAfterFreeArr.
   REFUTED for the repository code at the time of writing (both containers, witnesses replayed on the real
   library under ASan: heap-use-after-free); proposed repairs in fixes/C18-*.patch.
   HASHTABLE, repaired code: C18_hashtable_memory_safe - for ALL histories (every interleaving of iterator
   create/next/free with put/get/rm/count/foreach/notify/destroy, any number of iterators, next after the end,
   abandoned iterators, any hash function and table size) the pointer-level model never reaches UseAfterFree,
   OutOfBounds, RefUnderflow or OutOfFuel - no error state at all (MapHashProofs3.v, invariant GoodP: refcount = presence + parked iterators >= 1,
   parked nodes are linked, linked nodes are live cells).
   C18_hashtable_survivors_dictionary - after any history, once all iterators are freed, the table behaves exactly
   like a dictionary of the surviving entries (MapHashProofs4.v).
   Otherwise PARTIAL for the repaired code: proved are (1) the witnesses no longer fail, (2) on layer A (MapRefModel.v, run
   against the library on every check) an iterator only ever returns entries that are present, with their
   current value, and nothing after it reported the end, (3) C17's theorems, which cover traversals abandoned via
   the callback.  MISSING (checked only by the ASan / monitor / correspondence run over generated interleavings):
   unreachability of the error state of layer B for all interleavings; "present throughout => returned (exactly
   once under removals only)"; dictionary behaviour once the iterators are gone, for histories with caller-held
   iterators. *)
From Coq Require Import ZArith List NArith Bool.
Require Import Verif.gen.Consts_map Verif.MapSpec Verif.MapHashModel Verif.MapSkipModel Verif.MapRefModel
  Verif.MapRefProofs Verif.MapHashProofs Verif.MapHashProofs2 Verif.MapHashProofs3 Verif.MapHashProofs4 Verif.MapSkipProofs.
Import ListNotations.

(* hashtable: put a; iterator parked on a; rm a; get a (still answers 1); rm a again (succeeds, frees the node);
   iter_next -> the iterator reads the freed node *)
Theorem C18_hashtable_refuted :
  snd (h_run v_orig hf8 rc_consts (h_create 8%N) h_wit18) = Some (UseAfterFree 0) /\
  outs (h_run v_orig hf8 rc_consts (h_create 8%N) h_wit18) =
  [ONone; ONone; ONext (Some (MapHashProofs.ka, 1%N)); OBool true; OVal 1%N; OBool true].
Proof. exact hash_c18_refuted_orig. Qed.
Print Assumptions C18_hashtable_refuted.

Theorem C18_hashtable_witness_fixed :
  snd (h_run v_fixed hf8 rc_consts (h_create 8%N) h_wit18) = None /\
  outs (h_run v_fixed hf8 rc_consts (h_create 8%N) h_wit18) =
  [ONone; ONone; ONext (Some (MapHashProofs.ka, 1%N)); OBool true; OVal 0%N; OBool false; ONext None].
Proof. exact hash_c18_witness_fixed. Qed.
Print Assumptions C18_hashtable_witness_fixed.

(* HASHTABLE, pointer-level model, repaired code: EVERY history runs to its end without reaching any error state:
   no freed or out-of-range cell is touched, no reference is dropped that is not held, and the qb_map_foreach loop
   stays within the model's fuel (the remaining bucket suffix strictly shrinks at every step). *)
Theorem C18_hashtable_memory_safe : forall hf rc m ops, snd (h_run v_fixed hf rc (h_create m) ops) = None.
Proof. exact hash_c18_no_error. Qed.
Print Assumptions C18_hashtable_memory_safe.

(* HASHTABLE, last clause of C18: after ANY history - iterators created, stepped, abandoned, entries removed and added
   under them - once every iterator has been freed (and the map is not destroyed) the pointer-level table is a
   dictionary of the surviving entries again: with the specification state whose dictionary is exactly the table's
   live (key, value) entries and whose subscriptions are the table's, every further history of put/get/rm/count/
   foreach/notify/destroy runs in lock step with the specification (outputs and notifier calls, C17's relation) *)
Theorem C18_hashtable_survivors_dictionary : forall hf rc m ops1 s,
  h_state_after v_fixed hf rc (h_create m) ops1 = Ok s -> h_iters s = [] -> h_alive s = true ->
  s_dict (spec_of (abs s)) = live_kv (abs s) /\
  forall ops2, no_iter_ops ops2 = true -> b_lockstep hf rc s (spec_of (abs s)) ops2.
Proof. exact hash_c18_survivors. Qed.
Print Assumptions C18_hashtable_survivors_dictionary.

(* ... because the table then satisfies the representation invariant of the dictionary refinement: no removed node is
   left, every reference count is 1, keys are distinct, the count is the number of entries *)
Theorem C18_hashtable_survivors_invariant : forall hf rc m ops s,
  h_state_after v_fixed hf rc (h_create m) ops = Ok s -> h_iters s = [] -> h_alive s = true -> Good hf s.
Proof. exact hash_survivors_good. Qed.
Print Assumptions C18_hashtable_survivors_invariant.

(* the invariant behind it, one API call from any state that satisfies it (or from a destroyed map) *)
Theorem C18_hashtable_invariant_step : forall hf rc s o, TopInv s ->
  exists s' x ns, h_step v_fixed hf rc s o = Ok (s', x, ns) /\ TopInv s'.
Proof. exact hash_step_total. Qed.
Print Assumptions C18_hashtable_invariant_step.

(* non-vacuity: the state with an iterator parked on a removed entry (the situation of the refutation above) satisfies
   the invariant in the repaired model: it is reached by a history from the empty table *)
Example C18_hashtable_invariant_example :
  match h_state_after v_fixed hf8 rc_consts (h_create 8%N) [Put MapHashProofs.ka 1%N; IterCreate 0 None; IterNext 0; Rm MapHashProofs.ka] with
  | Ok s => pcount (its s) 0 = 1 /\ exists n, deref (h_heap s) 0 = Ok n /\ hn_removed n = true /\ hn_ref n = 1
  | Err _ => False
  end.
Proof. exact c18_example_state. Qed.

(* skiplist (a): parked on the first entry b; rm b; rm c; iter_next reads the forward array freed by the second
   takeover.  (b): parked on c; rm c; rm its predecessor b (which frees the array c shares); iter_next *)
Theorem C18_skiplist_refuted_a : exists a, snd (k_run kv_orig k_create k_wit18a) = Some (UseAfterFreeArr a).
Proof. exact skip_c18_refuted_orig_a. Qed.
Print Assumptions C18_skiplist_refuted_a.
Theorem C18_skiplist_refuted_b : exists a, snd (k_run kv_orig k_create k_wit18b) = Some (UseAfterFreeArr a).
Proof. exact skip_c18_refuted_orig_b. Qed.
Print Assumptions C18_skiplist_refuted_b.

Theorem C18_skiplist_witness_fixed :
  snd (k_run kv_fixed k_create k_wit18a) = None /\ snd (k_run kv_fixed k_create k_wit18b) = None /\
  map fst (fst (k_run kv_fixed k_create k_wit18a)) =
    [ONone; ONone; ONone; ONext (Some (MapSkipProofs.kb, 1%N)); OBool true; OBool true; ONext None] /\
  nth 10 (map fst (fst (k_run kv_fixed k_create k_wit18b))) OIgnored = ONext (Some (MapSkipProofs.kd, 4%N)).
Proof. exact skip_c18_witness_fixed. Qed.
Print Assumptions C18_skiplist_witness_fixed.

(* layer A, every state, every iterator position: what iter_next returns is a present entry with its current value
   ("no key that was never present is returned") *)
Theorem C18_iterators_partial : forall r it p r' k v ns,
  a_iter_next r it p = (r', Some (k, v), ns) -> In (k, v) (live_kv r).
Proof. exact ref_iter_returns_present. Qed.
Print Assumptions C18_iterators_partial.

Theorem C18_end_is_final_partial : forall r it,
  fst (fst (a_iter_next r it PEnd)) = set_riters r (set_pos (r_iters r) it PEnd) /\ snd (fst (a_iter_next r it PEnd)) = None.
Proof. exact ref_iter_end_is_final. Qed.

(* traversals abandoned via the callback (qb_map_foreach returning early) leave a dictionary: C17's theorem covers
   every history made of put/get/rm/count/foreach(stop)/notify/destroy *)
Theorem C18_abandoned_traversal_dictionary_partial : forall before rc ops,
  no_iter_ops ops = true -> lockstep before rc r_init s_init ops.
Proof. exact ref_c17. Qed.
Print Assumptions C18_abandoned_traversal_dictionary_partial.

Example C18_example : forall before,
  snd (fst (a_iter_next (fst (fst (a_step before rc_hash (fst (fst (a_step before rc_hash r_init (Put [97%N] 5%N)))) (IterCreate 0 None))))
                        0 PStart)) = Some ([97%N], 5%N).
Proof. exact (fun _ => eq_refl). Qed.
