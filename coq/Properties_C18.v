(* TEMPORARY placeholder of builder maptrie so that ./check C18 runs stand-alone in this worktree.
   At merge take builder maphs' Properties_C18.v; the trie theorems are in PropertiesTrie_C18.v. *)
