(* C18 - map iterators stay valid while entries are removed / added under them (hashtable + skiplist; the trie is
   in PropertiesTrie_C18.v).  Statements only; each is closed by `exact`.

   The pointer-level models (layer B: MapHashModel.v, MapSkipModel.v) carry an allocation status on every node
   and forward array; touching a freed one is the error state UseAfterFree / UseAfterFreeArr.
   REFUTED for the repository code at the time of writing (both containers, witnesses replayed on the real
   library under ASan: heap-use-after-free); proposed repairs in fixes/C18-*.patch.
   PARTIAL for the repaired code: proved are (1) the witnesses no longer fail, (2) on layer A (MapRefModel.v, run
   against the library on every check) an iterator only ever returns entries that are present, with their
   current value, and nothing after it reported the end, (3) C17's theorems, which cover traversals abandoned via
   the callback.  MISSING (checked only by the ASan / monitor / correspondence run over generated interleavings):
   unreachability of the error state of layer B for all interleavings; "present throughout => returned (exactly
   once under removals only)"; dictionary behaviour once the iterators are gone, for histories with caller-held
   iterators. *)
From Coq Require Import ZArith List NArith Bool.
Require Import Verif.gen.Consts_map Verif.MapSpec Verif.MapHashModel Verif.MapSkipModel Verif.MapRefModel
  Verif.MapRefProofs Verif.MapHashProofs Verif.MapSkipProofs.
Import ListNotations.

(* hashtable: put a; iterator parked on a; rm a; get a (still answers 1); rm a again (succeeds, frees the node);
   iter_next -> the iterator reads the freed node *)
Theorem C18_hashtable_refuted :
  snd (h_run v_orig hf8 rc_consts (h_create 8%N) h_wit18) = Some (UseAfterFree 0) /\
  outs (h_run v_orig hf8 rc_consts (h_create 8%N) h_wit18) =
  [ONone; ONone; ONext (Some (MapHashProofs.ka, 1%N)); OBool true; OVal 1%N; OBool true].
Proof. exact hash_c18_refuted_orig. Qed.
Print Assumptions C18_hashtable_refuted.

Theorem C18_hashtable_witness_fixed :
  snd (h_run v_fixed hf8 rc_consts (h_create 8%N) h_wit18) = None /\
  outs (h_run v_fixed hf8 rc_consts (h_create 8%N) h_wit18) =
  [ONone; ONone; ONext (Some (MapHashProofs.ka, 1%N)); OBool true; OVal 0%N; OBool false; ONext None].
Proof. exact hash_c18_witness_fixed. Qed.
Print Assumptions C18_hashtable_witness_fixed.

(* skiplist (a): parked on the first entry b; rm b; rm c; iter_next reads the forward array freed by the second
   takeover.  (b): parked on c; rm c; rm its predecessor b (which frees the array c shares); iter_next *)
Theorem C18_skiplist_refuted_a : exists a, snd (k_run kv_orig k_create k_wit18a) = Some (UseAfterFreeArr a).
Proof. exact skip_c18_refuted_orig_a. Qed.
Print Assumptions C18_skiplist_refuted_a.
Theorem C18_skiplist_refuted_b : exists a, snd (k_run kv_orig k_create k_wit18b) = Some (UseAfterFreeArr a).
Proof. exact skip_c18_refuted_orig_b. Qed.
Print Assumptions C18_skiplist_refuted_b.

Theorem C18_skiplist_witness_fixed :
  snd (k_run kv_fixed k_create k_wit18a) = None /\ snd (k_run kv_fixed k_create k_wit18b) = None /\
  map fst (fst (k_run kv_fixed k_create k_wit18a)) =
    [ONone; ONone; ONone; ONext (Some (MapSkipProofs.kb, 1%N)); OBool true; OBool true; ONext None] /\
  nth 10 (map fst (fst (k_run kv_fixed k_create k_wit18b))) OIgnored = ONext (Some (MapSkipProofs.kd, 4%N)).
Proof. exact skip_c18_witness_fixed. Qed.
Print Assumptions C18_skiplist_witness_fixed.

(* layer A, every state, every iterator position: what iter_next returns is a present entry with its current value
   ("no key that was never present is returned") *)
Theorem C18_iterators_partial : forall r it p r' k v ns,
  a_iter_next r it p = (r', Some (k, v), ns) -> In (k, v) (live_kv r).
Proof. exact ref_iter_returns_present. Qed.
Print Assumptions C18_iterators_partial.

Theorem C18_end_is_final_partial : forall r it,
  fst (fst (a_iter_next r it PEnd)) = set_riters r (set_pos (r_iters r) it PEnd) /\ snd (fst (a_iter_next r it PEnd)) = None.
Proof. exact ref_iter_end_is_final. Qed.

(* traversals abandoned via the callback (qb_map_foreach returning early) leave a dictionary: C17's theorem covers
   every history made of put/get/rm/count/foreach(stop)/notify/destroy *)
Theorem C18_abandoned_traversal_dictionary_partial : forall before rc ops,
  no_iter_ops ops = true -> lockstep before rc r_init s_init ops.
Proof. exact ref_c17. Qed.
Print Assumptions C18_abandoned_traversal_dictionary_partial.

Example C18_example : forall before,
  snd (fst (a_iter_next (fst (fst (a_step before rc_hash (fst (fst (a_step before rc_hash r_init (Put [97%N] 5%N)))) (IterCreate 0 None))))
                        0 PStart)) = Some ([97%N], 5%N).
Proof. exact (fun _ => eq_refl). Qed.
