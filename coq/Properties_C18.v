(* C18 - map iterators stay valid while entries are removed / added under them (hashtable + skiplist; the trie is
   in PropertiesTrie_C18.v).  Statements only; each is closed by `exact`.

   The pointer-level models (layer B: MapHashModel.v, MapSkipModel.v) carry an allocation status on every node
   and forward array; touching a freed one is the error state UseAfterFree / UseAfterFreeArr.
   REFUTED for the repository code at the time of writing (both containers, witnesses replayed on the real
   library under ASan: heap-use-after-free); proposed repairs in fixes/C18-*.patch.
   HASHTABLE, repaired code: C18_hashtable_memory_safe - for ALL histories (every interleaving of iterator
   create/next/free with put/get/rm/count/foreach/notify/destroy, any number of iterators, next after the end,
   abandoned iterators, any hash function and table size) the pointer-level model never reaches UseAfterFree,
   OutOfBounds, RefUnderflow or OutOfFuel - no error state at all (MapHashProofs3.v, invariant GoodP: refcount = presence + parked iterators >= 1,
   parked nodes are linked, linked nodes are live cells).
   C18_hashtable_survivors_dictionary - after any history, once all iterators are freed, the table behaves exactly
   like a dictionary of the surviving entries (MapHashProofs4.v).
   C18_hashtable_coverage - present throughout => returned, exactly once when only removals happened (MapHashProofs6.v);
   C18_hashtable_returns_present - only present entries are returned.  With these C18 is proved in full for the
   pointer-level hashtable model.
   SKIPLIST, repaired code: C18_skiplist_memory_safe - for ALL histories (every interleaving of iterator
   create/next/free with put/get/rm/count/foreach/notify/destroy, any number of iterators, next after the end,
   abandoned iterators, every sequence of random() answers) the pointer-level model never reaches an error state
   (MapSkipProofs3.v; invariant: [SGood] of MapSkipProofs2.v - sorted level-0 chain, every level chain the filtered
   sub-chain, forward arrays owned exclusively - with reference count = 1 + parked iterators for linked nodes and
   the header, and the removed nodes that iterators still hold kept allocated, marked level -1, unlinked, owning
   their forward array, reference count = parked iterators >= 1).
   C18_skiplist_survivors_dictionary - after any history, once all iterators are freed, the list is a dictionary of
   the surviving entries, and no removed node is still allocated (MapSkipProofs4.v).
   C18_skiplist_coverage - present throughout => returned; returned keys strictly ascending per iterator, hence
   exactly once - even under insertions (MapSkipProofs5.v).  With these C18 is proved in full for the pointer-level
   skiplist model as well; the layer-A theorems below remain as the abstract view that is run against the library. *)
From Coq Require Import ZArith List NArith Bool.
Require Import Verif.gen.Consts_map Verif.MapSpec Verif.MapHashModel Verif.MapSkipModel Verif.MapRefModel
  Verif.MapRefProofs Verif.MapHashProofs Verif.MapHashProofs2 Verif.MapHashProofs3 Verif.MapHashProofs4 Verif.MapHashProofs5 Verif.MapHashProofs6 Verif.MapSkipProofs Verif.MapSkipProofs2 Verif.MapSkipProofs3 Verif.MapSkipProofs4 Verif.MapSkipProofs5.
Import ListNotations.

(* hashtable: put a; iterator parked on a; rm a; get a (still answers 1); rm a again (succeeds, frees the node);
   iter_next -> the iterator reads the freed node *)
Theorem C18_hashtable_refuted :
  snd (h_run v_orig hf8 rc_consts (h_create 8%N) h_wit18) = Some (UseAfterFree 0) /\
  outs (h_run v_orig hf8 rc_consts (h_create 8%N) h_wit18) =
  [ONone; ONone; ONext (Some (MapHashProofs.ka, 1%N)); OBool true; OVal 1%N; OBool true].
Proof. exact hash_c18_refuted_orig. Qed.
Print Assumptions C18_hashtable_refuted.

Theorem C18_hashtable_witness_fixed :
  snd (h_run v_fixed hf8 rc_consts (h_create 8%N) h_wit18) = None /\
  outs (h_run v_fixed hf8 rc_consts (h_create 8%N) h_wit18) =
  [ONone; ONone; ONext (Some (MapHashProofs.ka, 1%N)); OBool true; OVal 0%N; OBool false; ONext None].
Proof. exact hash_c18_witness_fixed. Qed.
Print Assumptions C18_hashtable_witness_fixed.

(* HASHTABLE, pointer-level model, repaired code: EVERY history runs to its end without reaching any error state:
   no freed or out-of-range cell is touched, no reference is dropped that is not held, and the qb_map_foreach loop
   stays within the model's fuel (the remaining bucket suffix strictly shrinks at every step). *)
Theorem C18_hashtable_memory_safe : forall hf rc m ops, snd (h_run v_fixed hf rc (h_create m) ops) = None.
Proof. exact hash_c18_no_error. Qed.
Print Assumptions C18_hashtable_memory_safe.

(* HASHTABLE, last clause of C18: after ANY history - iterators created, stepped, abandoned, entries removed and added
   under them - once every iterator has been freed (and the map is not destroyed) the pointer-level table is a
   dictionary of the surviving entries again: with the specification state whose dictionary is exactly the table's
   live (key, value) entries and whose subscriptions are the table's, every further history of put/get/rm/count/
   foreach/notify/destroy runs in lock step with the specification (outputs and notifier calls, C17's relation) *)
Theorem C18_hashtable_survivors_dictionary : forall hf rc m ops1 s,
  h_state_after v_fixed hf rc (h_create m) ops1 = Ok s -> h_iters s = [] -> h_alive s = true ->
  s_dict (spec_of (abs s)) = live_kv (abs s) /\
  forall ops2, no_iter_ops ops2 = true -> b_lockstep hf rc s (spec_of (abs s)) ops2.
Proof. exact hash_c18_survivors. Qed.
Print Assumptions C18_hashtable_survivors_dictionary.

(* ... because the table then satisfies the representation invariant of the dictionary refinement: no removed node is
   left, every reference count is 1, keys are distinct, the count is the number of entries *)
Theorem C18_hashtable_survivors_invariant : forall hf rc m ops s,
  h_state_after v_fixed hf rc (h_create m) ops = Ok s -> h_iters s = [] -> h_alive s = true -> Good hf s.
Proof. exact hash_survivors_good. Qed.
Print Assumptions C18_hashtable_survivors_invariant.

(* HASHTABLE, "no key that was never present is returned": in ANY state of the pointer-level model, whatever
   hashtable_iter_next returns is the key and the current value of a live cell that is not marked removed - an entry
   that is present at that moment - and the iterator is then parked on that node *)
Theorem C18_hashtable_returns_present : forall s hi s' hi' k x ns,
  h_iter_next v_fixed s hi = Ok (s', hi', Some (k, x), ns) ->
  exists id n, deref (h_heap s) id = Ok n /\ hn_removed n = false /\ hn_key n = k /\ hn_val n = x /\ hi_node hi' = Some id.
Proof. exact iter_next_returns_present. Qed.
Print Assumptions C18_hashtable_returns_present.

(* HASHTABLE, the coverage clauses of C18 for the pointer-level model, ALL histories (any interleaving, any number of
   iterators): next to the run a ghost record per open iterator keeps stable = the keys present when the iterator was
   created and not removed since, seen = the keys it returned, ins = whether a key was inserted since (g_step).
   g_run states that at EVERY iter_next (g_check):
     - if it returns a key and nothing was inserted since the iterator's creation, the key was not returned before
       ("exactly once if only removals happened meanwhile");
     - if it reports the end, every stable key has been returned ("every key present for the whole duration of the
       iteration is returned by it", also when entries were inserted: "at least once"). *)
Theorem C18_hashtable_coverage : forall hf rc m ops, g_run hf rc (h_create m) [] ops.
Proof. exact hash_c18_coverage. Qed.
Print Assumptions C18_hashtable_coverage.

(* the invariant of that proof, one call: from a state satisfying the memory / dictionary invariants and the
   per-iterator coverage invariant, the checks hold and the invariant holds again *)
Theorem C18_hashtable_coverage_step : forall hf rc s o s' x ns g, Top s -> GoodQ hf s -> CovAll s g ->
  h_step v_fixed hf rc s o = Ok (s', x, ns) ->
  g_check s o x g /\ (h_alive s' = true -> CovAll s' (g_step s o x g)).
Proof. exact cov_step. Qed.
Print Assumptions C18_hashtable_coverage_step.

Example C18_hashtable_coverage_example :
  g_run hf8 rc_consts (h_create 8%N) []
    [Put MapHashProofs.ka 1%N; Put MapHashProofs.kb 2%N; IterCreate 0 None; IterNext 0; Rm MapHashProofs.ka; Put [99%N] 3%N;
     IterNext 0; IterNext 0; IterNext 0; IterFree 0].
Proof. exact (hash_c18_coverage hf8 rc_consts 8%N _). Qed.

(* the invariant behind it, one API call from any state that satisfies it (or from a destroyed map) *)
Theorem C18_hashtable_invariant_step : forall hf rc s o, TopInv s ->
  exists s' x ns, h_step v_fixed hf rc s o = Ok (s', x, ns) /\ TopInv s'.
Proof. exact hash_step_total. Qed.
Print Assumptions C18_hashtable_invariant_step.

(* non-vacuity: the state with an iterator parked on a removed entry (the situation of the refutation above) satisfies
   the invariant in the repaired model: it is reached by a history from the empty table *)
Example C18_hashtable_invariant_example :
  match h_state_after v_fixed hf8 rc_consts (h_create 8%N) [Put MapHashProofs.ka 1%N; IterCreate 0 None; IterNext 0; Rm MapHashProofs.ka] with
  | Ok s => pcount (its s) 0 = 1 /\ exists n, deref (h_heap s) 0 = Ok n /\ hn_removed n = true /\ hn_ref n = 1
  | Err _ => False
  end.
Proof. exact c18_example_state. Qed.

(* skiplist (a): parked on the first entry b; rm b; rm c; iter_next reads the forward array freed by the second
   takeover.  (b): parked on c; rm c; rm its predecessor b (which frees the array c shares); iter_next *)
Theorem C18_skiplist_refuted_a : exists a, snd (k_run kv_orig k_create k_wit18a) = Some (UseAfterFreeArr a).
Proof. exact skip_c18_refuted_orig_a. Qed.
Print Assumptions C18_skiplist_refuted_a.
Theorem C18_skiplist_refuted_b : exists a, snd (k_run kv_orig k_create k_wit18b) = Some (UseAfterFreeArr a).
Proof. exact skip_c18_refuted_orig_b. Qed.
Print Assumptions C18_skiplist_refuted_b.

Theorem C18_skiplist_witness_fixed :
  snd (k_run kv_fixed k_create k_wit18a) = None /\ snd (k_run kv_fixed k_create k_wit18b) = None /\
  map fst (fst (k_run kv_fixed k_create k_wit18a)) =
    [ONone; ONone; ONone; ONext (Some (MapSkipProofs.kb, 1%N)); OBool true; OBool true; ONext None] /\
  nth 10 (map fst (fst (k_run kv_fixed k_create k_wit18b))) OIgnored = ONext (Some (MapSkipProofs.kd, 4%N)).
Proof. exact skip_c18_witness_fixed. Qed.
Print Assumptions C18_skiplist_witness_fixed.

(* skiplist, repaired code, pointer level: NO history reaches an error state (use after free of a node or of a forward
   array, double free, reference-count underflow, NULL dereference, exhausted fuel), whatever the random() answers *)
Theorem C18_skiplist_memory_safe : forall ops, snd (k_run kv_fixed k_create ops) = None.
Proof. exact skip_c18_no_error. Qed.
Print Assumptions C18_skiplist_memory_safe.

(* the same from any state satisfying the invariant, and the invariant is preserved by every API call *)
Theorem C18_skiplist_memory_safe_from : forall ops s, KTop s -> snd (k_run kv_fixed s ops) = None.
Proof. exact skip_c18_no_error_from. Qed.
Print Assumptions C18_skiplist_memory_safe_from.

Theorem C18_skiplist_invariant_step : forall rc s o orc, KTop s ->
  exists s' x ns, k_step kv_fixed rc s o orc = Ok (s', x, ns) /\ KTop s'.
Proof. exact skip_step_safe. Qed.
Print Assumptions C18_skiplist_invariant_step.

(* non-vacuity: put b; iterator stops on b; rm b - the node stays allocated, marked removed, held by the iterator alone *)
Example C18_skiplist_invariant_example :
  match k_state_after kv_fixed k_create [(Put MapSkipProofs.kb 1%N, lvl0); (IterCreate 0 None, []); (IterNext 0, []); (Rm MapSkipProofs.kb, [])] with
  | Ok s => k_iters s = [(0, Some 1)] /\ k_length s = 0%Z /\
            exists n, dnode s 1 = Ok n /\ sn_level n = (-1)%Z /\ sn_ref n = 1 /\ sn_key n = Some MapSkipProofs.kb
  | Err _ => False
  end.
Proof. exact skip_c18_example_state. Qed.

(* skiplist: after ANY history from the empty list - iterators created, advanced, abandoned mid-way, entries removed
   and added under them - once every iterator has been freed: the entries are in strictly ascending key order and
   every further iterator-free history runs in lock step with the dictionary specification started from exactly the
   surviving entries (outputs and notifier calls equal, no error) *)
Theorem C18_skiplist_survivors_dictionary : forall ops1 s,
  k_state_after kv_fixed k_create ops1 = Ok s -> k_iters s = [] -> k_alive s = true ->
  exists C0, s_dict (spec_of (kabs s C0)) = live_kv (kabs s C0) /\
    Sorted.StronglySorted (fun a b => key_ltb (fst a) (fst b) = true) (live_kv (kabs s C0)) /\
    forall rc ops2, no_iter_ops_k ops2 = true -> ks_lockstep rc s C0 (spec_of (kabs s C0)) ops2.
Proof. exact skip_c18_survivors. Qed.
Print Assumptions C18_skiplist_survivors_dictionary.

(* ... and the structure is then exactly a C17 skiplist: all reference counts 1, no removed node still allocated *)
Theorem C18_skiplist_survivors_invariant : forall ops1 s,
  k_state_after kv_fixed k_create ops1 = Ok s -> k_iters s = [] -> k_alive s = true -> exists C0, SGood17 s C0.
Proof. exact skip_c18_survivors_invariant. Qed.
Print Assumptions C18_skiplist_survivors_invariant.

(* skiplist, coverage: next to the run a ghost record per open iterator is kept as the Python monitor keeps it (stable =
   keys present at creation and not removed since; seen = keys returned so far; MapSkipProofs5.gk_step).  Along EVERY
   history (any interleaving of iterator operations with insertions and removals, any random() answers), at every
   iter_next (gk_check): a returned key is present and greater than every key the iterator returned before - so no key
   is returned twice, insertions or not - and when the end is reported every stable key has been returned *)
Theorem C18_skiplist_coverage : forall ops, gk_run k_create [] ops.
Proof. exact skip_c18_coverage. Qed.
Print Assumptions C18_skiplist_coverage.

Theorem C18_skiplist_coverage_step : forall rc s o orc g, (k_alive s = false \/ TCov s g) ->
  exists s' x ns, k_step kv_fixed rc s o orc = Ok (s', x, ns) /\ gk_check s o x g /\
    (k_alive s' = false \/ TCov s' (gk_step s o x g)).
Proof. exact skip_step_cov. Qed.
Print Assumptions C18_skiplist_coverage_step.

(* what iter_next computes from a parked position, linked or removed: the linked node with the least key above the
   key the iterator stands on (Succ), returned with its current value *)
Theorem C18_skiplist_next_successor : forall cnt zk s C0 Zs p, KInv cnt zk s C0 Zs -> 1 <= cnt p ->
  exists s' pos1 r ns Zs' b, k_iter_next kv_fixed s (Some p) = Ok (s', pos1, r, ns) /\
    KInv (match pos1 with Some x => dec (inc cnt x) p | None => dec cnt p end) zk s' C0 Zs' /\ same_tab s s' /\
    keys_same s s' C0 /\ (forall z, In z Zs' -> In z Zs) /\ (forall z, In z Zs -> z <> p \/ 2 <= cnt p -> In z Zs') /\
    PB s C0 Zs zk p b /\ Succ s C0 b pos1 /\ r = option_map (kvk' s') pos1.
Proof. exact kinv_iter_next. Qed.

(* non-vacuity: put b, put c, create, next (-> b), rm b, next (-> c): the record the checks are about *)
Example C18_skiplist_coverage_example :
  option_map snd (gk_after k_create [] [(Put MapSkipProofs.kb 1%N, lvl0); (Put MapSkipProofs.kc 2%N, lvl0); (IterCreate 0 None, []); (IterNext 0, []);
                                        (Rm MapSkipProofs.kb, []); (IterNext 0, [])]) =
  Some [(0, {| c_stable := [MapSkipProofs.kc]; c_seen := [MapSkipProofs.kc; MapSkipProofs.kb]; c_ins := false |})].
Proof. exact skip_c18_coverage_example. Qed.

(* layer A, every state, every iterator position: what iter_next returns is a present entry with its current value
   ("no key that was never present is returned") *)
Theorem C18_iterators_partial : forall r it p r' k v ns,
  a_iter_next r it p = (r', Some (k, v), ns) -> In (k, v) (live_kv r).
Proof. exact ref_iter_returns_present. Qed.
Print Assumptions C18_iterators_partial.

Theorem C18_end_is_final_partial : forall r it,
  fst (fst (a_iter_next r it PEnd)) = set_riters r (set_pos (r_iters r) it PEnd) /\ snd (fst (a_iter_next r it PEnd)) = None.
Proof. exact ref_iter_end_is_final. Qed.

(* traversals abandoned via the callback (qb_map_foreach returning early) leave a dictionary: C17's theorem covers
   every history made of put/get/rm/count/foreach(stop)/notify/destroy *)
Theorem C18_abandoned_traversal_dictionary_partial : forall before rc ops,
  no_iter_ops ops = true -> lockstep before rc r_init s_init ops.
Proof. exact ref_c17. Qed.
Print Assumptions C18_abandoned_traversal_dictionary_partial.

Example C18_example : forall before,
  snd (fst (a_iter_next (fst (fst (a_step before rc_hash (fst (fst (a_step before rc_hash r_init (Put [97%N] 5%N)))) (IterCreate 0 None))))
                        0 PStart)) = Some ([97%N], 5%N).
Proof. exact (fun _ => eq_refl). Qed.
